package main

import (
	"fmt"
	"go/ast"
	"go/parser"
	"go/token"
	"os"
	"path/filepath"
	"sort"
	"strconv"
	"strings"
)

// API facts (Gen/Api.lean): the route table of src/api/routes.go, the shape of every handler of
// src/api/pc_api.go and the request every client method of src/client/*.go sends.

type routeFact struct{ Verb, Path, Handler string }

type handlerFact struct {
	Name     string
	Params   []string // c.Param("x") in source order
	Atoi     []string // parameters converted with strconv.Atoi
	Bind     bool     // c.ShouldBindJSON
	Op       string   // api.project.<Op>
	Statuses []string // http.Status* constants used
}

type clientFact struct{ Func, Verb, Path string }

func apiRoutes(root string) ([]routeFact, error) {
	fset := token.NewFileSet()
	f, err := parser.ParseFile(fset, filepath.Join(root, "src/api/routes.go"), nil, 0)
	if err != nil {
		return nil, err
	}
	var out []routeFact
	ast.Inspect(f, func(n ast.Node) bool {
		call, ok := n.(*ast.CallExpr)
		if !ok || len(call.Args) != 2 {
			return true
		}
		se, ok := call.Fun.(*ast.SelectorExpr)
		if !ok {
			return true
		}
		if id, ok := se.X.(*ast.Ident); !ok || id.Name != "r" {
			return true
		}
		lit, ok := call.Args[0].(*ast.BasicLit)
		if !ok || lit.Kind != token.STRING {
			return true
		}
		path, _ := strconv.Unquote(lit.Value)
		h := "<func>"
		if hs, ok := call.Args[1].(*ast.SelectorExpr); ok {
			if id, ok := hs.X.(*ast.Ident); ok && id.Name == "handler" {
				h = hs.Sel.Name
			}
		} else if _, ok := call.Args[1].(*ast.CallExpr); ok {
			h = "<wrapped>"
		}
		out = append(out, routeFact{se.Sel.Name, path, h})
		return true
	})
	return out, nil
}

func paramOf(e ast.Expr) (string, bool) {
	call, ok := e.(*ast.CallExpr)
	if !ok || len(call.Args) != 1 {
		return "", false
	}
	se, ok := call.Fun.(*ast.SelectorExpr)
	if !ok || se.Sel.Name != "Param" {
		return "", false
	}
	if id, ok := se.X.(*ast.Ident); !ok || id.Name != "c" {
		return "", false
	}
	lit, ok := call.Args[0].(*ast.BasicLit)
	if !ok {
		return "", false
	}
	s, _ := strconv.Unquote(lit.Value)
	return s, true
}

func apiHandlers(root string) ([]handlerFact, error) {
	fset := token.NewFileSet()
	f, err := parser.ParseFile(fset, filepath.Join(root, "src/api/pc_api.go"), nil, 0)
	if err != nil {
		return nil, err
	}
	var out []handlerFact
	for _, d := range f.Decls {
		fd, ok := d.(*ast.FuncDecl)
		if !ok || fd.Recv == nil || fd.Body == nil || fd.Type.Params == nil || len(fd.Type.Params.List) != 1 {
			continue
		}
		// handlers take exactly (c *gin.Context)
		if st, ok := fd.Type.Params.List[0].Type.(*ast.StarExpr); !ok {
			continue
		} else if se, ok := st.X.(*ast.SelectorExpr); !ok || se.Sel.Name != "Context" {
			continue
		}
		h := handlerFact{Name: fd.Name.Name}
		stat := map[string]bool{}
		ast.Inspect(fd.Body, func(n ast.Node) bool {
			switch x := n.(type) {
			case *ast.CallExpr:
				if p, ok := paramOf(x); ok {
					h.Params = append(h.Params, p)
				}
				if se, ok := x.Fun.(*ast.SelectorExpr); ok {
					if id, ok := se.X.(*ast.Ident); ok && id.Name == "strconv" && se.Sel.Name == "Atoi" && len(x.Args) == 1 {
						if p, ok := paramOf(x.Args[0]); ok {
							h.Atoi = append(h.Atoi, p)
						}
					}
					if se.Sel.Name == "ShouldBindJSON" {
						h.Bind = true
					}
					if inner, ok := se.X.(*ast.SelectorExpr); ok && inner.Sel.Name == "project" {
						if id, ok := inner.X.(*ast.Ident); ok && id.Name == "api" {
							if h.Op != "" && h.Op != se.Sel.Name {
								h.Op += "+" + se.Sel.Name
							} else {
								h.Op = se.Sel.Name
							}
						}
					}
				}
			case *ast.SelectorExpr:
				if id, ok := x.X.(*ast.Ident); ok && id.Name == "http" && strings.HasPrefix(x.Sel.Name, "Status") {
					stat[x.Sel.Name] = true
				}
			}
			return true
		})
		for k := range stat {
			h.Statuses = append(h.Statuses, k)
		}
		sort.Strings(h.Statuses)
		out = append(out, h)
	}
	sort.Slice(out, func(i, j int) bool { return out[i].Name < out[j].Name })
	return out, nil
}

func apiClientCalls(root string) ([]clientFact, error) {
	files, _ := filepath.Glob(filepath.Join(root, "src/client/*.go"))
	sort.Strings(files)
	var out []clientFact
	for _, file := range files {
		if strings.HasSuffix(file, "_test.go") {
			continue
		}
		fset := token.NewFileSet()
		f, err := parser.ParseFile(fset, file, nil, 0)
		if err != nil {
			return nil, err
		}
		for _, d := range f.Decls {
			fd, ok := d.(*ast.FuncDecl)
			if !ok || fd.Body == nil {
				continue
			}
			url, verb := "", ""
			ast.Inspect(fd.Body, func(n ast.Node) bool {
				switch x := n.(type) {
				case *ast.CallExpr:
					se, ok := x.Fun.(*ast.SelectorExpr)
					if !ok {
						return true
					}
					if id, ok := se.X.(*ast.Ident); ok && id.Name == "fmt" && se.Sel.Name == "Sprintf" && len(x.Args) > 0 {
						if lit, ok := x.Args[0].(*ast.BasicLit); ok {
							s, _ := strconv.Unquote(lit.Value)
							if strings.HasPrefix(s, "http://%s") || strings.HasPrefix(s, "ws://%s") {
								url = strings.TrimPrefix(strings.TrimPrefix(s, "http://%s"), "ws://%s")
								if strings.HasPrefix(s, "ws://") {
									verb = "GET"
								}
							}
						}
					}
					if inner, ok := se.X.(*ast.SelectorExpr); ok && inner.Sel.Name == "client" {
						switch se.Sel.Name {
						case "Get":
							verb = "GET"
						case "Post":
							verb = "POST"
						}
					}
				case *ast.SelectorExpr:
					if id, ok := x.X.(*ast.Ident); ok && id.Name == "http" && strings.HasPrefix(x.Sel.Name, "Method") {
						verb = strings.ToUpper(strings.TrimPrefix(x.Sel.Name, "Method"))
					}
				}
				return true
			})
			if url != "" {
				out = append(out, clientFact{fd.Name.Name, verb, url})
			}
		}
	}
	sort.Slice(out, func(i, j int) bool { return out[i].Func < out[j].Func })
	return out, nil
}

// leanSegs renders a route pattern ("/process/:name") or a client URL format ("/process/%s") as a
// list of PC.Api.Seg; the query string is dropped; the flag tells whether it ended in a slash.
func leanSegs(pat string) (string, bool) {
	if i := strings.Index(pat, "?"); i >= 0 {
		pat = pat[:i]
	}
	parts := strings.Split(pat, "/")
	if len(parts) > 0 && parts[0] == "" {
		parts = parts[1:]
	}
	trailing := false
	if len(parts) > 0 && parts[len(parts)-1] == "" {
		trailing = len(parts) > 1 || pat == "/"
		parts = parts[:len(parts)-1]
	}
	out := []string{}
	n := 0
	for _, x := range parts {
		switch {
		case strings.HasPrefix(x, ":") || strings.HasPrefix(x, "*"):
			out = append(out, fmt.Sprintf(".par %q", x[1:]))
		case x == "%s" || x == "%d" || x == "%v":
			n++
			out = append(out, fmt.Sprintf(".par \"p%d\"", n))
		default:
			out = append(out, fmt.Sprintf(".lit %q", x))
		}
	}
	return "[" + strings.Join(out, ", ") + "]", trailing
}

func leanBool(b bool) string {
	if b {
		return "true"
	}
	return "false"
}

// writeApiFacts emits Gen/Api.lean.
func writeApiFacts(root, gen string, status map[string]string, facts map[string]any) {
	var b strings.Builder
	b.WriteString("-- GENERATED by /verif/extract from /repo's current source. Do not edit.\nimport PC.Model.ApiTypes\nnamespace PC.Gen.Api\nopen PC.Api\n\n")
	routes, e1 := apiRoutes(root)
	handlers, e2 := apiHandlers(root)
	calls, e3 := apiClientCalls(root)
	if e1 != nil || e2 != nil || e3 != nil {
		status["Api.facts"] = "ERROR"
		b.WriteString("def routes : List (String × List Seg × String) := []\n")
		b.WriteString("def handlers : List (String × List String × List String × Bool × String × List String) := []\n")
		b.WriteString("def clientCalls : List (String × String × List Seg × Bool) := []\n")
	} else {
		status["Api.routes"] = "ok"
		status["Api.handlers"] = "ok"
		status["Api.clientCalls"] = "ok"
		b.WriteString("/-- (verb, path pattern, handler) of every route registered in src/api/routes.go, in source order -/\n")
		b.WriteString("def routes : List (String × List Seg × String) := [\n")
		for i, r := range routes {
			sg, _ := leanSegs(r.Path)
			fmt.Fprintf(&b, "  (%q, %s, %q)", r.Verb, sg, r.Handler)
			if i < len(routes)-1 {
				b.WriteString(",")
			}
			b.WriteString("\n")
		}
		b.WriteString("]\n\n")
		b.WriteString("/-- per handler of src/api/pc_api.go: (name, path parameters read, parameters converted with strconv.Atoi,\n    binds a JSON body, IProject method called, HTTP status constants used) -/\n")
		b.WriteString("def handlers : List (String × List String × List String × Bool × String × List String) := [\n")
		for i, h := range handlers {
			fmt.Fprintf(&b, "  (%q, %s, %s, %s, %q, %s)", h.Name, leanStringList(h.Params), leanStringList(h.Atoi), leanBool(h.Bind), h.Op, leanStringList(h.Statuses))
			if i < len(handlers)-1 {
				b.WriteString(",")
			}
			b.WriteString("\n")
		}
		b.WriteString("]\n\n")
		b.WriteString("/-- per client function of src/client/*.go that builds a URL: (function, verb, path pattern of the URL format\n    after the host with the query dropped, whether the path ends in a slash) -/\n")
		b.WriteString("def clientCalls : List (String × String × List Seg × Bool) := [\n")
		for i, c := range calls {
			sg, tr := leanSegs(c.Path)
			fmt.Fprintf(&b, "  (%q, %q, %s, %s)", c.Func, c.Verb, sg, leanBool(tr))
			if i < len(calls)-1 {
				b.WriteString(",")
			}
			b.WriteString("\n")
		}
		b.WriteString("]\n\n")
		facts["apiRoutes"] = routes
		facts["apiHandlers"] = handlers
		facts["apiClientCalls"] = calls
	}
	b.WriteString("end PC.Gen.Api\n")
	target := filepath.Join(gen, "Api.lean")
	if cur, err := os.ReadFile(target); err != nil || string(cur) != b.String() {
		_ = os.WriteFile(target, []byte(b.String()), 0o644)
	}
}
