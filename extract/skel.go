package main

// Code-shape tie: for the functions the models were written against (skel_map.json, per property)
// the normalised statement skeleton of the function — its source with comments, logging and
// verification-hook statements removed, printed by go/printer one line per list element — is
// regenerated into Gen/Skel.lean; Gen/SkelTie<Cxx>.lean states, function by function, that it is
// the skeleton recorded in the hand-kept PC/Model/Skel.lean (closed by `rfl`).

import (
	"bytes"
	"encoding/json"
	"fmt"
	"go/ast"
	"go/parser"
	"go/printer"
	"go/token"
	"os"
	"path/filepath"
	"sort"
	"strings"
)

type skelFn struct {
	Key   string   // Lean identifier
	Title string   // file:Recv.Func
	Lines []string // skeleton
}

func recvName(fd *ast.FuncDecl) string {
	if fd.Recv == nil || len(fd.Recv.List) == 0 {
		return ""
	}
	t := fd.Recv.List[0].Type
	if s, ok := t.(*ast.StarExpr); ok {
		t = s.X
	}
	if ix, ok := t.(*ast.IndexExpr); ok {
		t = ix.X
	}
	if id, ok := t.(*ast.Ident); ok {
		return id.Name
	}
	return "?"
}

// rootIdent: the identifier a call chain starts from (`log.Info().Msgf(..)` -> log)
func rootIdent(e ast.Expr) string {
	for {
		switch x := e.(type) {
		case *ast.CallExpr:
			e = x.Fun
		case *ast.SelectorExpr:
			e = x.X
		case *ast.Ident:
			return x.Name
		case *ast.ParenExpr:
			e = x.X
		default:
			return ""
		}
	}
}

func isNoise(call ast.Expr) bool {
	r := rootIdent(call)
	return r == "log" || r == "verif"
}

// stripNoise removes logging / hook statements from every statement list below n
func stripNoise(n ast.Node) {
	filter := func(list []ast.Stmt) []ast.Stmt {
		out := list[:0:0]
		for _, s := range list {
			switch x := s.(type) {
			case *ast.ExprStmt:
				if isNoise(x.X) {
					continue
				}
			case *ast.DeferStmt:
				if isNoise(x.Call) {
					continue
				}
			case *ast.GoStmt:
				if isNoise(x.Call) {
					continue
				}
			}
			out = append(out, s)
		}
		return out
	}
	ast.Inspect(n, func(m ast.Node) bool {
		switch x := m.(type) {
		case *ast.BlockStmt:
			x.List = filter(x.List)
		case *ast.CaseClause:
			x.Body = filter(x.Body)
		case *ast.CommClause:
			x.Body = filter(x.Body)
		}
		return true
	})
}

func leanIdent(s string) string {
	var b strings.Builder
	for _, c := range s {
		if (c >= 'a' && c <= 'z') || (c >= 'A' && c <= 'Z') || (c >= '0' && c <= '9') {
			b.WriteRune(c)
		} else {
			b.WriteRune('_')
		}
	}
	return b.String()
}

func fileTag(file string) string {
	base := strings.TrimSuffix(filepath.Base(file), ".go")
	dir := filepath.Base(filepath.Dir(file))
	return leanIdent(dir + "_" + base)
}

func skeletonsOf(root, file string) (map[string]*skelFn, []string, error) {
	fset := token.NewFileSet()
	f, err := parser.ParseFile(fset, filepath.Join(root, file), nil, 0)
	if err != nil {
		return nil, nil, err
	}
	out := map[string]*skelFn{}
	order := []string{}
	for _, d := range f.Decls {
		fd, ok := d.(*ast.FuncDecl)
		if !ok || fd.Body == nil {
			continue
		}
		fd.Doc = nil
		stripNoise(fd)
		var buf bytes.Buffer
		cfg := printer.Config{Mode: printer.UseSpaces, Tabwidth: 1}
		if err := cfg.Fprint(&buf, token.NewFileSet(), fd); err != nil {
			return nil, nil, err
		}
		lines := []string{}
		for _, l := range strings.Split(buf.String(), "\n") {
			l = strings.Join(strings.Fields(l), " ")
			if l != "" {
				lines = append(lines, l)
			}
		}
		name := fd.Name.Name
		if r := recvName(fd); r != "" {
			name = r + "." + name
		}
		out[name] = &skelFn{Key: fileTag(file) + "__" + leanIdent(name), Title: file + ":" + name, Lines: lines}
		order = append(order, name)
	}
	return out, order, nil
}

func leanLines(l []string) string {
	var b strings.Builder
	b.WriteString("[")
	for i, s := range l {
		if i > 0 {
			b.WriteString(",")
		}
		b.WriteString("\n  ")
		b.WriteString(leanStr(s))
	}
	b.WriteString("]")
	return b.String()
}

// leanStr: a Lean string literal (ASCII escapes only; anything else as \uXXXX)
func leanStr(s string) string {
	var b strings.Builder
	b.WriteByte('"')
	for _, c := range s {
		switch {
		case c == '"':
			b.WriteString("\\\"")
		case c == '\\':
			b.WriteString("\\\\")
		case c == '\n':
			b.WriteString("\\n")
		case c == '\t':
			b.WriteString("\\t")
		case c < 0x20 || c > 0x7e:
			if c > 0xffff {
				b.WriteString("?")
			} else {
				fmt.Fprintf(&b, "\\u%04x", c)
			}
		default:
			b.WriteRune(c)
		}
	}
	b.WriteByte('"')
	return b.String()
}

func writeIfChanged(target, content string) {
	if cur, err := os.ReadFile(target); err != nil || string(cur) != content {
		_ = os.WriteFile(target, []byte(content), 0o644)
	}
}

// writeSkel regenerates Gen/Skel.lean and Gen/SkelTie<Cxx>.lean; with snapshot != "" it also
// writes the model-side file (used once, to create PC/Model/Skel.lean, which is then kept by hand).
func writeSkel(root, gen, mapFile, snapshot string, status map[string]string, facts map[string]any) {
	raw, err := os.ReadFile(mapFile)
	if err != nil {
		status["Skel"] = "ERROR: " + err.Error()
		return
	}
	var m map[string][]string
	if err := json.Unmarshal(raw, &m); err != nil {
		status["Skel"] = "ERROR: " + err.Error()
		return
	}
	cache := map[string]map[string]*skelFn{}
	orders := map[string][]string{}
	load := func(file string) (map[string]*skelFn, []string) {
		if c, ok := cache[file]; ok {
			return c, orders[file]
		}
		c, o, err := skeletonsOf(root, file)
		if err != nil {
			c, o = map[string]*skelFn{}, nil
		}
		cache[file], orders[file] = c, o
		return c, o
	}
	all := map[string]*skelFn{} // by Lean key
	perProp := map[string][]string{}
	props := []string{}
	for p := range m {
		props = append(props, p)
	}
	sort.Strings(props)
	for _, p := range props {
		seen := map[string]bool{}
		for _, spec := range m[p] {
			i := strings.LastIndex(spec, ":")
			file, fn := spec[:i], spec[i+1:]
			c, order := load(file)
			names := []string{fn}
			if fn == "*" {
				names = order
				// the list of functions of the file itself (an added or removed function is a change too)
				nk := fileTag(file) + "__names"
				all[nk] = &skelFn{Key: nk, Title: file + ": its functions", Lines: order}
				if !seen[nk] {
					seen[nk] = true
					perProp[p] = append(perProp[p], nk)
				}
			}
			for _, n := range names {
				sf, ok := c[n]
				if !ok {
					sf = &skelFn{Key: fileTag(file) + "__" + leanIdent(n), Title: file + ":" + n, Lines: []string{"<function not found>"}}
				}
				all[sf.Key] = sf
				if !seen[sf.Key] {
					seen[sf.Key] = true
					perProp[p] = append(perProp[p], sf.Key)
				}
			}
		}
	}
	keys := []string{}
	for k := range all {
		keys = append(keys, k)
	}
	sort.Strings(keys)
	body := func(ns string) string {
		var b strings.Builder
		for _, k := range keys {
			fmt.Fprintf(&b, "/-- %s -/\ndef %s : List String := %s\n\n", all[k].Title, k, leanLines(all[k].Lines))
		}
		return b.String()
	}
	writeIfChanged(filepath.Join(gen, "Skel.lean"),
		"-- GENERATED by /verif/extract from /repo's current source. Do not edit.\nnamespace PC.Gen.Skel\n\n"+body("")+"end PC.Gen.Skel\n")
	if snapshot != "" {
		writeIfChanged(snapshot,
			"/-! The statement skeletons (source without comments, logging and verification hooks) of the functions\n    the models of this library were written against — one list per function, kept by hand. The\n    generated `PC/Gen/Skel.lean` holds the same for /repo's current source and `PC/Gen/SkelTie*.lean`\n    states their equality function by function: a change of one of these functions breaks that tie\n    and has to be answered by reviewing the model (and then updating the list here). -/\nnamespace PC.Skel\n\n"+body("")+"end PC.Skel\n")
	}
	skelFacts := map[string]any{}
	for _, p := range props {
		var b strings.Builder
		fmt.Fprintf(&b, "-- GENERATED by /verif/extract. Do not edit.\nimport PC.Gen.Skel\nimport PC.Model.Skel\n/-! code-shape tie for %s: each function is still the one the model was written against -/\nnamespace PC.Gen.SkelTie%s\n\n", p, p)
		for _, k := range perProp[p] {
			fmt.Fprintf(&b, "theorem %s_eq : PC.Gen.Skel.%s = PC.Skel.%s := rfl\n", k, k, k)
		}
		fmt.Fprintf(&b, "\nend PC.Gen.SkelTie%s\n", p)
		writeIfChanged(filepath.Join(gen, "SkelTie"+p+".lean"), b.String())
		skelFacts[p] = perProp[p]
		status["SkelTie"+p] = "ok"
	}
	facts["skeletons"] = skelFacts
}
