package main

import (
	"go/ast"
	"go/parser"
	"go/token"
	"path/filepath"
	"sort"
	"strings"
)

// structFields lists the field names of a struct type declared in file.
func structFields(root, file, typeName string) ([]string, error) {
	fset := token.NewFileSet()
	f, err := parser.ParseFile(fset, filepath.Join(root, file), nil, 0)
	if err != nil {
		return nil, err
	}
	var out []string
	ast.Inspect(f, func(n ast.Node) bool {
		ts, ok := n.(*ast.TypeSpec)
		if !ok || ts.Name.Name != typeName {
			return true
		}
		if st, ok := ts.Type.(*ast.StructType); ok {
			for _, fl := range st.Fields.List {
				for _, nm := range fl.Names {
					out = append(out, nm.Name)
				}
			}
		}
		return false
	})
	return out, nil
}

// comparedFields lists the fields X such that `p.X` is compared with `another.X` in func Compare.
func comparedFields(root, file, recv, fn string) ([]string, error) {
	fset := token.NewFileSet()
	f, err := parser.ParseFile(fset, filepath.Join(root, file), nil, 0)
	if err != nil {
		return nil, err
	}
	set := map[string]bool{}
	for _, d := range f.Decls {
		fd, ok := d.(*ast.FuncDecl)
		if !ok || fd.Name.Name != fn || fd.Recv == nil || fd.Body == nil {
			continue
		}
		pSel := map[string]bool{}
		aSel := map[string]bool{}
		ast.Inspect(fd.Body, func(n ast.Node) bool {
			se, ok := n.(*ast.SelectorExpr)
			if !ok {
				return true
			}
			if id, ok := se.X.(*ast.Ident); ok {
				if id.Name == "p" {
					pSel[se.Sel.Name] = true
				}
				if id.Name == "another" {
					aSel[se.Sel.Name] = true
				}
			}
			return true
		})
		for k := range pSel {
			if aSel[k] {
				set[k] = true
			}
		}
	}
	out := []string{}
	for k := range set {
		out = append(out, k)
	}
	sort.Strings(out)
	return out, nil
}

func leanStringList(l []string) string {
	q := make([]string, len(l))
	for i, s := range l {
		q[i] = "\"" + s + "\""
	}
	return "[" + strings.Join(q, ", ") + "]"
}
