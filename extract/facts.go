package main

import (
	"go/ast"
	"go/parser"
	"go/token"
	"os"
	"path/filepath"
	"sort"
	"strings"
)

// structFields lists the field names of a struct type declared in file.
func structFields(root, file, typeName string) ([]string, error) {
	fset := token.NewFileSet()
	f, err := parser.ParseFile(fset, filepath.Join(root, file), nil, 0)
	if err != nil {
		return nil, err
	}
	var out []string
	ast.Inspect(f, func(n ast.Node) bool {
		ts, ok := n.(*ast.TypeSpec)
		if !ok || ts.Name.Name != typeName {
			return true
		}
		if st, ok := ts.Type.(*ast.StructType); ok {
			for _, fl := range st.Fields.List {
				for _, nm := range fl.Names {
					out = append(out, nm.Name)
				}
			}
		}
		return false
	})
	return out, nil
}

// comparedFields lists the fields X such that `p.X` is compared with `another.X` in func Compare.
func comparedFields(root, file, recv, fn string) ([]string, error) {
	fset := token.NewFileSet()
	f, err := parser.ParseFile(fset, filepath.Join(root, file), nil, 0)
	if err != nil {
		return nil, err
	}
	set := map[string]bool{}
	for _, d := range f.Decls {
		fd, ok := d.(*ast.FuncDecl)
		if !ok || fd.Name.Name != fn || fd.Recv == nil || fd.Body == nil {
			continue
		}
		pSel := map[string]bool{}
		aSel := map[string]bool{}
		ast.Inspect(fd.Body, func(n ast.Node) bool {
			se, ok := n.(*ast.SelectorExpr)
			if !ok {
				return true
			}
			if id, ok := se.X.(*ast.Ident); ok {
				if id.Name == "p" {
					pSel[se.Sel.Name] = true
				}
				if id.Name == "another" {
					aSel[se.Sel.Name] = true
				}
			}
			return true
		})
		for k := range pSel {
			if aSel[k] {
				set[k] = true
			}
		}
	}
	out := []string{}
	for k := range set {
		out = append(out, k)
	}
	sort.Strings(out)
	return out, nil
}

func leanStringList(l []string) string {
	q := make([]string, len(l))
	for i, s := range l {
		q[i] = "\"" + s + "\""
	}
	return "[" + strings.Join(q, ", ") + "]"
}

// stopCallSites lists the `p.command.Stop(sig, parentOnly)` calls of src/app/process.go:
// (enclosing function, source text of the signal argument, source text of the parent-only argument).
func stopCallSites(root string) ([][3]string, error) {
	fset := token.NewFileSet()
	file := filepath.Join(root, "src/app/process.go")
	src, err := os.ReadFile(file)
	if err != nil {
		return nil, err
	}
	f, err := parser.ParseFile(fset, file, src, 0)
	if err != nil {
		return nil, err
	}
	text := func(e ast.Expr) string {
		return strings.Join(strings.Fields(string(src[fset.Position(e.Pos()).Offset:fset.Position(e.End()).Offset])), " ")
	}
	var out [][3]string
	for _, d := range f.Decls {
		fd, ok := d.(*ast.FuncDecl)
		if !ok || fd.Body == nil {
			continue
		}
		ast.Inspect(fd.Body, func(n ast.Node) bool {
			call, ok := n.(*ast.CallExpr)
			if !ok || len(call.Args) != 2 {
				return true
			}
			se, ok := call.Fun.(*ast.SelectorExpr)
			if !ok || se.Sel.Name != "Stop" {
				return true
			}
			if inner, ok := se.X.(*ast.SelectorExpr); ok && inner.Sel.Name == "command" {
				out = append(out, [3]string{fd.Name.Name, text(call.Args[0]), text(call.Args[1])})
			}
			return true
		})
	}
	return out, nil
}
