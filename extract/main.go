// extract: regenerates /verif/lean/PC/Gen/*.lean from /repo's current source.
//
//	extract <repo-root> <gen-dir> <facts.json>
package main

import (
	"encoding/json"
	"fmt"
	"go/ast"
	"go/parser"
	"go/token"
	"os"
	"path/filepath"
	"sort"
	"strings"
)

type genFile struct {
	Name    string // file name without .lean
	Imports []string
	Opens   []string
	Funcs   []*FuncSpec
	Consts  []constSpec
}

type constSpec struct {
	File, Name, LeanName, LeanType string
}

var files = []genFile{
	{
		Name: "LogBuf", Imports: []string{"PC.Go.Slice"}, Opens: []string{"PC.Go"},
		Consts: []constSpec{{"src/pclog/process_log_buffer.go", "slack", "slack", "Nat"}},
		Funcs: []*FuncSpec{{
			File: "src/pclog/process_log_buffer.go", Recv: "ProcessLogBuffer", Name: "getLogRange",
			LeanName: "getLogRange",
			LeanSig:  "(buffer : List String) (offsetFromEnd limit : Int) : Option (List String)",
			Subst: map[string]string{
				"len(b.buffer)": "(buffer.length : Int)",
				"b.buffer":      "buffer",
				"[]string{}":    "some []",
			},
		}},
	},
	{
		Name: "Restart",
		Funcs: []*FuncSpec{
			{
				File: "src/app/process.go", Recv: "Process", Name: "isRestartable",
				LeanName: "isRestartable",
				LeanSig:  "(policy : String) (maxRestarts restarts code : Int) (stopped : Bool) : Bool",
				Subst: map[string]string{
					"p.getExitCode()":                      "code",
					"p.isStopped.Swap(false)":              "stopped",
					"p.procConf.RestartPolicy.Restart":     "policy",
					"p.procConf.RestartPolicy.MaxRestarts": "maxRestarts",
					"p.procState.Restarts":                 "restarts",
					"p.getRestarts()":                      "restarts",
				},
				Consts: map[string][2]string{
					"types.RestartPolicyNo":            {"src/types/process.go", "RestartPolicyNo"},
					"types.RestartPolicyAlways":        {"src/types/process.go", "RestartPolicyAlways"},
					"types.RestartPolicyOnFailure":     {"src/types/process.go", "RestartPolicyOnFailure"},
					"types.RestartPolicyExitOnFailure": {"src/types/process.go", "RestartPolicyExitOnFailure"},
				},
				Ignore: []string{"p.Lock()", "p.Unlock()"},
				Ret:    "decide (%s)",
			},
			{
				File: "src/app/process.go", Recv: "Process", Name: "getBackoff",
				LeanName: "getBackoffSeconds",
				LeanSig:  "(backoffSeconds : Int) : Int",
				Subst: map[string]string{
					"p.procConf.RestartPolicy.BackoffSeconds": "backoffSeconds",
					"time.Duration(backoff) * time.Second":    "backoff",
				},
				Ignore: []string{"if d, ok := verifBackoff(p)"},
			},
		},
	},
	{
		Name: "Trigger",
		Funcs: []*FuncSpec{
			{
				File: "src/app/project_runner.go", Recv: "ProjectRunner", Name: "onProcessEnd",
				LeanName: "triggerOnEnd",
				LeanSig:  "(exitCode : Int) (restart : String) (exitOnEnd : Bool) : Option Int",
				Subst: map[string]string{
					"procConf.RestartPolicy.Restart":   "restart",
					"procConf.RestartPolicy.ExitOnEnd": "(exitOnEnd = true)",
				},
				Consts: map[string][2]string{"types.RestartPolicyExitOnFailure": {"src/types/process.go", "RestartPolicyExitOnFailure"}},
				Ignore: []string{"p.exitCodeOnce.Do(", "verif."},
				Calls:  map[string]string{"_ = p.ShutDownProject()": "some exitCode"},
				Final:  "none",
			},
			{
				File: "src/app/project_runner.go", Recv: "ProjectRunner", Name: "onProcessSkipped",
				LeanName: "triggerOnSkipped",
				LeanSig:  "(exitOnSkipped : Bool) : Option Int",
				Subst:    map[string]string{"procConf.RestartPolicy.ExitOnSkipped": "(exitOnSkipped = true)"},
				Ignore:   []string{"p.exitCodeOnce.Do(", "verif."},
				Calls:    map[string]string{"_ = p.ShutDownProject()": "some 1"},
				Final:    "none",
			},
		},
	},
	{
		Name: "Probe", Imports: []string{"PC.Go.Atoi", "PC.Model.ProbeTypes"}, Opens: []string{"PC.Go", "PC.Probe"},
		Funcs: []*FuncSpec{
			{
				File: "src/health/probe.go", Recv: "Probe", Name: "ValidateAndSetDefaults",
				LeanName: "validateAndSetDefaults",
				LeanSig:  "(p : ProbeNums) : ProbeNums",
				Fields: map[string]string{
					"p.InitialDelay": "p.initialDelay", "p.PeriodSeconds": "p.periodSeconds", "p.TimeoutSeconds": "p.timeoutSeconds",
					"p.SuccessThreshold": "p.successThreshold", "p.FailureThreshold": "p.failureThreshold",
				},
				Subst: map[string]string{
					"p.InitialDelay": "p.initialDelay", "p.PeriodSeconds": "p.periodSeconds", "p.TimeoutSeconds": "p.timeoutSeconds",
					"p.SuccessThreshold": "p.successThreshold", "p.FailureThreshold": "p.failureThreshold",
				},
				Ignore: []string{"if p.HttpGet != nil"},
				Final:  "p",
			},
			{
				File: "src/health/probe.go", Recv: "HttpProbe", Name: "validateAndSetHttpDefaults",
				LeanName: "httpNumPort",
				LeanSig:  "(port : String) (numPort : Int) : Int",
				Fields:   map[string]string{"p.NumPort": "numPort"},
				Subst: map[string]string{
					"p.NumPort": "numPort", "p.Port": "port", "strconv.Atoi(p.Port)": "(atoi port).1",
				},
				Ignore: []string{"if len(strings.TrimSpace("},
				Final:  "numPort",
			},
			{
				File: "src/health/health_checks.go", Recv: "Prober", Name: "healthCheckCompleted",
				LeanName: "healthCheckCompleted",
				LeanSig:  "(failureThreshold contiguousFailures : Int) (status : String) (stopped : Bool) : Option (Bool × Bool)",
				Subst: map[string]string{
					"state.ContiguousFailures":        "contiguousFailures",
					"int64(p.probe.FailureThreshold)": "failureThreshold",
					"state.Status":                    "status",
					"p.stopped.Load()":                "stopped",
				},
				Consts: map[string][2]string{"OK": {"src/health/health_checks.go", "OK"}},
				Calls:  map[string]string{"p.onCheckEndFunc(ok, fatal, state.Err)": "some (ok, fatal)"},
				Final:  "none",
			},
		},
	},
	{
		Name: "Env", Imports: []string{"PC.Go.Expand"}, Opens: []string{"PC.Go"},
		Funcs: []*FuncSpec{
			{
				File: "src/loader/loader.go", Recv: "", Name: "loadProjectFromFile",
				LeanName: "loadText",
				LeanSig:  "(mapping : List Char → List Char) (yamlFile : List Char) : List Char",
				OnlyVar:  "temp",
				Final:    "temp",
				Subst: map[string]string{
					`strings.ReplaceAll(string(yamlFile), "$$", envEscaped)`: `replaceAll yamlFile "$$".toList envEscaped`,
					`os.ExpandEnv(temp)`:                        `expand mapping temp`,
					`strings.ReplaceAll(temp, envEscaped, "$")`: `replaceAll temp envEscaped "$".toList`,
				},
			},
			{
				File: "src/app/process.go", Recv: "Process", Name: "getProcessEnvironment",
				LeanName: "processEnv",
				LeanSig:  "(name : String) (replica : Nat) (inherited global own : List (String × String)) : List (String × String)",
				Subst: map[string]string{
					`[]string{}`:                             `([] : List (String × String))`,
					`append(env, os.Environ()...)`:           `env ++ inherited`,
					`append(env, p.globalEnv...)`:            `env ++ global`,
					`append(env, p.procConf.Environment...)`: `env ++ own`,
					`append(env, "PC_PROC_NAME="+p.procConf.Name, EnvReplicaNum+"="+strconv.Itoa(p.procConf.ReplicaNum),)`: `env ++ [("PC_PROC_NAME", name), ("PC_REPLICA_NUM", toString replica)]`,
				},
			},
		},
		Consts: []constSpec{{"src/loader/loader.go", "envEscaped", "envEscaped", "List Char"}, {"src/app/process.go", "EnvReplicaNum", "envReplicaNum", "String"}},
	},
	{
		Name: "Stop", Imports: []string{"PC.Model.StopTypes"}, Opens: []string{"PC.Stop"},
		Consts: []constSpec{
			{"src/command/stopper_unix.go", "min_sig", "minSig", "Int"},
			{"src/command/stopper_unix.go", "max_sig", "maxSig", "Int"},
			{"src/app/process.go", "UndefinedShutdownTimeoutSec", "undefinedShutdownTimeoutSec", "Int"},
			{"src/app/process.go", "DefaultShutdownTimeoutSec", "defaultShutdownTimeoutSec", "Int"},
		},
		Funcs: []*FuncSpec{
			{
				File: "src/command/stopper_unix.go", Recv: "CmdWrapper", Name: "Stop",
				LeanName: "cmdStop",
				LeanSig:  "(noCmd : Bool) (sig : Int) (parentOnly pgidOk : Bool) : SigAction",
				Subst: map[string]string{
					"c.cmd == nil": "noCmd", "int(syscall.SIGTERM)": "15", "min_sig": "minSig", "max_sig": "maxSig",
					"c.cmd.Process.Signal(syscall.Signal(sig))": "SigAction.parent sig",
					"syscall.Kill(-pgid, syscall.Signal(sig))":  "SigAction.group sig",
					"nil": "SigAction.nothing", "err": "SigAction.pgidErr", "err == nil": "pgidOk",
				},
				Ignore: []string{"log.", "pgid, err := syscall.Getpgid("},
			},
		},
	},
}

// constValue finds `const name = <literal>` (possibly inside a const block) in a file.
func constValue(root, file, name string) (string, error) {
	fset := token.NewFileSet()
	f, err := parser.ParseFile(fset, filepath.Join(root, file), nil, 0)
	if err != nil {
		return "", err
	}
	found, val := false, ""
	var ferr error
	ast.Inspect(f, func(n ast.Node) bool {
		gd, ok := n.(*ast.GenDecl)
		if !ok || gd.Tok != token.CONST || found {
			return true
		}
		for _, s := range gd.Specs {
			vs := s.(*ast.ValueSpec)
			for i, nm := range vs.Names {
				if nm.Name == name && i < len(vs.Values) {
					found = true
					if bl, ok := vs.Values[i].(*ast.BasicLit); ok {
						val = bl.Value
					} else {
						ferr = fmt.Errorf("const %s is not a literal", name)
					}
				}
			}
		}
		return true
	})
	if found {
		return val, ferr
	}
	return "", fmt.Errorf("const %s not found in %s", name, file)
}

func main() {
	if len(os.Args) != 4 {
		fmt.Fprintln(os.Stderr, "usage: extract <repo-root> <gen-dir> <facts.json>")
		os.Exit(2)
	}
	root, gen, factsPath := os.Args[1], os.Args[2], os.Args[3]
	// delete stale generated files that are no longer produced
	_ = os.MkdirAll(gen, 0o755)
	old, _ := filepath.Glob(filepath.Join(gen, "*.lean"))
	for _, o := range old {
		keep := false
		for _, gf := range files {
			if filepath.Base(o) == gf.Name+".lean" || filepath.Base(o) == "Facts.lean" || filepath.Base(o) == "Api.lean" || filepath.Base(o) == "Locks.lean" || filepath.Base(o) == "Trigger.lean" {
				keep = true
			}
		}
		if !keep {
			_ = os.Remove(o)
		}
	}
	facts := map[string]any{}
	status := map[string]string{}
	for _, gf := range files {
		var b strings.Builder
		b.WriteString("-- GENERATED by /verif/extract from /repo's current source. Do not edit.\n")
		for _, im := range gf.Imports {
			b.WriteString("import " + im + "\n")
		}
		b.WriteString("namespace PC.Gen." + gf.Name + "\n")
		for _, o := range gf.Opens {
			b.WriteString("open " + o + "\n")
		}
		b.WriteString("\n")
		for _, c := range gf.Consts {
			v, err := constValue(root, c.File, c.Name)
			key := gf.Name + "." + c.LeanName
			if err != nil {
				status[key] = "ERROR: " + err.Error()
				b.WriteString("-- NOT EMITTED " + c.LeanName + ": " + err.Error() + "\n\n")
				continue
			}
			status[key] = "ok"
			if c.LeanType == "List Char" {
				v += ".toList"
			}
			fmt.Fprintf(&b, "/-- constant `%s` of `%s` -/\ndef %s : %s := %s\n\n", c.Name, c.File, c.LeanName, c.LeanType, v)
		}
		for _, fs := range gf.Funcs {
			key := gf.Name + "." + fs.LeanName
			def, err := Translate(root, fs)
			if err != nil {
				status[key] = "ERROR: " + err.Error()
				b.WriteString("-- NOT EMITTED " + fs.LeanName + ": " + err.Error() + "\n\n")
				continue
			}
			status[key] = "ok"
			b.WriteString(def + "\n")
		}
		b.WriteString("end PC.Gen." + gf.Name + "\n")
		// rewrite only when the content changed (keeps lake's build cache valid)
		target := filepath.Join(gen, gf.Name+".lean")
		if cur, err := os.ReadFile(target); err != nil || string(cur) != b.String() {
			if err := os.WriteFile(target, []byte(b.String()), 0o644); err != nil {
				panic(err)
			}
		}
	}
	// structural fact tables (Gen/Facts.lean)
	{
		var b strings.Builder
		b.WriteString("-- GENERATED by /verif/extract from /repo's current source. Do not edit.\nnamespace PC.Gen.Facts\n\n")
		fields, e1 := structFields(root, "src/types/process.go", "ProcessConfig")
		cmp, e2 := comparedFields(root, "src/types/process.go", "ProcessConfig", "Compare")
		if e1 == nil && e2 == nil {
			b.WriteString("/-- fields of `types.ProcessConfig`, in declaration order -/\ndef processConfigFields : List String := " + leanStringList(fields) + "\n\n")
			b.WriteString("/-- fields compared by `ProcessConfig.Compare` -/\ndef comparedFields : List String := " + leanStringList(cmp) + "\n\n")
			status["Facts.processConfigFields"] = "ok"
			status["Facts.comparedFields"] = "ok"
			facts["processConfigFields"] = fields
			facts["comparedFields"] = cmp
		} else {
			status["Facts.comparedFields"] = "ERROR"
		}
		if sc, err := stopCallSites(root); err == nil {
			b.WriteString("/-- `p.command.Stop(sig, parentOnly)` call sites of src/app/process.go: (function, signal argument, parent-only argument) -/\ndef stopCalls : List (String × String × String) := [")
			for i, c := range sc {
				if i > 0 {
					b.WriteString(",")
				}
				fmt.Fprintf(&b, "\n  (%q, %q, %q)", c[0], c[1], c[2])
			}
			b.WriteString("]\n\n")
			status["Facts.stopCalls"] = "ok"
			facts["stopCalls"] = sc
		} else {
			status["Facts.stopCalls"] = "ERROR"
		}
		b.WriteString(leanDecisionTables(root, status, facts))
		b.WriteString("end PC.Gen.Facts\n")
		target := filepath.Join(gen, "Facts.lean")
		if cur, err := os.ReadFile(target); err != nil || string(cur) != b.String() {
			_ = os.WriteFile(target, []byte(b.String()), 0o644)
		}
	}
	{
		mapFile := os.Getenv("SKEL_MAP")
		if mapFile == "" {
			mapFile = filepath.Join(gen, "..", "..", "..", "extract", "skel_map.json")
		}
		writeSkel(root, gen, mapFile, os.Getenv("SKEL_SNAPSHOT"), status, facts)
	}
	writeApiFacts(root, gen, status, facts)
	writeLockFacts(root, gen, status, facts)
	facts["translated"] = status
	for name, f := range factTables {
		v, err := f(root)
		if err != nil {
			facts[name] = "ERROR: " + err.Error()
		} else {
			facts[name] = v
		}
	}
	keys := []string{}
	for k := range status {
		keys = append(keys, k)
	}
	sort.Strings(keys)
	js, _ := json.MarshalIndent(facts, "", " ")
	_ = os.WriteFile(factsPath, js, 0o644)
	for _, k := range keys {
		fmt.Printf("%s: %s\n", k, status[k])
	}
}

// factTables: additional structural facts (filled in by other files of this package).
var factTables = map[string]func(root string) (any, error){}
