package main

import (
	"fmt"
	"go/ast"
	"go/parser"
	"go/token"
	"os"
	"path/filepath"
	"sort"
	"strings"
)

// Lock acquisition order (Gen/Locks.lean, `lockEdges`): a may-analysis over the methods of the types
// that own mutexes. For every place where a mutex of class B is acquired — directly, or somewhere
// inside a method that is called — while a mutex of class A of the same receiver may be held, the
// edge (A, B, function) is emitted.
//
//   - statement-ordered walk of each method; recv.M.Lock()/RLock() adds M to the held set,
//     Unlock()/RUnlock() removes it, `defer recv.M.Unlock()` keeps it to the end; after a branching
//     construct the held set is the UNION of the branches (may-held);
//   - acq(f) = classes acquired in f or in any method f may call (fix-point); a call x.name(...) is
//     resolved by method name: to the receiver's type if x is the receiver, else to every owner type
//     that has a method of that name (over-approximation);
//   - `go` statements start with nothing held; a function literal passed to a call, assigned, or
//     deferred is walked with the locks held where it is written.
// Not seen (trusted base): calls through interfaces and stored callbacks, locks reached through
// other names, sync.Cond.Wait releasing its mutex, channels and wait groups (they are not mutexes).

type ownerType struct {
	dir, typ string
	mutexes  map[string]bool // field names; "Mutex" = embedded sync.Mutex
}

var lockOwners = []ownerType{
	{"src/app", "ProjectRunner", map[string]bool{"procConfMutex": true, "logsMutex": true, "statesMutex": true, "runProcMutex": true, "doneProcMutex": true}},
	{"src/app", "Process", map[string]bool{"stateMtx": true, "timeMutex": true, "mtxStopFn": true, "Mutex": true}},
	{"src/pclog", "ProcessLogBuffer", map[string]bool{"mx": true}},
	{"src/api", "PcApi", map[string]bool{"wsMtx": true}},
}

type loMethod struct {
	owner *ownerType
	name  string
	recv  string
	body  *ast.BlockStmt
	acq   map[string]bool
}

type lockEdge struct{ From, To, Func string }

type loWalker struct {
	methods map[string][]*loMethod // by method name
	cur     *loMethod
	where   string
	edges   map[lockEdge]bool
	direct  map[string]bool // classes acquired directly or via callees in the current method (this round)
}

func unionSet(a, b map[string]bool) map[string]bool {
	o := copySet(a)
	for k := range b {
		o[k] = true
	}
	return o
}

func (w *loWalker) class(m string) string { return w.cur.owner.typ + "." + m }

func (w *loWalker) acquire(cls string, held map[string]bool) {
	w.direct[cls] = true
	for h := range held {
		w.edges[lockEdge{h, cls, w.where}] = true
	}
}

func (w *loWalker) call(se *ast.SelectorExpr, held map[string]bool) {
	name := se.Sel.Name
	cands := w.methods[name]
	if id, ok := se.X.(*ast.Ident); ok && id.Name == w.cur.recv {
		own := []*loMethod{}
		for _, c := range cands {
			if c.owner == w.cur.owner {
				own = append(own, c)
			}
		}
		cands = own
	}
	for _, c := range cands {
		for cls := range c.acq {
			w.acquire(cls, held)
		}
	}
}

func (w *loWalker) expr(e ast.Expr, held map[string]bool) {
	if e == nil {
		return
	}
	ast.Inspect(e, func(n ast.Node) bool {
		switch x := n.(type) {
		case *ast.FuncLit:
			w.block(x.Body.List, copySet(held))
			return false
		case *ast.CallExpr:
			if se, ok := x.Fun.(*ast.SelectorExpr); ok {
				if p := selPath(se.X, w.cur.recv); p != "" && w.cur.owner.mutexes[p] {
					switch se.Sel.Name {
					case "Lock", "RLock":
						w.acquire(w.class(p), held)
						held[w.class(p)] = true
						return false
					case "Unlock", "RUnlock":
						delete(held, w.class(p))
						return false
					}
				}
				if id, ok := se.X.(*ast.Ident); ok && id.Name == w.cur.recv && w.cur.owner.mutexes["Mutex"] {
					switch se.Sel.Name {
					case "Lock":
						w.acquire(w.class("Mutex"), held)
						held[w.class("Mutex")] = true
						return false
					case "Unlock":
						delete(held, w.class("Mutex"))
						return false
					}
				}
				w.call(se, held)
			}
		}
		return true
	})
}

func (w *loWalker) block(stmts []ast.Stmt, held map[string]bool) {
	for _, s := range stmts {
		w.stmt(s, held)
	}
}

func (w *loWalker) stmt(s ast.Stmt, held map[string]bool) {
	// after a branching construct: union of what the branches may hold
	join := func(outs []map[string]bool) {
		for _, o := range outs {
			for k := range o {
				held[k] = true
			}
		}
	}
	branch := func(body []ast.Stmt) map[string]bool {
		h := copySet(held)
		w.block(body, h)
		return h
	}
	switch x := s.(type) {
	case *ast.ExprStmt:
		w.expr(x.X, held)
	case *ast.AssignStmt:
		for _, r := range x.Rhs {
			w.expr(r, held)
		}
		for _, l := range x.Lhs {
			w.expr(l, held)
		}
	case *ast.IncDecStmt:
		w.expr(x.X, held)
	case *ast.DeferStmt:
		if se, ok := x.Call.Fun.(*ast.SelectorExpr); ok {
			if p := selPath(se.X, w.cur.recv); p != "" && w.cur.owner.mutexes[p] && (se.Sel.Name == "Unlock" || se.Sel.Name == "RUnlock") {
				return // held to the end
			}
			if id, ok := se.X.(*ast.Ident); ok && id.Name == w.cur.recv && w.cur.owner.mutexes["Mutex"] && se.Sel.Name == "Unlock" {
				return
			}
		}
		w.expr(x.Call, copySet(held))
	case *ast.GoStmt:
		if fl, ok := x.Call.Fun.(*ast.FuncLit); ok {
			w.block(fl.Body.List, map[string]bool{})
			for _, a := range x.Call.Args {
				w.expr(a, held)
			}
			return
		}
		w.expr(x.Call, map[string]bool{})
	case *ast.ReturnStmt:
		for _, r := range x.Results {
			w.expr(r, held)
		}
	case *ast.BlockStmt:
		w.block(x.List, held)
	case *ast.IfStmt:
		if x.Init != nil {
			w.stmt(x.Init, held)
		}
		w.expr(x.Cond, held)
		outs := []map[string]bool{branch(x.Body.List)}
		if x.Else != nil {
			h := copySet(held)
			w.stmt(x.Else, h)
			outs = append(outs, h)
		}
		join(outs)
	case *ast.ForStmt:
		if x.Init != nil {
			w.stmt(x.Init, held)
		}
		w.expr(x.Cond, held)
		if x.Post != nil {
			w.stmt(x.Post, held)
		}
		// twice: what the body leaves held may be held when it runs again
		join([]map[string]bool{branch(x.Body.List)})
		join([]map[string]bool{branch(x.Body.List)})
	case *ast.RangeStmt:
		w.expr(x.X, held)
		join([]map[string]bool{branch(x.Body.List)})
		join([]map[string]bool{branch(x.Body.List)})
	case *ast.SwitchStmt:
		if x.Init != nil {
			w.stmt(x.Init, held)
		}
		w.expr(x.Tag, held)
		outs := []map[string]bool{}
		for _, c := range x.Body.List {
			cc := c.(*ast.CaseClause)
			for _, e := range cc.List {
				w.expr(e, held)
			}
			outs = append(outs, branch(cc.Body))
		}
		join(outs)
	case *ast.TypeSwitchStmt:
		outs := []map[string]bool{}
		for _, c := range x.Body.List {
			outs = append(outs, branch(c.(*ast.CaseClause).Body))
		}
		join(outs)
	case *ast.SelectStmt:
		outs := []map[string]bool{}
		for _, c := range x.Body.List {
			cc := c.(*ast.CommClause)
			h := copySet(held)
			if cc.Comm != nil {
				w.stmt(cc.Comm, h)
			}
			w.block(cc.Body, h)
			outs = append(outs, h)
		}
		join(outs)
	case *ast.DeclStmt:
		if gd, ok := x.Decl.(*ast.GenDecl); ok {
			for _, sp := range gd.Specs {
				if vs, ok := sp.(*ast.ValueSpec); ok {
					for _, v := range vs.Values {
						w.expr(v, held)
					}
				}
			}
		}
	case *ast.SendStmt:
		w.expr(x.Chan, held)
		w.expr(x.Value, held)
	case *ast.LabeledStmt:
		w.stmt(x.Stmt, held)
	}
}

func lockOrderFacts(root string) ([]lockEdge, []string, error) {
	methods := map[string][]*loMethod{}
	var all []*loMethod
	seenDir := map[string][]*ast.File{}
	for i := range lockOwners {
		o := &lockOwners[i]
		files, ok := seenDir[o.dir]
		if !ok {
			fset := token.NewFileSet()
			ents, err := os.ReadDir(filepath.Join(root, o.dir))
			if err != nil {
				return nil, nil, err
			}
			for _, e := range ents {
				n := e.Name()
				if !strings.HasSuffix(n, ".go") || strings.HasSuffix(n, "_test.go") || strings.HasPrefix(n, "verif_") || strings.HasSuffix(n, "_windows.go") {
					continue
				}
				f, err := parser.ParseFile(fset, filepath.Join(root, o.dir, n), nil, 0)
				if err != nil {
					return nil, nil, err
				}
				files = append(files, f)
			}
			seenDir[o.dir] = files
		}
		for _, f := range files {
			for _, d := range f.Decls {
				fd, ok := d.(*ast.FuncDecl)
				if !ok || fd.Recv == nil || fd.Body == nil || len(fd.Recv.List) != 1 || len(fd.Recv.List[0].Names) != 1 {
					continue
				}
				tn := ""
				switch rt := fd.Recv.List[0].Type.(type) {
				case *ast.StarExpr:
					if id, ok := rt.X.(*ast.Ident); ok {
						tn = id.Name
					}
				case *ast.Ident:
					tn = rt.Name
				}
				if tn != o.typ {
					continue
				}
				m := &loMethod{owner: o, name: fd.Name.Name, recv: fd.Recv.List[0].Names[0].Name, body: fd.Body, acq: map[string]bool{}}
				methods[m.name] = append(methods[m.name], m)
				all = append(all, m)
			}
		}
	}
	sort.Slice(all, func(i, j int) bool {
		if all[i].owner.typ != all[j].owner.typ {
			return all[i].owner.typ < all[j].owner.typ
		}
		return all[i].name < all[j].name
	})
	var edges map[lockEdge]bool
	for round := 0; round < 12; round++ {
		edges = map[lockEdge]bool{}
		changed := false
		for _, m := range all {
			w := &loWalker{methods: methods, cur: m, where: m.owner.typ + "." + m.name, edges: edges, direct: map[string]bool{}}
			w.block(m.body.List, map[string]bool{})
			for c := range w.direct {
				if !m.acq[c] {
					m.acq[c] = true
					changed = true
				}
			}
		}
		if !changed {
			break
		}
	}
	var out []lockEdge
	for e := range edges {
		out = append(out, e)
	}
	sort.Slice(out, func(i, j int) bool {
		if out[i].From != out[j].From {
			return out[i].From < out[j].From
		}
		if out[i].To != out[j].To {
			return out[i].To < out[j].To
		}
		return out[i].Func < out[j].Func
	})
	classes := []string{}
	for i := range lockOwners {
		for m := range lockOwners[i].mutexes {
			classes = append(classes, lockOwners[i].typ+"."+m)
		}
	}
	sort.Strings(classes)
	return out, classes, nil
}

func leanLockOrder(root string, status map[string]string, facts map[string]any) string {
	var b strings.Builder
	edges, classes, err := lockOrderFacts(root)
	b.WriteString("/-- every mutex class of the owner types -/\n")
	b.WriteString("def lockClasses : List String := " + leanStringList(classes) + "\n\n")
	b.WriteString("/-- (held, acquired, function): a mutex of class `acquired` may be taken, in `function` or in something it calls, while one of class `held` is held -/\n")
	b.WriteString("def lockEdges : List (String × String × String) := [")
	if err == nil {
		for i, e := range edges {
			if i > 0 {
				b.WriteString(",")
			}
			fmt.Fprintf(&b, "\n  (%q, %q, %q)", e.From, e.To, e.Func)
		}
		status["Locks.lockEdges"] = "ok"
		facts["lockEdges"] = edges
	} else {
		status["Locks.lockEdges"] = "ERROR"
	}
	b.WriteString("]\n")
	return b.String()
}
