package main

import (
	"crypto/sha256"
	"encoding/hex"
	"encoding/json"
	"fmt"
	"go/ast"
	"go/importer"
	"go/parser"
	"go/token"
	"go/types"
	"os"
	"path/filepath"
	"sort"
	"strings"
)

// Lock acquisition order (Gen/Locks.lean, `lockEdges`): a typed may-analysis (go/types, source
// importer) over every function and method of the packages that own or reach the mutexes.
// For every place where a mutex of class B is acquired — directly, or somewhere inside a function
// that may be called — while a mutex of class A may be held, the edge (A, B, function) is emitted.
// A class is `Type.field` for a sync.Mutex / sync.RWMutex field (`Type.Mutex` for an embedded one),
// `var.<name>` for a mutex held in a variable.
//
//   - statement-ordered walk; X.Lock()/RLock() adds the class of X to the held set, Unlock()/RUnlock()
//     removes it, `defer X.Unlock()` keeps it to the end; after a branching construct the held set is
//     the UNION of the branches (may-held);
//   - acq(f) = classes acquired in f or in anything f may call (fix-point). Static calls and calls of
//     concrete methods resolve exactly; a call through an interface resolves to every method of that
//     name in the analysed packages; a call of a func-typed struct field resolves to every function
//     literal or method value assigned to a field of that name (composite literals, assignments);
//   - `go` statements start with nothing held and do not count for the spawner; a function literal
//     is walked where it is written, with the locks held there.
// Not seen (trusted base): function values passed as arguments and stored by the callee, locks taken
// by code outside these packages, sync.Cond.Wait releasing its mutex, channels and wait groups.

var lockOrderDirs = []string{"src/app", "src/pclog", "src/api", "src/health"}

type lockEdge struct{ From, To, Func string }

type loFunc struct {
	key  string
	body *ast.BlockStmt
	info *types.Info
	acq  map[string]bool
}

type loWorld struct {
	funcs      map[string]*loFunc   // by qualified key
	byName     map[string][]*loFunc // methods by bare name (interface calls)
	fieldFuncs map[string][]string  // func-typed field name -> keys of functions assigned to it
	lits       map[*ast.FuncLit]string
}

func typeKeyOf(t types.Type) string {
	for {
		if p, ok := t.(*types.Pointer); ok {
			t = p.Elem()
			continue
		}
		break
	}
	if n, ok := t.(*types.Named); ok {
		return n.Obj().Name()
	}
	return ""
}

func funcKey(f *types.Func) string {
	sig, _ := f.Type().(*types.Signature)
	if sig != nil && sig.Recv() != nil {
		return typeKeyOf(sig.Recv().Type()) + "." + f.Name()
	}
	if f.Pkg() != nil {
		return f.Pkg().Name() + "." + f.Name()
	}
	return f.Name()
}

func isSyncMutex(t types.Type) bool {
	for {
		if p, ok := t.(*types.Pointer); ok {
			t = p.Elem()
			continue
		}
		break
	}
	if n, ok := t.(*types.Named); ok && n.Obj().Pkg() != nil && n.Obj().Pkg().Path() == "sync" {
		return n.Obj().Name() == "Mutex" || n.Obj().Name() == "RWMutex"
	}
	return false
}

// lockClass: the class of the mutex operated on by the call `se(...)` (se = X.Lock etc.), "" if none.
func lockClass(info *types.Info, se *ast.SelectorExpr) (cls string, op string) {
	switch se.Sel.Name {
	case "Lock", "RLock", "Unlock", "RUnlock":
	default:
		return "", ""
	}
	sel := info.Selections[se]
	if sel == nil || sel.Kind() != types.MethodVal {
		return "", ""
	}
	fn, ok := sel.Obj().(*types.Func)
	if !ok || fn.Pkg() == nil || fn.Pkg().Path() != "sync" {
		return "", ""
	}
	op = se.Sel.Name
	xt := info.TypeOf(se.X)
	if xt == nil {
		return "", ""
	}
	if isSyncMutex(xt) {
		// X is the mutex itself: a field Y.f, or a variable
		switch x := se.X.(type) {
		case *ast.SelectorExpr:
			if yt := info.TypeOf(x.X); yt != nil {
				if n := typeKeyOf(yt); n != "" {
					return n + "." + x.Sel.Name, op
				}
			}
			return "var." + x.Sel.Name, op
		case *ast.Ident:
			return "var." + x.Name, op
		}
		return "var.?", op
	}
	// promoted through an embedded sync.Mutex
	if n := typeKeyOf(xt); n != "" && len(sel.Index()) > 1 {
		return n + ".Mutex", op
	}
	return "", ""
}

type loWalker struct {
	w      *loWorld
	cur    *loFunc
	edges  map[lockEdge]bool
	direct map[string]bool
}

func (w *loWalker) acquire(cls string, held map[string]bool) {
	w.direct[cls] = true
	for h := range held {
		w.edges[lockEdge{h, cls, w.cur.key}] = true
	}
}

func (w *loWalker) callees(call *ast.CallExpr) []*loFunc {
	info := w.cur.info
	var out []*loFunc
	add := func(k string) {
		if f := w.w.funcs[k]; f != nil {
			out = append(out, f)
		}
	}
	switch fun := call.Fun.(type) {
	case *ast.SelectorExpr:
		if sel := info.Selections[fun]; sel != nil {
			switch sel.Kind() {
			case types.MethodVal:
				fn, _ := sel.Obj().(*types.Func)
				if fn == nil {
					return nil
				}
				if _, isIface := sel.Recv().Underlying().(*types.Interface); isIface {
					out = append(out, w.w.byName[fn.Name()]...)
				} else {
					add(funcKey(fn))
				}
			case types.FieldVal:
				if _, ok := sel.Obj().Type().Underlying().(*types.Signature); ok {
					for _, k := range w.w.fieldFuncs[fun.Sel.Name] {
						add(k)
					}
				}
			}
		} else if fn, ok := info.Uses[fun.Sel].(*types.Func); ok {
			add(funcKey(fn)) // pkg.Func
		}
	case *ast.Ident:
		if fn, ok := info.Uses[fun].(*types.Func); ok {
			add(funcKey(fn))
		}
	}
	return out
}

func (w *loWalker) expr(e ast.Expr, held map[string]bool) {
	if e == nil {
		return
	}
	ast.Inspect(e, func(n ast.Node) bool {
		switch x := n.(type) {
		case *ast.FuncLit:
			if _, stored := w.w.lits[x]; stored {
				return false // analysed as a function of its own (assigned to a func-typed field)
			}
			w.block(x.Body.List, copySet(held))
			return false
		case *ast.CallExpr:
			if se, ok := x.Fun.(*ast.SelectorExpr); ok {
				if cls, op := lockClass(w.cur.info, se); cls != "" {
					if op == "Lock" || op == "RLock" {
						w.acquire(cls, held)
						held[cls] = true
					} else {
						delete(held, cls)
					}
					return false
				}
			}
			for _, c := range w.callees(x) {
				for cls := range c.acq {
					w.acquire(cls, held)
				}
			}
		}
		return true
	})
}

func (w *loWalker) block(stmts []ast.Stmt, held map[string]bool) {
	for _, s := range stmts {
		w.stmt(s, held)
	}
}

// spawned walks the body of a new goroutine: nothing held, and what it acquires is not acquired by the spawner.
func (w *loWalker) spawned(body []ast.Stmt) {
	saved := w.direct
	w.direct = map[string]bool{}
	w.block(body, map[string]bool{})
	w.direct = saved
}

func (w *loWalker) stmt(s ast.Stmt, held map[string]bool) {
	join := func(outs []map[string]bool) {
		for _, o := range outs {
			for k := range o {
				held[k] = true
			}
		}
	}
	branch := func(body []ast.Stmt) map[string]bool {
		h := copySet(held)
		w.block(body, h)
		return h
	}
	switch x := s.(type) {
	case *ast.ExprStmt:
		w.expr(x.X, held)
	case *ast.AssignStmt:
		for _, r := range x.Rhs {
			w.expr(r, held)
		}
		for _, l := range x.Lhs {
			w.expr(l, held)
		}
	case *ast.IncDecStmt:
		w.expr(x.X, held)
	case *ast.DeferStmt:
		if se, ok := x.Call.Fun.(*ast.SelectorExpr); ok {
			if cls, op := lockClass(w.cur.info, se); cls != "" && (op == "Unlock" || op == "RUnlock") {
				return // held to the end
			}
		}
		w.expr(x.Call, copySet(held))
	case *ast.GoStmt:
		if fl, ok := x.Call.Fun.(*ast.FuncLit); ok {
			w.spawned(fl.Body.List)
			for _, a := range x.Call.Args {
				w.expr(a, held)
			}
			return
		}
		saved := w.direct
		w.direct = map[string]bool{}
		w.expr(x.Call, map[string]bool{})
		w.direct = saved
	case *ast.ReturnStmt:
		for _, r := range x.Results {
			w.expr(r, held)
		}
	case *ast.BlockStmt:
		w.block(x.List, held)
	case *ast.IfStmt:
		if x.Init != nil {
			w.stmt(x.Init, held)
		}
		w.expr(x.Cond, held)
		outs := []map[string]bool{branch(x.Body.List)}
		if x.Else != nil {
			h := copySet(held)
			w.stmt(x.Else, h)
			outs = append(outs, h)
		}
		join(outs)
	case *ast.ForStmt:
		if x.Init != nil {
			w.stmt(x.Init, held)
		}
		w.expr(x.Cond, held)
		if x.Post != nil {
			w.stmt(x.Post, held)
		}
		join([]map[string]bool{branch(x.Body.List)})
		join([]map[string]bool{branch(x.Body.List)}) // what the body leaves held may be held when it runs again
	case *ast.RangeStmt:
		w.expr(x.X, held)
		join([]map[string]bool{branch(x.Body.List)})
		join([]map[string]bool{branch(x.Body.List)})
	case *ast.SwitchStmt:
		if x.Init != nil {
			w.stmt(x.Init, held)
		}
		w.expr(x.Tag, held)
		outs := []map[string]bool{}
		for _, c := range x.Body.List {
			cc := c.(*ast.CaseClause)
			for _, e := range cc.List {
				w.expr(e, held)
			}
			outs = append(outs, branch(cc.Body))
		}
		join(outs)
	case *ast.TypeSwitchStmt:
		outs := []map[string]bool{}
		for _, c := range x.Body.List {
			outs = append(outs, branch(c.(*ast.CaseClause).Body))
		}
		join(outs)
	case *ast.SelectStmt:
		outs := []map[string]bool{}
		for _, c := range x.Body.List {
			cc := c.(*ast.CommClause)
			h := copySet(held)
			if cc.Comm != nil {
				w.stmt(cc.Comm, h)
			}
			w.block(cc.Body, h)
			outs = append(outs, h)
		}
		join(outs)
	case *ast.DeclStmt:
		if gd, ok := x.Decl.(*ast.GenDecl); ok {
			for _, sp := range gd.Specs {
				if vs, ok := sp.(*ast.ValueSpec); ok {
					for _, v := range vs.Values {
						w.expr(v, held)
					}
				}
			}
		}
	case *ast.SendStmt:
		w.expr(x.Chan, held)
		w.expr(x.Value, held)
	case *ast.LabeledStmt:
		w.stmt(x.Stmt, held)
	}
}

type lockOrderResult struct {
	Edges   []lockEdge
	Classes []string
}

func goSources(root, dir string) ([]string, error) {
	ents, err := os.ReadDir(filepath.Join(root, dir))
	if err != nil {
		return nil, err
	}
	var out []string
	for _, e := range ents {
		n := e.Name()
		if !strings.HasSuffix(n, ".go") || strings.HasSuffix(n, "_test.go") || strings.HasSuffix(n, "_windows.go") {
			continue
		}
		src, err := os.ReadFile(filepath.Join(root, dir, n))
		if err != nil {
			return nil, err
		}
		head := string(src)
		if i := strings.Index(head, "\npackage "); i >= 0 {
			head = head[:i]
		}
		if strings.Contains(head, "//go:build verif") || strings.Contains(head, "//go:build windows") {
			continue // the instrumentation files of the harness are not product code
		}
		out = append(out, filepath.Join(root, dir, n))
	}
	sort.Strings(out)
	return out, nil
}

func lockOrderFacts(root, cacheDir string) (*lockOrderResult, error) {
	// the result is a function of the sources: cache it by their content
	h := sha256.New()
	var files [][]string
	for _, d := range lockOrderDirs {
		fs, err := goSources(root, d)
		if err != nil {
			return nil, err
		}
		files = append(files, fs)
		for _, f := range fs {
			b, _ := os.ReadFile(f)
			fmt.Fprintf(h, "%s %d\n", f, len(b))
			h.Write(b)
		}
	}
	if exe, err := os.Executable(); err == nil {
		self, _ := os.ReadFile(exe)
		h.Write(self)
	}
	cacheFile := filepath.Join(cacheDir, "lockorder."+hex.EncodeToString(h.Sum(nil))[:24]+".json")
	if b, err := os.ReadFile(cacheFile); err == nil && os.Getenv("LOCK_DEBUG") == "" {
		var r lockOrderResult
		if json.Unmarshal(b, &r) == nil {
			return &r, nil
		}
	}
	cwd, _ := os.Getwd()
	if err := os.Chdir(root); err != nil {
		return nil, err
	}
	defer os.Chdir(cwd)
	fset := token.NewFileSet()
	imp := importer.ForCompiler(fset, "source", nil)
	world := &loWorld{funcs: map[string]*loFunc{}, byName: map[string][]*loFunc{}, fieldFuncs: map[string][]string{}, lits: map[*ast.FuncLit]string{}}
	classes := map[string]bool{}
	type pkgInfo struct {
		files []*ast.File
		info  *types.Info
	}
	var pkgs []pkgInfo
	for i, d := range lockOrderDirs {
		var afs []*ast.File
		for _, f := range files[i] {
			af, err := parser.ParseFile(fset, f, nil, 0)
			if err != nil {
				return nil, err
			}
			afs = append(afs, af)
		}
		info := &types.Info{Selections: map[*ast.SelectorExpr]*types.Selection{}, Types: map[ast.Expr]types.TypeAndValue{},
			Uses: map[*ast.Ident]types.Object{}, Defs: map[*ast.Ident]types.Object{}}
		var firstErr error
		conf := types.Config{Importer: imp, Error: func(e error) {
			if firstErr == nil {
				firstErr = e
			}
		}}
		pkg, _ := conf.Check("github.com/f1bonacc1/process-compose/"+d, fset, afs, info)
		if firstErr != nil {
			return nil, fmt.Errorf("type check of %s: %v", d, firstErr)
		}
		pkgs = append(pkgs, pkgInfo{afs, info})
		// mutex classes: fields of named structs
		for _, name := range pkg.Scope().Names() {
			tn, ok := pkg.Scope().Lookup(name).(*types.TypeName)
			if !ok {
				continue
			}
			st, ok := tn.Type().Underlying().(*types.Struct)
			if !ok {
				continue
			}
			for k := 0; k < st.NumFields(); k++ {
				if f := st.Field(k); isSyncMutex(f.Type()) {
					classes[name+"."+f.Name()] = true
				}
			}
		}
	}
	// functions
	for _, p := range pkgs {
		for _, af := range p.files {
			for _, d := range af.Decls {
				fd, ok := d.(*ast.FuncDecl)
				if !ok || fd.Body == nil {
					continue
				}
				fn, ok := p.info.Defs[fd.Name].(*types.Func)
				if !ok {
					continue
				}
				f := &loFunc{key: funcKey(fn), body: fd.Body, info: p.info, acq: map[string]bool{}}
				world.funcs[f.key] = f
				if fd.Recv != nil {
					world.byName[fd.Name.Name] = append(world.byName[fd.Name.Name], f)
				}
			}
		}
	}
	// function values stored in func-typed struct fields
	nlit := 0
	for _, p := range pkgs {
		info := p.info
		store := func(field string, v ast.Expr) {
			switch x := v.(type) {
			case *ast.FuncLit:
				if _, ok := world.lits[x]; !ok {
					nlit++
					k := fmt.Sprintf("func-in-field.%s#%d", field, nlit)
					world.lits[x] = k
					world.funcs[k] = &loFunc{key: k, body: x.Body, info: info, acq: map[string]bool{}}
				}
				world.fieldFuncs[field] = append(world.fieldFuncs[field], world.lits[x])
			case *ast.SelectorExpr:
				if sel := info.Selections[x]; sel != nil && sel.Kind() == types.MethodVal {
					if fn, ok := sel.Obj().(*types.Func); ok {
						world.fieldFuncs[field] = append(world.fieldFuncs[field], funcKey(fn))
					}
				} else if fn, ok := info.Uses[x.Sel].(*types.Func); ok {
					world.fieldFuncs[field] = append(world.fieldFuncs[field], funcKey(fn))
				}
			case *ast.Ident:
				if fn, ok := info.Uses[x].(*types.Func); ok {
					world.fieldFuncs[field] = append(world.fieldFuncs[field], funcKey(fn))
				}
			}
		}
		for _, af := range p.files {
			ast.Inspect(af, func(n ast.Node) bool {
				switch x := n.(type) {
				case *ast.KeyValueExpr:
					if id, ok := x.Key.(*ast.Ident); ok {
						if t := info.TypeOf(x.Value); t != nil {
							if _, isFn := t.Underlying().(*types.Signature); isFn {
								store(id.Name, x.Value)
							}
						}
					}
				case *ast.AssignStmt:
					for i, l := range x.Lhs {
						if se, ok := l.(*ast.SelectorExpr); ok && i < len(x.Rhs) {
							if sel := info.Selections[se]; sel != nil && sel.Kind() == types.FieldVal {
								if _, isFn := sel.Obj().Type().Underlying().(*types.Signature); isFn {
									store(se.Sel.Name, x.Rhs[i])
								}
							}
						}
					}
				}
				return true
			})
		}
	}
	keys := []string{}
	for k := range world.funcs {
		keys = append(keys, k)
	}
	sort.Strings(keys)
	var edges map[lockEdge]bool
	for round := 0; round < 20; round++ {
		edges = map[lockEdge]bool{}
		changed := false
		for _, k := range keys {
			f := world.funcs[k]
			w := &loWalker{w: world, cur: f, edges: edges, direct: map[string]bool{}}
			w.block(f.body.List, map[string]bool{})
			for c := range w.direct {
				if !f.acq[c] {
					f.acq[c] = true
					changed = true
				}
			}
		}
		if !changed {
			break
		}
	}
	if os.Getenv("LOCK_DEBUG") != "" {
		for _, k := range keys {
			if len(world.funcs[k].acq) > 0 {
				fmt.Fprintln(os.Stderr, "acq", k, setList(world.funcs[k].acq))
			}
		}
		for f, l := range world.fieldFuncs {
			fmt.Fprintln(os.Stderr, "field", f, l)
		}
	}
	res := &lockOrderResult{}
	for e := range edges {
		res.Edges = append(res.Edges, e)
		classes[e.From] = true
		classes[e.To] = true
	}
	sort.Slice(res.Edges, func(i, j int) bool {
		a, b := res.Edges[i], res.Edges[j]
		if a.From != b.From {
			return a.From < b.From
		}
		if a.To != b.To {
			return a.To < b.To
		}
		return a.Func < b.Func
	})
	for c := range classes {
		res.Classes = append(res.Classes, c)
	}
	sort.Strings(res.Classes)
	if b, err := json.Marshal(res); err == nil {
		_ = os.MkdirAll(cacheDir, 0o755)
		_ = os.WriteFile(cacheFile, b, 0o644)
	}
	return res, nil
}

func leanLockOrder(root, cacheDir string, status map[string]string, facts map[string]any) string {
	var b strings.Builder
	res, err := lockOrderFacts(root, cacheDir)
	if err != nil {
		res = &lockOrderResult{}
	}
	b.WriteString("/-- every mutex class: `Type.field` for the sync.Mutex / sync.RWMutex fields of the analysed packages (`Type.Mutex`: embedded), `var.name` for mutexes held in variables -/\n")
	b.WriteString("def lockClasses : List String := " + leanStringList(res.Classes) + "\n\n")
	b.WriteString("/-- (held, acquired, function): a mutex of class `acquired` may be taken, in `function` or in something it may call, while one of class `held` may be held -/\n")
	b.WriteString("def lockEdges : List (String × String × String) := [")
	for i, e := range res.Edges {
		if i > 0 {
			b.WriteString(",")
		}
		fmt.Fprintf(&b, "\n  (%q, %q, %q)", e.From, e.To, e.Func)
	}
	b.WriteString("]\n\n")
	// a rank certificate (longest-path layering); the kernel checks it against the edges. On a cycle the
	// members of the cycle keep rank 0 and the check in PC.Props.C20 fails.
	rank := map[string]int{}
	for _, c := range res.Classes {
		rank[c] = 0
	}
	for round := 0; round <= len(res.Classes); round++ {
		changed := false
		for _, e := range res.Edges {
			if e.From != e.To && rank[e.To] < rank[e.From]+1 && rank[e.From]+1 <= len(res.Classes) {
				rank[e.To] = rank[e.From] + 1
				changed = true
			}
		}
		if !changed {
			break
		}
	}
	cyclic := false
	for _, e := range res.Edges {
		if rank[e.From] >= rank[e.To] {
			cyclic = true
		}
	}
	b.WriteString("/-- rank certificate computed by the extractor (checked in the kernel against `lockEdges`) -/\n")
	b.WriteString("def lockRank : List (String × Nat) := [")
	for i, c := range res.Classes {
		if i > 0 {
			b.WriteString(", ")
		}
		fmt.Fprintf(&b, "(%q, %d)", c, rank[c])
	}
	b.WriteString("]\n")
	if err == nil && cyclic {
		status["Locks.lockOrder"] = "CYCLE in the lock acquisition order"
	} else if err == nil {
		status["Locks.lockOrder"] = "ok"
	}
	if err == nil {
		status["Locks.lockEdges"] = "ok"
		facts["lockEdges"] = res.Edges
	} else {
		status["Locks.lockEdges"] = "ERROR: " + err.Error()
	}
	return b.String()
}
