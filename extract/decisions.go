package main

import (
	"go/ast"
	"go/parser"
	"go/token"
	"path/filepath"
	"sort"
	"strings"
)

// Decision tables of the supervisor (Gen/Facts.lean), read off the source on every run:
//   stateSets     every call `x.isOneOfStates(A, B, …)` in src/app/process.go: (function, state constants)
//   stateEffects  the `switch state` of Process.onStateChange: (state constant, fields assigned / setters called),
//                 `fallthrough` chains resolved
//   depWaits      the `switch … Condition` of ProjectRunner.waitIfNeeded: (condition constant, wait functions called)

func selName(e ast.Expr) string {
	if se, ok := e.(*ast.SelectorExpr); ok {
		return se.Sel.Name
	}
	if id, ok := e.(*ast.Ident); ok {
		return id.Name
	}
	return "?"
}

func parseOne(root, file string) (*ast.File, error) {
	return parser.ParseFile(token.NewFileSet(), filepath.Join(root, file), nil, 0)
}

func stateSets(root string) ([][2]string, error) {
	f, err := parseOne(root, "src/app/process.go")
	if err != nil {
		return nil, err
	}
	var out [][2]string
	for _, d := range f.Decls {
		fd, ok := d.(*ast.FuncDecl)
		if !ok || fd.Body == nil {
			continue
		}
		ast.Inspect(fd.Body, func(n ast.Node) bool {
			call, ok := n.(*ast.CallExpr)
			if !ok {
				return true
			}
			if se, ok := call.Fun.(*ast.SelectorExpr); ok && se.Sel.Name == "isOneOfStates" {
				names := []string{}
				for _, a := range call.Args {
					names = append(names, selName(a))
				}
				sort.Strings(names)
				out = append(out, [2]string{fd.Name.Name, strings.Join(names, ",")})
			}
			return true
		})
	}
	sort.Slice(out, func(i, j int) bool { return out[i][0]+out[i][1] < out[j][0]+out[j][1] })
	return out, nil
}

// effects of a statement list: assigned field names and called method names, sorted
func effectsOf(stmts []ast.Stmt) []string {
	set := map[string]bool{}
	for _, s := range stmts {
		ast.Inspect(s, func(n ast.Node) bool {
			switch x := n.(type) {
			case *ast.AssignStmt:
				for _, l := range x.Lhs {
					set["set:"+selName(l)] = true
				}
			case *ast.CallExpr:
				set["call:"+selName(x.Fun)] = true
			}
			return true
		})
	}
	out := []string{}
	for k := range set {
		out = append(out, k)
	}
	sort.Strings(out)
	return out
}

func switchTable(root, file, fn string, tagHas string) ([][2]string, error) {
	f, err := parseOne(root, file)
	if err != nil {
		return nil, err
	}
	var out [][2]string
	for _, d := range f.Decls {
		fd, ok := d.(*ast.FuncDecl)
		if !ok || fd.Body == nil || fd.Name.Name != fn {
			continue
		}
		ast.Inspect(fd.Body, func(n ast.Node) bool {
			sw, ok := n.(*ast.SwitchStmt)
			if !ok || sw.Tag == nil {
				return true
			}
			if tagHas != "" && !strings.Contains(exprString(sw.Tag), tagHas) {
				return true
			}
			clauses := sw.Body.List
			for i, c := range clauses {
				cc := c.(*ast.CaseClause)
				// follow fallthrough chains to the clause that has the body
				j := i
				for j < len(clauses) {
					b := clauses[j].(*ast.CaseClause).Body
					if len(b) == 1 {
						if br, ok := b[0].(*ast.BranchStmt); ok && br.Tok == token.FALLTHROUGH {
							j++
							continue
						}
					}
					break
				}
				var eff []string
				if j < len(clauses) {
					eff = effectsOf(clauses[j].(*ast.CaseClause).Body)
				}
				for _, e := range cc.List {
					out = append(out, [2]string{selName(e), strings.Join(eff, ",")})
				}
			}
			return false
		})
	}
	sort.Slice(out, func(i, j int) bool { return out[i][0] < out[j][0] })
	return out, nil
}

func exprString(e ast.Expr) string {
	switch x := e.(type) {
	case *ast.Ident:
		return x.Name
	case *ast.SelectorExpr:
		return exprString(x.X) + "." + x.Sel.Name
	case *ast.IndexExpr:
		return exprString(x.X) + "[" + exprString(x.Index) + "]"
	case *ast.CallExpr:
		return exprString(x.Fun) + "()"
	}
	return "?"
}

func leanPairTable(name, doc string, rows [][2]string) string {
	var b strings.Builder
	b.WriteString("/-- " + doc + " -/\ndef " + name + " : List (String × List String) := [")
	for i, r := range rows {
		if i > 0 {
			b.WriteString(",")
		}
		items := []string{}
		if r[1] != "" {
			items = strings.Split(r[1], ",")
		}
		b.WriteString("\n  (\"" + r[0] + "\", " + leanStringList(items) + ")")
	}
	b.WriteString("]\n\n")
	return b.String()
}

func leanDecisionTables(root string, status map[string]string, facts map[string]any) string {
	var b strings.Builder
	if t, err := stateSets(root); err == nil {
		b.WriteString(leanPairTable("stateSets", "every `isOneOfStates(…)` call of src/app/process.go: (function, state constants)", t))
		status["Facts.stateSets"] = "ok"
		facts["stateSets"] = t
	} else {
		status["Facts.stateSets"] = "ERROR"
	}
	if t, err := switchTable(root, "src/app/process.go", "onStateChange", "state"); err == nil {
		b.WriteString(leanPairTable("stateEffects", "`Process.onStateChange`: (state constant, fields assigned / functions called)", t))
		status["Facts.stateEffects"] = "ok"
		facts["stateEffects"] = t
	} else {
		status["Facts.stateEffects"] = "ERROR"
	}
	if t, err := switchTable(root, "src/app/project_runner.go", "waitIfNeeded", "Condition"); err == nil {
		// keep what decides: which wait primitive is called, and whether the case can end in an error (skip)
		for i := range t {
			keep := []string{}
			for _, it := range strings.Split(t[i][1], ",") {
				if strings.HasPrefix(it, "call:wait") || it == "call:Errorf" {
					keep = append(keep, it)
				}
			}
			t[i][1] = strings.Join(keep, ",")
		}
		b.WriteString(leanPairTable("depWaits", "`ProjectRunner.waitIfNeeded`: (condition constant, functions called in that case)", t))
		status["Facts.depWaits"] = "ok"
		facts["depWaits"] = t
	} else {
		status["Facts.depWaits"] = "ERROR"
	}
	return b.String()
}
