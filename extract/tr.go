// Mini translator: a tiny, explicitly delimited subset of Go (integer/boolean/string if-chains,
// assignments, returns, slice expressions) to Lean 4 definitions. Anything outside the subset is
// reported and the definition is NOT emitted, so the Lean obligation that mentions it breaks.
package main

import (
	"fmt"
	"go/ast"
	"go/parser"
	"go/printer"
	"go/token"
	"strings"
)

type FuncSpec struct {
	File     string               // path under the repo root
	Recv     string               // receiver type name ("" for plain functions)
	Name     string               // Go function name
	LeanName string               // emitted definition name
	LeanSig  string               // binders and result type
	Subst    map[string]string    // Go expression text -> Lean term
	Ignore   []string             // statement prefixes that are skipped (locks, logging)
	Ret      string               // %s-format applied to returned expressions ("" = as is)
	Final    string               // expression returned when the body falls off the end
	Fields   map[string]string    // assignable selector text -> Lean structure field, e.g. "p.InitialDelay" -> "p.initialDelay"
	Consts   map[string][2]string // Go expression text -> {file, const name}: replaced by the literal found in the source
	Calls    map[string]string    // terminal expression statements (by prefix) -> Lean result expression
	OnlyVar  string               // when set: translate only the top-level assignments to this variable, return it
}

type trErr struct{ msg string }

func (e trErr) Error() string { return e.msg }

func fail(format string, a ...any) { panic(trErr{fmt.Sprintf(format, a...)}) }

type tr struct {
	fset *token.FileSet
	spec *FuncSpec
}

func (t *tr) text(n ast.Node) string {
	var b strings.Builder
	_ = printer.Fprint(&b, t.fset, n)
	return b.String()
}

var binops = map[token.Token]string{
	token.ADD: "+", token.SUB: "-", token.MUL: "*",
	token.LSS: "<", token.GTR: ">", token.LEQ: "≤", token.GEQ: "≥",
	token.EQL: "=", token.NEQ: "≠", token.LAND: "∧", token.LOR: "∨",
}

func squash(s string) string {
	return strings.Join(strings.Fields(s), "")
}

func (t *tr) expr(e ast.Expr) string {
	if s, ok := t.spec.Subst[t.text(e)]; ok {
		return s
	}
	for k, v := range t.spec.Subst {
		if squash(k) == squash(t.text(e)) {
			return v
		}
	}
	switch x := e.(type) {
	case *ast.BasicLit:
		if x.Kind == token.INT || x.Kind == token.STRING {
			return x.Value
		}
	case *ast.Ident:
		if x.Name == "true" {
			return "true"
		}
		if x.Name == "false" {
			return "false"
		}
		return x.Name
	case *ast.ParenExpr:
		return "(" + t.expr(x.X) + ")"
	case *ast.BinaryExpr:
		if op, ok := binops[x.Op]; ok {
			return "(" + t.expr(x.X) + " " + op + " " + t.expr(x.Y) + ")"
		}
	case *ast.UnaryExpr:
		if x.Op == token.NOT {
			return "(¬ " + t.expr(x.X) + ")"
		}
		if x.Op == token.SUB {
			return "(-" + t.expr(x.X) + ")"
		}
	case *ast.SliceExpr:
		if x.Slice3 {
			break
		}
		base := t.expr(x.X)
		ln, ok := t.spec.Subst["len("+t.text(x.X)+")"]
		if !ok {
			fail("no length substitution for %s", t.text(x.X))
		}
		lo, hi := "0", ln
		if x.Low != nil {
			lo = t.expr(x.Low)
		}
		if x.High != nil {
			hi = t.expr(x.High)
		}
		return "goSlice " + base + " (" + lo + ") (" + hi + ")"
	}
	fail("untranslatable expression: %s", t.text(e))
	return ""
}

func (t *tr) ignored(s ast.Stmt) bool {
	txt := t.text(s)
	for _, p := range t.spec.Ignore {
		if strings.HasPrefix(txt, p) {
			return true
		}
	}
	return false
}

// lhs returns the Lean binder (and, for fields, the record update) of an assignment target.
func (t *tr) assign(lhs ast.Expr, rhs string) string {
	if id, ok := lhs.(*ast.Ident); ok {
		return fmt.Sprintf("let %s := %s", id.Name, rhs)
	}
	if f, ok := t.spec.Fields[t.text(lhs)]; ok {
		parts := strings.SplitN(f, ".", 2)
		if len(parts) == 1 {
			return fmt.Sprintf("let %s := %s", f, rhs)
		}
		return fmt.Sprintf("let %s := { %s with %s := %s }", parts[0], parts[0], parts[1], rhs)
	}
	fail("untranslatable assignment target: %s", t.text(lhs))
	return ""
}

func (t *tr) cur(lhs ast.Expr) string {
	if id, ok := lhs.(*ast.Ident); ok {
		return id.Name
	}
	if f, ok := t.spec.Fields[t.text(lhs)]; ok {
		return f
	}
	fail("untranslatable assignment target: %s", t.text(lhs))
	return ""
}

func (t *tr) endsInReturn(b *ast.BlockStmt) bool {
	if len(b.List) == 0 {
		return false
	}
	if _, ok := b.List[len(b.List)-1].(*ast.ReturnStmt); ok {
		return true
	}
	// a terminal statement that the spec maps to a result value (Calls) ends the function too
	for p := range t.spec.Calls {
		if strings.HasPrefix(t.text(b.List[len(b.List)-1]), p) {
			return true
		}
	}
	return false
}

func (t *tr) ret(e string) string {
	if t.spec.Ret == "" {
		return e
	}
	return fmt.Sprintf(t.spec.Ret, e)
}

// stmts translates a statement list followed by the continuation `rest` (nil = fall off the end).
func (t *tr) stmts(list []ast.Stmt, ind string) string {
	if len(list) == 0 {
		if t.spec.Final == "" {
			fail("control falls off the end of the function")
		}
		return ind + t.spec.Final
	}
	s, rest := list[0], list[1:]
	if t.ignored(s) {
		return t.stmts(rest, ind)
	}
	if _, isExpr := s.(*ast.ExprStmt); !isExpr && len(rest) == 0 {
		for p, v := range t.spec.Calls {
			if strings.HasPrefix(t.text(s), p) {
				return ind + v
			}
		}
	}
	switch x := s.(type) {
	case *ast.ExprStmt:
		for p, v := range t.spec.Calls {
			if strings.HasPrefix(t.text(x), p) && len(rest) == 0 {
				return ind + v
			}
		}
		fail("untranslatable statement: %s", t.text(s))
	case *ast.ReturnStmt:
		if len(x.Results) == 0 {
			if t.spec.Final == "" {
				fail("bare return")
			}
			return ind + t.spec.Final
		}
		if len(x.Results) != 1 {
			fail("multi-value return")
		}
		return ind + t.ret(t.expr(x.Results[0]))
	case *ast.AssignStmt:
		if len(x.Lhs) != 1 || len(x.Rhs) != 1 || (x.Tok != token.ASSIGN && x.Tok != token.DEFINE) {
			fail("untranslatable assignment: %s", t.text(x))
		}
		return ind + t.assign(x.Lhs[0], t.expr(x.Rhs[0])) + "\n" + t.stmts(rest, ind)
	case *ast.IfStmt:
		if x.Init != nil {
			fail("if with init statement")
		}
		cond := t.expr(x.Cond)
		if t.endsInReturn(x.Body) {
			thenS := t.stmts(x.Body.List, ind+"  ")
			var elseList []ast.Stmt
			if x.Else != nil {
				eb, ok := x.Else.(*ast.BlockStmt)
				if !ok {
					elseList = []ast.Stmt{x.Else.(ast.Stmt)}
				} else {
					elseList = eb.List
				}
			}
			return ind + "if " + cond + " then\n" + thenS + "\n" + ind + "else\n" + t.stmts(append(append([]ast.Stmt{}, elseList...), rest...), ind)
		}
		// assignment-only body (and optional assignment-only else on the same single target)
		var out []string
		for _, b := range x.Body.List {
			if t.ignored(b) {
				continue
			}
			as, ok := b.(*ast.AssignStmt)
			if !ok || len(as.Lhs) != 1 || len(as.Rhs) != 1 || as.Tok != token.ASSIGN {
				fail("untranslatable statement in if body: %s", t.text(b))
			}
			out = append(out, "")
			_ = as
		}
		var asg []*ast.AssignStmt
		for _, b := range x.Body.List {
			if as, ok := b.(*ast.AssignStmt); ok {
				asg = append(asg, as)
			}
		}
		res := ""
		if x.Else != nil {
			eb, ok := x.Else.(*ast.BlockStmt)
			if !ok || len(asg) != 1 || len(eb.List) != 1 {
				fail("untranslatable if/else: %s", t.text(x))
			}
			eas, ok := eb.List[0].(*ast.AssignStmt)
			if !ok || len(eas.Lhs) < 1 || t.text(eas.Lhs[0]) != t.text(asg[0].Lhs[0]) {
				fail("untranslatable if/else: %s", t.text(x))
			}
			if len(eas.Rhs) != 1 {
				fail("untranslatable if/else: %s", t.text(x))
			}
			res = ind + t.assign(asg[0].Lhs[0], "if "+cond+" then "+t.expr(asg[0].Rhs[0])+" else "+t.expr(eas.Rhs[0])) + "\n"
		} else if len(asg) == 1 {
			res = ind + t.assign(asg[0].Lhs[0], "if "+cond+" then "+t.expr(asg[0].Rhs[0])+" else "+t.cur(asg[0].Lhs[0])) + "\n"
		} else {
			res = ind + "let c__ : Bool := decide " + cond + "\n"
			for _, as := range asg {
				res += ind + t.assign(as.Lhs[0], "if c__ then "+t.expr(as.Rhs[0])+" else "+t.cur(as.Lhs[0])) + "\n"
			}
		}
		return res + t.stmts(rest, ind)
	}
	fail("untranslatable statement: %s", t.text(s))
	return ""
}

// Translate returns the Lean definition or an error text.
func Translate(root string, spec *FuncSpec) (def string, err error) {
	defer func() {
		if e := recover(); e != nil {
			if te, ok := e.(trErr); ok {
				err = te
				return
			}
			panic(e)
		}
	}()
	if spec.Subst == nil {
		spec.Subst = map[string]string{}
	}
	for goExpr, c := range spec.Consts {
		v, cerr := constValue(root, c[0], c[1])
		if cerr != nil {
			return "", cerr
		}
		spec.Subst[goExpr] = v
	}
	fset := token.NewFileSet()
	f, perr := parser.ParseFile(fset, root+"/"+spec.File, nil, 0)
	if perr != nil {
		return "", perr
	}
	for _, d := range f.Decls {
		fd, ok := d.(*ast.FuncDecl)
		if !ok || fd.Name.Name != spec.Name || fd.Body == nil {
			continue
		}
		recv := ""
		if fd.Recv != nil && len(fd.Recv.List) == 1 {
			switch r := fd.Recv.List[0].Type.(type) {
			case *ast.StarExpr:
				if id, ok := r.X.(*ast.Ident); ok {
					recv = id.Name
				}
			case *ast.Ident:
				recv = r.Name
			}
		}
		if recv != spec.Recv {
			continue
		}
		t := &tr{fset: fset, spec: spec}
		list := fd.Body.List
		if spec.OnlyVar != "" {
			var sel []ast.Stmt
			for _, st := range list {
				if as, ok := st.(*ast.AssignStmt); ok && len(as.Lhs) == 1 {
					if id, ok := as.Lhs[0].(*ast.Ident); ok && id.Name == spec.OnlyVar {
						sel = append(sel, st)
					}
				}
			}
			if len(sel) == 0 {
				return "", fmt.Errorf("no assignment to %s in %s", spec.OnlyVar, spec.Name)
			}
			list = sel
		}
		body := t.stmts(list, "  ")
		return fmt.Sprintf("/-- translated from `%s` (%s.%s) -/\ndef %s %s :=\n%s\n", spec.File, spec.Recv, spec.Name, spec.LeanName, spec.LeanSig, body), nil
	}
	return "", fmt.Errorf("function %s.%s not found in %s", spec.Recv, spec.Name, spec.File)
}
