package main

import (
	"fmt"
	"go/ast"
	"go/parser"
	"go/token"
	"os"
	"path/filepath"
	"sort"
	"strings"
)

// Lockset facts (Gen/Locks.lean): for the tracked receiver types, every access to a tracked field
// with the set of mutexes (of the same receiver) held at that point, computed by a flow-insensitive-
// across-branches, statement-ordered walk of each method:
//   recv.M.Lock()/RLock() adds M, recv.M.Unlock()/RUnlock() removes it, `defer recv.M.Unlock()` is
//   ignored (held to the end); a branch is walked with a copy and the state after the construct is
//   the intersection; function literals start with nothing held; an unexported method starts with
//   the intersection of what is held at its call sites in these files (fix-point), an exported
//   one with nothing.
// The extractor is part of the trusted base (aliasing, locks reached through other names and
// interface calls are not seen).

type lockSite struct {
	Field, Func, Kind string
	Held              []string
}

type lockTarget struct {
	file, typ string
	fields    map[string]bool // tracked fields (path after the receiver, e.g. "project.Processes")
	mutexes   map[string]bool
}

var lockTargets = []lockTarget{
	{"src/app/project_runner.go", "ProjectRunner",
		map[string]bool{"runningProcesses": true, "doneProcesses": true, "processStates": true, "processLogs": true, "project.Processes": true, "projectState": true, "exitCode": true},
		map[string]bool{"procConfMutex": true, "logsMutex": true, "statesMutex": true, "runProcMutex": true, "doneProcMutex": true}},
	{"src/app/process.go", "Process",
		map[string]bool{"procState": true, "startTime": true, "waitForStoppedCtx": true, "done": true},
		map[string]bool{"stateMtx": true, "timeMutex": true, "mtxStopFn": true, "Mutex": true}},
	{"src/pclog/process_log_buffer.go", "ProcessLogBuffer",
		map[string]bool{"buffer": true, "observers": true},
		map[string]bool{"mx": true}},
}

type fnInfo struct {
	decl     *ast.FuncDecl
	recv     string
	entry    map[string]bool
	callHeld []map[string]bool // held sets at call sites
}

func copySet(m map[string]bool) map[string]bool {
	o := map[string]bool{}
	for k := range m {
		o[k] = true
	}
	return o
}

func interSet(a, b map[string]bool) map[string]bool {
	o := map[string]bool{}
	for k := range a {
		if b[k] {
			o[k] = true
		}
	}
	return o
}

func setList(m map[string]bool) []string {
	l := []string{}
	for k := range m {
		l = append(l, k)
	}
	sort.Strings(l)
	return l
}

// selPath returns the dotted path of a selector chain rooted at identifier recv ("" if not).
func selPath(e ast.Expr, recv string) string {
	switch x := e.(type) {
	case *ast.SelectorExpr:
		if id, ok := x.X.(*ast.Ident); ok {
			if id.Name == recv {
				return x.Sel.Name
			}
			return ""
		}
		p := selPath(x.X, recv)
		if p == "" {
			return ""
		}
		return p + "." + x.Sel.Name
	case *ast.ParenExpr:
		return selPath(x.X, recv)
	case *ast.StarExpr:
		return selPath(x.X, recv)
	}
	return ""
}

type lockWalker struct {
	t     lockTarget
	fns   map[string]*fnInfo
	sites map[string]lockSite
	cur   string
	recv  string
}

func (w *lockWalker) record(path, kind string, held map[string]bool) {
	// longest tracked prefix
	for f := range w.t.fields {
		if path == f || strings.HasPrefix(path, f+".") {
			s := lockSite{w.t.typ + "." + f, w.cur, kind, setList(held)}
			w.sites[fmt.Sprintf("%s|%s|%s|%s", s.Field, s.Func, s.Kind, strings.Join(s.Held, ","))] = s
		}
	}
}

// exprs visits an expression for reads, lock operations, calls and function literals.
func (w *lockWalker) expr(e ast.Expr, held map[string]bool) {
	if e == nil {
		return
	}
	inline := map[*ast.FuncLit]bool{}
	ast.Inspect(e, func(n ast.Node) bool {
		switch x := n.(type) {
		case *ast.FuncLit:
			if inline[x] {
				// a function literal passed directly to a call runs within that call: same locks held
				saved := w.cur
				w.cur = saved + ".func"
				w.block(x.Body.List, copySet(held))
				w.cur = saved
				return false
			}
			saved := w.cur
			w.cur = saved + ".func"
			w.block(x.Body.List, map[string]bool{})
			w.cur = saved
			return false
		case *ast.CallExpr:
			for _, a := range x.Args {
				if fl, ok := a.(*ast.FuncLit); ok {
					inline[fl] = true
				}
			}
			if se, ok := x.Fun.(*ast.SelectorExpr); ok {
				// recv.M.Lock() etc.
				if p := selPath(se.X, w.recv); p != "" && w.t.mutexes[p] {
					switch se.Sel.Name {
					case "Lock", "RLock":
						held[p] = true
						return false
					case "Unlock", "RUnlock":
						delete(held, p)
						return false
					}
				}
				// the embedded mutex: recv.Lock() / recv.Unlock()
				if id, ok := se.X.(*ast.Ident); ok && id.Name == w.recv && w.t.mutexes["Mutex"] {
					switch se.Sel.Name {
					case "Lock":
						held["Mutex"] = true
						return false
					case "Unlock":
						delete(held, "Mutex")
						return false
					}
				}
				// call of another method of the receiver: remember what is held
				if id, ok := se.X.(*ast.Ident); ok && id.Name == w.recv {
					if fi, ok := w.fns[se.Sel.Name]; ok {
						fi.callHeld = append(fi.callHeld, copySet(held))
					}
				}
			}
			// delete(recv.F, k) is a write
			if id, ok := x.Fun.(*ast.Ident); ok && id.Name == "delete" && len(x.Args) == 2 {
				if p := selPath(x.Args[0], w.recv); p != "" {
					w.record(p, "w", held)
				}
			}
		case *ast.SelectorExpr:
			if p := selPath(x, w.recv); p != "" {
				w.record(p, "r", held)
				return false
			}
		}
		return true
	})
}

func (w *lockWalker) lhs(e ast.Expr, held map[string]bool) {
	switch x := e.(type) {
	case *ast.IndexExpr:
		if p := selPath(x.X, w.recv); p != "" {
			w.record(p, "w", held)
		} else {
			w.expr(x.X, held)
		}
		w.expr(x.Index, held)
	default:
		if p := selPath(e, w.recv); p != "" {
			w.record(p, "w", held)
		} else {
			w.expr(e, held)
		}
	}
}

// block walks statements in order, updating held; returns false if the block always leaves (return).
func (w *lockWalker) block(stmts []ast.Stmt, held map[string]bool) {
	for _, s := range stmts {
		w.stmt(s, held)
	}
}

func (w *lockWalker) branch(body []ast.Stmt, held map[string]bool) map[string]bool {
	h := copySet(held)
	w.block(body, h)
	return h
}

func leavesBlock(stmts []ast.Stmt) bool {
	if len(stmts) == 0 {
		return false
	}
	switch stmts[len(stmts)-1].(type) {
	case *ast.ReturnStmt:
		return true
	case *ast.BranchStmt:
		return true
	}
	return false
}

func (w *lockWalker) stmt(s ast.Stmt, held map[string]bool) {
	merge := func(outs []map[string]bool) {
		for _, o := range outs {
			for k := range held {
				if !o[k] {
					delete(held, k)
				}
			}
		}
	}
	switch x := s.(type) {
	case *ast.ExprStmt:
		w.expr(x.X, held)
	case *ast.AssignStmt:
		for _, r := range x.Rhs {
			w.expr(r, held)
		}
		for _, l := range x.Lhs {
			w.lhs(l, held)
		}
	case *ast.IncDecStmt:
		w.lhs(x.X, held)
	case *ast.DeferStmt:
		// `defer recv.M.Unlock()` keeps the lock to the end: ignore; other deferred calls run at exit
		if se, ok := x.Call.Fun.(*ast.SelectorExpr); ok {
			if p := selPath(se.X, w.recv); p != "" && w.t.mutexes[p] {
				return
			}
			if id, ok := se.X.(*ast.Ident); ok && id.Name == w.recv && w.t.mutexes["Mutex"] && (se.Sel.Name == "Unlock" || se.Sel.Name == "Lock") {
				if se.Sel.Name == "Lock" {
					held["Mutex"] = true // `defer p.Unlock(); p.Lock()` written in the other order
				}
				return
			}
		}
		if fl, ok := x.Call.Fun.(*ast.FuncLit); ok {
			saved := w.cur
			w.block(fl.Body.List, copySet(held))
			w.cur = saved
			return
		}
		w.expr(x.Call, copySet(held))
	case *ast.GoStmt:
		if fl, ok := x.Call.Fun.(*ast.FuncLit); ok {
			saved := w.cur
			w.cur = saved + ".func"
			w.block(fl.Body.List, map[string]bool{})
			w.cur = saved
			for _, a := range x.Call.Args {
				w.expr(a, held)
			}
			return
		}
		w.expr(x.Call, map[string]bool{})
	case *ast.ReturnStmt:
		for _, r := range x.Results {
			w.expr(r, held)
		}
	case *ast.BlockStmt:
		w.block(x.List, held)
	case *ast.IfStmt:
		if x.Init != nil {
			w.stmt(x.Init, held)
		}
		w.expr(x.Cond, held)
		outs := []map[string]bool{}
		b := w.branch(x.Body.List, held)
		if !leavesBlock(x.Body.List) {
			outs = append(outs, b)
		}
		if x.Else != nil {
			h := copySet(held)
			w.stmt(x.Else, h)
			outs = append(outs, h)
		}
		merge(outs)
	case *ast.ForStmt:
		if x.Init != nil {
			w.stmt(x.Init, held)
		}
		w.expr(x.Cond, held)
		if x.Post != nil {
			w.stmt(x.Post, copySet(held))
		}
		merge([]map[string]bool{w.branch(x.Body.List, held)})
	case *ast.RangeStmt:
		w.expr(x.X, held)
		merge([]map[string]bool{w.branch(x.Body.List, held)})
	case *ast.SwitchStmt:
		if x.Init != nil {
			w.stmt(x.Init, held)
		}
		w.expr(x.Tag, held)
		outs := []map[string]bool{}
		for _, c := range x.Body.List {
			cc := c.(*ast.CaseClause)
			for _, e := range cc.List {
				w.expr(e, held)
			}
			b := w.branch(cc.Body, held)
			if !leavesBlock(cc.Body) {
				outs = append(outs, b)
			}
		}
		merge(outs)
	case *ast.TypeSwitchStmt:
		outs := []map[string]bool{}
		for _, c := range x.Body.List {
			cc := c.(*ast.CaseClause)
			outs = append(outs, w.branch(cc.Body, held))
		}
		merge(outs)
	case *ast.SelectStmt:
		outs := []map[string]bool{}
		for _, c := range x.Body.List {
			cc := c.(*ast.CommClause)
			h := copySet(held)
			if cc.Comm != nil {
				w.stmt(cc.Comm, h)
			}
			w.block(cc.Body, h)
			outs = append(outs, h)
		}
		merge(outs)
	case *ast.DeclStmt:
		if gd, ok := x.Decl.(*ast.GenDecl); ok {
			for _, sp := range gd.Specs {
				if vs, ok := sp.(*ast.ValueSpec); ok {
					for _, v := range vs.Values {
						w.expr(v, held)
					}
				}
			}
		}
	case *ast.SendStmt:
		w.expr(x.Chan, held)
		w.expr(x.Value, held)
	case *ast.LabeledStmt:
		w.stmt(x.Stmt, held)
	}
}

func lockFacts(root string) ([]lockSite, error) {
	var all []lockSite
	for _, t := range lockTargets {
		fset := token.NewFileSet()
		f, err := parser.ParseFile(fset, filepath.Join(root, t.file), nil, 0)
		if err != nil {
			return nil, err
		}
		fns := map[string]*fnInfo{}
		for _, d := range f.Decls {
			fd, ok := d.(*ast.FuncDecl)
			if !ok || fd.Recv == nil || fd.Body == nil || len(fd.Recv.List) != 1 || len(fd.Recv.List[0].Names) != 1 {
				continue
			}
			tn := ""
			switch rt := fd.Recv.List[0].Type.(type) {
			case *ast.StarExpr:
				if id, ok := rt.X.(*ast.Ident); ok {
					tn = id.Name
				}
			case *ast.Ident:
				tn = rt.Name
			}
			if tn != t.typ {
				continue
			}
			fns[fd.Name.Name] = &fnInfo{decl: fd, recv: fd.Recv.List[0].Names[0].Name, entry: map[string]bool{}}
		}
		var sites map[string]lockSite
		for round := 0; round < 6; round++ {
			sites = map[string]lockSite{}
			for _, fi := range fns {
				fi.callHeld = nil
			}
			names := []string{}
			for n := range fns {
				names = append(names, n)
			}
			sort.Strings(names)
			for _, n := range names {
				fi := fns[n]
				w := &lockWalker{t: t, fns: fns, sites: sites, cur: n, recv: fi.recv}
				w.block(fi.decl.Body.List, copySet(fi.entry))
			}
			changed := false
			for n, fi := range fns {
				var ne map[string]bool
				if ast.IsExported(n) || len(fi.callHeld) == 0 {
					ne = map[string]bool{}
				} else {
					ne = copySet(fi.callHeld[0])
					for _, h := range fi.callHeld[1:] {
						ne = interSet(ne, h)
					}
				}
				if strings.Join(setList(ne), ",") != strings.Join(setList(fi.entry), ",") {
					fi.entry = ne
					changed = true
				}
			}
			if !changed {
				break
			}
		}
		keys := []string{}
		for k := range sites {
			keys = append(keys, k)
		}
		sort.Strings(keys)
		for _, k := range keys {
			all = append(all, sites[k])
		}
	}
	return all, nil
}

func writeLockFacts(root, gen string, status map[string]string, facts map[string]any) {
	var b strings.Builder
	b.WriteString("-- GENERATED by /verif/extract from /repo's current source. Do not edit.\nnamespace PC.Gen.Locks\n\n")
	sites, err := lockFacts(root)
	b.WriteString("/-- (field, function, r|w, mutexes of the receiver held) for every access site of the tracked fields -/\n")
	b.WriteString("def sites : List (String × String × String × List String) := [")
	if err == nil {
		for i, s := range sites {
			if i > 0 {
				b.WriteString(",")
			}
			fmt.Fprintf(&b, "\n  (%q, %q, %q, %s)", s.Field, s.Func, s.Kind, leanStringList(s.Held))
		}
		status["Locks.sites"] = "ok"
		facts["lockSites"] = sites
	} else {
		status["Locks.sites"] = "ERROR"
	}
	b.WriteString("]\n\n")
	b.WriteString(leanLockOrder(root, filepath.Join(filepath.Dir(gen), "..", "..", "..", ".build"), status, facts))
	b.WriteString("\nend PC.Gen.Locks\n")
	target := filepath.Join(gen, "Locks.lean")
	if cur, err := os.ReadFile(target); err != nil || string(cur) != b.String() {
		_ = os.WriteFile(target, []byte(b.String()), 0o644)
	}
}
