"""Per-property tables for bin/check: Lean modules, audited theorems, correspondence components."""

TB_COMMON = [
    "Lean 4.33.0 kernel (lake build); thorough tier re-checks the .olean files with leanchecker",
    "axioms allowed: propext, Classical.choice, Quot.sound (audited per theorem on every run); no sorry/native_decide/bv_decide/own axioms",
    "correspondence harness (/verif/harness, Go, built with -tags verif against /repo's working tree) and line-protocol driver (lean_exe pcdriver)",
    "translator /verif/extract (go/ast subset -> Lean), cross-checked by the correspondence",
]

PROPS = {
    "C18": {
        "design_ref": "DESIGN.md 5 (C18)",
        "technique": "Lean 4 theorems (induction over write/subscribe histories, all integer arguments) + translator-regenerated GetLogRange with Gen = Model by rfl + exhaustive-grid differential run",
        "level_text": "Machine-checked proof: for every buffer and every pair of integers GetLogRange (as regenerated from the source on this run) returns exactly the window and never panics; the buffer is always a suffix of what was written with size <= len <= size+slack bounds; a subscriber receives tail ++ every later line exactly once in order under every interleaving of buffer operations. Tied to the code by the translator (rfl obligation) and by an exhaustive small-grid + random-history differential run against pclog.ProcessLogBuffer.",
        "level_note": "Trusted: Lean kernel, the go/ast mini translator, the harness/driver pair; buffer methods are assumed atomic (mutex) and Go slices are modelled by goSlice; the stalled-WebSocket-follower clause (ws_api.go) is outside these theorems (see DESIGN.md C18/B1).",
        "modules": ["PC.Props.C18"],
        "theorems": [
            "PC.Tie.LogBuf.getLogRange_eq", "PC.Tie.LogBuf.slack_eq",
            "PC.Props.C18.range_spec", "PC.Props.C18.range_spec_src",
            "PC.Props.C18.len_upper", "PC.Props.C18.content_recent", "PC.Props.C18.len_lower",
            "PC.Props.C18.subscribe_total", "PC.Props.C18.run_total", "PC.Props.C18.subscribe_exact",
            "PC.Props.C18.observers_nodup", "PC.Props.C18.write_total",
        ],
        "components": [{"name": "logbuf", "reset": ["new"], "queries": ["range", "len", "got"]}],
        "rule": "exhaustive grid: every buffer length 0..12 (thorough 0..30) x every (offset,limit) in -2..len+2, huge arguments, "
                "then seeded random write/range/len/subscribe/unsubscribe/close histories crossing the trim boundary; "
                "non-trivial = result other than ok/bad-op; distinct by (op,result)",
        "exhaustive": False,
        "trusted_base": TB_COMMON + [
            "modelled, not verified: Go slices/append (PC.Go.goSlice), sync.Mutex atomicity of ProcessLogBuffer methods, the WebSocket follower (api/ws_api.go) is not covered by these theorems",
        ],
        "assumptions": [
            "ProcessLogBuffer operations are atomic (they run under b.mx); GetLogRange/GetLogLength are called without the mutex by the runner - that is C20's concern",
            "window semantics: `limit` lines starting `offset` lines from the end, limit<1 = to the end (DESIGN.md 6.6)",
        ],
    },
    "C02": {
        "design_ref": "DESIGN.md 5 (C02)",
        "technique": "Lean 4 theorems over the restart decision table and back-off, regenerated from the source by the translator (Gen = Model by rfl) + exhaustive decision-table differential run",
        "level_text": "Machine-checked proof (pure part): for every policy string, max_restarts, restart count, exit code and stop flag, isRestartable (regenerated from the source on this run) is true exactly when the availability policy demands a relaunch; never after a stop; never at or beyond max_restarts; back-off = max(1, backoff_seconds). The loop around the decision (relaunch ordering, stop during back-off) is covered by the supervisor model theorems listed in the evidence when present.",
        "level_note": "Trusted: Lean kernel, mini translator, harness/driver. The wall-clock accuracy of time.After and the run() loop below hook granularity are runtime behaviour not exhibited by the model.",
        "modules": ["PC.Props.C02"],
        "theorems": [
            "PC.Tie.Restart.isRestartable_eq", "PC.Tie.Restart.getBackoffSeconds_eq",
            "PC.Props.C02.restartable_spec", "PC.Props.C02.restartable_spec_src", "PC.Props.C02.never_for_no",
            "PC.Props.C02.never_after_stop", "PC.Props.C02.max_bound", "PC.Props.C02.backoff_ge_one", "PC.Props.C02.backoff_ge_one_src",
        ],
        "components": [{"name": "restart", "reset": []}],
        "rule": "exhaustive product policy(8 strings) x max_restarts(-1..4) x restarts(-1..5) x exit code(6 values) x stop flag, plus seeded random tuples and back-off values -3..70 and large ones; distinct by (op,result)",
        "trusted_base": TB_COMMON + ["modelled, not verified: atomic.Bool.Swap, time.Duration arithmetic"],
        "assumptions": ["the decision inputs are the values read at the decision point (exit code, Restarts, isStopped)"],
    },
    "C10": {
        "design_ref": "DESIGN.md 5 (C10)",
        "technique": "Lean 4 theorems over probe defaults / port parsing / fatal decision regenerated from the source (Gen = Model by rfl) + grid differential run; strconv.Atoi model validated against the Go library",
        "level_text": "Machine-checked proof (pure part): for all integer parameterisations the effective probe parameters are legal and legal values are kept (idempotent); for every port string the effective port is unset or within 1..65535; a check result is fatal exactly when the contiguous-failure count equals the threshold and ok exactly for status ok; a stopped prober reports nothing; k consecutive failures after a success give counter k. Probe-driven state changes (Ready / Not Ready / forgotten, stop and restart at the threshold) are covered by the supervisor model theorems listed in the evidence when present.",
        "level_note": "Trusted: Lean kernel, mini translator, harness/driver, the strconv.Atoi model (differentially validated on every run). go-health's scheduling of checks (ticker, initial delay, timeouts) is runtime behaviour outside the model.",
        "modules": ["PC.Props.C10"],
        "theorems": [
            "PC.Tie.Probe.validateAndSetDefaults_eq", "PC.Tie.Probe.httpNumPort_eq", "PC.Tie.Probe.healthCheckCompleted_eq",
            "PC.Props.C10.defaults_legal", "PC.Props.C10.defaults_keep", "PC.Props.C10.defaults_idempotent", "PC.Props.C10.defaults_legal_src",
            "PC.Props.C10.port_legal", "PC.Props.C10.port_legal_src", "PC.Props.C10.fatal_iff", "PC.Props.C10.stopped_silent",
            "PC.Props.C10.fatal_iff_src", "PC.Props.C10.contiguous_after", "PC.Props.C10.contiguous_initial",
        ],
        "components": [{"name": "probe", "reset": []}, {"name": "atoi", "reset": []}],
        "rule": "exhaustive grid {-2..3}^5 of probe integers (thorough: 14 values incl. int32/int64 extremes), fixed and random port strings over digits/sign/space/underscore, threshold x counter x status x stopped grid; strconv.Atoi on fixed edge cases and random strings; distinct by (op,result)",
        "trusted_base": TB_COMMON + ["modelled, not verified: go-health (contiguous-failure counter semantics: reset on success, +1 on failure), strconv.Atoi (PC.Go.atoi, validated differentially)"],
        "assumptions": ["go-health increments ContiguousFailures by one per failed check and resets it on success"],
    },
}
