"""Per-property tables for bin/check: Lean modules, audited theorems, correspondence components."""

TB_COMMON = [
    "Lean 4.33.0 kernel (lake build); thorough tier re-checks the .olean files with leanchecker",
    "axioms allowed: propext, Classical.choice, Quot.sound (audited per theorem on every run); no sorry/native_decide/bv_decide/own axioms",
    "correspondence harness (/verif/harness, Go, built with -tags verif against /repo's working tree) and line-protocol driver (lean_exe pcdriver)",
    "translator /verif/extract (go/ast subset -> Lean), cross-checked by the correspondence",
]

PROPS = {
    "C18": {
        "design_ref": "DESIGN.md 5 (C18)",
        "technique": "Lean 4 theorems (induction over write/subscribe histories, all integer arguments) + translator-regenerated GetLogRange with Gen = Model by rfl + exhaustive-grid differential run",
        "level_text": "Machine-checked proof: for every buffer and every pair of integers GetLogRange (as regenerated from the source on this run) returns exactly the window and never panics; the buffer is always a suffix of what was written with size <= len <= size+slack bounds; a subscriber receives tail ++ every later line exactly once in order under every interleaving of buffer operations. Tied to the code by the translator (rfl obligation) and by an exhaustive small-grid + random-history differential run against pclog.ProcessLogBuffer.",
        "level_note": "Trusted: Lean kernel, the go/ast mini translator, the harness/driver pair; buffer methods are assumed atomic (mutex) and Go slices are modelled by goSlice; the stalled-WebSocket-follower clause (ws_api.go) is outside these theorems (see DESIGN.md C18/B1).",
        "modules": ["PC.Props.C18"],
        "theorems": [
            "PC.Tie.LogBuf.getLogRange_eq", "PC.Tie.LogBuf.slack_eq",
            "PC.Props.C18.range_spec", "PC.Props.C18.range_spec_src",
            "PC.Props.C18.len_upper", "PC.Props.C18.content_recent", "PC.Props.C18.len_lower",
            "PC.Props.C18.subscribe_total", "PC.Props.C18.run_total", "PC.Props.C18.subscribe_exact",
            "PC.Props.C18.observers_nodup", "PC.Props.C18.write_total",
        ],
        "components": [{"name": "logbuf", "reset": ["new"], "queries": ["range", "len", "got"]}],
        "rule": "exhaustive grid: every buffer length 0..12 (thorough 0..30) x every (offset,limit) in -2..len+2, huge arguments, "
                "then seeded random write/range/len/subscribe/unsubscribe/close histories crossing the trim boundary; "
                "non-trivial = result other than ok/bad-op; distinct by (op,result)",
        "exhaustive": False,
        "trusted_base": TB_COMMON + [
            "modelled, not verified: Go slices/append (PC.Go.goSlice), sync.Mutex atomicity of ProcessLogBuffer methods, the WebSocket follower (api/ws_api.go) is not covered by these theorems",
        ],
        "assumptions": [
            "ProcessLogBuffer operations are atomic (they run under b.mx); GetLogRange/GetLogLength are called without the mutex by the runner - that is C20's concern",
            "window semantics: `limit` lines starting `offset` lines from the end, limit<1 = to the end (DESIGN.md 6.6)",
        ],
    },
}
