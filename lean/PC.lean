-- root of the library: every property module (imports pull in models, specs, ties)
import PC.Props.C01
import PC.Props.C02
import PC.Props.C03
import PC.Props.C04
import PC.Props.C05
import PC.Props.C06
import PC.Props.C08
import PC.Props.C09
import PC.Props.C10
import PC.Props.C12
import PC.Props.C18
import PC.Props.C11
import PC.Props.C17
import PC.Props.C13
import PC.Props.C14
import PC.Props.C15
import PC.Props.C16
