-- This module serves as the root of the `PC` library.
-- Import modules here that should be built as part of the library.
import PC.Basic
