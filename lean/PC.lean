-- root of the library: every property module (imports pull in models, specs, ties)
import PC.Props.C18
