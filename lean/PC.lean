-- root of the library: every property module (imports pull in models, specs, ties)
import PC.Props.C02
import PC.Props.C06
import PC.Props.C10
import PC.Props.C18
