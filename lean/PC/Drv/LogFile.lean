import PC.Drv.Util
import PC.Model.LogFile
/-! Driver for `logfile` (C11 end to end). -/
namespace PC.Drv.LogFile
open PC.Drv PC.LogFile

def fieldOf (res key : String) : String :=
  match res.splitOn (key ++ "=") with
  | _ :: rest :: _ => (rest.splitOn " ").headD ""
  | _ => ""

def showList (stream : String) (l : List (Nat × Nat)) : String := "[" ++ ",".intercalate (l.map (render stream)) ++ "]"

def step (_ : Unit) (line : String) : Unit × String :=
  let (op, impl) := splitLine line
  match words op with
  | ["lf", pol, mx, codes, cnt, last, _] =>
    match mx.toInt?, cnt.toNat? with
    | some m, some c =>
      let cs := (codes.splitOn ",").filterMap (·.toInt?)
      let n := attempts pol m cs
      let nl := last == "1"
      let o := showList "out" (expected n c nl)
      let e := showList "err" (expected n c false)
      let model := s!"status=Completed restarts={n - 1} mem_out={o} mem_err={e} file_out={o} file_err={e}"
      -- the property on the implementation's answer, part by part
      let fails := (if fieldOf impl "mem_out" != o then ["C11:stdout-lines-in-memory-log"] else []) ++
        (if fieldOf impl "mem_err" != e then ["C11:stderr-lines-in-memory-log"] else []) ++
        (if fieldOf impl "file_out" != o then ["C11:stdout-lines-in-log-file"] else []) ++
        (if fieldOf impl "file_err" != e then ["C11:stderr-lines-in-log-file"] else [])
      ((), model ++ " ||| " ++ (if fails.isEmpty then "ok" else "bad:C11:" ++ "; ".intercalate fails))
    | _, _ => ((), "bad-op")
  | _ => ((), "bad-op")

end PC.Drv.LogFile
