import PC.Drv.Util
import PC.Model.LogFile
/-! Driver for `logfile` (C11 end to end). -/
namespace PC.Drv.LogFile
open PC.Drv PC.LogFile

def fieldOf (res key : String) : String :=
  match res.splitOn (key ++ "=") with
  | _ :: rest :: _ => (rest.splitOn " ").headD ""
  | _ => ""

def showList (stream : String) (l : List (Nat × Nat)) : String := "[" ++ ",".intercalate (l.map (render stream)) ++ "]"

def step (_ : Unit) (line : String) : Unit × String :=
  let (op, impl) := splitLine line
  match words op with
  | ["lf", pol, mx, codes, cnt, last, _] =>
    match mx.toInt?, cnt.toNat? with
    | some m, some c =>
      -- `K` / `T`: the command ends by a signal; Go reports exit code -1 for it
      let cs := (codes.splitOn ",").filterMap fun c => if c == "K" || c == "T" then some (-1 : Int) else c.toInt?
      let n := attempts pol m cs
      let nl := last == "1"
      let o := showList "out" (expected n c nl)
      let e := showList "err" (expected n c false)
      let lastCode : Int := cs.getD (n - 1) 0
      let run := if pol == "exit_on_failure" && lastCode != 0 then s!"exit:{lastCode}" else "ok"
      let model := s!"status=Completed restarts={n - 1} mem_out={o} mem_err={e} file_out={o} file_err={e} exit={lastCode} run={run}"
      -- the property on the implementation's answer, part by part
      let fails := (if fieldOf impl "mem_out" != o then ["C11:stdout-lines-in-memory-log"] else []) ++
        (if fieldOf impl "mem_err" != e then ["C11:stderr-lines-in-memory-log"] else []) ++
        (if fieldOf impl "file_out" != o then ["C11:stdout-lines-in-log-file"] else []) ++
        (if fieldOf impl "file_err" != e then ["C11:stderr-lines-in-log-file"] else []) ++
        (if fieldOf impl "restarts" != toString (n - 1) then ["C02:number-of-relaunches-differs-from-the-policy (a command ended by a signal has failed)"] else []) ++
        (if fieldOf impl "exit" != toString lastCode then ["C09:reported-exit-code-is-not-the-last-command's (non-zero for a command ended by a signal)"] else []) ++
        (if fieldOf impl "run" != run then ["C04:project-exit-code (exit_on_failure: the code of the process that failed, also when it was ended by a signal)"] else [])
      let ids := ["C11", "C02", "C09", "C04"].filter fun p => fails.any (·.startsWith p)
      ((), model ++ " ||| " ++ (if fails.isEmpty then "ok" else "bad:" ++ ",".intercalate ids ++ ":" ++ "; ".intercalate fails))
    | _, _ => ((), "bad-op")
  | ["lfq", n, ms] =>
    match n.toNat?, ms.toNat? with
    | some n, some _ =>
      -- a log file that takes no data for a while gets every line once it does
      let l := s!"[1:1-{n}]"
      let model := s!"mem_out={l} mem_err={l} file_out={l} file_err={l}"
      let fails := (if fieldOf impl "mem_out" != l then ["C11:stdout-lines-in-memory-log"] else []) ++
        (if fieldOf impl "mem_err" != l then ["C11:stderr-lines-in-memory-log"] else []) ++
        (if fieldOf impl "file_out" != l then ["C11:stdout-lines-in-log-file (the file took no data for a while)"] else []) ++
        (if fieldOf impl "file_err" != l then ["C11:stderr-lines-in-log-file (the file took no data for a while)"] else [])
      ((), model ++ " ||| " ++ (if fails.isEmpty then "ok" else "bad:C11:" ++ "; ".intercalate fails))
    | _, _ => ((), "bad-op")
  | ["lfs", n, b] =>
    match n.toNat?, b.toNat? with
    | some n, some b =>
      -- everything written before the stop and everything the TERM handler wrote, in order, once
      let l := s!"[1:1-{n},2:1-{b}]"
      let model := s!"mem_out={l} mem_err={l} file_out={l} file_err={l}"
      let fails := (if fieldOf impl "mem_out" != l then ["C11:stdout-lines-in-memory-log (output written while the process was being stopped)"] else []) ++
        (if fieldOf impl "mem_err" != l then ["C11:stderr-lines-in-memory-log (output written while the process was being stopped)"] else []) ++
        (if fieldOf impl "file_out" != l then ["C11:stdout-lines-in-log-file (output written while the process was being stopped)"] else []) ++
        (if fieldOf impl "file_err" != l then ["C11:stderr-lines-in-log-file (output written while the process was being stopped)"] else [])
      ((), model ++ " ||| " ++ (if fails.isEmpty then "ok" else "bad:C11:" ++ "; ".intercalate fails))
    | _, _ => ((), "bad-op")
  | _ => ((), "bad-op")

end PC.Drv.LogFile
