import PC.Drv.Util
import PC.Model.Update
/-! Driver for `update`: `cmp FIELD` (Compare of a configuration with a copy that differs in FIELD
    only) and `upinit SPEC` / `update SPEC` (SPEC = `name:FIELD|-,...`: the processes of the project
    and the single field in which each differs from the base configuration). -/
namespace PC.Drv.Update
open PC.Drv PC.Update

structure St where
  cur : List (String × String) := []     -- name ↦ mutated field ("-" = base)
  launches : Nat := 0
  stops : Nat := 0
  insts : List Inst := []                -- configured instances (model of the running set)
  next : Nat := 0

def sortStrings (l : List String) : List String := (l.toArray.qsort (· < ·)).toList

def cfgOf (name field : String) : Config :=
  (if field == "-" then [] else [(field, "changed")]) ++ [("Name", name)]

def projOf (sp : List (String × String)) : Project := sp.map fun (n, f) => (n, cfgOf n f)

def parseSpec (s : String) : List (String × String) :=
  if s == "-" then [] else
  (s.splitOn ",").filterMap fun e => match e.splitOn ":" with
    | [n, f] => some (n, f)
    | _ => none

/-- `before` = the instance numbers that existed before this operation -/
def dump (st : List (String × String)) (s : St) (before : Nat) : String :=
  let sts := sortStrings (st.map fun (n, v) => n ++ ":" ++ v)
  let names := sortStrings (s.cur.map (·.1))
  let inst := sortStrings (s.insts.map fun i => i.name ++ (if i.id < before then ":k" else ":n"))
  s!"status=[{",".intercalate sts}] names=[{",".intercalate names}] launches={s.launches} stops={s.stops} inst=[{",".intercalate inst}]"

def step (s : St) (line : String) : St × String :=
  let (op, impl) := splitLine line
  match words op with
  | ["cmp", f] =>
    let m := if cfgEqual (cfgOf "p" "-") (cfgOf "p" f) then "true" else "false"
    -- spec: launch-relevant fields must make the configurations differ
    let relevant := ["Executable", "Args", "Entrypoint", "Command", "Environment", "WorkingDir", "LivenessProbe",
      "ReadinessProbe", "RestartPolicy", "ShutDownParams", "DependsOn"]
    (s, m ++ " ||| " ++ (if relevant.contains f && impl == "true" then "bad:launch-relevant-field-ignored " ++ f else "ok"))
  | ["cmpv", g, a, b] =>
    -- two configurations that differ inside one launch-relevant nested value (probe kind / content /
    -- timing, shutdown parameters, restart policy, dependency condition, environment entry):
    -- variant numbers name distinct values, so the configurations are equal exactly when a = b
    let groups : List (String × Nat) := [("rp", 8), ("lp", 8), ("sd", 5), ("rs", 5), ("dep", 4), ("env", 4)]
    match groups.lookup g, a.toNat?, b.toNat? with
    | some n, some x, some y =>
      if x < n && y < n then
        let m := if x == y then "true" else "false"
        (s, m ++ " ||| " ++ (if impl == m then "ok" else "bad:launch-relevant-difference-ignored " ++ g ++ " " ++ a ++ " " ++ b))
      else (s, "bad-op")
    | _, _, _ => (s, "bad-op")
  | ["upvar", ch] =>
    -- a project-level variable rendered into `p`'s command changes (1) or not (0): `p` is updated -
    -- old instance terminated, a new one launched with the new command - exactly when it changes;
    -- `q` keeps its instance either way
    let m := if ch == "1" then "status=[p:updated] names=[p,q] launches=3 stops=1 inst=[p:n,q:k] cmd=run_two"
             else "status=[] names=[p,q] launches=2 stops=0 inst=[p:k,q:k] cmd=run_one"
    (s, m ++ " ||| " ++ (if impl == m then "ok" else "bad:a process whose rendered launch configuration changed (project-level variable) must be updated, one whose did not must be kept: want " ++ m))
  | ["upinit", sp] =>
    let cur := parseSpec sp
    let insts := applyUpdate [] (projOf cur) 0
    let s' : St := { cur := cur, launches := cur.length, stops := 0, insts := insts, next := cur.length }
    let d := dump [] s' 0
    (s', d ++ " ||| " ++ (if impl == d then "ok" else "bad:initial-project"))
  | ["update", sp] =>
    let new := parseSpec sp
    let st := classify (projOf s.cur) (projOf new)
    let added := (st.filter (·.2 == "added")).length
    let removed := (st.filter (·.2 == "removed")).length
    let updated := (st.filter (·.2 == "updated")).length
    let insts := applyUpdate s.insts (projOf new) s.next
    let s' : St := { cur := new, launches := s.launches + added + updated, stops := s.stops + removed + updated,
                     insts := insts, next := s.next + new.length }
    let d := dump st s' s.next
    (s', d ++ " ||| " ++ (if impl == d then "ok" else "bad:want=" ++ d))
  | _ => (s, "bad-op")

end PC.Drv.Update
