import PC.Drv.Util
import PC.Model.Merge
import PC.Props.C15
/-! Driver for `merge`:
    * `menv B O`   — the environment transformer on two lists (`!` nil, `~` empty, else hex entries);
    * `mproc B O`  — `mergeProcess` on two abstract process configurations;
    * `mfiles B O` — two projects: loaded as `[base, override]` and as `[override extends base]`.
    Process encoding: `scalars;env;deps;entry` with `~` for an empty component,
    scalars `k:hex,…`, deps `name:cond,…`, entry `hex,…`. -/
namespace PC.Drv.Merge
open PC.Drv PC.Merge

def fields : List String :=
  ["command", "description", "working_dir", "namespace", "ready_log_line", "log_location",
   "is_daemon", "disabled", "replicas", "availability.restart", "availability.backoff_seconds",
   "availability.max_restarts", "availability.exit_on_end", "shutdown.command",
   "shutdown.timeout_seconds", "shutdown.signal", "shutdown.parent_only",
   "readiness_probe.period_seconds", "readiness_probe.exec.command", "liveness_probe.http_get.host"]

def parseList (s : String) : List String := if s == "~" then [] else s.splitOn ","

def parseEnv (s : String) : Option (Bool × List (List Char)) :=
  if s == "!" then some (true, []) else
  if s == "~" then some (false, []) else
  ((s.splitOn ",").mapM hexDec).map fun l => (false, l.map String.toList)

def parseProc (s : String) : Option Proc :=
  match s.splitOn ";" with
  | [sc, env, deps, entry] => do
    let scalars ← (parseList sc).mapM fun e => match e.splitOn ":" with
      | [k, v] => (hexDec v).map fun v => (k, v)
      | _ => none
    let (envNil, env) ← parseEnv env
    let deps ← (parseList deps).mapM fun e => match e.splitOn ":" with
      | [k, c] => some (k, c)
      | _ => none
    let entry ← (parseList entry).mapM hexDec
    pure { scalars, envNil, env, deps, entry }
  | _ => none

def parseProj (s : String) : Option Project :=
  if s == "~" then some [] else
  (s.splitOn "|").mapM fun e => match e.splitOn "@" with
    | [n, p] => (parseProc p).map fun p => (n, p)
    | _ => none

def showL (l : List String) : String := if l.isEmpty then "~" else ",".intercalate l

def showEnv (env : List (List Char)) : String :=
  if env.isEmpty then "!" else ",".intercalate (env.map fun e => hexEncE (String.ofList e))

def showProc (p : Proc) : String :=
  let sc := fields.filterMap fun f => let v := scalarOf p f; if v == "" then none else some (f ++ ":" ++ hexEnc v)
  let deps := sortStrings (p.deps.map fun (k, c) => k ++ ":" ++ c)
  showL sc ++ ";" ++ showEnv p.env ++ ";" ++ showL deps ++ ";" ++ showL (p.entry.map hexEncE)

def showProj (p : Project) : String :=
  if p.isEmpty then "~" else "|".intercalate (sortStrings (p.map fun (n, q) => n ++ "@" ++ showProc q))

/-- load-time defaults that `loader.Load` applies after the merge -/
def defaults (p : Proc) : Proc :=
  let p := if scalarOf p "namespace" == "" then setScalar p "namespace" "default" else p
  if scalarOf p "replicas" == "" then setScalar p "replicas" "1" else p

/-! Property oracles on the implementation's answer (independent of the model's merge path). -/

def keysOf (env : List (List Char)) : List (List Char) := env.filterMap fun e => (splitKV e).map (·.1)

/-- merged by key, later file wins, values byte for byte; nothing invented -/
def envOracle (be oe impl : List (List Char)) : Option String :=
  let want (k : List Char) := (PC.Props.C15.lastDef oe k).orElse fun _ => PC.Props.C15.lastDef be k
  match (keysOf (be ++ oe ++ impl)).find? fun k => PC.Props.C15.lastDef impl k != want k with
  | some k => some ("env-key-lost-or-changed " ++ hexEncE (String.ofList k))
  | none => none

def scalarOracle (b o impl : Proc) : Option String :=
  match fields.find? fun f => scalarOf impl f != (if scalarOf o f ≠ "" then scalarOf o f else scalarOf b f) with
  | some f => some ("option-not-overridden-or-lost " ++ f)
  | none => none

def depsOracle (b o impl : Proc) : Option String :=
  let want := (b.deps.filter fun d => !(o.deps.any (·.1 = d.1))) ++ o.deps
  if sortStrings (want.map fun (k, c) => k ++ ":" ++ c) == sortStrings (impl.deps.map fun (k, c) => k ++ ":" ++ c)
  then none else some "depends_on-not-merged-by-key"

def verdictOf (l : List (Option String)) : String :=
  match l.filterMap id with
  | [] => "ok"
  | ds => "bad:C15:" ++ "; ".intercalate (ds.map ("C15:" ++ ·))

def maskWd (p : Project) : Project := p.map fun (n, q) => (n, { q with scalars := q.scalars.filter (·.1 ≠ "working_dir") })

def parseTwoExt (impl : String) : Option (Project × Project) :=
  match words impl with
  | [t, e] =>
    if t.startsWith "two=" && e.startsWith "ext=" then do
      let a ← parseProj (t.drop 4).toString
      let b ← parseProj (e.drop 4).toString
      pure (a, b)
    else none
  | _ => none

/-- working directories of the base's processes that the later files do not set: resolved against
    the directory of the file that defines them (`want`: the model's extends result, whose
    directories are the aliases `@A`, `@B` the harness substitutes for the real ones) -/
def wdOracle (bases : List Project) (later : List Project) (want ext : Project) : Option String :=
  ext.findSome? fun (n, q) =>
    if bases.any (fun b => (lookupProc b n).isSome) && later.all (fun o => scalarOf ((lookupProc o n).getD {}) "working_dir" == "") then
      let w := scalarOf ((lookupProc want n).getD {}) "working_dir"
      if scalarOf q "working_dir" != w then some ("base-working-dir-not-resolved-against-its-file " ++ n) else none
    else none

def filesOracle (b o : Project) (impl : String) (mext : Project := []) : List (Option String) :=
  match parseTwoExt impl with
  | none => [some ("load-failed " ++ impl.take 60)]
  | some (two, ext) =>
    [wdOracle [b] [o] mext ext] ++
    let names := sortStrings ((b.map (·.1) ++ (o.filter fun (n, _) => (lookupProc b n).isNone).map (·.1)))
    [ if sortStrings (two.map (·.1)) == names then none else some "process-of-one-file-lost",
      if showProj (maskWd two) == showProj (maskWd ext) then none else some "extends-differs-from-two-files",
      (two.findSome? fun (n, q) =>
        let bq := (lookupProc b n).getD {}
        let oq := (lookupProc o n).getD {}
        let sc := fields.find? fun f => f ≠ "namespace" ∧ f ≠ "replicas" ∧
          scalarOf q f != (if scalarOf oq f ≠ "" then scalarOf oq f else scalarOf bq f)
        match sc with
        | some f => some ("option-not-overridden-or-lost " ++ n ++ "." ++ f)
        | none =>
          if (lookupProc b n).isSome && (lookupProc o n).isSome && !bq.envNil then
            (envOracle bq.env oq.env q.env).map (n ++ " " ++ ·)
          else none) ]

def step (_ : Unit) (line : String) : Unit × String :=
  let (op, impl) := splitLine line
  match words op with
  | ["menv", b, o] =>
    match parseEnv b, parseEnv o with
    | some (bn, be), some (_, oe) =>
      let m := showEnv (mergeEnvList { envNil := bn, env := be } { env := oe })
      let v := match parseEnv impl with
        | some (_, ie) => verdictOf [envOracle be oe ie]
        | none => "bad:C15:C15:unparsable-result"
      ((), m ++ " ||| " ++ v)
    | _, _ => ((), "bad-op")
  | ["mproc", b, o] =>
    match parseProc b, parseProc o with
    | some b, some o =>
      let m := showProc (mergeProc fields b o)
      let v := match parseProc impl with
        | some ip => verdictOf [scalarOracle b o ip, envOracle b.env o.env ip.env, depsOracle b o ip]
        | none => "bad:C15:C15:unparsable-result"
      ((), m ++ " ||| " ++ v)
    | _, _ => ((), "bad-op")
  | ["mglob", mb, mo] =>
    match mb.toNat?, mo.toNat? with
    | some b, some o =>
      if b > 63 || o > 63 then ((), "bad-op") else
      -- the project-level sections of two files; bit k of a mask: that file mentions key k. A key the
      -- later file mentions takes its value, a key only the earlier one mentions keeps the earlier
      -- value; environment and vars are merged by key; every process of either file is kept.
      let has (m k : Nat) : Bool := (m / k) % 2 == 1
      let pick (k : Nat) (vb vo : String) : String := if has o k then vo else if has b k then vb else "-"
      let env :=
        if !(has b 16) && !(has o 16) then "-" else
        ",".intercalate ((if has b 16 then ["BB=1"] else []) ++ [if has o 16 then "G=O" else "G=B"] ++ (if has o 16 then ["OO=1"] else []))
      let vars :=
        if !(has b 32) && !(has o 32) then "-" else
        ",".intercalate ((if has b 32 then ["b:1"] else []) ++ (if has o 32 then ["o:1"] else []) ++ [if has o 32 then "v:O" else "v:B"])
      let one := s!"sc={pick 1 "sh" "bash"};sa={pick 2 "-c" "-ec"};ln={pick 4 "111" "222"};ve={pick 8 "vB" "vO"};en={env};va={vars};procs=pB,pO"
      let m := s!"two:{one} ext:{one}"
      ((), m ++ " ||| " ++ (if impl == m then "ok" else "bad:C15:C15:project-level-setting-lost-or-override-ignored (a setting of the earlier file that the later file does not mention must survive, one it mentions must win): want " ++ m))
    | _, _ => ((), "bad-op")
  | ["mfiles", b, o] =>
    match parseProj b, parseProj o with
    | some b, some o =>
      let two := (mergeChain fields [b, o]).map fun (n, p) => (n, defaults p)
      let ext := (loadExtends fields "@B" b o).map fun (n, p) => (n, defaults p)
      let m := "two=" ++ showProj two ++ " ext=" ++ showProj ext
      ((), m ++ " ||| " ++ verdictOf (filesOracle b o impl ext))
    | _, _ => ((), "bad-op")
  | ["mchain", a, b, c] =>
    match parseProj a, parseProj b, parseProj c with
    | some a, some b, some c =>
      let three := (mergeChain fields [a, b, c]).map fun (n, p) => (n, defaults p)
      let ext := (loadChain fields [("@A", a), ("@B", b)] c).map fun (n, p) => (n, defaults p)
      let m := "two=" ++ showProj three ++ " ext=" ++ showProj ext
      let v := match parseTwoExt impl with
        | none => "bad:C15:C15:load-failed"
        | some (t, e) => verdictOf [if showProj (maskWd t) == showProj (maskWd e) then none else some "extends-chain-differs-from-naming-the-files",
                                    wdOracle [a, b] [c] ext e]
      ((), m ++ " ||| " ++ v)
    | _, _, _ => ((), "bad-op")
  | _ => ((), "bad-op")

end PC.Drv.Merge
