import PC.Drv.Util
import PC.Model.Api
/-! Driver for `api`: `rq VERB SEGS BODY` (a request through the routes) and `cl METHOD ARGS…`
    (a call of the bundled client). The implementation's line tells which `IProject` operation the
    request performed and the class of its result; the model computes the status and the operation
    from the request and that result class. -/
namespace PC.Drv.Api
open PC.Drv PC.Api

def parseSegs (s : String) : Option (List String) :=
  if s == "~" then some [] else (s.splitOn ",").mapM hexDec

def bodyOf (k : String) : Body :=
  if k == "-" then .absent else if k == "m" || k == "t" then .malformed else .valid

/-- result class echoed from the implementation's `inv=Op(args):res` -/
def implRes (impl : String) : Res :=
  if (impl.splitOn ":partialErr").length > 1 then .partialErr
  else if (impl.splitOn ":err").length > 1 then .err else .ok

def showRes : Res → String
  | .ok => "ok" | .err => "err" | .partialErr => "partialErr"

def showInv (res : Res) : Option (String × List String) → String
  | none => "none"
  | some (op, args) => op ++ "(" ++ ",".intercalate (args.map hexEncE) ++ "):" ++ showRes res

def field (impl k : String) : String :=
  match impl.splitOn (k ++ "=") with
  | [_, r] => (r.splitOn " ").headD ""
  | _ => ""

/-- operations that take the decoded body as their argument -/
def bodyOps : List String := ["StopProcesses", "UpdateProcess", "UpdateProject"]

def clientOp : String → List String → Option (String × List String)
  | "GetProcessState", [n] => some ("GetProcessState", [n])
  | "GetProcessInfo", [n] => some ("GetProcessInfo", [n])
  | "GetProcessPorts", [n] => some ("GetProcessPorts", [n])
  | "GetProcessesState", [] => some ("GetProcessesState", [])
  | "GetHostName", [] => some ("GetHostName", [])
  | "GetProjectState", [] => some ("GetProjectState", [])
  | "StopProcess", [n] => some ("StopProcess", [n])
  | "StartProcess", [n] => some ("StartProcess", [n])
  | "RestartProcess", [n] => some ("RestartProcess", [n])
  | "ScaleProcess", [n, k] => some ("ScaleProcess", [n, k])
  | "StopProcesses", _ => some ("StopProcesses", ["<body>"])
  | "ReloadProject", [] => some ("ReloadProject", [])
  | "GetProcessLog", [n, a, b] => some ("GetProcessLog", [n, a, b])
  | _, _ => none

def step (_ : Unit) (line : String) : Unit × String :=
  let (op, impl) := splitLine line
  match words op with
  | ["apinit"] => ((), "ok ||| ok")
  | ["rq", verb, sg, bk] =>
    match parseSegs sg with
    | none => ((), "bad-op")
    | some path =>
      let res := implRes impl
      let o := respond verb path (bodyOf bk) res
      let inv := o.invoked.map fun (opn, args) => (opn, if bodyOps.contains opn then ["<body>"] else args)
      let body :=
        if o.status == 404 then "-"
        else if o.status == 400 then "error"
        else if inv.isSome then "same" else "other"
      let m := s!"status={o.status} inv={showInv res inv} body={body}"
      let st := (field impl "status").toNat?.getD 0
      let v :=
        if (impl.splitOn "PANIC").length > 1 then "bad:C19:C19:handler-panic"
        else if st ≥ 500 && !(o.status == 500) then "bad:C19:C19:server-error-5xx"
        else if field impl "body" == "diff" then "bad:C19:C19:response-differs-from-direct-result"
        else if field impl "body" == "error-text-differs" then "bad:C19:C19:error-message-differs-from-direct-result"
        else if impl.startsWith "status=" && impl != m then "bad:C19:C19:not-the-operation-or-status-of-the-request"
        else "ok"
      ((), m ++ " ||| " ++ v)
  | "cl" :: meth :: args =>
    match args.mapM hexDec with
    | none => ((), "bad-op")
    | some a =>
      let res := implRes impl
      let inv := if meth == "IsAlive" then none else clientOp meth a
      let m := s!"inv={showInv res inv} ret=same"
      let r := field impl "ret"
      let v :=
        if r == "panic" then "bad:C19:C19:client-panics " ++ meth
        else if r != "same" && r != "" then "bad:C19:C19:client-result-differs-from-direct-result " ++ meth ++ " " ++ r
        else if impl.startsWith "inv=" && impl != m then "bad:C19:C19:client-reaches-another-operation " ++ meth
        else "ok"
      ((), m ++ " ||| " ++ v)
  | _ => ((), "bad-op")

end PC.Drv.Api
