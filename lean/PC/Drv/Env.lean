import PC.Drv.Util
import PC.Model.Env
/-! Driver for `env`: `expand ENV TEXT`, `load ENV TEXT`, `procenv NAME REPLICA INH GLOB OWN KEY`
    (ENV and the layers are `k=v;k=v` lists in hex, `-` when empty). -/
namespace PC.Drv.Env
open PC.Drv PC.Go PC.Env

def parsePairs (h : String) : Option (List (String × String)) :=
  match hexDec h with
  | none => none
  | some s => some ((s.splitOn ";").filterMap fun kv =>
      if kv.isEmpty then none else
      match kv.splitOn "=" with
      | k :: rest => some (k, "=".intercalate rest)
      | [] => none)

def mapping (env : List (String × String)) (n : List Char) : List Char :=
  ((envLookup env (String.ofList n)).getD "").toList

/-! Specification of load-time expansion on the *simple fragment* (C17 as stated): a text made of
    `$$`, `$NAME`, `${NAME}` (NAME an identifier) and other characters; `$$` yields `$`, a reference
    yields the value, everything else is kept. `none`: the text is outside the fragment (a lone `$`,
    `$1`, `${}`, ...), where the property says nothing and only the model is compared. -/
def isNameStart (c : Char) : Bool := c.isAlpha || c == '_'
def isNameChar (c : Char) : Bool := c.isAlphanum || c == '_'

def specLoad (mapping : List Char → List Char) : Nat → List Char → Option (List Char)
  | 0, _ => none
  | _, [] => some []
  | f + 1, '$' :: '$' :: rest => (specLoad mapping f rest).map ('$' :: ·)
  | f + 1, '$' :: '{' :: rest =>
    let name := rest.takeWhile isNameChar
    match rest.dropWhile isNameChar with
    | '}' :: r =>
      if (name.head?.map isNameStart).getD false then (specLoad mapping f r).map (mapping name ++ ·) else none
    | _ => none
  | f + 1, '$' :: c :: rest =>
    if isNameStart c then
      let name := (c :: rest).takeWhile isNameChar
      (specLoad mapping f ((c :: rest).dropWhile isNameChar)).map (mapping name ++ ·)
    else none
  | _, ['$'] => none
  | f + 1, c :: rest => (specLoad mapping f rest).map (c :: ·)

def hasSub (t p : List Char) : Bool := (List.range (t.length + 1)).any fun i => p.isPrefixOf (t.drop i)

def step (_ : Unit) (line : String) : Unit × String :=
  let (op, impl) := splitLine line
  match words op with
  | ["expand", e, t] =>
    match parsePairs e, hexDec t with
    | some env, some txt =>
      let r := hexEncE (String.ofList (expand (mapping env) txt.toList))
      ((), r ++ " ||| " ++ (if impl == r then "ok" else "bad:os.Expand-model"))
    | _, _ => ((), "bad-op")
  | ["load", e, t] =>
    match parsePairs e, hexDec t with
    | some env, some txt =>
      let r := hexEncE (String.ofList (loadText (mapping env) txt.toList))
      -- spec on the plain fragment: text without `$` and `#` is loaded unchanged
      let plain := txt.toList.all fun c => c != '$' && c != '#'
      -- spec on the simple fragment (the text and the values are free of the internal placeholder)
      let clean := !hasSub txt.toList envEscaped && env.all fun kv => !hasSub kv.2.toList envEscaped
      let want := if clean then specLoad (mapping env) (txt.length + 1) txt.toList else none
      let v := if plain && impl != hexEncE txt then "bad:plain-text-altered"
        else match want with
          | some w => if impl == hexEncE (String.ofList w) then "ok" else "bad:load-differs-from-spec want=" ++ hexEncE (String.ofList w)
          | none => "ok"
      ((), r ++ " ||| " ++ v)
    | _, _ => ((), "bad-op")
  | ["loadkey", e, kh, nh] =>
    match parsePairs e, hexDec kh, hexDec nh with
    | some env, some key, some num =>
      -- the whole file text is rewritten before it is parsed: a variable in a mapping key or in a
      -- numeric field is replaced like anywhere else (one process, under the expanded name)
      let k := String.ofList (loadText (mapping env) key.toList)
      let n := String.ofList (loadText (mapping env) num.toList)
      let m := match n.toNat? with
        | some v => "names=" ++ showHexList [k] ++ " replicas=" ++ toString v
        | none => "err"
      ((), m ++ " ||| " ++ (if impl == m then "ok" else "bad:a variable in a process name or a numeric field is not replaced by its value (or leaves a second entry): want " ++ m))
    | _, _, _ => ((), "bad-op")
  | ["dotenv", ih, fh, t] =>
    match parsePairs ih, parsePairs fh, hexDec t with
    | some inh, some file, some txt =>
      -- the file only supplies what the process-compose environment does not define (even as empty)
      let env := inh ++ file.filter fun kv => !(inh.any (·.1 == kv.1))
      let r := hexEncE (String.ofList (loadText (mapping env) txt.toList))
      ((), r ++ " ||| " ++ (if impl == r then "ok" else "bad:dotenv-precedence want=" ++ r))
    | _, _, _ => ((), "bad-op")
  | "launchenv" :: g :: a :: b :: kh :: rest =>
    match parsePairs g, parsePairs a, parsePairs b, hexDec kh with
    | some glob0, some ownP, some ownQ, some k =>
      if rest != [] && rest != ["cmds"] then ((), "bad-op") else
      -- `env_cmds`: the trimmed output of each command that succeeds is appended to the global variables
      let glob := if rest == ["cmds"] then glob0 ++ [("VT_CMD", "fromcmd"), ("VT_A", "cmdA")] else glob0
      -- every launch of a process gets the environment of that process: its own variables over the
      -- global ones, with its own name and replica number
      let view (name : String) (own : List (String × String)) : String :=
        match envLookup (processEnv name 0 [] glob own) k with
        | some v => hexEncE v
        | none => "unset"
      let p := view "p" ownP
      let q := view "q" ownQ
      let m := s!"p1={p} p2={p} q1={q}"
      ((), m ++ " ||| " ++ (if impl == m then "ok" else "bad:a command was handed another process's environment (or lost its own): want " ++ m))
    | _, _, _, _ => ((), "bad-op")
  | ["realenv", tty, g, a, kh] =>
    match parsePairs g, parsePairs a, hexDec kh with
    | some glob, some own, some k =>
      if tty != "0" && tty != "1" then ((), "bad-op") else
      -- a real command, with or without a pseudo terminal, sees its own variables over the global
      -- ones, the injected pair for its replica, and runs in the configured working directory
      let v := match envLookup (processEnv "p" 0 [] glob own) k with
        | some v => hexEncE v
        | none => "unset"
      let m := s!"k={v} n=p r=0 dir=ok"
      ((), m ++ " ||| " ++ (if impl == m then "ok" else "bad:the command was launched without its environment / working directory: want " ++ m))
    | _, _, _ => ((), "bad-op")
  | ["procenv", nh, rep, a, b, c, kh] =>
    match hexDec nh, rep.toNat?, parsePairs a, parsePairs b, parsePairs c, hexDec kh with
    | some name, some r, some inh, some glob, some own, some k =>
      let m := match envLookup (processEnv name r inh glob own) k with
        | some v => hexEncE v
        | none => "unset"
      -- spec: injected pair for its own replica; otherwise own > global > inherited
      let want : Option String :=
        if k == "PC_PROC_NAME" then some name
        else if k == "PC_REPLICA_NUM" then some (toString r)
        else (envLookup own k).orElse fun _ => (envLookup glob k).orElse fun _ => envLookup inh k
      let w := match want with | some v => hexEncE v | none => "unset"
      ((), m ++ " ||| " ++ (if impl == w then "ok" else "bad:want=" ++ w))
    | _, _, _, _, _, _ => ((), "bad-op")
  | _ => ((), "bad-op")

end PC.Drv.Env
