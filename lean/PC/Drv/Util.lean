/-! Line-protocol helpers for the driver (core only). -/
namespace PC.Drv

def hexDigit (n : Nat) : Char :=
  if n < 10 then Char.ofNat (48 + n) else Char.ofNat (87 + n)

def hexOfBytes (bs : List UInt8) : String :=
  String.ofList (bs.flatMap fun b => [hexDigit (b.toNat / 16), hexDigit (b.toNat % 16)])

def hexEnc (s : String) : String := hexOfBytes s.toUTF8.toList

def hexVal (c : Char) : Option Nat :=
  if '0' ≤ c ∧ c ≤ '9' then some (c.toNat - 48)
  else if 'a' ≤ c ∧ c ≤ 'f' then some (c.toNat - 87)
  else none

def bytesOfHex : List Char → Option (List UInt8)
  | [] => some []
  | a :: b :: rest => do
    let x ← hexVal a
    let y ← hexVal b
    let r ← bytesOfHex rest
    pure (UInt8.ofNat (x * 16 + y) :: r)
  | _ => none

/-- hex → string (`-` encodes the empty string). Invalid UTF-8 is not expected in string fields. -/
def hexDec (h : String) : Option String :=
  if h = "-" then some "" else
  match bytesOfHex h.toList with
  | some bs => String.fromUTF8? (ByteArray.mk bs.toArray)
  | none => none

def hexEncE (s : String) : String := if s.isEmpty then "-" else hexEnc s

def showList (xs : List String) : String := "[" ++ ",".intercalate xs ++ "]"

def showHexList (xs : List String) : String := showList (xs.map hexEncE)

def words (s : String) : List String := (s.splitOn " ").filter (· ≠ "")

/-- Split a protocol line `op ||| impl` into its two halves. -/
def splitLine (line : String) : String × String :=
  match line.splitOn " ||| " with
  | [a] => (a.trimAscii.toString, "")
  | a :: b :: _ => (a.trimAscii.toString, b.trimAscii.toString)
  | [] => ("", "")

/-- Run a pure line-stepper over stdin. -/
partial def loop {σ : Type} (step : σ → String → σ × String) (h : IO.FS.Stream) (out : IO.FS.Stream) (s : σ) : IO Unit := do
  let line ← h.getLine
  if line.isEmpty then
    out.flush
    return ()
  let l := (line.dropEndWhile (fun c => c == '\n' || c == '\r')).toString
  let (s', o) := step s l
  out.putStrLn o
  loop step h out s'

end PC.Drv
