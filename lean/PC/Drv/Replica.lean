import PC.Drv.Util
import PC.Model.Replica
import PC.Drv.Load
/-! Driver for `replica` (names) and `scale` (the specification of a scale history). -/
namespace PC.Drv.Replica
open PC.Drv PC.Replica

def nameStr (base : String) (replicas num : Nat) : String := String.ofList (replicaName base.toList replicas num)

def replicaStep (_ : Unit) (line : String) : Unit × String :=
  let (op, impl) := splitLine line
  match words op with
  | ["name", bh, r, n] =>
    match hexDec bh, r.toInt?, n.toNat? with
    | some b, some r, some n =>
      let m := hexEncE (nameStr b r.toNat n)
      -- spec: bare name for <= 1 replica, else base-<zero padded to the digit count of replicas>
      ((), m ++ " ||| " ++ (if impl == m then "ok" else "bad:want=" ++ m))
    | _, _, _ => ((), "bad-op")
  | _ => ((), "bad-op")

structure ScaleSt where
  g : PC.Load.Vars := []
  w : PC.Load.ProcT := { name := [] }
  o : PC.Load.ProcT := { name := [] }
  cur : List PC.Load.Replica := []   -- replicas of "w"
  ended : List Nat := []             -- replica numbers whose command has finished by itself
  launches : Nat := 0
  stops : Nat := 0
  gateClosed : Bool := false         -- gate scenarios: every replica of "w" is Pending, waiting for "o"
  oEnded : Bool := false             -- the gate's command has exited
  zombies : List String := []        -- replicas removed while Pending: their goroutines are still registered, waiting for "o"

def sortStrings (l : List String) : List String := (l.toArray.qsort (· < ·)).toList

def dump (ret : String) (s : ScaleSt) : String :=
  let other := PC.Load.loadProc s.g s.o
  let names := sortStrings ((s.cur ++ other).map fun r => String.ofList r.replicaName)
  let ns := "[" ++ ",".intercalate names ++ "]"
  let info := sortStrings ((s.cur ++ other).map PC.Drv.Load.showReplica)
  -- a finished replica keeps its configuration, state and log; it is no longer registered as running
  let live := s.cur.filter fun r => !s.ended.contains r.num
  let otherLive := if s.oEnded then [] else other
  -- a replica removed while it was still waiting is unregistered at once (its goroutine lingers unseen)
  let regd := ((live ++ otherLive).map fun r => String.ofList r.replicaName)
  let rs := "[" ++ ",".intercalate (sortStrings regd.eraseDups) ++ "]"
  let alive := if s.gateClosed then otherLive.length else live.length + otherLive.length
  -- what the listing reports for each process: a replica with a live command is Running (is_running),
  -- one whose command finished is Completed, one still waiting for the gate is Pending
  let repOf (r : PC.Load.Replica) : String :=
    let st := if s.gateClosed then "Pending" else if s.ended.contains r.num then "Completed" else "Running"
    String.ofList r.replicaName ++ ":" ++ st ++ ":" ++ (if st == "Running" then "1" else "0")
  let repO := other.map fun r => String.ofList r.replicaName ++ (if s.oEnded then ":Completed:0" else ":Running:1")
  let reps := "[" ++ ",".intercalate (sortStrings (s.cur.map repOf ++ repO)) ++ "]"
  s!"ret={ret} proj={ns} states={ns} snames={ns} logs={ns} run={rs} info=[{",".intercalate info}] alive={alive} launches={s.launches} stops={s.stops} rep={reps}"

/-- the `rep=` field of a result line -/
def repField (res : String) : String :=
  match res.splitOn " rep=" with
  | [_, r] => r
  | _ => ""

/-- C09: the reported state of every process agrees with its commands (evaluated on the implementation's answer) -/
def c09 (impl model : String) : String :=
  if repField impl == repField model then "" else "; C09:reported-state-disagrees-with-the-live-commands want " ++ repField model

def verd (impl want ids details : String) : String :=
  if impl == want then "ok"
  else if repField impl == repField want then "bad:" ++ ids ++ ":" ++ details
  else "bad:" ++ ids ++ ",C09:" ++ details ++ c09 impl want

/-- the property's reference: a fresh load with `replicas: n` -/
def freshDump (ret : String) (s : ScaleSt) (n : Nat) : String :=
  dump ret { s with cur := PC.Load.replicasOf s.g s.w n }

def scaleStep (s : ScaleSt) (line : String) : ScaleSt × String :=
  let (op, impl) := splitLine line
  match words op with
  | ["scinit", g, pw, po] =>
    match PC.Drv.Load.parseVars g, PC.Drv.Load.parseProc pw, PC.Drv.Load.parseProc po with
    | some g, some w, some o =>
      let cur := PC.Load.loadProc g w
      let gate := (po.splitOn ";").getD 4 "" == hexEnc "gate"
      let s' : ScaleSt := { g, w, o, cur, launches := if gate then 1 else cur.length + 1, stops := 0, gateClosed := gate }
      let d := dump "ok" s'
      (s', d ++ " ||| " ++ (verd impl d "C13" "C13:fresh-load"))
    | _, _, _ => (s, "bad-op")
  | ["sexit", th] =>
    match hexDec th with
    | some target =>
      let s' := match s.cur.find? fun r => String.ofList r.replicaName == target with
        | some r => { s with ended := if s.ended.contains r.num then s.ended else s.ended ++ [r.num] }
        | none => s
      let d := dump "ok" s'
      (s', d ++ " ||| " ++ (verd impl d "C13" "C13:finished-replica-view"))
    | none => (s, "bad-op")
  | ["gexit"] =>
    -- the gate opens: every replica that exists now is launched once; the goroutines of the replicas
    -- removed in the meantime end without launching anything
    let s' := if s.gateClosed then { s with gateClosed := false, oEnded := true, zombies := [], launches := s.launches + s.cur.length }
              else { s with oEnded := true }
    let d := dump "ok" s'
    (s', d ++ " ||| " ++ (verd impl d "C13,C14" "C13:a replica removed while it was waiting for its dependency is launched later, or one that exists is not; C14:same"))
  | ["scupd", n] =>
    match n.toNat? with
    | some n =>
      let s := { s with w := s.w }
      if n = s.cur.length then
        -- the edited file describes the running set: nothing is touched
        let d := dump "ok" s
        (s, d ++ " ||| " ++ (verd impl d "C14,C13" "C14:unchanged-project-update-must-change-nothing; C13:unchanged-project-update-must-change-nothing"))
      else
        -- every replica's configuration changes (its `replicas` field): each running one is stopped,
        -- every replica of the new set is started once
        let live := (s.cur.filter fun r => !s.ended.contains r.num).length
        let s' : ScaleSt :=
          if s.gateClosed then
            { s with w := { s.w with replicas := n }, cur := PC.Load.replicasOf s.g s.w n, ended := [],
                     -- a new replica registered under the name of a lingering goroutine takes the entry over
                     zombies := (s.zombies ++ s.cur.map fun r => String.ofList r.replicaName).filter fun z =>
                       !((PC.Load.replicasOf s.g s.w n).any fun r => String.ofList r.replicaName == z) }
          else { s with w := { s.w with replicas := n }, cur := PC.Load.replicasOf s.g s.w n,
                                     launches := s.launches + n, stops := s.stops + live, ended := [] }
        let d := dump "ok" s'
        (s', d ++ " ||| " ++ (verd impl d "C14,C13" "C14:update-does-not-converge-to-the-new-replica-set; C13:not-the-replica-set-of-a-fresh-load"))
    | none => (s, "bad-op")
  | ["scale", th, n] =>
    match hexDec th, n.toInt? with
    | some target, some n =>
      let keys := (s.cur.map fun r => String.ofList r.replicaName) ++ [String.ofList s.o.name]
      if n < 1 then
        let d := dump "bad-scale" s
        (s, d ++ " ||| " ++ (verd impl d "C13" "C13:invalid-scale-must-change-nothing"))
      else if !(keys.contains target) then
        let d := dump "no-such" s
        (s, d ++ " ||| " ++ (verd impl d "C13" "C13:unknown-name-must-change-nothing"))
      else if target == String.ofList s.o.name then
        -- scaling the other process is outside this scenario family
        (s, "skip ||| ok")
      else
        let n := n.toNat
        let cur' := PC.Load.scaleTo s.g s.w s.cur n
        -- removed replicas that were still running are stopped; finished ones are only forgotten
        let removedLive := (s.cur.filter fun r => r.num ≥ n && !s.ended.contains r.num).length
        let s' : ScaleSt :=
          if s.gateClosed then
            { s with cur := cur', zombies := (s.zombies ++ (s.cur.filter fun r => r.num ≥ n).map fun r => String.ofList r.replicaName).filter fun z =>
                       !(cur'.any fun r => String.ofList r.replicaName == z) }
          else { s with cur := cur', launches := s.launches + (n - s.cur.length), stops := s.stops + removedLive,
                                     ended := s.ended.filter (· < n) }
        let d := dump "ok" s'
        -- the specification is the fresh load with `replicas: n` (theorem `scale_eq_fresh` makes both agree)
        let want := freshDump "ok" s' n
        (s', d ++ " ||| " ++ (verd impl want "C13" "C13:not-the-replica-set-of-a-fresh-load"))
    | _, _ => (s, "bad-op")
  | _ => (s, "bad-op")

end PC.Drv.Replica
