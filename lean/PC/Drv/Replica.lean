import PC.Drv.Util
import PC.Model.Replica
/-! Driver for `replica` (names) and `scale` (the specification of a scale history). -/
namespace PC.Drv.Replica
open PC.Drv PC.Replica

def nameStr (base : String) (replicas num : Nat) : String := String.ofList (replicaName base.toList replicas num)

def replicaStep (_ : Unit) (line : String) : Unit × String :=
  let (op, impl) := splitLine line
  match words op with
  | ["name", bh, r, n] =>
    match hexDec bh, r.toInt?, n.toNat? with
    | some b, some r, some n =>
      let m := hexEncE (nameStr b r.toNat n)
      -- spec: bare name for <= 1 replica, else base-<zero padded to the digit count of replicas>
      ((), m ++ " ||| " ++ (if impl == m then "ok" else "bad:want=" ++ m))
    | _, _, _ => ((), "bad-op")
  | _ => ((), "bad-op")

structure ScaleSt where
  count : Nat := 1          -- replicas of "w"
  launches : Nat := 0
  stops : Nat := 0

def sortStrings (l : List String) : List String := (l.toArray.qsort (· < ·)).toList

def dump (ret : String) (s : ScaleSt) : String :=
  let ws := (List.range s.count).map (nameStr "w" s.count)
  let names := sortStrings (ws ++ ["o"])
  let ns := "[" ++ ",".intercalate names ++ "]"
  let info := sortStrings (((List.range s.count).map fun i => s!"{nameStr "w" s.count i}:w/{i}/{s.count}") ++ ["o:o/0/1"])
  s!"ret={ret} proj={ns} states={ns} logs={ns} run={ns} info=[{",".intercalate info}] alive={s.count + 1} launches={s.launches} stops={s.stops}"

def scaleStep (s : ScaleSt) (line : String) : ScaleSt × String :=
  let (op, impl) := splitLine line
  match words op with
  | ["scinit", k] =>
    match k.toNat? with
    | some k =>
      let s' : ScaleSt := { count := max k 1, launches := max k 1 + 1, stops := 0 }
      let d := dump "ok" s'
      (s', d ++ " ||| " ++ (if impl == d then "ok" else "bad:fresh-load"))
    | none => (s, "bad-op")
  | ["scale", th, n] =>
    match hexDec th, n.toInt? with
    | some target, some n =>
      let keys := ((List.range s.count).map (nameStr "w" s.count)) ++ ["o"]
      if n < 1 then
        let d := dump "bad-scale" s
        (s, d ++ " ||| " ++ (if impl == d then "ok" else "bad:invalid-scale-must-change-nothing"))
      else if !(keys.contains target) then
        let d := dump "no-such" s
        (s, d ++ " ||| " ++ (if impl == d then "ok" else "bad:unknown-name-must-change-nothing"))
      else if target == "o" then
        -- scaling the other process is outside this scenario family
        (s, "skip ||| ok")
      else
        let n := n.toNat
        let s' : ScaleSt := { count := n, launches := s.launches + (n - s.count), stops := s.stops + (s.count - n) }
        let d := dump "ok" s'
        (s', d ++ " ||| " ++ (if impl == d then "ok" else "bad:want=" ++ d))
    | _, _ => (s, "bad-op")
  | _ => (s, "bad-op")

end PC.Drv.Replica
