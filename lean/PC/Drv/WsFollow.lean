import PC.Drv.Util
import PC.Model.WsFollow
import PC.Spec.LogBuf
/-! Driver for the `wsfollow` component: the WebSocket log stream observed at quiescence (every
    channel of a follower that reads has been drained to the socket and read by the client). -/
namespace PC.Drv.WsFollow
open PC.Drv PC.WsFollow PC.Spec.LogBuf

structure D where
  s : St := new 0
  line : Nat := 0
  paused : List String := []
  stalled : Bool := false            -- a writer is blocked on a full channel, holding the buffer's mutex
  pending : List String := []        -- lines the blocked writers will still write

def lineNo (l : String) : Option Nat := if l.startsWith "L" then (l.drop 1).toNat? else none

/-- "a-b,c-d" for runs of consecutive line numbers -/
def compress (ls : List String) : String :=
  if ls.isEmpty then "-" else
  let rec go (ls : List String) (cur : Option (Nat × Nat)) (acc : List String) : List String :=
    match ls with
    | [] => match cur with
      | some (a, b) => acc ++ [toString a ++ "-" ++ toString b]
      | none => acc
    | l :: rest =>
      match lineNo l, cur with
      | some n, some (a, b) =>
        if n = b + 1 then go rest (some (a, n)) acc
        else go rest (some (n, n)) (acc ++ [toString a ++ "-" ++ toString b])
      | some n, none => go rest (some (n, n)) acc
      | none, some (a, b) => go rest none (acc ++ [toString a ++ "-" ++ toString b, "?" ++ hexEncE l])
      | none, none => go rest none (acc ++ ["?" ++ hexEncE l])
  ",".intercalate (go ls none [])

/-- drain every follower that reads -/
def settle (d : D) : D :=
  { d with s := { d.s with fs := d.s.fs.map fun f =>
      if (d.paused.contains f.id) then f else { f with sent := f.sent ++ f.chan, chan := [] } } }

def lines (from_ k : Nat) : List String := (List.range k).map fun i => "L" ++ toString (from_ + i)

/-- write the lines one by one, settling after each; stops at the first blocked write -/
def writeAll (d : D) : List String → D × List String
  | [] => (d, [])
  | m :: rest =>
    match write d.s m with
    | some s' => writeAll (settle { d with s := s' }) rest
    | none => (d, m :: rest)

def bad (why : String) : String :=
  "bad:C18,C20,C19:C18: " ++ why ++ "; C20: a call blocks for ever (" ++ why ++ "); C19: the log routes stop answering (" ++ why ++ ")"

def holdup (d : D) : String :=
  if d.paused.isEmpty then "a follower that went away holds up the process it followed"
  else "a follower that stopped reading holds up the process it follows"

def doWrite (d : D) (k : Nat) (big : Bool) (impl : String) : D × String :=
  let ls := lines d.line k
  let d := { d with line := d.line + k }
  let v := if impl == "ok" then "ok" else bad (holdup d)
  if d.stalled then
    ({ d with pending := d.pending ++ ls }, "blocked ||| " ++ v)
  else if big && !d.paused.isEmpty && k > cap then
    -- more than the channel and any socket buffer hold: the writer blocks until the follower reads
    ({ d with stalled := true, pending := ls }, "blocked ||| " ++ v)
  else
    match writeAll d ls with
    | (d', []) => (d', "ok ||| " ++ v)
    | (d', rest) => ({ d' with stalled := true, pending := rest }, "blocked ||| " ++ v)

def step (d : D) (line : String) : D × String :=
  let (op, impl) := splitLine line
  match words op with
  | ["wsnew", n] => match n.toNat? with
    | some k => ({ s := new k }, "ok ||| ok")
    | none => (d, "bad-op")
  | ["w", k] => match k.toNat? with
    | some k => doWrite d k false impl
    | none => (d, "bad-op")
  | ["wbig", k] => match k.toNat? with
    | some k => doWrite d k true impl
    | none => (d, "bad-op")
  | ["churn", k, _] => match k.toNat? with
    | some k => doWrite d k false impl
    | none => (d, "bad-op")
  | ["sub", id, t, fl] => match t.toInt?, fl with
    | some t, "0" | some t, "1" =>
      if d.stalled then (d, "blocked ||| " ++ (if impl == "ok" then "ok" else bad (holdup d))) else
      match sub d.s id t (fl == "1") with
      | some s' => (settle { d with s := s' }, "ok ||| " ++ (if impl == "ok" then "ok" else bad "subscribing to the log stream does not return"))
      | none => (d, "panic ||| " ++ bad "subscribe panicked")
    | _, _ => (d, "bad-op")
  | ["got", id] =>
    match d.s.fs.find? (·.id = id) with
    | some f0 =>
      -- a following client is observed after one more line (the marker) has gone through
      let (d, blocked) := if f0.follow then
          (match doWrite d 1 false "ok" with | (d', r) => (d', r.startsWith "blocked")) else (d, false)
      if blocked then (d, "blocked ||| " ++ (if impl == "ok" then "ok" else bad (holdup d))) else
      match d.s.fs.find? (·.id = id) with
      | some f =>
        let want := "lines=" ++ compress f.sent ++ " closed=" ++ (if f.follow then "0" else "1")
        -- spec: tail ++ every later line, once, in order = the stream of the model (PC.Props.WsFollow.ws_exact)
        (d, want ++ " ||| " ++ (if impl == want then "ok" else if impl == "blocked" then bad (holdup d) else "bad:C18:C18: the follower did not receive exactly its tail followed by every later line: want " ++ want))
      | none => (d, "none ||| ok")
    | none => (d, "none ||| ok")
  | ["unsub", id] => ({ d with s := leave d.s id, paused := d.paused.filter (· ≠ id) }, "ok ||| " ++ (if impl == "ok" then "ok" else "bad:C18:C18: the stream does not end when the follower leaves"))
  | ["pause", id] => ({ d with paused := if d.paused.contains id then d.paused else id :: d.paused }, "ok ||| ok")
  | ["resume", id] =>
    let d := { d with paused := d.paused.filter (· ≠ id) }
    let d := settle d
    let (d, rest) := writeAll { d with stalled := false, pending := [] } d.pending
    (settle { d with stalled := !rest.isEmpty, pending := rest }, "ok ||| " ++ (if impl == "ok" then "ok" else bad "writers stay blocked after the follower reads again"))
  | ["rrange", o, l] => match o.toInt?, l.toInt? with
    | some o, some l =>
      -- the REST route and the client give the runner's answer: the window, whatever numbers are passed
      let want := "lines=" ++ compress (window d.s.buffer o l)
      if d.stalled then (d, "blocked ||| ok")
      else (d, want ++ " ||| " ++ (if impl == want then "ok" else "bad:C19:C19: the log route did not answer with the window (5xx or a different result): want " ++ want))
    | _, _ => (d, "bad-op")
  | ["range", o, l] => match o.toInt?, l.toInt? with
    | some o, some l =>
      let want := "lines=" ++ compress (window d.s.buffer o l)
      if d.stalled then (d, "blocked ||| " ++ (if impl == want then "ok" else bad ("range request blocked: " ++ holdup d)))
      else (d, want ++ " ||| " ++ (if impl == want then "ok" else if impl == "blocked" then bad ("range request blocked: " ++ holdup d) else "bad:C18:C18: window=" ++ want))
    | _, _ => (d, "bad-op")
  | _ => (d, "bad-op")

end PC.Drv.WsFollow
