import PC.Drv.Util
import PC.Model.Daemon
/-! Driver for `daemon`: model result and the property oracle evaluated on the implementation's answer. -/
namespace PC.Drv.Daemon
open PC.Drv PC.Daemon

def fieldOf (res key : String) : String :=
  match res.splitOn (key ++ "=") with
  | _ :: rest :: _ => (rest.splitOn " ").headD ""
  | _ => ""

/-- C09 / C10 on the implementation's own answer -/
def oracle (before : D) (op : Op) (impl : String) : List String :=
  let st := fieldOf impl "status"
  let running := fieldOf impl "running"
  let alive := fieldOf impl "alive"
  let f1 := if running == "true" && !(isRunningStatus st) then [s!"C09:reported-running-in-status {st}"] else []
  let f2 := if running == "false" && isRunningStatus st then [s!"C09:not-reported-running-in-status {st}"] else []
  let f3 := if (st == "Completed" || st == "Skipped" || st == "Error") && alive != "0" then [s!"C09:terminal-while-alive {st}"] else []
  -- C10: a launched daemon whose liveness probe fails for good is handled by its restart policy
  let f4 := match op with
    | .live =>
      if before.phase = .daemonWait && before.probers && !before.queued then
        let again := PC.Restart.isRestartable before.policy before.max before.restarts before.exit before.stopped
        if again && fieldOf impl "launches" != toString (before.launches + 1) then ["C10:daemon-not-relaunched-after-liveness-failure"]
        else if !again && st != "Completed" then [s!"C10:daemon-not-ended-after-liveness-failure {st}"]
        else []
      else []
    | _ => []
  -- C09: a daemon for which a stop was requested and whose shutdown command was run (the documented
  -- way to stop a daemon) is not reported running once its launcher has exited as well
  let f5 := match op with
    | .exit _ | .query =>
      if before.daemon && before.sdcmd && before.cancelled && alive == "0" && running == "true" then
        [s!"C09:reported-running-after-stop {st} (daemon stopped by its shutdown command, nothing alive)"]
      else []
    | _ => []
  f1 ++ f2 ++ f3 ++ f4 ++ f5

def verdict (fails : List String) : String :=
  if fails.isEmpty then "ok"
  else
    let ids := fails.foldl (fun acc f => let id := (f.splitOn ":").headD ""; if acc.contains id then acc else acc ++ [id]) ([] : List String)
    "bad:" ++ ",".intercalate ids ++ ":" ++ "; ".intercalate fails

def step (d : D) (line : String) : D × String :=
  let (op, impl) := splitLine line
  match words op with
  | ["dinit", pol, mx, dm, sc, os] =>
    match mx.toInt? with
    | some m =>
      let onsig : Option Int := if os == "ign" then none else os.toInt?
      let d' := PC.Daemon.init pol m (dm == "1") (sc == "1") onsig
      (d', d'.show "ok" ++ " ||| " ++ verdict (oracle d' .query impl))
    | none => (d, "bad-op")
  | ["dexit", c] =>
    match c.toInt? with
    | some c => let (d', r) := PC.Daemon.step d (.exit c); (d', d'.show r ++ " ||| " ++ verdict (oracle d (.exit c) impl))
    | none => (d, "bad-op")
  | ["dlive"] => let (d', r) := PC.Daemon.step d .live; (d', d'.show r ++ " ||| " ++ verdict (oracle d .live impl))
  | ["dstop"] => let (d', r) := PC.Daemon.step d .stop; (d', d'.show r ++ " ||| " ++ verdict (oracle d .stop impl))
  | ["dstart"] => let (d', r) := PC.Daemon.step d .start; (d', d'.show r ++ " ||| " ++ verdict (oracle d .start impl))
  | ["dquery"] => (d, d.show "ok" ++ " ||| " ++ verdict (oracle d .query impl))
  | _ => (d, "bad-op")

end PC.Drv.Daemon
