import PC.Drv.Util
import PC.Model.Output
import PC.Spec.Output
/-! Driver for `output`: `chunks h1,h2,...` (hex byte chunks, `-` = empty read). -/
namespace PC.Drv.Output
open PC.Drv

def parseChunks (s : String) : Option (List (List UInt8)) :=
  (s.splitOn ",").mapM fun c => if c == "-" then some [] else bytesOfHex c.toList

def showLines (ls : List (List UInt8)) : String :=
  "[" ++ ",".intercalate (ls.map fun l => if l.isEmpty then "-" else hexOfBytes l) ++ "]"

def step (_ : Unit) (line : String) : Unit × String :=
  let (op, impl) := splitLine line
  match words op with
  | ["chunks", cs] =>
    match parseChunks cs with
    | some chunks =>
      let model := showLines (PC.Output.handleOutput chunks)
      let want := showLines (PC.Spec.Output.lines chunks.flatten)
      ((), model ++ " ||| " ++ (if impl == want then "ok" else "bad:lines=" ++ want))
    | none => ((), "bad-op")
  | _ => ((), "bad-op")

end PC.Drv.Output
