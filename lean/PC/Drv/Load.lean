import PC.Drv.Util
import PC.Model.Load
/-! Driver for `load`: `ld G P…` — a project (global variables `G`, processes `P`) loaded through
    `loader.Load`; the model's replicas are printed in the harness's canonical form.
    `P = name;replicas;ns;launch_timeout;command;working_dir;log_location;description;readiness;liveness;vars`
    (strings hex-encoded, probes `~` | `e/cmd/wd` | `h/host/path/scheme/port`, vars `~` | `k=hex,…`). -/
namespace PC.Drv.Load
open PC.Drv PC.Load

/-- `text{{.NAME}}text…` -/
def parseTpl (s : String) : Tpl :=
  -- `{{ .NAME }}` (blanks inside the delimiters) is the same action as `{{.NAME}}` for text/template
  let s := (s.replace "{{ ." "{{.").replace " }}" "}}"
  match s.splitOn "{{." with
  | [] => []
  | first :: rest =>
    let segs := rest.flatMap fun piece => match piece.splitOn "}}" with
      | [] => []
      | n :: tl => [Seg.var n.toList, Seg.lit ("}}".intercalate tl).toList]
    (Seg.lit first.toList :: segs).filter fun | .lit [] => false | _ => true

def parseVars (s : String) : Option Vars :=
  if s == "~" then some [] else
  (s.splitOn ",").mapM fun e => match e.splitOn "=" with
    | [k, v] => (hexDec v).map fun v => (k.toList, v.toList)
    | _ => none

def parseProbe (s : String) : Option ProbeT :=
  if s == "~" then some .none else
  match s.splitOn "/" with
  | ["e", c, w] => do
    let c ← hexDec c
    let w ← hexDec w
    pure (.exec (parseTpl c) w.toList)
  | ["h", a, b, c, d] => do
    let a ← hexDec a
    let b ← hexDec b
    let c ← hexDec c
    let d ← hexDec d
    pure (.http (parseTpl a) (parseTpl b) (parseTpl c) (parseTpl d))
  | _ => none

def parseProc (s : String) : Option ProcT :=
  match s.splitOn ";" with
  | [name, rep, ns, lt, cmd, wd, log, desc, rp, lp, vars] => do
    let rep ← rep.toInt?
    let lt ← lt.toInt?
    let ns ← hexDec ns
    let cmd ← hexDec cmd
    let wd ← hexDec wd
    let log ← hexDec log
    let desc ← hexDec desc
    let rp ← parseProbe rp
    let lp ← parseProbe lp
    let vars ← parseVars vars
    pure { name := name.toList, replicas := rep, ns := ns.toList, launchTimeout := lt, command := parseTpl cmd,
           workingDir := parseTpl wd, logLocation := parseTpl log, description := parseTpl desc,
           readiness := rp, liveness := lp, vars := vars }
  | _ => none

def hx (s : Str) : String := hexEncE (String.ofList s)

def showProbe : ProbeR → String
  | .none => "~"
  | .exec c w => s!"e/{hx c}/{hx w}"
  | .http a b c d n => s!"h/{hx a}/{hx b}/{hx c}/{hx d}/{n}"

def sortStrings (l : List String) : List String := (l.toArray.qsort (· < ·)).toList

def showVars (v : Vars) : String :=
  if v.isEmpty then "~" else ",".intercalate (sortStrings (v.map fun (k, x) =>
    -- the injected replica number is a number (tagged with its type by the harness)
    String.ofList k ++ "=" ++ hx x ++ (if String.ofList k == "PC_REPLICA_NUM" then "#int" else "")))

def showReplica (r : Replica) : String :=
  ";".intercalate [String.ofList r.replicaName, String.ofList r.name, toString r.num, toString r.replicas, hx r.ns,
    toString r.launchTimeout, hx r.command, hx r.workingDir, hx r.logLocation, hx r.description,
    showProbe r.readiness, showProbe r.liveness, showVars r.vars]

def showReplicas (l : List Replica) : String :=
  if l.isEmpty then "~" else "|".intercalate (sortStrings (l.map showReplica))

/-- oracle on the implementation's answer: every replica line must carry its own number in each
    field that the configuration renders from `PC_REPLICA_NUM`, i.e. equal the model's line -/
def step (_ : Unit) (line : String) : Unit × String :=
  let (op, impl) := splitLine line
  match words op with
  | "ld" :: g :: ps =>
    match parseVars g, ps.mapM parseProc with
    | some g, some ps =>
      let m := showReplicas (load g ps)
      let v :=
        if impl.startsWith "NONDET" then "bad:C16:C16:repeated-loads-differ"
        else if impl == m then "ok"
        else
          -- name the first replica whose configuration is not its own rendering
          let il := impl.splitOn "|"
          let ml := m.splitOn "|"
          match (il.zip ml).find? fun (a, b) => a != b with
          | some (a, _) => "bad:C16:C16:replica-not-rendered-for-itself " ++ ((a.splitOn ";").headD "?")
          | none => "bad:C16:C16:replica-set-differs"
      ((), m ++ " ||| " ++ v)
    | _, _ => ((), "bad-op")
  | _ => ((), "bad-op")

end PC.Drv.Load
