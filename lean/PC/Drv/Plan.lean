import PC.Drv.Util
import PC.Model.Plan
import PC.Model.Replica
/-! Driver for `plan`: `plan P REQ NODEPS NSS` — load a project, select processes, run it.
    `P = name;replicas;deps;flags;ns|…` (deps `~` or names, flags from `f` foreground `d` disabled). -/
namespace PC.Drv.Plan
open PC.Drv PC.Plan

def parseL (s : String) : List String := if s == "~" then [] else s.splitOn ","

def parseEntries (s : String) : Option Project :=
  if s == "~" then some [] else
  ((s.splitOn "|").mapM fun (e : String) => match e.splitOn ";" with
    | [name, rep, deps, flags, ns] => do
      let r : Int ← rep.toInt?
      let n : Nat := if r ≤ 1 then 1 else r.toNat
      pure ((List.range n).map fun i =>
        ({ key := String.ofList (PC.Replica.replicaName name.toList n i), name := name, deps := parseL deps,
           foreground := flags.contains 'f', disabled := flags.contains 'd', ns := ns } : Entry))
    | _ => none).map List.flatten

def sortStrings (l : List String) : List String := (l.toArray.qsort (· < ·)).toList
def showS (l : List String) : String := "[" ++ ",".intercalate l ++ "]"

/-- the specification of a dependency order, evaluated on the implementation's own order:
    exactly the non-deferred keys, each once, every process after the processes its dependencies name -/
def orderOk (p : Project) (o : List String) : Bool :=
  let want := sortStrings ((p.filter (!isDeferred ·)).map (·.key))
  sortStrings o == want &&
  p.all fun e =>
    isDeferred e ||
    (((resolve p e.deps).getD []).all fun d =>
      isDeferred d || (match o.idxOf? d.key, o.idxOf? e.key with
        | some i, some j => i < j
        | _, _ => false))

def implOrder (impl : String) : List String :=
  match impl.splitOn " order=[" with
  | [_, r] => parseL ((r.dropEnd 1).toString |> fun s => if s == "" then "~" else s)
  | _ => []

def step (_ : Unit) (line : String) : Unit × String :=
  let (op, impl) := splitLine line
  match words op with
  | ["plan", ps, req, nd, nss] =>
    match parseEntries ps with
    | none => ((), "bad-op")
    | some p0 =>
      let req := parseL req
      let implCore := if impl.startsWith "NONDET " then "NONDET" else impl
      let rejected (cls : String) : String × String :=
        (cls, if implCore == "NONDET" then "bad:C07:C07:load-verdict-depends-on-map-order"
              else if implCore.startsWith "err:" then "ok" else "bad:C07:C07:invalid-configuration-accepted")
      let m : String × String :=
        if hasCycle p0 then rejected "err:cycle"
        else if danglingDep p0 then rejected "err:undefined"
        else
          let p1 := admitNs p0 (parseL nss)
          let sel : Option Project := if nd == "1" then some (selectNoDeps p1 req) else selectProcs p1 req
          match sel with
          | none => ("selerr", if implCore.startsWith "err:" then "bad:C07:C07:valid-configuration-rejected" else "ok")
          | some p2 =>
            match withProcesses p2 [] with
            | none => ("runerr", if implCore.startsWith "err:" then "bad:C07:C07:valid-configuration-rejected" else "ok")
            | some l =>
              let enabled := sortStrings ((p2.filter (!·.disabled)).map (·.key))
              let mo := (l.filter (!isDeferred ·)).map (·.key)
              let launched := sortStrings mo
              let io := implOrder impl
              let good := orderOk p2 io
              let field (k : String) : String :=
                match impl.splitOn (k ++ "=[") with
                | [_, r] => (r.splitOn "]").headD ""
                | _ => "?"
              let v :=
                if implCore == "NONDET" then "bad:C07:C07:load-verdict-depends-on-map-order"
                else if implCore.startsWith "err:" then "bad:C07:C07:valid-configuration-rejected"
                else if !(impl.startsWith "enabled=") then "ok"
                else if field "enabled" != ",".intercalate enabled then "bad:C07:C07:selection-is-not-the-dependency-closure"
                else if field "launched" != ",".intercalate launched then "bad:C07:C07:launched-set-differs-from-enabled-non-foreground"
                else if !good then "bad:C07:C07:order-not-topological"
                else "ok"
              (s!"enabled={showS enabled} launched={showS launched} order={showS (if good then io else mo)}", v)
      ((), m.1 ++ " ||| " ++ m.2)
  | _ => ((), "bad-op")

end PC.Drv.Plan
