import PC.Drv.Util
import PC.Model.StopPlan
import PC.Spec.Pure
/-! Driver for `osstop`: `os SIG TIMEOUT CMD PARENTONLY TREE VIA` — a stop of a real process tree.
    `TREE = id:flags:parent,…` (flags: `i` traps the stop signals, `r` output redirected; first = launched command). -/
namespace PC.Drv.OsStop
open PC.Drv PC.Stop

structure M where
  id : String
  ignore : Bool
  redirect : Bool
  parent : String

def parseTree (s : String) : Option (List M) :=
  (s.splitOn ",").mapM fun (e : String) => match e.splitOn ":" with
    | [id, fl, par] => some { id := id, ignore := fl.contains 'i', redirect := fl.contains 'r', parent := par }
    | _ => none

def trapped : List Int := [15, 2, 1, 10, 12]

def toGroup (ms : List M) : Group :=
  ms.mapIdx fun i m => { ignores := if m.ignore then trapped else [], holdsOutput := i == 0 || !m.redirect, alive := true }

def sortStrings (l : List String) : List String := (l.toArray.qsort (· < ·)).toList
def joinS (l : List String) : String := if l.isEmpty then "-" else ";".intercalate l

/-- signals a member's trap records when the action reaches it alive (SIGKILL and untrapped signals leave no record) -/
def recordOf (a : SigAction) (idx : Nat) (m : Member) : Option Int :=
  if !m.alive then none else
  match a with
  | .group s => if trapped.contains s then some s else none
  | .parent s => if idx == 0 && trapped.contains s then some s else none
  | _ => none

def step (_ : Unit) (line : String) : Unit × String :=
  let (op, impl) := splitLine line
  match words op with
  | ["os", sg, to, cmd, po, tree, via] =>
    match sg.toInt?, to.toInt?, parseTree tree with
    | some sig, some timeout, some ms =>
      let p : Params := { signal := sig, timeout := timeout, hasCommand := cmd != "-", parentOnly := po == "1" }
      let g0 := toGroup ms
      let cmdOk := cmd == "ok"
      -- the `ok` shutdown command of the scenarios sends SIGTERM to the launched command
      let gPre := if cmd == "ok" then deliver (.parent 15) g0 else g0
      let recPre : List (Nat × Int) := if cmd == "ok" then [(0, 15)] else []
      -- replay the actions, recording what each trap sees
      let first := (stopActions p { endedInTime := true, cmdOk := cmdOk }).head?
      let (g1, rec1) := match first with
        | some (.signal a) =>
          (deliver a gPre, (List.range gPre.length).filterMap fun i => (recordOf a i (gPre.getD i {})).map fun s => (i, s))
        | _ => (gPre, [])
      let o : Outcome := { endedInTime := !stillRunning g1, cmdOk := cmdOk }
      let rest := (stopActions p o).drop 1
      let gEnd := rest.foldl (fun g a => applyAction a g) g1
      let killed := rest.any fun | .signal _ => true | _ => false
      let recs := recPre ++ rec1
      let sigs := sortStrings (((List.range ms.length).filterMap fun i =>
        let l := (recs.filter (·.1 == i)).map fun r => toString r.2
        if l.isEmpty then none else some ((ms.getD i ⟨"?", false, false, ""⟩).id ++ "=" ++ "+".intercalate l)))
      let alive := sortStrings ((List.range ms.length).filterMap fun i =>
        if (gEnd.getD i {}).alive then some (ms.getD i ⟨"?", false, false, ""⟩).id else none)
      -- earliest death of a trapping member: only SIGKILL ends it
      let trappedDied := (List.range ms.length).any fun i => (ms.getD i ⟨"?", false, false, ""⟩).ignore && !(gEnd.getD i {}).alive
      let kill :=
        if !trappedDied then "none"
        else if PC.Spec.effectiveSignal sig == 9 && cmd == "-" then "lt"      -- the configured signal is SIGKILL itself
        else if cmd == "fail" || cmd == "nostart" then "lt"                                     -- a failed shutdown command is followed by SIGKILL at once
        else if killed then "ge" else "none"
      let cmdS := if cmd == "-" || cmd == "nostart" then "no" else "ran:env:dir"
      -- StopProcess returns once its actions are done; a shutdown (API or signal to the binary)
      -- returns when the process has ended: never, if a live member keeps it running
      let ret := if via == "api" || !stillRunning gEnd then "ok" else "timeout"
      let m := s!"ret={ret} sigs={joinS sigs} alive={joinS alive} kill={kill} cmd={cmdS}"
      -- the property's own verdicts on the implementation's answer
      let f (k : String) : String := match impl.splitOn (k ++ "=") with
        | [_, r] => (r.splitOn " ").headD ""
        | _ => ""
      let v :=
        if !(impl.startsWith "ret=") then "ok"
        else if f "kill" == "lt" && kill == "ge" then "bad:C06:C06:sigkill-before-timeout"
        else if f "kill" == "late" then "bad:C06:C06:sigkill-long-after-timeout (still alive 2.5 s after shutdown.timeout_seconds had elapsed)"
        else if f "alive" != joinS alive && cmd == "-" && !p.parentOnly && p.timeout != 0 && (gEnd.all (!·.alive)) then
          "bad:C06:C06:survivor-after-timeout " ++ f "alive"
        else if cmd == "-" && !p.parentOnly && f "alive" != "-" && f "ret" == "ok" then
          -- the stop / shutdown completed and a member of the group is still alive
          let ids := (f "alive").splitOn ";"
          let allTrap := ids.all fun id => (ms.find? (·.id == id)).any (·.ignore)
          "bad:C06:C06:descendant-left-alive " ++ f "alive" ++ (if allTrap then " [trapping-descendant]" else "")
        else if f "sigs" != joinS sigs then "bad:C06:C06:signal-delivery-differs want=" ++ joinS sigs
        else if f "alive" != joinS alive then "bad:C06:C06:survivors-differ want=" ++ joinS alive
        else if f "cmd" != cmdS then "bad:C06:C06:shutdown-command-environment-or-directory"
        else if f "ret" == "timeout" && ret == "ok" then "bad:C06:C06:stop-did-not-return"
        else "ok"
      ((), m ++ " ||| " ++ v)
    | _, _, _ => ((), "bad-op")
  | _ => ((), "bad-op")

end PC.Drv.OsStop
