import PC.Drv.Util
import PC.Model.Sup
import PC.Spec.Trace
/-! Driver for the `sup` component: replays the implementation's scheduling decisions on the model
    and prints the model's view of each step in the same canonical form as the harness. -/
namespace PC.Drv.Sup
open PC.Drv PC.Sup

structure St where
  names : List String := []
  cfgs : List Cfg := []
  gran : Gran := .coarse
  ordered : Bool := false
  sys : Sys := {}
  orc : PC.Spec.Trace.Oracle := {}

def nameIdx (st : St) (n : String) : Nat := (st.names.idxOf? n).getD st.names.length
def nameStr (st : St) (n : Nat) : String := st.names.getD n ("?" ++ toString n)

def sortStrings (l : List String) : List String := (l.toArray.qsort (· < ·)).toList

def parseCond : String → Option Cond
  | "c" => some .completed | "s" => some .completedOk | "h" => some .healthy
  | "l" => some .logReady | "t" => some .started | _ => none

def parsePolicy : String → Option Policy
  | "no" => some .no | "always" => some .always | "on_failure" => some .onFailure
  | "exit_on_failure" => some .exitOnFailure | _ => none

def labelOf : Pc → String
  | .begin => "begin"
  | .depNext _ => "dep:next"
  | .lockDep .. | .lockCleanup | .sdLock _ | .apiLock _ | .lockSpawn _ => "lock:runProc"
  | .depLookup .. => "dep:lookup"
  | .waitDone .. | .waitDoneThen _ => "wait:done"
  | .waitReady .. => "wait:ready"
  | .waitLogReady .. => "wait:logready"
  | .waitStarted .. => "wait:started"
  | .procSkipped => "proc:skipped"
  | .runEnter => "run:enter" | .runChecked => "run:checked" | .cmdWait => "cmd:wait"
  | .runExited => "run:exited" | .backoff => "backoff" | .backoffElapsed => "backoff:elapsed"
  | .procRan _ => "proc:ran" | .procDoneAdded _ => "proc:done-added"
  | .stopEnter .. => "stop:enter" | .stopNotRunning .. => "stop:notrunning"
  | .stopChecked .. => "stop:checked" | .stopMarked .. => "stop:marked" | .stopWaitKill .. => "stop:waitkill"
  | .sdEnter _ => "shutdown:enter" | .sdPrepared .. => "shutdown:prepared" | .sdWg _ => "shutdown:wg"
  | .depWg _ => "shutdown:depwg"
  | .startChecked _ => "start:checked"
  | .restartStopped _ => "restart:stopped" | .restartSleep _ => "restart:sleep" | .restartSlept _ => "restart:slept"
  | .runWg => "run:wg"
  | .finished => "end"

/-- kind/key part of a thread key (without the sequence number) -/
def baseKey (st : St) (s : Sys) : Kind → String
  | .proc i => "proc:" ++ nameStr st (s.nameOf i)
  | .api id _ => "api:" ++ toString id
  | .waiter i => "waiter:" ++ nameStr st (s.nameOf i)
  | .stopper i => "stopper:" ++ nameStr st (s.nameOf i)
  | .depwaiter o i => "depwaiter:" ++ nameStr st (s.nameOf o) ++ "<" ++ nameStr st (s.nameOf i)
  | .probe id _ => "probe:" ++ toString id
  | .pstart i => "pstart:" ++ nameStr st (s.nameOf i) ++ "_ready_probe"

def threadKeys (st : St) (s : Sys) : List String :=
  let bases := s.threads.map fun th => baseKey st s th.kind
  (List.range bases.length).map fun t =>
    let b := bases.getD t ""
    let seq := ((bases.take t).filter (· = b)).length + 1
    b ++ "#" ++ toString seq

def statusStr := statusString

def healthStr : Health → String
  | .unknown => "U" | .ready => "R" | .notReady => "N"

def obsStr (st : St) : Obs → String
  | .state n s => s!"state {nameStr st n} {statusStr s}"
  | .exit n c => s!"exit {nameStr st n} {c}"
  | .restarts n k => s!"restarts {nameStr st n} {k}"
  | .started n => s!"started {nameStr st n}"
  | .done n => s!"done {nameStr st n}"
  | .logready n => s!"logready {nameStr st n}"
  | .deptry me k => s!"deptry {nameStr st me} {nameStr st k}"
  | .dep me k f => s!"dep {nameStr st me} {nameStr st k} {if f then "found" else "none"}"
  | .launch n => s!"launch {nameStr st n}"
  | .launchfail n => s!"launchfail {nameStr st n}"
  | .stop n sig => s!"stop {nameStr st n} {sig}"
  | .projexit c => s!"projexit {c}"
  | .sdOrder ns => "sdorder " ++ ",".intercalate (ns.map (nameStr st))
  | .sdReturned => "sdreturned"
  | .runReturned c => s!"runreturned {c}"
  | .ret id r => s!"ret {id} {r}"
  | .crash w => s!"crash {w}"

def render (st : St) (s : Sys) : String :=
  let keys := threadKeys st s
  let ths := (List.range s.threads.length).filterMap fun t =>
    let th := s.thr t
    if th.pc = .finished then none
    else some (keys.getD t "?" ++ "@" ++ labelOf th.pc ++ (if enabledThr s t then "*" else ""))
  let sts := (List.range s.cfgs.length).map fun n =>
    let p := s.ps n
    s!"{nameStr st n}:{statusStr p.status}/{p.exit}/{p.restarts}/{healthStr p.health}"
  let run := (List.range s.cfgs.length).filter fun n => (s.running.getD n none).isSome
  let dn := (List.range s.cfgs.length).filter fun n => (s.doneM.getD n none).isSome
  let cmds := (s.insts.filter fun x => x.cmd = .alive).map fun x => nameStr st x.name
  "th=" ++ ",".intercalate (sortStrings ths) ++
  " obs=" ++ ";".intercalate (s.obs.map (obsStr st)) ++
  " st=" ++ ",".intercalate (sortStrings sts) ++
  " run=" ++ ",".intercalate (sortStrings (run.map (nameStr st))) ++
  " done=" ++ ",".intercalate (sortStrings (dn.map (nameStr st))) ++
  " cmd=" ++ ",".intercalate (sortStrings cmds) ++
  s!" pe={s.exitCode}" ++ (if s.crashed then " CRASHED" else "")

/-- extract the `obs=` field of a canonical result line -/
def obsField (res : String) : List String :=
  match res.splitOn " obs=" with
  | [_, rest] => match rest.splitOn " st=" with
    | o :: _ => (o.splitOn ";").filter (· ≠ "")
    | [] => []
  | _ => []

def hintsOf (st : St) (implObs : List String) : Hints :=
  let depOrder := implObs.filterMap fun o => match words o with
    | ["deptry", _, k] => some (nameIdx st k)
    | _ => none
  let sdOrder := (implObs.filterMap fun o => match words o with
    | ["sdorder", l] => some ((l.splitOn ",").map (nameIdx st))
    | _ => none).flatten
  let runOrder := implObs.filterMap fun o => match words o with
    | ["state", n, "Pending"] => some (nameIdx st n)
    | _ => none
  { depOrder, sdOrder, runOrder }

def parseFlags (fl : String) (c : Cfg) : Cfg :=
  fl.toList.foldl (fun c ch => match ch with
    | 'e' => { c with exitOnEnd := true } | 'k' => { c with exitOnSkipped := true }
    | 'r' => { c with hasReadyProbe := true } | 'l' => { c with hasReadyLine := true }
    | 'b' => { c with badDir := true } | 'x' => { c with deferred := true }
    | 'f' => { c with startFails := true } | _ => c) c

def parseOp (st : St) : List String → Option ApiOp
  | ["start", n] => some (.start (nameIdx st n))
  | ["stop", n] => some (.stop (nameIdx st n))
  | ["restart", n] => some (.restart (nameIdx st n))
  | ["state", n] => some (.state (nameIdx st n))
  | ["shutdown"] => some .shutdown
  | ["run"] => some .runMain
  | _ => none

def finish (st : St) (sys : Sys) (op : List String) (impl : String) : St × String :=
  let (orc, verdict) := PC.Spec.Trace.feed st.orc op impl
  ({ st with sys := sys, orc := orc }, render st sys ++ " ||| " ++ verdict)

def step (st : St) (line : String) : St × String :=
  let (op, impl) := splitLine line
  let ws := words op
  match ws with
  | ["sup", g, o] =>
    let gran := if g == "fine" then Gran.fine else Gran.coarse
    ({ gran, ordered := o == "1", orc := { ordered := o == "1" } }, "ok ||| ok")
  | ["proc", name, pol, mx, fl, sdt, sig, onsig, deps] =>
    match parsePolicy pol, mx.toNat?, sdt.toNat?, sig.toInt? with
    | some p, some m, some t, some sg =>
      let onSignal : Option Int := if onsig == "ign" then none else onsig.toInt?
      let c : Cfg := parseFlags fl { policy := p, maxRestarts := m, sdTimeout := t, sdSignal := sg, onSignal := onSignal }
      -- dependencies are resolved at `init` (names may be declared later): keep them encoded
      let st := { st with names := st.names ++ [name], cfgs := st.cfgs ++ [c],
                          orc := PC.Spec.Trace.declare st.orc name pol mx fl onsig deps t }
      (st, "ok ||| ok")
    | _, _, _, _ => (st, "bad-op")
  | ["deps", name, deps] =>
    -- second pass: `deps NAME k:c,k:c`
    let ds := ((deps.splitOn ",").filter (· ≠ "-")).filterMap fun d => match d.splitOn ":" with
      | [k, c] => (parseCond c).map fun c => (nameIdx st k, c)
      | _ => none
    let i := nameIdx st name
    ({ st with cfgs := st.cfgs.modify i fun c => { c with deps := ds } }, "ok ||| ok")
  | ["init"] =>
    let sys := init st.gran st.ordered st.cfgs
    finish st sys ws impl
  | "s" :: "call" :: id :: rest =>
    match id.toNat?, parseOp st rest with
    | some id, some o => finish st (PC.Sup.step st.sys (.call id o) {}) ws impl
    | _, _ => (st, "bad-op")
  | ["s", "run", key] =>
    match (threadKeys st st.sys).idxOf? key with
    | some t => finish st (PC.Sup.step st.sys (.run t) (hintsOf st (obsField impl))) ws impl
    | none =>
      -- the model has no such thread (it has parted from the implementation): the oracle still judges
      -- the implementation's own observations
      let (orc, verdict) := PC.Spec.Trace.feed st.orc ws impl
      ({ st with orc := orc }, "no-such-thread " ++ key ++ " ||| " ++ verdict)
  | ["s", "exit", n, c] =>
    match c.toInt? with
    | some c => finish st (PC.Sup.step st.sys (.exit (nameIdx st n) c) {}) ws impl
    | none => (st, "bad-op")
  | ["s", "line", n, r] => finish st (PC.Sup.step st.sys (.line (nameIdx st n) (r == "1")) {}) ws impl
  | ["s", "probe", n, r] => finish st (PC.Sup.step st.sys (.probe (nameIdx st n) (r == "ok")) {}) ws impl
  | ["s", "probefatal", id, n] =>
    match id.toNat? with
    | some id => finish st (PC.Sup.step st.sys (.probeFatal id (nameIdx st n)) {}) ws impl
    | none => (st, "bad-op")
  | ["s", "killto", n] => finish st (PC.Sup.step st.sys (.killTimeout (nameIdx st n)) {}) ws impl
  | ["end", reason] =>
    let (orc, verdict) := PC.Spec.Trace.finish st.orc reason
    ({ st with orc := orc }, "ok ||| " ++ verdict)
  | _ => (st, "bad-op")

end PC.Drv.Sup
