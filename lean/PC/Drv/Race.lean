import PC.Drv.Util
/-! Driver for `race`: the model of a run of the race search is "nothing found"; every report of
    the implementation's run becomes one failure detail. -/
namespace PC.Drv.Race
open PC.Drv

def step (_ : Unit) (line : String) : Unit × String :=
  let (op, impl) := splitLine line
  match words op with
  | "race" :: _ =>
    if impl == "clean" || impl == "" then ((), "clean ||| ok")
    else if impl == "no-race-binary" then ((), impl ++ " ||| bad:C20:C20:race-detector-build-missing")
    else
      let items := (impl.splitOn ",").filter (· ≠ "")
      let ds := items.map fun it =>
        if it.startsWith "race:" then "C20:data-race " ++ (it.drop 5).toString
        else if it.startsWith "stuck:" then "C20:call-never-returned " ++ (it.drop 6).toString
        else if it.startsWith "panic:" then "C20:crash " ++ (it.drop 6).toString
        else if it.startsWith "crash:" then "C20:crash " ++ (it.drop 6).toString
        else "C20:" ++ it
      -- the run is the search: its report is echoed, the verdict carries one failure detail per item
      ((), impl ++ " ||| bad:C20:" ++ "; ".intercalate ds)
  | _ => ((), "bad-op")

end PC.Drv.Race
