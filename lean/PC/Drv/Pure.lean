import PC.Drv.Util
import PC.Go.Atoi
import PC.Model.Restart
import PC.Model.Probe
import PC.Model.Stop
import PC.Spec.Pure
/-! Driver for the small pure components: `restart`, `probe`, `atoi`. -/
namespace PC.Drv.Pure
open PC.Drv PC.Spec

def verdict (ok : Bool) (why : String) : String := if ok then "ok" else "bad:" ++ why
def showB (b : Bool) : String := if b then "true" else "false"
def parseB : String → Option Bool
  | "true" => some true | "false" => some false | _ => none

def restartStep (_ : Unit) (line : String) : Unit × String :=
  let (op, impl) := splitLine line
  match words op with
  | ["dec", ph, m, r, c, s] =>
    match hexDec ph, m.toInt?, r.toInt?, c.toInt?, parseB s with
    | some p, some m, some r, some c, some s =>
      let res := PC.Restart.isRestartable p m r c s
      -- the stop flag is consumed by the decision (Swap(false))
      let model := showB res ++ " false"
      let want := showB (decide (restartWanted p m r c s)) ++ " false"
      ((), model ++ " ||| " ++ verdict (impl == want) ("policy-demands=" ++ want))
    | _, _, _, _, _ => ((), "bad-op")
  | ["backoff", b] =>
    match b.toInt? with
    | some b =>
      let model := toString (PC.Restart.getBackoffSeconds b)
      let want := toString (max 1 b)
      ((), model ++ " ||| " ++ verdict (impl == want) ("max(1,b)=" ++ want))
    | none => ((), "bad-op")
  | _ => ((), "bad-op")

def showNums (p : PC.Probe.ProbeNums) : String :=
  s!"{p.initialDelay} {p.periodSeconds} {p.timeoutSeconds} {p.successThreshold} {p.failureThreshold}"

def parseNums (ws : List String) : Option PC.Probe.ProbeNums :=
  match ws.map String.toInt? with
  | [some a, some b, some c, some d, some e] => some ⟨a, b, c, d, e⟩
  | _ => none

def probeStep (_ : Unit) (line : String) : Unit × String :=
  let (op, impl) := splitLine line
  match words op with
  | ["dflt", a, b, c, d, e] =>
    match parseNums [a, b, c, d, e] with
    | some p =>
      let model := showNums (PC.Probe.validateAndSetDefaults p)
      let okv := match parseNums (words impl) with
        | some q => decide (Legal q) &&
            -- legal configured values are kept
            (!(decide (0 ≤ p.initialDelay)) || q.initialDelay == p.initialDelay) &&
            (!(decide (1 ≤ p.periodSeconds)) || q.periodSeconds == p.periodSeconds) &&
            (!(decide (1 ≤ p.timeoutSeconds)) || q.timeoutSeconds == p.timeoutSeconds) &&
            (!(decide (1 ≤ p.successThreshold)) || q.successThreshold == p.successThreshold) &&
            (!(decide (1 ≤ p.failureThreshold)) || q.failureThreshold == p.failureThreshold)
        | none => false
      ((), model ++ " ||| " ++ verdict okv "effective-parameters-legal-and-configured-values-kept")
    | none => ((), "bad-op")
  | ["port", ph, n] =>
    match hexDec ph, n.toInt? with
    | some port, some n =>
      let model := toString (PC.Probe.httpNumPort port n)
      let okv := match impl.toInt? with
        | some k => decide (portLegal k) &&
            -- a plain decimal port within range is kept
            (match port.toNat? with
             | some v => if 1 ≤ v ∧ v ≤ 65535 ∧ port.toList.all Char.isDigit then k == (v : Int) else true
             | none => true)
        | none => false
      ((), model ++ " ||| " ++ verdict okv "port-in-1..65535-or-unset")
    | _, _ => ((), "bad-op")
  | ["life", d, s, _] =>
    -- a prober that has been stopped delivers no further result (and none at all if it was
    -- stopped during its initial delay)
    let before := match d.toNat?, s.toNat? with
      | some d, some s => if s < d * 1000 then "none" else "some"
      | _, _ => "?"
    let model := s!"before={before} after=0"
    ((), model ++ " ||| " ++ (if impl == model then "ok" else
      if (impl.splitOn "after=0").length > 1 then "bad:C10:C10:probe-results-before-stop-differ want=" ++ model
      else "bad:C10:C10:probe-result-delivered-after-stop"))
  | ["hc", th, cf, sh, st] =>
    match th.toInt?, cf.toInt?, hexDec sh, parseB st with
    | some th, some cf, some status, some stopped =>
      let model := match PC.Probe.healthCheckCompleted th cf status stopped with
        | none => "none"
        | some (ok, fatal) => showB ok ++ " " ++ showB fatal
      let want := if stopped then "none" else showB (status == "ok") ++ " " ++ showB (cf == th)
      ((), model ++ " ||| " ++ verdict (impl == want) ("want=" ++ want))
    | _, _, _, _ => ((), "bad-op")
  | _ => ((), "bad-op")

/-- Go-semantics library check: `strconv.Atoi`. The model *is* the reference here. -/
def atoiStep (_ : Unit) (line : String) : Unit × String :=
  let (op, _) := splitLine line
  match words op with
  | ["atoi", h] =>
    match hexDec h with
    | some s => let (v, ok) := PC.Go.atoi s; ((), s!"{v} {showB ok} ||| ok")
    | none => ((), "bad-op")
  | _ => ((), "bad-op")

end PC.Drv.Pure
