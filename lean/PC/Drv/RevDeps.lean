import PC.Drv.Util
import PC.Model.RevDeps
/-! Driver for `revdeps`: `revdeps a:b,c;b:;c:b` (running processes with their dependency names). -/
namespace PC.Drv.RevDeps
open PC.Drv PC.RevDeps

def parseProcs (s : String) : List (RProc String) :=
  (s.splitOn ";").filterMap fun item =>
    match item.splitOn ":" with
    | [n, ds] => if n.isEmpty then none else some { name := n, deps := (ds.splitOn ",").filter (· ≠ "") }
    | _ => none

def sortStrings (l : List String) : List String := (l.toArray.qsort (· < ·)).toList

def dedup (l : List String) : List String := l.foldl (fun acc x => if x ∈ acc then acc else acc ++ [x]) []

def render (m : List (String × List String)) : String :=
  let m := m.filter (fun e => !e.2.isEmpty)
  let keys := sortStrings (m.map (·.1))
  ";".intercalate (keys.map fun k => k ++ "=" ++ ",".intercalate (sortStrings (lookup m k)))

/-- The specification, computed directly from its statement. -/
def specMap (procs : List (RProc String)) : List (String × List String) :=
  let names := dedup (procs.map (·.name))
  names.filterMap fun d =>
    let ps := dedup ((procs.filter fun q => d ∈ q.deps).map (·.name))
    if ps.isEmpty then none else some (d, ps)

def step (_ : Unit) (line : String) : Unit × String :=
  let (op, impl) := splitLine line
  match words op with
  | ["revdeps", enc] =>
    let procs := parseProcs enc
    let model := render (revDeps procs)
    let want := render (specMap procs)
    ((), model ++ " ||| " ++ (if impl == want then "ok" else "bad:want=" ++ want))
  | ["revdeps"] => ((), " ||| " ++ (if impl == "" then "ok" else "bad:want="))
  | _ => ((), "bad-op")

end PC.Drv.RevDeps
