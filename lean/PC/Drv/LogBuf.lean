import PC.Drv.Util
import PC.Model.LogBuf
import PC.Spec.LogBuf
/-! Driver for the `logbuf` component: model results + spec verdicts on implementation results. -/
namespace PC.Drv.LogBuf
open PC.Drv PC.LogBuf PC.Spec.LogBuf

structure St where
  b : Buf := new 0
  all : List String := []                       -- ghost: everything written, oldest first
  expect : List (String × List String) := []    -- ghost: per subscribed id, tail ++ written since
  dead : Bool := false                          -- model hit a panic
  held : List (String × List String) := []      -- answers of range requests kept by their callers

def verdict (ok : Bool) (why : String) : String := if ok then "ok" else "bad:" ++ why

def step (s : St) (line : String) : St × String :=
  let (op, impl) := splitLine line
  match words op with
  | ["new", n] => match n.toNat? with
    | some k => ({ b := new k }, "ok ||| ok")
    | none => (s, "bad-op")
  | ["w", h] => match hexDec h with
    | some m =>
      ({ s with b := write s.b m, all := s.all ++ [m],
                expect := s.expect.map fun (i, l) => (i, l ++ [m]) }, "ok ||| ok")
    | none => (s, "bad-op")
  | ["range", o, l] => match o.toInt?, l.toInt? with
    | some o, some l =>
      let m := match getLogRange s.b.buffer o l with
        | some r => showHexList r
        | none => "panic"
      let want := showHexList (window s.b.buffer o l)
      (s, m ++ " ||| " ++ verdict (impl == want) ("window=" ++ want))
    | _, _ => (s, "bad-op")
  | ["hold", id, o, l] => match o.toInt?, l.toInt? with
    | some o, some l =>
      let want := window s.b.buffer o l
      ({ s with held := (s.held.filter (·.1 ≠ id)) ++ [(id, want)] },
        showHexList want ++ " ||| " ++ verdict (impl == showHexList want) ("window=" ++ showHexList want))
    | _, _ => (s, "bad-op")
  | ["held", id] =>
    -- an answer is a value: what was returned stays what it was, whatever is written afterwards
    match s.held.find? (·.1 = id) with
    | some (_, w) => (s, showHexList w ++ " ||| " ++ verdict (impl == showHexList w) "an answer handed out earlier has changed under its reader")
    | none => (s, "none ||| ok")
  | ["len"] =>
    let n := s.b.buffer.length
    let okv := match impl.toNat? with
      | some k => k ≤ s.b.size + slack ∧ min s.b.size s.all.length ≤ k
      | none => false
    (s, toString n ++ " ||| " ++ verdict okv "length-bounds")
  | ["sub", h, t] => match hexDec h, t.toInt? with
    | some id, some t =>
      match getLogsAndSubscribe s.b id t with
      | some b' =>
        let tl := window s.b.buffer t 0
        ({ s with b := b', expect := (s.expect.filter (·.1 ≠ id)) ++ [(id, tl)] }, "ok ||| " ++ verdict (impl == "ok") "subscribe-failed")
      | none => ({ s with dead := true }, "panic ||| " ++ verdict (impl == "ok") "subscribe-failed")
    | _, _ => (s, "bad-op")
  | ["unsub", h] => match hexDec h with
    | some id => ({ s with b := unSubscribe s.b id, expect := s.expect.filter (·.1 ≠ id) }, "ok ||| ok")
    | none => (s, "bad-op")
  | ["close"] => ({ s with b := close s.b, expect := [] }, "ok ||| ok")
  | ["got", h] => match hexDec h with
    | some id =>
      let m := match s.b.observers.find? (·.id = id) with
        | some o => showHexList o.got
        | none => "none"
      -- spec: a subscribed follower holds its tail followed by every later line
      let okv := match s.expect.find? (·.1 = id) with
        | some (_, l) => impl == showHexList l
        | none => true
      (s, m ++ " ||| " ++ verdict okv "tail++written")
    | none => (s, "bad-op")
  | _ => (s, "bad-op")

end PC.Drv.LogBuf
