/-! Specification for C11: the lines of a byte stream. -/
namespace PC.Spec.Output

/-- lines of a stream: split at newlines; a final unterminated piece is a line too; a trailing
    newline does not start an empty extra line -/
def splitLines : List UInt8 → List UInt8 → List (List UInt8)
  | [], cur => if cur = [] then [] else [cur]
  | b :: bs, cur => if b = 10 then cur :: splitLines bs [] else splitLines bs (cur ++ [b])

def lines (s : List UInt8) : List (List UInt8) := splitLines s []

end PC.Spec.Output
