/-! Specification (oracle) for C18: the window a range request must return. -/
namespace PC.Spec.LogBuf

/-- The last `k` elements. -/
def lastN (k : Nat) (xs : List α) : List α := xs.drop (xs.length - k)

/-- `limit` lines starting `offset` lines from the end, clamped to what exists;
    `limit < 1` means "to the end". -/
def window (buf : List α) (off lim : Int) : List α :=
  let o : Nat := (min (max off 0) (buf.length : Int)).toNat
  let rest := lastN o buf
  if lim < 1 then rest else rest.take lim.toNat

end PC.Spec.LogBuf
