/-! Trace oracles: the supervisor properties stated on the *implementation's* observation stream
    (what the fake commander and the hooks saw), independent of the model. `feed` consumes one
    step (`op`, canonical result line) and returns the failures of that step as
    `bad:<property ids>:<details>`; `finish` judges the final state of a scenario.

    Every failure detail starts with `Cxx:<kind>` — the kind is what known findings are matched on. -/
namespace PC.Spec.Trace

structure PDecl where
  name : String
  policy : String
  max : Nat
  flags : String
  onSignal : String
  deps : List (String × String)      -- (dependency, condition letter)
  sdt : Nat := 0                     -- shutdown.timeout_seconds
deriving Repr, Inhabited

structure Oracle where
  decls : List PDecl := []
  ordered : Bool := false
  -- per name facts (sets of names / assoc lists)
  status : List (String × String) := []
  seenSeq : List (String × Nat) := []        -- highest proc thread sequence number seen
  fresh : List String := []                  -- a new instance began and has not changed the status yet
  found : List (String × String) := []       -- (dependent, dependency) looked up and found (current instance)
  launchesInst : List (String × Nat) := []
  relaunches : List (String × Nat) := []
  lastCode : List (String × Int) := []
  natural : List String := []                -- last command exit was not caused by a stop signal
  everDoneOk : List String := []
  doneEver : List String := []
  probeOkEver : List String := []
  logReadyEver : List String := []
  logReadyInst : List (String × Nat) := []    -- (name, instance number) whose ready line was seen
  foundAt : List (String × String × Nat) := [] -- (dependent, dependency, instance number of the dependency at the look-up)
  noneAt : List (String × String × Nat) := []  -- (dependent, dependency, instance number at a look-up that found nothing registered)
  tpConcurrent : List String := []             -- while a signalled command with a kill timeout was pending, several requests on the name overlapped
  startedEver : List String := []
  terminatingEver : List String := []
  readySince : List String := []
  stopBegun : List String := []              -- a stop/restart/shutdown of the name has begun executing
  stopReq : List String := []                -- a stop of the name (or a shutdown) has been served
  everStopped : List String := []
  launchedEver : List String := []
  fatalPending : List String := []           -- fatal readiness failure delivered, relaunch expected
  runAtShutdown : List String := []
  shutdownReturned : Bool := false
  shutdownBegun : Bool := false
  sdSignalled : List String := []            -- names signalled since their last launch
  callBegan : List (String × Nat) := []      -- api id ↦ step at which its thread left `begin`
  lastStartRet : List (String × Nat) := []   -- name ↦ step of the last successful start/restart
  sdHandled : List String := []              -- the running shutdown has finished stopping these names
  exitAfterSd : List String := []            -- running at shutdown begin; command exited by itself after the request
  sdSeq : List (String × Nat) := []          -- instance numbers at shutdown begin
  probersDown : List String := []            -- signalled by a stop; readiness prober not started again since
  startOnActive : List (String × String) := []   -- (api id, name): start requested on a process that has been
                                                 -- Running with a live command, in one instance, ever since
  startOnReg : List (String × String) := []      -- (api id, name): start requested on a process that has had one
                                                 -- registered, unfinished instance ever since (whatever its status)
  triggers : List (String × Int × Bool) := []   -- (process, code, genuine)
  expTriggers : List (String × Int) := []       -- read off the configuration: ended by itself with exit_on_end / a failure with exit_on_failure
  calls : List (String × List String) := []     -- api id ↦ op words
  prevCmd : List String := []
  prevRun : List String := []
  lastTh : String := ""
  lastSt : String := ""
  lastCmd : List String := []
  quiescent : Bool := false
  ovNames : List String := []        -- names that had two unfinished instances at the same time
  winNames : List String := []       -- names touched inside another thread's check-then-act window
  staleNames : List String := []     -- names whose (re)started instance did not begin in state Pending
  termPending : List String := []    -- live command signalled by a stop with a kill timeout configured; neither exited nor killed yet
  retd : List String := []           -- api ids that have returned
  stopTarget : List (String × Nat) := []   -- name ↦ highest instance number that existed when a stop / restart of the name was requested
  steps : Nat := 0
deriving Repr, Inhabited

/-! small helpers -/
def words (s : String) : List String := (s.splitOn " ").filter (· ≠ "")
def lookupD (l : List (String × α)) (k : String) (d : α) : α := ((l.find? (·.1 = k)).map (·.2)).getD d
def setKV (l : List (String × α)) (k : String) (v : α) : List (String × α) := (l.filter (·.1 ≠ k)) ++ [(k, v)]
def addS (l : List String) (k : String) : List String := if l.contains k then l else l ++ [k]
def delS (l : List String) (k : String) : List String := l.filter (· ≠ k)

def field (res key : String) : String :=
  match res.splitOn (key ++ "=") with
  | _ :: rest :: _ => (rest.splitOn " ").headD ""
  | _ => ""

/-- the `obs=` field may contain spaces: it runs up to ` st=` -/
def obsField (res : String) : List String :=
  match res.splitOn " obs=" with
  | [_, rest] => match rest.splitOn " st=" with
    | o :: _ => (o.splitOn ";").filter (· ≠ "")
    | [] => []
  | _ => []

def csv (s : String) : List String := (s.splitOn ",").filter (· ≠ "")

/-- `st=` entries: name ↦ (status, exit, restarts, health) -/
def parseSt (s : String) : List (String × (String × Int × Nat × String)) :=
  (csv s).filterMap fun e => match e.splitOn ":" with
    | [n, v] => match v.splitOn "/" with
      | [st, ex, rs, h] => some (n, (st, ex.toInt?.getD 0, rs.toNat?.getD 0, h))
      | _ => none
    | _ => none

def decl (o : Oracle) (n : String) : PDecl := (o.decls.find? (·.name = n)).getD { name := n, policy := "no", max := 0, flags := "", onSignal := "0", deps := [] }

def declare (o : Oracle) (name pol mx fl onsig deps : String) (sdt : Nat := 0) : Oracle :=
  let ds := ((deps.splitOn ",").filter (· ≠ "-")).filterMap fun d => match d.splitOn ":" with
    | [k, c] => some (k, c) | _ => none
  let d : PDecl := { name, policy := pol, max := mx.toNat?.getD 0, flags := fl, onSignal := onsig, deps := ds, sdt }
  { o with decls := o.decls ++ [d], status := o.status ++ [(name, if fl.contains 'x' then "Disabled" else "Pending")] }

def isTerminal (s : String) : Bool := s == "Completed" || s == "Skipped" || s == "Error"
def isRunningSt (s : String) : Bool := s == "Running" || s == "Launching" || s == "Launched"

/-- C09: the legal life-cycle edges (without an explicit new start). -/
def legalEdge (a b : String) : Bool :=
  match a with
  | "Pending" => b == "Running" || b == "Launching" || b == "Skipped" || b == "Terminating" || b == "Error"
      || b == "Completed"   -- stopped before start: ended without ever being launched
  | "Running" => b == "Restarting" || b == "Terminating" || b == "Completed" || b == "Error" || b == "Launched"
  | "Launching" => b == "Launched" || b == "Restarting" || b == "Terminating" || b == "Completed" || b == "Error"
  | "Launched" => b == "Restarting" || b == "Terminating" || b == "Completed"
  | "Restarting" => b == "Running" || b == "Launching" || b == "Completed" || b == "Terminating"
  | "Terminating" => b == "Completed" || b == "Restarting" || b == "Terminating" || b == "Skipped" || b == "Error"
  | _ => false

/-- edges allowed for the first status write of a freshly started instance -/
def freshEdge (b : String) : Bool :=
  b == "Running" || b == "Launching" || b == "Error" || b == "Skipped" || b == "Terminating" || b == "Pending"

/-- C01: is the declared condition of dependency `k` met according to what was observed? -/
def gateMet (o : Oracle) (k c : String) : Bool :=
  match c with
  | "c" => o.doneEver.contains k
  | "s" => o.everDoneOk.contains k
  | "h" => o.probeOkEver.contains k || o.logReadyEver.contains k
  | "l" => o.logReadyEver.contains k
  -- process_started: the dependency started, or it has ended / was stopped and is therefore no
  -- longer scheduled to run (DESIGN.md 6.6)
  | _ => o.startedEver.contains k || o.doneEver.contains k || o.terminatingEver.contains k || o.everStopped.contains k
          || o.stopBegun.contains k

/-- the process whose thread ran in this step (`s run proc:X#n`) -/
def actor (op : List String) : String :=
  match op with
  | ["s", "run", key] => match key.splitOn ":" with
    | [_, rest] => (rest.splitOn "#").headD ""
    | _ => ""
  | _ => ""

/-- the instance number of the process thread that ran in this step (`s run proc:X#n`) -/
def actorSeq (op : List String) : Nat :=
  match op with
  | ["s", "run", key] => match key.splitOn "#" with
    | [_, n] => n.toNat?.getD 0
    | _ => 0
  | _ => 0

def bump (l : List (String × Nat)) (k : String) : List (String × Nat) := setKV l k (lookupD l k 0 + 1)

def parseTh (th : String) : List (String × String) :=
  (csv th).filterMap fun t => match t.splitOn "@" with
    | [k, l] => some (k, l.replace "*" "")
    | _ => none

/-- process one observation; returns the updated oracle and the failures it raises -/
def onObs (o : Oracle) (op : List String) (cmdAfter : List String)
    (st : List (String × (String × Int × Nat × String))) (ob : String) : Oracle × List String :=
  match words ob with
  | ["dep", x, k, "found"] =>
    ({ o with found := o.found ++ [(x, k)], noneAt := o.noneAt.filter fun e => !(e.1 == x && e.2.1 == k),
              foundAt := (o.foundAt.filter fun e => !(e.1 == x && e.2.1 == k)) ++ [(x, k, lookupD o.seenSeq k 0)] }, [])
  | ["dep", x, k, "none"] =>
    ({ o with found := o.found.filter (· ≠ (x, k)), foundAt := o.foundAt.filter fun e => !(e.1 == x && e.2.1 == k),
              noneAt := (o.noneAt.filter fun e => !(e.1 == x && e.2.1 == k)) ++ [(x, k, lookupD o.seenSeq k 0)] }, [])
  | ["started", x] => ({ o with startedEver := addS o.startedEver x }, [])
  | ["logready", x] =>
    ({ o with logReadyEver := addS o.logReadyEver x, readySince := addS o.readySince x,
              logReadyInst := o.logReadyInst ++ [(x, lookupD o.seenSeq x 0)] }, [])
  | ["state", x, s] =>
    let prev := lookupD o.status x "Pending"
    -- the first status write of a freshly started instance (made by its own goroutine)
    let me := match op with | ["s", "run", key] => key | _ => ""
    let isFresh := o.fresh.contains me && me.startsWith ("proc:" ++ x ++ "#")
    -- `Pending` is written when a new instance is created: the explicit new start
    let ok := s == "Pending" || (if isFresh then freshEdge s || legalEdge prev s else legalEdge prev s)
    let fails := if ok then [] else [s!"C09:illegal-transition {x} {prev}->{s}"]
    let fails := if s == "Skipped" && lookupD o.launchesInst x 0 > 0 then fails ++ [s!"C05:skipped-after-launch {x}"] else fails
    let o := { o with status := setKV o.status x s, fresh := if isFresh then delS o.fresh me else o.fresh }
    let o := if s == "Restarting" || s == "Launching" || s == "Terminating" then { o with readySince := delS o.readySince x } else o
    let o := if s == "Terminating" then { o with terminatingEver := addS o.terminatingEver x } else o
    (o, fails)
  | ["done", x] =>
    let ex := (lookupD st x ("", 0, 0, "")).2.1
    let o := { o with doneEver := addS o.doneEver x }
    -- ended successfully: reported exit code 0, and the last command that ran (if any) exited with 0
    -- (`lastCode` is kept per name: it is only consulted when no two instances of `x` ever coexisted)
    let okEnd := ex = 0 && (!(o.launchedEver.contains x) || o.ovNames.contains x || lookupD o.lastCode x 0 = 0)
    let o := if okEnd then { o with everDoneOk := addS o.everDoneOk x } else o
    -- what the configuration says about the project exit code, independently of what the
    -- implementation recorded: a process that ended by itself (its last command was not signalled)
    -- triggers with its own code under exit_on_end, and under exit_on_failure when that code is not 0
    -- (only while nothing has been recorded and no shutdown has begun or returned: the first trigger wins)
    let d := decl o x
    let code := lookupD o.lastCode x 0
    let trig := o.triggers.isEmpty && !o.shutdownReturned && o.launchedEver.contains x && o.natural.contains x && !(o.ovNames.contains x) && !o.shutdownBegun &&
      (lookupD st x ("", 0, 0, "")).1 == "Completed" &&
      ((d.flags.toList.contains 'e') || (d.policy == "exit_on_failure" && code != 0))
    (if trig then { o with expTriggers := o.expTriggers ++ [(x, code)] } else o, [])
  | ["launch", x] =>
    let d := decl o x
    -- C01: every dependency that was found registered must have met its condition
    let gate := (d.deps.filterMap fun (k, c) =>
      -- a dependency that had an instance in this run and has ended (finished, failed, skipped) without
      -- meeting the condition was scheduled to run just the same, whether or not it is still registered
      -- (not, however, when the dependent looked before the dependency had any instance, or when the
      -- instance that ended is a later one than existed at the look-up: then it was not scheduled to run
      -- when the dependent asked)
      let lookedBefore := o.noneAt.any fun e => e.1 == x && e.2.1 == k && (e.2.2 == 0 || e.2.2 != lookupD o.seenSeq k 0)
      let endedBadly := lookupD o.seenSeq k 0 > 0 && isTerminal (lookupD o.status k "") && !(o.ovNames.contains k) && !lookedBefore
      -- process_log_ready is about the run the dependent looked up: a ready line printed by an earlier
      -- run of the dependency (it ended and was started again) does not count
      let staleLine := c == "l" && !(o.ovNames.contains k) &&
        (o.foundAt.any fun e => e.1 == x && e.2.1 == k && !(o.logReadyInst.contains (k, e.2.2)))
      if (o.found.contains (x, k) || endedBadly) && (!gateMet o k c || staleLine) then
        some ([s!"C01:launch-before-condition {x} needs {k}:{c}"] ++
          -- the dependency has ended or was stopped without satisfying the condition: C05 demands a skip
          (if o.doneEver.contains k || o.everStopped.contains k || o.stopBegun.contains k then
            [s!"C05:launched-despite-unsatisfied-dependency {x} needs {k}:{c}"] else []))
      else none).flatten
    -- C02/C03/C08: no launch after a served stop / shutdown without a new start
    let afterStop := if o.stopReq.contains x then
        [s!"C02:launch-after-stop {x}", s!"C08:launch-after-stop {x}"] ++
        (if o.shutdownReturned then [s!"C03:launch-after-shutdown {x}"] else []) else []
    -- a command launched while a shutdown is in progress will never be signalled by it
    let during := if o.shutdownBegun && o.sdHandled.contains x then
        [s!"C03:launch-during-shutdown {x}", s!"C02:launch-during-shutdown {x}"] else []
    -- C02: a process that was running when the shutdown was requested and whose command exited by
    -- itself after that request is not relaunched
    let reqd := if lookupD o.launchesInst x 0 > 0 && o.exitAfterSd.contains x then
        [s!"C02:relaunch-after-shutdown-request {x}", s!"C03:relaunch-after-shutdown-request {x}"] else []
    -- C08 / C06: a stop with a kill timeout returns only when the command is gone or was killed, so with
    -- one request at a time no new command of `x` is launched while the signalled one is still alive
    let inflight := (o.calls.filter fun (c : String × List String) => !o.retd.contains c.1 &&
      (c.2 == ["stop", x] || c.2 == ["restart", x] || c.2 == ["start", x] || c.2 == ["shutdown"])).length
    let early := if o.termPending.contains x && inflight ≤ 1 && !(o.tpConcurrent.contains x) then
        [s!"C08:launch-while-kill-timeout-pending {x}", s!"C06:stop-returned-before-kill-timeout {x}"] else []
    -- C08: an instance that a served restart / stop-and-start has replaced (a newer instance of the name
    -- exists, nobody else is asking, and it was not caught inside a check-then-act window) launches nothing
    let superseded := if actor op == x && actorSeq op > 0 && actorSeq op < lookupD o.seenSeq x 0 && inflight == 0
          && actorSeq op ≤ lookupD o.stopTarget x 0      -- it is an instance a stop / restart request was aimed at
          && !(o.winNames.contains x) then
        [s!"C08:superseded-instance-launched {x}#{actorSeq op}"] else []
    let afterStop := afterStop ++ during ++ reqd ++ early ++ superseded
    let isRe := lookupD o.launchesInst x 0 > 0
    let code := lookupD o.lastCode x 0
    let pol := if !isRe then [] else
      if d.policy == "always" || (d.policy == "on_failure" && code ≠ 0) then [] else [s!"C02:relaunch-against-policy {x} {d.policy} code={code}"]
    let rel := if isRe then lookupD o.relaunches x 0 + 1 else lookupD o.relaunches x 0
    let mx := if isRe && d.max > 0 && rel > d.max then [s!"C02:max-restarts-exceeded {x} {rel}>{d.max}"] else []
    let o := { o with sdSignalled := delS o.sdSignalled x }
    let o := { o with launchesInst := bump o.launchesInst x, relaunches := setKV o.relaunches x rel,
                      launchedEver := addS o.launchedEver x, fatalPending := delS o.fatalPending x }
    (o, gate ++ afterStop ++ pol ++ mx)
  | ["stop", x, sig] =>
    let d := decl o x
    -- C12: with ordered shutdown, no dependent that was running at shutdown begin is still alive
    -- (only signals sent by the ordered shutdown itself — its stopper goroutines — are judged: a stop
    -- issued concurrently by a failed readiness probe or by an API request is not ordered by it)
    let byStopper := match op with | ["s", "run", key] => key.startsWith "stopper:" | _ => false
    let c12 := if o.ordered && !o.runAtShutdown.isEmpty && byStopper then
        o.decls.filterMap fun p =>
          if p.name ≠ x && p.deps.any (·.1 = x) && o.runAtShutdown.contains p.name && cmdAfter.contains p.name
          then some s!"C12:stopped-before-dependent {x} while {p.name} alive" else none
      else []
    -- reaction of the fake command: it dies unless it ignores the signal (SIGKILL always kills)
    let wasAlive := o.prevCmd.contains x
    let dies := wasAlive && (sig == "9" || d.onSignal != "ign")
    let code : Int := if sig == "9" then -1 else d.onSignal.toInt?.getD 0
    let o := if dies then { o with lastCode := setKV o.lastCode x code, natural := delS o.natural x } else o
    -- the first signal of a stop call comes after the probers were stopped; the SIGKILL escalation
    -- after the timeout (sent from `stop:waitkill`) does not stop them again
    let me := match op with | ["s", "run", key] => key | _ => ""
    let escalation := (parseTh o.lastTh).any fun (kl : String × String) => kl.1 == me && kl.2 == "stop:waitkill"
    let o := { o with termPending := if sig == "9" || dies then delS o.termPending x
                                       else if wasAlive && d.sdt > 0 then addS o.termPending x else o.termPending }
    let o := { o with sdSignalled := addS o.sdSignalled x,
                      probersDown := if escalation then o.probersDown else addS o.probersDown x }
    (o, c12)
  | ["sdorder", l] => ({ o with runAtShutdown := csv l, stopBegun := (csv l).foldl addS o.stopBegun, shutdownBegun := true,
                                sdSeq := o.seenSeq, exitAfterSd := [] }, [])
  | ["sdorder"] => ({ o with runAtShutdown := [], shutdownBegun := true }, [])
  | ["sdreturned"] =>
    let alive := if cmdAfter.isEmpty then [] else [s!"C03:alive-after-shutdown {",".intercalate cmdAfter}"]
    let running := st.filterMap fun (n, (s, _)) => if isRunningSt s then some s!"C03:reported-running-after-shutdown {n} {s}" else none
    ({ o with shutdownReturned := true, shutdownBegun := false, sdHandled := [], exitAfterSd := [], stopReq := o.decls.map (·.name),
              everStopped := o.decls.foldl (fun l d => addS l d.name) o.everStopped }, alive ++ running)
  | ["projexit", c] =>
    let x := actor op
    let skipped := lookupD o.status x "" == "Skipped"
    let genuine := skipped || o.natural.contains x || !(o.launchedEver.contains x)
    ({ o with triggers := o.triggers ++ [(x, c.toInt?.getD 0, genuine)] }, [])
  | ["runreturned", c] =>
    let c := c.toInt?.getD 0
    let alive := if cmdAfter.isEmpty then [] else [s!"C04:run-returned-with-live-command {",".intercalate cmdAfter}"]
    let gen := o.triggers.filter (·.2.2)
    let codeFail :=
      if o.triggers.isEmpty then (if c = 0 then [] else [s!"C04:nonzero-without-trigger {c}"])
      else if gen.isEmpty then []     -- only victims of an externally requested shutdown: any of their codes
      else if gen.any (·.2.1 = c) then [] else [s!"C04:exit-code-of-victim {c}"]
    -- a trigger known from the configuration alone (before any shutdown had begun): the reported
    -- code must be that of such a trigger
    let expFail :=
      if codeFail.isEmpty && !(gen.any (·.2.1 = c)) && !o.expTriggers.isEmpty && !(o.expTriggers.any (·.2 = c)) then
        [s!"C04:exit-code-not-a-triggers {c} (triggered by {",".intercalate (o.expTriggers.map fun t => t.1 ++ ":" ++ toString t.2)})"]
      else []
    (o, alive ++ codeFail ++ expFail)
  | ["ret", id, r] =>
    let o := { o with retd := addS o.retd id }
    match lookupD o.calls id [] with
    | ["stop", x] =>
      let known := o.decls.any (·.name = x)
      let f := if !known && r != "no-such" then [s!"C08:unknown-name-not-rejected stop {x} {r}"] else []
      -- the stop was served on the instance that existed when the call began: a start/restart that
      -- succeeded in between begins a new life cycle the stop does not apply to
      let superseded := lookupD o.lastStartRet x 0 > lookupD o.callBegan id 0
      (if r == "ok" && !superseded then { o with stopReq := addS o.stopReq x, everStopped := addS o.everStopped x }
       else if r == "ok" then { o with everStopped := addS o.everStopped x } else o, f)
    | ["start", x] =>
      let known := o.decls.any (·.name = x)
      let f := if !known && r != "no-such" then [s!"C08:unknown-name-not-rejected start {x} {r}"] else []
      -- C08: a start request on an active process fails (without side effects)
      let f := if r == "ok" && o.startOnActive.any (· == (id, x)) then f ++ [s!"C08:start-accepted-on-active {x}"] else f
      -- ... and so does one on a process whose instance is registered and unfinished in any other state
      -- (waiting out its back-off, being terminated): it is still active
      let f := if f.isEmpty && r == "ok" && o.startOnReg.any (· == (id, x)) then
          f ++ [s!"C08:start-accepted-on-registered {x} ({lookupD (parseSt o.lastSt) x ("", 0, 0, "") |>.1})"] else f
      (if r == "ok" then { o with stopReq := delS o.stopReq x, lastStartRet := setKV o.lastStartRet x (o.steps + 1) } else o, f)
    | ["restart", x] =>
      let known := o.decls.any (·.name = x)
      let f := if !known && r != "no-such" then [s!"C08:unknown-name-not-rejected restart {x} {r}"] else []
      (if r == "ok" then { o with stopReq := delS o.stopReq x, everStopped := addS o.everStopped x,
                                   lastStartRet := setKV o.lastStartRet x (o.steps + 1) } else o, f)
    | _ => (o, if r == "panic" then [s!"C20:panic-in-api-call {id}"] else [])
  | _ => (o, [])

def idsOf (fails : List String) : List String :=
  fails.foldl (fun acc f => let id := (f.splitOn ":").headD ""; if acc.contains id then acc else acc ++ [id]) []

def verdictOf (fails : List String) : String :=
  if fails.isEmpty then "ok" else "bad:" ++ ",".intercalate (idsOf fails) ++ ":" ++ "; ".intercalate fails

def dupes (l : List String) : List String :=
  (l.foldl (fun (acc : List String × List String) x =>
    if acc.1.contains x then (acc.1, addS acc.2 x) else (acc.1 ++ [x], acc.2)) ([], [])).2

def procNameOfKey (k : String) : Option String :=
  if k.startsWith "proc:" then some (((k.drop 5).toString.splitOn "#").headD "") else none

def procWinLabels : List String := ["run:enter", "run:checked", "run:exited", "backoff:elapsed", "proc:ran", "proc:done-added", "proc:skipped", "dep:lookup"]
def stopWinLabels : List String := ["stop:enter", "stop:notrunning", "stop:checked", "stop:marked", "start:checked", "restart:stopped", "restart:slept", "shutdown:enter", "shutdown:prepared"]

def obsMentions (obs : List String) (x : String) : Bool :=
  obs.any fun ob => match words ob with
    | [k, n] => n == x && (k == "launch" || k == "done" || k == "started")
    | [k, n, _] => n == x && (k == "state" || k == "stop" || k == "exit")
    | _ => false

/-- root-cause tags: `[overlap]` (two instances of the name coexisted) and `[window]` (another
    thread acted on the name while a thread sat inside a check-then-act window). -/
def tagFail (o : Oracle) (f : String) : String :=
  let ws := words f
  let raw := ws.getD 1 ""
  let kind := ws.getD 0 ""
  let isHang := (kind.splitOn "blocked-forever").length > 1 || (kind.splitOn "never-returns").length > 1
  let names : List String :=
    if isHang then o.decls.map (·.name) else    -- a deadlock blocks bystanders too: judge the scenario
    match procNameOfKey raw with
    | some x => [x]
    | none => if raw.startsWith "api:" || raw.startsWith "stopper:" then o.decls.map (·.name) else csv raw
  let t1 := if names.any (o.ovNames.contains ·) then " [overlap]" else ""
  let t2 := if names.any (o.winNames.contains ·) then " [window]" else ""
  let t3 := if names.any (o.staleNames.contains ·) then " [stale]" else ""
  f ++ t1 ++ t2 ++ t3

def feed (o : Oracle) (op : List String) (impl : String) : Oracle × String :=
  if impl.startsWith "DIVERGED" || impl == "DEAD" then
    (o, if impl.startsWith "DIVERGED" then "bad:C20:C20:step-did-not-park (a call blocked outside every hook point)" else "ok")
  else
  let obs := obsField impl
  let st := parseSt (field impl "st")
  let cmd := csv (field impl "cmd")
  let run := csv (field impl "run")
  let th := field impl "th"
  -- new proc instances (thread keys `proc:X#n` with a new n)
  let o := (csv th).foldl (fun o t =>
    let key := (t.splitOn "@").headD ""
    match key.splitOn ":" with
    | ["proc", rest] => match rest.splitOn "#" with
      | [x, n] =>
        let n := n.toNat?.getD 0
        if n > lookupD o.seenSeq x 0 then
          { o with seenSeq := setKV o.seenSeq x n, fresh := addS o.fresh key,

                   found := o.found.filter (·.1 ≠ x), foundAt := o.foundAt.filter (·.1 ≠ x), noneAt := o.noneAt.filter (·.1 ≠ x),
                   launchesInst := setKV o.launchesInst x 0,
                   exitAfterSd := delS o.exitAfterSd x, probersDown := delS o.probersDown x }
        else o
      | _ => o
    | _ => o) o
  -- the external event / request of this step
  let o := match op with
    | ["s", "exit", x, c] =>
      if o.prevCmd.contains x then
        { o with lastCode := setKV o.lastCode x (c.toInt?.getD 0), natural := addS o.natural x, termPending := delS o.termPending x,
                 exitAfterSd := if o.shutdownBegun && o.runAtShutdown.contains x && lookupD o.sdSeq x 0 == lookupD o.seenSeq x 0 then addS o.exitAfterSd x else o.exitAfterSd }
      else o
    | ["s", "probe", x, "ok"] =>
      if o.prevCmd.contains x then { o with probeOkEver := addS o.probeOkEver x, readySince := addS o.readySince x } else o
    | "s" :: "call" :: id :: rest =>
      let o := { o with calls := setKV o.calls id rest, retd := delS o.retd id }
      let o := match rest with
        | ["stop", x] | ["restart", x] =>
          { o with stopTarget := setKV o.stopTarget x (max (lookupD o.stopTarget x 0) (lookupD o.seenSeq x 0)) }
        | _ => o
      match rest with
      | ["start", x] =>
        let single := ((csv th).filter fun (t : String) => procNameOfKey ((t.splitOn "@").headD "") == some x).length == 1
        let o := if single && o.prevRun.contains x && run.contains x then { o with startOnReg := o.startOnReg ++ [(id, x)] } else o
        if single && isRunningSt (lookupD o.status x "") && o.prevCmd.contains x && cmd.contains x then
          { o with startOnActive := o.startOnActive ++ [(id, x)] } else o
      | _ => o
    | ["s", "run", key] =>
      let o := if key.startsWith "pstart:" then
          { o with probersDown := o.probersDown.filter fun x => !(key.startsWith ("pstart:" ++ x ++ "_ready")) } else o
      if key.startsWith "probe:" && obs.any (fun (ob : String) => ob.startsWith "stop ") then
        match obs.find? (fun (ob : String) => ob.startsWith "stop ") with
        | some s => { o with fatalPending := addS o.fatalPending ((words s).getD 1 "") }
        | none => o
      else o
    | _ => o
  -- root-cause bookkeeping
  let cur := parseTh th
  -- names the running shutdown is done with: their waiter exists / their stopper is past the stop
  let o := if o.shutdownBegun then
      { o with sdHandled := cur.foldl (fun l (kl : String × String) =>
          if kl.1.startsWith "waiter:" then addS l (((kl.1.drop 7).toString.splitOn "#").headD "")
          else if kl.1.startsWith "stopper:" && kl.2 == "wait:done" then addS l (((kl.1.drop 8).toString.splitOn "#").headD "")
          else l) o.sdHandled }
    else o
  -- stop / restart requests that have begun executing (their thread has left `begin`)
  let o := cur.foldl (fun o (kl : String × String) =>
    if kl.1.startsWith "api:" && kl.2 != "begin" then
      let id := ((kl.1.drop 4).toString.splitOn "#").headD ""
      let o := if o.callBegan.any (·.1 = id) then o else { o with callBegan := setKV o.callBegan id (o.steps + 1) }
      match lookupD o.calls id [] with
      | ["stop", x] => { o with stopBegun := addS o.stopBegun x }
      | ["restart", x] => { o with stopBegun := addS o.stopBegun x }
      | _ => o
    else o) o
  let prev := parseTh o.lastTh
  let actorKey := match op with | ["s", "run", key] => key | _ => ""
  let procNames := cur.filterMap fun (k, _) => procNameOfKey k
  let o := { o with ovNames := (dupes procNames).foldl addS o.ovNames }
  let winA := prev.filterMap fun (k, l) => match procNameOfKey k with
    | some x => if k ≠ actorKey && procWinLabels.contains l && obsMentions obs x then some x else none
    | none => none
  let winB := match procNameOfKey actorKey with
    | some x => if obsMentions obs x && prev.any (fun (k, l) => k ≠ actorKey && stopWinLabels.contains l) then [x] else []
    | none => []
  -- a stop / restart / shutdown request progresses while the target's goroutine sits in a window
  -- (the request may have nothing to observe: a stop of a Restarting process is a silent no-op)
  let targets : List String :=
    if actorKey.startsWith "api:" then
      match lookupD o.calls (((actorKey.drop 4).toString.splitOn "#").headD "") [] with
      | ["stop", x] => [x]
      | ["restart", x] => [x]
      | ["shutdown"] => o.decls.map (·.name)
      | _ => []
    else if actorKey.startsWith "stopper:" then [((actorKey.drop 8).toString.splitOn "#").headD ""]
    else if actorKey.startsWith "proc:" && (obs.any fun (ob : String) => ob.startsWith "sdorder") then o.decls.map (·.name)
    else []
  let winC := prev.filterMap fun (k, l) => match procNameOfKey k with
    | some x => if k ≠ actorKey && procWinLabels.contains l && targets.contains x then some x else none
    | none => none
  let o := { o with winNames := (winA ++ winB ++ winC).foldl addS o.winNames }
  let (o, fails) := obs.foldl (fun (acc : Oracle × List String) ob =>
    let (o', f) := onObs acc.1 op cmd st ob
    (o', acc.2 ++ f)) (o, [])
  -- state checks on the snapshot after the step
  let fails := fails ++ (dupes cmd).map fun x => s!"C08:two-live-commands {x}"
  let fails := fails ++ st.filterMap fun (n, (s, _)) =>
    if isTerminal s && cmd.contains n then some s!"C09:terminal-while-alive {n} {s}" else none
  let fails := fails ++ st.filterMap fun (n, (_, _, _, h)) =>
    if h == "R" && !(o.readySince.contains n) then some s!"C10:ready-without-success {n}" else none
  -- C10: the stop path stops the probers before it signals the command; until they are started again
  -- no probe result may touch the reported readiness
  let fails := fails ++ (match op with
    | ["s", "probe", x, _] =>
      let before := (lookupD (parseSt o.lastSt) x ("", 0, 0, "")).2.2.2
      let after := (lookupD st x ("", 0, 0, "")).2.2.2
      if o.probersDown.contains x && before != after then [s!"C10:probe-result-applied-after-stop {x} {before}->{after}"] else []
    | _ => [])
  let quiescent := !(th.contains '*') && cmd.isEmpty
  let soa := o.startOnActive.filter fun (ix : String × String) =>
    isRunningSt (lookupD o.status ix.2 "") && cmd.contains ix.2
  let o := { o with startOnActive := soa }
  -- requests on a name that overlap while its signalled command waits for the kill timeout
  let tpc := o.termPending.foldl (fun l x =>
    let n := (o.calls.filter fun (c : String × List String) => !o.retd.contains c.1 &&
      (c.2 == ["stop", x] || c.2 == ["restart", x] || c.2 == ["start", x] || c.2 == ["shutdown"])).length
    if n > 1 then addS l x else l) (o.tpConcurrent.filter fun x => o.termPending.contains x)
  let o := { o with tpConcurrent := tpc }
  let sor := o.startOnReg.filter fun (ix : String × String) =>
    run.contains ix.2 && ((csv th).filter fun (t : String) => procNameOfKey ((t.splitOn "@").headD "") == some ix.2).length == 1
  let o := { o with startOnReg := sor }
  let o := { o with prevCmd := cmd, prevRun := run, lastTh := th, lastSt := field impl "st", lastCmd := cmd,
                    quiescent := quiescent, steps := o.steps + 1 }
  (o, verdictOf (fails.map (tagFail o)))

/-- Judgement of the final state (`end quiescent`: nothing enabled, nothing alive, no timer). -/
def finish (o : Oracle) (reason : String) : Oracle × String :=
  -- "stalled": no thread is runnable, a shutdown is in progress and commands are still alive: the
  -- shutdown call waits for commands that nobody is going to signal
  if reason == "stalled" then
    let unsignalled := o.lastCmd.filter (!o.sdSignalled.contains ·)
    (if o.shutdownBegun && !(o.lastTh.contains '*') && !unsignalled.isEmpty then
      (o, verdictOf ([s!"C03:shutdown-stalled-on-live-command {",".intercalate unsignalled}"].map (tagFail o)))
     else (o, "ok"))
  else
  if reason != "quiescent" || !o.quiescent then (o, "ok") else
  let st := parseSt o.lastSt
  let ths := csv o.lastTh
  -- threads that can never run again
  let blocked := ths.filterMap fun t => match t.splitOn "@" with
    | [key, label] =>
      if key.startsWith "proc:" && label.startsWith "wait:" then
        some s!"C04:waits-forever {key}@{label}; C05:dependent-neither-launched-nor-skipped {key}@{label}"
      else if key.startsWith "api:0#" then none
      else if key.startsWith "api:" then some s!"C20:call-blocked-forever {key}@{label}; C03:shutdown-or-call-never-returns {key}@{label}"
      else if key.startsWith "proc:" then some s!"C04:process-thread-blocked-forever {key}@{label}"
      else none
    | _ => none
  let runStuck := if ths.any (·.startsWith "api:0#") then
      [s!"C04:run-never-returns {(ths.filter (·.startsWith "api:0#")).headD ""}"] else []
  let blockedProcs := ths.filterMap fun t => if t.startsWith "proc:" then some (((t.splitOn "#").headD "").drop 5).toString else none
  let rest := st.filterMap fun (n, (s, ex, rs, _)) =>
    let d := decl o n
    let transient := (s == "Pending" || s == "Launching" || s == "Restarting" || s == "Terminating") && !(blockedProcs.contains n)
        && !(d.flags.contains 'x')
    let f1 := if transient && (o.seenSeq.any (·.1 = n)) then [s!"C09:transient-at-rest {n} {s}"] else []
    let f2 := if s == "Completed" && o.launchedEver.contains n && ex ≠ lookupD o.lastCode n 0 then
        [s!"C09:exit-code-mismatch {n} reported={ex} last-command={lookupD o.lastCode n 0}"] else []
    let f3 := if s == "Skipped" && ex = 0 then [s!"C09:skipped-exit0 {n}", s!"C05:skipped-exit0 {n}"] else []
    let f4 := if s == "Error" && ex = 0 then [s!"C09:error-exit0 {n}"] else []
    let f5 := if !(o.everStopped.contains n) && !(o.shutdownReturned) && rs ≠ lookupD o.relaunches n 0 && !(o.runAtShutdown.contains n) then
        [s!"C02:restart-count-mismatch {n} reported={rs} relaunches={lookupD o.relaunches n 0}"] else []
    let code := lookupD o.lastCode n 0
    let wanted := (d.policy == "always" || (d.policy == "on_failure" && code ≠ 0)) && (d.max == 0 || rs < d.max)
    let f6 := if o.fatalPending.contains n && wanted && !(o.everStopped.contains n)
        && !(o.runAtShutdown.contains n) && isTerminal s then [s!"C10:no-restart-after-fatal {n} {d.policy}"] else []
    some (f1 ++ f2 ++ f3 ++ f4 ++ f5 ++ f6)
  let fails := (blocked.map fun b => b.splitOn "; ").flatten ++ runStuck ++ rest.flatten
  (o, verdictOf (fails.map (tagFail o)))

end PC.Spec.Trace
