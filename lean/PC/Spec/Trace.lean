/-! Trace oracles: the properties stated on the *implementation's* observation stream
    (independent of the model). Filled in per property; `feed` returns the verdict for one step. -/
namespace PC.Spec.Trace

structure Oracle where
  steps : Nat := 0
deriving Repr, Inhabited

def declare (o : Oracle) (_name _pol _mx _fl _deps : String) : Oracle := o

def feed (o : Oracle) (_impl : String) (_obs : List String) : Oracle × String :=
  ({ o with steps := o.steps + 1 }, "ok")

def finish (o : Oracle) (_impl : String) : Oracle × String := (o, "ok")

end PC.Spec.Trace
