import PC.Model.ProbeTypes
/-! Specifications (oracles) of the small pure decision functions. Core only; used both in the
    theorem statements (PC/Props) and by the driver on the implementation's own results. -/
namespace PC.Spec

/-- C02: what the availability policy demands after an exit. -/
def restartWanted (policy : String) (maxRestarts restarts code : Int) (stopped : Bool) : Prop :=
  stopped = false ∧
  (policy = "always" ∨ (policy = "on_failure" ∧ code ≠ 0)) ∧
  (maxRestarts = 0 ∨ restarts < maxRestarts)

instance (policy : String) (m r c : Int) (s : Bool) : Decidable (restartWanted policy m r c s) := by
  unfold restartWanted; infer_instance

/-- C10: legal effective probe parameters. -/
def Legal (p : PC.Probe.ProbeNums) : Prop :=
  0 ≤ p.initialDelay ∧ 1 ≤ p.periodSeconds ∧ 1 ≤ p.timeoutSeconds ∧
  1 ≤ p.successThreshold ∧ 1 ≤ p.failureThreshold

instance (p : PC.Probe.ProbeNums) : Decidable (Legal p) := by unfold Legal; infer_instance

def portLegal (n : Int) : Prop := n = 0 ∨ (1 ≤ n ∧ n ≤ 65535)
instance (n : Int) : Decidable (portLegal n) := by unfold portLegal; infer_instance

/-- C06: the signal actually sent: the configured one when within 1..31, SIGTERM (15) otherwise. -/
def effectiveSignal (sig : Int) : Int := if 1 ≤ sig ∧ sig ≤ 31 then sig else 15

end PC.Spec
