import PC.Model.Sup
/-! Executable trace predicates over the model (used in witness theorems). Core only. -/
namespace PC.Sup

/-- run a list of choices (default hints), collecting all observations in order -/
def runTrace (s : Sys) : List Choice → Sys × List Obs
  | [] => (s, [])
  | c :: cs =>
    let s' := step s c {}
    let (sf, os) := runTrace s' cs
    (sf, s'.obs ++ os)

def isLaunch : Obs → Bool | .launch _ => true | _ => false
def isSdReturned : Obs → Bool | .sdReturned => true | _ => false
def isStopRet (id : Nat) : Obs → Bool | .ret i r => i == id && r == "ok" | _ => false

/-- some `launch` occurs after the first `sdReturned` -/
def launchAfterShutdown (obs : List Obs) : Bool :=
  ((obs.dropWhile (fun o => !isSdReturned o)).drop 1).any isLaunch

/-- some `launch` occurs after API call `id` returned ok -/
def launchAfterRet (id : Nat) (obs : List Obs) : Bool :=
  ((obs.dropWhile (fun o => !isStopRet id o)).drop 1).any isLaunch

def aliveCount (s : Sys) (n : Name) : Nat := (s.insts.filter fun x => x.name = n ∧ x.cmd = .alive).length

/-- no thread is runnable -/
def quiescent (s : Sys) : Bool := (List.range s.threads.length).all fun u => !enabledThr s u

def noStartCalls (tr : List Choice) : Bool :=
  tr.all fun c => match c with
    | .call _ (.start _) => false
    | .call _ (.restart _) => false
    | _ => true

end PC.Sup
