import PC.Model.LogFile
/-! C11: the expected log holds every line of every attempt, exactly once. -/
namespace PC.Props.LogFile
open PC.LogFile

theorem mem_attemptLines (k count : Nat) (last : Bool) (a i : Nat) :
    (a, i) ∈ attemptLines k count last ↔ a = k ∧ ((1 ≤ i ∧ i ≤ count) ∨ (i = 0 ∧ last = true)) := by
  unfold attemptLines
  simp only [List.mem_append, List.mem_map, List.mem_range, Prod.mk.injEq]
  constructor
  · rintro (⟨j, hj, rfl, rfl⟩ | h)
    · exact ⟨rfl, Or.inl ⟨by omega, by omega⟩⟩
    · cases last <;> simp at h
      exact ⟨h.1, Or.inr ⟨h.2, rfl⟩⟩
  · rintro ⟨rfl, (⟨h1, h2⟩ | ⟨rfl, hl⟩)⟩
    · exact Or.inl ⟨i - 1, by omega, rfl, by omega⟩
    · right; simp [hl]

/-- **every line of every attempt is expected** (and nothing else) -/
theorem mem_expected (n count : Nat) (last : Bool) (a i : Nat) :
    (a, i) ∈ expected n count last ↔ (1 ≤ a ∧ a ≤ n) ∧ ((1 ≤ i ∧ i ≤ count) ∨ (i = 0 ∧ last = true)) := by
  unfold expected
  simp only [List.mem_flatMap, List.mem_range, mem_attemptLines]
  constructor
  · rintro ⟨k, hk, rfl, h⟩; exact ⟨⟨by omega, by omega⟩, h⟩
  · rintro ⟨⟨h1, h2⟩, h⟩; exact ⟨a - 1, by omega, by omega, h⟩

theorem nodup_attemptLines (k count : Nat) (last : Bool) : (attemptLines k count last).Nodup := by
  unfold attemptLines
  rw [List.nodup_append]
  refine ⟨?_, ?_, ?_⟩
  · unfold List.Nodup
    rw [List.pairwise_map]
    exact List.Pairwise.imp (fun h e => h (by simpa using e)) List.nodup_range
  · cases last <;> simp
  · intro x hx y hy
    cases last with
    | false => simp at hy
    | true =>
      simp only [↓reduceIte, List.mem_singleton] at hy
      subst hy
      simp only [List.mem_map, List.mem_range] at hx
      obtain ⟨j, _, rfl⟩ := hx
      intro e; simp at e

/-- **exactly once**: no line is expected twice -/
theorem nodup_expected (n count : Nat) (last : Bool) : (expected n count last).Nodup := by
  unfold expected List.Nodup
  rw [List.pairwise_flatMap]
  refine ⟨fun k _ => nodup_attemptLines _ _ _, ?_⟩
  refine List.Pairwise.imp ?_ List.nodup_range
  intro a b hab x hx y hy e
  subst e
  obtain ⟨xa, xi⟩ := x
  rw [mem_attemptLines] at hx hy
  exact hab (by omega)

/-- a process that is never restarted makes one attempt; `max_restarts` bounds the attempts -/
example : attempts "no" 0 [3] = 1 ∧ attempts "on_failure" 2 [1, 1, 1, 1] = 3 ∧ attempts "on_failure" 5 [1, 0] = 2 := by decide

end PC.Props.LogFile
