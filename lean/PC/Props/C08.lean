import PC.Proofs.SupArms
import PC.Spec.SupSpec
import PC.Proofs.SupOne
/-! C08 — manual start/stop/restart, at most one live instance (supervisor model). -/
namespace PC.Props.C08
open PC.Sup

/-- A start request on a name with a registered instance fails and changes nothing but the
    caller's own thread record and the reply. -/
theorem start_when_registered_fails (s : Sys) (t : Tid) (h : Hints) (id : Nat) (n : Name) (i : IId)
    (hk : (s.thr t).kind = .api id (.start n)) (hr : s.running.getD n none = some i) :
    apiFirst s t h (.start n) = (s.emit (.ret id "already-running")).setPc t .finished := by
  simp only [apiFirst, hr, apiRet, hk]

/-- Requests naming an unknown process fail with "no such process" and change nothing else. -/
theorem stop_unknown (s : Sys) (t : Tid) (h : Hints) (id : Nat) (n : Name) (hk : (s.thr t).kind = .api id (.stop n))
    (hn : s.cfgs.length ≤ n) (hr : s.running.getD n none = none) :
    apiFirst s t h (.stop n) = (s.emit (.ret id "no-such")).setPc t .finished := by
  have : ¬ n < s.cfgs.length := Nat.not_lt.mpr hn
  simp only [apiFirst, hr, this, apiRet, hk, ↓reduceIte]

theorem start_unknown (s : Sys) (t : Tid) (id : Nat) (n : Name) (hk : (s.thr t).kind = .api id (.start n))
    (hn : s.cfgs.length ≤ n) :
    armSpawnOrLock s t n = (s.emit (.ret id "no-such")).setPc t .finished := by
  have : ¬ n < s.cfgs.length := Nat.not_lt.mpr hn
  simp only [armSpawnOrLock, this, apiRet, hk, ↓reduceIte]

theorem restart_unknown (s : Sys) (t : Tid) (h : Hints) (id : Nat) (n : Name) (hk : (s.thr t).kind = .api id (.restart n))
    (hn : s.cfgs.length ≤ n) (hr : s.running.getD n none = none) :
    apiFirst s t h (.restart n) = (s.emit (.ret id "no-such")).setPc t .finished := by
  have : ¬ n < s.cfgs.length := Nat.not_lt.mpr hn
  simp only [apiFirst, hr, this, apiRet, hk, ↓reduceIte]

/-- A restart request on a configured process that is not registered goes straight to the start
    (nothing to stop, no back-off to sit out): it only moves the caller to the registering label. -/
theorem restart_when_not_registered (s : Sys) (t : Tid) (h : Hints) (n : Name)
    (hn : n < s.cfgs.length) (hr : s.running.getD n none = none) :
    apiFirst s t h (.restart n) = s.setPc t (.lockSpawn n) := by
  simp only [apiFirst, hr, hn, ↓reduceIte]

/-- A stop request marks the instance do-not-restart before anything else. -/
theorem stop_sets_flag (s : Sys) (t : Tid) (h : Hints) (n : Name) (i : IId) (hr : s.running.getD n none = some i)
    (hi : i < s.insts.length) :
    ((apiFirst s t h (.stop n)).inst i).isStopped = true := by
  simp only [apiFirst, hr, gotoStop, setPc_inst]
  rw [inst_setInst _ _ _ _ (by simpa [Sys.setInst] using hi), inst_setInst _ _ _ _ hi]
  simp

/-! ### The full statement fails (R1): restart of a process that outlives the back-off -/

/-- Full statement: at no time are two commands of the same replica alive at once. -/
def C08_single_full : Prop :=
  ∀ (g : Gran) (cfgs : List Cfg) (tr : List Choice) (n : Name), aliveCount (runTrace (init g false cfgs) tr).1 n ≤ 1

/-- R1: the process ignores the stop signal; `RestartProcess` stops it (in vain), sleeps the back-off
    and starts a new instance, whose command is launched while the old one is still alive. -/
def r1 : List Choice := [.call 0 .runMain, .run 0, .run 1, .call 1 (.restart 0), .run 2, .run 2, .run 3]

theorem C08_single_full_fails : ¬ C08_single_full := by
  intro h
  have := h .coarse [{ onSignal := none }] r1 0
  revert this
  decide

theorem r1_two_alive : aliveCount (runTrace (init .coarse false [{ onSignal := none }]) r1).1 0 = 2 := by decide

/-- the same restart on a process that dies on the signal before the back-off ends: exactly one new
    launch, after the old command exited -/
example : (runTrace (init .coarse false [{}])
    [.call 0 .runMain, .run 0, .run 1, .call 1 (.restart 0), .run 2, .run 1, .run 2, .run 3]).2.filter isLaunch
      = [.launch 0, .launch 0] := by decide


/-! ### At most one live command per replica, globally (outside the overlap finding R1)

    `PC.Sup.ReachG`: every state reachable by thread steps that overwrite no registration
    (`KeepsRegs`), by external events in any order and with any map orders. The restriction is exactly
    what R1 violates: `RestartProcess` (or a second concurrent `StartProcess`) registering a new
    instance while the previous one is still registered. -/

/-- **At no time are two commands of the same process replica alive at once** - in every state
    reachable without overwriting a registration: any processes, any schedule at the finest
    granularity, any sequence of exits, signals' effects, probe results, output, timeouts and
    requests (start / stop / restart / shutdown, sequential or concurrent). -/
theorem one_live_command (gr : Gran) (o : Bool) (cfgs : List Cfg) {s : Sys} (hr : ReachG (init gr o cfgs) s) (n : Name) :
    aliveCount s n ≤ 1 := by
  have g := reachG_one gr o cfgs hr
  unfold aliveCount
  apply filter_length_le_one
  intro i j hi hj pi pj
  simp only [decide_eq_true_eq] at pi pj
  have ei : s.inst i = s.insts[i] := by unfold Sys.inst; simp [List.getD_eq_getElem?_getD, List.getElem?_eq_getElem hi]
  have ej : s.inst j = s.insts[j] := by unfold Sys.inst; simp [List.getD_eq_getElem?_getD, List.getElem?_eq_getElem hj]
  exact one_alive_unique g i j (by rw [ei]; exact pi.2) (by rw [ej]; exact pj.2)
    (by unfold Sys.nameOf; rw [ei, ej, pi.1, pj.1])

/-- **The only steps that can overwrite a registration are the registering steps of request
    threads** (`StartProcess` after its check, `RestartProcess` after its sleep, `Run()`): every step
    of a process goroutine, of a stop or shutdown in progress, of a waiter or of a probe callback
    keeps the registrations, whatever the state. So the hypothesis of `one_live_command` can only be
    broken where the overlap finding R1 lives. -/
theorem overlap_only_at_registration (s : Sys) (t : Tid) (h : Hints)
    (hf : ¬ KeepsRegs s (stepThread s t h) t) :
    ∃ id op, (s.thr t).kind = .api id op ∧ specialApi op (s.thr t).pc = true :=
  guard_fails_only_when_registering s t h hf

/-- the guard, executable: every registration is kept (or removed by its own goroutine), every
    process goroutine created is registered -/
def keepsRegsB (s s' : Sys) (t : Tid) : Bool :=
  ((List.range s.running.length).all fun n =>
    match s.running.getD n none with
    | none => true
    | some i => s'.running.getD n none == some i || (s'.running.getD n none == none && (s.thr t).kind == .proc i)) &&
  ((List.range s'.threads.length).all fun u =>
    !decide (s.threads.length ≤ u) ||
      match (s'.thr u).kind with
      | .proc j => s'.running.getD (s'.nameOf j) none == some j
      | _ => true)

theorem keepsRegsB_sound {s s' : Sys} {t : Tid} (h : keepsRegsB s s' t = true) : KeepsRegs s s' t := by
  unfold keepsRegsB at h
  simp only [Bool.and_eq_true, List.all_eq_true, List.mem_range] at h
  obtain ⟨h1, h2⟩ := h
  constructor
  · intro n i hn
    have hl : n < s.running.length := by
      apply Classical.byContradiction
      intro hge
      simp [List.getD_eq_getElem?_getD, List.getElem?_eq_none (Nat.le_of_not_lt hge)] at hn
    have := h1 n hl
    rw [hn] at this
    simp only [Bool.or_eq_true, Bool.and_eq_true, beq_iff_eq] at this
    exact this
  · intro u j hu hu' hk
    have := h2 u hu'
    simp only [hu, decide_true, Bool.not_true, Bool.false_or, hk, beq_iff_eq] at this
    exact this

/-- `runThread` with the guard checked at every thread step -/
def runThreadG (s : Sys) (t : Tid) (h : Hints) : Nat → Option Sys
  | 0 => some s
  | fuel + 1 =>
    let s' := stepThread s t h
    if keepsRegsB s s' t then
      if s'.crashed then some s' else if mustPark s' t then some s' else runThreadG s' t h fuel
    else none

/-- `step` with the guard checked at every thread step -/
def stepG (s : Sys) (c : Choice) (h : Hints) : Option Sys :=
  match c with
  | .run t =>
    if enabledThr { s with obs := [] } t ∧ t < s.threads.length then runThreadG { s with obs := [] } t h fuelPerStep
    else some (step s c h)
  | c => some (step s c h)

def runG (s : Sys) : List Choice → Option Sys
  | [] => some s
  | c :: cs => match stepG s c {} with
    | some s' => runG s' cs
    | none => none

theorem runThreadG_reach {s0 s s' : Sys} (t : Tid) (h : Hints) (fuel : Nat) (hr : ReachG s0 s) (ht : t < s.threads.length)
    (hen : enabledThr s t = true ∨ mustPark s t = false)
    (e : runThreadG s t h fuel = some s') : ReachG s0 s' ∧ s' = runThread s t h fuel := by
  induction fuel generalizing s with
  | zero => simp only [runThreadG, Option.some.injEq] at e; subst e; exact ⟨hr, rfl⟩
  | succ n ih =>
    unfold runThreadG at e
    unfold runThread
    simp only at e ⊢
    split at e
    · rename_i hk
      have hr' := ReachG.thread t h hr ht hen (keepsRegsB_sound hk)
      split at e
      · rename_i hc; simp only [Option.some.injEq] at e; subst e; simp [hc]; exact hr'
      · rename_i hc
        split at e
        · rename_i hm; simp only [Option.some.injEq] at e; subst e; simp [hc, hm]; exact hr'
        · rename_i hm
          have ht' : t < (stepThread s t h).threads.length := Nat.lt_of_lt_of_le ht (stepThread_le s t h).tlen
          obtain ⟨a, b⟩ := ih hr' ht' (Or.inr (by simpa using hm)) e
          simp [hc, hm]
          exact ⟨a, b⟩
    · cases e

theorem stepG_reach {s0 s s' : Sys} (c : Choice) (h : Hints) (hr : ReachG s0 s) (e : stepG s c h = some s') :
    ReachG s0 s' ∧ s' = step s c h := by
  have hext : ∀ c', (∀ t, c' ≠ .run t) → ReachG s0 (step s c' h) := fun c' hc => ReachG.ext c' h hr hc
  cases c with
  | run t =>
    simp only [stepG] at e
    split at e
    · rename_i hen
      obtain ⟨a, b⟩ := runThreadG_reach t h fuelPerStep (ReachG.clear hr) hen.2 (Or.inl hen.1) e
      refine ⟨a, ?_⟩
      rw [b]; unfold step; simp only; rw [if_pos hen.1]
    · rename_i hen
      simp only [Option.some.injEq] at e; subst e
      refine ⟨?_, rfl⟩
      have hne : ¬ enabledThr { s with obs := [] } t = true := by
        intro he
        apply hen
        refine ⟨he, ?_⟩
        apply Classical.byContradiction
        intro hge
        have : ({ s with obs := [] } : Sys).thr t = { kind := .waiter 0, pc := .finished } := by
          unfold Sys.thr
          simp [List.getD_eq_getElem?_getD, List.getElem?_eq_none (Nat.le_of_not_lt hge)]
        unfold enabledThr at he
        simp [this] at he
      have : step s (.run t) h = { s with obs := [] } := by unfold step; simp only; rw [if_neg hne]
      rw [this]; exact ReachG.clear hr
  | exit n code => simp only [stepG, Option.some.injEq] at e; subst e; exact ⟨hext _ (by intro t e; cases e), rfl⟩
  | line n r => simp only [stepG, Option.some.injEq] at e; subst e; exact ⟨hext _ (by intro t e; cases e), rfl⟩
  | probe n ok => simp only [stepG, Option.some.injEq] at e; subst e; exact ⟨hext _ (by intro t e; cases e), rfl⟩
  | probeFatal id n => simp only [stepG, Option.some.injEq] at e; subst e; exact ⟨hext _ (by intro t e; cases e), rfl⟩
  | killTimeout n => simp only [stepG, Option.some.injEq] at e; subst e; exact ⟨hext _ (by intro t e; cases e), rfl⟩
  | call id op => simp only [stepG, Option.some.injEq] at e; subst e; exact ⟨hext _ (by intro t e; cases e), rfl⟩

theorem runG_reach {s0 s s' : Sys} (tr : List Choice) (hr : ReachG s0 s) (e : runG s tr = some s') :
    ReachG s0 s' ∧ s' = (runTrace s tr).1 := by
  induction tr generalizing s with
  | nil => simp only [runG, Option.some.injEq] at e; subst e; exact ⟨hr, rfl⟩
  | cons c cs ih =>
    unfold runG at e
    split at e
    · rename_i s1 h1
      obtain ⟨a, b⟩ := stepG_reach c {} hr h1
      obtain ⟨a2, b2⟩ := ih a e
      refine ⟨a2, ?_⟩
      rw [b2, b]; rfl
    · cases e

/-- **Every execution (whole steps, either granularity) that passes the guard - it is the very
    execution of the model, `runG_reach` - never has two live commands of one replica.** -/
theorem guarded_run_one_live (gr : Gran) (o : Bool) (cfgs : List Cfg) (tr : List Choice) (s : Sys)
    (e : runG (init gr o cfgs) tr = some s) (n : Name) :
    s = (runTrace (init gr o cfgs) tr).1 ∧ aliveCount s n ≤ 1 :=
  ⟨(runG_reach tr ReachG.init e).2, one_live_command gr o cfgs (runG_reach tr ReachG.init e).1 n⟩

-- the guard is what R1 breaks: the restart of a process that outlives the back-off is rejected ...
set_option maxRecDepth 4000 in
example : runG (init .coarse false [{ onSignal := none }]) r1 = none := by decide
-- ... while the same restart of a process that dies on the signal passes (start, stop, new instance, its launch),
set_option maxRecDepth 4000 in
example : (runG (init .coarse false [{}])
    [.call 0 .runMain, .run 0, .run 1, .call 1 (.restart 0), .run 2, .run 1, .run 2, .run 3]).isSome = true := by decide
-- and so does a fine-grained run with a stop, a second start and an exit under `always`
set_option maxRecDepth 8000 in
example : (runG (init .fine false [{ policy := .always }, { deps := [(0, .started)] }])
    [.call 0 .runMain, .run 0, .run 1, .run 1, .run 1, .run 1, .run 2, .run 2, .exit 0 1, .run 1, .run 1, .run 1,
     .call 1 (.stop 0), .run 3, .run 3, .run 3, .run 1, .run 1, .run 1, .run 1]).isSome = true := by decide

end PC.Props.C08
