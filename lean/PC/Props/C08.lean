import PC.Proofs.SupArms
import PC.Spec.SupSpec
/-! C08 — manual start/stop/restart, at most one live instance (supervisor model). -/
namespace PC.Props.C08
open PC.Sup

/-- A start request on a name with a registered instance fails and changes nothing but the
    caller's own thread record and the reply. -/
theorem start_when_registered_fails (s : Sys) (t : Tid) (h : Hints) (id : Nat) (n : Name) (i : IId)
    (hk : (s.thr t).kind = .api id (.start n)) (hr : s.running.getD n none = some i) :
    apiFirst s t h (.start n) = (s.emit (.ret id "already-running")).setPc t .finished := by
  simp only [apiFirst, hr, apiRet, hk]

/-- Requests naming an unknown process fail with "no such process" and change nothing else. -/
theorem stop_unknown (s : Sys) (t : Tid) (h : Hints) (id : Nat) (n : Name) (hk : (s.thr t).kind = .api id (.stop n))
    (hn : s.cfgs.length ≤ n) (hr : s.running.getD n none = none) :
    apiFirst s t h (.stop n) = (s.emit (.ret id "no-such")).setPc t .finished := by
  have : ¬ n < s.cfgs.length := Nat.not_lt.mpr hn
  simp only [apiFirst, hr, this, apiRet, hk, ↓reduceIte]

theorem start_unknown (s : Sys) (t : Tid) (id : Nat) (n : Name) (hk : (s.thr t).kind = .api id (.start n))
    (hn : s.cfgs.length ≤ n) :
    armSpawnOrLock s t n = (s.emit (.ret id "no-such")).setPc t .finished := by
  have : ¬ n < s.cfgs.length := Nat.not_lt.mpr hn
  simp only [armSpawnOrLock, this, apiRet, hk, ↓reduceIte]

/-- A stop request marks the instance do-not-restart before anything else. -/
theorem stop_sets_flag (s : Sys) (t : Tid) (h : Hints) (n : Name) (i : IId) (hr : s.running.getD n none = some i)
    (hi : i < s.insts.length) :
    ((apiFirst s t h (.stop n)).inst i).isStopped = true := by
  simp only [apiFirst, hr, gotoStop, setPc_inst]
  rw [inst_setInst _ _ _ _ (by simpa [Sys.setInst] using hi), inst_setInst _ _ _ _ hi]
  simp

/-! ### The full statement fails (R1): restart of a process that outlives the back-off -/

/-- Full statement: at no time are two commands of the same replica alive at once. -/
def C08_single_full : Prop :=
  ∀ (g : Gran) (cfgs : List Cfg) (tr : List Choice) (n : Name), aliveCount (runTrace (init g false cfgs) tr).1 n ≤ 1

/-- R1: the process ignores the stop signal; `RestartProcess` stops it (in vain), sleeps the back-off
    and starts a new instance, whose command is launched while the old one is still alive. -/
def r1 : List Choice := [.call 0 .runMain, .run 0, .run 1, .call 1 (.restart 0), .run 2, .run 2, .run 3]

theorem C08_single_full_fails : ¬ C08_single_full := by
  intro h
  have := h .coarse [{ onSignal := none }] r1 0
  revert this
  decide

theorem r1_two_alive : aliveCount (runTrace (init .coarse false [{ onSignal := none }]) r1).1 0 = 2 := by decide

/-- the same restart on a process that dies on the signal before the back-off ends: exactly one new
    launch, after the old command exited -/
example : (runTrace (init .coarse false [{}])
    [.call 0 .runMain, .run 0, .run 1, .call 1 (.restart 0), .run 2, .run 1, .run 2, .run 3]).2.filter isLaunch
      = [.launch 0, .launch 0] := by decide

end PC.Props.C08
