import PC.Model.Env
import PC.Tie.Env
import PC.Proofs.EnvSegments
/-! C17 — environment: expansion / escaping at load, precedence and injected variables at launch. -/
namespace PC.Props.C17
open PC.Go PC.Env

/-! ### launch environment -/

theorem lookup_append (a b : List (String × String)) (k : String) :
    envLookup (a ++ b) k = (envLookup b k).orElse fun _ => envLookup a k := by
  unfold envLookup
  rw [List.reverse_append, List.find?_append]
  cases h : b.reverse.find? (·.1 = k) <;> simp [h]

/-- **Injected variables**: whatever the inherited, global and per-process layers define, the
    command sees its own process name and replica number. -/
theorem injected (name : String) (replica : Nat) (inh glob own : List (String × String)) :
    envLookup (processEnv name replica inh glob own) "PC_PROC_NAME" = some name ∧
    envLookup (processEnv name replica inh glob own) "PC_REPLICA_NUM" = some (toString replica) := by
  unfold processEnv
  simp only [List.nil_append]
  constructor <;> (rw [lookup_append]; simp [envLookup])

/-- **Precedence**: for any other key, the per-process value wins over the global one, which wins
    over the inherited one. -/
theorem precedence (name : String) (replica : Nat) (inh glob own : List (String × String)) (k : String)
    (hk1 : k ≠ "PC_PROC_NAME") (hk2 : k ≠ "PC_REPLICA_NUM") :
    envLookup (processEnv name replica inh glob own) k =
      ((envLookup own k).orElse fun _ => (envLookup glob k).orElse fun _ => envLookup inh k) := by
  unfold processEnv
  simp only [List.nil_append]
  rw [lookup_append, lookup_append, lookup_append]
  have : envLookup [("PC_PROC_NAME", name), ("PC_REPLICA_NUM", toString replica)] k = none := by
    simp [envLookup, List.find?, hk1.symm, hk2.symm]
  rw [this]
  cases envLookup own k <;> cases envLookup glob k <;> simp

/-! ### load-time expansion -/

private theorem expandF_lit (m : List Char → List Char) (s : List Char) (fuel : Nat)
    (h : ∀ c ∈ s, c ≠ '$') (hf : s.length ≤ fuel) : expandF m fuel s = s := by
  induction s generalizing fuel with
  | nil => cases fuel <;> rfl
  | cons c s ih =>
    cases fuel with
    | zero => simp at hf
    | succ f =>
      have hc : (c == '$') = false := by simpa using h c (by simp)
      simp only [expandF, hc, Bool.false_and, Bool.false_eq_true, ↓reduceIte]
      rw [ih f (fun x hx => h x (by simp [hx])) (by simpa using hf)]

/-- text without `$` is left alone by the expansion -/
theorem expand_literal (m : List Char → List Char) (s : List Char) (h : ∀ c ∈ s, c ≠ '$') :
    expand m s = s := expandF_lit m s _ h (Nat.le_succ _)

/-- nothing is expanded when no variable syntax and no sentinel occurs: the load is the identity -/
theorem load_plain (m : List Char → List Char) (s : List Char) (h : ∀ c ∈ s, c ≠ '$' ∧ c ≠ '#') :
    loadText m s = s := by
  have hd : ∀ c ∈ s, c ≠ '$' := fun c hc => (h c hc).1
  have r1 : ∀ (old new : List Char) (fuel : Nat) (x : List Char), (∀ c ∈ x, c ≠ '$' ∧ c ≠ '#') →
      (old.head? = some '$' ∨ old.head? = some '#') → replaceAllF old new fuel x = x := by
    intro old new fuel x
    induction x generalizing fuel with
    | nil => intro _ _; cases fuel <;> rfl
    | cons c x ih =>
      intro hx ho
      cases fuel with
      | zero => rfl
      | succ f =>
        have hc := hx c (by simp)
        have hp : old.isPrefixOf (c :: x) = false := by
          cases old with
          | nil => simp at ho
          | cons o os =>
            have : o ≠ c := by
              rcases ho with ho | ho <;> simp at ho <;> subst ho
              · exact fun e => hc.1 e.symm
              · exact fun e => hc.2 e.symm
            simp [List.isPrefixOf, this]
        simp only [replaceAllF, hp, Bool.false_eq_true, ↓reduceIte]
        rw [ih f (fun y hy => hx y (by simp [hy])) ho]
  unfold loadText
  simp only
  rw [show replaceAll s "$$".toList envEscaped = s from r1 _ _ _ _ h (Or.inl rfl)]
  rw [expand_literal m s hd]
  exact r1 _ _ _ _ h (Or.inr rfl)

example : expand (fun n => if n = "HOME".toList then "/root".toList else []) "a$HOME/x ${HOME}!$$ $ ${".toList
    = "a/root/x /root! $ ".toList := by decide
example : loadText (fun n => if n = "V".toList then "1".toList else []) "x=$V y=$$V z=${V}".toList
    = "x=1 y=$V z=1".toList := by decide

/-! ### configuration text built from segments -/

/-- **Load-time expansion, for every text built from literal pieces, `$NAME`, `${NAME}` and `$$`**:
    the three rewrites of `loadProjectFromFile` (regenerated from the source,
    `PC.Tie.Env.loadText_eq`) replace every `$NAME` and `${NAME}` by the value of `NAME` in the
    process-compose environment, every `$$` by a literal `$`, and leave the literal text (free of
    `$` and `#`) as it is — for every well-formed list of segments (names made of identifier
    characters, a bare `$NAME` not starting with a digit and not directly followed by literal text
    that would prolong it) and every environment whose values are free of `#`. -/
theorem expand_segments (m : List Char → List Char) (hm : PC.Env.CleanEnv m) (segs : List PC.Env.Seg)
    (hw : PC.Env.WFL segs) : PC.Env.loadText m (PC.Env.render m 0 segs) = PC.Env.eval m segs :=
  PC.Env.loadText_segments m hm segs hw

/-- the hypotheses are met by a non-trivial text: `run ${A}-$$HOME $B1.$A` under A = "x y", B1 = "" -/
example :
    let m : List Char → List Char := fun x => if x = "A".toList then "x y".toList else []
    let segs : List PC.Env.Seg := [.lit "run ".toList, .braced "A".toList, .lit "-".toList, .dollar, .lit "HOME ".toList,
      .var "B1".toList, .lit ".".toList, .var "A".toList]
    PC.Env.render m 0 segs = "run ${A}-$$HOME $B1.$A".toList ∧
    PC.Env.loadText m (PC.Env.render m 0 segs) = "run x y-$HOME .x y".toList ∧ PC.Env.eval m segs = "run x y-$HOME .x y".toList := by
  decide

/-- … and they are well-formed (decided by the executable form of the conditions) -/
example : PC.Env.WFL [.lit "run ".toList, .braced "A".toList, .lit "-".toList, .dollar, .lit "HOME ".toList,
    .var "B1".toList, .lit ".".toList, .var "A".toList] :=
  PC.Env.wflB_sound _ (by decide)

/-- a bare `$NAME` directly followed by an identifier character is outside the theorem, and rightly:
    the name is then a different one -/
example : PC.Env.wflB [.var "A".toList, .lit "b".toList] = false := by decide

end PC.Props.C17
