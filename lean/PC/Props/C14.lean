import PC.Model.Update
import PC.Tie.Update
/-! C14 — live project update: classification and the launch-relevant comparison. -/
namespace PC.Props.C14
open PC.Update

/-- two configurations cfgEqual equal iff they agree on every compared field -/
theorem compare_iff (a b : Config) : cfgEqual a b = true ↔ ∀ f ∈ comparedFields, fieldOf a f = fieldOf b f := by
  simp [cfgEqual, List.all_eq_true]

/-- every launch-relevant item of the property statement is a compared field -/
theorem launch_relevant_compared :
    ["Executable", "Args", "Entrypoint", "Command", "Environment", "WorkingDir", "LivenessProbe", "ReadinessProbe",
     "RestartPolicy", "ShutDownParams", "DependsOn"].all (comparedFields.contains ·) = true := by decide

private theorem lookup_mem {p : Project} {n : String} {c : Config} (h : lookup p n = some c) : (n, c) ∈ p := by
  unfold lookup at h
  cases hf : p.find? (·.1 = n) with
  | none => simp [hf] at h
  | some e =>
    simp only [hf, Option.map_some, Option.some.injEq] at h
    have h1 := List.find?_some hf
    have h2 := List.mem_of_find?_eq_some hf
    simp only [decide_eq_true_eq] at h1
    obtain ⟨n', c'⟩ := e
    simp only at h1 h
    subst h1; subst h
    exact h2

private theorem lookup_none {p : Project} {n : String} (h : lookup p n = none) : ∀ c, (n, c) ∉ p := by
  intro c hc
  unfold lookup at h
  simp only [Option.map_eq_none_iff, List.find?_eq_none, decide_eq_true_eq] at h
  exact h (n, c) hc rfl

/-- **The status map names exactly the added, removed and updated processes** (for projects whose
    names are unique, as map keys are): `n` is reported
    * `added` iff it is in the new project only,
    * `removed` iff it is in the old project only,
    * `updated` iff it is in both and the configurations differ on a compared field,
    and is absent from the map iff it is in both with equal launch-relevant configuration. -/
theorem classify_exact (old new : Project) (n : String) (st : String) :
    (n, st) ∈ classify old new ↔
      (st = "added" ∧ (∃ c, (n, c) ∈ new) ∧ lookup old n = none) ∨
      (st = "removed" ∧ (∃ c, (n, c) ∈ old) ∧ lookup new n = none) ∨
      (st = "updated" ∧ ∃ c c0, (n, c) ∈ new ∧ lookup old n = some c0 ∧ cfgEqual c0 c = false) := by
  unfold classify
  simp only [List.mem_append, List.mem_filterMap]
  constructor
  · rintro (⟨⟨m, c⟩, hm, h⟩ | ⟨⟨m, c⟩, hm, h⟩)
    · simp only at h
      cases hl : lookup old m with
      | none =>
        simp only [hl, Option.some.injEq, Prod.mk.injEq] at h
        obtain ⟨rfl, rfl⟩ := h
        exact Or.inl ⟨rfl, ⟨c, hm⟩, hl⟩
      | some c0 =>
        simp only [hl] at h
        by_cases hc : cfgEqual c0 c = true
        · simp [hc] at h
        · simp only [hc, Bool.false_eq_true, ↓reduceIte, Option.some.injEq, Prod.mk.injEq] at h
          obtain ⟨rfl, rfl⟩ := h
          exact Or.inr (Or.inr ⟨rfl, c, c0, hm, hl, by simpa using hc⟩)
    · simp only at h
      cases hl : lookup new m with
      | none =>
        simp only [hl, Option.some.injEq, Prod.mk.injEq] at h
        obtain ⟨rfl, rfl⟩ := h
        exact Or.inr (Or.inl ⟨rfl, ⟨c, hm⟩, hl⟩)
      | some _ => simp [hl] at h
  · rintro (⟨rfl, ⟨c, hc⟩, hl⟩ | ⟨rfl, ⟨c, hc⟩, hl⟩ | ⟨rfl, c, c0, hc, hl, hcmp⟩)
    · exact Or.inl ⟨(n, c), hc, by simp [hl]⟩
    · exact Or.inr ⟨(n, c), hc, by simp [hl]⟩
    · exact Or.inl ⟨(n, c), hc, by simp [hl, hcmp]⟩

/-! ### Effect on the running instances -/

theorem mem_applyUpdate {cur : List Inst} {new : Project} {next : Nat} {x : Inst} (h : x ∈ applyUpdate cur new next) :
    ∃ i n c, new[i]? = some (n, c) ∧
      x = (match findInst cur n with
        | some old => if cfgEqual old.cfg c then old else { name := n, cfg := c, id := next + i }
        | none => { name := n, cfg := c, id := next + i }) := by
  unfold applyUpdate at h
  obtain ⟨i, hi, rfl⟩ := List.mem_mapIdx.mp h
  exact ⟨i, (new[i]).1, (new[i]).2, by simp [hi], rfl⟩

/-- **The project converges to the new one**: afterwards exactly the processes of the new project
    are configured, in its order -/
theorem converges_names (cur : List Inst) (new : Project) (next : Nat)
    (hname : ∀ i ∈ cur, ∀ n, findInst cur n = some i → i.name = n) :
    (applyUpdate cur new next).map (·.name) = new.map (·.1) := by
  unfold applyUpdate
  apply List.ext_getElem?
  intro i
  simp only [List.getElem?_map, List.getElem?_mapIdx]
  cases hi : new[i]? with
  | none => simp
  | some nc =>
    simp only [Option.map_some]
    cases hf : findInst cur nc.1 with
    | none => simp
    | some old =>
      have hmem : old ∈ cur := List.mem_of_find?_eq_some hf
      by_cases hc : cfgEqual old.cfg nc.2 = true
      · simp [hc, hname old hmem nc.1 hf]
      · simp [hc]

theorem findInst_name {cur : List Inst} {n : String} {i : Inst} (h : findInst cur n = some i) : i.name = n := by
  unfold findInst at h
  simpa using List.find?_some h

/-- **An unchanged process is left alone**: it keeps its instance -/
theorem unchanged_kept (cur : List Inst) (new : Project) (next : Nat) (i : Nat) (n : String) (c : Config) (old : Inst)
    (hi : new[i]? = some (n, c)) (hold : findInst cur n = some old) (heq : cfgEqual old.cfg c = true) :
    (applyUpdate cur new next)[i]? = some old := by
  unfold applyUpdate
  simp [List.getElem?_mapIdx, hi, hold, heq]

/-- **A changed or new process gets a fresh instance with the new configuration** -/
theorem changed_replaced (cur : List Inst) (new : Project) (next : Nat) (i : Nat) (n : String) (c : Config)
    (hi : new[i]? = some (n, c))
    (hch : findInst cur n = none ∨ ∃ old, findInst cur n = some old ∧ cfgEqual old.cfg c = false) :
    (applyUpdate cur new next)[i]? = some { name := n, cfg := c, id := next + i } := by
  unfold applyUpdate
  rcases hch with h | ⟨old, h, hne⟩
  · simp [List.getElem?_mapIdx, hi, h]
  · simp [List.getElem?_mapIdx, hi, h, hne]

/-- fresh instances are new: no instance number below `next` is reused for them -/
theorem fresh_ids (cur : List Inst) (new : Project) (next : Nat) (hcur : ∀ x ∈ cur, x.id < next)
    (x : Inst) (hx : x ∈ applyUpdate cur new next) : x ∈ cur ∨ next ≤ x.id := by
  obtain ⟨i, n, c, _, rfl⟩ := mem_applyUpdate hx
  cases hf : findInst cur n with
  | none => right; simp
  | some old =>
    by_cases hc : cfgEqual old.cfg c = true
    · left; simp only [hc, ↓reduceIte]; exact List.mem_of_find?_eq_some hf
    · right; simp [hc]

/-- **Removed processes are gone**: nothing outside the new project stays configured -/
theorem removed_gone (cur : List Inst) (new : Project) (next : Nat) (x : Inst) (hx : x ∈ applyUpdate cur new next) :
    ∃ c, (x.name, c) ∈ new := by
  obtain ⟨i, n, c, hi, rfl⟩ := mem_applyUpdate hx
  have hmem : (n, c) ∈ new := List.mem_of_getElem? hi
  cases hf : findInst cur n with
  | none => exact ⟨c, by simpa using hmem⟩
  | some old =>
    by_cases hc : cfgEqual old.cfg c = true
    · simp only [hc, ↓reduceIte]
      rw [findInst_name hf]; exact ⟨c, hmem⟩
    · simp only [hc, Bool.false_eq_true, ↓reduceIte]; exact ⟨c, hmem⟩

example : applyUpdate [⟨"a", [("Command", "x")], 0⟩, ⟨"b", [("Command", "y")], 1⟩]
    [("a", [("Command", "x")]), ("c", [("Command", "z")]), ("b", [("Command", "y2")])] 2
    = [⟨"a", [("Command", "x")], 0⟩, ⟨"c", [("Command", "z")], 3⟩, ⟨"b", [("Command", "y2")], 4⟩] := by decide

example : classify [("a", [("Command", "x")]), ("b", [("Command", "y")])]
                   [("a", [("Command", "x")]), ("c", [("Command", "z")]), ("b", [("Command", "y2")])]
    = [("c", "added"), ("b", "updated")] := by decide

end PC.Props.C14
