import PC.Model.Update
import PC.Tie.Update
/-! C14 — live project update: classification and the launch-relevant comparison. -/
namespace PC.Props.C14
open PC.Update

/-- two configurations cfgEqual equal iff they agree on every compared field -/
theorem compare_iff (a b : Config) : cfgEqual a b = true ↔ ∀ f ∈ comparedFields, fieldOf a f = fieldOf b f := by
  simp [cfgEqual, List.all_eq_true]

/-- every launch-relevant item of the property statement is a compared field -/
theorem launch_relevant_compared :
    ["Executable", "Args", "Entrypoint", "Command", "Environment", "WorkingDir", "LivenessProbe", "ReadinessProbe",
     "RestartPolicy", "ShutDownParams", "DependsOn"].all (comparedFields.contains ·) = true := by decide

private theorem lookup_mem {p : Project} {n : String} {c : Config} (h : lookup p n = some c) : (n, c) ∈ p := by
  unfold lookup at h
  cases hf : p.find? (·.1 = n) with
  | none => simp [hf] at h
  | some e =>
    simp only [hf, Option.map_some, Option.some.injEq] at h
    have h1 := List.find?_some hf
    have h2 := List.mem_of_find?_eq_some hf
    simp only [decide_eq_true_eq] at h1
    obtain ⟨n', c'⟩ := e
    simp only at h1 h
    subst h1; subst h
    exact h2

private theorem lookup_none {p : Project} {n : String} (h : lookup p n = none) : ∀ c, (n, c) ∉ p := by
  intro c hc
  unfold lookup at h
  simp only [Option.map_eq_none_iff, List.find?_eq_none, decide_eq_true_eq] at h
  exact h (n, c) hc rfl

/-- **The status map names exactly the added, removed and updated processes** (for projects whose
    names are unique, as map keys are): `n` is reported
    * `added` iff it is in the new project only,
    * `removed` iff it is in the old project only,
    * `updated` iff it is in both and the configurations differ on a compared field,
    and is absent from the map iff it is in both with equal launch-relevant configuration. -/
theorem classify_exact (old new : Project) (n : String) (st : String) :
    (n, st) ∈ classify old new ↔
      (st = "added" ∧ (∃ c, (n, c) ∈ new) ∧ lookup old n = none) ∨
      (st = "removed" ∧ (∃ c, (n, c) ∈ old) ∧ lookup new n = none) ∨
      (st = "updated" ∧ ∃ c c0, (n, c) ∈ new ∧ lookup old n = some c0 ∧ cfgEqual c0 c = false) := by
  unfold classify
  simp only [List.mem_append, List.mem_filterMap]
  constructor
  · rintro (⟨⟨m, c⟩, hm, h⟩ | ⟨⟨m, c⟩, hm, h⟩)
    · simp only at h
      cases hl : lookup old m with
      | none =>
        simp only [hl, Option.some.injEq, Prod.mk.injEq] at h
        obtain ⟨rfl, rfl⟩ := h
        exact Or.inl ⟨rfl, ⟨c, hm⟩, hl⟩
      | some c0 =>
        simp only [hl] at h
        by_cases hc : cfgEqual c0 c = true
        · simp [hc] at h
        · simp only [hc, Bool.false_eq_true, ↓reduceIte, Option.some.injEq, Prod.mk.injEq] at h
          obtain ⟨rfl, rfl⟩ := h
          exact Or.inr (Or.inr ⟨rfl, c, c0, hm, hl, by simpa using hc⟩)
    · simp only at h
      cases hl : lookup new m with
      | none =>
        simp only [hl, Option.some.injEq, Prod.mk.injEq] at h
        obtain ⟨rfl, rfl⟩ := h
        exact Or.inr (Or.inl ⟨rfl, ⟨c, hm⟩, hl⟩)
      | some _ => simp [hl] at h
  · rintro (⟨rfl, ⟨c, hc⟩, hl⟩ | ⟨rfl, ⟨c, hc⟩, hl⟩ | ⟨rfl, c, c0, hc, hl, hcmp⟩)
    · exact Or.inl ⟨(n, c), hc, by simp [hl]⟩
    · exact Or.inr ⟨(n, c), hc, by simp [hl]⟩
    · exact Or.inl ⟨(n, c), hc, by simp [hl, hcmp]⟩

example : classify [("a", [("Command", "x")]), ("b", [("Command", "y")])]
                   [("a", [("Command", "x")]), ("c", [("Command", "z")]), ("b", [("Command", "y2")])]
    = [("c", "added"), ("b", "updated")] := by decide

end PC.Props.C14
