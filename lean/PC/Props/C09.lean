import PC.Proofs.SupArms
import PC.Spec.SupSpec
import PC.Proofs.SupStatus
import PC.Props.C08
/-! C09 — reported state is truthful (supervisor model). -/
namespace PC.Props.C09
open PC.Sup

/-- the legal life-cycle edges read off the property statement (without an explicit new start) -/
def legalEdge : Status → Status → Bool
  | .pending, b => b == .running || b == .launching || b == .skipped || b == .terminating || b == .error || b == .completed
  | .running, b => b == .restarting || b == .terminating || b == .completed || b == .error || b == .launched
  | .launching, b => b == .launched || b == .restarting || b == .terminating || b == .completed || b == .error
  | .launched, b => b == .restarting || b == .terminating || b == .completed
  | .restarting, b => b == .running || b == .launching || b == .completed || b == .terminating
  | .terminating, b => b == .completed || b == .restarting || b == .terminating || b == .skipped || b == .error
  | _, _ => false

/-- `Skipped` always carries a non-zero exit code (the state change itself forces 1). -/
theorem skipped_exit_nonzero (s : Sys) (i : IId) (hn : s.nameOf i < s.pstates.length) :
    ((setState s i .skipped).ps (s.nameOf i)).exit = 1 ∧ ((setState s i .skipped).ps (s.nameOf i)).status = .skipped := by
  simp only [setState, emit_ps, setPs_nameOf, emit_nameOf]
  rw [ps_setPs _ _ _ _ (by simpa using hn)]
  simp only [↓reduceIte]
  rw [emit_ps, ps_setPs _ _ _ _ hn]
  simp

/-- A command that could not be started (start failure, bad working directory) is reported with a
    non-zero exit code (fix S4). -/
theorem start_failure_exit_nonzero (s : Sys) (t : Tid) (i : IId) (hn : s.nameOf i < s.pstates.length)
    (hb : (s.icfg i).badDir = true) :
    ((armRunChecked s t i).ps (s.nameOf i)).exit = 1 ∧ ((armRunChecked s t i).ps (s.nameOf i)).status = .error := by
  have hname : ((setExit s (s.nameOf i) 1).setInst i endInst).nameOf i = s.nameOf i := by
    rw [nameOf_setInst (setExit s (s.nameOf i) 1) i i endInst (fun x => rfl)]; rfl
  simp only [armRunChecked, hb, ↓reduceIte, onProcessEnd, setState, setExit, setPc_ps, emit_ps] at hname ⊢
  simp only [hname]
  rw [ps_setPs _ _ _ _ (by simpa using hn)]
  simp only [↓reduceIte, setInst_ps, emit_ps]
  rw [ps_setPs _ _ _ _ hn]
  simp

/-- The exit code reported after an exit is the command's exit code. -/
theorem exit_code_copied (s : Sys) (t : Tid) (i : IId) (code : Int) (hn : s.nameOf i < s.pstates.length)
    (hc : (s.inst i).cmd = .exited code) :
    ((armCmdWait s t i).ps (s.nameOf i)).exit = code := by
  simp only [armCmdWait, hc, setExit, setPc_ps, emit_ps]
  rw [ps_setPs _ _ _ _ hn]; simp

/-- Readiness is forgotten on Restarting / Launching / Terminating. -/
theorem health_forgotten (s : Sys) (i : IId) (st : Status) (hn : s.nameOf i < s.pstates.length)
    (h : st = .restarting ∨ st = .launching ∨ st = .terminating) :
    ((setState s i st).ps (s.nameOf i)).health = .unknown := by
  rcases h with rfl | rfl | rfl <;>
    (simp only [setState, setPs_nameOf, emit_nameOf]
     rw [ps_setPs _ _ _ _ (by simpa using hn)]
     simp)

/-! ### The status reported while a command is alive, globally (outside the overlap finding R1) -/

/-- **Completed / Skipped / Error (and Pending, Restarting, Disabled) are never reported for a process
    while one of its commands is alive**: in every state reachable without overwriting a registration
    (`PC.Sup.ReachG`: every schedule at the finest granularity, every sequence of exits, probe results,
    output, timeouts and requests, every map order) a configured process with a live command is
    reported Running or Terminating. -/
theorem alive_reported_running_or_terminating (gr : Gran) (o : Bool) (cfgs : List Cfg) {s : Sys}
    (hr : ReachG (init gr o cfgs) s) (i : IId) (ha : (s.inst i).cmd = .alive) (hn : s.nameOf i < s.pstates.length) :
    (s.ps (s.nameOf i)).status = .running ∨ (s.ps (s.nameOf i)).status = .terminating := by
  have := reachG_truth gr o cfgs hr i ha hn
  unfold aliveStatus at this
  simpa using this

/-- the same for whole-step executions that pass the executable guard of `PC.Props.C08.runG` -/
theorem terminal_only_when_not_alive (gr : Gran) (o : Bool) (cfgs : List Cfg) (tr : List Choice) (s : Sys)
    (e : PC.Props.C08.runG (init gr o cfgs) tr = some s) (i : IId) (hn : s.nameOf i < s.pstates.length)
    (ht : (s.ps (s.nameOf i)).status = .completed ∨ (s.ps (s.nameOf i)).status = .skipped ∨ (s.ps (s.nameOf i)).status = .error) :
    (s.inst i).cmd ≠ .alive := by
  intro ha
  rcases alive_reported_running_or_terminating gr o cfgs (PC.Props.C08.runG_reach tr ReachG.init e).1 i ha hn with h | h <;>
    rcases ht with h' | h' | h' <;> rw [h] at h' <;> cases h'

-- non-vacuity: in this guarded execution the command of process 0 is alive and the process is reported Terminating
-- (it ignores the stop signal), process 1 has completed
set_option maxRecDepth 8000 in
example : ((PC.Props.C08.runG (init .coarse false [{ onSignal := none }, {}])
    [.call 0 .runMain, .run 0, .run 1, .run 2, .exit 1 0, .run 2, .call 1 (.stop 0), .run 3]).map fun s =>
      ((s.inst 0).cmd, (s.ps 0).status, (s.ps 1).status)) = some (.alive, .terminating, .completed) := by decide

/-! ### The full statements fail: W2 (stale status in `stop:checked`), R1 (state of a re-started process) -/

/-- Full statement: at rest (no thread runnable, no command alive) no process is in a transient state. -/
def C09_noTransientAtRest_full : Prop :=
  ∀ (g : Gran) (cfgs : List Cfg) (tr : List Choice) (n : Name),
    let s := (runTrace (init g false cfgs) tr).1
    quiescent s = true → (s.insts.all fun x => x.cmd != .alive) = true → n < cfgs.length →
    (s.ps n).status ≠ .terminating

/-- W2: `StopProcess` checks the state (`Running`), the process completes, then the stop marks it
    `Terminating` — for good. -/
def w2 : List Choice :=
  [.call 0 .runMain, .run 0, .run 1, .run 1, .run 1, .call 1 (.stop 0), .run 2, .run 2, .exit 0 0, .run 1, .run 1,
   .run 2, .run 2, .run 1, .run 1, .run 1, .run 0]

set_option maxRecDepth 4000 in
theorem C09_noTransientAtRest_full_fails : ¬ C09_noTransientAtRest_full := by
  intro h
  have := h .fine [{}] w2 0 (by decide) (by decide) (by decide)
  revert this
  decide

-- In the W2 history the status sequence contains the illegal edge Completed → Terminating.
set_option maxRecDepth 4000 in
example : ((runTrace (init .fine false [{}]) w2).2.filterMap fun o => match o with | .state 0 st => some st | _ => none)
    = [.pending, .running, .completed, .terminating] := by decide

-- the same history at coarse granularity: Running → Terminating → Completed, all legal
set_option maxRecDepth 4000 in
example : ((runTrace (init .coarse false [{}])
      [.call 0 .runMain, .run 0, .run 1, .call 1 (.stop 0), .run 2, .run 1, .run 0]).2.filterMap
        fun o => match o with | .state 0 st => some st | _ => none)
    = [.pending, .running, .terminating, .completed] := by decide

end PC.Props.C09
