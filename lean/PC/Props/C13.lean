import PC.Model.Replica
/-! C13 — scaling: replica names of uniform width, pairwise distinct (pure part). -/
namespace PC.Props.C13
open PC.Replica

theorem decimal_length (n : Nat) : (decimal n).length = digits10 n := by
  induction n using Nat.strongRecOn with
  | _ n ih =>
    unfold decimal digits10
    by_cases h : n < 10
    · simp [h]
    · simp only [h, ↓reduceIte, List.length_append, List.length_singleton]
      rw [ih (n / 10) (by omega)]; omega

theorem digits10_pos (n : Nat) : 1 ≤ digits10 n := by
  unfold digits10; split <;> omega

theorem digits10_mono {a b : Nat} (h : a ≤ b) : digits10 a ≤ digits10 b := by
  induction b using Nat.strongRecOn generalizing a with
  | _ b ih =>
    unfold digits10
    by_cases ha : a < 10
    · simp only [ha, ↓reduceIte]; split <;> omega
    · have hb : ¬ b < 10 := by omega
      simp only [ha, hb, ↓reduceIte]
      have := ih (b / 10) (by omega) (a := a / 10) (Nat.div_le_div_right h)
      omega

theorem pad0_length (w n : Nat) (h : digits10 n ≤ w) : (pad0 w n).length = w := by
  simp [pad0, decimal_length]; omega

/-- **Uniform width**: with `n ≥ 2` replicas every replica name `0 … n-1` has the same length. -/
theorem name_width (base : List Char) (n num : Nat) (hn : 2 ≤ n) (hnum : num < n) :
    (replicaName base n num).length = base.length + 1 + digits10 n := by
  have : ¬ n ≤ 1 := by omega
  simp only [replicaName, this, ↓reduceIte, List.length_append, List.length_singleton]
  rw [pad0_length _ _ (digits10_mono (Nat.le_of_lt hnum))]

/-- the bare name when there is one replica -/
theorem name_single (base : List Char) (num : Nat) : replicaName base 1 num = base := by simp [replicaName]

/-- value of a digit string -/
def valueOf (cs : List Char) : Nat := cs.foldl (fun a c => a * 10 + (c.toNat - 48)) 0

private theorem valueOf_append (a b : List Char) :
    valueOf (a ++ b) = b.foldl (fun x c => x * 10 + (c.toNat - 48)) (valueOf a) := by
  simp [valueOf, List.foldl_append]

theorem digit_val (d : Nat) (h : d < 10) : (digitChar d).toNat - 48 = d := by
  have : d = 0 ∨ d = 1 ∨ d = 2 ∨ d = 3 ∨ d = 4 ∨ d = 5 ∨ d = 6 ∨ d = 7 ∨ d = 8 ∨ d = 9 := by omega
  rcases this with rfl | rfl | rfl | rfl | rfl | rfl | rfl | rfl | rfl | rfl <;> decide

theorem valueOf_decimal (n : Nat) : valueOf (decimal n) = n := by
  induction n using Nat.strongRecOn with
  | _ n ih =>
    unfold decimal
    by_cases h : n < 10
    · simp [h, valueOf, digit_val n h]
    · simp only [h, ↓reduceIte]
      rw [valueOf_append, ih (n / 10) (by omega)]
      simp only [List.foldl_cons, List.foldl_nil]
      rw [digit_val _ (Nat.mod_lt _ (by omega))]
      omega

private theorem valueOf_zeros (k : Nat) (cs : List Char) : valueOf (List.replicate k '0' ++ cs) = valueOf cs := by
  induction k with
  | zero => simp
  | succ k ih =>
    simp only [List.replicate_succ, List.cons_append]
    have : valueOf ('0' :: (List.replicate k '0' ++ cs)) = valueOf (List.replicate k '0' ++ cs) := by
      simp [valueOf]
    rw [this, ih]

theorem valueOf_pad0 (w n : Nat) : valueOf (pad0 w n) = n := by
  unfold pad0; rw [valueOf_zeros, valueOf_decimal]

/-- **Distinct names**: different replica numbers give different names (the number can be read
    back from the padded suffix). -/
theorem name_injective (base : List Char) (n a b : Nat) (hn : 2 ≤ n)
    (h : replicaName base n a = replicaName base n b) : a = b := by
  have : ¬ n ≤ 1 := by omega
  simp only [replicaName, this, ↓reduceIte, List.append_assoc, List.append_cancel_left_eq,
    List.cons.injEq, true_and, List.nil_append] at h
  have := congrArg valueOf h
  simpa [valueOf_pad0] using this

/-- exactly `n` names, pairwise distinct, for a scale to `n ≥ 1` -/
theorem names_count (base : List Char) (n : Nat) : (replicaNames base n).length = n := by
  simp [replicaNames]

theorem names_nodup (base : List Char) (n : Nat) (hn : 2 ≤ n) : (replicaNames base n).Nodup := by
  unfold replicaNames List.Nodup
  rw [List.pairwise_map]
  have hr : (List.range n).Pairwise (· ≠ ·) := List.nodup_range
  exact hr.imp fun {a b} hab h => hab (name_injective base n a b hn h)


/-! ### Names of different replicated processes never clash -/

theorem digitChar_ne_dash (d : Nat) (h : d < 10) : digitChar d ≠ '-' := by
  have : d = 0 ∨ d = 1 ∨ d = 2 ∨ d = 3 ∨ d = 4 ∨ d = 5 ∨ d = 6 ∨ d = 7 ∨ d = 8 ∨ d = 9 := by omega
  rcases this with rfl | rfl | rfl | rfl | rfl | rfl | rfl | rfl | rfl | rfl <;> decide

theorem decimal_no_dash (n : Nat) : '-' ∉ decimal n := by
  induction n using Nat.strongRecOn with
  | _ n ih =>
    unfold decimal
    by_cases h : n < 10
    · simp only [h, ↓reduceIte, List.mem_singleton]
      exact fun hc => digitChar_ne_dash n h hc.symm
    · simp only [h, ↓reduceIte, List.mem_append, List.mem_singleton, not_or]
      exact ⟨ih (n / 10) (by omega), fun hc => digitChar_ne_dash (n % 10) (Nat.mod_lt _ (by omega)) hc.symm⟩

theorem pad0_no_dash (w n : Nat) : '-' ∉ pad0 w n := by
  unfold pad0
  intro h
  rcases List.mem_append.mp h with h | h
  · have := List.eq_of_mem_replicate h
    exact absurd this (by decide)
  · exact decimal_no_dash n h

theorem append_dash_inj : ∀ (b1 b2 d1 d2 : List Char), '-' ∉ d1 → '-' ∉ d2 →
    b1 ++ '-' :: d1 = b2 ++ '-' :: d2 → b1 = b2 ∧ d1 = d2 := by
  intro b1
  induction b1 with
  | nil =>
    intro b2 d1 d2 h1 _ h
    cases b2 with
    | nil => simp at h; exact ⟨rfl, h⟩
    | cons c b2 =>
      simp only [List.nil_append, List.cons_append, List.cons.injEq] at h
      exact absurd (h.2 ▸ (by simp : '-' ∈ b2 ++ '-' :: d2)) h1
  | cons a b1 ih =>
    intro b2 d1 d2 h1 h2 h
    cases b2 with
    | nil =>
      simp only [List.nil_append, List.cons_append, List.cons.injEq] at h
      exact absurd (h.2 ▸ (by simp : '-' ∈ b1 ++ '-' :: d1)) h2
    | cons c b2 =>
      simp only [List.cons_append, List.cons.injEq] at h
      obtain ⟨r1, r2⟩ := ih b2 d1 d2 h1 h2 h.2
      exact ⟨by rw [h.1, r1], r2⟩

/-- **Replica names of two different replicated processes are different**, whatever their names
    and counts (a name ends in `-` and digits only, so the process name can be read back). -/
theorem names_disjoint (b1 b2 : List Char) (n1 n2 i j : Nat) (h1 : 2 ≤ n1) (h2 : 2 ≤ n2) (hb : b1 ≠ b2) :
    replicaName b1 n1 i ≠ replicaName b2 n2 j := by
  have e1 : ¬ n1 ≤ 1 := by omega
  have e2 : ¬ n2 ≤ 1 := by omega
  simp only [replicaName, e1, e2, ↓reduceIte, List.append_assoc, List.cons_append, List.nil_append]
  intro h
  exact hb (append_dash_inj _ _ _ _ (pad0_no_dash _ _) (pad0_no_dash _ _) h).1

/-- the one possible clash: a single-replica process whose own name looks like a replica name -/
example : replicaName "w-0".toList 1 0 = replicaName "w".toList 2 0 := by
  simp [replicaName, pad0, digits10, decimal, digitChar]

example : replicaName "web".toList 12 3 = "web-03".toList := by
  simp [replicaName, pad0, digits10, decimal, digitChar]
example : replicaName "web".toList 100 7 = "web-007".toList := by
  simp [replicaName, pad0, digits10, decimal, digitChar]

end PC.Props.C13
