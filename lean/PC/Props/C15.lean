import PC.Model.Merge
/-! C15 — config merge: override wins, nothing the override does not mention is lost. -/
namespace PC.Props.C15
open PC.Merge

theorem lookup_append (a b : List (List Char × List Char)) (k : List Char) :
    lookupEnv (a ++ b) k = (lookupEnv b k).orElse fun _ => lookupEnv a k := by
  induction a with
  | nil => simp [lookupEnv]
  | cons e a ih =>
    obtain ⟨x, y⟩ := e
    simp only [List.cons_append, lookupEnv, ih]
    cases lookupEnv b k <;> simp

theorem lookup_filter_ne (m : List (List Char × List Char)) (k k' : List Char) (h : k' ≠ k) :
    lookupEnv (m.filter (fun x => decide (x.1 ≠ k))) k' = lookupEnv m k' := by
  induction m with
  | nil => rfl
  | cons e m ih =>
    obtain ⟨x, y⟩ := e
    by_cases hx : x = k
    · have hk : ¬ x = k' := by rw [hx]; exact fun e => h e.symm
      have : List.filter (fun x => decide (x.1 ≠ k)) ((x, y) :: m) = List.filter (fun x => decide (x.1 ≠ k)) m := by
        simp [List.filter, hx]
      rw [this, ih]
      simp [lookupEnv, hk]
    · have : List.filter (fun x => decide (x.1 ≠ k)) ((x, y) :: m) = (x, y) :: List.filter (fun x => decide (x.1 ≠ k)) m := by
        simp [List.filter, hx]
      rw [this]
      simp only [lookupEnv, ih]

theorem lookup_setKey (m : List (List Char × List Char)) (k v k' : List Char) :
    lookupEnv (setKey m k v) k' = if k = k' then some v else lookupEnv m k' := by
  unfold setKey
  rw [lookup_append]
  by_cases h : k = k'
  · simp [lookupEnv, h]
  · rw [lookup_filter_ne m k k' (fun e => h e.symm)]
    simp [lookupEnv, h]

/-- what the entries of one environment list define for `k`: the value of the last entry `k=…` -/
def lastDef : List (List Char) → List Char → Option (List Char)
  | [], _ => none
  | e :: r, k => (lastDef r k).orElse fun _ => match splitKV e with
    | some (a, b) => if a = k then some b else none
    | none => none

private theorem toEnvMap_acc (env : List (List Char)) (m : List (List Char × List Char)) (k : List Char) :
    lookupEnv (env.foldl envStep m) k = (lastDef env k).orElse fun _ => lookupEnv m k := by
  induction env generalizing m with
  | nil => simp [lastDef]
  | cons e env ih =>
    simp only [List.foldl_cons, lastDef]
    rw [ih]
    unfold envStep
    cases hs : splitKV e with
    | none => cases lastDef env k <;> simp
    | some kv =>
      obtain ⟨a, b⟩ := kv
      simp only [lookup_setKey]
      by_cases h : a = k
      · cases lastDef env k <;> simp [h]
      · cases lastDef env k <;> simp [h]

theorem lookup_toEnvMap (env : List (List Char)) (k : List Char) : lookupEnv (toEnvMap env) k = lastDef env k := by
  unfold toEnvMap
  rw [toEnvMap_acc]
  simp [lookupEnv]

private theorem override_acc (src dst : List (List Char × List Char)) (k : List Char) :
    lookupEnv (overrideMap dst src) k = (lookupEnv src k).orElse fun _ => lookupEnv dst k := by
  unfold overrideMap
  induction src generalizing dst with
  | nil => simp [lookupEnv]
  | cons e src ih =>
    obtain ⟨a, b⟩ := e
    simp only [List.foldl_cons, lookupEnv]
    rw [ih, lookup_setKey]
    by_cases h : a = k
    · cases lookupEnv src k <;> simp [h]
    · cases lookupEnv src k <;> simp [h]

/-- parsing a well-formed entry `k=v` (no `=` in `k`) gives back key and value, byte for byte —
    whatever the value contains (`=`, spaces, quotes, nothing at all) -/
theorem splitKV_wf (k v : List Char) (hk : ∀ c ∈ k, c ≠ '=') : splitKV (k ++ ['='] ++ v) = some (k, v) := by
  induction k with
  | nil => simp [splitKV]
  | cons c k ih =>
    have hc : ¬ c = '=' := hk c (by simp)
    have := ih (fun x hx => hk x (by simp [hx]))
    simp only [List.append_assoc, List.cons_append, List.nil_append] at this ⊢
    simp [splitKV, hc, this]

/-- **Environment entries are merged by key with the later file winning; every key the later file
    does not define keeps the earlier file's value** — the value being everything after the first
    `=` of the last entry that defines the key. -/
theorem env_merge_by_key (base over : List (List Char)) (k : List Char) :
    lookupEnv (mergeEnvMap base over) k = (lastDef over k).orElse fun _ => lastDef base k := by
  unfold mergeEnvMap
  rw [override_acc, lookup_toEnvMap, lookup_toEnvMap]

/-- in particular a key the later file does not mention survives unchanged -/
theorem env_unmentioned_survives (base over : List (List Char)) (k : List Char) (h : lastDef over k = none) :
    lookupEnv (mergeEnvMap base over) k = lastDef base k := by
  rw [env_merge_by_key, h]; rfl

/-- a single-valued option set (non-zero) in the later file replaces the earlier value; an option
    the later file leaves unset keeps the earlier value -/
theorem scalar_override (fields : List String) (base over : Proc) (f : String) (hf : f ∈ fields)
    (hnodup : fields.Nodup) :
    scalarOf (mergeProc fields base over) f =
      if scalarOf over f ≠ "" then scalarOf over f else scalarOf base f := by
  unfold mergeProc scalarOf
  simp only
  induction fields with
  | nil => simp at hf
  | cons g gs ih =>
    by_cases hg : g = f
    · subst hg; simp [List.find?]
    · have hmem : f ∈ gs := by
        rcases List.mem_cons.mp hf with h | h
        · exact absurd h.symm hg
        · exact h
      simp only [List.map_cons, List.find?_cons, hg, decide_false, Bool.false_eq_true]
      exact ih hmem (List.nodup_cons.mp hnodup).2

/-- processes defined in only one file are kept as they are -/
theorem disjoint_kept_base (fields : List String) (base over : Project) (n : String) (p : Proc)
    (hb : (n, p) ∈ base) (ho : lookupProc over n = none) : (n, p) ∈ mergeProject fields base over := by
  unfold mergeProject
  apply List.mem_append_left
  apply List.mem_map.mpr
  exact ⟨(n, p), hb, by simp [ho]⟩

theorem disjoint_kept_over (fields : List String) (base over : Project) (n : String) (p : Proc)
    (hov : (n, p) ∈ over) (hb : lookupProc base n = none) : (n, p) ∈ mergeProject fields base over := by
  unfold mergeProject
  apply List.mem_append_right
  apply List.mem_filter.mpr
  exact ⟨hov, by simp [hb]⟩

/-- depends_on is merged by key: the later file's entry wins, other entries of the earlier file stay -/
theorem deps_by_key (fields : List String) (base over : Proc) (d : String × String) :
    d ∈ (mergeProc fields base over).deps ↔
      d ∈ over.deps ∨ (d ∈ base.deps ∧ (over.deps.any (·.1 = d.1)) = false) := by
  simp only [mergeProc, List.mem_append, List.mem_filter]
  constructor
  · rintro (⟨h1, h2⟩ | h)
    · exact Or.inr ⟨h1, by simpa using h2⟩
    · exact Or.inl h
  · rintro (h | ⟨h1, h2⟩)
    · exact Or.inr h
    · exact Or.inl ⟨h1, by simp [h2]⟩

private theorem find_filter_ne (l : List (String × String)) (f g : String) (h : g ≠ f) :
    (l.filter (·.1 ≠ f)).find? (·.1 = g) = l.find? (·.1 = g) := by
  induction l with
  | nil => rfl
  | cons a r ih =>
    rw [List.filter_cons]
    by_cases ha : a.1 = f
    · have hag : ¬ a.1 = g := by rw [ha]; exact Ne.symm h
      have hd : decide (f = g) = false := by simp [Ne.symm h]
      simp only [ne_eq, ha, not_true_eq_false, decide_false, Bool.false_eq_true, ↓reduceIte,
        List.find?_cons, hd]
      exact ih
    · simp only [ne_eq, ha, not_false_eq_true, decide_true, ↓reduceIte, List.find?_cons]
      by_cases hg : a.1 = g
      · simp [hg]
      · simp only [hg, decide_false]; exact ih

theorem scalarOf_setScalar (p : Proc) (f v g : String) :
    scalarOf (setScalar p f v) g = if g = f then v else scalarOf p g := by
  unfold scalarOf setScalar
  simp only [List.find?_append]
  by_cases h : g = f
  · subst h
    have : (p.scalars.filter (·.1 ≠ g)).find? (·.1 = g) = none := by
      simp [List.find?_eq_none]
    rw [this]; simp [List.find?]
  · simp only [h, ↓reduceIte]
    have h2 : List.find? (fun x => decide (x.1 = g)) [(f, v)] = none := by
      simp [List.find?, Ne.symm h]
    rw [h2, Option.or_none, find_filter_ne _ _ _ h]

/-- **extends = naming both files, apart from the base's working directories**: merging the child
    over the base whose working directory was resolved against the base file's directory differs
    from merging over the unresolved base only in `working_dir`, and there only when the child
    leaves it unset. -/
theorem extends_scalar (fields : List String) (dir : String) (b o : Proc) (f : String)
    (hf : f ∈ fields) (hn : fields.Nodup) :
    scalarOf (mergeProc fields (resolveProc dir b) o) f =
      if f = "working_dir" ∧ scalarOf o f = "" then resolveWd dir (scalarOf b f)
      else scalarOf (mergeProc fields b o) f := by
  rw [scalar_override _ _ _ _ hf hn, scalar_override _ _ _ _ hf hn]
  unfold resolveProc
  rw [scalarOf_setScalar]
  by_cases h1 : f = "working_dir"
  · subst h1
    by_cases h2 : scalarOf o "working_dir" = "" <;> simp [h2]
  · simp [h1]

theorem extends_rest (fields : List String) (dir : String) (b o : Proc) :
    (mergeProc fields (resolveProc dir b) o).env = (mergeProc fields b o).env ∧
    (mergeProc fields (resolveProc dir b) o).deps = (mergeProc fields b o).deps ∧
    (mergeProc fields (resolveProc dir b) o).entry = (mergeProc fields b o).entry := by
  simp [mergeProc, resolveProc, setScalar, mergeEnvList]

/-- an absolute working directory of the base is left as it is -/
theorem resolve_abs (dir wd : String) (h : wd.startsWith "/" = true) (hne : wd ≠ "") : resolveWd dir wd = wd := by
  simp [resolveWd, h, hne]


/-- **Chains**: over three files the value of an option is the last non-empty one -/
theorem chain_scalar (fields : List String) (a b c : Proc) (f : String) (hf : f ∈ fields) (hn : fields.Nodup) :
    scalarOf (mergeProc fields (mergeProc fields a b) c) f =
      if scalarOf c f ≠ "" then scalarOf c f
      else if scalarOf b f ≠ "" then scalarOf b f else scalarOf a f := by
  rw [scalar_override _ _ _ _ hf hn, scalar_override _ _ _ _ hf hn]

/-- dependencies of a chain: the last file that names the dependency decides its entry -/
theorem chain_deps (fields : List String) (a b c : Proc) (d : String × String) :
    d ∈ (mergeProc fields (mergeProc fields a b) c).deps ↔
      d ∈ c.deps ∨ ((d ∈ b.deps ∨ (d ∈ a.deps ∧ (b.deps.any (·.1 = d.1)) = false)) ∧ (c.deps.any (·.1 = d.1)) = false) := by
  rw [deps_by_key, deps_by_key]


example : lookupEnv (mergeEnvMap ["A=b=c".toList, "K=1".toList, "E=".toList] ["K= 2 \"x\"".toList]) "A".toList = some "b=c".toList := by decide
example : lookupEnv (mergeEnvMap ["A=b=c".toList, "K=1".toList] ["K= 2 \"x\"".toList]) "K".toList = some " 2 \"x\"".toList := by decide

end PC.Props.C15
