import PC.Proofs.PlanOrder
/-! C07 — run plan: cycles and dangling dependencies are rejected, the dependency order is
    topological, the selection is the dependency closure. All statements hold for every order in
    which the process map and the `depends_on` maps are iterated (the orders are the list orders of
    the model, and the statements quantify over all lists). -/
namespace PC.Props.C07
open PC.Plan

/-! ### Cycles -/

theorem succNames_mem_all (p : Project) (x n : String) (h : n ∈ succNames p x) : n ∈ allNames p := by
  unfold succNames at h
  cases hp : procsOf p x with
  | none => simp [hp] at h
  | some l =>
    simp only [hp, Option.getD_some, List.mem_flatMap] at h
    obtain ⟨e, he, hn⟩ := h
    exact List.mem_append_right _ (List.mem_flatMap.mpr ⟨e, procsOf_mem hp e he, hn⟩)

theorem procsOf_of_key {p : Project} {k : String} (hk : k ∈ p.map (·.key)) : (procsOf p k).isSome = true := by
  obtain ⟨e, he, rfl⟩ := List.mem_map.mp hk
  unfold procsOf
  cases hf : p.find? (·.key = e.key) with
  | some x => simp
  | none =>
    have := List.find?_eq_none.mp hf e he
    simp at this

/-- every dependency name resolves (to a key or to a process name) -/
def Resolves (p : Project) : Prop := ∀ e ∈ p, ∀ d ∈ e.deps, (procsOf p d).isSome = true

theorem known_all {p : Project} (hres : Resolves p) : ∀ x ∈ allNames p, (procsOf p x).isSome = true := by
  intro x hx
  rcases List.mem_append.mp hx with h | h
  · exact procsOf_of_key h
  · obtain ⟨e, he, hd⟩ := List.mem_flatMap.mp h
    exact hres e he x hd

/-- **The cycle check is exact, for every iteration order**: when every dependency name resolves, a
    circular dependency is reported iff some name reachable from a process (through `depends_on`,
    a process name standing for all its replicas) lies on a dependency cycle. -/
theorem cycle_iff (p : Project) (hres : Resolves p) :
    hasCycle p = true ↔
      ∃ c, (∃ k ∈ p.map (·.key), Reach (succNames p) k c) ∧ ReachPlus (succNames p) c c := by
  unfold hasCycle
  exact validate_iff _ (succNames p) (allNames p) (p.map (·.key)) (known_all hres)
    (fun k hk => List.mem_append_left _ hk)
    (fun x _ n hn => succNames_mem_all p x n hn)

theorem reach_congr {α : Type} {s s' : α → List α} (h : ∀ x n, n ∈ s x ↔ n ∈ s' x) {a b : α} :
    Reach s a b → Reach s' a b := by
  intro hr
  induction hr with
  | refl => exact Reach.refl _
  | tail _ hc ih => exact Reach.tail ih ((h _ _).mp hc)

/-- the verdict does not depend on the order of the process map nor of the `depends_on` maps -/
theorem cycle_order_indep (p p' : Project) (hres : Resolves p) (hres' : Resolves p')
    (hk : ∀ k, k ∈ p.map (·.key) ↔ k ∈ p'.map (·.key))
    (hs : ∀ x n, n ∈ succNames p x ↔ n ∈ succNames p' x) : hasCycle p = hasCycle p' := by
  have hs' : ∀ x n, n ∈ succNames p' x ↔ n ∈ succNames p x := fun x n => (hs x n).symm
  have key : hasCycle p = true ↔ hasCycle p' = true := by
    rw [cycle_iff p hres, cycle_iff p' hres']
    constructor
    · rintro ⟨c, ⟨k, hk1, hr⟩, m, hm, hmc⟩
      exact ⟨c, ⟨k, (hk k).mp hk1, reach_congr hs hr⟩, m, (hs c m).mp hm, reach_congr hs hmc⟩
    · rintro ⟨c, ⟨k, hk1, hr⟩, m, hm, hmc⟩
      exact ⟨c, ⟨k, (hk k).mpr hk1, reach_congr hs' hr⟩, m, (hs c m).mpr hm, reach_congr hs' hmc⟩
  cases h1 : hasCycle p <;> cases h2 : hasCycle p' <;> simp_all

/-- **Loading fails whenever a dependency names no loaded process** (whichever validator reports
    it: the cycle check may report such a project first, through its stale stack entry) -/
theorem load_fails_on_undefined (p : Project) (h : danglingDep p = true) : loadFails p = true := by
  simp [loadFails, h]

/-! ### Undefined dependencies -/

/-- a dependency that names no loaded process is rejected -/
theorem dangling_iff (p : Project) :
    danglingDep p = true ↔ ∃ e ∈ p, ∃ d ∈ e.deps, ∀ e' ∈ p, e'.key ≠ d := by
  simp [danglingDep]

theorem procsOf_key {p : Project} (hkeys : (p.map (·.key)).Nodup) {e : Entry} (he : e ∈ p) :
    procsOf p e.key = some [e] := by
  unfold procsOf
  cases hf : p.find? (·.key = e.key) with
  | none =>
    have := List.find?_eq_none.mp hf e he
    simp at this
  | some x =>
    have hx : x ∈ p := List.mem_of_find?_eq_some hf
    have hk : x.key = e.key := by simpa using List.find?_some hf
    rw [key_inj p hkeys hx he hk]

theorem resolvable_of_no_dangling {p : Project} (h : danglingDep p = false) :
    ∀ e ∈ p, (resolve p e.deps).isSome := by
  intro e he
  have hall : ∀ d ∈ e.deps, ∃ e' ∈ p, e'.key = d := by
    intro d hd
    apply Classical.byContradiction
    intro hn
    have : danglingDep p = true := (dangling_iff p).mpr ⟨e, he, d, hd, fun e' he' hk => hn ⟨e', he', hk⟩⟩
    rw [h] at this; cases this
  generalize e.deps = ds at hall
  induction ds with
  | nil => simp [resolve]
  | cons d ds ih =>
    obtain ⟨e', he', hk⟩ := hall d (List.mem_cons_self ..)
    have hp : (procsOf p d).isSome := by
      unfold procsOf
      cases hf : p.find? (·.key = d) with
      | some x => simp
      | none =>
        have := List.find?_eq_none.mp hf e' he'
        simp [hk] at this
    have hr := ih (fun x hx => hall x (List.mem_cons_of_mem _ hx))
    cases h1 : procsOf p d with
    | none => simp [h1] at hp
    | some a =>
      cases h2 : resolve p ds with
      | none => simp [h2] at hr
      | some b => simp [resolve, h1, h2]

theorem resolves_of_no_dangling {p : Project} (h : danglingDep p = false) : Resolves p := by
  intro e he d hd
  apply Classical.byContradiction
  intro hn
  have hkey : ∀ e' ∈ p, e'.key ≠ d := by
    intro e' he' hk
    exact hn (hk ▸ procsOf_of_key (List.mem_map.mpr ⟨e', he', rfl⟩))
  have : danglingDep p = true := (dangling_iff p).mpr ⟨e, he, d, hd, hkey⟩
  rw [h] at this; cases this

/-- **Loading succeeds exactly on the acyclic projects among those without undefined dependencies** -/
theorem load_ok_iff (p : Project) (hd : danglingDep p = false) :
    loadFails p = false ↔
      ¬ ∃ c, (∃ k ∈ p.map (·.key), Reach (succNames p) k c) ∧ ReachPlus (succNames p) c c := by
  rw [← cycle_iff p (resolves_of_no_dangling hd)]
  simp [loadFails, hd]

/-! ### From the name graph of the cycle check to the entry graph of the order -/

theorem resolve_mem_procs {p : Project} : ∀ {ns : List String} {l : List Entry}, resolve p ns = some l →
    ∀ x ∈ l, ∃ d ∈ ns, ∃ a, procsOf p d = some a ∧ x ∈ a := by
  intro ns
  induction ns with
  | nil => intro l h; simp [resolve] at h; subst h; simp
  | cons n ns ih =>
    intro l h
    cases ha : procsOf p n with
    | none => simp [resolve, ha] at h
    | some a =>
      cases hb : resolve p ns with
      | none => simp [resolve, ha, hb] at h
      | some b =>
        simp [resolve, ha, hb] at h
        subst h
        intro x hx
        rcases List.mem_append.mp hx with h1 | h1
        · exact ⟨n, List.mem_cons_self .., a, ha, h1⟩
        · obtain ⟨d, hd, a', ha', hx'⟩ := ih hb x h1
          exact ⟨d, List.mem_cons_of_mem _ hd, a', ha', hx'⟩

theorem succE_edge {p : Project} {e x : Entry} (h : x ∈ succE p e) :
    ∃ d ∈ e.deps, ∃ a, procsOf p d = some a ∧ x ∈ a := by
  unfold succE at h
  cases hr : resolve p e.deps with
  | none => simp [hr] at h
  | some l => simp [hr] at h; exact resolve_mem_procs hr x h

theorem deps_in_succNames {p : Project} {d : String} {a : List Entry} (ha : procsOf p d = some a) {x : Entry}
    (hx : x ∈ a) {n : String} (hn : n ∈ x.deps) : n ∈ succNames p d := by
  simp only [succNames, ha, Option.getD_some, List.mem_flatMap]
  exact ⟨x, hx, hn⟩

theorem entry_path_to_names {p : Project} {a b : Entry} (h : Reach (succE p) a b) :
    ∀ da al, procsOf p da = some al → a ∈ al → ∀ db ∈ b.deps, ReachPlus (succNames p) da db := by
  induction h with
  | refl =>
    intro da al hal ha db hdb
    exact ⟨db, deps_in_succNames hal ha hdb, Reach.refl _⟩
  | tail _ hc ih =>
    intro da al hal ha dc hdc
    obtain ⟨d, hd, l, hl, hcl⟩ := succE_edge hc
    obtain ⟨m, hm, hmd⟩ := ih da al hal ha d hd
    exact ⟨m, hm, Reach.tail hmd (deps_in_succNames hl hcl hdc)⟩

/-- a project that passes the cycle check has an acyclic entry graph -/
theorem acyclic_of_not_hasCycle {p : Project} (hkeys : (p.map (·.key)).Nodup) (hres : Resolves p) (h : hasCycle p = false) :
    ∀ e ∈ p, ¬ ReachPlus (succE p) e e := by
  intro e he ⟨m, hm, hme⟩
  obtain ⟨d0, hd0, l, hl, hml⟩ := succE_edge hm
  have hcyc : ReachPlus (succNames p) d0 d0 := entry_path_to_names hme d0 l hl hml d0 hd0
  have hreach : Reach (succNames p) e.key d0 :=
    Reach.tail (Reach.refl _) (deps_in_succNames (procsOf_key hkeys he) (List.mem_singleton.mpr rfl) hd0)
  have : hasCycle p = true := (cycle_iff p hres).mpr ⟨d0, ⟨e.key, List.mem_map.mpr ⟨e, he, rfl⟩, hreach⟩, hcyc⟩
  rw [h] at this; cases this


/-! ### Independence of the order of the process map, for actual permutations -/

/-- with distinct keys, what a name resolves to is determined by membership alone: the entry with
    that key, else every entry with that process name -/
theorem mem_procsOf {p : Project} (hkeys : (p.map (·.key)).Nodup) (n : String) (e : Entry) :
    e ∈ (procsOf p n).getD [] ↔
      e ∈ p ∧ (e.key = n ∨ ((∀ x ∈ p, x.key ≠ n) ∧ e.name = n)) := by
  unfold procsOf
  cases hf : p.find? (·.key = n) with
  | some x =>
    have hx : x ∈ p := List.mem_of_find?_eq_some hf
    have hk : x.key = n := by simpa using List.find?_some hf
    simp only [Option.getD_some, List.mem_singleton]
    constructor
    · rintro rfl; exact ⟨hx, Or.inl hk⟩
    · rintro ⟨he, h | ⟨h, _⟩⟩
      · exact key_inj p hkeys he hx (h.trans hk.symm)
      · exact absurd hk (h x hx)
  | none =>
    have hnone : ∀ x ∈ p, x.key ≠ n := by
      intro x hx h
      have := List.find?_eq_none.mp hf x hx
      simp [h] at this
    by_cases hl : (p.filter (·.name = n)).isEmpty
    · simp only [hl, ↓reduceIte, Option.getD_none, List.not_mem_nil, false_iff]
      rintro ⟨he, h | ⟨_, h⟩⟩
      · exact hnone e he h
      · have : e ∈ p.filter (·.name = n) := List.mem_filter.mpr ⟨he, by simpa using h⟩
        rw [List.isEmpty_iff.mp hl] at this
        cases this
    · simp only [hl, Bool.false_eq_true, ↓reduceIte, Option.getD_some, List.mem_filter, decide_eq_true_eq]
      constructor
      · rintro ⟨he, h⟩; exact ⟨he, Or.inr ⟨hnone, h⟩⟩
      · rintro ⟨he, h | ⟨_, h⟩⟩
        · exact absurd h (hnone e he)
        · exact ⟨he, h⟩

theorem succNames_perm {p p' : Project} (hp : p.Perm p') (hkeys : (p.map (·.key)).Nodup) (x n : String) :
    n ∈ succNames p x ↔ n ∈ succNames p' x := by
  have hkeys' : (p'.map (·.key)).Nodup := (hp.map _).nodup_iff.mp hkeys
  simp only [succNames, List.mem_flatMap]
  constructor
  · rintro ⟨e, he, hn⟩
    refine ⟨e, (mem_procsOf hkeys' x e).mpr ?_, hn⟩
    obtain ⟨h1, h2⟩ := (mem_procsOf hkeys x e).mp he
    refine ⟨hp.mem_iff.mp h1, ?_⟩
    rcases h2 with h | ⟨h, h'⟩
    · exact Or.inl h
    · exact Or.inr ⟨fun y hy => h y (hp.mem_iff.mpr hy), h'⟩
  · rintro ⟨e, he, hn⟩
    refine ⟨e, (mem_procsOf hkeys x e).mpr ?_, hn⟩
    obtain ⟨h1, h2⟩ := (mem_procsOf hkeys' x e).mp he
    refine ⟨hp.mem_iff.mpr h1, ?_⟩
    rcases h2 with h | ⟨h, h'⟩
    · exact Or.inl h
    · exact Or.inr ⟨fun y hy => h y (hp.mem_iff.mp hy), h'⟩

theorem resolves_perm {p p' : Project} (hp : p.Perm p') (hkeys : (p.map (·.key)).Nodup) (h : Resolves p) : Resolves p' := by
  have hkeys' : (p'.map (·.key)).Nodup := (hp.map _).nodup_iff.mp hkeys
  intro e he d hd
  have h1 := h e (hp.mem_iff.mpr he) d hd
  -- some entry answers to `d` in `p`, hence in `p'`
  cases hq : procsOf p d with
  | none => simp [hq] at h1
  | some l =>
    have hne : l ≠ [] := by
      unfold procsOf at hq
      split at hq
      · simp at hq; subst hq; simp
      · by_cases hl : (p.filter (·.name = d)).isEmpty
        · simp [hl] at hq
        · simp only [hl, Bool.false_eq_true, ↓reduceIte, Option.some.injEq] at hq
          subst hq
          intro h0; simp [h0] at hl
    obtain ⟨x, hx⟩ := List.exists_mem_of_ne_nil l hne
    have hxm : x ∈ (procsOf p d).getD [] := by simp [hq, hx]
    obtain ⟨hx1, hx2⟩ := (mem_procsOf hkeys d x).mp hxm
    have hx' : x ∈ (procsOf p' d).getD [] := (mem_procsOf hkeys' d x).mpr
      ⟨hp.mem_iff.mp hx1, by
        rcases hx2 with h | ⟨h, h'⟩
        · exact Or.inl h
        · exact Or.inr ⟨fun y hy => h y (hp.mem_iff.mpr hy), h'⟩⟩
    cases hq' : procsOf p' d with
    | none => simp [hq'] at hx'
    | some _ => rfl

/-- **The verdict of the cycle check is the same for every order of the process map** -/
theorem hasCycle_perm (p p' : Project) (hp : p.Perm p') (hkeys : (p.map (·.key)).Nodup) (hres : Resolves p) :
    hasCycle p = hasCycle p' :=
  cycle_order_indep p p' hres (resolves_perm hp hkeys hres)
    (fun k => (hp.map (·.key)).mem_iff)
    (fun x n => succNames_perm hp hkeys x n)

/-! ### Dependency order -/

/-- `d` occurs before `e` -/
def Before {β : Type} (l : List β) (d e : β) : Prop := ∃ l1 l2 l3, l = l1 ++ d :: l2 ++ e :: l3

theorem before_of_index {β : Type} (l : List β) (i j : Nat) (d e : β) (hij : i < j) (hi : l[i]? = some d)
    (hj : l[j]? = some e) : Before l d e := by
  induction l generalizing i j with
  | nil => simp at hi
  | cons x xs ih =>
    cases j with
    | zero => omega
    | succ j =>
      cases i with
      | zero =>
        simp at hi hj
        subst hi
        have hmem : e ∈ xs := List.mem_of_getElem? hj
        obtain ⟨a, b, hab⟩ := List.append_of_mem hmem
        exact ⟨[], a, b, by simp [hab]⟩
      | succ i =>
        simp at hi hj
        obtain ⟨l1, l2, l3, h⟩ := ih i j (by omega) hi hj
        exact ⟨x :: l1, l2, l3, by simp [h]⟩

theorem before_filter {β : Type} (f : β → Bool) (l : List β) (d e : β) (h : Before l d e) (hd : f d = true)
    (he : f e = true) : Before (l.filter f) d e := by
  obtain ⟨l1, l2, l3, rfl⟩ := h
  exact ⟨l1.filter f, l2.filter f, l3.filter f, by simp [List.filter_append, List.filter_cons, hd, he]⟩

theorem before_map {β γ : Type} (f : β → γ) (l : List β) (d e : β) (h : Before l d e) : Before (l.map f) (f d) (f e) := by
  obtain ⟨l1, l2, l3, rfl⟩ := h
  exact ⟨l1.map f, l2.map f, l3.map f, by simp⟩

/-- **Topological order**: a project with distinct keys that passes the cycle check and has no
    undefined dependency yields a dependency order that lists every process exactly once, each
    after all the processes its dependencies name. -/
theorem order_topological (p : Project) (hkeys : (p.map (·.key)).Nodup) (hc : hasCycle p = false)
    (hd : danglingDep p = false) :
    ∃ l, withProcesses p [] = some l ∧ (∀ e, e ∈ l ↔ e ∈ p) ∧ (l.map (·.key)).Nodup ∧
      ∀ e ∈ l, ∀ d ∈ succE p e, Before l d e := by
  have hres := resolvable_of_no_dangling hd
  have hacyc := acyclic_of_not_hasCycle hkeys (resolves_of_no_dangling hd) hc
  have g0 : WGood p {} := ⟨by simp, by simp, by simp, rfl⟩
  have hfuel : unv (p.map (·.key)) ([] : List String) < p.length + 1 := by
    unfold unv
    have := List.countP_le_length (p := fun x => decide (x ∉ ([] : List String))) (l := p.map (·.key))
    simp only [List.length_map] at this
    omega
  have post := withProcs_spec p hkeys hres hacyc (p.length + 1) p {} (fun _ h => h) g0
    (fun e _ h => by simp [Grey] at h) (fun e _ g _ h => by simp [Grey] at h) hfuel
  refine ⟨(withProcs p (p.length + 1) p {}).out, ?_, ?_, post.good.nodup, ?_⟩
  · simp [withProcesses, post.good.noErr]
  · intro e
    exact ⟨fun h => (post.good.outIn e h).1, fun h => post.emitted e h⟩
  · intro e he d hdd
    obtain ⟨j, hj⟩ := (mem_iff_getElem? _ _).mp he
    obtain ⟨i, hij, hi⟩ := post.good.before j e hj d hdd
    exact before_of_index _ i j d e hij hi hj

/-- the run order (deferred processes left out) keeps that order and never contains a disabled or
    foreground process -/
theorem runOrder_spec (p : Project) (hkeys : (p.map (·.key)).Nodup) (hc : hasCycle p = false)
    (hd : danglingDep p = false) :
    ∃ o, runOrder p = some o ∧
      (∀ k, k ∈ o ↔ ∃ e ∈ p, e.key = k ∧ isDeferred e = false) ∧ o.Nodup ∧
      ∀ e ∈ p, isDeferred e = false → ∀ d ∈ succE p e, isDeferred d = false → Before o d.key e.key := by
  obtain ⟨l, hl, hmem, hnd, hbef⟩ := order_topological p hkeys hc hd
  refine ⟨(l.filter (!isDeferred ·)).map (·.key), by simp [runOrder, hl], ?_, ?_, ?_⟩
  · intro k
    simp only [List.mem_map, List.mem_filter, Bool.not_eq_eq_eq_not, Bool.not_true]
    constructor
    · rintro ⟨e, ⟨he, hdf⟩, rfl⟩; exact ⟨e, (hmem e).mp he, rfl, hdf⟩
    · rintro ⟨e, he, rfl, hdf⟩; exact ⟨e, ⟨(hmem e).mpr he, hdf⟩, rfl⟩
  · exact (List.Nodup.sublist (List.Sublist.map _ List.filter_sublist) hnd)
  · intro e he hne d hdd hnd'
    have hb := hbef e ((hmem e).mpr he) d hdd
    exact before_map (·.key) _ d e (before_filter (!isDeferred ·) l d e hb (by simp [hnd']) (by simp [hne]))

/-! ### Selection -/

/-- **Selection = dependency closure**: the processes reached by `WithProcesses(requested)` are
    exactly those reachable from the requested ones through dependencies. -/
theorem selection_closure (p : Project) (hkeys : (p.map (·.key)).Nodup) (hc : hasCycle p = false)
    (hd : danglingDep p = false) (req : List String) (hreq : req ≠ []) (es : List Entry)
    (hes : resolve p req = some es) :
    ∃ l, withProcesses p req = some l ∧ ∀ x, x ∈ l ↔ ∃ e ∈ es, Reach (succE p) e x := by
  have hres := resolvable_of_no_dangling hd
  have hacyc := acyclic_of_not_hasCycle hkeys (resolves_of_no_dangling hd) hc
  have g0 : WGood p {} := ⟨by simp, by simp, by simp, rfl⟩
  have hfuel : unv (p.map (·.key)) ([] : List String) < p.length + 1 := by
    unfold unv
    have := List.countP_le_length (p := fun x => decide (x ∉ ([] : List String))) (l := p.map (·.key))
    simp only [List.length_map] at this
    omega
  have post := withProcs_spec p hkeys hres hacyc (p.length + 1) es {} (resolve_mem hes) g0
    (fun e _ h => by simp [Grey] at h) (fun e _ g _ h => by simp [Grey] at h) hfuel
  have hne : req.isEmpty = false := by cases req <;> simp_all
  refine ⟨(withProcs p (p.length + 1) es {}).out, by simp [withProcesses, hne, hes, post.good.noErr], ?_⟩
  intro x
  constructor
  · intro hx
    obtain ⟨new, hnew, hprop⟩ := post.ext
    simp only [List.nil_append] at hnew
    rw [hnew] at hx
    exact (hprop x hx).2
  · rintro ⟨e, he, hr⟩
    -- the output contains the start entries and is closed under dependencies
    have hclosed : ∀ a, a ∈ (withProcs p (p.length + 1) es {}).out → ∀ b ∈ succE p a,
        b ∈ (withProcs p (p.length + 1) es {}).out := by
      intro a ha b hb
      obtain ⟨j, hj⟩ := (mem_iff_getElem? _ _).mp ha
      obtain ⟨i, _, hi⟩ := post.good.before j a hj b hb
      exact List.mem_of_getElem? hi
    induction hr with
    | refl => exact post.emitted e he
    | tail _ hcb ih => exact hclosed _ ih _ hcb

/-- with dependencies (the default): a process stays enabled iff it is in the closure of the
    requested ones and is not a foreground process; every other process is disabled -/
theorem select_spec (p : Project) (hkeys : (p.map (·.key)).Nodup) (hc : hasCycle p = false)
    (hd : danglingDep p = false) (req : List String) (hreq : req ≠ []) (es : List Entry)
    (hes : resolve p req = some es) :
    ∃ q, selectProcs p req = some q ∧ q.map (·.key) = p.map (·.key) ∧
      ∀ e ∈ p, ∃ e' ∈ q, e'.key = e.key ∧
        (e'.disabled = false ↔ ((∃ s ∈ es, Reach (succE p) s e) ∧ e.foreground = false)) := by
  obtain ⟨l, hl, hmem⟩ := selection_closure p hkeys hc hd req hreq es hes
  have hne : req.isEmpty = false := by cases req <;> simp_all
  refine ⟨p.map fun e => { e with disabled := !(((l.filter (!·.foreground)).map (·.key)).contains e.key) },
    by unfold selectProcs; rw [hl]; simp [hne], by simp [Function.comp_def], ?_⟩
  intro e he
  refine ⟨{ e with disabled := !(((l.filter (!·.foreground)).map (·.key)).contains e.key) },
    List.mem_map.mpr ⟨e, he, rfl⟩, rfl, ?_⟩
  simp only [Bool.not_eq_eq_eq_not, Bool.not_false, List.contains_iff_mem, List.mem_map, List.mem_filter,
    Bool.not_eq_eq_eq_not, Bool.not_true]
  constructor
  · rintro ⟨x, ⟨hx, hfg⟩, hk⟩
    have hxp : x ∈ p := by
      obtain ⟨s, hs, hr⟩ := (hmem x).mp hx
      clear hmem hl
      induction hr with
      | refl => exact resolve_mem hes _ hs
      | tail _ hcb _ => exact succE_mem hcb
    have : x = e := key_inj p hkeys hxp he hk
    subst this
    exact ⟨(hmem x).mp hx, hfg⟩
  · rintro ⟨hr, hfg⟩
    exact ⟨e, ⟨(hmem e).mpr hr, hfg⟩, rfl⟩

/-- `--no-deps`: exactly the processes with a requested name stay enabled, without dependencies -/
theorem select_nodeps_spec (p : Project) (req : List String) (hreq : req ≠ []) :
    (selectNoDeps p req).map (·.key) = p.map (·.key) ∧
    ∀ e' ∈ selectNoDeps p req, (e'.disabled = false ↔ e'.name ∈ req) ∧ (e'.disabled = false → e'.deps = []) := by
  have hne : req.isEmpty = false := by cases req <;> simp_all
  constructor
  · simp only [selectNoDeps, hne, Bool.false_eq_true, ↓reduceIte, List.map_map]
    apply List.map_congr_left
    intro e _
    simp only [Function.comp]
    split <;> rfl
  · intro e' he'
    simp only [selectNoDeps, hne, Bool.false_eq_true, ↓reduceIte, List.mem_map] at he'
    obtain ⟨e, _, rfl⟩ := he'
    by_cases h : req.contains e.name
    · simp only [h, ↓reduceIte, true_iff, forall_const]
      exact ⟨by simpa using h, trivial⟩
    · simp only [h, Bool.false_eq_true, ↓reduceIte, Bool.true_eq_false, false_iff, false_implies, and_true]
      simpa using h

/-- processes outside the enabled namespaces are not part of the project that is run -/
theorem admit_spec (p : Project) (nss : List String) (hn : nss ≠ []) (e : Entry) :
    e ∈ admitNs p nss ↔ e ∈ p ∧ e.ns ∈ nss := by
  have : nss.isEmpty = false := by cases nss <;> simp_all
  simp [admitNs, this]

/-! ### Non-vacuity and witnesses -/

def pChain : Project :=
  [{ key := "a", name := "a", deps := ["b"] }, { key := "b", name := "b", deps := ["c"] }, { key := "c", name := "c" }]
def pCycle : Project :=
  [{ key := "a", name := "a", deps := ["b"] }, { key := "b", name := "b", deps := ["w"] },
   { key := "w-0", name := "w", deps := ["a"] }, { key := "w-1", name := "w" }]

-- the hypotheses of the order theorems are satisfiable, and the cycle check sees a cycle through a
-- process name that stands for its replicas
example : (pChain.map (·.key)).Nodup ∧ hasCycle pChain = false ∧ danglingDep pChain = false := by decide
example : runOrder pChain = some ["c", "b", "a"] := by decide
example : hasCycle pCycle = true := by decide
example : danglingDep [{ key := "a", name := "a", deps := ["w"] }, { key := "w-0", name := "w" }, { key := "w-1", name := "w" }] = true := by decide

end PC.Props.C07
