import PC.Model.Output
import PC.Spec.Output
import PC.Model.LogBuf
/-! C11 — output capture: every line reaches the log, once, in order, for every chunking. -/
namespace PC.Props.C11
open PC.Output PC.Spec.Output

private theorem takeLines_append (a b cur : List UInt8) :
    takeLines (a ++ b) cur =
      ((takeLines a cur).1 ++ (takeLines b (takeLines a cur).2).1, (takeLines b (takeLines a cur).2).2) := by
  induction a generalizing cur with
  | nil => simp [takeLines]
  | cons x a ih =>
    simp only [List.cons_append, takeLines]
    by_cases hx : x = nl
    · simp only [hx, ↓reduceIte]; rw [ih]; simp
    · simp only [hx, ↓reduceIte]; rw [ih]

private theorem foldl_feed (chunks : List (List UInt8)) (s : St) :
    chunks.foldl feed s =
      { pending := (takeLines chunks.flatten s.pending).2, out := s.out ++ (takeLines chunks.flatten s.pending).1 } := by
  induction chunks generalizing s with
  | nil => simp [takeLines]
  | cons c cs ih =>
    simp only [List.foldl_cons, List.flatten_cons]
    rw [ih, takeLines_append]
    simp [feed, List.append_assoc]

private theorem split_eq (s cur : List UInt8) :
    splitLines s cur =
      (takeLines s cur).1 ++ (if (takeLines s cur).2 = [] then [] else [(takeLines s cur).2]) := by
  induction s generalizing cur with
  | nil =>
    simp only [splitLines, takeLines]
    by_cases hc : cur = [] <;> simp [hc]
  | cons b bs ih =>
    simp only [splitLines, takeLines, nl]
    by_cases hb : b = 10
    · simp only [hb, ↓reduceIte]; rw [ih]; simp
    · simp only [hb, ↓reduceIte]; rw [ih]

/-- **Every chunking of the stream yields exactly its lines**, in order, each once — including a
    final line without a trailing newline and whatever the read sizes are (1 byte, split inside a
    line, at the newline, empty reads). -/
theorem lines_all (chunks : List (List UInt8)) :
    handleOutput chunks = lines chunks.flatten := by
  unfold handleOutput lines eof
  rw [foldl_feed, split_eq]
  simp only [List.nil_append]
  split <;> simp

/-- nothing is lost or invented: re-joining the lines gives the stream back (up to the final newline) -/
theorem lines_rejoin (s : List UInt8) :
    (lines s).flatMap (· ++ [10]) = if s = [] ∨ s.getLast? = some 10 then s else s ++ [10] := by
  unfold lines
  suffices h : ∀ cur, (splitLines s cur).flatMap (· ++ [10]) =
      if s = [] then (if cur = [] then [] else cur ++ [10])
      else if s.getLast? = some 10 then cur ++ s else cur ++ s ++ [10] by
    have := h []
    by_cases hs : s = []
    · simp [hs] at this ⊢; exact this
    · simp only [hs, ↓reduceIte, List.nil_append, false_or] at this ⊢
      exact this
  induction s with
  | nil => intro cur; simp only [splitLines, ↓reduceIte]; split <;> simp
  | cons b bs ih =>
    intro cur
    simp only [splitLines, List.cons_ne_nil, ↓reduceIte]
    by_cases hb : b = 10
    · subst hb
      simp only [↓reduceIte, List.flatMap_cons]
      rw [ih []]
      by_cases hbs : bs = []
      · subst hbs; simp
      · simp only [hbs, ↓reduceIte, List.nil_append]
        have hl : (10 :: bs).getLast? = bs.getLast? := by
          cases bs with
          | nil => exact absurd rfl hbs
          | cons x xs => simp [List.getLast?_cons_cons]
        rw [hl]
        split <;> simp
    · simp only [hb, ↓reduceIte]
      rw [ih (cur ++ [b])]
      by_cases hbs : bs = []
      · subst hbs
        have : ¬ (some b = some (10 : UInt8)) := by simpa using hb
        simp [this]
      · simp only [hbs, ↓reduceIte]
        have hl : (b :: bs).getLast? = bs.getLast? := by
          cases bs with
          | nil => exact absurd rfl hbs
          | cons x xs => simp [List.getLast?_cons_cons]
        rw [hl]
        split <;> simp

/-- The lines then enter the in-memory log in the same order (the buffer appends; C18 bounds it). -/
theorem lines_reach_log (size : Nat) (ls : List String) (h : ls.length ≤ size + PC.LogBuf.slack) :
    (ls.foldl PC.LogBuf.write (PC.LogBuf.new size)).buffer = ls := by
  suffices key : ∀ (b : PC.LogBuf.Buf) (ls : List String), b.size = size →
      b.buffer.length + ls.length ≤ size + PC.LogBuf.slack → (ls.foldl PC.LogBuf.write b).buffer = b.buffer ++ ls by
    have := key (PC.LogBuf.new size) ls rfl (by simpa [PC.LogBuf.new] using h)
    simpa [PC.LogBuf.new] using this
  intro b ls
  induction ls generalizing b with
  | nil => intro _ _; simp
  | cons l ls ih =>
    intro hs hlen
    simp only [List.foldl_cons, List.length_cons] at hlen ⊢
    have hw : (PC.LogBuf.write b l).buffer = b.buffer ++ [l] := by
      unfold PC.LogBuf.write
      simp only
      rw [if_neg]
      simp only [List.length_append, List.length_singleton, hs]
      omega
    rw [ih (PC.LogBuf.write b l) (by simpa [PC.LogBuf.write] using hs) (by rw [hw]; simp; omega), hw]
    simp

example : handleOutput [[97, 10, 98], [10, 108, 97], [115, 116]] = [[97], [98], [108, 97, 115, 116]] := by decide
example : handleOutput [[97, 10], [], [10]] = [[97], []] := by decide

end PC.Props.C11
