import PC.Tie.Probe
import PC.Spec.Pure
import PC.Proofs.SupArms
import PC.Spec.SupSpec
import PC.Proofs.SupHealth
/-! C10 — health probes: effective parameters are legal; fatal ⇔ threshold reached (pure part). -/
namespace PC.Props.C10
open PC.Probe PC.Go PC.Spec

/-- Whatever integers are configured, the effective parameters are legal. -/
theorem defaults_legal (p : ProbeNums) : Legal (validateAndSetDefaults p) := by
  unfold validateAndSetDefaults Legal
  simp only
  refine ⟨?_, ?_, ?_, ?_, ?_⟩ <;> split <;> omega

/-- Legal configured values are kept as they are. -/
theorem defaults_keep (p : ProbeNums) (h : Legal p) : validateAndSetDefaults p = p := by
  obtain ⟨h1, h2, h3, h4, h5⟩ := h
  unfold validateAndSetDefaults
  cases p with
  | mk a b c d e =>
    simp only at *
    rw [if_neg (by omega), if_neg (by omega), if_neg (by omega), if_neg (by omega), if_neg (by omega)]

theorem defaults_idempotent (p : ProbeNums) :
    validateAndSetDefaults (validateAndSetDefaults p) = validateAndSetDefaults p :=
  defaults_keep _ (defaults_legal p)

theorem defaults_legal_src (p : ProbeNums) : Legal (PC.Gen.Probe.validateAndSetDefaults p) := by
  rw [PC.Tie.Probe.validateAndSetDefaults_eq]; exact defaults_legal p

/-- For every port string and previous value, the effective port is unset (0) or within 1..65535. -/
theorem port_legal (port : String) (n : Int) : portLegal (httpNumPort port n) := by
  unfold httpNumPort portLegal
  simp only
  split <;> omega

theorem port_legal_src (port : String) (n : Int) : portLegal (PC.Gen.Probe.httpNumPort port n) := by
  rw [PC.Tie.Probe.httpNumPort_eq]; exact port_legal port n

/-- A check result is reported (when the prober is not stopped) as ok ⇔ status "ok" and
    fatal ⇔ the contiguous-failure count equals the threshold. -/
theorem fatal_iff (th cf : Int) (st : String) :
    healthCheckCompleted th cf st false = some (decide (st = "ok"), decide (cf = th)) := by
  unfold healthCheckCompleted
  by_cases h1 : cf = th <;> by_cases h2 : st = "ok" <;> simp [h1, h2]

theorem stopped_silent (th cf : Int) (st : String) : healthCheckCompleted th cf st true = none := by
  simp [healthCheckCompleted]

theorem fatal_iff_src (th cf : Int) (st : String) :
    PC.Gen.Probe.healthCheckCompleted th cf st false = some (decide (st = "ok"), decide (cf = th)) := by
  rw [PC.Tie.Probe.healthCheckCompleted_eq]; exact fatal_iff th cf st

private theorem fold_fail (k c : Nat) :
    (List.replicate k false).foldl (fun c ok => if ok then 0 else c + 1) c = c + k := by
  induction k generalizing c with
  | zero => rfl
  | succ k ih => simp only [List.replicate_succ, List.foldl_cons, Bool.false_eq_true, ↓reduceIte, ih]; omega

/-- After `k` consecutive failures following any history that ended in a success, the
    contiguous-failure counter is exactly `k`: the fatal callback fires at the `threshold`-th
    consecutive failure and not before. -/
theorem contiguous_after (pre : List Bool) (k : Nat) :
    contiguous (pre ++ [true] ++ List.replicate k false) = k := by
  unfold contiguous
  rw [List.foldl_append, List.foldl_append]
  simp only [List.foldl_cons, List.foldl_nil, ↓reduceIte]
  rw [fold_fail]; omega

theorem contiguous_initial (k : Nat) : contiguous (List.replicate k false) = k := by
  unfold contiguous; rw [fold_fail]; omega

/-! ### Probe results in the supervisor model -/
section Dynamic
open PC.Sup

/-- A successful readiness check on the running instance (prober not stopped) reports Ready and
    releases the dependents waiting for health. -/
theorem probe_ok_ready (s : Sys) (n : Name) (i : IId) (h : Hints) (hr : s.running.getD n none = some i)
    (hp : (s.inst i).probeStopped = false) (hn : n < s.pstates.length) (hi : i < s.insts.length) :
    ((step s (.probe n true) h).ps n).health = .ready ∧ ((step s (.probe n true) h).inst i).readyDone = true := by
  simp only [step, hr]
  have hp' : (({ s with obs := [] } : Sys).inst i).probeStopped = false := hp
  simp only [hp', Bool.false_eq_true, ↓reduceIte]
  constructor
  · rw [setInst_ps, ps_setPs _ _ _ _ (by simpa using hn)]; simp
  · rw [inst_setInst _ _ _ _ (by simpa using hi)]; simp

/-- A failed (non-fatal) readiness check reports Not Ready. -/
theorem probe_fail_not_ready (s : Sys) (n : Name) (i : IId) (h : Hints) (hr : s.running.getD n none = some i)
    (hp : (s.inst i).probeStopped = false) (hn : n < s.pstates.length) :
    ((step s (.probe n false) h).ps n).health = .notReady := by
  simp only [step, hr]
  have hp' : (({ s with obs := [] } : Sys).inst i).probeStopped = false := hp
  simp only [hp', Bool.false_eq_true, ↓reduceIte]
  rw [ps_setPs _ _ _ _ (by simpa using hn)]; simp

/-- A stopped prober reports nothing (results arriving after a stop are dropped). -/
theorem probe_after_stop_ignored (s : Sys) (n : Name) (i : IId) (h : Hints) (ok : Bool)
    (hr : s.running.getD n none = some i) (hp : (s.inst i).probeStopped = true) :
    (step s (.probe n ok) h).pstates = s.pstates := by
  simp only [step, hr]
  have hp' : (({ s with obs := [] } : Sys).inst i).probeStopped = true := hp
  simp [hp']

/-- `failure_threshold` consecutive failures on an `always` process: it is stopped (internal stop:
    Terminating, signal) and, after the command exits, relaunched (fix P1) with its readiness
    forgotten. -/
def probed : List Cfg := [{ policy := .always, hasReadyProbe := true }]
def fatalRun : List Choice :=
  [.call 0 .runMain, .run 0, .run 1, .run 2, .probe 0 true, .probeFatal 7 0, .run 3, .run 1, .run 1, .run 4]

set_option maxRecDepth 4000 in
example : ((runTrace (init .coarse false probed) fatalRun).2.filter fun o => isLaunch o || (match o with | .stop .. => true | _ => false))
    = [.launch 0, .stop 0 0, .launch 0] := by decide
set_option maxRecDepth 4000 in
example : ((runTrace (init .coarse false probed) fatalRun).1.ps 0).health = .unknown ∧
    ((runTrace (init .coarse false probed) fatalRun).1.ps 0).restarts = 1 := by decide

/-! ### Readiness over whole executions (every schedule, every sequence of events, every map order) -/

/-- run a list of choices, each with its own resolution of the map orders -/
def runH (s : Sys) : List (Choice × Hints) → Sys
  | [] => s
  | (c, h) :: rest => runH (step s c h) rest

theorem runH_append (s : Sys) (a b : List (Choice × Hints)) : runH s (a ++ b) = runH (runH s a) b := by
  induction a generalizing s with
  | nil => rfl
  | cons x a ih => obtain ⟨c, h⟩ := x; simp only [List.cons_append, runH]; exact ih _

/-- no step of the execution `tr` from `s` writes a resetting state (Restarting / Launching /
    Terminating) for process `n` -/
def NoReset (n : Name) (s : Sys) : List (Choice × Hints) → Prop
  | [] => True
  | (c, h) :: rest => (∀ st, Obs.state n st ∈ (step s c h).obs → resets st = false) ∧ NoReset n (step s c h) rest

/-- Ready at the end of an execution: either it was Ready at the beginning and was never reset, or a
    success was delivered for it (a probe success or a ready log line) and it was not reset since. -/
theorem ready_has_cause_from (n : Name) (s : Sys) (tr : List (Choice × Hints))
    (hr : ((runH s tr).ps n).health = .ready) :
    ((s.ps n).health = .ready ∧ NoReset n s tr) ∨
    ∃ pre c h post, tr = pre ++ (c, h) :: post ∧ c.readies n = true ∧ NoReset n (runH s (pre ++ [(c, h)])) post := by
  induction tr generalizing s with
  | nil => exact Or.inl ⟨hr, trivial⟩
  | cons x rest ih =>
    obtain ⟨c, h⟩ := x
    simp only [runH] at hr
    rcases ih (step s c h) hr with ⟨h1, h2⟩ | ⟨pre, c', h', post, e, hc, hn⟩
    · rcases ready_needs_success s c h n h1 with h0 | hc
      · left
        refine ⟨h0, fun st ho => ?_, h2⟩
        cases hs : resets st with
        | false => rfl
        | true => exact absurd h1 (reset_forgets s c h n st ho hs)
      · right
        exact ⟨[], c, h, rest, rfl, hc, h2⟩
    · right
      refine ⟨(c, h) :: pre, c', h', post, by rw [e]; rfl, hc, ?_⟩
      simpa [runH] using hn

/-- **Ready only after a success, and readiness is forgotten at a restart or stop** (C10, global):
    in every execution of the supervisor model from its initial state - any processes, any schedule,
    any sequence of exits, probe results, output lines, timeouts and requests, any map order - a
    process reported Ready at the end had a readiness success delivered (probe success or ready log
    line), and since that delivery no state Restarting / Launching / Terminating was written for it. -/
theorem ready_only_after_success (g : Gran) (ordered : Bool) (cfgs : List Cfg) (n : Name) (tr : List (Choice × Hints))
    (hr : ((runH (init g ordered cfgs) tr).ps n).health = .ready) :
    ∃ pre c h post, tr = pre ++ (c, h) :: post ∧ c.readies n = true ∧
      NoReset n (runH (init g ordered cfgs) (pre ++ [(c, h)])) post := by
  rcases ready_has_cause_from n _ tr hr with ⟨h0, _⟩ | h
  · exfalso
    have : ((init g ordered cfgs).ps n).health = .unknown := by
      unfold Sys.ps init
      simp only [List.getD_eq_getElem?_getD, List.getElem?_map]
      cases cfgs[n]? <;> rfl
    rw [this] at h0; cases h0
  · exact h

/-- a process that was reset and has had no success since is not Ready (contrapositive form used as an oracle) -/
theorem not_ready_after_reset (s : Sys) (c : Choice) (h : Hints) (n : Name) (st : Status)
    (ho : Obs.state n st ∈ (step s c h).obs) (hs : resets st = true) : ((step s c h).ps n).health ≠ .ready :=
  reset_forgets s c h n st ho hs

-- non-vacuity: the execution `fatalRun` (Ready by a probe success, then a fatal probe: stop and relaunch)
-- passes through a Ready state, and is not Ready at the end because of the reset
set_option maxRecDepth 4000 in
example : ((runH (init .coarse false probed) ((fatalRun.take 5).map fun c => (c, {}))).ps 0).health = .ready := by decide

end Dynamic

example : Legal (validateAndSetDefaults ⟨-5, 0, -1, 0, -9⟩) := defaults_legal _
example : validateAndSetDefaults ⟨-5, 0, -1, 0, -9⟩ = ⟨0, 10, 1, 1, 3⟩ := by decide
example : httpNumPort "99999999999999999999" 7 = 0 := by decide
example : httpNumPort "8080" 0 = 8080 := by decide

end PC.Props.C10
