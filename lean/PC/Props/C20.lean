import PC.Proofs.LocksetSound
import PC.Gen.Locks
import PC.Proofs.LockOrder
/-! C20 — concurrent API use: for the shared maps, records and buffers in `claims`, every access site of the
    current source holds the claimed mutex (table regenerated on every run), and a variable accessed
    only under one common mutex has no data race in any execution (`lockset_sound`).
    The remaining tracked fields are listed in `unclaimed`: for them nothing is shown here; the race
    search reports what it reproduces (known findings). -/
namespace PC.Props.C20
open PC.Lockset

/-- (field, mutex) pairs claimed: every access holds the mutex -/
def claims : List (String × String) := [
  ("ProjectRunner.runningProcesses", "runProcMutex"),
  ("ProjectRunner.doneProcesses", "doneProcMutex"),
  ("ProjectRunner.processStates", "statesMutex"),
  ("ProjectRunner.processLogs", "logsMutex"),
  ("Process.procState", "stateMtx"),
  ("Process.done", "Mutex"),
  ("Process.startTime", "timeMutex"),
  ("ProcessLogBuffer.buffer", "mx"),
  ("ProcessLogBuffer.observers", "mx") ]

/-- functions that run before the runner is shared with any other goroutine (called from `NewProjectRunner`) -/
def prePublication : List String := ["initProcessLogs", "initProcessStates"]

/-- **The locking discipline holds on the current source** for every claimed field: each extracted
    access site either runs before publication or holds the claimed mutex. -/
theorem discipline_holds :
    ∀ c ∈ claims, ∀ s ∈ PC.Gen.Locks.sites, s.1 = c.1 → s.2.1 ∈ prePublication ∨ c.2 ∈ s.2.2.2 := by
  decide

/-- every claimed field is actually accessed somewhere (the table is not vacuous) -/
theorem claims_have_sites : ∀ c ∈ claims, (PC.Gen.Locks.sites.filter (·.1 = c.1)).length ≥ 2 := by decide

/-- the tracked fields for which the discipline is NOT shown (no common mutex at all access sites) -/
def unclaimed : List String :=
  ["ProjectRunner.exitCode", "ProjectRunner.project.Processes", "ProjectRunner.projectState", "Process.waitForStoppedCtx"]

theorem unclaimed_exact :
    (PC.Gen.Locks.sites.map (·.1)).eraseDups.filter (fun f => !(claims.map (·.1)).contains f) = unclaimed := by
  decide

/-- **Lockset soundness** (restated): in every well-formed execution in which all accesses to a
    variable are made under one common mutex there is no data race on it. -/
theorem guarded_no_race (tr : Trace) (hwf : WF tr) (x : Var) (l : Lock) (hg : GuardedBy tr x l) : ¬ Race tr x :=
  lockset_sound tr hwf x l hg

/-- the discipline is necessary for this argument: an unguarded pair is a race -/
theorem unguarded_race : Race [.wr 1 "x", .rd 2 "x"] "x" := by
  refine ⟨0, 1, .wr 1 "x", .rd 2 "x", by decide, rfl, rfl, rfl, rfl, by decide, Or.inl rfl, ?_⟩
  intro h
  -- no happens-before edge exists in this trace: every rule needs equal threads or lock events
  have key : ∀ i j, HB [Ev.wr 1 "x", Ev.rd 2 "x"] i j → False := by
    intro i j h
    induction h with
    | po hij hi hj ht =>
      rename_i i j e f
      have hi2 : i < 2 := by
        rcases Nat.lt_or_ge i 2 with h | h
        · exact h
        · rw [List.getElem?_eq_none (by simpa using h)] at hi; cases hi
      have hj2 : j < 2 := by
        rcases Nat.lt_or_ge j 2 with h | h
        · exact h
        · rw [List.getElem?_eq_none (by simpa using h)] at hj; cases hj
      have : i = 0 ∧ j = 1 := by omega
      obtain ⟨rfl, rfl⟩ := this
      simp at hi hj
      subst hi; subst hj
      simp [Ev.tid] at ht
    | sync hij hi hj =>
      rename_i i j t u l
      have hi2 : i < 2 := by
        rcases Nat.lt_or_ge i 2 with h | h
        · exact h
        · rw [List.getElem?_eq_none (by simpa using h)] at hi; cases hi
      have : i = 0 ∨ i = 1 := by omega
      rcases this with rfl | rfl <;> simp at hi
    | trans _ _ ih1 _ => exact ih1
  exact key 0 1 h

/-! ### Lock acquisition order (no mutex-only deadlock) -/

/-- rank of a mutex class in the certificate regenerated with the table -/
def rankOf (c : String) : Nat := ((PC.Gen.Locks.lockRank.find? (·.1 = c)).map (·.2)).getD 0

/-- **The lock acquisition order of the current source is acyclic**: every extracted edge
    "class `b` may be acquired while class `a` may be held" strictly increases the rank — in
    particular no function acquires a mutex of a class while one of the same class may be held. -/
theorem lock_order_acyclic : ∀ e ∈ PC.Gen.Locks.lockEdges, rankOf e.1 < rankOf e.2.1 := by
  decide

/-- the table is not vacuous: nested acquisitions exist, and they involve the mutexes of the claims -/
theorem lock_order_nonvacuous :
    PC.Gen.Locks.lockEdges.length ≥ 5 ∧
    (PC.Gen.Locks.lockEdges.any fun e => e.1 == "ProjectRunner.runProcMutex" && e.2.1 == "Process.stateMtx") = true := by
  decide

/-- the mutexes of `claims`, as classes -/
def claimedClasses : List String :=
  ["ProjectRunner.runProcMutex", "ProjectRunner.doneProcMutex", "ProjectRunner.statesMutex", "ProjectRunner.logsMutex",
   "Process.stateMtx", "Process.Mutex", "Process.timeMutex", "ProcessLogBuffer.mx"]

/-- every mutex of the claims is a class the order analysis found in the source -/
theorem claimed_mutexes_ranked : ∀ c ∈ claimedClasses, c ∈ PC.Gen.Locks.lockClasses := by
  decide

/-- **No mutex-only deadlock**: threads that wait for a mutex of class `b` while holding one of class
    `a` only where the table has the edge `(a, b)` (what the extractor establishes for the code it
    sees) can never form a set in which each waits for a mutex held by another — for any number of
    threads and objects. Waits on channels, wait groups and condition variables are not mutexes and
    are outside this theorem. -/
theorem no_mutex_deadlock (ts : List PC.LockOrder.Thr)
    (hc : ∀ t ∈ ts, PC.LockOrder.Covered PC.Gen.Locks.lockEdges t) : ¬ PC.LockOrder.Deadlock ts :=
  PC.LockOrder.table_no_deadlock _ rankOf lock_order_acyclic ts hc

/-- the hypothesis is met by a non-trivial state: shutdown holds `runProcMutex` and waits for a
    process's state mutex held by that process's goroutine, which waits for nothing -/
example : ∀ t ∈ ([⟨[⟨"ProjectRunner.runProcMutex", 0⟩], some ⟨"Process.stateMtx", 1⟩⟩,
                  ⟨[⟨"Process.stateMtx", 1⟩], none⟩] : List PC.LockOrder.Thr),
    PC.LockOrder.Covered PC.Gen.Locks.lockEdges t := by
  intro t ht
  simp only [List.mem_cons, List.mem_nil_iff, or_false] at ht
  rcases ht with rfl | rfl
  · intro w hw h hh
    simp only [Option.some.injEq] at hw; subst hw
    simp only [List.mem_singleton] at hh; subst hh
    exact ⟨"ProjectRunner.ShutDownProject", by decide⟩
  · intro w hw; cases hw

end PC.Props.C20
