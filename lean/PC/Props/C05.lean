import PC.Proofs.SupGate
import PC.Proofs.SupPassRule
import PC.Spec.SupSpec
/-! C05 — unsatisfiable dependency ⇒ dependent skipped, transitively (supervisor model). -/
namespace PC.Props.C05
open PC.Sup

/-- The skip path: the dependent is reported Skipped with exit code 1, is done (its own dependents
    are released) and does not enter `run()` (its goroutine goes to `proc:skipped`, from where only
    the shutdown trigger / clean-up follow). -/
theorem skip_effect_core (s : Sys) (t : Tid) (i : IId) (ht : t < s.threads.length) (hi : i < s.insts.length)
    (hn : s.nameOf i < s.pstates.length) :
    let s' := (onProcessEnd s i .skipped).setPc t .procSkipped
    (s'.ps (s.nameOf i)).status = .skipped ∧ (s'.ps (s.nameOf i)).exit = 1 ∧
    (s'.inst i).done = true ∧ (s'.thr t).pc = .procSkipped ∧ (s'.obs.filter isLaunch) = s.obs.filter isLaunch := by
  have hname : (s.setInst i endInst).nameOf i = s.nameOf i := nameOf_setInst _ _ _ _ (fun x => rfl)
  refine ⟨?_, ?_, ?_, ?_, ?_⟩
  · simp only [onProcessEnd, setState, setPc_ps, emit_ps, hname]
    rw [ps_setPs _ _ _ _ (by simpa using hn)]
    simp only [↓reduceIte]
    rw [emit_ps, ps_setPs _ _ _ _ (by simpa using hn)]
    simp
  · simp only [onProcessEnd, setState, setPc_ps, emit_ps, hname]
    rw [ps_setPs _ _ _ _ (by simpa using hn)]
    simp
  · simp only [onProcessEnd, setState, setPc_inst, emit_inst, setPs_inst]
    rw [inst_setInst _ _ _ _ hi]; simp [endInst]
  · rw [thr_setPc_self]
    simpa [onProcessEnd, setState] using ht
  · simp [onProcessEnd, setState, Sys.emit, Sys.setPc, Sys.setPs, Sys.setInst, List.filter_append, isLaunch]

/-- the skip path as the code runs it: the instance is first recorded in the done registry (so that
    its own dependents still find it after it has been unregistered), then ended as Skipped -/
theorem skip_effect (s : Sys) (t : Tid) (i : IId) (ht : t < s.threads.length) (hi : i < s.insts.length)
    (hn : s.nameOf i < s.pstates.length) :
    let s' := doSkip s t i
    (s'.ps (s.nameOf i)).status = .skipped ∧ (s'.ps (s.nameOf i)).exit = 1 ∧
    (s'.inst i).done = true ∧ (s'.thr t).pc = .procSkipped ∧ (s'.obs.filter isLaunch) = s.obs.filter isLaunch ∧
    s'.doneM.getD (s.nameOf i) none = (if s.nameOf i < s.doneM.length then some i else none) := by
  have h := skip_effect_core (addDone s i) t i ht hi hn
  refine ⟨h.1, h.2.1, h.2.2.1, h.2.2.2.1, h.2.2.2.2, ?_⟩
  simp only [doSkip, onProcessEnd, setState, Sys.setPc, Sys.emit, Sys.setPs, Sys.setInst, addDone]
  split <;> simp_all [List.getD_eq_getElem?_getD]

/-- **Transitivity**: a skipped process counts as ended with a non-zero exit code, so a dependent
    waiting with `process_completed_successfully` on a name whose reported exit code is non-zero
    (1 for Skipped) is skipped in turn when it wakes up. -/
theorem skip_propagates (s : Sys) (t : Tid) (i d : IId) (rest)
    (h : (s.ps (s.nameOf d)).exit ≠ 0) :
    armWaitDone s t i d true rest = doSkip s t i := by
  simp [armWaitDone, h]

/-- `exit_on_skipped`: the skipped process records project exit code 1 and shuts the project down -/
theorem exit_on_skipped (s : Sys) (t : Tid) (i : IId) (h : (s.icfg i).exitOnSkipped = true)
    (hs : s.exitCodeSet = false) :
    (armProcSkipped s t i).exitCode = 1 := by
  simp [armProcSkipped, h, recordExit, hs, Sys.emit, Sys.setPc]

/-! ### Skipped means never launched, in every continuation -/

theorem tail_not_launch {pc : Pc} (h : pc.isTail = true) : pc.isLaunch = false := by
  have := tail_other h
  unfold Pc.isOther at this
  simp only [Bool.and_eq_true, Bool.not_eq_eq_eq_not, Bool.not_true] at this
  exact this.1

/-- **A skipped process is never launched**: once the thread of a process has taken the skip path
    (its wait ended with the condition unmet) it stands at `proc:skipped`, and in every state
    reachable from there — whatever happens later to its dependencies, whatever requests are made —
    it is outside the launch phase of `run()`, the only place where a command is started. -/
theorem skipped_never_launched (s s' : Sys) (t : Tid) (i : IId) (ht : t < s.threads.length)
    (hk : (s.thr t).kind = .proc i) (hpc : (s.thr t).pc = .procSkipped) (hr : Reach s s') :
    (s'.thr t).pc.isLaunch = false :=
  tail_not_launch (tail_forever hr t i ht hk (by rw [hpc]; rfl)).2.2

/-- the three ways a wait ends in the skip path: a non-zero exit code under
    `process_completed_successfully`, a dependency not Ready under `process_healthy`, no ready line
    under `process_log_ready` -/
theorem unmet_condition_skips (s : Sys) (t : Tid) (i d : IId) (rest) (ht : t < s.threads.length) :
    ((s.ps (s.nameOf d)).exit ≠ 0 → ((armWaitDone s t i d true rest).thr t).pc = .procSkipped) ∧
    ((s.ps (s.nameOf d)).health ≠ .ready → ((armWaitReady s t i d rest).thr t).pc = .procSkipped) ∧
    ((s.inst d).logReady ≠ .ok → ((armWaitLogReady s t i d rest).thr t).pc = .procSkipped) := by
  have hskip : ((doSkip s t i).thr t).pc = .procSkipped := by
    unfold doSkip; exact pc_setPc _ _ _ (by simpa [addDone] using ht)
  refine ⟨fun h => ?_, fun h => ?_, fun h => ?_⟩
  · simp [armWaitDone, h, hskip]
  · simp [armWaitReady, h, hskip]
  · simp [armWaitLogReady, h, hskip]


/-! ### Launched means every declared condition was met — in every execution, at any depth -/

/-- **No launch past an unmet condition.** In every state the supervisor can reach, a process thread
    that stands in the launch phase of `run()` (the only place where a command is started) has, for
    each of its dependencies, either found no instance under that name when it looked, or found an
    instance `d` and woke up from its wait on `d` in a state `s1` of this very execution in which the
    declared condition held: reported exit code 0 under `process_completed_successfully`, health
    Ready under `process_healthy`, the ready line seen (not the abort) under `process_log_ready`.
    Since a skipped process is reported with exit code 1 (`skip_effect`), this is the transitive
    rule at every depth: the dependents of a skipped process are launched only if its name reports
    exit code 0 again (a later manual restart that succeeds), never on the strength of the skip. -/
theorem launch_needs_met (gr : Gran) (o : Bool) (cfgs : List Cfg) (s : Sys) (h : Reach (init gr o cfgs) s)
    (t : Tid) (ht : t < s.threads.length) (i : IId) (hk : (s.thr t).kind = .proc i)
    (hl : (s.thr t).pc.isLaunch = true) :
    ∀ dep ∈ (s.icfg i).deps,
      GateEv.notFound i dep.1 ∈ s.gate ∨
      ∃ d s1, GateEv.found i dep.1 d ∈ s.gate ∧ ReachF (init gr o cfgs) s1 ∧ ReachF s1 s ∧ Met s1 dep.2 d := by
  have g := reach_gateInv gr o cfgs h
  intro dep hd
  rcases (g.thr t ht i hk).2.1 hl dep hd with e | ⟨d, e1, e2⟩
  · exact Or.inl e
  · obtain ⟨s1, t1, h1, r1, r0, r2, m, _, _⟩ :=
      passed_was_met h.fine (by intro i d c hm; simp [init] at hm) i d dep.2 e2
    exact Or.inr ⟨d, s1, e1, r1, r0.trans r2, m⟩

/-- the contrapositive, for `process_completed_successfully`: a dependent that found its dependency
    and never saw its name report exit code 0 in this execution is not in the launch phase -/
theorem unmet_never_launched (gr : Gran) (o : Bool) (cfgs : List Cfg) (s : Sys) (h : Reach (init gr o cfgs) s)
    (t : Tid) (ht : t < s.threads.length) (i : IId) (hk : (s.thr t).kind = .proc i)
    (k : Name) (hd : (k, Cond.completedOk) ∈ (s.icfg i).deps)
    (hf : GateEv.notFound i k ∉ s.gate)
    (hne : ∀ d s1, GateEv.found i k d ∈ s.gate → ReachF (init gr o cfgs) s1 → ReachF s1 s →
      (s1.ps (s1.nameOf d)).exit ≠ 0) :
    (s.thr t).pc.isLaunch = false := by
  cases hl : (s.thr t).pc.isLaunch with
  | false => rfl
  | true =>
    rcases launch_needs_met gr o cfgs s h t ht i hk hl _ hd with e | ⟨d, s1, e1, r1, r2, m⟩
    · exact absurd e hf
    · exact absurd m (hne d s1 e1 r1 r2)

/-! Non-vacuity: a → b → c chained with `process_completed_successfully`; `a` exits 3:
    `b` and `c` are both skipped (exit code 1) and neither is launched. -/
def chain3 : List Cfg := [{}, { deps := [(0, .completedOk)] }, { deps := [(1, .completedOk)] }]
def tr3 : List Choice := [.call 0 .runMain, .run 0, .run 1, .run 2, .run 3, .exit 0 3, .run 1, .run 2, .run 3]

set_option maxRecDepth 4000 in
example : let s := (runTrace (init .coarse false chain3) tr3).1
    (s.ps 1).status = .skipped ∧ (s.ps 1).exit = 1 ∧ (s.ps 2).status = .skipped ∧ (s.ps 2).exit = 1 := by decide
set_option maxRecDepth 4000 in
example : (runTrace (init .coarse false chain3) tr3).2.filter isLaunch = [.launch 0] := by decide

/-- the hypotheses of `launch_needs_met` are met by a real execution: `a` exits 0, `b` (which waits
    for `a` to complete successfully) is woken, passes and stands in the launch phase -/
example :
    let s := (runTrace (init .coarse false [{}, { deps := [(0, .completedOk)] }])
      [.call 0 .runMain, .run 0, .run 1, .run 2, .exit 0 0, .run 1, .run 2]).1
    (s.thr 2).kind = .proc 1 ∧ (s.thr 2).pc.isLaunch = true ∧
    s.gate = [.passed 1 0 .completedOk, .found 1 0 0] := by decide

end PC.Props.C05
