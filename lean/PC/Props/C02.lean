import PC.Tie.Restart
import PC.Spec.Pure
/-! C02 — restart policy: decision table and back-off (pure part; the loop is in `Sup`). -/
namespace PC.Props.C02
open PC.Restart PC.Spec

/-- The decision taken after an exit is exactly the policy, for every policy string, every
    `max_restarts`, every restart count, every exit code and both values of the stop flag. -/
theorem restartable_spec (policy : String) (maxRestarts restarts code : Int) (stopped : Bool) :
    isRestartable policy maxRestarts restarts code stopped = true ↔
      restartWanted policy maxRestarts restarts code stopped := by
  unfold isRestartable restartWanted
  by_cases hs : stopped = true
  · simp [hs]
  · have hs' : stopped = false := by cases stopped <;> simp_all
    subst hs'
    by_cases h1 : policy = "no"
    · subst h1; simp
    by_cases h2 : policy = ""
    · subst h2; simp
    by_cases h3 : policy = "exit_on_failure"
    · subst h3
      by_cases hc : code = 0 <;> simp [hc] <;> try decide
    by_cases h4 : policy = "on_failure"
    · subst h4
      by_cases hc : code = 0 <;> by_cases hm : maxRestarts = 0 <;> simp [hc, hm] <;> try decide
    by_cases h5 : policy = "always"
    · subst h5
      by_cases hc : code = 0 <;> by_cases hm : maxRestarts = 0 <;> simp [hc, hm] <;> try decide
    simp [h1, h2, h3, h4, h5]

theorem restartable_spec_src (policy : String) (maxRestarts restarts code : Int) (stopped : Bool) :
    PC.Gen.Restart.isRestartable policy maxRestarts restarts code stopped = true ↔
      restartWanted policy maxRestarts restarts code stopped := by
  rw [PC.Tie.Restart.isRestartable_eq]; exact restartable_spec ..

/-- Never restarted for `no`, the empty policy and `exit_on_failure`. -/
theorem never_for_no (p : String) (h : p = "no" ∨ p = "" ∨ p = "exit_on_failure") (m r c : Int) (s : Bool) :
    isRestartable p m r c s = false := by
  have := restartable_spec p m r c s
  cases hb : isRestartable p m r c s
  · rfl
  · have hw := this.mp hb
    unfold restartWanted at hw
    rcases h with h | h | h <;> subst h <;> simp at hw <;> exact absurd hw.2.1 (by decide)

/-- Once a stop was requested the process is not restartable, whatever the policy. -/
theorem never_after_stop (p : String) (m r c : Int) : isRestartable p m r c true = false := by
  simp [isRestartable]

/-- With `max_restarts` set, the decision is negative as soon as the count reaches it. -/
theorem max_bound (p : String) (m r c : Int) (s : Bool) (hm : 0 < m) (hr : m ≤ r) :
    isRestartable p m r c s = false := by
  cases hb : isRestartable p m r c s
  · rfl
  · have hw := (restartable_spec p m r c s).mp hb
    unfold restartWanted at hw
    omega

/-- The back-off is the configured number of seconds, and at least one second. -/
theorem backoff_ge_one (b : Int) : getBackoffSeconds b = max 1 b := by
  unfold getBackoffSeconds
  simp only
  split <;> omega

theorem backoff_ge_one_src (b : Int) : PC.Gen.Restart.getBackoffSeconds b = max 1 b := by
  rw [PC.Tie.Restart.getBackoffSeconds_eq]; exact backoff_ge_one b

example : isRestartable "on_failure" 2 1 3 false = true := by decide
example : isRestartable "on_failure" 2 2 3 false = false := by decide
example : restartWanted "always" 0 7 0 false := by unfold restartWanted; decide

end PC.Props.C02
