import PC.Tie.Restart
import PC.Proofs.SupRestart
import PC.Spec.Pure
import PC.Proofs.SupArms
import PC.Spec.SupSpec
import PC.Proofs.SupFlow
/-! C02 — restart policy: decision table and back-off (pure part; the loop is in `Sup`). -/
namespace PC.Props.C02
open PC.Restart PC.Spec

/-- The decision taken after an exit is exactly the policy, for every policy string, every
    `max_restarts`, every restart count, every exit code and both values of the stop flag. -/
theorem restartable_spec (policy : String) (maxRestarts restarts code : Int) (stopped : Bool) :
    isRestartable policy maxRestarts restarts code stopped = true ↔
      restartWanted policy maxRestarts restarts code stopped := by
  unfold isRestartable restartWanted
  by_cases hs : stopped = true
  · simp [hs]
  · have hs' : stopped = false := by cases stopped <;> simp_all
    subst hs'
    by_cases h1 : policy = "no"
    · subst h1; simp
    by_cases h2 : policy = ""
    · subst h2; simp
    by_cases h3 : policy = "exit_on_failure"
    · subst h3
      by_cases hc : code = 0 <;> simp [hc] <;> try decide
    by_cases h4 : policy = "on_failure"
    · subst h4
      by_cases hc : code = 0 <;> by_cases hm : maxRestarts = 0 <;> simp [hc, hm] <;> try decide
    by_cases h5 : policy = "always"
    · subst h5
      by_cases hc : code = 0 <;> by_cases hm : maxRestarts = 0 <;> simp [hc, hm] <;> try decide
    simp [h1, h2, h3, h4, h5]

theorem restartable_spec_src (policy : String) (maxRestarts restarts code : Int) (stopped : Bool) :
    PC.Gen.Restart.isRestartable policy maxRestarts restarts code stopped = true ↔
      restartWanted policy maxRestarts restarts code stopped := by
  rw [PC.Tie.Restart.isRestartable_eq]; exact restartable_spec ..

/-- Never restarted for `no`, the empty policy and `exit_on_failure`. -/
theorem never_for_no (p : String) (h : p = "no" ∨ p = "" ∨ p = "exit_on_failure") (m r c : Int) (s : Bool) :
    isRestartable p m r c s = false := by
  have := restartable_spec p m r c s
  cases hb : isRestartable p m r c s
  · rfl
  · have hw := this.mp hb
    unfold restartWanted at hw
    rcases h with h | h | h <;> subst h <;> simp at hw <;> exact absurd hw.2.1 (by decide)

/-- Once a stop was requested the process is not restartable, whatever the policy. -/
theorem never_after_stop (p : String) (m r c : Int) : isRestartable p m r c true = false := by
  simp [isRestartable]

/-- With `max_restarts` set, the decision is negative as soon as the count reaches it. -/
theorem max_bound (p : String) (m r c : Int) (s : Bool) (hm : 0 < m) (hr : m ≤ r) :
    isRestartable p m r c s = false := by
  cases hb : isRestartable p m r c s
  · rfl
  · have hw := (restartable_spec p m r c s).mp hb
    unfold restartWanted at hw
    omega

/-- The back-off is the configured number of seconds, and at least one second. -/
theorem backoff_ge_one (b : Int) : getBackoffSeconds b = max 1 b := by
  unfold getBackoffSeconds
  simp only
  split <;> omega

theorem backoff_ge_one_src (b : Int) : PC.Gen.Restart.getBackoffSeconds b = max 1 b := by
  rw [PC.Tie.Restart.getBackoffSeconds_eq]; exact backoff_ge_one b

/-! ### The restart loop of the supervisor model -/
section Loop
open PC.Sup

/-- After an exit the goroutine goes to the back-off wait exactly when `isRestartable` says so
    (evaluated on the policy, `max_restarts`, the restart count, the exit code and the stop flag as
    they are at that instant); otherwise the process ends. -/
theorem relaunch_iff (s : Sys) (t : Tid) (i : IId) (ht : t < s.threads.length) :
    ((armRunExited s t i).thr t).pc = .backoff ↔
      isRestartable (policyString (s.icfg i).policy) (s.icfg i).maxRestarts (s.ps (s.nameOf i)).restarts
        (s.ps (s.nameOf i)).exit (s.inst i).isStopped = true := by
  unfold armRunExited decideRestart
  simp only [Sys.icfg]
  by_cases hr : isRestartable (policyString (s.cfg (s.nameOf i)).policy) (s.cfg (s.nameOf i)).maxRestarts
      (s.ps (s.nameOf i)).restarts (s.ps (s.nameOf i)).exit (s.inst i).isStopped = true
  · simp only [hr, ↓reduceIte, iff_true]
    rw [thr_setPc_self]
    simpa [setState] using ht
  · simp only [hr, Bool.false_eq_true, ↓reduceIte, iff_false]
    rw [thr_setPc_self]
    · simp
    · simpa [onProcessEnd, setState] using ht

/-- ... and therefore exactly when the availability policy demands it (`restartable_spec`). -/
theorem relaunch_iff_policy (s : Sys) (t : Tid) (i : IId) (ht : t < s.threads.length) :
    ((armRunExited s t i).thr t).pc = .backoff ↔
      restartWanted (policyString (s.icfg i).policy) (s.icfg i).maxRestarts (s.ps (s.nameOf i)).restarts
        (s.ps (s.nameOf i)).exit (s.inst i).isStopped := by
  rw [relaunch_iff s t i ht, restartable_spec]

/-- The back-off wait ends the loop without a relaunch when the run context was cancelled (a stop
    or shutdown was requested); otherwise it goes on to the relaunch. -/
theorem backoff_cancelled_no_relaunch (s : Sys) (t : Tid) (i : IId) (ht : t < s.threads.length) :
    ((armBackoff s t i).thr t).pc =
      (if (s.inst i).runCancelled then .procRan ((onProcessEnd s i .completed).ps ((onProcessEnd s i .completed).nameOf i)).exit
       else .backoffElapsed) := by
  unfold armBackoff
  split
  · rw [thr_setPc_self]; simpa [onProcessEnd, setState] using ht
  · rw [thr_setPc_self _ _ _ ht]

/-- A stop request (`StopProcess`, shutdown) cancels the run context before its first scheduling
    point; an internal stop (failed readiness probe) does not, so that the process is restarted. -/
theorem stop_cancels_run (s : Sys) (t : Tid) (i : IId) (k : StopK) (hi : i < s.insts.length) :
    ((gotoStop s t i true k).inst i).runCancelled = true := by
  unfold gotoStop
  simp only [setPc_inst]
  rw [inst_setInst _ _ _ _ hi]; simp

theorem internal_stop_keeps_loop (s : Sys) (t : Tid) (i : IId) (k : StopK) (hi : i < s.insts.length) :
    ((gotoStop s t i false k).inst i).runCancelled = (s.inst i).runCancelled := by
  unfold gotoStop
  simp only [setPc_inst]
  rw [inst_setInst _ _ _ _ hi]; simp

/-- Full statement "no launch once a stop of that process has been served" — false at fine
    granularity (window W3: the goroutine sits at `backoff:elapsed` while `StopProcess` returns). -/
def C02_noLaunchAfterStop_full : Prop :=
  ∀ (g : Gran) (cfgs : List Cfg) (tr : List Choice) (id : Nat), noStartCalls tr = true →
    launchAfterRet id (runTrace (init g false cfgs) tr).2 = false

def w3 : List Choice :=
  [.call 0 .runMain, .run 0, .run 1, .run 1, .run 1, .exit 0 1, .run 1, .run 1, .run 1, .call 1 (.stop 0),
   .run 2, .run 2, .run 2, .run 1]

theorem C02_noLaunchAfterStop_full_fails : ¬ C02_noLaunchAfterStop_full := by
  intro h
  have := h .fine [{ policy := .always }] w3 1 (by decide)
  revert this
  decide

/-- the same history at coarse granularity: the stop wins, nothing is relaunched -/
example : launchAfterRet 1 (runTrace (init .coarse false [{ policy := .always }])
    [.call 0 .runMain, .run 0, .run 1, .exit 0 1, .run 1, .call 1 (.stop 0), .run 2, .run 1]).2 = false := by decide

/-- restart count = number of relaunches on a never-stopped process (3 exits, always) -/
def exits3 : List Choice :=
  [.call 0 .runMain, .run 0, .run 1, .exit 0 1, .run 1, .run 1, .exit 0 0, .run 1, .run 1, .exit 0 2, .run 1, .run 1]

example : ((runTrace (init .coarse false [{ policy := .always }]) exits3).1.ps 0).restarts = 3 ∧
    ((runTrace (init .coarse false [{ policy := .always }]) exits3).2.filter isLaunch).length = 4 := by decide

end Loop

example : isRestartable "on_failure" 2 1 3 false = true := by decide
example : isRestartable "on_failure" 2 2 3 false = false := by decide
example : restartWanted "always" 0 7 0 false := by unfold restartWanted; decide

/-! ### global: the restart counter and `max_restarts` -/

/-- **Every reachable state, every schedule**: the restart counter of a process whose `max_restarts`
    is set never exceeds it. (The decision `isRestartable` — the translated code — allows a restart
    under `max_restarts = m ≠ 0` only while the counter is below `m`; the restart decision is the only
    arm that touches a counter: `stepThread_r`, 60 per-arm lemmas.) -/
theorem restarts_never_exceed_max (g : PC.Sup.Gran) (o : Bool) (cfgs : List PC.Sup.Cfg) {s : PC.Sup.Sys}
    (hr : PC.Sup.Reach (PC.Sup.init g o cfgs) s) (n : PC.Sup.Name) (hn : (s.cfg n).maxRestarts ≠ 0) :
    (s.ps n).restarts ≤ (s.cfg n).maxRestarts :=
  PC.Sup.reachF_rInv g o cfgs hr.fine n hn

/-- not vacuous, and tight: `always` with `max_restarts: 2` — after the third exit the counter is 2
    and the process is Completed, not relaunched -/
example :
    let s := (PC.Sup.runTrace (PC.Sup.init .coarse false [{ policy := .always, maxRestarts := 2 }])
      [.call 0 .runMain, .run 0, .run 1, .exit 0 0, .run 1, .run 1, .exit 0 0, .run 1, .run 1, .exit 0 0, .run 1]).1
    (s.ps 0).restarts = 2 ∧ (s.ps 0).status = .completed := by
  set_option maxRecDepth 8000 in decide

/-- **Never relaunched under `no` / `exit_on_failure`** (C02, global): in every state the supervisor
    model passes through - every schedule at either granularity, every sequence of exits, probe
    results, timeouts and requests, overlapping instances included - an instance of a process whose
    availability policy is `no` (or unset) or `exit_on_failure` has been launched at most once,
    whatever its exit codes were. (The goroutine of such an instance is never in the back-off: the
    only way there is the restart decision, which the translated `isRestartable` refuses.) -/
theorem never_relaunched_without_restart_policy (g : PC.Sup.Gran) (o : Bool) (cfgs : List PC.Sup.Cfg) {s : PC.Sup.Sys}
    (hr : PC.Sup.Reach (PC.Sup.init g o cfgs) s) (i : PC.Sup.IId) (hi : i < s.insts.length)
    (hp : (s.icfg i).policy = .no ∨ (s.icfg i).policy = .exitOnFailure) : (s.inst i).launches ≤ 1 :=
  PC.Sup.never_relaunched g o cfgs hr.fine i hi (by rcases hp with h | h <;> rw [h] <;> rfl)

-- not vacuous: under `exit_on_failure` a failing command is launched once (and brings the project down)
example :
    let s := (PC.Sup.runTrace (PC.Sup.init .coarse false [{ policy := .exitOnFailure }, {}])
      [.call 0 .runMain, .run 0, .run 1, .run 2, .exit 0 3, .run 1, .run 1]).1
    (s.inst 0).launches = 1 ∧ (s.ps 0).exit = 3 := by
  set_option maxRecDepth 8000 in decide

end PC.Props.C02
