import PC.Model.Daemon
/-! Theorems about the daemon life-cycle model (C09, C10): every history of requests and events. -/
namespace PC.Props.Daemon
open PC.Daemon

/-- what holds in every state of every history -/
structure Inv (d : D) : Prop where
  /-- a live command is being waited for by the process goroutine -/
  alive_waited : d.alive = true → d.phase = .cmdWait
  /-- the goroutine has ended exactly in state Completed, with no command alive -/
  ended_completed : d.phase = .ended → d.status = "Completed" ∧ d.alive = false
  completed_ended : d.status = "Completed" → d.phase = .ended
  /-- only a daemon whose launcher exited with 0 waits for the notification -/
  wait_daemon : d.phase = .daemonWait → d.daemon = true ∧ d.alive = false ∧ d.exit = 0
  /-- while the command is awaited it is alive -/
  cmdWait_alive : d.phase = .cmdWait → d.alive = true

theorem launch_inv (d : D) : Inv (launch d) := by
  constructor <;> simp [launch] <;> (try split) <;> simp

theorem endProc_inv (d : D) : Inv (endProc d) := by
  constructor <;> simp [endProc]

theorem decide_inv (d : D) : Inv (decide' d) := by
  unfold decide'
  simp only
  split
  · split
    · exact endProc_inv _
    · exact launch_inv _
  · exact endProc_inv _

theorem afterExit_inv (d : D) (c : Int) : Inv (afterExit d c) := by
  unfold afterExit
  simp only
  split
  · rename_i h
    split
    · exact decide_inv _
    · constructor <;> simp [h.1, h.2]
  · exact decide_inv _

theorem notify_inv (d : D) (h : Inv d) : Inv (notify d) := by
  unfold notify
  split
  · exact h
  · split
    · exact decide_inv _
    · exact ⟨h.alive_waited, h.ended_completed, h.completed_ended, h.wait_daemon, h.cmdWait_alive⟩

theorem init_inv (policy : String) (max : Int) (daemon sdcmd : Bool) (onsig : Option Int) :
    Inv (init policy max daemon sdcmd onsig) := launch_inv _

theorem step_inv (d : D) (op : Op) (h : Inv d) : Inv (step d op).1 := by
  cases op with
  | query => exact h
  | exit c =>
    simp only [step]
    split
    · exact afterExit_inv _ _
    · exact h
  | live =>
    simp only [step]
    split
    · exact h
    · split
      · exact h
      · split
        · exact h
        · exact notify_inv d h
  | start =>
    simp only [step]
    split
    · exact h
    · exact launch_inv _
  | stop =>
    simp only [step]
    split
    · exact h
    · split
      · exact h
      · have hs : Inv ({ d with stopped := true, cancelled := true } : D) :=
          ⟨h.alive_waited, h.ended_completed, h.completed_ended, h.wait_daemon, h.cmdWait_alive⟩
        split
        · rename_i hr
          have hne : d.status ≠ "Completed" := by
            intro e; rw [e] at hr; simp [isRunningStatus] at hr
          have ht : Inv ({ d with stopped := true, cancelled := true, status := "Terminating", probers := false } : D) := by
            refine ⟨h.alive_waited, ?_, ?_, h.wait_daemon, h.cmdWait_alive⟩
            · intro hp; exact absurd (h.ended_completed hp).1 hne
            · intro hc; simp at hc
          split
          · exact notify_inv _ ht
          · split
            · split
              · exact afterExit_inv _ _
              · exact ht
            · exact ht
        · exact hs

/-- **Every history**: whatever requests and events arrive in whatever order, the invariant holds. -/
theorem run_inv (policy : String) (max : Int) (daemon sdcmd : Bool) (onsig : Option Int) (ops : List Op) :
    Inv (ops.foldl (fun d op => (step d op).1) (init policy max daemon sdcmd onsig)) := by
  have : ∀ (ops : List Op) (d : D), Inv d → Inv (ops.foldl (fun d op => (step d op).1) d) := by
    intro ops
    induction ops with
    | nil => intro d h; exact h
    | cons op r ih => intro d h; exact ih _ (step_inv d op h)
  exact this ops _ (init_inv _ _ _ _ _)

/-- C09: the process is reported Completed only with no command alive — in every history -/
theorem completed_not_alive (policy : String) (max : Int) (daemon sdcmd : Bool) (onsig : Option Int) (ops : List Op)
    (h : (ops.foldl (fun d op => (step d op).1) (init policy max daemon sdcmd onsig)).status = "Completed") :
    (ops.foldl (fun d op => (step d op).1) (init policy max daemon sdcmd onsig)).alive = false := by
  have g := run_inv policy max daemon sdcmd onsig ops
  exact (g.ended_completed (g.completed_ended h)).2

/-- C10: the liveness probe of a launched daemon fails for good: the daemon is treated as exited
    and its restart policy decides — relaunched (one more launch, state Launching) ... -/
theorem liveness_failure_relaunches (d : D) (hd : d.daemon = true) (hw : d.phase = .daemonWait) (hp : d.probers = true)
    (hq : d.queued = false) (hc : d.cancelled = false)
    (hr : PC.Restart.isRestartable d.policy d.max d.restarts d.exit d.stopped = true) :
    (step d .live).1.launches = d.launches + 1 ∧ (step d .live).1.status = "Launching" ∧
      (step d .live).1.restarts = d.restarts + 1 ∧ (step d .live).1.alive = true := by
  simp [step, D.registered, hw, hq, hp, notify, hd, decide', hr, hc, launch]

/-- ... or ended, when the policy does not ask for a restart -/
theorem liveness_failure_ends (d : D) (hd : d.daemon = true) (hw : d.phase = .daemonWait) (hp : d.probers = true)
    (hq : d.queued = false)
    (hr : PC.Restart.isRestartable d.policy d.max d.restarts d.exit d.stopped = false) :
    (step d .live).1.status = "Completed" ∧ (step d .live).1.phase = .ended := by
  simp [step, D.registered, hw, hq, hp, notify, hd, decide', hr, endProc]

/-- C09: a stop request on a daemon that is still launching takes effect (Terminating; with a
    shutdown command the notification is queued and the daemon ends when its launcher does) -/
theorem stop_while_launching (d : D) (hs : d.status = "Launching") (hr : d.phase = .cmdWait) (hq : d.queued = false) :
    (step d .stop).2 = "ok" ∧ ((step d .stop).1.status = "Terminating" ∨ (step d .stop).1.status = "Completed" ∨
      (step d .stop).1.status = "Launched") := by
  simp only [step, D.registered, hr, hq]
  simp only [hs, isRunningStatus]
  simp
  split
  · simp [notify]; split <;> simp
  · split
    · split
      · rename_i c _
        refine ⟨by trivial, ?_⟩
        unfold afterExit
        simp only
        split
        · simp
        · unfold decide'
          simp [PC.Restart.isRestartable, endProc]
      · simp
    · simp

/-- non-vacuity: a daemon with `restart: always`; launcher exits 0; liveness fails → relaunched -/
example :
    let d := ([Op.exit 0, Op.live] : List Op).foldl (fun d op => (step d op).1) (init "always" 0 true true (some 0))
    d.status = "Launching" ∧ d.launches = 2 ∧ d.restarts = 1 := by decide

end PC.Props.Daemon
