import PC.Proofs.SupGate
import PC.Spec.SupSpec
/-! C01 — dependency gating (supervisor model). -/
namespace PC.Props.C01
open PC.Sup

/-! ### A waiter is runnable exactly when its latch is set -/

theorem wait_done_enabled_iff (s : Sys) (u : Tid) (d ok rest) (h : (s.thr u).pc = .waitDone d ok rest) :
    enabledThr s u = true ↔ (s.inst d).done = true := by simp [enabledThr, h]
theorem wait_ready_enabled_iff (s : Sys) (u : Tid) (d rest) (h : (s.thr u).pc = .waitReady d rest) :
    enabledThr s u = true ↔ (s.inst d).readyDone = true := by simp [enabledThr, h]
theorem wait_logready_enabled_iff (s : Sys) (u : Tid) (d rest) (h : (s.thr u).pc = .waitLogReady d rest) :
    enabledThr s u = true ↔ (s.inst d).logReady ≠ .none := by simp [enabledThr, h]
theorem wait_started_enabled_iff (s : Sys) (u : Tid) (d rest) (h : (s.thr u).pc = .waitStarted d rest) :
    enabledThr s u = true ↔ ((s.inst d).started = true ∨ (s.inst d).runCancelled = true) := by
  simp [enabledThr, h]

/-! ### What a woken waiter does: it proceeds only if the condition is met, otherwise it is skipped -/

/-- `process_completed_successfully`: the dependent proceeds to its next dependency iff the
    dependency's exit code is 0; otherwise it takes the skip path (and never reaches `run()`). -/
theorem gate_completed_ok (s : Sys) (t : Tid) (i d : IId) (rest) (ht : t < s.threads.length) :
    ((armWaitDone s t i d true rest).thr t).pc =
      (if (s.ps (s.nameOf d)).exit = 0 then Pc.depNext rest else Pc.procSkipped) := by
  unfold armWaitDone
  by_cases h : (s.ps (s.nameOf d)).exit = 0
  · simp [h, thr_setPc_notePassed_self _ _ _ _ _ _ ht]
  · simp only [h, true_and, ne_eq, not_false_eq_true, ↓reduceIte, doSkip]
    rw [thr_setPc_self]
    simpa [onProcessEnd, setState, addDone] using ht

/-- `process_completed`: any exit code lets the dependent proceed. -/
theorem gate_completed (s : Sys) (t : Tid) (i d : IId) (rest) (ht : t < s.threads.length) :
    ((armWaitDone s t i d false rest).thr t).pc = Pc.depNext rest := by
  simp [armWaitDone, thr_setPc_notePassed_self _ _ _ _ _ _ ht]

/-- `process_healthy`: proceeds iff the dependency is reported Ready when the waiter wakes. -/
theorem gate_healthy (s : Sys) (t : Tid) (i d : IId) (rest) (ht : t < s.threads.length) :
    ((armWaitReady s t i d rest).thr t).pc =
      (if (s.ps (s.nameOf d)).health = .ready then Pc.depNext rest else Pc.procSkipped) := by
  unfold armWaitReady
  by_cases h : (s.ps (s.nameOf d)).health = .ready
  · simp [h, thr_setPc_notePassed_self _ _ _ _ _ _ ht]
  · simp only [h, ↓reduceIte, doSkip]
    rw [thr_setPc_self]
    simpa [onProcessEnd, setState, addDone] using ht

/-- `process_log_ready`: proceeds iff the ready line was seen (the latch was released as `ok`). -/
theorem gate_logready (s : Sys) (t : Tid) (i d : IId) (rest) (ht : t < s.threads.length) :
    ((armWaitLogReady s t i d rest).thr t).pc =
      (if (s.inst d).logReady = .ok then Pc.depNext rest else Pc.procSkipped) := by
  unfold armWaitLogReady
  by_cases h : (s.inst d).logReady = .ok
  · simp [h, thr_setPc_notePassed_self _ _ _ _ _ _ ht]
  · simp only [h, ↓reduceIte, doSkip]
    rw [thr_setPc_self]
    simpa [onProcessEnd, setState, addDone] using ht

/-- The log-ready latch is `ok` only through a ready line: every other release marks it `aborted`,
    and once set it never changes (`Inst.Le.logReady`). -/
theorem logready_never_reverts {s0 s : Sys} (h : Reach s0 s) (d : IId) (hd : d < s0.insts.length)
    (hl : (s0.inst d).logReady ≠ .none) : (s.inst d).logReady = (s0.inst d).logReady :=
  ((reach_fwd h).old d hd).logReady hl

/-- **Latches never revert along any execution**: done, started, readiness released, run cancelled. -/
theorem latches_never_revert {s0 s : Sys} (h : Reach s0 s) (d : IId) (hd : d < s0.insts.length) :
    ((s0.inst d).done = true → (s.inst d).done = true) ∧
    ((s0.inst d).started = true → (s.inst d).started = true) ∧
    ((s0.inst d).readyDone = true → (s.inst d).readyDone = true) ∧
    ((s0.inst d).runCancelled = true → (s.inst d).runCancelled = true) :=
  let l := (reach_fwd h).old d hd
  ⟨l.done, l.started, l.readyDone, l.runCancelled⟩

/-- **No lost wake-up, for every schedule**: once a dependency's latch is set, a dependent parked on
    it stays runnable until it is scheduled, whatever other threads and external events do. -/
theorem released_waiter_stays_released (s : Sys) (c : Choice) (h : Hints) (u : Tid) (d : IId)
    (hu : u < s.threads.length) (hne : u ≠ c.tid s)
    (hw : (s.thr u).pc.latchWait = some d) (he : enabledThr s u = true) :
    (step s c h).thr u = s.thr u ∧ enabledThr (step s c h) u = true :=
  no_lost_wakeup s c h u d hu hne hw he

/-! Non-vacuity: a two-process chain `b` depends on `a` (completed successfully); `b` is launched
    only after `a` exited with 0, and is skipped when `a` exits with 3. -/
def chain : List Cfg := [{}, { deps := [(0, .completedOk)] }]
def chainRun (code : Int) : List Choice :=
  [.call 0 .runMain, .run 0, .run 2, .run 1, .exit 0 code, .run 1, .run 2]

example : ((runTrace (init .coarse false chain) (chainRun 0)).2.filter isLaunch) = [.launch 0, .launch 1] := by decide
example : ((runTrace (init .coarse false chain) (chainRun 3)).2.filter isLaunch) = [.launch 0] := by decide
example : ((runTrace (init .coarse false chain) (chainRun 3)).1.ps 1).status = .skipped := by decide


/-! ### The gate as an invariant of every reachable state (all schedules, all histories) -/

/-- **Dependency gating.** In every state reachable from the start — whatever the schedule, the
    requests issued, the exits, probe results and the order in which Go iterated its maps — a
    process thread that stands anywhere in the launch phase of `run()` (from its entry to the
    back-off, i.e. wherever a command can be started) has every one of its dependencies covered:
    either no instance was registered under that name when the process looked it up, or the
    process found an instance `d` under that name, was woken from its wait on `d` for the
    configured condition, and the corresponding latch of `d` (done / readiness released / ready
    line or abort recorded / started) is set — and still is. -/
theorem launch_gated (gr : Gran) (o : Bool) (cfgs : List Cfg) (s : Sys) (h : Reach (init gr o cfgs) s)
    (t : Tid) (ht : t < s.threads.length) (i : IId) (hk : (s.thr t).kind = .proc i)
    (hl : (s.thr t).pc.isLaunch = true) :
    ∀ dep ∈ (s.icfg i).deps,
      GateEv.notFound i dep.1 ∈ s.gate ∨
      ∃ d, GateEv.found i dep.1 d ∈ s.gate ∧ GateEv.passed i d dep.2 ∈ s.gate ∧ latchB s dep.2 d = true := by
  have g := reach_gateInv gr o cfgs h
  intro dep hd
  rcases (g.thr t ht i hk).2.1 hl dep hd with e | ⟨d, e1, e2⟩
  · exact Or.inl e
  · exact Or.inr ⟨d, e1, e2, g.passed i d dep.2 e2⟩

/-- a command is started by `doLaunch` only, which runs at the labels `run:checked` and
    `backoff:elapsed` — both in the launch phase -/
theorem launch_sites (s : Sys) (t : Tid) (i : IId) (h : Hints) :
    stepProc s t i h .backoffElapsed = doLaunch s t i ∧
    Pc.isLaunch .runChecked = true ∧ Pc.isLaunch .backoffElapsed = true := ⟨rfl, rfl, rfl⟩

/-- while the dependency phase lasts, every dependency is still to be looked up, is the one being
    waited on (on the instance that was found), or is already covered -/
theorem dep_phase_progress (gr : Gran) (o : Bool) (cfgs : List Cfg) (s : Sys) (h : Reach (init gr o cfgs) s)
    (t : Tid) (ht : t < s.threads.length) (i : IId) (hk : (s.thr t).kind = .proc i)
    (hp : (s.thr t).pc.isDep = true) :
    ∀ dep ∈ (s.icfg i).deps, dep ∈ restOf (s.thr t).pc ∨ Covered s i dep ∨
      ∃ d, curOf (s.thr t).pc = some (d, dep.2) ∧ GateEv.found i dep.1 d ∈ s.gate :=
  ((reach_gateInv gr o cfgs h).thr t ht i hk).2.2 hp

/-- the hypotheses of `launch_gated` are met by a real execution: `b` depends on `a` completing;
    after `a` exited and `b` was woken, `b`'s thread stands at `cmd:wait` with its dependency
    recorded as found and passed -/
example :
    let s := (runTrace (init .coarse false [{}, { deps := [(0, .completed)] }])
      [.call 0 .runMain, .run 0, .run 1, .run 2, .exit 0 0, .run 1, .run 2]).1
    (s.thr 2).kind = .proc 1 ∧ (s.thr 2).pc.isLaunch = true ∧
    s.gate = [.passed 1 0 .completed, .found 1 0 0] := by decide

end PC.Props.C01
