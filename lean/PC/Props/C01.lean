import PC.Proofs.SupArms
import PC.Spec.SupSpec
/-! C01 — dependency gating (supervisor model). -/
namespace PC.Props.C01
open PC.Sup

/-! ### A waiter is runnable exactly when its latch is set -/

theorem wait_done_enabled_iff (s : Sys) (u : Tid) (d ok rest) (h : (s.thr u).pc = .waitDone d ok rest) :
    enabledThr s u = true ↔ (s.inst d).done = true := by simp [enabledThr, h]
theorem wait_ready_enabled_iff (s : Sys) (u : Tid) (d rest) (h : (s.thr u).pc = .waitReady d rest) :
    enabledThr s u = true ↔ (s.inst d).readyDone = true := by simp [enabledThr, h]
theorem wait_logready_enabled_iff (s : Sys) (u : Tid) (d rest) (h : (s.thr u).pc = .waitLogReady d rest) :
    enabledThr s u = true ↔ (s.inst d).logReady ≠ .none := by simp [enabledThr, h]
theorem wait_started_enabled_iff (s : Sys) (u : Tid) (d rest) (h : (s.thr u).pc = .waitStarted d rest) :
    enabledThr s u = true ↔ ((s.inst d).started = true ∨ (s.inst d).runCancelled = true) := by
  simp [enabledThr, h]

/-! ### What a woken waiter does: it proceeds only if the condition is met, otherwise it is skipped -/

/-- `process_completed_successfully`: the dependent proceeds to its next dependency iff the
    dependency's exit code is 0; otherwise it takes the skip path (and never reaches `run()`). -/
theorem gate_completed_ok (s : Sys) (t : Tid) (i d : IId) (rest) (ht : t < s.threads.length) :
    ((armWaitDone s t i d true rest).thr t).pc =
      (if (s.ps (s.nameOf d)).exit = 0 then Pc.depNext rest else Pc.procSkipped) := by
  unfold armWaitDone
  by_cases h : (s.ps (s.nameOf d)).exit = 0
  · simp [h, thr_setPc_notePassed_self _ _ _ _ _ _ ht]
  · simp only [h, true_and, ne_eq, not_false_eq_true, ↓reduceIte, doSkip]
    rw [thr_setPc_self]
    simpa [onProcessEnd, setState] using ht

/-- `process_completed`: any exit code lets the dependent proceed. -/
theorem gate_completed (s : Sys) (t : Tid) (i d : IId) (rest) (ht : t < s.threads.length) :
    ((armWaitDone s t i d false rest).thr t).pc = Pc.depNext rest := by
  simp [armWaitDone, thr_setPc_notePassed_self _ _ _ _ _ _ ht]

/-- `process_healthy`: proceeds iff the dependency is reported Ready when the waiter wakes. -/
theorem gate_healthy (s : Sys) (t : Tid) (i d : IId) (rest) (ht : t < s.threads.length) :
    ((armWaitReady s t i d rest).thr t).pc =
      (if (s.ps (s.nameOf d)).health = .ready then Pc.depNext rest else Pc.procSkipped) := by
  unfold armWaitReady
  by_cases h : (s.ps (s.nameOf d)).health = .ready
  · simp [h, thr_setPc_notePassed_self _ _ _ _ _ _ ht]
  · simp only [h, ↓reduceIte, doSkip]
    rw [thr_setPc_self]
    simpa [onProcessEnd, setState] using ht

/-- `process_log_ready`: proceeds iff the ready line was seen (the latch was released as `ok`). -/
theorem gate_logready (s : Sys) (t : Tid) (i d : IId) (rest) (ht : t < s.threads.length) :
    ((armWaitLogReady s t i d rest).thr t).pc =
      (if (s.inst d).logReady = .ok then Pc.depNext rest else Pc.procSkipped) := by
  unfold armWaitLogReady
  by_cases h : (s.inst d).logReady = .ok
  · simp [h, thr_setPc_notePassed_self _ _ _ _ _ _ ht]
  · simp only [h, ↓reduceIte, doSkip]
    rw [thr_setPc_self]
    simpa [onProcessEnd, setState] using ht

/-- The log-ready latch is `ok` only through a ready line: every other release marks it `aborted`,
    and once set it never changes (`Inst.Le.logReady`). -/
theorem logready_never_reverts {s0 s : Sys} (h : Reach s0 s) (d : IId) (hd : d < s0.insts.length)
    (hl : (s0.inst d).logReady ≠ .none) : (s.inst d).logReady = (s0.inst d).logReady :=
  ((reach_fwd h).old d hd).logReady hl

/-- **Latches never revert along any execution**: done, started, readiness released, run cancelled. -/
theorem latches_never_revert {s0 s : Sys} (h : Reach s0 s) (d : IId) (hd : d < s0.insts.length) :
    ((s0.inst d).done = true → (s.inst d).done = true) ∧
    ((s0.inst d).started = true → (s.inst d).started = true) ∧
    ((s0.inst d).readyDone = true → (s.inst d).readyDone = true) ∧
    ((s0.inst d).runCancelled = true → (s.inst d).runCancelled = true) :=
  let l := (reach_fwd h).old d hd
  ⟨l.done, l.started, l.readyDone, l.runCancelled⟩

/-- **No lost wake-up, for every schedule**: once a dependency's latch is set, a dependent parked on
    it stays runnable until it is scheduled, whatever other threads and external events do. -/
theorem released_waiter_stays_released (s : Sys) (c : Choice) (h : Hints) (u : Tid) (d : IId)
    (hu : u < s.threads.length) (hne : u ≠ c.tid s)
    (hw : (s.thr u).pc.latchWait = some d) (he : enabledThr s u = true) :
    (step s c h).thr u = s.thr u ∧ enabledThr (step s c h) u = true :=
  no_lost_wakeup s c h u d hu hne hw he

/-! Non-vacuity: a two-process chain `b` depends on `a` (completed successfully); `b` is launched
    only after `a` exited with 0, and is skipped when `a` exits with 3. -/
def chain : List Cfg := [{}, { deps := [(0, .completedOk)] }]
def chainRun (code : Int) : List Choice :=
  [.call 0 .runMain, .run 0, .run 2, .run 1, .exit 0 code, .run 1, .run 2]

example : ((runTrace (init .coarse false chain) (chainRun 0)).2.filter isLaunch) = [.launch 0, .launch 1] := by decide
example : ((runTrace (init .coarse false chain) (chainRun 3)).2.filter isLaunch) = [.launch 0] := by decide
example : ((runTrace (init .coarse false chain) (chainRun 3)).1.ps 1).status = .skipped := by decide

end PC.Props.C01
