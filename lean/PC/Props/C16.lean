import PC.Model.Load
import PC.Props.C13
/-! C16 — loading applies defaults and gives each replica its own configuration; the loaded set
    does not depend on the order in which the process map is visited. Also the scaling theorems
    of C13 that need the load model (`scale_eq_fresh`). -/
namespace PC.Props.C16
open PC.Load

theorem mem_replicasOf {g : Vars} {p : ProcT} {n : Nat} {r : Replica} :
    r ∈ replicasOf g p n ↔ ∃ i, i < n ∧ r = mkReplica g p n i := by
  simp only [replicasOf, List.mem_map, List.mem_range]
  constructor
  · rintro ⟨i, hi, rfl⟩; exact ⟨i, hi, rfl⟩
  · rintro ⟨i, hi, rfl⟩; exact ⟨i, hi, rfl⟩

theorem effReplicas_pos (p : ProcT) (h : 0 ≤ p.replicas) : 1 ≤ effReplicas p := by
  unfold effReplicas; split <;> omega

/-- **Defaults**: every loaded replica carries its process's name, a non-empty namespace
    (`default` when none is configured), at least one replica and a positive launch timeout. -/
theorem defaults (g : Vars) (p : ProcT) (hrep : 0 ≤ p.replicas) (r : Replica) (h : r ∈ loadProc g p) :
    r.name = p.name ∧ r.ns ≠ [] ∧ 1 ≤ r.replicas ∧ 1 ≤ r.launchTimeout ∧
    (p.ns = [] → r.ns = sDefault) ∧ (p.ns ≠ [] → r.ns = p.ns) := by
  obtain ⟨i, _, rfl⟩ := mem_replicasOf.mp h
  refine ⟨rfl, ?_, effReplicas_pos p hrep, ?_, ?_, ?_⟩
  · simp only [mkReplica]; split <;> simp_all [sDefault]
  · simp only [mkReplica]; split <;> omega
  · intro h; simp [mkReplica, h]
  · intro h; simp [mkReplica, h]

/-- exactly the configured number of replicas (one when `replicas` is absent), numbered `0 … n-1` -/
theorem count (g : Vars) (p : ProcT) :
    (loadProc g p).length = effReplicas p ∧ (loadProc g p).map (·.num) = List.range (effReplicas p) := by
  constructor
  · simp [loadProc, replicasOf]
  · simp only [loadProc, replicasOf, List.map_map]
    conv => rhs; rw [← List.map_id (List.range (effReplicas p))]
    apply List.map_congr_left
    intro i _; rfl

/-- replica names are derived from the replica count and pairwise distinct within a process -/
theorem names_unique (g : Vars) (p : ProcT) : ((loadProc g p).map (·.replicaName)).Nodup := by
  simp only [loadProc, replicasOf, List.map_map]
  by_cases hn : 2 ≤ effReplicas p
  · have := PC.Props.C13.names_nodup p.name (effReplicas p) hn
    unfold PC.Replica.replicaNames at this
    simpa [Function.comp_def, mkReplica] using this
  · have : effReplicas p = 0 ∨ effReplicas p = 1 := by omega
    rcases this with h | h <;> simp [h, List.range_succ]

theorem lookup_replicaVars (p : ProcT) (i : Nat) :
    lookupVar (replicaVars p i) sReplicaNum = some (natStr i) := by
  simp [lookupVar, replicaVars, List.find?]

/-- **Each replica is rendered with its own variables and its own replica number**: every
    templated field of a loaded replica is the template rendered with that replica's variables, in
    which `PC_REPLICA_NUM` is the replica's own number. -/
theorem own_render (g : Vars) (p : ProcT) (r : Replica) (h : r ∈ loadProc g p) :
    r.command = render g (replicaVars p r.num) p.command ∧
    r.workingDir = render g (replicaVars p r.num) p.workingDir ∧
    r.logLocation = render g (replicaVars p r.num) p.logLocation ∧
    r.description = render g (replicaVars p r.num) p.description ∧
    r.readiness = renderProbe g (replicaVars p r.num) (unparse p.workingDir) p.readiness ∧
    r.liveness = renderProbe g (replicaVars p r.num) (unparse p.workingDir) p.liveness ∧
    lookupVar r.vars sReplicaNum = some (natStr r.num) := by
  obtain ⟨i, _, rfl⟩ := mem_replicasOf.mp h
  exact ⟨rfl, rfl, rfl, rfl, rfl, rfl, lookup_replicaVars p i⟩

/-- a reference to `PC_REPLICA_NUM` renders as the replica's own number -/
theorem replica_num_renders (g : Vars) (p : ProcT) (i : Nat) :
    render g (replicaVars p i) [.var sReplicaNum] = natStr i := by
  simp [render, renderSeg, lookup_replicaVars, String.join]

/-- the replicas of a project are exactly the replicas of its processes: no process's replicas
    depend on any other process -/
theorem mem_load (g : Vars) (ps : List ProcT) (r : Replica) :
    r ∈ load g ps ↔ ∃ p ∈ ps, r ∈ loadProc g p := by
  simp [load, List.mem_flatMap]

/-- **Determinism across iteration orders**: visiting the process map in another order loads the
    same set of replica configurations. -/
theorem load_order_indep (g : Vars) (ps ps' : List ProcT) (hp : ps.Perm ps') (r : Replica) :
    r ∈ load g ps ↔ r ∈ load g ps' := by
  rw [mem_load, mem_load]
  constructor
  · rintro ⟨p, hp1, h⟩; exact ⟨p, hp.mem_iff.mp hp1, h⟩
  · rintro ⟨p, hp1, h⟩; exact ⟨p, hp.mem_iff.mpr hp1, h⟩

/-- and, when replica names do not clash, the configuration found under each replica name is the same -/
theorem lookup_order_indep (g : Vars) (ps ps' : List ProcT) (hp : ps.Perm ps')
    (_hnd : ((load g ps).map (·.replicaName)).Nodup) (rn : Str) (r : Replica)
    (h : lookupReplica (load g ps) rn = some r) : r ∈ load g ps' ∧ r.replicaName = rn := by
  unfold lookupReplica at h
  have hm := List.mem_of_find?_eq_some h
  have hk := List.find?_some h
  exact ⟨(load_order_indep g ps ps' hp r).mp hm, by simpa using hk⟩

/-! ### Scaling = fresh load (used by C13) -/

theorem recount_mk (g : Vars) (p : ProcT) (m n i : Nat) : recount n (mkReplica g p m i) = mkReplica g p n i := by
  simp [recount, mkReplica]

private theorem filter_range_lt (m n : Nat) (h : n ≤ m) : (List.range m).filter (· < n) = List.range n := by
  induction m with
  | zero => have : n = 0 := by omega
            subst this; rfl
  | succ m ih =>
    rw [List.range_succ, List.filter_append]
    by_cases hn : n ≤ m
    · rw [ih hn]
      have : ¬ m < n := by omega
      simp [this]
    · have : n = m + 1 := by omega
      subst this
      have h1 : (List.range m).filter (· < m + 1) = List.range m := by
        apply List.filter_eq_self.mpr
        intro a ha; simp at ha ⊢; omega
      rw [h1]; simp [List.range_succ]

/-- **A scale request to `n ≥ 1` leaves exactly the replica set a fresh load with `replicas: n`
    produces** (names, numbers, counts and every rendered field), whatever the count before. -/
theorem scale_eq_fresh (g : Vars) (p : ProcT) (m n : Nat) (_hn : 1 ≤ n) :
    scaleTo g p (replicasOf g p m) n = replicasOf g p n := by
  unfold scaleTo
  have hlen : (replicasOf g p m).length = m := by simp [replicasOf]
  rw [hlen]
  by_cases h1 : m < n
  · simp only [h1, ↓reduceIte]
    have hsplit : List.range n = List.range m ++ (List.range (n - m)).map (m + ·) := by
      have : n = m + (n - m) := by omega
      conv => lhs; rw [this]
      exact List.range_add
    simp only [replicasOf]
    rw [hsplit]
    simp [Function.comp_def, recount_mk]
  · simp only [h1, ↓reduceIte]
    by_cases h2 : n < m
    · simp only [h2, ↓reduceIte, replicasOf]
      rw [List.filter_map]
      have : ((fun r : Replica => decide (r.num < n)) ∘ mkReplica g p m) = fun i => decide (i < n) := by
        funext i; rfl
      rw [this, filter_range_lt m n (by omega)]
      simp only [List.map_map]
      apply List.map_congr_left; intro i _; exact recount_mk g p m n i
    · have : m = n := by omega
      subst this; simp

/-- the last valid target of a history of scale requests (`cur` when there is none) -/
def lastValid (cur : Nat) (reqs : List Int) : Nat :=
  reqs.foldl (fun c n => if n < 1 then c else n.toNat) cur

/-- **Any history of scale requests** (valid or not) from a freshly loaded process ends in the
    replica set a fresh load with the last valid target would produce; invalid requests (`n < 1`)
    change nothing. -/
theorem scale_history (g : Vars) (p : ProcT) (m : Nat) (reqs : List Int) :
    reqs.foldl (scaleReq g p) (replicasOf g p m) = replicasOf g p (lastValid m reqs) := by
  induction reqs generalizing m with
  | nil => rfl
  | cons n rest ih =>
    simp only [List.foldl_cons, lastValid]
    by_cases hn : n < 1
    · simp only [scaleReq, hn, ↓reduceIte]; exact ih m
    · simp only [scaleReq, hn, ↓reduceIte]
      rw [scale_eq_fresh g p m n.toNat (by omega)]
      exact ih n.toNat

theorem invalid_noop (g : Vars) (p : ProcT) (cur : List Replica) (n : Int) (h : n < 1) :
    scaleReq g p cur n = cur := by simp [scaleReq, h]

/-- **Survivors keep their configuration**: a replica that exists before and after a scale request
    differs only in the recorded count and the (re-padded) name. -/
theorem survivor_config (g : Vars) (p : ProcT) (m n i : Nat) :
    let a := mkReplica g p m i
    let b := mkReplica g p n i
    b.command = a.command ∧ b.workingDir = a.workingDir ∧ b.description = a.description ∧
    b.logLocation = a.logLocation ∧ b.readiness = a.readiness ∧ b.liveness = a.liveness ∧
    b.vars = a.vars ∧ b.num = a.num := by
  simp [mkReplica]

/-! ### The behaviour before the repair (replicas sharing one probe): order-dependent -/

def witnessP : ProcT :=
  { name := ['w'], replicas := 2, readiness := .exec [.lit ['c', 'k', ' '], .var sReplicaNum] [] }

/-- with the probe shared between replicas, the loaded project depends on which replica was
    rendered first, and replica 1 does not carry its own number -/
theorem shared_probe_order_dependent :
    loadProcShared [] witnessP 0 ≠ loadProcShared [] witnessP 1 ∧
    ((loadProcShared [] witnessP 0).map (·.readiness)) = [.exec ['c', 'k', ' ', '0'] [], .exec ['c', 'k', ' ', '0'] []] := by
  simp [loadProcShared, loadProc, replicasOf, effReplicas, witnessP, mkReplica, renderProbe, render, renderSeg,
    replicaVars, lookupVar, natStr, PC.Replica.decimal, PC.Replica.digitChar, List.range_succ, sReplicaNum, unparse]

example : (loadProc [] witnessP).map (·.readiness) = [.exec ['c', 'k', ' ', '0'] [], .exec ['c', 'k', ' ', '1'] []] := by
  simp [loadProc, replicasOf, effReplicas, witnessP, mkReplica, renderProbe, render, renderSeg,
    replicaVars, lookupVar, natStr, PC.Replica.decimal, PC.Replica.digitChar, List.range_succ, sReplicaNum, unparse]

end PC.Props.C16
