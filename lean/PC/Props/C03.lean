import PC.Proofs.SupArms
import PC.Spec.SupSpec
/-! C03 — shutdown completeness (supervisor model). -/
namespace PC.Props.C03
open PC.Sup

/-- `prepareForShutDown` + the stop of every running instance: after `ShutDownProject` picked its
    order, every instance in it carries the do-not-restart flag. -/
theorem prepared_all_stopped (s : Sys) (t : Tid) (h : Hints) (k : SdK) (i : IId)
    (hi : i < s.insts.length) (n : Name) (hn : s.running.getD n none = some i) (hlt : n < s.cfgs.length) :
    ((sdBody s t h k).inst i).isStopped = true := by
  unfold sdBody
  simp only [setPc_inst]
  -- the fold sets the flag on every member of the order, and `i` is a member
  have key : ∀ (l : List IId) (s0 : Sys), i < s0.insts.length → (i ∈ l ∨ (s0.inst i).isStopped = true) →
      ((l.foldl (fun s j => s.setInst j fun x => { x with isStopped := true }) s0).inst i).isStopped = true := by
    intro l
    induction l with
    | nil => intro s0 _ h; simpa using h
    | cons j l ih =>
      intro s0 hlen h
      simp only [List.foldl_cons]
      apply ih
      · simpa [Sys.setInst] using hlen
      · by_cases hj : j = i
        · right; subst hj; rw [inst_setInst _ _ _ _ hlen]; simp
        · rcases h with h | h
          · rcases List.mem_cons.mp h with h | h
            · exact absurd h.symm hj
            · exact Or.inl h
          · right; rw [inst_setInst _ _ _ _ hlen]; simp [hj, h]
  apply key
  · simpa using hi
  · left
    have hsome : (s.running.getD n none).isSome = true := by rw [hn]; rfl
    have hr : n ∈ (List.range s.cfgs.length).filter fun m => (s.running.getD m none).isSome :=
      List.mem_filter.mpr ⟨List.mem_range.mpr hlt, hsome⟩
    rw [List.mem_filterMap]
    refine ⟨n, ?_, hn⟩
    rw [List.mem_append]
    by_cases hm : n ∈ h.sdOrder
    · left; exact List.mem_filter.mpr ⟨hm, by simpa using hr⟩
    · right; exact List.mem_filter.mpr ⟨hr, by simpa using hm⟩

/-- `run()` refuses to launch once the process is marked Terminating or this very instance was
    stopped (its run context cancelled), and ends it. -/
theorem terminating_refuses_launch (s : Sys) (t : Tid) (i : IId) (ht : t < s.threads.length)
    (h : (s.ps (s.nameOf i)).status = .terminating ∨ (s.inst i).runCancelled = true) :
    ((armRunEnter s t i).thr t).pc = .procRan 0 := by
  unfold armRunEnter
  simp only [h, ↓reduceIte]
  rw [thr_setPc_self]
  simpa [onProcessEnd, setState] using ht

/-- The shutdown call returns only when every waiter it spawned has finished. -/
theorem shutdown_waits_for_waiters (s : Sys) (u : Tid) (k : SdK) (h : (s.thr u).pc = .sdWg k) :
    enabledThr s u = true ↔ s.sdWg = 0 := by simp [enabledThr, h]

/-! ### The full statement fails at fine granularity (windows W1, W3) -/

/-- Full statement (no launch after a shutdown returned, without a new start request). -/
def C03_noLaunch_full : Prop :=
  ∀ (g : Gran) (cfgs : List Cfg) (tr : List Choice), noStartCalls tr = true →
    launchAfterShutdown (runTrace (init g false cfgs) tr).2 = false

/-- W1: the goroutine sits between the `Terminating` check and the launch (`run:checked`) while a
    shutdown runs to completion; the command is launched after `ShutDownProject` returned. -/
def w1 : List Choice :=
  [.call 0 .runMain, .run 0, .run 1, .run 1, .call 1 .shutdown, .run 2, .run 2, .run 2, .run 2, .run 2, .run 2,
   .run 3, .run 3, .run 2, .run 1]

theorem C03_noLaunch_full_fails : ¬ C03_noLaunch_full := by
  intro h
  have := h .fine [{}] w1 (by decide)
  revert this
  decide

/-- W3 (shutdown variant): the goroutine sits at `backoff:elapsed`; the shutdown finds nothing to
    signal, the command is relaunched, and the shutdown call then waits for a command that nobody
    will stop: in the final state one command is alive, the shutdown has not returned and no thread
    is runnable. -/
def w3s : List Choice :=
  [.call 0 .runMain, .run 0, .run 1, .run 1, .run 1, .exit 0 1, .run 1, .run 1, .run 1, .call 1 .shutdown,
   .run 2, .run 2, .run 2, .run 2, .run 2, .run 1, .run 3]

theorem w3_shutdown_blocks_on_unsignalled_command :
    let s := (runTrace (init .fine false [{ policy := .always }]) w3s).1
    aliveCount s 0 = 1 ∧ (s.thr 2).pc = .sdWg .api ∧ ((List.range 4).all fun u => !enabledThr s u) = true := by
  decide

/-- Partial statement that does hold on the same scenario at coarse granularity (no preemption
    inside the windows): nothing is launched after the shutdown returned. -/
example : launchAfterShutdown (runTrace (init .coarse false [{}])
    [.call 0 .runMain, .run 0, .call 1 .shutdown, .run 2, .run 3, .run 2, .run 1, .run 0]).2 = false := by decide

end PC.Props.C03
