import PC.Proofs.SupArms
import PC.Proofs.SupSd
import PC.Proofs.SupSdSeq
import PC.Spec.SupSpec
/-! C03 — shutdown completeness (supervisor model). -/
namespace PC.Props.C03
open PC.Sup

/-- `prepareForShutDown` + the stop of every running instance: after `ShutDownProject` picked its
    order, every instance in it carries the do-not-restart flag. -/
theorem prepared_all_stopped (s : Sys) (t : Tid) (h : Hints) (k : SdK) (i : IId)
    (hi : i < s.insts.length) (n : Name) (hn : s.running.getD n none = some i) (hlt : n < s.cfgs.length) :
    ((sdBody s t h k).inst i).isStopped = true := by
  unfold sdBody
  simp only [setPc_inst]
  -- the fold sets the flag on every member of the order, and `i` is a member
  have key : ∀ (l : List IId) (s0 : Sys), i < s0.insts.length → (i ∈ l ∨ (s0.inst i).isStopped = true) →
      ((l.foldl (fun s j => s.setInst j fun x => { x with isStopped := true }) s0).inst i).isStopped = true := by
    intro l
    induction l with
    | nil => intro s0 _ h; simpa using h
    | cons j l ih =>
      intro s0 hlen h
      simp only [List.foldl_cons]
      apply ih
      · simpa [Sys.setInst] using hlen
      · by_cases hj : j = i
        · right; subst hj; rw [inst_setInst _ _ _ _ hlen]; simp
        · rcases h with h | h
          · rcases List.mem_cons.mp h with h | h
            · exact absurd h.symm hj
            · exact Or.inl h
          · right; rw [inst_setInst _ _ _ _ hlen]; simp [hj, h]
  apply key
  · simpa using hi
  · left
    have hsome : (s.running.getD n none).isSome = true := by rw [hn]; rfl
    have hr : n ∈ (List.range s.cfgs.length).filter fun m => (s.running.getD m none).isSome :=
      List.mem_filter.mpr ⟨List.mem_range.mpr hlt, hsome⟩
    rw [List.mem_filterMap]
    refine ⟨n, ?_, hn⟩
    rw [List.mem_append]
    by_cases hm : n ∈ h.sdOrder
    · left; exact List.mem_filter.mpr ⟨hm, by simpa using hr⟩
    · right; exact List.mem_filter.mpr ⟨hr, by simpa using hm⟩

/-- `run()` refuses to launch once the process is marked Terminating or this very instance was
    stopped (its run context cancelled), and ends it. -/
theorem terminating_refuses_launch (s : Sys) (t : Tid) (i : IId) (ht : t < s.threads.length)
    (h : (s.ps (s.nameOf i)).status = .terminating ∨ (s.inst i).runCancelled = true) :
    ((armRunEnter s t i).thr t).pc = .procRan 0 := by
  unfold armRunEnter
  simp only [h, ↓reduceIte]
  rw [thr_setPc_self]
  simpa [onProcessEnd, setState] using ht

/-- The shutdown call returns only when every waiter it spawned has finished. -/
theorem shutdown_waits_for_waiters (s : Sys) (u : Tid) (k : SdK) (h : (s.thr u).pc = .sdWg k) :
    enabledThr s u = true ↔ s.sdWg = 0 := by simp [enabledThr, h]

/-! ### global: every state the model passes through, every schedule -/

/-- the shutdown wait group never undercounts the stoppers / waiters that have not finished -/
theorem shutdown_waitgroup_covers (gr : Gran) (o : Bool) (cfgs : List Cfg) {s : Sys}
    (hr : Reach (init gr o cfgs) s) : openSd s ≤ s.sdWg :=
  (reachF_sdInv gr o cfgs hr.fine).cnt

/-- **whenever `ShutDownProject` is able to pass its wait group** (after which it returns), every
    stopper and every waiter it created has finished, and the instance each was responsible for is done -/
theorem shutdown_passes_only_when_done (gr : Gran) (o : Bool) (cfgs : List Cfg) {s : Sys}
    (hr : Reach (init gr o cfgs) s) (u : Tid) (k : SdK) (hp : (s.thr u).pc = .sdWg k) (hen : enabledThr s u = true)
    (w : Tid) (hw : w < s.threads.length) (i : IId) (hk : (s.thr w).kind = .stopper i ∨ (s.thr w).kind = .waiter i) :
    (s.thr w).pc = .finished ∧ (s.inst i).done = true :=
  sd_pass (reachF_sdInv gr o cfgs hr.fine) ((shutdown_waits_for_waiters s u k hp).mp hen) w hw i hk

/-- **Ordered shutdown, end to end** (see `PC.Sup.ordered_shutdown_returns_after_all_done`): from the
    state in which a thread has prepared the shutdown of `order`, through any continuation, it can
    pass the wait group only when every instance of `order` is done. -/
theorem ordered_shutdown_complete (gr : Gran) (o : Bool) (cfgs : List Cfg) {s0 s2 : Sys}
    (h0 : ReachF (init gr o cfgs) s0) (t : Tid) (order : List IId) (k k' : SdK) (hh : Hints)
    (ht : t < s0.threads.length) (hp : (s0.thr t).pc = .sdPrepared order k) (hord : s0.ordered = true)
    (hrun : enabledThr s0 t = true ∨ mustPark s0 t = false)
    (h12 : ReachF (stepThread s0 t hh) s2) (hp2 : (s2.thr t).pc = .sdWg k') (hen : enabledThr s2 t = true) :
    ∀ i ∈ order, (s2.inst i).done = true :=
  ordered_shutdown_returns_after_all_done gr o cfgs h0 t order k k' hh ht hp hord hrun h12 hp2 hen

/-- **Unordered (sequential) shutdown, end to end** (see
    `PC.Sup.unordered_shutdown_returns_after_all_done`): from the state in which a thread has prepared
    the shutdown of `order` in the default mode, while it works through its list (`ReachIn`: its own
    steps are steps of that loop; every other thread and every external event is free), it can pass
    the wait group only when every instance of `order` is done. -/
theorem unordered_shutdown_complete (gr : Gran) (o : Bool) (cfgs : List Cfg) {s0 s2 : Sys}
    (h0 : ReachF (init gr o cfgs) s0) (t : Tid) (order : List IId) (k k' : SdK) (hh : Hints)
    (ht : t < s0.threads.length) (hp : (s0.thr t).pc = .sdPrepared order k) (hord : s0.ordered = false)
    (hrun : enabledThr s0 t = true ∨ mustPark s0 t = false)
    (h12 : ReachIn t (stepThread s0 t hh) s2) (hp2 : (s2.thr t).pc = .sdWg k') (hen : enabledThr s2 t = true) :
    ∀ i ∈ order, (s2.inst i).done = true :=
  unordered_shutdown_returns_after_all_done gr o cfgs h0 t order k k' hh ht hp hord hrun h12 hp2 hen

/-- the premises are met: three processes with fan-in, ordered shutdown; two single steps into the
    shutdown request the thread has prepared the order `[0, 1, 2]`; at the end of the scenario it may
    pass the wait group, and all three instances are done -/
example :
    let fanin : List Cfg := [{}, { deps := [(0, .started)] }, { deps := [(0, .started)] }]
    let run1 : List Choice := [.call 0 .runMain, .run 0, .run 1, .run 2, .run 3, .run 2, .run 3, .call 1 .shutdown]
    let run2 : List Choice := [.run 4, .run 5, .run 6, .run 6, .run 7, .run 7, .run 2, .run 3, .run 8, .run 9, .run 8, .run 9,
      .run 5, .run 1, .run 0, .run 5, .run 6, .run 7]
    let s8 := (runTrace (init .coarse true fanin) run1).1
    let s0 := stepThread (stepThread s8 4 {}) 4 {}
    let s2 := (runTrace (init .coarse true fanin) (run1 ++ run2)).1
    (s0.thr 4).pc = .sdPrepared [0, 1, 2] .api ∧ s0.ordered = true ∧ mustPark s0 4 = false ∧
      (s2.thr 4).pc = .sdWg .api ∧ enabledThr s2 4 = true ∧
      (s2.inst 0).done = true ∧ (s2.inst 1).done = true ∧ (s2.inst 2).done = true := by
  set_option maxRecDepth 8000 in decide

/-! ### The full statement fails at fine granularity (windows W1, W3) -/

/-- Full statement (no launch after a shutdown returned, without a new start request). -/
def C03_noLaunch_full : Prop :=
  ∀ (g : Gran) (cfgs : List Cfg) (tr : List Choice), noStartCalls tr = true →
    launchAfterShutdown (runTrace (init g false cfgs) tr).2 = false

/-- W1: the goroutine sits between the `Terminating` check and the launch (`run:checked`) while a
    shutdown runs to completion; the command is launched after `ShutDownProject` returned. -/
def w1 : List Choice :=
  [.call 0 .runMain, .run 0, .run 1, .run 1, .call 1 .shutdown, .run 2, .run 2, .run 2, .run 2, .run 2, .run 2,
   .run 3, .run 3, .run 2, .run 1]

theorem C03_noLaunch_full_fails : ¬ C03_noLaunch_full := by
  intro h
  have := h .fine [{}] w1 (by decide)
  revert this
  decide

/-- W3 (shutdown variant): the goroutine sits at `backoff:elapsed`; the shutdown finds nothing to
    signal, the command is relaunched, and the shutdown call then waits for a command that nobody
    will stop: in the final state one command is alive, the shutdown has not returned and no thread
    is runnable. -/
def w3s : List Choice :=
  [.call 0 .runMain, .run 0, .run 1, .run 1, .run 1, .exit 0 1, .run 1, .run 1, .run 1, .call 1 .shutdown,
   .run 2, .run 2, .run 2, .run 2, .run 2, .run 1, .run 3]

theorem w3_shutdown_blocks_on_unsignalled_command :
    let s := (runTrace (init .fine false [{ policy := .always }]) w3s).1
    aliveCount s 0 = 1 ∧ (s.thr 2).pc = .sdWg .api ∧ ((List.range 4).all fun u => !enabledThr s u) = true := by
  decide

/-- Partial statement that does hold on the same scenario at coarse granularity (no preemption
    inside the windows): nothing is launched after the shutdown returned. -/
example : launchAfterShutdown (runTrace (init .coarse false [{}])
    [.call 0 .runMain, .run 0, .call 1 .shutdown, .run 2, .run 3, .run 2, .run 1, .run 0]).2 = false := by decide

end PC.Props.C03
