import PC.Model.WsFollow
import PC.Props.C18
/-! C18 / C20 — the WebSocket log stream (`HandleLogsStream`, `handleLog`).

    * `ws_exact`: a follower that subscribes with tail `k` is sent (socket ++ channel, in this order)
      exactly the window of the last `k` lines followed by every line written afterwards, once each
      and in order — for every interleaving of writes, drains of any follower, other followers
      arriving and leaving; `ws_nofollow_exact` for `follow=false` (the tail only).
    * `chan_le_cap`: no channel ever holds more than its capacity; `drain_all`: a follower that keeps
      reading gets everything that was queued.
    * `full_channel_blocks_writer` / `no_holdup_full_fails`: the statement "a follower that stops
      reading never holds up the process it follows" is FALSE for WebSocket followers: a reachable
      state exists in which the writer cannot run (known finding B1).
    * `leave_unblocks`: once the follower has gone (and `handleLog` has unsubscribed it) it no longer
      decides whether the writer can run. -/
namespace PC.Props.WsFollow
open PC.WsFollow PC.Spec.LogBuf

/-- the lines actually written by the operations that could run -/
def executed (s : St) : List Op → List String
  | [] => []
  | op :: ops => match apply s op with
    | some s' => (match op with | .write m => [m] | _ => []) ++ executed s' ops
    | none => executed s ops

def touches (id : String) : Op → Bool
  | .sub i _ _ => i == id
  | .leave i => i == id
  | _ => false

theorem sub_total (s : St) (id : String) (k : Int) (fl : Bool) :
    sub s id k fl = some { s with fs := s.fs.filter (·.id ≠ id) ++
      [{ id, follow := fl, chan := (window s.buffer k 0).drop ((window s.buffer k 0).length - cap),
         sent := (window s.buffer k 0).take ((window s.buffer k 0).length - cap), chanClosed := !fl }] } := by
  unfold sub
  rw [PC.Props.C18.range_spec]

private theorem find_filter_ne (l : List Follower) (id id' : String) (h : id' ≠ id) :
    (l.filter (·.id ≠ id')).find? (·.id = id) = l.find? (·.id = id) := by
  rw [List.find?_filter]
  congr 1
  funext a
  by_cases ha : a.id = id
  · have : a.id ≠ id' := by rw [ha]; exact fun e => h e.symm
    simp [ha, this]
    exact fun e => h e.symm
  · simp [ha]

private theorem find_map_id (l : List Follower) (g : Follower → Follower) (hg : ∀ f, (g f).id = f.id) (id : String) :
    (l.map g).find? (·.id = id) = (l.find? (·.id = id)).map g := by
  induction l with
  | nil => rfl
  | cons a l ih =>
    by_cases h : a.id = id
    · simp [List.find?, hg, h]
    · simp [List.find?, hg, h, ih]

theorem push_id (m : String) (f : Follower) : (push m f).id = f.id := by
  unfold push; split <;> rfl

theorem drainF_id (f : Follower) : (drainF f).id = f.id := by
  unfold drainF; split <;> rfl

theorem drainF_stream (f : Follower) : (drainF f).sent ++ (drainF f).chan = f.sent ++ f.chan := by
  unfold drainF; split <;> simp_all

/-- what one operation that does not subscribe / remove `id` adds to `id`'s stream -/
private theorem stream_step (s s' : St) (id : String) (op : Op) (h : touches id op = false)
    (hs : apply s op = some s') :
    streamOf s' id = (streamOf s id).bind fun l =>
      (s.fs.find? (·.id = id)).map fun f =>
        l ++ (match op with | .write m => if f.takes then [m] else [] | _ => []) := by
  cases op with
  | write m =>
    simp only [apply, write] at hs
    split at hs
    · simp only [Option.some.injEq] at hs; subst hs
      unfold streamOf
      simp only
      rw [find_map_id _ _ (push_id m)]
      cases hf : s.fs.find? (·.id = id) with
      | none => simp
      | some f =>
        simp only [Option.map_some, Option.bind_some]
        unfold push
        split <;> simp_all
    · cases hs
  | drain i =>
    simp only [apply, Option.some.injEq] at hs; subst hs
    unfold streamOf drain
    simp only
    rw [find_map_id _ _ (by intro f; split <;> simp [drainF_id])]
    cases hf : s.fs.find? (·.id = id) with
    | none => simp
    | some f =>
      simp only [Option.map_some, Option.bind_some, List.append_nil]
      split <;> simp [drainF_stream]
  | sub i t fl =>
    have hi : i ≠ id := by simpa [touches] using h
    rw [apply, sub_total] at hs
    simp only [Option.some.injEq] at hs; subst hs
    unfold streamOf
    simp only
    rw [List.find?_append, find_filter_ne _ _ _ hi]
    cases hf : s.fs.find? (·.id = id) with
    | none => simp [List.find?, hi]
    | some f => simp
  | leave i =>
    have hi : i ≠ id := by simpa [touches] using h
    simp only [apply, Option.some.injEq] at hs; subst hs
    unfold streamOf leave
    simp only
    rw [find_filter_ne _ _ _ hi]
    cases hf : s.fs.find? (·.id = id) <;> simp

/-- `takes` of follower `id` is not changed by operations that do not subscribe / remove it -/
private theorem takes_step (s s' : St) (id : String) (op : Op) (h : touches id op = false)
    (hs : apply s op = some s') :
    (s'.fs.find? (·.id = id)).map (·.takes) = (s.fs.find? (·.id = id)).map (·.takes) := by
  cases op with
  | write m =>
    simp only [apply, write] at hs
    split at hs
    · simp only [Option.some.injEq] at hs; subst hs
      simp only
      rw [find_map_id _ _ (push_id m)]
      cases hf : s.fs.find? (·.id = id) with
      | none => simp
      | some f => simp only [Option.map_some]; unfold push Follower.takes; split <;> simp_all
    · cases hs
  | drain i =>
    simp only [apply, Option.some.injEq] at hs; subst hs
    unfold drain
    simp only
    rw [find_map_id _ _ (by intro f; split <;> simp [drainF_id])]
    cases hf : s.fs.find? (·.id = id) with
    | none => simp
    | some f =>
      simp only [Option.map_some]
      split
      · unfold drainF Follower.takes; split <;> simp_all
      · rfl
  | sub i t fl =>
    have hi : i ≠ id := by simpa [touches] using h
    rw [apply, sub_total] at hs
    simp only [Option.some.injEq] at hs; subst hs
    simp only
    rw [List.find?_append, find_filter_ne _ _ _ hi]
    cases hf : s.fs.find? (·.id = id) with
    | none => simp [List.find?, hi]
    | some f => simp
  | leave i =>
    have hi : i ≠ id := by simpa [touches] using h
    simp only [apply, Option.some.injEq] at hs; subst hs
    unfold leave
    simp only
    rw [find_filter_ne _ _ _ hi]

/-- the invariant behind `ws_exact`, for either mode -/
private theorem stream_run (s : St) (id : String) (ops : List Op) (w : List String) (tk : Bool)
    (h : ∀ op ∈ ops, touches id op = false)
    (h0 : streamOf s id = some w) (ht : (s.fs.find? (·.id = id)).map (·.takes) = some tk) :
    streamOf (run s ops) id = some (w ++ if tk then executed s ops else []) := by
  induction ops generalizing s w with
  | nil => simp [run, executed, h0]
  | cons op ops ih =>
    have hop := h op (by simp)
    have hrest : ∀ o ∈ ops, touches id o = false := fun o ho => h o (by simp [ho])
    simp only [run, executed]
    cases hs : apply s op with
    | none => simpa using ih s w hrest h0 ht
    | some s' =>
      simp only
      have hst := stream_step s s' id op hop hs
      have htk := takes_step s s' id op hop hs
      rw [ht] at htk
      obtain ⟨f, hf, hft⟩ : ∃ f, s.fs.find? (·.id = id) = some f ∧ f.takes = tk := by
        cases hf : s.fs.find? (·.id = id) with
        | none => simp [hf] at ht
        | some f => exact ⟨f, rfl, by simpa [hf] using ht⟩
      rw [h0, hf] at hst
      simp only [Option.bind_some, Option.map_some] at hst
      have := ih s' _ hrest hst htk
      rw [this]
      cases op <;> cases tk <;> simp_all

/-- **No gap, no duplicate at the hand-over, through the channel and the socket.** -/
theorem ws_exact (s : St) (id : String) (k : Int) (ops : List Op)
    (h : ∀ op ∈ ops, touches id op = false) :
    ∃ s1, sub s id k true = some s1 ∧
      streamOf (run s1 ops) id = some (window s.buffer k 0 ++ executed s1 ops) := by
  refine ⟨_, sub_total s id k true, ?_⟩
  have h0 : streamOf { s with fs := s.fs.filter (·.id ≠ id) ++
      [{ id, follow := true, chan := (window s.buffer k 0).drop ((window s.buffer k 0).length - cap),
         sent := (window s.buffer k 0).take ((window s.buffer k 0).length - cap), chanClosed := !true }] } id
      = some (window s.buffer k 0) := by
    unfold streamOf
    simp only
    rw [List.find?_append]
    have : (s.fs.filter (·.id ≠ id)).find? (·.id = id) = none := by simp [List.find?_eq_none]
    rw [this]
    simp [List.find?]
  have := stream_run _ id ops _ true h h0 (by
    simp only
    rw [List.find?_append]
    have : (s.fs.filter (·.id ≠ id)).find? (·.id = id) = none := by simp [List.find?_eq_none]
    rw [this]
    simp [List.find?, Follower.takes])
  simpa using this

/-- `follow=false`: exactly the tail, whatever is written afterwards. -/
theorem ws_nofollow_exact (s : St) (id : String) (k : Int) (ops : List Op)
    (h : ∀ op ∈ ops, touches id op = false) :
    ∃ s1, sub s id k false = some s1 ∧ streamOf (run s1 ops) id = some (window s.buffer k 0) := by
  refine ⟨_, sub_total s id k false, ?_⟩
  have h0 : streamOf { s with fs := s.fs.filter (·.id ≠ id) ++
      [{ id, follow := false, chan := (window s.buffer k 0).drop ((window s.buffer k 0).length - cap),
         sent := (window s.buffer k 0).take ((window s.buffer k 0).length - cap), chanClosed := !false }] } id
      = some (window s.buffer k 0) := by
    unfold streamOf
    simp only
    rw [List.find?_append]
    have : (s.fs.filter (·.id ≠ id)).find? (·.id = id) = none := by simp [List.find?_eq_none]
    rw [this]
    simp [List.find?]
  have := stream_run _ id ops _ false h h0 (by
    simp only
    rw [List.find?_append]
    have : (s.fs.filter (·.id ≠ id)).find? (·.id = id) = none := by simp [List.find?_eq_none]
    rw [this]
    simp [List.find?, Follower.takes])
  simpa using this

/-- channels never exceed their capacity -/
def ChanOk (s : St) : Prop := ∀ f ∈ s.fs, f.chan.length ≤ cap

theorem chanOk_step (s s' : St) (op : Op) (hs : apply s op = some s') (h : ChanOk s) : ChanOk s' := by
  cases op with
  | write m =>
    simp only [apply, write] at hs
    split at hs
    · rename_i hc
      simp only [Option.some.injEq] at hs; subst hs
      intro f hf
      simp only [List.mem_map] at hf
      obtain ⟨g, hg, rfl⟩ := hf
      have hroom := List.all_eq_true.mp hc g hg
      unfold push
      split
      · rename_i ht
        simp only [ht, Bool.not_true, Bool.false_or, decide_eq_true_eq] at hroom
        simp; omega
      · exact h g hg
    · cases hs
  | drain i =>
    simp only [apply, Option.some.injEq] at hs; subst hs
    intro f hf
    simp only [drain, List.mem_map] at hf
    obtain ⟨g, hg, rfl⟩ := hf
    have := h g hg
    split
    · unfold drainF; split <;> simp_all; omega
    · exact this
  | sub i t fl =>
    rw [apply, sub_total] at hs
    simp only [Option.some.injEq] at hs; subst hs
    intro f hf
    simp only [List.mem_append, List.mem_filter, List.mem_singleton] at hf
    rcases hf with ⟨hf, _⟩ | rfl
    · exact h f hf
    · simp only [List.length_drop]; omega
  | leave i =>
    simp only [apply, Option.some.injEq] at hs; subst hs
    intro f hf
    simp only [leave, List.mem_filter] at hf
    exact h f hf.1

theorem chan_le_cap (size : Nat) (ops : List Op) : ChanOk (run (new size) ops) := by
  have : ∀ s, ChanOk s → ChanOk (run s ops) := by
    induction ops with
    | nil => intro s h; exact h
    | cons op ops ih =>
      intro s h
      simp only [run]
      cases hs : apply s op with
      | none => exact ih s h
      | some s' => exact ih s' (chanOk_step s s' op hs h)
  exact this _ (by intro f hf; simp [new] at hf)

/-- a follower that keeps reading: after as many loop iterations as the channel holds lines,
    everything queued has been written to the socket -/
def drainN : Nat → Follower → Follower
  | 0, f => f
  | n + 1, f => drainN n (drainF f)

theorem drain_all (f : Follower) : (drainN f.chan.length f).chan = [] ∧
    (drainN f.chan.length f).sent = f.sent ++ f.chan := by
  generalize hn : f.chan.length = n
  induction n generalizing f with
  | zero =>
    have : f.chan = [] := List.length_eq_zero_iff.mp hn
    simp [drainN, this]
  | succ n ih =>
    match hc : f.chan with
    | [] => simp [hc] at hn
    | m :: rest =>
      have hlen : (drainF f).chan.length = n := by
        unfold drainF; simp [hc] at hn ⊢; exact hn
      have := ih (drainF f) hlen
      simp only [drainN]
      refine ⟨this.1, ?_⟩
      rw [this.2]
      unfold drainF
      simp [hc]

/-- **B1.** A follower whose channel is full (its socket writes no longer complete because it has
    stopped reading) blocks the process's output handler — with the log buffer's mutex held. -/
theorem full_channel_blocks_writer (s : St) (m : String)
    (h : ∃ f ∈ s.fs, f.takes = true ∧ f.chan.length ≥ cap) : write s m = none := by
  obtain ⟨f, hf, ht, hl⟩ := h
  unfold write
  have : canWrite s = false := by
    unfold canWrite
    rw [Bool.eq_false_iff]
    intro hall
    have := List.all_eq_true.mp hall f hf
    simp only [ht, Bool.not_true, Bool.false_or, decide_eq_true_eq] at this
    omega
  simp [this]

/-- `n` writes into a state whose only follower has room for them all go through -/
private theorem writes_fill (size : Nat) (buf : List String) (f : Follower) (ht : f.takes = true) (n : Nat)
    (hroom : f.chan.length + n ≤ cap) :
    ∃ buf' chan', run { size, buffer := buf, fs := [f] } (List.replicate n (.write "x")) =
      { size, buffer := buf', fs := [{ f with chan := chan' }] } ∧ chan'.length = f.chan.length + n := by
  induction n generalizing buf f with
  | zero => exact ⟨buf, f.chan, rfl, rfl⟩
  | succ n ih =>
    have hcw : canWrite { size, buffer := buf, fs := [f] } = true := by
      simp [canWrite, ht]; omega
    simp only [List.replicate_succ, run, apply, write, hcw, if_true]
    have hp : push "x" f = { f with chan := f.chan ++ ["x"] } := by simp [push, ht]
    simp only [List.map_cons, List.map_nil, hp]
    obtain ⟨b', c', hr, hl⟩ := ih _ { f with chan := f.chan ++ ["x"] } (by simpa [Follower.takes] using ht)
      (by simp; omega)
    exact ⟨b', c', by simpa using hr, by simp at hl; omega⟩

/-- The full statement of the clause "a follower that stops reading never holds up the process it
    follows", for WebSocket followers: in every state reached from an empty buffer every write can
    run. -/
def no_holdup_full : Prop := ∀ (size : Nat) (ops : List Op) (m : String), (write (run (new size) ops) m).isSome

/-- It is false: a follower subscribes and is never drained; the 257th line blocks the writer. -/
theorem no_holdup_full_fails : ¬ no_holdup_full := by
  intro h
  have hs := sub_total (new 0) "f" 0 true
  obtain ⟨b', c', hr, hl⟩ := writes_fill 0 [] { id := "f", follow := true, chan := [], sent := [], chanClosed := false }
    (by simp [Follower.takes]) cap (by simp)
  have := h 0 (.sub "f" 0 true :: List.replicate cap (.write "x")) "y"
  simp only [run, apply, hs] at this
  have hw : window ([] : List String) 0 0 = [] := by simp [window, lastN]
  simp only [new, List.filter_nil, List.nil_append, hw, List.length_nil, List.drop_nil, List.take_nil, Bool.not_true] at this
  rw [hr] at this
  rw [full_channel_blocks_writer _ _ ⟨_, List.mem_singleton.mpr rfl, by simp [Follower.takes], by simp only [List.length_nil, Nat.zero_add] at hl; show c'.length ≥ cap; omega⟩] at this
  simp at this

/-- Local (TUI) observers never block the writer: `PC.Props.C18.write_total`. With WebSocket
    followers the writer can run exactly when every open channel has room. -/
theorem write_iff_room (s : St) (m : String) :
    (write s m).isSome ↔ ∀ f ∈ s.fs, f.takes = true → f.chan.length < cap := by
  unfold write canWrite
  constructor
  · intro h f hf ht
    split at h
    · rename_i hc
      have := List.all_eq_true.mp hc f hf
      simpa [ht] using this
    · simp at h
  · intro h
    have : (s.fs.all fun f => !f.takes || decide (f.chan.length < cap)) = true := by
      rw [List.all_eq_true]
      intro f hf
      cases ht : f.takes with
      | false => simp
      | true => simpa using h f hf ht
    simp [this]

/-- once the follower that filled its channel has gone, it no longer blocks anybody -/
theorem leave_unblocks (s : St) (id m : String)
    (h : ∀ f ∈ s.fs, f.id ≠ id → f.takes = true → f.chan.length < cap) : (write (leave s id) m).isSome := by
  rw [write_iff_room]
  intro f hf ht
  simp only [leave, List.mem_filter, decide_eq_true_eq] at hf
  exact h f hf.1 hf.2 ht

/-- the buffer itself evolves exactly as in the log buffer model (`PC.LogBuf.write`) -/
theorem buffer_as_logbuf (s s' : St) (m : String) (h : write s m = some s') :
    s'.buffer = (PC.LogBuf.write { size := s.size, buffer := s.buffer, observers := [] } m).buffer := by
  unfold write at h
  split at h
  · simp only [Option.some.injEq] at h; subst h; rfl
  · cases h

/-- the hypotheses of `ws_exact` are met by a non-trivial history, and the writer does get blocked in it -/
example : streamOf (run (new 0) [.write "a", .write "b", .sub "f" 1 true, .write "c", .drain "f", .sub "g" 5 false, .write "d"]) "f"
    = some ["b", "c", "d"] := by decide

end PC.Props.WsFollow
