import PC.Model.RevDeps
/-! C12 — ordered shutdown: the reverse-dependency map (pure part). -/
namespace PC.Props.C12
open PC.RevDeps

variable {α : Type} [DecidableEq α]

theorem mem_lookup_addDep (m : List (α × List α)) (k x d p : α) :
    p ∈ lookup (addDep m k x) d ↔ p ∈ lookup m d ∨ (d = k ∧ p = x) := by
  induction m with
  | nil =>
    by_cases h : k = d
    · subst h; simp [addDep, lookup]
    · have : ¬ d = k := fun e => h e.symm
      simp [addDep, lookup, h, this]
  | cons e m ih =>
    obtain ⟨k', l⟩ := e
    by_cases h1 : k' = k
    · subst h1
      by_cases h2 : k' = d
      · subst h2
        by_cases h3 : x ∈ l
        · simp only [addDep, lookup, ↓reduceIte, h3, true_and]
          constructor
          · exact Or.inl
          · rintro (h | h)
            · exact h
            · subst h; exact h3
        · simp [addDep, lookup, h3]
      · have : ¬ d = k' := fun e => h2 e.symm
        simp [addDep, lookup, h2, this]
    · by_cases h2 : k' = d
      · subst h2
        have : ¬ k' = k := h1
        simp [addDep, lookup, h1]
      · simp [addDep, lookup, h1, h2, ih]

private theorem inner_fold (running : α → Bool) (x : α) (ks : List α) (m : List (α × List α)) (d p : α) :
    p ∈ lookup (ks.foldl (fun m k => if running k then addDep m k x else m) m) d ↔
      p ∈ lookup m d ∨ (p = x ∧ d ∈ ks ∧ running d = true) := by
  induction ks generalizing m with
  | nil => simp
  | cons k ks ih =>
    simp only [List.foldl_cons]
    rw [ih]
    by_cases hr : running k = true
    · simp only [hr, ↓reduceIte, mem_lookup_addDep, List.mem_cons]
      constructor
      · rintro ((h | ⟨h1, h2⟩) | ⟨h1, h2, h3⟩)
        · exact Or.inl h
        · subst h1; exact Or.inr ⟨h2, Or.inl rfl, hr⟩
        · exact Or.inr ⟨h1, Or.inr h2, h3⟩
      · rintro (h | ⟨h1, h2 | h2, h3⟩)
        · exact Or.inl (Or.inl h)
        · exact Or.inl (Or.inr ⟨h2, h1⟩)
        · exact Or.inr ⟨h1, h2, h3⟩
    · simp only [hr, List.mem_cons]
      constructor
      · rintro (h | ⟨h1, h2, h3⟩)
        · exact Or.inl h
        · exact Or.inr ⟨h1, Or.inr h2, h3⟩
      · rintro (h | ⟨h1, h2 | h2, h3⟩)
        · exact Or.inl h
        · subst h2; exact absurd h3 hr
        · exact Or.inr ⟨h1, h2, h3⟩

private theorem outer_fold (running : α → Bool) (ps : List (RProc α)) (m : List (α × List α)) (d p : α) :
    p ∈ lookup (ps.foldl (fun m q => q.deps.foldl (fun m k => if running k then addDep m k q.name else m) m) m) d ↔
      p ∈ lookup m d ∨ (∃ q ∈ ps, q.name = p ∧ d ∈ q.deps ∧ running d = true) := by
  induction ps generalizing m with
  | nil => simp
  | cons q ps ih =>
    simp only [List.foldl_cons]
    rw [ih, inner_fold]
    constructor
    · rintro ((h | ⟨h1, h2, h3⟩) | ⟨r, hr, h⟩)
      · exact Or.inl h
      · exact Or.inr ⟨q, by simp, h1.symm, h2, h3⟩
      · exact Or.inr ⟨r, by simp [hr], h⟩
    · rintro (h | ⟨r, hr, h1, h2, h3⟩)
      · exact Or.inl (Or.inl h)
      · rcases List.mem_cons.mp hr with rfl | hr
        · exact Or.inl (Or.inr ⟨h1.symm, h2, h3⟩)
        · exact Or.inr ⟨r, hr, h1, h2, h3⟩

/-- **Reverse dependencies are complete and exact, for every iteration order.** `p` is recorded as a
    dependent of `d` iff `p` is running, `p` depends on `d` and `d` is running — in particular with
    fan-in *every* dependent of `d` is recorded. -/
theorem revdeps_spec (procs : List (RProc α)) (d p : α) :
    p ∈ lookup (revDeps procs) d ↔
      (∃ q ∈ procs, q.name = p ∧ d ∈ q.deps) ∧ (∃ r ∈ procs, r.name = d) := by
  unfold revDeps
  rw [outer_fold (fun k => procs.any (fun r => r.name = k))]
  simp only [lookup, List.not_mem_nil, false_or, List.any_eq_true, decide_eq_true_eq]
  constructor
  · rintro ⟨q, hq, h1, h2, h3⟩; exact ⟨⟨q, hq, h1, h2⟩, h3⟩
  · rintro ⟨⟨q, hq, h1, h2⟩, h3⟩; exact ⟨q, hq, h1, h2, h3⟩

/-- The recorded set does not depend on the iteration order of the running-process map. -/
theorem revdeps_order_indep (procs procs' : List (RProc α)) (h : ∀ q, q ∈ procs ↔ q ∈ procs') (d p : α) :
    p ∈ lookup (revDeps procs) d ↔ p ∈ lookup (revDeps procs') d := by
  rw [revdeps_spec, revdeps_spec]
  simp only [h]

/-- fan-in: both dependents of `d` are recorded -/
example : lookup (revDeps [⟨"x", ["d"]⟩, ⟨"y", ["d"]⟩, ⟨"d", []⟩]) "d" = ["x", "y"] := by decide

end PC.Props.C12
