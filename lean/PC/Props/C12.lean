import PC.Model.RevDeps
import PC.Proofs.SupArms
import PC.Proofs.SupDw
import PC.Spec.SupSpec
/-! C12 — ordered shutdown: the reverse-dependency map (pure part). -/
namespace PC.Props.C12
open PC.RevDeps

variable {α : Type} [DecidableEq α]

theorem mem_lookup_addDep (m : List (α × List α)) (k x d p : α) :
    p ∈ lookup (addDep m k x) d ↔ p ∈ lookup m d ∨ (d = k ∧ p = x) := by
  induction m with
  | nil =>
    by_cases h : k = d
    · subst h; simp [addDep, lookup]
    · have : ¬ d = k := fun e => h e.symm
      simp [addDep, lookup, h, this]
  | cons e m ih =>
    obtain ⟨k', l⟩ := e
    by_cases h1 : k' = k
    · subst h1
      by_cases h2 : k' = d
      · subst h2
        by_cases h3 : x ∈ l
        · simp only [addDep, lookup, ↓reduceIte, h3, true_and]
          constructor
          · exact Or.inl
          · rintro (h | h)
            · exact h
            · subst h; exact h3
        · simp [addDep, lookup, h3]
      · have : ¬ d = k' := fun e => h2 e.symm
        simp [addDep, lookup, h2, this]
    · by_cases h2 : k' = d
      · subst h2
        have : ¬ k' = k := h1
        simp [addDep, lookup, h1]
      · simp [addDep, lookup, h1, h2, ih]

private theorem inner_fold (running : α → Bool) (x : α) (ks : List α) (m : List (α × List α)) (d p : α) :
    p ∈ lookup (ks.foldl (fun m k => if running k then addDep m k x else m) m) d ↔
      p ∈ lookup m d ∨ (p = x ∧ d ∈ ks ∧ running d = true) := by
  induction ks generalizing m with
  | nil => simp
  | cons k ks ih =>
    simp only [List.foldl_cons]
    rw [ih]
    by_cases hr : running k = true
    · simp only [hr, ↓reduceIte, mem_lookup_addDep, List.mem_cons]
      constructor
      · rintro ((h | ⟨h1, h2⟩) | ⟨h1, h2, h3⟩)
        · exact Or.inl h
        · subst h1; exact Or.inr ⟨h2, Or.inl rfl, hr⟩
        · exact Or.inr ⟨h1, Or.inr h2, h3⟩
      · rintro (h | ⟨h1, h2 | h2, h3⟩)
        · exact Or.inl (Or.inl h)
        · exact Or.inl (Or.inr ⟨h2, h1⟩)
        · exact Or.inr ⟨h1, h2, h3⟩
    · simp only [hr, List.mem_cons]
      constructor
      · rintro (h | ⟨h1, h2, h3⟩)
        · exact Or.inl h
        · exact Or.inr ⟨h1, Or.inr h2, h3⟩
      · rintro (h | ⟨h1, h2 | h2, h3⟩)
        · exact Or.inl h
        · subst h2; exact absurd h3 hr
        · exact Or.inr ⟨h1, h2, h3⟩

private theorem outer_fold (running : α → Bool) (ps : List (RProc α)) (m : List (α × List α)) (d p : α) :
    p ∈ lookup (ps.foldl (fun m q => q.deps.foldl (fun m k => if running k then addDep m k q.name else m) m) m) d ↔
      p ∈ lookup m d ∨ (∃ q ∈ ps, q.name = p ∧ d ∈ q.deps ∧ running d = true) := by
  induction ps generalizing m with
  | nil => simp
  | cons q ps ih =>
    simp only [List.foldl_cons]
    rw [ih, inner_fold]
    constructor
    · rintro ((h | ⟨h1, h2, h3⟩) | ⟨r, hr, h⟩)
      · exact Or.inl h
      · exact Or.inr ⟨q, by simp, h1.symm, h2, h3⟩
      · exact Or.inr ⟨r, by simp [hr], h⟩
    · rintro (h | ⟨r, hr, h1, h2, h3⟩)
      · exact Or.inl (Or.inl h)
      · rcases List.mem_cons.mp hr with rfl | hr
        · exact Or.inl (Or.inr ⟨h1.symm, h2, h3⟩)
        · exact Or.inr ⟨r, hr, h1, h2, h3⟩

/-- **Reverse dependencies are complete and exact, for every iteration order.** `p` is recorded as a
    dependent of `d` iff `p` is running, `p` depends on `d` and `d` is running — in particular with
    fan-in *every* dependent of `d` is recorded. -/
theorem revdeps_spec (procs : List (RProc α)) (d p : α) :
    p ∈ lookup (revDeps procs) d ↔
      (∃ q ∈ procs, q.name = p ∧ d ∈ q.deps) ∧ (∃ r ∈ procs, r.name = d) := by
  unfold revDeps
  rw [outer_fold (fun k => procs.any (fun r => r.name = k))]
  simp only [lookup, List.not_mem_nil, false_or, List.any_eq_true, decide_eq_true_eq]
  constructor
  · rintro ⟨q, hq, h1, h2, h3⟩; exact ⟨⟨q, hq, h1, h2⟩, h3⟩
  · rintro ⟨⟨q, hq, h1, h2⟩, h3⟩; exact ⟨q, hq, h1, h2, h3⟩

/-- The recorded set does not depend on the iteration order of the running-process map. -/
theorem revdeps_order_indep (procs procs' : List (RProc α)) (h : ∀ q, q ∈ procs ↔ q ∈ procs') (d p : α) :
    p ∈ lookup (revDeps procs) d ↔ p ∈ lookup (revDeps procs') d := by
  rw [revdeps_spec, revdeps_spec]
  simp only [h]

/-! ### Ordered shutdown in the supervisor model -/
section Ordered
open PC.Sup

/-- the stopper of `i` spawns one waiter per running dependent of `i` ... -/
theorem revDepsOf_spec (s : Sys) (n : Name) (j : IId) :
    j ∈ revDepsOf s n ↔
      ∃ m, m < s.cfgs.length ∧ s.running.getD m none = some j ∧ (s.running.getD n none).isSome = true ∧
        (s.cfg m).deps.any (·.1 = n) = true := by
  unfold revDepsOf
  simp only [List.mem_filterMap, List.mem_range]
  constructor
  · rintro ⟨m, hm, h⟩
    refine ⟨m, hm, ?_⟩
    generalize s.running.getD m none = A at h ⊢
    generalize s.running.getD n none = B at h ⊢
    cases A with
    | none => simp at h
    | some j' =>
      cases B with
      | none => simp at h
      | some k =>
        simp only at h
        by_cases hd : (s.cfg m).deps.any (·.1 = n) = true
        · simp only [hd, ↓reduceIte, Option.some.injEq] at h
          subst h
          exact ⟨rfl, rfl, hd⟩
        · simp [hd] at h
  · rintro ⟨m, hm, h1, h2, h3⟩
    refine ⟨m, hm, ?_⟩
    generalize s.running.getD n none = B at h2 ⊢
    rw [h1]
    cases B with
    | none => simp at h2
    | some k => simp [h3]

/-- ... and signals `i` only when every one of them has finished waiting, i.e. when each of those
    dependents is done. -/
theorem stopper_waits_for_dependents (s : Sys) (u : Tid) (i : IId) (h : (s.thr u).pc = .depWg i) :
    enabledThr s u = true ↔ s.wgOf i = 0 := by simp [enabledThr, h]

theorem depwaiter_waits_for_done (s : Sys) (u : Tid) (j : IId) (h : (s.thr u).pc = .waitDoneThen j) :
    enabledThr s u = true ↔ (s.inst j).done = true := by simp [enabledThr, h]

/-- **Every execution, every schedule**: whenever the stopper of `i` is able to pass its wait (and go
    on to signal `i`), every `depwaiter` it created has finished and the dependent it watched is done. -/
theorem stopper_passes_only_after_dependents (gr : Gran) (o : Bool) (cfgs : List Cfg) {s : Sys}
    (hr : Reach (init gr o cfgs) s) (u : Tid) (i : IId)
    (hpc : (s.thr u).pc = .depWg i) (hen : enabledThr s u = true) :
    ∀ w j, (s.thr w).kind = .depwaiter i j → (s.thr w).pc = .finished ∧ (s.inst j).done = true :=
  pass_after_dependents (reach_dwInv gr o cfgs hr) u i hpc hen

/-- the wait group of a stopper never undercounts its unfinished `depwaiter`s (all reachable states) -/
theorem waitgroup_covers_open_depwaiters (gr : Gran) (o : Bool) (cfgs : List Cfg) {s : Sys}
    (hr : Reach (init gr o cfgs) s) (i : IId) : openDw s i ≤ s.wgOf i :=
  (reach_dwInv gr o cfgs hr).cnt i

/-- **Ordered shutdown, end to end.** Take any reachable state in which the stopper of instance `i`
    is about to begin, let it begin, and let the system run on in any way whatsoever (any schedule,
    any external events). Whenever that stopper is then able to leave its wait — the only way to the
    signal of `i` — every dependent of `i` that was registered as running when it began is done. -/
theorem ordered_shutdown_waits_for_dependents (gr : Gran) (o : Bool) (cfgs : List Cfg) {s0 s2 : Sys}
    (h0 : Reach (init gr o cfgs) s0) (t : Tid) (i : IId) (hh : Hints)
    (ht : t < s0.threads.length) (hk : (s0.thr t).kind = .stopper i) (hb : (s0.thr t).pc = .begin)
    (h12 : Reach (step s0 (.run t) hh) s2) (hpc : (s2.thr t).pc = .depWg i) (hen : enabledThr s2 t = true) :
    ∀ j ∈ revDepsOf s0 (s0.nameOf i), (s2.inst j).done = true := by
  intro j hj
  have h02 : Reach (init gr o cfgs) s2 := Reach.trans (Reach.step (.run t) hh h0) h12
  have e := step_stopperBegin s0 t hh i ht hk hb
  have hj' : j ∈ revDepsOf ({ s0 with obs := [] } : Sys) (({ s0 with obs := [] } : Sys).nameOf i) := hj
  obtain ⟨w, hw1, hw2⟩ := stopperBegin_creates ({ s0 with obs := [] } : Sys) t i j hj'
  rw [← e] at hw1 hw2
  obtain ⟨_, hkind⟩ := reach_kind h12 w hw1
  exact (stopper_passes_only_after_dependents gr o cfgs h02 t i hpc hen w j (hkind.trans hw2)).2

/-- fan-in `x → d`, `y → d`, ordered shutdown: `d` is signalled after both `x` and `y` are done -/
def fanin : List Cfg := [{}, { deps := [(0, .started)] }, { deps := [(0, .started)] }]
def faninRun : List Choice :=
  [.call 0 .runMain, .run 0, .run 1, .run 2, .run 3, .run 2, .run 3, .call 1 .shutdown, .run 4,
   .run 5, .run 6, .run 6, .run 7, .run 7, .run 2, .run 3, .run 8, .run 9, .run 8, .run 9, .run 5]

set_option maxRecDepth 8000 in
example : ((runTrace (init .coarse true fanin) faninRun).2.filterMap fun o => match o with
      | .stop n _ => some (Sum.inl n) | .done n => some (Sum.inr n) | _ => none)
    = [.inl 1, .inl 2, .inr 1, .inr 2, .inl 0] := by decide

/-- the premises of `ordered_shutdown_waits_for_dependents` are met in the fan-in scenario: after 9
    choices the stopper of `d` (thread 5, instance 0) is about to begin with both dependents
    registered; after 20 choices it sits at its wait group and may pass -/
example :
    let s0 := (runTrace (init .coarse true fanin) (faninRun.take 9)).1
    let s2 := (runTrace (init .coarse true fanin) (faninRun.take 20)).1
    5 < s0.threads.length ∧ (s0.thr 5).kind = .stopper 0 ∧ (s0.thr 5).pc = .begin ∧
      revDepsOf s0 (s0.nameOf 0) = [1, 2] ∧ (s2.thr 5).pc = .depWg 0 ∧ enabledThr s2 5 = true ∧
      (s2.inst 1).done = true ∧ (s2.inst 2).done = true := by
  set_option maxRecDepth 8000 in decide

end Ordered

/-- fan-in: both dependents of `d` are recorded -/
example : lookup (revDeps [⟨"x", ["d"]⟩, ⟨"y", ["d"]⟩, ⟨"d", []⟩]) "d" = ["x", "y"] := by decide

end PC.Props.C12
