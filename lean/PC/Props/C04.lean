import PC.Proofs.SupArms
import PC.Proofs.SupTail
import PC.Spec.SupSpec
import PC.Proofs.SupExitRule
import PC.Proofs.SupOne
/-! C04 — project completion and exit code (supervisor model). -/
namespace PC.Props.C04
open PC.Sup

/-- `Run()` returns only when the wait group is empty (every process goroutine has finished). -/
theorem run_waits_for_all (s : Sys) (u : Tid) (h : (s.thr u).pc = .runWg) :
    enabledThr s u = true ↔ s.wg = 0 := by simp [enabledThr, h]

/-- **`Run()` returns only when everything has ended — every reachable state, every schedule.**
    Whenever the thread that called `Run()` is able to pass the project wait group (after which
    `Run()` returns), every process goroutine that was ever started has left its body (it is past its
    deferred `wg.Done()`), and the instance of each is done. Proof: the wait group never undercounts
    the goroutines that have not reached their `wg.Done()` (`reachF_wgInv`, a counting argument in
    which every step pays for the process threads it creates or is a `gotoCleanup`), and a process
    goroutine past its dependency and launch phases has ended its process (`reachF_tailDone`). -/
theorem run_returns_only_when_all_done (g : Gran) (o : Bool) (cfgs : List Cfg) {s : Sys}
    (hr : Reach (init g o cfgs) s) (u : Tid) (hp : (s.thr u).pc = .runWg) (hen : enabledThr s u = true)
    (w : Tid) (hw : w < s.threads.length) (i : IId) (hk : (s.thr w).kind = .proc i) :
    ((s.thr w).pc = .lockCleanup ∨ (s.thr w).pc = .finished) ∧ (s.inst i).done = true :=
  run_passes_only_when_all_done g o cfgs hr.fine u hp hen w hw i hk

/-- the project wait group covers the goroutines that have not reached their `wg.Done()` -/
theorem waitgroup_covers_goroutines (g : Gran) (o : Bool) (cfgs : List Cfg) {s : Sys}
    (hr : Reach (init g o cfgs) s) : openW s ≤ s.wg :=
  (reachF_wgInv g o cfgs hr.fine).cnt

/-- the premises are met: two processes, the second waiting for the first to complete; at the end
    `Run()` may return, both goroutines have left their bodies and both instances are done -/
example :
    let s := (runTrace (init .coarse false [{}, { deps := [(0, .completed)] }])
      [.call 0 .runMain, .run 0, .run 1, .run 2, .exit 0 0, .run 1, .run 2, .exit 1 0, .run 2]).1
    (s.thr 0).pc = .runWg ∧ enabledThr s 0 = true ∧ (s.thr 1).kind = .proc 0 ∧ (s.thr 2).kind = .proc 1 ∧
      (s.inst 0).done = true ∧ (s.inst 1).done = true := by
  set_option maxRecDepth 8000 in decide

/-- **Every wait primitive is released on every terminal path** (fix F5), in every reachable state
    of every project, for every schedule: an instance that is done has its readiness, log-ready and
    started/run latches released. -/
theorem ended_releases_all (g : Gran) (o : Bool) (cfgs : List Cfg) (s : Sys) (h : Reach (init g o cfgs) s) (i : IId) :
    (s.inst i).done = true →
      (s.inst i).readyDone = true ∧ (s.inst i).runCancelled = true ∧ (s.inst i).logReady ≠ .none :=
  reach_ended (init_ended g o cfgs) h i

/-- Hence **nobody waits forever on a process that has ended**: whatever the dependency condition,
    a waiter on an ended instance is runnable. -/
theorem never_waits_on_ended (g : Gran) (o : Bool) (cfgs : List Cfg) (s : Sys) (h : Reach (init g o cfgs) s)
    (u : Tid) (d : IId) (hw : (s.thr u).pc.latchWait = some d) (hd : (s.inst d).done = true) :
    enabledThr s u = true :=
  wait_on_ended_enabled (init_ended g o cfgs) h u d hw hd

/-- **The first trigger decides the project exit code** (`exitCodeOnce`): once recorded it is never
    changed by any later step of any thread — in particular not by a process that was merely
    terminated by the shutdown. -/
theorem exit_code_first_trigger_wins {s0 s : Sys} (h : Reach s0 s) (hs : s0.exitCodeSet = true) :
    s.exitCodeSet = true ∧ s.exitCode = s0.exitCode := (reach_fwd h).exit hs

theorem recordExit_first (s : Sys) (c : Int) (h : s.exitCodeSet = false) :
    (recordExit s c).exitCode = c ∧ (recordExit s c).exitCodeSet = true := by
  simp [recordExit, h, Sys.emit]

theorem recordExit_later (s : Sys) (c : Int) (h : s.exitCodeSet = true) : recordExit s c = s := by
  simp [recordExit, h]

/-- a process triggers the shutdown exactly for `exit_on_failure` with a non-zero code or `exit_on_end` -/
theorem trigger_iff (s : Sys) (t : Tid) (i : IId) (code : Int) (ht : t < s.threads.length) :
    ((armProcDoneAdded s t i code).thr t).pc = .sdEnter (.procEnd code) ↔
      ((code ≠ 0 ∧ (s.icfg i).policy = .exitOnFailure) ∨ (s.icfg i).exitOnEnd = true) := by
  unfold armProcDoneAdded
  simp only
  split
  · rename_i h
    rw [thr_setPc_self]
    · simp [h]
    · unfold recordExit; split <;> simpa using ht
  · rename_i h
    simp only [h, iff_false]
    unfold gotoCleanup
    rw [thr_setPc_self _ _ _ (by simpa using ht)]
    simp

/-- `a` (exit_on_failure) exits 3 and brings the project down; `b` (exit_on_end) is terminated by that
    shutdown with -1 (it ignores SIGTERM and is killed); `Run()` reports 3, not the victim's code. -/
def two : List Cfg := [{ policy := .exitOnFailure }, { exitOnEnd := true, onSignal := some 143 }]
def victims : List Choice :=
  [.call 0 .runMain, .run 0, .run 1, .run 2, .exit 0 3, .run 1, .run 3, .run 4, .run 2, .run 3, .run 4, .run 1, .run 2, .run 2, .run 1, .run 0,
   .run 5, .run 5, .run 2, .run 0]

set_option maxRecDepth 4000 in
example : (runTrace (init .coarse false two) victims).1.exitCode = 3 := by decide
set_option maxRecDepth 4000 in
example : ((runTrace (init .coarse false two) victims).2.filter (· == .runReturned 3)).length = 1 := by decide

/-! ### the exit-code rule, globally -/

/-- **Success unless a trigger occurred**: in every state the model passes through (every schedule,
    every sequence of exits, probe results and requests), as long as no process has triggered the
    shutdown the project exit code is 0 — what `Run()` reports when it returns then. -/
theorem success_until_trigger (g : Gran) (o : Bool) (cfgs : List Cfg) {s : Sys}
    (h : ReachF (init g o cfgs) s) (hn : s.exitCodeSet = false) : s.exitCode = 0 :=
  reachF_exit_zero g o cfgs h hn

/-- **The reported code is a trigger's own**: the step that decides the project exit code is a step
    of a process goroutine whose process was skipped with `exit_on_skipped` (code 1) or ended with
    `exit_on_failure` and a non-zero code or with `exit_on_end` (its own exit code) — never a step
    of a process that was merely terminated by the shutdown without carrying such a setting, never a
    request thread, a stopper or a waiter. -/
theorem exit_code_is_a_triggers (s : Sys) (t : Tid) (h : Hints) (h0 : s.exitCodeSet = false)
    (h1 : (stepThread s t h).exitCodeSet = true) :
    ∃ i c, TriggerAt s t i c ∧ (stepThread s t h).exitCode = c :=
  exit_set_only_by_trigger s t h h0 h1

/-- no external event decides or changes the exit code -/
theorem events_leave_exit_code (s : Sys) (c : Choice) (h : Hints) (hc : ∀ t, c ≠ .run t) :
    (step s c h).exitCodeSet = s.exitCodeSet ∧ (step s c h).exitCode = s.exitCode :=
  exit_not_set_by_events s c h hc

/-- **`Run()` does not return while a launched command is still alive** (C04, global, outside the
    overlap finding R1): in every state reachable without overwriting a registration - every schedule
    at the finest granularity, every sequence of events and requests - whenever the thread that called
    `Run()` is able to pass the project wait group (after which `Run()` returns), no command of any
    instance is alive. (A live command has its goroutine parked at `cmd:wait` - invariant `One` - while
    the wait group can only be passed when every process goroutine has run its `wg.Done()`.) -/
theorem run_cannot_return_while_a_command_is_alive (gr : PC.Sup.Gran) (o : Bool) (cfgs : List PC.Sup.Cfg) {s : PC.Sup.Sys}
    (hr : PC.Sup.ReachG (PC.Sup.init gr o cfgs) s) (u : PC.Sup.Tid) (hp : (s.thr u).pc = .runWg)
    (hen : PC.Sup.enabledThr s u = true) (i : PC.Sup.IId) : (s.inst i).cmd ≠ .alive := by
  intro ha
  obtain ⟨w, hw, hk, hpc⟩ := (PC.Sup.reachG_one gr o cfgs hr).alive i ha
  have := (PC.Sup.run_passes_only_when_all_done gr o cfgs hr.toF u hp hen w hw i hk).1
  rcases this with e | e <;> rw [hpc] at e <;> cases e

end PC.Props.C04
