import PC.Tie.Stop
import PC.Model.StopPlan
import PC.Spec.Pure
/-! C06 — OS-level stop: signal clamp and group/parent choice (pure part). -/
namespace PC.Props.C06
open PC.Stop PC.Spec

/-- With a command and a resolvable process group: the whole group is signalled unless
    `parent_only`, and always with the effective signal. -/
theorem signal_clamp (sig : Int) (parentOnly : Bool) :
    cmdStop false sig parentOnly true =
      (if parentOnly then SigAction.parent (effectiveSignal sig) else SigAction.group (effectiveSignal sig)) := by
  unfold cmdStop effectiveSignal minSig maxSig
  simp only [Bool.false_eq_true, ↓reduceIte]
  by_cases h : sig < 1 ∨ sig > 31
  · have : ¬ (1 ≤ sig ∧ sig ≤ 31) := by omega
    simp [h, this]
  · have : (1 ≤ sig ∧ sig ≤ 31) := by omega
    simp [h, this]

theorem signal_in_range (sig : Int) : 1 ≤ effectiveSignal sig ∧ effectiveSignal sig ≤ 31 := by
  unfold effectiveSignal; split <;> omega

theorem signal_clamp_src (sig : Int) (parentOnly : Bool) :
    PC.Gen.Stop.cmdStop false sig parentOnly true =
      (if parentOnly then SigAction.parent (effectiveSignal sig) else SigAction.group (effectiveSignal sig)) := by
  rw [PC.Tie.Stop.cmdStop_eq]; exact signal_clamp sig parentOnly

example : cmdStop false 0 false true = SigAction.group 15 := by decide
example : cmdStop false 9 true true = SigAction.parent 9 := by decide
example : cmdStop false 32 false true = SigAction.group 15 := by decide

/-! ### The sequence of OS actions of a stop -/

def killAction (parentOnly : Bool) : Action := .signal (cmdStop false 9 parentOnly true)

/-- **The configured signal goes to the whole group unless `parent_only`** — it is the first thing
    a stop without a shutdown command does -/
theorem first_signal (p : Params) (o : Outcome) (h : p.hasCommand = false) :
    (stopActions p o).head? = some (.signal
      (if p.parentOnly then .parent (effectiveSignal p.signal) else .group (effectiveSignal p.signal))) := by
  simp [stopActions, h, signal_clamp]

/-- **SIGKILL never earlier than the timeout**: without a shutdown command, the actions are the
    configured signal, then — only when a timeout is configured — a wait of exactly that many
    seconds, then SIGKILL only when the process has not ended within it. -/
theorem kill_only_after_timeout (p : Params) (o : Outcome) (h : p.hasCommand = false) :
    stopActions p o =
      .signal (cmdStop false p.signal p.parentOnly true) ::
        (if p.timeout = 0 then []
         else if o.endedInTime then [.wait p.timeout]
         else [.wait p.timeout, killAction p.parentOnly]) := by
  simp only [stopActions, h, Bool.false_eq_true, ↓reduceIte, undefinedShutdownTimeoutSec, ne_eq, killAction]
  by_cases ht : p.timeout = 0
  · simp [ht]
  · by_cases he : o.endedInTime <;> simp [ht, he]

/-- no timeout configured: one signal, never SIGKILL -/
theorem no_timeout_no_kill (p : Params) (o : Outcome) (h : p.hasCommand = false) (ht : p.timeout = 0) :
    stopActions p o = [.signal (cmdStop false p.signal p.parentOnly true)] := by
  rw [kill_only_after_timeout p o h]; simp [ht]

/-- **A configured shutdown command is run first (with the default timeout of 10 s when none is
    configured); SIGKILL — to the whole group — follows only if it fails or times out** -/
theorem command_then_kill_only_if_failed (p : Params) (o : Outcome) (h : p.hasCommand = true) :
    stopActions p o =
      .runCommand (if p.timeout = 0 then 10 else p.timeout) ::
        (if o.cmdOk then [] else [.signal (.group 9)]) := by
  simp only [stopActions, h, ↓reduceIte, undefinedShutdownTimeoutSec, defaultShutdownTimeoutSec]
  by_cases hc : o.cmdOk <;> simp [hc, cmdStop, minSig, maxSig] <;> rfl

/-! ### Effect on the process group (under the assumed signal semantics) -/

theorem hit_kill (m : Member) : (hit 9 m).alive = false := by
  unfold hit survives
  cases h : m.alive <;> simp [h]

/-- SIGKILL to the group leaves no member alive -/
theorem group_kill_all (g : Group) : ∀ m ∈ deliver (.group 9) g, m.alive = false := by
  intro m hm
  simp only [deliver, List.mem_map] at hm
  obtain ⟨x, _, rfl⟩ := hm
  exact hit_kill x

theorem hit_dead (s : Int) (m : Member) (h : m.alive = false) : (hit s m).alive = false := by
  simp [hit, h]

/-- **No survivor after the timeout**: with a timeout and without `parent_only`, if the process is
    still running after the configured signal (the launched command is alive, or a member holds its
    output open), the escalation leaves no member of the group alive. -/
theorem no_survivor_after_timeout (p : Params) (g : Group) (hc : p.hasCommand = false) (hp : p.parentOnly = false)
    (ht : p.timeout ≠ 0)
    (hstill : stillRunning (deliver (.group (effectiveSignal p.signal)) g) = true) :
    ∀ m ∈ stopGroup p true g, m.alive = false := by
  have hact : ∀ o, stopActions p o = .signal (.group (effectiveSignal p.signal)) ::
      (if o.endedInTime then [.wait p.timeout] else [.wait p.timeout, .signal (.group 9)]) := by
    intro o
    rw [kill_only_after_timeout p o hc]
    simp [ht, hp, signal_clamp, killAction, cmdStop, minSig, maxSig, effectiveSignal]
    try (split <;> split <;> first | rfl | omega)
  unfold stopGroup
  rw [hact]
  simp only [applyAction]
  rw [hact]
  simp only [hstill, Bool.not_true, Bool.false_eq_true, ↓reduceIte, List.drop_succ_cons, List.drop_zero,
    List.foldl_cons, List.foldl_nil, applyAction]
  exact group_kill_all _

/-- a member that does not trap the signal does not survive a group stop -/
theorem obedient_member_ends (s : Int) (g : Group) (m : Member) (hm : m ∈ g) (hs : survives m s = false) :
    (hit s m) ∈ deliver (.group s) g ∧ (hit s m).alive = false := by
  refine ⟨List.mem_map.mpr ⟨m, hm, rfl⟩, ?_⟩
  unfold hit
  cases h : m.alive <;> simp [h, hs]

/-- **Full statement false (S1)**: a descendant that traps the stop signal and has redirected its
    output outlives a stop whose launched command ends in time — the escalation is tied to the end
    of the launched command and of its output, not to the group. Witness: parent obeys SIGTERM,
    child ignores it and does not hold the output, timeout 1 s. -/
theorem ignoring_descendant_survives :
    ∃ (p : Params) (g : Group), p.hasCommand = false ∧ p.parentOnly = false ∧ p.timeout ≠ 0 ∧
      (stopGroup p true g).any (·.alive) = true := by
  refine ⟨{ signal := 15, timeout := 1 }, [{}, { ignores := [15], holdsOutput := false }], rfl, rfl, by decide, by decide⟩

/-- whereas a descendant that traps the signal but still holds the output is reached by the escalation -/
example : (stopGroup { signal := 15, timeout := 1 } true [{}, { ignores := [15] }]).any (·.alive) = false := by decide

/-- `parent_only` addresses the launched command alone -/
theorem parent_only_leaves_descendants (s : Int) (m : Member) (r : Group) :
    deliver (.parent s) (m :: r) = hit s m :: r := rfl

example : stopActions { signal := 2, timeout := 3 } { endedInTime := false, cmdOk := true } =
    [.signal (.group 2), .wait 3, .signal (.group 9)] := by decide
example : stopActions { signal := 99, parentOnly := true } { endedInTime := false, cmdOk := true } =
    [.signal (.parent 15)] := by decide
example : stopActions { hasCommand := true, timeout := 0, parentOnly := true } { endedInTime := false, cmdOk := false } =
    [.runCommand 10, .signal (.group 9)] := by decide

end PC.Props.C06
