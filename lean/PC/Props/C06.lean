import PC.Tie.Stop
import PC.Spec.Pure
/-! C06 — OS-level stop: signal clamp and group/parent choice (pure part). -/
namespace PC.Props.C06
open PC.Stop PC.Spec

/-- With a command and a resolvable process group: the whole group is signalled unless
    `parent_only`, and always with the effective signal. -/
theorem signal_clamp (sig : Int) (parentOnly : Bool) :
    cmdStop false sig parentOnly true =
      (if parentOnly then SigAction.parent (effectiveSignal sig) else SigAction.group (effectiveSignal sig)) := by
  unfold cmdStop effectiveSignal minSig maxSig
  simp only [Bool.false_eq_true, ↓reduceIte]
  by_cases h : sig < 1 ∨ sig > 31
  · have : ¬ (1 ≤ sig ∧ sig ≤ 31) := by omega
    simp [h, this]
  · have : (1 ≤ sig ∧ sig ≤ 31) := by omega
    simp [h, this]

theorem signal_in_range (sig : Int) : 1 ≤ effectiveSignal sig ∧ effectiveSignal sig ≤ 31 := by
  unfold effectiveSignal; split <;> omega

theorem signal_clamp_src (sig : Int) (parentOnly : Bool) :
    PC.Gen.Stop.cmdStop false sig parentOnly true =
      (if parentOnly then SigAction.parent (effectiveSignal sig) else SigAction.group (effectiveSignal sig)) := by
  rw [PC.Tie.Stop.cmdStop_eq]; exact signal_clamp sig parentOnly

example : cmdStop false 0 false true = SigAction.group 15 := by decide
example : cmdStop false 9 true true = SigAction.parent 9 := by decide
example : cmdStop false 32 false true = SigAction.group 15 := by decide

end PC.Props.C06
