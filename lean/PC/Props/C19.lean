import PC.Tie.Api
/-! C19 — the REST layer performs the runner's operation with the request's parameters, maps its
    result to 200 / 207 / 400 and answers invalid requests with 400 without calling the runner;
    every client function addresses exactly the route of the handler it is meant for. -/
namespace PC.Props.C19
open PC.Api

/-- **Status classes**: a handler answers 200, 207 or 400 — or 500 only from the project-state
    handler when the runner's `GetProjectState` itself fails. -/
theorem status_class (h : Handler) (b : List (String × String)) (body : Body) (res : Res) :
    (handle h b body res).status = 200 ∨ (handle h b body res).status = 207 ∨
    (handle h b body res).status = 400 ∨
    ((handle h b body res).status = 500 ∧ h.rule = .state ∧ res ≠ .ok) := by
  unfold handle
  split
  · simp
  · split
    · simp
    · cases hr : h.rule <;> cases res <;> simp [statusOf]

/-- no request is answered 5xx by a handler other than the project-state one, whatever the runner returns -/
theorem no_5xx (h : Handler) (b : List (String × String)) (body : Body) (res : Res) (hs : h.rule ≠ .state) :
    (handle h b body res).status < 500 := by
  rcases status_class h b body res with h1 | h1 | h1 | ⟨_, h2, _⟩
  · omega
  · omega
  · omega
  · exact absurd h2 hs

/-- **A non-numeric or out-of-range numeric path parameter is answered 400 and the runner is not called** -/
theorem bad_param_400_noop (h : Handler) (b : List (String × String)) (body : Body) (res : Res) (p : String)
    (hp : p ∈ h.atoi) (hbad : isInt (lookup b p) = false) :
    handle h b body res = { status := 400, invoked := none } := by
  unfold handle
  have : (h.atoi.any fun p => !isInt (lookup b p)) = true :=
    List.any_eq_true.mpr ⟨p, hp, by simp [hbad]⟩
  simp [this]

/-- **A missing or malformed body is answered 400 and the runner is not called** -/
theorem bad_body_400_noop (h : Handler) (b : List (String × String)) (body : Body) (res : Res)
    (hb : h.bind = true) (hbody : body ≠ .valid) :
    handle h b body res = { status := 400, invoked := none } := by
  unfold handle
  split
  · rfl
  · have : (body != Body.valid) = true := by simpa using hbody
    simp [hb, this]

/-- **A valid request performs exactly the handler's operation with the request's parameters** and
    is answered by the rule applied to the operation's own result -/
theorem valid_invokes (h : Handler) (b : List (String × String)) (body : Body) (res : Res)
    (hints : ∀ p ∈ h.atoi, isInt (lookup b p) = true) (hbody : h.bind = true → body = .valid) :
    handle h b body res =
      { status := statusOf h.rule res, invoked := if h.op = "" then none else some (h.op, argsOf h b) } := by
  unfold handle
  have h1 : (h.atoi.any fun p => !isInt (lookup b p)) = false := by
    apply List.any_eq_false.mpr
    intro p hp
    simp [hints p hp]
  simp only [h1, Bool.false_eq_true, ↓reduceIte]
  by_cases hb : h.bind = true
  · simp [hb, hbody hb]
  · simp [hb]

/-- an error of the operation is a client error (400), a success is 200 — for the plain handlers -/
theorem simple_rule (res : Res) : statusOf .simple res = if res = .ok then 200 else 400 := by
  cases res <;> rfl

/-! ### Routing -/

theorem matchSegs_not_distinguishable :
    ∀ (p q : List Seg) (path : List String), (matchSegs p path).isSome → (matchSegs q path).isSome → distinguishable p q = false := by
  intro p
  induction p with
  | nil =>
    intro q path hp hq
    cases path with
    | nil => cases q with
      | nil => rfl
      | cons _ _ => simp [matchSegs] at hq
    | cons _ _ => simp [matchSegs] at hp
  | cons a p ih =>
    intro q path hp hq
    cases path with
    | nil => cases a <;> simp [matchSegs] at hp
    | cons s ss =>
      cases q with
      | nil => simp [matchSegs] at hq
      | cons c q =>
        have hp' : (matchSegs p ss).isSome := by
          cases a with
          | lit x => simp only [matchSegs] at hp; split at hp; exact hp; simp at hp
          | par x => simp only [matchSegs] at hp; split at hp; simp at hp; simpa using hp
        have hq' : (matchSegs q ss).isSome := by
          cases c with
          | lit x => simp only [matchSegs] at hq; split at hq; exact hq; simp at hq
          | par x => simp only [matchSegs] at hq; split at hq; simp at hq; simpa using hq
        have hrest := ih q ss hp' hq'
        cases a with
        | par x => cases c <;> simp [distinguishable, hrest]
        | lit x =>
          cases c with
          | par y => simp [distinguishable, hrest]
          | lit y =>
            have h1 : x = s := by
              simp only [matchSegs] at hp; split at hp; assumption; simp at hp
            have h2 : y = s := by
              simp only [matchSegs] at hq; split at hq; assumption; simp at hq
            simp [distinguishable, hrest, h1, h2]

/-- all pairs of distinct routes with the same verb are distinguishable (checked over the whole table) -/
theorem routes_pairwise_distinguishable :
    routes.Pairwise fun r1 r2 => r1.1 = r2.1 → distinguishable r1.2.1 r2.2.1 = true := by
  decide

/-- **At most one route answers a request**: no path is matched by two routes of the same verb -/
theorem distinguishable_symm : ∀ (p q : List Seg), distinguishable p q = distinguishable q p := by
  intro p
  induction p with
  | nil => intro q; cases q <;> simp [distinguishable]
  | cons a p ih =>
    intro q
    cases q with
    | nil => simp [distinguishable]
    | cons c q =>
      cases a <;> cases c <;> simp [distinguishable, ih q, bne_comm]

theorem route_unique (r1 r2 : String × List Seg × String) (path : List String)
    (h1 : r1 ∈ routes) (h2 : r2 ∈ routes) (hv : r1.1 = r2.1)
    (m1 : (matchSegs r1.2.1 path).isSome) (m2 : (matchSegs r2.2.1 path).isSome) : r1 = r2 := by
  apply Classical.byContradiction
  intro hne
  have hnd := matchSegs_not_distinguishable _ _ _ m1 m2
  have hpw : routes.Pairwise (fun a b => a ≠ b → a.1 = b.1 → distinguishable a.2.1 b.2.1 = true) :=
    routes_pairwise_distinguishable.imp fun h _ hv' => h hv'
  have hflip : routes.Pairwise (flip fun a b => a ≠ b → a.1 = b.1 → distinguishable a.2.1 b.2.1 = true) :=
    routes_pairwise_distinguishable.imp fun {a b} h hba hv' => by
      rw [distinguishable_symm]; exact h hv'.symm
  have hall := List.Pairwise.forall_of_forall_of_flip (l := routes)
    (R := fun a b => a ≠ b → a.1 = b.1 → distinguishable a.2.1 b.2.1 = true)
    (fun a _ h => absurd rfl h) hpw hflip
  have := hall h1 h2 hne hv
  rw [hnd] at this
  cases this

/-- **Every client function addresses exactly one route, that of its intended handler** -/
theorem client_reaches_target :
    ∀ c ∈ clientCalls, routesFor c.2.1 c.2.2.1 = [((clientTarget.find? (·.1 = c.1)).map (·.2)).getD "?"] := by
  decide

/-- no handler that reads a numeric parameter passes an unchecked string on: its `atoi` list is
    exactly the parameters whose name is not `name` -/
theorem numeric_params_checked :
    ∀ h ∈ handlers, h.atoi = h.params.filter (· ≠ "name") := by
  decide

example : respond "GET" ["process", "logs", "p", "x", "1"] .absent .ok = { status := 400, invoked := none } := by decide
example : respond "PATCH" ["process", "scale", "p", "3"] .absent .ok =
    { status := 200, invoked := some ("ScaleProcess", ["p", "3"]) } := by decide
example : respond "PATCH" ["process", "scale", "p", "99999999999999999999"] .absent .ok = { status := 400, invoked := none } := by decide
example : (respond "GET" ["nosuch"] .absent .ok).status = 404 := by decide

end PC.Props.C19
