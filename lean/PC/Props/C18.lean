import PC.Model.LogBuf
import PC.Spec.LogBuf
import PC.Tie.LogBuf
/-! C18 — property theorems (log window and live subscription). -/
namespace PC.Props.C18
open PC.Go PC.LogBuf PC.Spec.LogBuf

private theorem slice_tail (buf : List String) (o : Nat) (ho : o ≤ buf.length) :
    goSlice buf ((buf.length : Int) - o) buf.length = some (buf.drop (buf.length - o)) := by
  rw [goSlice_to_end (by omega) (by omega)]
  congr 2
  omega

private theorem slice_win (buf : List String) (o l : Nat) (ho : o ≤ buf.length) (hl : l ≤ o) :
    goSlice buf ((buf.length : Int) - o) ((buf.length : Int) - o + l)
      = some ((buf.drop (buf.length - o)).take l) := by
  rw [goSlice_some (by omega) (by omega) (by omega)]
  have h1 : ((buf.length : Int) - o).toNat = buf.length - o := by omega
  have h2 : ((buf.length : Int) - o + l - ((buf.length : Int) - o)).toNat = l := by omega
  rw [h1, h2]

/-! ### The model's unbounded integers are faithful: no 64-bit overflow in `GetLogRange` -/

/-- the offset after the two clamps of `getLogRange` -/
def clampOff (n off : Int) : Int :=
  let o := if off < 0 then 0 else off
  if o > n then n else o
/-- the limit after the two clamps of `getLogRange` -/
def clampLim (o lim : Int) : Int :=
  let l := if lim < 1 then 0 else lim
  if l > o then o else l

/-- `getLogRange` computes with the clamped values only -/
theorem getLogRange_clamped (buf : List String) (off lim : Int) :
    getLogRange buf off lim =
      if (buf.length : Int) = 0 then some [] else
      if clampLim (clampOff buf.length off) lim = 0 then
        goSlice buf ((buf.length : Int) - clampOff buf.length off) (buf.length : Int)
      else goSlice buf ((buf.length : Int) - clampOff buf.length off)
        ((buf.length : Int) - clampOff buf.length off + clampLim (clampOff buf.length off) lim) := rfl

/-- **Every value `GetLogRange` computes lies between 0 and the buffer length**, whatever the two
    arguments are: both are clamped before any arithmetic is done on them, so the implementation's
    64-bit integers cannot overflow and the unbounded integers of the model describe it exactly.
    (A variant that adds `limit` before clamping overflows for `limit` near `MaxInt64`.) -/
theorem range_arith_in_bounds (n off lim : Int) (hn : 0 ≤ n) :
    0 ≤ clampOff n off ∧ clampOff n off ≤ n ∧
    0 ≤ clampLim (clampOff n off) lim ∧ clampLim (clampOff n off) lim ≤ clampOff n off ∧
    0 ≤ n - clampOff n off ∧ n - clampOff n off ≤ n ∧
    0 ≤ n - clampOff n off + clampLim (clampOff n off) lim ∧ n - clampOff n off + clampLim (clampOff n off) lim ≤ n := by
  unfold clampLim clampOff
  simp only
  repeat' split
  all_goals omega

/-- A range request returns exactly the window, for every buffer and every pair of integers;
    in particular it never panics. -/
theorem range_spec (buf : List String) (off lim : Int) :
    getLogRange buf off lim = some (window buf off lim) := by
  unfold getLogRange window lastN
  by_cases hn : (buf.length : Int) = 0
  · have : buf = [] := by
      cases buf with
      | nil => rfl
      | cons a t => simp at hn; omega
    subst this
    simp
  · simp only [hn, ↓reduceIte]
    -- the clamped offset, as a natural number
    obtain ⟨o, ho, hoff⟩ : ∃ o : Nat, o ≤ buf.length ∧
        (if (if off < 0 then 0 else off) > (buf.length : Int) then (buf.length : Int)
          else (if off < 0 then 0 else off)) = (o : Int) ∧
        (min (max off 0) (buf.length : Int)).toNat = o := by
      refine ⟨(min (max off 0) (buf.length : Int)).toNat, by omega, ?_, rfl⟩
      split <;> split <;> omega
    rw [hoff.1, hoff.2]
    by_cases hl : lim < 1
    · simp only [hl, ↓reduceIte]
      have : (if (0 : Int) > (o : Int) then (o : Int) else 0) = 0 := by split <;> omega
      simp only [this, ↓reduceIte]
      exact slice_tail buf o ho
    · simp only [hl, ↓reduceIte]
      by_cases hlo : lim > (o : Int)
      · simp only [hlo, ↓reduceIte]
        by_cases ho0 : (o : Int) = 0
        · simp only [ho0, ↓reduceIte]
          have : o = 0 := by omega
          subst this
          simp [goSlice]
        · simp only [ho0, ↓reduceIte]
          have := slice_win buf o o ho (Nat.le_refl _)
          rw [this]
          congr 1
          rw [List.take_of_length_le, List.take_of_length_le] <;> simp only [List.length_drop] <;> omega
      · simp only [hlo, ↓reduceIte]
        have hlim0 : ¬ lim = 0 := by omega
        simp only [hlim0, ↓reduceIte]
        have := slice_win buf o lim.toNat ho (by omega)
        have hcast : ((lim.toNat : Nat) : Int) = lim := by omega
        rw [hcast] at this
        exact this

/-- The same statement about the definition regenerated from the source on this run. -/
theorem range_spec_src (buf : List String) (off lim : Int) :
    PC.Gen.LogBuf.getLogRange buf off lim = some (window buf off lim) := by
  rw [PC.Tie.LogBuf.getLogRange_eq]; exact range_spec buf off lim

/-! ### The buffer holds the most recent lines, boundedly many -/

/-- All lines ever written, oldest first, after a sequence of writes. -/
def writes (b : Buf) (ms : List String) : Buf := ms.foldl write b

theorem write_len_le (b : Buf) (m : String) (h : b.buffer.length ≤ b.size + slack) :
    (write b m).buffer.length ≤ b.size + slack := by
  unfold write
  simp only [slack] at *
  simp only [List.length_append, List.length_singleton]
  by_cases hc : b.buffer.length + 1 > b.size + 100
  · simp only [hc, ↓reduceIte, List.length_drop, List.length_append, List.length_singleton]; omega
  · simp only [hc, ↓reduceIte, List.length_append, List.length_singleton]; omega

@[simp] theorem write_size (b : Buf) (m : String) : (write b m).size = b.size := rfl

/-- Never unboundedly more than the configured length: at most `size + slack` lines. -/
theorem len_upper (size : Nat) (ms : List String) :
    (writes (new size) ms).buffer.length ≤ size + slack := by
  suffices h : ∀ b : Buf, b.buffer.length ≤ b.size + slack →
      (writes b ms).buffer.length ≤ b.size + slack ∧ (writes b ms).size = b.size from
    (h (new size) (by simp [new])).1
  induction ms with
  | nil => intro b hb; exact ⟨hb, rfl⟩
  | cons m ms ih =>
    intro b hb
    have := ih (write b m) (by simpa using write_len_le b m hb)
    simpa [writes] using this

/-- The buffer is always a suffix of everything written (most recent lines, in order), and it
    holds at least `min size (number written)` of them. -/
theorem content_recent (size : Nat) (ms : List String) :
    let b := writes (new size) ms
    b.buffer = lastN b.buffer.length ms ∧ min size ms.length ≤ b.buffer.length := by
  suffices h : ∀ (pre : List String) (b : Buf), b.size = size →
      b.buffer = lastN b.buffer.length pre → min size pre.length ≤ b.buffer.length →
      b.buffer.length ≤ pre.length →
      (writes b ms).buffer = lastN (writes b ms).buffer.length (pre ++ ms) ∧
      min size (pre ++ ms).length ≤ (writes b ms).buffer.length by
    have := h [] (new size) rfl (by simp [new, lastN]) (by simp [new]) (by simp [new])
    simpa using this
  induction ms with
  | nil => intro pre b _ h1 h2 _; simpa [writes] using ⟨h1, h2⟩
  | cons m ms ih =>
    intro pre b hs h1 h2 h3
    have key : (write b m).buffer = lastN (write b m).buffer.length (pre ++ [m]) ∧
        min size (pre ++ [m]).length ≤ (write b m).buffer.length ∧
        (write b m).buffer.length ≤ (pre ++ [m]).length := by
      unfold write
      simp only [hs]
      have hb : b.buffer ++ [m] = lastN (b.buffer.length + 1) (pre ++ [m]) := by
        unfold lastN at *
        rw [List.drop_append_of_le_length (by simp)]
        simp only [List.length_append, List.length_singleton]
        have : pre.length + 1 - (b.buffer.length + 1) = pre.length - b.buffer.length := by omega
        rw [this]
        exact congrArg (· ++ [m]) h1
      split
      · rename_i hgt
        simp only [List.length_append, List.length_singleton] at hgt
        refine ⟨?_, ?_, ?_⟩
        · rw [hb]
          unfold lastN
          simp only [List.drop_drop, List.length_drop, List.length_append, List.length_singleton]
          congr 1
          omega
        · simp only [List.length_drop, List.length_append, List.length_singleton]; omega
        · simp only [List.length_drop, List.length_append, List.length_singleton]; omega
      · refine ⟨?_, ?_, ?_⟩
        · simpa using hb
        · simp only [List.length_append, List.length_singleton]; omega
        · simp only [List.length_append, List.length_singleton]; omega
    have := ih (pre ++ [m]) (write b m) (by simpa using hs) key.1 key.2.1 key.2.2
    simpa [writes] using this

/-- Once `size` lines were written the buffer holds at least `size` of them. -/
theorem len_lower (size : Nat) (ms : List String) (h : size ≤ ms.length) :
    size ≤ (writes (new size) ms).buffer.length := by
  have := (content_recent size ms).2
  omega


/-! ### Live subscription: tail, then every later line exactly once, in order -/

inductive Op where
  | write (m : String)
  | sub (id : String) (tail : Int)
  | unsub (id : String)
  | close
deriving Repr, DecidableEq

/-- One buffer operation (`none`: the implementation would have panicked). All of them are atomic
    under the buffer's mutex, so every interleaving of writers, subscribers and unsubscribers is a
    sequence of these. -/
def apply (b : Buf) : Op → Option Buf
  | .write m => some (write b m)
  | .sub id t => getLogsAndSubscribe b id t
  | .unsub id => some (unSubscribe b id)
  | .close => some (close b)

def run (b : Buf) : List Op → Option Buf
  | [] => some b
  | op :: ops => (apply b op).bind fun b' => run b' ops

def touches (id : String) : Op → Bool
  | .sub i _ => i == id
  | .unsub i => i == id
  | .close => true
  | .write _ => false

def written : List Op → List String
  | [] => []
  | .write m :: ops => m :: written ops
  | _ :: ops => written ops

/-- What observer `id` has been handed so far (`none`: not subscribed). -/
def gotOf (b : Buf) (id : String) : Option (List String) :=
  (b.observers.find? (·.id = id)).map (·.got)

theorem subscribe_total (b : Buf) (id : String) (k : Int) :
    getLogsAndSubscribe b id k =
      some { b with observers := (b.observers.filter (·.id ≠ id)) ++
        [{ id, tail := k, got := window b.buffer k 0 }] } := by
  unfold getLogsAndSubscribe
  rw [range_spec]

/-- No operation sequence ever fails (panics). -/
theorem run_total (b : Buf) (ops : List Op) : ∃ b', run b ops = some b' := by
  induction ops generalizing b with
  | nil => exact ⟨b, rfl⟩
  | cons op ops ih =>
    cases op with
    | write m => simpa [run, apply] using ih _
    | sub id t => simpa [run, apply, subscribe_total] using ih _
    | unsub id => simpa [run, apply] using ih _
    | close => simpa [run, apply] using ih _

private theorem find_filter_ne (l : List Observer) (id id' : String) (h : id' ≠ id) :
    (l.filter (·.id ≠ id')).find? (·.id = id) = l.find? (·.id = id) := by
  rw [List.find?_filter]
  congr 1
  funext a
  by_cases ha : a.id = id
  · have : a.id ≠ id' := by rw [ha]; exact fun e => h e.symm
    simp [ha, this]
    exact fun e => h e.symm
  · simp [ha]

private theorem gotOf_write (b : Buf) (m id : String) :
    gotOf (write b m) id = (gotOf b id).map (· ++ [m]) := by
  unfold gotOf write
  simp only
  induction b.observers with
  | nil => rfl
  | cons o l ih =>
    by_cases h : o.id = id <;> simp_all [List.find?]

private theorem gotOf_step (b b' : Buf) (id : String) (op : Op) (h : touches id op = false)
    (hb : apply b op = some b') :
    gotOf b' id = (gotOf b id).map (· ++ written [op]) := by
  cases op with
  | write m =>
    simp only [apply, Option.some.injEq] at hb; subst hb
    simpa [written] using gotOf_write b m id
  | sub i t =>
    have hi : i ≠ id := by simpa [touches] using h
    rw [apply, subscribe_total] at hb
    simp only [Option.some.injEq] at hb; subst hb
    unfold gotOf
    simp only [written, List.append_nil]
    rw [List.find?_append, find_filter_ne _ _ _ hi]
    cases hfind : b.observers.find? (·.id = id) with
    | some o => simp
    | none => simp [List.find?, hi]
  | unsub i =>
    have hi : i ≠ id := by simpa [touches] using h
    simp only [apply, Option.some.injEq] at hb; subst hb
    unfold gotOf unSubscribe
    simp only [written, List.append_nil]
    rw [find_filter_ne _ _ _ hi]
    cases b.observers.find? (·.id = id) <;> simp
  | close => simp [touches] at h

private theorem written_append (a b : List Op) : written (a ++ b) = written a ++ written b := by
  induction a with
  | nil => rfl
  | cons op a ih => cases op <;> simp [written, ih]

/-- **No gap, no duplicate at the hand-over.** A follower that subscribes with tail `k` on any
    buffer state and is then left subscribed receives exactly the window of the last `k` lines
    followed by every subsequently written line, once each and in order — for every interleaving
    `ops` of writes and of other followers' subscribe/unsubscribe calls. -/
theorem subscribe_exact (b : Buf) (id : String) (k : Int) (ops : List Op)
    (h : ∀ op ∈ ops, touches id op = false) :
    ∃ b', run b (.sub id k :: ops) = some b' ∧
      gotOf b' id = some (window b.buffer k 0 ++ written ops) := by
  simp only [run, apply, subscribe_total, Option.bind_some]
  generalize hb1 : ({ b with observers := (b.observers.filter (·.id ≠ id)) ++
        [{ id, tail := k, got := window b.buffer k 0 }] } : Buf) = b1
  have h0 : gotOf b1 id = some (window b.buffer k 0) := by
    subst hb1
    unfold gotOf
    simp only
    rw [List.find?_append]
    have : (b.observers.filter (·.id ≠ id)).find? (·.id = id) = none := by
      simp [List.find?_eq_none]
    rw [this]
    simp [List.find?]
  clear hb1
  generalize window b.buffer k 0 = w at *
  induction ops generalizing b1 w with
  | nil => exact ⟨b1, rfl, by simpa [written] using h0⟩
  | cons op ops ih =>
    obtain ⟨b2, hb2⟩ : ∃ b2, apply b1 op = some b2 := by
      cases op with
      | write m => exact ⟨_, rfl⟩
      | sub i t => exact ⟨_, by rw [apply, subscribe_total]⟩
      | unsub i => exact ⟨_, rfl⟩
      | close => exact ⟨_, rfl⟩
    have hstep := gotOf_step b1 b2 id op (h op (by simp)) hb2
    rw [h0] at hstep
    obtain ⟨b', hr, hg⟩ := ih (fun o ho => h o (by simp [ho])) b2 (w ++ written [op]) hstep
    refine ⟨b', by simp [run, hb2, hr], ?_⟩
    rw [hg, List.append_assoc, ← written_append]
    rfl

/-- Observer ids stay unique (the Go map keeps one observer per id). -/
theorem observers_nodup (b b' : Buf) (op : Op) (hb : apply b op = some b')
    (h : (b.observers.map (·.id)).Nodup) : (b'.observers.map (·.id)).Nodup := by
  cases op with
  | write m =>
    simp only [apply, Option.some.injEq] at hb; subst hb
    simpa [write, List.map_map, Function.comp_def] using h
  | sub i t =>
    rw [apply, subscribe_total] at hb
    simp only [Option.some.injEq] at hb; subst hb
    simp only [List.map_append, List.map_cons, List.map_nil]
    rw [List.nodup_append]
    refine ⟨?_, by simp, ?_⟩
    · exact (List.Nodup.sublist (List.Sublist.map _ List.filter_sublist) h)
    · intro a ha c hc
      simp only [List.mem_map, List.mem_filter] at ha
      simp only [List.mem_singleton] at hc
      obtain ⟨o, ⟨_, ho⟩, rfl⟩ := ha
      subst hc
      simpa using ho
  | unsub i =>
    simp only [apply, Option.some.injEq] at hb; subst hb
    exact (List.Nodup.sublist (List.Sublist.map _ List.filter_sublist) h)
  | close =>
    simp only [apply, Option.some.injEq] at hb; subst hb
    simp [close]

/-- A write never blocks on, and is never altered by, the local observers: it is a total function
    of the buffer (the stalled-WebSocket-follower clause is modelled separately in `WsFollow`). -/
theorem write_total (b : Buf) (m : String) : ∃ b', apply b (.write m) = some b' := ⟨_, rfl⟩

/-! Non-vacuity: concrete instances. -/
example : getLogRange ["a","b","c","d","e","f","g","h","i","j"] 3 2 = some ["h","i"] := by decide
example : getLogRange ["a","b","c"] 10 3 = some ["a","b","c"] := by decide
example : getLogRange ["a","b","c"] (-4) (-1) = some [] := by decide
example : (run (new 2) [.write "x", .sub "o" 5, .write "y", .sub "q" 0, .write "z"]).bind (gotOf · "o")
    = some ["x","y","z"] := by decide

end PC.Props.C18
