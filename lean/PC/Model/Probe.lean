import PC.Go.Atoi
import PC.Model.ProbeTypes
/-! Model of probe defaults and the fatal/ok decision (src/health/probe.go, health_checks.go). -/
namespace PC.Probe
open PC.Go

def validateAndSetDefaults (p : ProbeNums) : ProbeNums :=
  let p := { p with initialDelay := if (p.initialDelay < 0) then 0 else p.initialDelay }
  let p := { p with periodSeconds := if (p.periodSeconds < 1) then 10 else p.periodSeconds }
  let p := { p with timeoutSeconds := if (p.timeoutSeconds < 1) then 1 else p.timeoutSeconds }
  let p := { p with successThreshold := if (p.successThreshold < 1) then 1 else p.successThreshold }
  let p := { p with failureThreshold := if (p.failureThreshold < 1) then 3 else p.failureThreshold }
  p

def httpNumPort (port : String) (numPort : Int) : Int :=
  let numPort := if (port = "") then 0 else (atoi port).1
  let numPort := if ((numPort < 1) ∨ (numPort > 65535)) then 0 else numPort
  numPort

def healthCheckCompleted (failureThreshold contiguousFailures : Int) (status : String) (stopped : Bool) : Option (Bool × Bool) :=
  let fatal := false
  let ok := false
  let fatal := if (contiguousFailures = failureThreshold) then true else fatal
  let ok := if (status = "ok") then true else ok
  if stopped then none else some (ok, fatal)

/-- go-health's contiguous-failure counter: reset by a success, incremented by a failure. -/
def contiguous (outcomes : List Bool) : Nat :=
  outcomes.foldl (fun c ok => if ok then 0 else c + 1) 0

end PC.Probe
