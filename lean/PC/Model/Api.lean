import PC.Go.Atoi
import PC.Model.ApiTypes
/-! Model of the REST layer (src/api/routes.go, src/api/pc_api.go) and of the requests the bundled
    client sends (src/client/*.go): a route table, per handler the parameters it converts, whether
    it binds a JSON body, the `IProject` operation it calls and the rule by which the operation's
    result becomes an HTTP status. gin's router, net/http and encoding/json are libraries: they
    are represented by the matching rule below and by the status / body class only. -/
namespace PC.Api

/-- how a handler turns the operation's result into a status -/
inductive Rule where
  | simple    -- error → 400, else 200
  | multi     -- error with empty result → 400, error with partial result → 207, else 200
  | always    -- 200 whatever happens (liveness, shutdown)
  | state     -- error → 500, else 200 (project state)
deriving Repr, DecidableEq

structure Handler where
  name : String
  params : List String := []      -- path parameters read
  atoi : List String := []        -- of which converted with strconv.Atoi
  bind : Bool := false            -- binds a JSON body
  op : String := ""               -- IProject method ("" = none)
  rule : Rule := .simple
deriving Repr, DecidableEq

def handlers : List Handler := [
  { name := "GetHostName", op := "GetHostName" },
  { name := "GetProcess", params := ["name"], op := "GetProcessState" },
  { name := "GetProcessInfo", params := ["name"], op := "GetProcessInfo" },
  { name := "GetProcessLogs", params := ["name", "endOffset", "limit"], atoi := ["endOffset", "limit"], op := "GetProcessLog" },
  { name := "GetProcessPorts", params := ["name"], op := "GetProcessPorts" },
  { name := "GetProcesses", op := "GetProcessesState" },
  { name := "GetProjectState", op := "GetProjectState", rule := .state },
  { name := "IsAlive", rule := .always },
  { name := "ReloadProject", op := "ReloadProject", rule := .multi },
  { name := "RestartProcess", params := ["name"], op := "RestartProcess" },
  { name := "ScaleProcess", params := ["name", "scale"], atoi := ["scale"], op := "ScaleProcess" },
  { name := "ShutDownProject", op := "ShutDownProject", rule := .always },
  { name := "StartProcess", params := ["name"], op := "StartProcess" },
  { name := "StopProcess", params := ["name"], op := "StopProcess" },
  { name := "StopProcesses", bind := true, op := "StopProcesses", rule := .multi },
  { name := "UpdateProcess", bind := true, op := "UpdateProcess" },
  { name := "UpdateProject", bind := true, op := "UpdateProject", rule := .multi } ]

/-- status constants a rule can produce -/
def Rule.statuses : Rule → List String
  | .simple => ["StatusBadRequest", "StatusOK"]
  | .multi => ["StatusBadRequest", "StatusMultiStatus", "StatusOK"]
  | .always => ["StatusOK"]
  | .state => ["StatusInternalServerError", "StatusOK"]

/-- (verb, pattern, handler) -/
def routes : List (String × List Seg × String) := [
  ("GET", [.lit "live"], "IsAlive"),
  ("GET", [.lit "hostname"], "GetHostName"),
  ("GET", [.lit "processes"], "GetProcesses"),
  ("GET", [.lit "process", .par "name"], "GetProcess"),
  ("GET", [.lit "process", .lit "info", .par "name"], "GetProcessInfo"),
  ("POST", [.lit "process"], "UpdateProcess"),
  ("GET", [.lit "process", .lit "ports", .par "name"], "GetProcessPorts"),
  ("GET", [.lit "process", .lit "logs", .par "name", .par "endOffset", .par "limit"], "GetProcessLogs"),
  ("PATCH", [.lit "process", .lit "stop", .par "name"], "StopProcess"),
  ("PATCH", [.lit "processes", .lit "stop"], "StopProcesses"),
  ("POST", [.lit "process", .lit "start", .par "name"], "StartProcess"),
  ("POST", [.lit "process", .lit "restart", .par "name"], "RestartProcess"),
  ("POST", [.lit "project", .lit "stop"], "ShutDownProject"),
  ("POST", [.lit "project"], "UpdateProject"),
  ("POST", [.lit "project", .lit "configuration"], "ReloadProject"),
  ("GET", [.lit "project", .lit "state"], "GetProjectState"),
  ("PATCH", [.lit "process", .lit "scale", .par "name", .par "scale"], "ScaleProcess"),
  ("GET", [.lit "process", .lit "logs", .lit "ws"], "HandleLogsStream") ]

/-- routes of routes.go that do not lead to a `PcApi` JSON handler (swagger, redirect) -/
def otherRoutes : List (String × List Seg × String) := [
  ("GET", [.lit "swagger", .par "any"], "<wrapped>"),
  ("GET", [], "<func>") ]

/-- what each client function sends: (function, verb, path pattern, path ends in a slash).
    The two calls with a trailing slash rely on gin's trailing-slash redirect. -/
def clientCalls : List (String × String × List Seg × Bool) := [
  ("GetRemoteProcessesState", "GET", [.lit "processes"], false),
  ("ReadProcessLogs", "GET", [.lit "process", .lit "logs", .lit "ws"], false),
  ("getHostName", "GET", [.lit "hostname"], false),
  ("getProcessInfo", "GET", [.lit "process", .lit "info", .par "p1"], false),
  ("getProcessLog", "GET", [.lit "process", .lit "logs", .par "p1", .par "p2", .par "p3"], false),
  ("getProcessPorts", "GET", [.lit "process", .lit "ports", .par "p1"], false),
  ("getProcessState", "GET", [.lit "process", .par "p1"], false),
  ("getProjectState", "GET", [.lit "project", .lit "state"], true),
  ("isAlive", "GET", [.lit "live"], false),
  ("reloadProject", "POST", [.lit "project", .lit "configuration"], false),
  ("restartProcess", "POST", [.lit "process", .lit "restart", .par "p1"], false),
  ("scaleProcess", "PATCH", [.lit "process", .lit "scale", .par "p1", .par "p2"], false),
  ("shutDownProject", "POST", [.lit "project", .lit "stop"], true),
  ("startProcess", "POST", [.lit "process", .lit "start", .par "p1"], false),
  ("stopProcess", "PATCH", [.lit "process", .lit "stop", .par "p1"], false),
  ("stopProcesses", "PATCH", [.lit "processes", .lit "stop"], false),
  ("updateProcess", "POST", [.lit "process"], false),
  ("updateProject", "POST", [.lit "project"], false) ]

/-- the handler each client function is meant to reach -/
def clientTarget : List (String × String) := [
  ("GetRemoteProcessesState", "GetProcesses"), ("ReadProcessLogs", "HandleLogsStream"),
  ("getHostName", "GetHostName"), ("getProcessInfo", "GetProcessInfo"), ("getProcessPorts", "GetProcessPorts"), ("getProcessLog", "GetProcessLogs"),
  ("getProcessState", "GetProcess"), ("getProjectState", "GetProjectState"), ("isAlive", "IsAlive"),
  ("reloadProject", "ReloadProject"), ("restartProcess", "RestartProcess"), ("scaleProcess", "ScaleProcess"),
  ("shutDownProject", "ShutDownProject"), ("startProcess", "StartProcess"), ("stopProcess", "StopProcess"),
  ("stopProcesses", "StopProcesses"), ("updateProcess", "UpdateProcess"), ("updateProject", "UpdateProject") ]

/-! ### Routing -/

/-- a pattern matches a path (already split at `/`): same number of segments, static segments
    equal, parameters non-empty -/
def matchSegs : List Seg → List String → Option (List (String × String))
  | [], [] => some []
  | .par n :: ps, s :: ss => if s = "" then none else (matchSegs ps ss).map fun b => (n, s) :: b
  | .lit p :: ps, s :: ss => if p = s then matchSegs ps ss else none
  | _, _ => none

def findRoute (verb : String) (path : List String) : Option (String × List (String × String)) :=
  routes.findSome? fun (v, pat, h) => if v = verb then (matchSegs pat path).map fun b => (h, b) else none

/-- two patterns that no path can match both: different lengths, or different static segments at one position -/
def distinguishable : List Seg → List Seg → Bool
  | [], [] => false
  | .lit p :: ps, .lit q :: qs => p != q || distinguishable ps qs
  | _ :: ps, _ :: qs => distinguishable ps qs
  | _, _ => true

/-! ### Handling -/

inductive Body where
  | absent | valid | malformed
deriving Repr, DecidableEq

/-- class of the operation's result -/
inductive Res where
  | ok | err | partialErr
deriving Repr, DecidableEq

def statusOf : Rule → Res → Nat
  | .simple, .ok => 200 | .simple, _ => 400
  | .multi, .ok => 200 | .multi, .err => 400 | .multi, .partialErr => 207
  | .always, _ => 200
  | .state, .ok => 200 | .state, _ => 500

def lookup (b : List (String × String)) (k : String) : String := ((b.find? (·.1 = k)).map (·.2)).getD ""

def isInt (s : String) : Bool := (PC.Go.atoi s).2

/-- the arguments passed to the operation: the path parameters, integers in decimal -/
def argsOf (h : Handler) (b : List (String × String)) : List String :=
  h.params.map fun p => if h.atoi.contains p then toString (PC.Go.atoi (lookup b p)).1 else lookup b p

structure Outcome where
  status : Nat
  invoked : Option (String × List String)   -- operation and arguments, if the runner was called
deriving Repr, DecidableEq

/-- one handler on a matched request; `res` is the class of the result the operation returns -/
def handle (h : Handler) (b : List (String × String)) (body : Body) (res : Res) : Outcome :=
  if h.atoi.any (fun p => !isInt (lookup b p)) then { status := 400, invoked := none }
  else if h.bind && body != .valid then { status := 400, invoked := none }
  else { status := statusOf h.rule res, invoked := if h.op = "" then none else some (h.op, argsOf h b) }

def handlerOf (name : String) : Option Handler := handlers.find? (·.name = name)

/-- the server's answer to a request whose path is split at `/` (404: no route; gin's trailing-slash redirect is not modelled here) -/
def respond (verb : String) (path : List String) (body : Body) (res : Res) : Outcome :=
  match findRoute verb path with
  | none => { status := 404, invoked := none }
  | some (hn, b) =>
    match handlerOf hn with
    | none => { status := 0, invoked := none }      -- websocket upgrade: outside this model
    | some h => handle h b body res

/-- two patterns agree up to the names of their parameters -/
def samePattern : List Seg → List Seg → Bool
  | [], [] => true
  | .par _ :: ps, .par _ :: qs => samePattern ps qs
  | .lit p :: ps, .lit q :: qs => p == q && samePattern ps qs
  | _, _ => false

/-- routes whose verb and pattern agree with a client call -/
def routesFor (verb : String) (pat : List Seg) : List String :=
  (routes.filter fun (v, rp, _) => v == verb && samePattern rp pat).map (·.2.2)

end PC.Api
