import PC.Model.Restart
import PC.Model.RevDeps
/-! `Sup`: small-step model of the supervisor (`src/app/process.go`, `src/app/project_runner.go`)
    at hook-point granularity (DESIGN.md 4.3, Appendix A).

    Every parked thread sits at a *label* (a `verif.Await/Yield/Park/Block` call in the code); one
    step runs one thread from its label to the next label, or applies one external event (command
    exit, output line, probe result, kill timeout, API call). `fine` granularity stops at every
    label, `coarse` passes through the yield labels.

    The state is first-order (no closures, names and instances are natural numbers) and has
    decidable equality, so witness traces are checked by `decide`. -/
namespace PC.Sup

abbrev Name := Nat     -- index into the scenario's process list
abbrev IId := Nat      -- index into `Sys.insts` (one per `*Process` ever created)
abbrev Tid := Nat      -- index into `Sys.threads`

inductive Cond | completed | completedOk | healthy | logReady | started
deriving DecidableEq, Repr, Inhabited

inductive Policy | no | always | onFailure | exitOnFailure
deriving DecidableEq, Repr, Inhabited

inductive Status
  | disabled | foreground | pending | running | launching | launched
  | restarting | terminating | completed | skipped | error
deriving DecidableEq, Repr, Inhabited

inductive Health | unknown | ready | notReady
deriving DecidableEq, Repr, Inhabited

inductive LogRdy | none | ok | aborted
deriving DecidableEq, Repr, Inhabited

inductive Cmd | none | alive | exited (code : Int)
deriving DecidableEq, Repr, Inhabited

/-- kill-timeout context of `forceKillOnTimeout` -/
inductive StopCtx | none | armed | cancelled | timedOut
deriving DecidableEq, Repr, Inhabited

structure Cfg where
  deps : List (Name × Cond) := []
  policy : Policy := .no
  maxRestarts : Nat := 0
  exitOnEnd : Bool := false
  exitOnSkipped : Bool := false
  hasReadyProbe : Bool := false
  hasReadyLine : Bool := false
  badDir : Bool := false
  deferred : Bool := false
  startFails : Bool := false
  sdTimeout : Nat := 0               -- shutdown.timeout_seconds (0 = undefined)
  sdSignal : Int := 0                -- shutdown.signal as configured
  onSignal : Option Int := some 0    -- fake command: exit code when signalled (`none`: ignores it)
deriving DecidableEq, Repr, Inhabited

/-- `types.ProcessState`, shared by every instance of a name. -/
structure PState where
  status : Status := .pending
  exit : Int := 0
  restarts : Nat := 0
  health : Health := .unknown
deriving DecidableEq, Repr, Inhabited

/-- One `*Process`. -/
structure Inst where
  name : Name
  seq : Nat                          -- n-th instance of that name (1-based)
  started : Bool := false
  done : Bool := false
  readyDone : Bool := false
  logReady : LogRdy := .none
  runCancelled : Bool := false
  isStopped : Bool := false
  cmd : Cmd := .none
  stopCtx : StopCtx := .none
  probeStopped : Bool := false       -- `Prober.stopped` of the readiness prober
  launches : Nat := 0
  launchedAt : Nat := 0              -- logical time of the last launch (orders live commands)
deriving DecidableEq, Repr, Inhabited

/-- Continuation after `ShutDownProject` returns. -/
inductive SdK
  | api                               -- API thread: return
  | procEnd (code : Int)              -- proc thread in `onProcessEnd`: then `exitCode = code`
  | procSkip                          -- proc thread in `onProcessSkipped`: then `exitCode = 1`
deriving DecidableEq, Repr, Inhabited

/-- Continuation after `stopProcess` returns. -/
inductive StopK
  | apiStop
  | apiRestart (n : Name)
  | sdSeq (i : IId) (rest : List IId) (k : SdK)   -- unordered shutdown loop: spawn waiter(i), go on
  | stopper (i : IId)
  | probe
deriving DecidableEq, Repr, Inhabited

inductive ApiOp
  | start (n : Name) | stop (n : Name) | restart (n : Name) | shutdown | runMain | state (n : Name)
deriving DecidableEq, Repr, Inhabited

/-- Program counter = the label a thread is parked at (plus locals). -/
inductive Pc
  | begin
  -- proc thread: dependency phase
  | depNext (rest : List (Name × Cond))                           -- internal (never parked at)
  | lockDep (k : Name) (c : Cond) (rest : List (Name × Cond))     -- B lock:runProc (lookup of k)
  | depLookup (d : IId) (c : Cond) (rest : List (Name × Cond))    -- Y dep:lookup
  | waitDone (d : IId) (ok : Bool) (rest : List (Name × Cond))    -- B wait:done (ok: must be 0)
  | waitReady (d : IId) (rest : List (Name × Cond))               -- B wait:ready
  | waitLogReady (d : IId) (rest : List (Name × Cond))            -- B wait:logready
  | waitStarted (d : IId) (rest : List (Name × Cond))             -- B wait:started
  | procSkipped                                                    -- Y proc:skipped
  -- proc thread: run()
  | runEnter | runChecked | cmdWait | runExited | backoff | backoffElapsed
  | procRan (code : Int) | procDoneAdded (code : Int)
  | lockCleanup                                                    -- B lock:runProc (removeRunningProcess)
  -- stopProcess(i) on the calling thread
  | stopEnter (i : IId) (cr : Bool) (k : StopK)
  | stopNotRunning (i : IId) (k : StopK)
  | stopChecked (i : IId) (cr : Bool) (k : StopK)
  | stopMarked (i : IId) (cr : Bool) (k : StopK)
  | stopWaitKill (i : IId) (k : StopK)
  -- ShutDownProject on the calling thread
  | sdEnter (k : SdK) | sdLock (k : SdK) | sdPrepared (order : List IId) (k : SdK) | sdWg (k : SdK)
  -- ordered shutdown helpers
  | depWg (i : IId)                                               -- B shutdown:depwg (stopper of i)
  | waitDoneThen (i : IId)                                        -- B wait:done then finished (waiter, stopper tail)
  -- API threads
  | apiLock (op : ApiOp)                                          -- B lock:runProc at the first lookup
  | startChecked (n : Name)
  | restartStopped (n : Name) | restartSleep (n : Name) | restartSlept (n : Name)
  | lockSpawn (n : Name)                                          -- B lock:runProc inside runProcess
  | runWg
  | finished
deriving DecidableEq, Repr, Inhabited

inductive Kind
  | proc (i : IId)
  | api (id : Nat) (op : ApiOp)
  | waiter (i : IId)
  | stopper (i : IId)
  | depwaiter (of : IId) (i : IId)      -- waits for `i` on behalf of the stopper of `of`
  | probe (id : Nat) (n : Name)         -- fatal readiness callback for the running instance of n
  | pstart (i : IId)                    -- goroutine of `Prober.Start` (re-arms the readiness prober)
deriving DecidableEq, Repr, Inhabited

structure Thr where
  kind : Kind
  pc : Pc := .begin
deriving DecidableEq, Repr, Inhabited

/-- Observations (the `verif.Obs` lines and the fake commander's calls). -/
inductive Obs
  | state (n : Name) (s : Status)
  | exit (n : Name) (code : Int)
  | restarts (n : Name) (k : Nat)
  | started (n : Name)
  | done (n : Name)
  | logready (n : Name)
  | deptry (me k : Name)
  | dep (me k : Name) (found : Bool)
  | launch (n : Name)
  | launchfail (n : Name)
  | stop (n : Name) (sig : Int)
  | projexit (code : Int)
  | sdOrder (names : List Name)
  | sdReturned
  | runReturned (code : Int)
  | ret (id : Nat) (res : String)
  | crash (why : String)
deriving DecidableEq, Repr, Inhabited

inductive Gran | coarse | fine
deriving DecidableEq, Repr, Inhabited

/-- ghost record of the dependency phase (not observable, used by the gating theorem only):
    process instance `i` found no instance of `k` when it looked it up / passed its wait on
    instance `d` for condition `c` -/
inductive GateEv
  | notFound (i : IId) (k : Name)
  | found (i : IId) (k : Name) (d : IId)
  | passed (i : IId) (d : IId) (c : Cond)
deriving DecidableEq, Repr, Inhabited

structure Sys where
  gran : Gran := .coarse
  ordered : Bool := false
  cfgs : List Cfg := []
  pstates : List PState := []
  insts : List Inst := []
  running : List (Option IId) := []      -- by name
  doneM : List (Option IId) := []        -- by name
  runMutex : Option Tid := none
  threads : List Thr := []
  exitCode : Int := 0
  exitCodeSet : Bool := false            -- `exitCodeOnce`
  wg : Nat := 0
  sdWg : Nat := 0
  depWg : List Nat := []                 -- by instance: the local wait group of that instance's stopper
  appCancelled : Bool := false
  crashed : Bool := false
  launchClock : Nat := 0
  obs : List Obs := []                   -- observations of the current step (cleared per step)
  gate : List GateEv := []               -- ghost: dependency lookups that found nothing, waits passed
deriving DecidableEq, Repr, Inhabited

/-! ### small accessors -/

def Sys.cfg (s : Sys) (n : Name) : Cfg := s.cfgs.getD n {}
def Sys.ps (s : Sys) (n : Name) : PState := s.pstates.getD n {}
def Sys.inst (s : Sys) (i : IId) : Inst := s.insts.getD i { name := 0, seq := 0 }
def Sys.thr (s : Sys) (t : Tid) : Thr := s.threads.getD t { kind := .waiter 0, pc := .finished }
def Sys.nameOf (s : Sys) (i : IId) : Name := (s.inst i).name
def Sys.icfg (s : Sys) (i : IId) : Cfg := s.cfg (s.nameOf i)

def Sys.setPs (s : Sys) (n : Name) (f : PState → PState) : Sys :=
  { s with pstates := s.pstates.modify n f }
def Sys.setInst (s : Sys) (i : IId) (f : Inst → Inst) : Sys :=
  { s with insts := s.insts.modify i f }
def Sys.setPc (s : Sys) (t : Tid) (pc : Pc) : Sys :=
  { s with threads := s.threads.modify t fun th => { th with pc := pc } }
def Sys.emit (s : Sys) (o : Obs) : Sys := { s with obs := s.obs ++ [o] }
def Sys.spawn (s : Sys) (k : Kind) : Sys := { s with threads := s.threads ++ [{ kind := k }] }
def Sys.note (s : Sys) (e : GateEv) : Sys := { s with gate := e :: s.gate }

/-- `wg.Add(1)` / `wg.Done()` on the wait group of the stopper of instance `i` (a table padded with
    zeros on demand: a stopper's wait group is a local variable, created empty) -/
def wgAdd (l : List Nat) (i : Nat) : List Nat :=
  (l ++ List.replicate (i + 1 - l.length) 0).modify i (· + 1)
def wgDone (l : List Nat) (i : Nat) : List Nat := l.modify i (· - 1)
def Sys.wgOf (s : Sys) (i : IId) : Nat := s.depWg.getD i 0

/-- the wake condition of a wait on instance `d` for condition `c` (what `enabledThr` tests) -/
def latchB (s : Sys) (c : Cond) (d : IId) : Bool :=
  match c with
  | .completed | .completedOk => (s.inst d).done
  | .healthy => (s.inst d).readyDone
  | .logReady => (s.inst d).logReady != .none
  | .started => (s.inst d).started || (s.inst d).runCancelled

/-- ghost: instance `i` goes on after its wait on `d` for `c` (recorded when the latch is set, which
    it is whenever the thread was woken: see `enabledThr`) -/
def Sys.notePassed (s : Sys) (i d : IId) (c : Cond) : Sys :=
  if latchB s c d then s.note (.passed i d c) else s

/-! ### pieces of the Go code -/

/-- `setState` + `onStateChange` on the state shared by the name of instance `i`. -/
def setState (s : Sys) (i : IId) (st : Status) : Sys :=
  let n := s.nameOf i
  let s := s.setPs n fun p => { p with status := st }
  let s := s.emit (.state n st)
  match st with
  | .skipped => (s.setPs n fun p => { p with exit := 1 }).emit (.exit n 1)
  | .restarting | .launching | .terminating => s.setPs n fun p => { p with health := .unknown }
  | _ => s

def setExit (s : Sys) (n : Name) (code : Int) : Sys :=
  (s.setPs n fun p => { p with exit := code }).emit (.exit n code)

def isRunningStatus (st : Status) : Bool :=
  st == .running || st == .launched || st == .launching

/-- what `onProcessEnd` does to the instance record: the pending kill-timeout context is cancelled,
    the probers are stopped, every wait latch is released (ready; log-ready as aborted unless the
    line was seen; started/run context) and the instance is done -/
def endInst (x : Inst) : Inst :=
  { x with stopCtx := if x.stopCtx = .armed then .cancelled else x.stopCtx,
           probeStopped := true, readyDone := true, runCancelled := true,
           logReady := if x.logReady = .none then .aborted else x.logReady,
           done := true }

/-- `Process.onProcessEnd(state)` -/
def onProcessEnd (s : Sys) (i : IId) (st : Status) : Sys :=
  let s := s.setInst i endInst
  let s := setState s i st
  s.emit (.done (s.nameOf i))

/-- The fake command of instance `i` dies with `code` (pipes reach EOF). -/
def cmdExit (s : Sys) (i : IId) (code : Int) : Sys :=
  s.setInst i fun x => { x with cmd := .exited code }

/-- `Commander.Stop(sig, parentOnly)` on the fake command: records the call, applies the reaction. -/
def cmdStop (s : Sys) (i : IId) (sig : Int) : Sys :=
  let s := s.emit (.stop (s.nameOf i) sig)
  match (s.inst i).cmd with
  | .alive =>
    if sig = 9 then cmdExit s i (-1)
    else match (s.icfg i).onSignal with
      | some c => cmdExit s i c
      | none => s
  | _ => s

def policyString : Policy → String
  | .no => "no" | .always => "always" | .onFailure => "on_failure" | .exitOnFailure => "exit_on_failure"

/-- `isRestartable()` evaluated on instance `i` (consumes the stop flag). -/
def decideRestart (s : Sys) (i : IId) : Bool × Sys :=
  let n := s.nameOf i
  let c := s.cfg n
  let p := s.ps n
  let r := PC.Restart.isRestartable (policyString c.policy) c.maxRestarts p.restarts p.exit (s.inst i).isStopped
  (r, s.setInst i fun x => { x with isStopped := false })

/-- Create a new `*Process` for name `n` (`NewProcess`), not yet registered. -/
def newInst (s : Sys) (n : Name) : Sys × IId :=
  let seq := (s.insts.filter (·.name = n)).length + 1
  ({ s with insts := s.insts ++ [{ name := n, seq := seq }] }, s.insts.length)

/-- `runProcess` after the lock has been obtained: new instance, register, spawn its goroutine. -/
def spawnProc (s : Sys) (n : Name) : Sys :=
  let (s, i) := newInst s n
  -- a new instance starts its life cycle in state Pending
  let s := setState s i .pending
  -- registered as running, and no longer an ended process: `removeDoneProcess`
  let s := { s with running := s.running.set n (some i), doneM := s.doneM.set n none, wg := s.wg + 1 }
  s.spawn (.proc i)

/-- `Run()` registers and spawns every non-deferred process before any of them runs (the loop
    contains no scheduling point); the order is therefore unobservable and index order is used. -/
def runOrder (s : Sys) : List Name :=
  (List.range s.cfgs.length).filter fun n => !(s.cfg n).deferred

/-- reverse dependencies among the running instances (fixed code: all dependents). -/
def revDepsOf (s : Sys) (n : Name) : List IId :=
  (List.range s.cfgs.length).filterMap fun m =>
    match s.running.getD m none, s.running.getD n none with
    | some j, some _ => if (s.cfg m).deps.any (·.1 = n) then some j else none
    | _, _ => none

/-! ### one thread step at fine granularity -/

/-- Result of running a thread for one fine-grained step: new system; the thread's pc has been
    updated. `hints` resolves map-iteration nondeterminism (order of dependencies / of the
    unordered shutdown list) the way the implementation resolved it. -/
structure Hints where
  depOrder : List Name := []
  sdOrder : List Name := []
  runOrder : List Name := []
deriving Repr, Inhabited

def pickDep (h : Hints) (rest : List (Name × Cond)) : Option ((Name × Cond) × List (Name × Cond)) :=
  match h.depOrder.findSome? (fun k => rest.find? (·.1 = k)) with
  | some d => some (d, rest.filter (· ≠ d))
  | none => match rest with
    | [] => none
    | d :: r => some (d, r)

def lockFree (s : Sys) (_t : Tid) : Bool := s.runMutex.isNone

/-- after the dependency phase: enter `run()` -/
def afterDeps (s : Sys) (t : Tid) : Sys := s.setPc t .runEnter

/-- `addDoneProcess(i)`: the instance is recorded under its name in the done registry -/
def addDone (s : Sys) (i : IId) : Sys := { s with doneM := s.doneM.set (s.nameOf i) (some i) }

/-- the skip path after a failed wait: `addDoneProcess`, `wontRun()`, then Y proc:skipped -/
def doSkip (s : Sys) (t : Tid) (i : IId) : Sys :=
  (onProcessEnd (addDone s i) i .skipped).setPc t .procSkipped

/-- `getRunningProcess(k)` with the lock available: found → Y dep:lookup, else next dependency -/
def lookupRunning (s : Sys) (t : Tid) (i : IId) (k : Name) (c : Cond) (rest : List (Name × Cond)) : Sys :=
  match s.running.getD k none with
  | some d => ((s.note (.found i k d)).emit (.dep (s.nameOf i) k true)).setPc t (.depLookup d c rest)
  | none => ((s.note (.notFound i k)).emit (.dep (s.nameOf i) k false)).setPc t (.depNext rest)

/-- process the next dependency (or finish the phase) -/
def depStep (s : Sys) (t : Tid) (i : IId) (h : Hints) (rest : List (Name × Cond)) : Sys :=
  match pickDep h rest with
  | none => afterDeps s t
  | some ((k, c), rest') =>
    let s := s.emit (.deptry (s.nameOf i) k)
    match s.doneM.getD k none with
    | some d => ((s.note (.found i k d)).emit (.dep (s.nameOf i) k true)).setPc t (.depLookup d c rest')
    | none => if lockFree s t then lookupRunning s t i k c rest' else s.setPc t (.lockDep k c rest')

/-- leave the goroutine body: the deferred `wg.Done()` runs before `removeRunningProcess` -/
def gotoCleanup (s : Sys) (t : Tid) : Sys := ({ s with wg := s.wg - 1 }).setPc t .lockCleanup

/-- enter `stopProcess(i)`: `runCancelFn()` (real stops only) precedes the first scheduling point -/
def gotoStop (s : Sys) (t : Tid) (i : IId) (cr : Bool) (k : StopK) : Sys :=
  -- an internal stop (failed readiness probe, `cr = false`) leaves the restart loop alive
  (s.setInst i fun x => { x with runCancelled := x.runCancelled || cr }).setPc t (.stopEnter i cr k)

/-- the launch block of `run()`: set state, start the command -/
def doLaunch (s : Sys) (t : Tid) (i : IId) : Sys :=
  let s := setState s i .running
  if (s.icfg i).startFails then
    let s := s.emit (.launchfail (s.nameOf i))
    let s := setExit s (s.nameOf i) 1
    let s := onProcessEnd s i .error
    s.setPc t (.procRan 1)
  else
    let s := s.emit (.launch (s.nameOf i))
    let s := { s with launchClock := s.launchClock + 1 }
    let s := s.setInst i fun x => { x with cmd := .alive, launches := x.launches + 1, launchedAt := s.launchClock }
    -- startProbes(): the prober is re-armed by its own goroutine
    let s := if (s.icfg i).hasReadyProbe then s.spawn (.pstart i) else s
    s.setPc t .cmdWait

/-- `ShutDownProject` body once the lock is held: order, prepare -/
def sdBody (s : Sys) (t : Tid) (h : Hints) (k : SdK) : Sys :=
  let runningNames := (List.range s.cfgs.length).filter fun n => (s.running.getD n none).isSome
  -- the order is the implementation's (map iteration / reversed dependency order); the model follows
  -- the observed order and the C12 oracle judges it
  let names := (h.sdOrder.filter (runningNames.contains ·)) ++ (runningNames.filter (!h.sdOrder.contains ·))
  let order := names.filterMap fun n => s.running.getD n none
  let s := s.emit (.sdOrder names)
  let s := order.foldl (fun s i => s.setInst i fun x => { x with isStopped := true }) s
  s.setPc t (.sdPrepared order k)

/-- `exitCodeOnce.Do`: the first trigger decides the project exit code -/
def recordExit (s : Sys) (code : Int) : Sys :=
  if s.exitCodeSet then s else ({ s with exitCode := code, exitCodeSet := true }).emit (.projexit code)

/-- after `ShutDownProject` returned -/
def sdReturn (s : Sys) (t : Tid) (k : SdK) : Sys :=
  let s := { s with appCancelled := true, runMutex := none }
  let s := s.emit .sdReturned
  match k with
  | .api => match (s.thr t).kind with
    | .api id _ => (s.emit (.ret id "ok")).setPc t .finished
    | _ => s.setPc t .finished
  | .procEnd _ => gotoCleanup s t
  | .procSkip => gotoCleanup s t

/-- unordered shutdown loop: stop the next process of `rest` or wait for the waiters -/
def sdSeqNext (s : Sys) (t : Tid) (rest : List IId) (k : SdK) : Sys :=
  match rest with
  | [] => s.setPc t (.sdWg k)
  | i :: rest' => gotoStop s t i true (.sdSeq i rest' k)

/-- continuation after `stopProcess` returned (always nil with the fake commander) -/
def stopReturn (s : Sys) (t : Tid) (k : StopK) : Sys :=
  match k with
  | .apiStop => match (s.thr t).kind with
    | .api id _ => (s.emit (.ret id "ok")).setPc t .finished
    | _ => s.setPc t .finished
  | .apiRestart n => s.setPc t (.restartStopped n)
  | .sdSeq i rest k =>
    let s := { s with sdWg := s.sdWg + 1 }
    let s := s.spawn (.waiter i)
    sdSeqNext s t rest k
  | .stopper i => s.setPc t (.waitDoneThen i)
  | .probe => s.setPc t .finished

/-- `runProcess(name)` from an API thread once the lock is free -/
def apiSpawn (s : Sys) (t : Tid) (n : Name) : Sys :=
  let s := spawnProc s n
  match (s.thr t).kind with
  | .api id _ => (s.emit (.ret id "ok")).setPc t .finished
  | _ => s.setPc t .finished

def apiRet (s : Sys) (t : Tid) (res : String) : Sys :=
  match (s.thr t).kind with
  | .api id _ => (s.emit (.ret id res)).setPc t .finished
  | _ => s.setPc t .finished

def statusString : Status → String
  | .disabled => "Disabled" | .foreground => "Foreground" | .pending => "Pending" | .running => "Running"
  | .launching => "Launching" | .launched => "Launched" | .restarting => "Restarting"
  | .terminating => "Terminating" | .completed => "Completed" | .skipped => "Skipped" | .error => "Error"

/-- first action of an API thread after its lookup lock is available -/
def apiFirst (s : Sys) (t : Tid) (h : Hints) (op : ApiOp) : Sys :=
  match op with
  | .start n =>
    match s.running.getD n none with
    | some _ => apiRet s t "already-running"
    | none => s.setPc t (.startChecked n)
  | .stop n =>
    match s.running.getD n none with
    | some i =>
      let s := s.setInst i fun x => { x with isStopped := true }
      gotoStop s t i true .apiStop
    | none => if n < s.cfgs.length then apiRet s t "not-running" else apiRet s t "no-such"
  | .restart n =>
    match s.running.getD n none with
    | some i =>
      let s := s.setInst i fun x => { x with isStopped := true }
      gotoStop s t i true (.apiRestart n)
    | none => if n < s.cfgs.length then s.setPc t (.lockSpawn n) else apiRet s t "no-such"
  | .state n =>
    if n < s.cfgs.length then apiRet s t (statusString (s.ps n).status) else apiRet s t "no-such"
  | .shutdown => s.setPc t (.sdEnter .api)
  | .runMain =>
    -- Run(): reset registries, spawn every non-deferred process in dependency order
    let s := { s with running := s.running.map (fun _ => none), doneM := s.doneM.map (fun _ => none) }
    -- the spawn order is the implementation's (`WithProcesses` over a map); the model follows it
    let ro := runOrder s
    let order := (h.runOrder.filter (ro.contains ·)) ++ (ro.filter (!h.runOrder.contains ·))
    let s := order.foldl spawnProc s
    s.setPc t .runWg

/-! The thread programs, one definition per label ("arm"), so that each can be reasoned about on
    its own; `stepThread` only dispatches. -/

def armDepLookup (s : Sys) (t : Tid) (d : IId) (c : Cond) (rest : List (Name × Cond)) : Sys :=
  match c with
  | .completed => s.setPc t (.waitDone d false rest)
  | .completedOk => s.setPc t (.waitDone d true rest)
  | .healthy => s.setPc t (.waitReady d rest)
  | .logReady => s.setPc t (.waitLogReady d rest)
  | .started => s.setPc t (.waitStarted d rest)

/-- woken from `waitForCompletion(d)`: a non-zero exit code under `process_completed_successfully` skips -/
def armWaitDone (s : Sys) (t : Tid) (i d : IId) (ok : Bool) (rest : List (Name × Cond)) : Sys :=
  if ok ∧ (s.ps (s.nameOf d)).exit ≠ 0 then doSkip s t i
  else (s.notePassed i d (if ok then .completedOk else .completed)).setPc t (.depNext rest)

def armWaitReady (s : Sys) (t : Tid) (i d : IId) (rest : List (Name × Cond)) : Sys :=
  if (s.ps (s.nameOf d)).health = .ready then (s.notePassed i d .healthy).setPc t (.depNext rest) else doSkip s t i

def armWaitLogReady (s : Sys) (t : Tid) (i d : IId) (rest : List (Name × Cond)) : Sys :=
  if (s.inst d).logReady = .ok then (s.notePassed i d .logReady).setPc t (.depNext rest) else doSkip s t i

def armProcSkipped (s : Sys) (t : Tid) (i : IId) : Sys :=
  if (s.icfg i).exitOnSkipped then (recordExit s 1).setPc t (.sdEnter .procSkip) else gotoCleanup s t

/-- `run()` entry: refuses to launch when already Terminating or when this instance's own run
    context was cancelled (and ends the process) -/
def armRunEnter (s : Sys) (t : Tid) (i : IId) : Sys :=
  if (s.ps (s.nameOf i)).status = .terminating ∨ (s.inst i).runCancelled then
    (onProcessEnd s i .completed).setPc t (.procRan 0)
  else s.setPc t .runChecked

def armRunChecked (s : Sys) (t : Tid) (i : IId) : Sys :=
  if (s.icfg i).badDir then (onProcessEnd (setExit s (s.nameOf i) 1) i .error).setPc t (.procRan 1)
  else
    let s := (s.setInst i fun x => { x with started := true }).emit (.started (s.nameOf i))
    doLaunch s t i

def armCmdWait (s : Sys) (t : Tid) (i : IId) : Sys :=
  match (s.inst i).cmd with
  | .exited code => (setExit s (s.nameOf i) code).setPc t .runExited
  | _ => s

/-- after the exit: the restart decision -/
def armRunExited (s : Sys) (t : Tid) (i : IId) : Sys :=
  let (r, s) := decideRestart s i
  if r then
    let s := setState s i .restarting
    let n := s.nameOf i
    let s := s.setPs n fun p => { p with restarts := p.restarts + 1 }
    (s.emit (.restarts n (s.ps n).restarts)).setPc t .backoff
  else
    let s := onProcessEnd s i .completed
    s.setPc t (.procRan (s.ps (s.nameOf i)).exit)

/-- woken from the back-off `select`: a cancelled run context ends the loop -/
def armBackoff (s : Sys) (t : Tid) (i : IId) : Sys :=
  if (s.inst i).runCancelled then
    let s := onProcessEnd s i .completed
    s.setPc t (.procRan (s.ps (s.nameOf i)).exit)
  else s.setPc t .backoffElapsed

def armProcRan (s : Sys) (t : Tid) (i : IId) (code : Int) : Sys :=
  ({ s with doneM := s.doneM.set (s.nameOf i) (some i) }).setPc t (.procDoneAdded code)

def armProcDoneAdded (s : Sys) (t : Tid) (i : IId) (code : Int) : Sys :=
  let c := s.icfg i
  if (code ≠ 0 ∧ c.policy = .exitOnFailure) ∨ c.exitOnEnd then (recordExit s code).setPc t (.sdEnter (.procEnd code))
  else gotoCleanup s t

/-- `removeRunningProcess`: unregister the name only if it is this instance that is registered -/
def armLockCleanup (s : Sys) (t : Tid) (i : IId) : Sys :=
  if s.running.getD (s.nameOf i) none = some i then
    ({ s with running := s.running.set (s.nameOf i) none }).setPc t .finished
  else s.setPc t .finished

def stepProc (s : Sys) (t : Tid) (i : IId) (h : Hints) : Pc → Sys
  | .begin => s.setPc t (.depNext (s.icfg i).deps)
  | .depNext rest => depStep s t i h rest
  | .lockDep k c rest => lookupRunning s t i k c rest
  | .depLookup d c rest => armDepLookup s t d c rest
  | .waitDone d ok rest => armWaitDone s t i d ok rest
  | .waitReady d rest => armWaitReady s t i d rest
  | .waitLogReady d rest => armWaitLogReady s t i d rest
  | .waitStarted d rest => (s.notePassed i d .started).setPc t (.depNext rest)
  | .procSkipped => armProcSkipped s t i
  | .runEnter => armRunEnter s t i
  | .runChecked => armRunChecked s t i
  | .cmdWait => armCmdWait s t i
  | .runExited => armRunExited s t i
  | .backoff => armBackoff s t i
  | .backoffElapsed => doLaunch s t i
  | .procRan code => armProcRan s t i code
  | .procDoneAdded code => armProcDoneAdded s t i code
  | .lockCleanup => armLockCleanup s t i
  | _ => s

/-! `stopProcess` -/

def armStopEnter (s : Sys) (t : Tid) (i : IId) (cr : Bool) (k : StopK) : Sys :=
  if isRunningStatus (s.ps (s.nameOf i)).status then s.setPc t (.stopChecked i cr k)
  else s.setPc t (.stopNotRunning i k)

/-- not running: a Pending process is marked so that `run()` refuses to launch it -/
def armStopNotRunning (s : Sys) (t : Tid) (i : IId) (k : StopK) : Sys :=
  let s := if (s.ps (s.nameOf i)).status = .pending then onProcessEnd s i .terminating else s
  stopReturn s t k

def armStopChecked (s : Sys) (t : Tid) (i : IId) (cr : Bool) (k : StopK) : Sys :=
  (setState s i .terminating).setPc t (.stopMarked i cr k)

/-- `stopProbes()` and, for a real stop, the release of the ready / log-ready waiters -/
def stopMarkedPrep (s : Sys) (i : IId) (cr : Bool) : Sys :=
  let hasProbe := (s.icfg i).hasReadyProbe
  s.setInst i fun x =>
    { x with probeStopped := true,
             readyDone := x.readyDone || (cr && hasProbe),
             logReady := if cr ∧ x.logReady = .none then .aborted else x.logReady }

def armStopMarked (s : Sys) (t : Tid) (i : IId) (cr : Bool) (k : StopK) : Sys :=
  let s := stopMarkedPrep s i cr
  if (s.inst i).cmd = .none then
    -- `p.command == nil`: this instance has not launched anything, there is nothing to signal
    stopReturn s t k
  else
    -- the configured signal is handed to the commander as is (the clamp is `CmdWrapper.Stop`'s, C06)
    let s := cmdStop s i (s.icfg i).sdSignal
    if (s.icfg i).sdTimeout ≠ 0 then
      (s.setInst i fun x => { x with stopCtx := .armed }).setPc t (.stopWaitKill i k)
    else stopReturn s t k

def armStopWaitKill (s : Sys) (t : Tid) (i : IId) (k : StopK) : Sys :=
  match (s.inst i).stopCtx with
  | .timedOut => stopReturn (cmdStop s i 9) t k
  | _ => stopReturn s t k

/-! `ShutDownProject` -/

def armSdEnter (s : Sys) (t : Tid) (h : Hints) (k : SdK) : Sys :=
  if lockFree s t then sdBody { s with runMutex := some t } t h k else s.setPc t (.sdLock k)

def armSdPrepared (s : Sys) (t : Tid) (order : List IId) (k : SdK) : Sys :=
  if s.ordered then
    let s := order.foldl (fun s i => ({ s with sdWg := s.sdWg + 1 }).spawn (.stopper i)) s
    s.setPc t (.sdWg k)
  else sdSeqNext s t order k

/-! ordered-shutdown helpers -/

def armStopperBegin (s : Sys) (t : Tid) (i : IId) : Sys :=
  let deps := revDepsOf s (s.nameOf i)
  let s := deps.foldl (fun s j => ({ s with depWg := wgAdd s.depWg i }).spawn (.depwaiter i j)) s
  s.setPc t (.depWg i)

def stepStopper (s : Sys) (t : Tid) (i : IId) : Pc → Sys
  | .begin => armStopperBegin s t i
  | .depWg j => gotoStop s t j true (.stopper j)
  | .waitDoneThen _ => ({ s with sdWg := s.sdWg - 1 }).setPc t .finished
  | _ => s

def stepWaiter (s : Sys) (t : Tid) (i : IId) : Pc → Sys
  | .begin => s.setPc t (.waitDoneThen i)
  | .waitDoneThen _ => ({ s with sdWg := s.sdWg - 1 }).setPc t .finished
  | _ => s

def stepDepwaiter (s : Sys) (t : Tid) (o i : IId) : Pc → Sys
  | .begin => s.setPc t (.waitDoneThen i)
  | .waitDoneThen _ => ({ s with depWg := wgDone s.depWg o }).setPc t .finished
  | _ => s

/-! API threads -/

def armApiBegin (s : Sys) (t : Tid) (h : Hints) (op : ApiOp) : Sys :=
  match op with
  | .shutdown => s.setPc t (.sdEnter .api)
  | _ => if lockFree s t then apiFirst s t h op else s.setPc t (.apiLock op)

def armSpawnOrLock (s : Sys) (t : Tid) (n : Name) : Sys :=
  if n < s.cfgs.length then
    if lockFree s t then apiSpawn s t n else s.setPc t (.lockSpawn n)
  else apiRet s t "no-such"

def stepApi (s : Sys) (t : Tid) (h : Hints) (op : ApiOp) : Pc → Sys
  | .begin => armApiBegin s t h op
  | .apiLock op' => apiFirst s t h op'
  | .startChecked n => armSpawnOrLock s t n
  | .lockSpawn n => apiSpawn s t n
  | .restartStopped n => s.setPc t (.restartSleep n)
  | .restartSleep n => s.setPc t (.restartSlept n)
  | .restartSlept n => armSpawnOrLock s t n
  | .runWg => (s.emit (.runReturned s.exitCode)).setPc t .finished
  | _ => s

/-- fatal readiness callback (`onReadinessCheckEnd(_, true, _)`): Not Ready, then `internalStop` -/
def armProbeBegin (s : Sys) (t : Tid) (n : Name) : Sys :=
  match s.running.getD n none with
  | none => s.setPc t .finished
  | some i =>
    if (s.inst i).probeStopped then s.setPc t .finished
    else
      let s := s.setPs n fun p => { p with health := .notReady }
      gotoStop s t i false .probe

/-- One fine-grained step of thread `t` (assumed enabled). -/
def stepThread (s : Sys) (t : Tid) (h : Hints) : Sys :=
  let th := s.thr t
  match th.pc with
  | .stopEnter i cr k => armStopEnter s t i cr k
  | .stopNotRunning i k => armStopNotRunning s t i k
  | .stopChecked i cr k => armStopChecked s t i cr k
  | .stopMarked i cr k => armStopMarked s t i cr k
  | .stopWaitKill i k => armStopWaitKill s t i k
  | .sdEnter k => armSdEnter s t h k
  | .sdLock k => sdBody { s with runMutex := some t } t h k
  | .sdPrepared order k => armSdPrepared s t order k
  | .sdWg k => sdReturn s t k
  | pc =>
    match th.kind with
    | .proc i => stepProc s t i h pc
    | .api _ op => stepApi s t h op pc
    | .stopper i => stepStopper s t i pc
    | .waiter i => stepWaiter s t i pc
    | .depwaiter o i => stepDepwaiter s t o i pc
    | .probe _ n => match pc with
      | .begin => armProbeBegin s t n
      | _ => s
    | .pstart i => match pc with
      | .begin => (s.setInst i fun x => { x with probeStopped := false }).setPc t .finished
      | _ => s

/-- Is the label a pure yield point (passed through in coarse granularity)? -/
def Pc.isYield : Pc → Bool
  | .depLookup .. | .procSkipped | .runEnter | .runChecked | .runExited | .backoffElapsed
  | .procRan _ | .procDoneAdded _ | .stopEnter .. | .stopNotRunning .. | .stopChecked ..
  | .stopMarked .. | .sdEnter _ | .sdPrepared .. | .startChecked _ | .restartStopped _
  | .restartSlept _ => true
  | _ => false

/-- Is thread `t` runnable (its wake condition holds on the current state)? -/
def enabledThr (s : Sys) (t : Tid) : Bool :=
  let th := s.thr t
  match th.pc with
  | .finished => false
  | .lockDep .. | .lockCleanup | .sdLock _ | .apiLock _ | .lockSpawn _ => lockFree s t
  | .waitDone d _ _ => (s.inst d).done
  | .waitReady d _ => (s.inst d).readyDone
  | .waitLogReady d _ => (s.inst d).logReady ≠ .none
  | .waitStarted d _ => (s.inst d).started || (s.inst d).runCancelled
  | .cmdWait => match th.kind with
    | .proc i => match (s.inst i).cmd with | .exited _ => true | _ => false
    | _ => false
  | .stopWaitKill i _ => (s.inst i).stopCtx ≠ .armed
  | .sdWg _ => s.sdWg = 0
  | .depWg i => s.wgOf i = 0
  | .waitDoneThen i => (s.inst i).done
  | .runWg => s.wg = 0
  | _ => true

/-- Does the thread, parked at `pc`, have to stop here under granularity `g`? A yield label is
    passed through in coarse granularity; a lock label is passed when the lock is free. -/
def mustPark (s : Sys) (t : Tid) : Bool :=
  let pc := (s.thr t).pc
  if pc = .finished then true
  else if (match pc with | .depNext _ => true | _ => false) then false
  else if pc.isYield then s.gran = .fine
  else match pc with
    | .lockDep .. | .lockCleanup | .sdLock _ | .apiLock _ | .lockSpawn _ => !lockFree s t
    | _ => true

/-- Run thread `t` until it has to park (bounded by `fuel` fine steps). -/
def runThread (s : Sys) (t : Tid) (h : Hints) : Nat → Sys
  | 0 => s
  | fuel + 1 =>
    let s := stepThread s t h
    if s.crashed then s
    else if mustPark s t then s else runThread s t h fuel

/-! ### external events and the top-level step -/

inductive Choice
  | run (t : Tid)
  | exit (n : Name) (code : Int)           -- the live command of name n exits by itself
  | line (n : Name) (ready : Bool)         -- one stdout line; `ready`: contains the ready line
  | probe (n : Name) (ok : Bool)           -- non-fatal readiness check result delivered
  | probeFatal (id : Nat) (n : Name)       -- fatal readiness result: callback runs on its own thread
  | killTimeout (n : Name)                 -- shutdown.timeout_seconds elapsed for the pending stop of n
  | call (id : Nat) (op : ApiOp)           -- an API request arrives (new thread)
deriving DecidableEq, Repr, Inhabited

/-- the instance of name `n` whose command is alive; with several (overlap), the one launched first -/
def aliveInst (s : Sys) (n : Name) : Option IId :=
  let alive := (List.range s.insts.length).filter fun i => (s.inst i).name = n ∧ (s.inst i).cmd = .alive
  alive.foldl (fun best i => match best with
    | none => some i
    | some b => if (s.inst i).launchedAt < (s.inst b).launchedAt then some i else some b) none

def fuelPerStep : Nat := 200

def step (s : Sys) (c : Choice) (h : Hints) : Sys :=
  let s := { s with obs := [] }
  match c with
  | .run t => if enabledThr s t then runThread s t h fuelPerStep else s
  | .exit n code => match aliveInst s n with
    | some i => cmdExit s i code
    | none => s
  | .line n ready => match aliveInst s n with
    | some i =>
      if ready ∧ (s.cfg n).hasReadyLine ∧ (s.ps n).health = .unknown then
        let s := s.setPs n fun p => { p with health := .ready }
        let s := s.setInst i fun x => { x with logReady := if x.logReady = .none then .ok else x.logReady }
        s.emit (.logready n)
      else s
    | none => s
  | .probe n ok => match s.running.getD n none with
    | some i =>
      if (s.inst i).probeStopped then s
      else if ok then
        let s := s.setPs n fun p => { p with health := .ready }
        s.setInst i fun x => { x with readyDone := true }
      else s.setPs n fun p => { p with health := .notReady }
    | none => s
  | .probeFatal id n => match s.running.getD n none with
    | some _ => s.spawn (.probe id n)
    | none => s
  | .killTimeout n =>
    match (List.range s.insts.length).find? fun i => (s.inst i).name = n ∧ (s.inst i).stopCtx = .armed with
    | some i => s.setInst i fun x => { x with stopCtx := .timedOut }
    | none => s
  | .call id op => s.spawn (.api id op)

def init (gran : Gran) (ordered : Bool) (cfgs : List Cfg) : Sys :=
  { gran, ordered, cfgs,
    pstates := cfgs.map fun c => { status := if c.deferred then .disabled else .pending },
    running := cfgs.map fun _ => none,
    doneM := cfgs.map fun _ => none }

end PC.Sup
