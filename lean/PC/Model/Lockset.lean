/-! Abstract model of lock-based synchronisation for C20: traces of lock operations and memory
    accesses by threads, mutual exclusion, happens-before, data races.

    The Go memory model is represented by this happens-before relation (program order plus
    release → later acquire of the same mutex). Channels, `sync.Once`, atomics, `WaitGroup` and
    goroutine creation are further sources of ordering in the real program; leaving them out makes
    the relation smaller, so "ordered here" implies "ordered in Go". -/
namespace PC.Lockset

abbrev Tid := Nat
abbrev Lock := String
abbrev Var := String

inductive Ev where
  | acq (t : Tid) (l : Lock)
  | rel (t : Tid) (l : Lock)
  | rd (t : Tid) (x : Var)
  | wr (t : Tid) (x : Var)
deriving Repr, DecidableEq

def Ev.tid : Ev → Tid
  | .acq t _ | .rel t _ | .rd t _ | .wr t _ => t

def Ev.accesses (x : Var) : Ev → Bool
  | .rd _ y | .wr _ y => x == y
  | _ => false

def Ev.isWrite : Ev → Bool
  | .wr _ _ => true
  | _ => false

abbrev Trace := List Ev

/-- effect of one event on the holder of `l` -/
def stepHolder (l : Lock) (h : Option Tid) : Ev → Option Tid
  | .acq t l' => if l' = l then some t else h
  | .rel _ l' => if l' = l then none else h
  | _ => h

/-- who holds `l` after the events of `tr` -/
def holder (l : Lock) (tr : Trace) : Option Tid := tr.foldl (stepHolder l) none

/-- thread `t` holds `l` when event number `i` is executed -/
def Holds (tr : Trace) (l : Lock) (t : Tid) (i : Nat) : Prop := holder l (tr.take i) = some t

/-- mutex semantics: a lock is acquired only when free and released only by its holder -/
def WF (tr : Trace) : Prop :=
  ∀ (k : Nat) (e : Ev), tr[k]? = some e →
    match e with
    | .acq _ l => holder l (tr.take k) = none
    | .rel t l => holder l (tr.take k) = some t
    | _ => True

/-- happens-before on event indices -/
inductive HB (tr : Trace) : Nat → Nat → Prop
  | po {i j : Nat} {e f : Ev} : i < j → tr[i]? = some e → tr[j]? = some f → e.tid = f.tid → HB tr i j
  | sync {i j : Nat} {t u : Tid} {l : Lock} : i < j → tr[i]? = some (.rel t l) → tr[j]? = some (.acq u l) → HB tr i j
  | trans {i j k : Nat} : HB tr i j → HB tr j k → HB tr i k

/-- a data race on `x`: two accesses by different threads, at least one a write, not ordered -/
def Race (tr : Trace) (x : Var) : Prop :=
  ∃ (i j : Nat) (e f : Ev), i < j ∧ tr[i]? = some e ∧ tr[j]? = some f ∧ e.accesses x = true ∧ f.accesses x = true ∧
    e.tid ≠ f.tid ∧ (e.isWrite = true ∨ f.isWrite = true) ∧ ¬ HB tr i j

/-- the locking discipline for `x`: every access to `x` is made while holding `l` -/
def GuardedBy (tr : Trace) (x : Var) (l : Lock) : Prop :=
  ∀ (i : Nat) (e : Ev), tr[i]? = some e → e.accesses x = true → Holds tr l e.tid i

end PC.Lockset
