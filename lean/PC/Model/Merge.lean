/-! Model of the configuration merge (src/loader/merger.go with mergo `WithOverride`,
    `WithAppendSlice` and the `Environment` / `Processes` transformers) on an abstract view of a
    process configuration. -/
namespace PC.Merge

/-- split an environment entry at the first `=` (`strings.SplitN(v, "=", 2)`) -/
def splitKV : List Char → Option (List Char × List Char)
  | [] => none
  | c :: r => if c = '=' then some ([], r) else (splitKV r).map fun (k, v) => (c :: k, v)

/-- `m[k] = v` on a map kept as an association list -/
def setKey (m : List (List Char × List Char)) (k v : List Char) : List (List Char × List Char) :=
  (m.filter (·.1 ≠ k)) ++ [(k, v)]

/-- `toEnvVarMap`: later duplicates of a key replace earlier ones; entries without `=` are dropped -/
def envStep (m : List (List Char × List Char)) (e : List Char) : List (List Char × List Char) :=
  match splitKV e with
  | some (k, v) => setKey m k v
  | none => m

def toEnvMap (env : List (List Char)) : List (List Char × List Char) := env.foldl envStep []

/-- `mergo.Map(&dst, src, WithOverride)` on the two maps: every key of `src` is set in `dst` -/
def overrideMap (dst src : List (List Char × List Char)) : List (List Char × List Char) :=
  src.foldl (fun m (kv : List Char × List Char) => setKey m kv.1 kv.2) dst

/-- value of `k` (the last pair with that key; keys are unique in the maps built above) -/
def lookupEnv : List (List Char × List Char) → List Char → Option (List Char)
  | [], _ => none
  | (a, b) :: r, k => (lookupEnv r k).orElse fun _ => if a = k then some b else none

/-- the merged environment as a key/value map (the code renders it back to a sorted `k=v` list) -/
def mergeEnvMap (base over : List (List Char)) : List (List Char × List Char) :=
  overrideMap (toEnvMap base) (toEnvMap over)

/-- abstract process configuration: scalar options (unset = "" / zero value), environment,
    depends_on (name ↦ condition), entrypoint -/
structure Proc where
  scalars : List (String × String) := []
  envNil : Bool := true                      -- the environment list is nil (option absent)
  env : List (List Char) := []
  deps : List (String × String) := []
  entry : List String := []
deriving Repr, DecidableEq

def scalarOf (p : Proc) (f : String) : String := ((p.scalars.find? (·.1 = f)).map (·.2)).getD ""

def sortStrings (l : List String) : List String := (l.toArray.qsort (· < ·)).toList

def renderEnv (m : List (List Char × List Char)) : List (List Char) :=
  (sortStrings (m.map fun (k, v) => String.ofList (k ++ ['='] ++ v))).map String.toList

/-- merged environment list: the transformer runs only when the base list is non-nil; a nil base
    takes the override's list as it is -/
def mergeEnvList (base over : Proc) : List (List Char) :=
  if base.envNil then over.env else renderEnv (mergeEnvMap base.env over.env)

/-- `mergeProcess base override` -/
def mergeProc (fields : List String) (base over : Proc) : Proc :=
  { scalars := fields.map fun f => (f, if scalarOf over f ≠ "" then scalarOf over f else scalarOf base f),
    -- an empty result is a nil list again (`var s Environment` / `AppendSlice(nil, [])`)
    envNil := (mergeEnvList base over).isEmpty,
    env := mergeEnvList base over,
    -- depends_on: merged by key, an entry of the later file replaces the earlier one wholesale
    deps := (base.deps.filter fun d => !(over.deps.any (·.1 = d.1))) ++ over.deps,
    -- slices are appended
    entry := base.entry ++ over.entry }

abbrev Project := List (String × Proc)

def lookupProc (p : Project) (n : String) : Option Proc := (p.find? (·.1 = n)).map (·.2)

/-- `mergeProcesses`: processes of both files; same name → merged -/
def mergeProject (fields : List String) (base over : Project) : Project :=
  (base.map fun (n, b) => match lookupProc over n with
    | some o => (n, mergeProc fields b o)
    | none => (n, b)) ++
  (over.filter fun (n, _) => (lookupProc base n).isNone)

/-- the single-file loader resolves the working directories of an extended (base) project against
    the base file's directory (`copyWorkingDirToProcesses`) -/
def resolveWd (dir wd : String) : String :=
  if wd = "" then dir else if wd.startsWith "/" then wd else dir ++ "/" ++ wd

def setScalar (p : Proc) (f v : String) : Proc :=
  { p with scalars := (p.scalars.filter (·.1 ≠ f)) ++ [(f, v)] }

def resolveProc (dir : String) (p : Proc) : Proc := setScalar p "working_dir" (resolveWd dir (scalarOf p "working_dir"))

/-- a chain of files is folded from the left -/
def mergeChain (fields : List String) : List Project → Project
  | [] => []
  | b :: rest => rest.foldl (mergeProject fields) b

/-- `[child extends base]`: the base is inserted before the child, its working directories resolved -/
def loadExtends (fields : List String) (dir : String) (base child : Project) : Project :=
  mergeChain fields [base.map fun (n, p) => (n, resolveProc dir p), child]

/-- an extends chain `child extends b_n extends … extends b_1`: every base is inserted before its
    child with its working directories resolved against its own directory -/
def loadChain (fields : List String) (bases : List (String × Project)) (child : Project) : Project :=
  mergeChain fields (bases.map (fun (dir, b) => b.map fun (n, p) => (n, resolveProc dir p)) ++ [child])

end PC.Merge
