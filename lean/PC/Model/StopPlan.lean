import PC.Model.Stop
/-! Model of what `Process.stopProcess` asks of the OS (src/app/process.go: `stopProcess`,
    `forceKillOnTimeout`, `doConfiguredStop`) as a function of the shutdown parameters and of the
    outcome of its blocking steps, and of what a signal does to a process group.

    The kernel's signal and process-group semantics are *assumed* as stated in `deliver`: a signal
    sent to the group reaches every live member, a member that traps or ignores it stays alive,
    SIGKILL ends every member it reaches. Members that left the group are outside this model. -/
namespace PC.Stop

structure Params where
  signal : Int := 0
  timeout : Int := 0            -- shutdown.timeout_seconds (0: not configured)
  hasCommand : Bool := false    -- shutdown.command configured
  parentOnly : Bool := false
deriving Repr, DecidableEq

inductive Action where
  | signal (a : SigAction)
  | wait (sec : Int)            -- wait for the process to end, at most `sec` seconds
  | runCommand (sec : Int)      -- run shutdown.command (process environment and working directory), at most `sec` seconds
deriving Repr, DecidableEq

structure Outcome where
  endedInTime : Bool            -- the process ended before the timeout expired
  cmdOk : Bool                  -- shutdown.command succeeded within its timeout
deriving Repr, DecidableEq

/-- the `p.command.Stop(sig, parentOnly)` call sites of process.go: (function, signal argument, parent-only argument) -/
def stopCalls : List (String × String × String) := [
  ("stopProcess", "p.procConf.ShutDownParams.Signal", "p.procConf.ShutDownParams.ParentOnly"),
  ("forceKillOnTimeout", "int(syscall.SIGKILL)", "p.procConf.ShutDownParams.ParentOnly"),
  ("doConfiguredStop", "int(syscall.SIGKILL)", "false") ]

def stopActions (p : Params) (o : Outcome) : List Action :=
  if p.hasCommand then
    .runCommand (if p.timeout = undefinedShutdownTimeoutSec then defaultShutdownTimeoutSec else p.timeout) ::
      (if o.cmdOk then [] else [.signal (cmdStop false 9 false true)])
  else
    .signal (cmdStop false p.signal p.parentOnly true) ::
      (if p.timeout ≠ undefinedShutdownTimeoutSec then
        .wait p.timeout :: (if o.endedInTime then [] else [.signal (cmdStop false 9 p.parentOnly true)])
       else [])

/-! ### What a signal does to the process group -/

structure Member where
  ignores : List Int := []      -- signals the member traps or ignores
  holdsOutput : Bool := true    -- has the command's stdout/stderr pipe open (inherited, not redirected)
  alive : Bool := true
deriving Repr, DecidableEq

/-- the members of the process group created at launch; the head is the launched command -/
abbrev Group := List Member

def survives (m : Member) (s : Int) : Bool := s != 9 && m.ignores.contains s

def hit (s : Int) (m : Member) : Member := if m.alive && !survives m s then { m with alive := false } else m

def deliver : SigAction → Group → Group
  | .group s, g => g.map (hit s)
  | .parent s, m :: r => hit s m :: r
  | _, g => g

def applyAction : Action → Group → Group
  | .signal a, g => deliver a g
  | _, g => g

/-- the supervisor considers the process ended when its output pipes are at end of file and the
    launched command has been reaped (`waitForStdOutErr(); command.Wait()`): some live member
    still holds the output open, or the launched command (the head) is alive -/
def stillRunning : Group → Bool
  | m :: r => m.alive || r.any fun x => x.alive && x.holdsOutput
  | [] => false

/-- a stop of the whole group: the first action is performed, the process "ended in time" iff it
    is no longer running after it, then the remaining actions follow -/
def stopGroup (p : Params) (cmdOk : Bool) (g : Group) : Group :=
  match stopActions p { endedInTime := true, cmdOk := cmdOk } with
  | [] => g
  | a :: _ =>
    let g1 := applyAction a g
    let o : Outcome := { endedInTime := !stillRunning g1, cmdOk := cmdOk }
    (stopActions p o).drop 1 |>.foldl (fun g a => applyAction a g) g1

end PC.Stop
