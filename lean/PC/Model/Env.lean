import PC.Go.Expand
/-! Model of configuration-text expansion (src/loader/loader.go: loadProjectFromFile) and of the
    launch environment (src/app/process.go: getProcessEnvironment). -/
namespace PC.Env
open PC.Go

def envEscaped : List Char := "##PC_ENV_ESCAPED##".toList

/-- the three statements of `loadProjectFromFile` that rewrite the file text, in the shape the
    translator emits -/
def loadText (mapping : List Char → List Char) (yamlFile : List Char) : List Char :=
  let temp := replaceAll yamlFile "$$".toList envEscaped
  let temp := expand mapping temp
  let temp := replaceAll temp envEscaped "$".toList
  temp

/-- `getProcessEnvironment`: inherited, global, per-process, then the injected pair (translator shape) -/
def processEnv (name : String) (replica : Nat) (inherited global own : List (String × String)) : List (String × String) :=
  let env := ([] : List (String × String))
  let env := env ++ inherited
  let env := env ++ global
  let env := env ++ own
  let env := env ++ [("PC_PROC_NAME", name), ("PC_REPLICA_NUM", toString replica)]
  env

end PC.Env
