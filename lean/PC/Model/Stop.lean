import PC.Model.StopTypes
/-! Model of `CmdWrapper.Stop` (src/command/stopper_unix.go). -/
namespace PC.Stop

def minSig : Int := 1
def maxSig : Int := 31
def undefinedShutdownTimeoutSec : Int := 0
def defaultShutdownTimeoutSec : Int := 10

def cmdStop (noCmd : Bool) (sig : Int) (parentOnly pgidOk : Bool) : SigAction :=
  if noCmd then SigAction.nothing else
  let sig := if ((sig < minSig) ∨ (sig > maxSig)) then 15 else sig
  if parentOnly then SigAction.parent sig else
  if pgidOk then SigAction.group sig else SigAction.pgidErr

end PC.Stop
