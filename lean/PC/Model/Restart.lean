/-! Model of the restart decision and back-off (src/app/process.go: isRestartable, getBackoff),
    in the shape emitted by the translator. -/
namespace PC.Restart

def isRestartable (policy : String) (maxRestarts restarts code : Int) (stopped : Bool) : Bool :=
  let exitCode := code
  if stopped then decide (false) else
  if ((policy = "no") ∨ (policy = "")) then decide (false) else
  if ((exitCode ≠ 0) ∧ (policy = "exit_on_failure")) then decide (false) else
  if ((exitCode ≠ 0) ∧ (policy = "on_failure")) then
    if (maxRestarts = 0) then decide (true) else decide ((restarts < maxRestarts))
  else
  if (policy = "always") then
    if (maxRestarts = 0) then decide (true) else decide ((restarts < maxRestarts))
  else decide (false)

def getBackoffSeconds (backoffSeconds : Int) : Int :=
  let backoff := 1
  let backoff := if (backoffSeconds > backoff) then backoffSeconds else backoff
  backoff

end PC.Restart
