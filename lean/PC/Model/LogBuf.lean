import PC.Go.Slice
/-! Model of `pclog.ProcessLogBuffer` (src/pclog/process_log_buffer.go).
    `getLogRange` is written in exactly the shape the translator (`/verif/extract`) emits for the
    Go function, so that `PC.Gen.LogBuf.getLogRange = getLogRange` is closed by `rfl`. -/
namespace PC.LogBuf
open PC.Go

def slack : Nat := 100

/-- `ProcessLogBuffer.GetLogRange` -/
def getLogRange (buffer : List String) (offsetFromEnd limit : Int) : Option (List String) :=
  if (buffer.length : Int) = 0 then some [] else
  let offsetFromEnd := if offsetFromEnd < 0 then 0 else offsetFromEnd
  let offsetFromEnd := if offsetFromEnd > (buffer.length : Int) then (buffer.length : Int) else offsetFromEnd
  let limit := if limit < 1 then 0 else limit
  let limit := if limit > offsetFromEnd then offsetFromEnd else limit
  if limit = 0 then goSlice buffer ((buffer.length : Int) - offsetFromEnd) (buffer.length : Int) else
  goSlice buffer ((buffer.length : Int) - offsetFromEnd) ((buffer.length : Int) - offsetFromEnd + limit)

/-- An observer: what it was handed so far (`SetLines` replaces, `WriteString` appends). -/
structure Observer where
  id : String
  tail : Int
  got : List String
deriving Repr, DecidableEq

structure Buf where
  size : Nat
  buffer : List String
  observers : List Observer      -- keyed by id (`map[string]LogObserver`)
deriving Repr, DecidableEq

def new (size : Nat) : Buf := { size, buffer := [], observers := [] }

/-- `Write`: append, trim `slack` lines when over `size + slack`, fan out to every observer. -/
def write (b : Buf) (m : String) : Buf :=
  let buf := b.buffer ++ [m]
  let buf := if buf.length > b.size + slack then buf.drop slack else buf
  { b with buffer := buf, observers := b.observers.map fun o => { o with got := o.got ++ [m] } }

def getLogLength (b : Buf) : Nat := b.buffer.length

/-- `GetLogsAndSubscribe`: snapshot of the tail + registration, atomically (map insert by id).
    `none`: `GetLogRange` panicked. -/
def getLogsAndSubscribe (b : Buf) (id : String) (tail : Int) : Option Buf :=
  match getLogRange b.buffer tail 0 with
  | none => none
  | some ls =>
    let o : Observer := { id, tail, got := ls }
    some { b with observers := (b.observers.filter (·.id ≠ id)) ++ [o] }

def unSubscribe (b : Buf) (id : String) : Buf :=
  { b with observers := b.observers.filter (·.id ≠ id) }

def close (b : Buf) : Buf := { b with observers := [] }

end PC.LogBuf
