/-! Numeric part of `health.Probe`. -/
namespace PC.Probe

structure ProbeNums where
  initialDelay : Int
  periodSeconds : Int
  timeoutSeconds : Int
  successThreshold : Int
  failureThreshold : Int
deriving Repr, DecidableEq

end PC.Probe
