/-! Model of `ProjectRunner.runningProcessesReverseDependencies` (src/app/project_runner.go).
    The Go code ranges over two maps; the iteration orders are the order of `procs` and of each
    `deps` list, so a statement for all lists is a statement for all iteration orders. -/
namespace PC.RevDeps

structure RProc (α : Type) where
  name : α
  deps : List α
deriving Repr

variable {α : Type} [DecidableEq α]

/-- `m[k][x] = x` on a map of sets kept as an association list with unique keys. -/
def addDep : List (α × List α) → α → α → List (α × List α)
  | [], k, x => [(k, [x])]
  | (k', l) :: m, k, x =>
    if k' = k then (k', if x ∈ l then l else l ++ [x]) :: m else (k', l) :: addDep m k x

def lookup : List (α × List α) → α → List α
  | [], _ => []
  | (k', l) :: m, k => if k' = k then l else lookup m k

/-- For every running process and every dependency of it that is itself running, record the
    process as a dependent of that dependency. -/
def revDeps (procs : List (RProc α)) : List (α × List α) :=
  procs.foldl (fun m p =>
    p.deps.foldl (fun m k => if procs.any (fun r => r.name = k) then addDep m k p.name else m) m) []

end PC.RevDeps
