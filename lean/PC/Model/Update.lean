/-! Model of `ProcessConfig.Compare` and of the classification in `ProjectRunner.UpdateProject`
    (src/types/process.go, src/app/project_runner.go). A configuration is a list of (field, value)
    pairs; values are opaque strings (a canonical rendering). -/
namespace PC.Update

abbrev Config := List (String × String)

def fieldOf (c : Config) (f : String) : String := ((c.find? (·.1 = f)).map (·.2)).getD ""

/-- the fields `Compare` looks at (after the fix: `Executable` and `Entrypoint` included) -/
def comparedFields : List String :=
  ["Args", "Command", "DependsOn", "Description", "DisableAnsiColors", "Disabled", "Entrypoint", "Environment",
   "Executable", "Extensions", "IsDaemon", "IsElevated", "IsForeground", "IsTty", "LivenessProbe", "LogLocation",
   "LoggerConfig", "Name", "Namespace", "ReadinessProbe", "ReadyLogLine", "Replicas", "RestartPolicy",
   "ShutDownParams", "Vars", "WorkingDir"]

/-- fields deliberately not compared: derived from the name / replica count, or the serialized
    original; `LaunchTimeout` only bounds how long a daemon's output is awaited -/
def exemptFields : List String := ["OriginalConfig", "ReplicaNum", "ReplicaName", "LaunchTimeout"]

def cfgEqual (a b : Config) : Bool := comparedFields.all fun f => fieldOf a f == fieldOf b f

/-- a project: replica name ↦ configuration -/
abbrev Project := List (String × Config)

def lookup (p : Project) (n : String) : Option Config := (p.find? (·.1 = n)).map (·.2)

/-- `UpdateProject` classification: what the returned status map says (on success) -/
def classify (old new : Project) : List (String × String) :=
  (new.filterMap fun (n, c) => match lookup old n with
    | none => some (n, "added")
    | some c0 => if cfgEqual c0 c then none else some (n, "updated")) ++
  (old.filterMap fun (n, _) => match lookup new n with
    | none => some (n, "removed")
    | some _ => none)

/-- a configured process and the instance that runs it (instances are numbered in launch order) -/
structure Inst where
  name : String
  cfg : Config
  id : Nat
deriving Repr, DecidableEq

def findInst (cur : List Inst) (n : String) : Option Inst := cur.find? (·.name = n)

/-- effect of `UpdateProject` on the configured set: an unchanged process keeps its instance (and
    its old configuration), a changed one is removed and added again (new instance), a new one is
    added, and whatever the new project does not name is removed. New instances get the numbers
    `next, next+1, …` in the order of the new project. -/
def applyUpdate (cur : List Inst) (new : Project) (next : Nat) : List Inst :=
  new.mapIdx fun i (nc : String × Config) =>
    match findInst cur nc.1 with
    | some old => if cfgEqual old.cfg nc.2 then old else { name := nc.1, cfg := nc.2, id := next + i }
    | none => { name := nc.1, cfg := nc.2, id := next + i }

end PC.Update
