import PC.Model.Restart
/-! Life cycle of one process — background (`is_daemon`) or ordinary — with a liveness probe and an
    optional shutdown command, under sequential driving: after each request or event every goroutine
    runs to its next blocking point (src/app/process.go `run`, `stopProcess`, `doConfiguredStop`,
    `onLivenessCheckEnd`; src/app/daemon.go). The restart decision is the translated `isRestartable`. -/
namespace PC.Daemon

inductive Phase
  | cmdWait      -- waiting for the command (for a daemon: its launcher) to exit
  | daemonWait   -- a launched daemon: waiting for the "daemon stopped" notification
  | ended        -- the goroutine has finished; the process is no longer registered
deriving DecidableEq, Repr, Inhabited

structure D where
  policy : String := "no"
  max : Int := 0
  daemon : Bool := false
  sdcmd : Bool := false               -- shutdown.command configured
  onsig : Option Int := some 0        -- exit code of the command when signalled (`none`: ignores it)
  status : String := "Pending"
  exit : Int := 0
  restarts : Nat := 0
  launches : Nat := 0
  alive : Bool := false               -- the command / launcher is alive
  phase : Phase := .ended
  queued : Bool := false              -- a "daemon stopped" notification is queued
  stopped : Bool := false             -- the do-not-restart flag of this instance
  cancelled : Bool := false           -- the run context of this instance
  probers : Bool := false             -- the liveness prober is started and not stopped
deriving DecidableEq, Repr, Inhabited

def D.registered (d : D) : Bool := d.phase != .ended

def isRunningStatus (s : String) : Bool := s == "Running" || s == "Launched" || s == "Launching"

def launch (d : D) : D :=
  { d with status := if d.daemon then "Launching" else "Running", alive := true, launches := d.launches + 1,
           phase := .cmdWait, probers := true }

def endProc (d : D) : D := { d with status := "Completed", phase := .ended, probers := false, alive := false }

/-- the restart decision at the end of an attempt (`isRestartable` consumes the do-not-restart flag) -/
def decide' (d : D) : D :=
  let r := PC.Restart.isRestartable d.policy d.max d.restarts d.exit d.stopped
  let d := { d with stopped := false }
  if r then
    let d := { d with status := "Restarting", restarts := d.restarts + 1 }
    if d.cancelled then endProc d else launch d
  else endProc d

/-- the command has exited with `c` -/
def afterExit (d : D) (c : Int) : D :=
  let d := { d with exit := c, alive := false }
  if d.daemon ∧ c = 0 then
    let d := { d with status := "Launched" }
    if d.queued then decide' { d with queued := false } else { d with phase := .daemonWait }
  else decide' d

/-- `notifyDaemonStopped` -/
def notify (d : D) : D :=
  if !d.daemon then d
  else if d.phase = .daemonWait then decide' d
  else { d with queued := true }

inductive Op
  | exit (c : Int) | live | stop | start | query
deriving DecidableEq, Repr

/-- one operation: new state and the value returned to the caller -/
def step (d : D) : Op → D × String
  | .query => (d, "ok")
  | .exit c => (if d.alive then afterExit d c else d, "ok")
  | .live =>
    if d.queued && d.registered then (d, "notification-queued")
    else if !d.registered then (d, "no-prober")
    else if !d.probers then (d, "ok")     -- a stopped prober drops the result
    else (notify d, "ok")
  | .stop =>
    if d.queued && d.registered then (d, "notification-queued")
    else if !d.registered then (d, "not-running")
    else
      let d := { d with stopped := true, cancelled := true }
      if isRunningStatus d.status then
        let d := { d with status := "Terminating", probers := false }
        if d.sdcmd then (notify d, "ok")
        else if d.alive then
          match d.onsig with
          | some c => (afterExit d c, "ok")
          | none => (d, "ok")
        else (d, "ok")
      else (d, "ok")
  | .start =>
    if d.registered then (d, "already-running")
    else (launch { d with status := "Pending", stopped := false, cancelled := false, queued := false }, "ok")

def init (policy : String) (max : Int) (daemon sdcmd : Bool) (onsig : Option Int) : D :=
  launch { policy, max, daemon, sdcmd, onsig }

def D.show (d : D) (ret : String) : String :=
  let blocked := match d.phase with
    | .cmdWait => "[proc@cmd:wait]"
    | .daemonWait => "[proc@daemon:wait]"
    | .ended => "[]"
  s!"ret={ret} status={d.status} running={isRunningStatus d.status} exit={d.exit} restarts={d.restarts} alive={if d.alive then 1 else 0} launches={d.launches} blocked={blocked}"

end PC.Daemon
