/-! What `CmdWrapper.Stop` asks of the OS. -/
namespace PC.Stop

inductive SigAction where
  | nothing                    -- no command: nothing sent
  | parent (sig : Int)         -- signal to the parent process only
  | group (sig : Int)          -- kill(-pgid, sig): the whole process group
  | pgidErr                    -- Getpgid failed, nothing sent
deriving Repr, DecidableEq

end PC.Stop
