/-! Types shared by the REST model and the tables generated from the source. -/
namespace PC.Api

/-- a segment of a route pattern: static text or a named parameter (`:name`) -/
inductive Seg where
  | lit (s : String)
  | par (n : String)
deriving Repr, DecidableEq

end PC.Api
