import PC.Model.LogBuf
/-! Model of the WebSocket log stream (src/api/ws_api.go: `HandleLogsStream`, `handleLog`) on top of
    the log buffer model.

    Per follower the code keeps a channel of capacity 256 (`logChan`) between the log buffer's
    fan-out (`SetLines` / `WriteString`, called under the buffer's mutex) and the goroutine
    `handleLog` that writes the messages to the socket. Here: `chan` is the content of that channel,
    `sent` what `handleLog` has written to the socket so far.

    * `write`: the process's output handler appends a line. It hands the line to every follower
      *while holding the buffer's mutex*, by a blocking channel send: it can run only when every
      following channel has room (`none` = the writer is blocked).
    * `drain`: one iteration of `handleLog`'s loop (channel → socket). A follower that has stopped
      reading is one whose `drain` steps no longer happen (the socket's buffers are full).
    * `sub`: `GetLogsAndSubscribe` with the drainer already running: the tail goes through the
      channel; whatever exceeds the capacity has been drained to the socket by the time the call
      returns (otherwise it would not return).
    * `leave`: the follower went away (close frame or broken connection); `handleLog` returns and
      unsubscribes, draining the channel while it waits for the buffer's mutex. -/
namespace PC.WsFollow
open PC.LogBuf

def cap : Nat := 256

structure Follower where
  id : String
  follow : Bool
  chan : List String        -- queued in `logChan`, oldest first
  sent : List String        -- written to the socket by `handleLog`
  chanClosed : Bool         -- `follow = false`: the channel is closed after the tail
deriving Repr, DecidableEq

structure St where
  size : Nat
  buffer : List String
  fs : List Follower
deriving Repr, DecidableEq

def new (size : Nat) : St := { size, buffer := [], fs := [] }

/-- a follower whose channel still takes lines (`WriteString` sends unless the channel was closed) -/
def Follower.takes (f : Follower) : Bool := !f.chanClosed

/-- every channel that takes lines has room -/
def canWrite (s : St) : Bool := s.fs.all fun f => !f.takes || f.chan.length < cap

def push (m : String) (f : Follower) : Follower :=
  if f.takes then { f with chan := f.chan ++ [m] } else f

/-- `ProcessLogBuffer.Write` with the WebSocket observers: `none` = blocked on a full channel
    (holding the buffer's mutex). -/
def write (s : St) (m : String) : Option St :=
  if canWrite s then
    let buf := s.buffer ++ [m]
    let buf := if buf.length > s.size + slack then buf.drop slack else buf
    some { s with buffer := buf, fs := s.fs.map (push m) }
  else none

def drainF (f : Follower) : Follower :=
  match f.chan with
  | [] => f
  | m :: rest => { f with chan := rest, sent := f.sent ++ [m] }

/-- one loop iteration of `handleLog` for follower `id` -/
def drain (s : St) (id : String) : St :=
  { s with fs := s.fs.map fun f => if f.id = id then drainF f else f }

/-- `HandleLogsStream` for one process name: `none` = `GetLogRange` panicked -/
def sub (s : St) (id : String) (tail : Int) (follow : Bool) : Option St :=
  match getLogRange s.buffer tail 0 with
  | none => none
  | some t =>
    let f : Follower := { id, follow, chan := t.drop (t.length - cap), sent := t.take (t.length - cap),
                          chanClosed := !follow }
    some { s with fs := s.fs.filter (·.id ≠ id) ++ [f] }

/-- the follower went away: `handleLog` returns and unsubscribes -/
def leave (s : St) (id : String) : St := { s with fs := s.fs.filter (·.id ≠ id) }

inductive Op where
  | write (m : String)
  | drain (id : String)
  | sub (id : String) (tail : Int) (follow : Bool)
  | leave (id : String)
deriving Repr, DecidableEq

/-- `none`: the operation cannot run now (blocked writer) or panicked -/
def apply (s : St) : Op → Option St
  | .write m => write s m
  | .drain id => some (drain s id)
  | .sub id t fl => sub s id t fl
  | .leave id => some (leave s id)

/-- Runs the operations that can run, skipping a write that is blocked (it stays blocked until a
    drain makes room; the line is then not written in this history). -/
def run (s : St) : List Op → St
  | [] => s
  | op :: ops => match apply s op with
    | some s' => run s' ops
    | none => run s ops

/-- what follower `id` has been or will be sent, in order: socket ++ channel -/
def streamOf (s : St) (id : String) : Option (List String) :=
  (s.fs.find? (·.id = id)).map fun f => f.sent ++ f.chan

end PC.WsFollow
