import PC.Model.Replica
import PC.Go.Atoi
/-! Model of the load pipeline after the merge (src/loader/loader.go, mutators.go,
    src/templater/templater.go): `assignDefaultProcessValues`, `cloneReplicas`,
    `copyWorkingDirToProbes`, `renderTemplates`, and of `ScaleProcess` on the replica set of one
    process (src/app/project_runner.go).

    Templates are modelled as a mini language: literal text and `{{.NAME}}` references; a missing
    key renders as `<no value>` (text/template on a map). Everything else of text/template is
    outside the model. -/
namespace PC.Load

/-- strings are character lists (kernel-reducible) -/
abbrev Str := List Char

inductive Seg where
  | lit (s : Str)
  | var (n : Str)
deriving Repr, DecidableEq

abbrev Tpl := List Seg
abbrev Vars := List (Str × Str)

def lookupVar (vs : Vars) (k : Str) : Option Str := (vs.find? (·.1 = k)).map (·.2)

def noValue : Str := ['<', 'n', 'o', ' ', 'v', 'a', 'l', 'u', 'e', '>']
def sDefault : Str := ['d', 'e', 'f', 'a', 'u', 'l', 't']
def sLocalhost : Str := ['1', '2', '7', '.', '0', '.', '0', '.', '1']
def sHttp : Str := ['h', 't', 't', 'p']
def sReplicaNum : Str := ['P', 'C', '_', 'R', 'E', 'P', 'L', 'I', 'C', 'A', '_', 'N', 'U', 'M']

/-- `maps.Clone(global); maps.Copy(m, extra)`: the process's variables override the global ones -/
def renderSeg (g extra : Vars) : Seg → Str
  | .lit s => s
  | .var n => ((lookupVar extra n).orElse fun _ => lookupVar g n).getD noValue

def render (g extra : Vars) (t : Tpl) : Str := (t.map (renderSeg g extra)).flatten

/-- the source text of a template -/
def unparse (t : Tpl) : Str :=
  (t.map fun | .lit s => s | .var n => ['{', '{', '.'] ++ n ++ ['}', '}']).flatten

inductive ProbeT where
  | none
  | exec (cmd : Tpl) (wd : Str)
  | http (host path scheme port : Tpl)
deriving Repr, DecidableEq

inductive ProbeR where
  | none
  | exec (cmd wd : Str)
  | http (host path scheme port : Str) (numPort : Nat)
deriving Repr, DecidableEq

/-- a process as written in the (merged) configuration -/
structure ProcT where
  name : Str
  replicas : Int := 0
  ns : Str := []
  launchTimeout : Int := 0
  command : Tpl := []
  workingDir : Tpl := []
  logLocation : Tpl := []
  description : Tpl := []
  readiness : ProbeT := .none
  liveness : ProbeT := .none
  vars : Vars := []
deriving Repr, DecidableEq

/-- one loaded replica -/
structure Replica where
  name : Str
  replicaName : Str
  num : Nat
  replicas : Nat
  ns : Str
  launchTimeout : Int
  command : Str
  workingDir : Str
  logLocation : Str
  description : Str
  readiness : ProbeR
  liveness : ProbeR
  vars : Vars
deriving Repr, DecidableEq

def isBlank (s : Str) : Bool := s.all Char.isWhitespace

/-- `HttpProbe.validateAndSetHttpDefaults` -/
def httpDefaults (host path scheme port : Str) : ProbeR :=
  let n := (PC.Go.atoi (String.ofList port)).1
  .http (if isBlank host then sLocalhost else host) (if isBlank path then ['/'] else path)
    (if isBlank scheme then sHttp else scheme) port
    (if port = [] then 0 else if n < 1 ∨ n > 65535 then 0 else n.toNat)

/-- `copyWorkingDirToProbes` (before rendering: the probe gets the *unrendered* working directory)
    followed by `renderProbe` -/
def renderProbe (g extra : Vars) (wdSrc : Str) : ProbeT → ProbeR
  | .none => .none
  | .exec cmd wd => .exec (render g extra cmd) (if wd = [] then wdSrc else wd)
  | .http h p s po => httpDefaults (render g extra h) (render g extra p) (render g extra s) (render g extra po)

/-- effective replica count (`assignDefaultProcessValues`: 0 → 1) -/
def effReplicas (p : ProcT) : Nat := if p.replicas = 0 then 1 else p.replicas.toNat

def natStr (n : Nat) : Str := PC.Replica.decimal n

/-- the variables a replica is rendered with: its own, with `PC_REPLICA_NUM` set to its number -/
def replicaVars (p : ProcT) (i : Nat) : Vars :=
  (sReplicaNum, natStr i) :: p.vars.filter (·.1 ≠ sReplicaNum)

/-- replica `i` of `p` when `p` has `n` replicas -/
def mkReplica (g : Vars) (p : ProcT) (n i : Nat) : Replica :=
  let ev := replicaVars p i
  { name := p.name,
    replicaName := PC.Replica.replicaName p.name n i,
    num := i, replicas := n,
    ns := if p.ns = [] then sDefault else p.ns,
    launchTimeout := if p.launchTimeout < 1 then 5 else p.launchTimeout,
    command := render g ev p.command,
    workingDir := render g ev p.workingDir,
    logLocation := render g ev p.logLocation,
    description := render g ev p.description,
    readiness := renderProbe g ev (unparse p.workingDir) p.readiness,
    liveness := renderProbe g ev (unparse p.workingDir) p.liveness,
    vars := ev }

/-- the replicas a fresh load produces for `p` with `n` replicas -/
def replicasOf (g : Vars) (p : ProcT) (n : Nat) : List Replica :=
  (List.range n).map (mkReplica g p n)

def loadProc (g : Vars) (p : ProcT) : List Replica := replicasOf g p (effReplicas p)

/-- a loaded project: the replicas of every process, in the order in which the processes are
    visited (Go iterates the process map in an arbitrary order) -/
def load (g : Vars) (ps : List ProcT) : List Replica := ps.flatMap (loadProc g)

def lookupReplica (l : List Replica) (rn : Str) : Option Replica := l.find? (·.replicaName = rn)

/-! ### ScaleProcess on the replicas of one process -/

/-- `updateReplicaCount`: every replica records the new count and is renamed accordingly -/
def recount (n : Nat) (r : Replica) : Replica :=
  { r with replicas := n, replicaName := PC.Replica.replicaName r.name n r.num }

/-- `ScaleProcess` to `n ≥ 1` on the current replicas `cur` of `p`: scale-up renders the missing
    replicas `|cur| … n-1` from the original configuration, scale-down removes replicas numbered
    `≥ n`; all are then recounted. -/
def scaleTo (g : Vars) (p : ProcT) (cur : List Replica) (n : Nat) : List Replica :=
  if cur.length < n then
    (cur ++ ((List.range (n - cur.length)).map fun i => mkReplica g p n (cur.length + i))).map (recount n)
  else if n < cur.length then
    (cur.filter (·.num < n)).map (recount n)
  else cur

/-- a scale request: `n < 1` fails and changes nothing -/
def scaleReq (g : Vars) (p : ProcT) (cur : List Replica) (n : Int) : List Replica :=
  if n < 1 then cur else scaleTo g p cur n.toNat

/-! ### The behaviour before the repair of `cloneReplicas` (shared probe pointers): the first
    replica rendered writes its text into the probe all replicas share. -/
def loadProcShared (g : Vars) (p : ProcT) (first : Nat) : List Replica :=
  (loadProc g p).map fun r =>
    { r with readiness := (mkReplica g p (effReplicas p) first).readiness,
             liveness := (mkReplica g p (effReplicas p) first).liveness }

end PC.Load
