/-! Model of `Process.handleOutput` (src/app/process.go): a `bufio.Reader.ReadString('\n')` loop over
    a pipe that delivers the byte stream in arbitrary chunks. -/
namespace PC.Output

/-- reader state: bytes received but not yet terminated by a newline -/
structure St where
  pending : List UInt8 := []
  out : List (List UInt8) := []      -- lines handed to the handler (newline trimmed), oldest first
deriving Repr, DecidableEq

def nl : UInt8 := 10

/-- split off the complete lines of `bs` (each without its newline); returns them and the remainder -/
def takeLines : List UInt8 → List UInt8 → List (List UInt8) × List UInt8
  | [], cur => ([], cur)
  | b :: bs, cur =>
    if b = nl then
      let (ls, rest) := takeLines bs []
      (cur :: ls, rest)
    else takeLines bs (cur ++ [b])

/-- one `Read` delivering `chunk` -/
def feed (s : St) (chunk : List UInt8) : St :=
  let (ls, rest) := takeLines chunk s.pending
  { pending := rest, out := s.out ++ ls }

/-- end of stream: an unterminated last line is handed over as well -/
def eof (s : St) : List (List UInt8) :=
  if s.pending = [] then s.out else s.out ++ [s.pending]

/-- the whole reader: every chunking of a stream -/
def handleOutput (chunks : List (List UInt8)) : List (List UInt8) :=
  eof (chunks.foldl feed {})

end PC.Output
