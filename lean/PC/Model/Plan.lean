/-! Model of the run plan (src/loader/validators.go `validateNoCircularDependencies` /
    `isCyclicHelper`, `validateDependencyIsEnabled`; src/types/project.go `GetProcesses`,
    `withProcesses`; src/app/project_runner.go `selectRunningProcesses[NoDeps]`).

    Go iterates maps in an arbitrary order. Every map iteration of the code appears here as a list
    whose order is a parameter: the process map as the list of its entries, each `depends_on` map
    as a list of names. The theorems hold for all such lists. -/
namespace PC.Plan

/-! ### The cycle check on an abstract successor function -/

structure St (α : Type) where
  visited : List α := []
  stack : List α := []

variable {α : Type} [DecidableEq α]

/-- the loop over the dependencies of one node; `rec` is the recursive call -/
def loopWith (rec : α → St α → Bool × St α) : List α → St α → Bool × St α
  | [], st => (false, st)
  | n :: ns, st =>
    if n ∉ st.visited then
      let r := rec n st
      if r.1 then r else loopWith rec ns r.2
    else if n ∈ st.stack then (true, st)
    else loopWith rec ns st

/-- `isCyclicHelper`: mark visited and on the stack, scan the dependencies, take off the stack.
    A name that `GetProcesses` does not know (`known v = false`) returns early **without being
    taken off the stack** — as the code does; a second dependency on the same unknown name is then
    reported as a cycle (loading fails either way, see `load_fails_on_undefined`).
    The recursion is bounded by `fuel` (the number of unvisited names suffices, see `dfs_spec`). -/
def dfs (known : α → Bool) (succ : α → List α) : Nat → α → St α → Bool × St α
  | 0, _, st => (false, st)
  | fuel + 1, v, st =>
    if !known v then (false, { visited := v :: st.visited, stack := v :: st.stack })
    else
      let r := loopWith (dfs known succ fuel) (succ v) { visited := v :: st.visited, stack := v :: st.stack }
      if r.1 then r else (false, { r.2 with stack := r.2.stack.filter (· ≠ v) })

/-- `validateNoCircularDependencies`: the outer loop over the process map -/
def validateFrom (known : α → Bool) (succ : α → List α) (fuel : Nat) : List α → St α → Bool
  | [], _ => false
  | k :: ks, st =>
    if k ∈ st.visited then validateFrom known succ fuel ks st
    else
      let r := dfs known succ fuel k st
      if r.1 then true else validateFrom known succ fuel ks r.2

/-! ### Projects -/

structure Entry where
  key : String              -- replica name (the map key)
  name : String             -- process name
  deps : List String := []  -- depends_on names in iteration order
  foreground : Bool := false
  disabled : Bool := false
  ns : String := "default"
deriving Repr, DecidableEq

abbrev Project := List Entry

/-- `GetProcesses(name)`: the entry with that key, else all entries with that process name;
    `none` when there is neither (the error result) -/
def procsOf (p : Project) (n : String) : Option (List Entry) :=
  match p.find? (·.key = n) with
  | some e => some [e]
  | none =>
    let l := p.filter (·.name = n)
    if l.isEmpty then none else some l

/-- dependency names reached from a name in the cycle check (an unknown name has none) -/
def succNames (p : Project) (n : String) : List String :=
  ((procsOf p n).getD []).flatMap (·.deps)

def allNames (p : Project) : List String := p.map (·.key) ++ p.flatMap (·.deps)

/-- `validateNoCircularDependencies` (true = "circular dependency found") -/
def hasCycle (p : Project) : Bool :=
  validateFrom (fun n => (procsOf p n).isSome) (succNames p) ((allNames p).length + 1) (p.map (·.key)) {}

/-- `validateDependencyIsEnabled`'s hard error: a dependency that names no process key -/
def danglingDep (p : Project) : Bool :=
  p.any fun e => e.deps.any fun d => !(p.any (·.key = d))

/-- the two validators of `loader.Load` that concern the plan (in the order in which they run) -/
def loadFails (p : Project) : Bool := hasCycle p || danglingDep p

/-! ### Dependency order (`withProcesses`) on entries -/

/-- entries a list of names resolves to (`GetProcesses(names...)`), `none` on an unknown name -/
def resolve (p : Project) : List String → Option (List Entry)
  | [] => some []
  | n :: ns => do
    let a ← procsOf p n
    let b ← resolve p ns
    pure (a ++ b)

structure WSt where
  done : List String := []
  out : List Entry := []
  err : Bool := false

/-- `withProcesses` on an already resolved process list; `fn` appends to `out`.
    An unknown dependency name sets the error flag and skips the process (as the code does). -/
def withProcs (p : Project) : Nat → List Entry → WSt → WSt
  | 0, _, st => st
  | fuel + 1, es, st =>
    es.foldl (fun st e =>
      if e.key ∈ st.done then st
      else
        let st := { st with done := e.key :: st.done }
        if e.deps.isEmpty then { st with out := st.out ++ [e] }
        else match resolve p e.deps with
          | none => { st with err := true }
          | some ds =>
            let st' := withProcs p fuel ds st
            if st'.err then st' else { st' with out := st'.out ++ [e] }) st

/-- `WithProcesses(names, fn)`: an empty name list means all processes (in map order) -/
def withProcesses (p : Project) (names : List String) : Option (List Entry) :=
  let start := if names.isEmpty then some p else resolve p names
  match start with
  | none => none
  | some es =>
    let st := withProcs p (p.length + 1) es {}
    if st.err then none else some st.out

def isDeferred (e : Entry) : Bool := e.foreground || e.disabled

/-- `GetDependenciesOrderNames` / the run order of `Run()` -/
def runOrder (p : Project) : Option (List String) :=
  (withProcesses p []).map fun l => (l.filter (!isDeferred ·)).map (·.key)

/-- `selectRunningProcesses`: entries reached from the requested names (foreground ones excluded)
    stay enabled, every other entry is disabled -/
def selectProcs (p : Project) (req : List String) : Option Project :=
  if req.isEmpty then some p else
  (withProcesses p req).map fun sel =>
    let keep := (sel.filter (!·.foreground)).map (·.key)
    p.map fun e => { e with disabled := !(keep.contains e.key) }

/-- `selectRunningProcessesNoDeps` -/
def selectNoDeps (p : Project) (req : List String) : Project :=
  if req.isEmpty then p else
  p.map fun e => if req.contains e.name then { e with deps := [], disabled := false } else { e with disabled := true }

/-- the namespace admitter removes processes outside the enabled namespaces -/
def admitNs (p : Project) (nss : List String) : Project :=
  if nss.isEmpty then p else p.filter fun e => nss.contains e.ns

end PC.Plan
