import PC.Model.Restart
/-! What a process writes over all its attempts and what therefore has to be in its log (C11, end
    to end). A line is `(attempt, index)`; index 0 stands for the final line without a newline. -/
namespace PC.LogFile

/-- number of attempts: the process is relaunched while the (translated) restart decision says so -/
def attemptsFrom (policy : String) (max : Int) (codes : List Int) : Nat → Nat → Nat
  | 0, k => k
  | fuel + 1, k =>
    if PC.Restart.isRestartable policy max k (codes.getD k 0) false then attemptsFrom policy max codes fuel (k + 1) else k + 1

def attempts (policy : String) (max : Int) (codes : List Int) : Nat := attemptsFrom policy max codes 64 0

/-- the lines one stream carries in attempt `k` -/
def attemptLines (k count : Nat) (last : Bool) : List (Nat × Nat) :=
  (List.range count).map (fun i => (k, i + 1)) ++ (if last then [(k, 0)] else [])

/-- everything a stream carries, in order -/
def expected (n count : Nat) (last : Bool) : List (Nat × Nat) :=
  (List.range n).flatMap fun k => attemptLines (k + 1) count last

def render (stream : String) (l : Nat × Nat) : String :=
  stream ++ "_" ++ toString l.1 ++ "_" ++ (if l.2 = 0 then "last" else toString l.2)

end PC.LogFile
