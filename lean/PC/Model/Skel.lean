/-! The statement skeletons (source without comments, logging and verification hooks) of the functions
    the models of this library were written against — one list per function, kept by hand. The
    generated `PC/Gen/Skel.lean` holds the same for /repo's current source and `PC/Gen/SkelTie*.lean`
    states their equality function by function: a change of one of these functions breaks that tie
    and has to be answered by reviewing the model (and then updating the list here). -/
namespace PC.Skel

/-- src/api/pc_api.go:NewPcApi -/
def api_pc_api__NewPcApi : List String := [
  "func NewPcApi(project app.IProject) *PcApi {",
  "return &PcApi{project: project}",
  "}"]

/-- src/api/pc_api.go:PcApi.GetHostName -/
def api_pc_api__PcApi_GetHostName : List String := [
  "func (api *PcApi) GetHostName(c *gin.Context) {",
  "name, err := api.project.GetHostName()",
  "if err != nil {",
  "c.JSON(http.StatusBadRequest, gin.H{\"error\": err.Error()})",
  "return",
  "}",
  "c.JSON(http.StatusOK, gin.H{\"name\": name})",
  "}"]

/-- src/api/pc_api.go:PcApi.GetProcess -/
def api_pc_api__PcApi_GetProcess : List String := [
  "func (api *PcApi) GetProcess(c *gin.Context) {",
  "name := c.Param(\"name\")",
  "state, err := api.project.GetProcessState(name)",
  "if err != nil {",
  "c.JSON(http.StatusBadRequest, gin.H{\"error\": err.Error()})",
  "return",
  "}",
  "c.JSON(http.StatusOK, state)",
  "}"]

/-- src/api/pc_api.go:PcApi.GetProcessInfo -/
def api_pc_api__PcApi_GetProcessInfo : List String := [
  "func (api *PcApi) GetProcessInfo(c *gin.Context) {",
  "name := c.Param(\"name\")",
  "config, err := api.project.GetProcessInfo(name)",
  "if err != nil {",
  "c.JSON(http.StatusBadRequest, gin.H{\"error\": err.Error()})",
  "return",
  "}",
  "c.JSON(http.StatusOK, config)",
  "}"]

/-- src/api/pc_api.go:PcApi.GetProcessLogs -/
def api_pc_api__PcApi_GetProcessLogs : List String := [
  "func (api *PcApi) GetProcessLogs(c *gin.Context) {",
  "name := c.Param(\"name\")",
  "endOffset, err := strconv.Atoi(c.Param(\"endOffset\"))",
  "if err != nil {",
  "c.JSON(http.StatusBadRequest, gin.H{\"error\": err.Error()})",
  "return",
  "}",
  "limit, err := strconv.Atoi(c.Param(\"limit\"))",
  "if err != nil {",
  "c.JSON(http.StatusBadRequest, gin.H{\"error\": err.Error()})",
  "return",
  "}",
  "logs, err := api.project.GetProcessLog(name, endOffset, limit)",
  "if err != nil {",
  "c.JSON(http.StatusBadRequest, gin.H{\"error\": err.Error()})",
  "return",
  "}",
  "c.JSON(http.StatusOK, gin.H{\"logs\": logs})",
  "}"]

/-- src/api/pc_api.go:PcApi.GetProcessPorts -/
def api_pc_api__PcApi_GetProcessPorts : List String := [
  "func (api *PcApi) GetProcessPorts(c *gin.Context) {",
  "name := c.Param(\"name\")",
  "ports, err := api.project.GetProcessPorts(name)",
  "if err != nil {",
  "c.JSON(http.StatusBadRequest, gin.H{\"error\": err.Error()})",
  "return",
  "}",
  "c.JSON(http.StatusOK, ports)",
  "}"]

/-- src/api/pc_api.go:PcApi.GetProcesses -/
def api_pc_api__PcApi_GetProcesses : List String := [
  "func (api *PcApi) GetProcesses(c *gin.Context) {",
  "states, err := api.project.GetProcessesState()",
  "if err != nil {",
  "c.JSON(http.StatusBadRequest, gin.H{\"error\": err.Error()})",
  "return",
  "}",
  "c.JSON(http.StatusOK, states)",
  "}"]

/-- src/api/pc_api.go:PcApi.GetProjectState -/
def api_pc_api__PcApi_GetProjectState : List String := [
  "func (api *PcApi) GetProjectState(c *gin.Context) {",
  "withMemory := c.DefaultQuery(\"withMemory\", \"false\")",
  "checkMem, _ := strconv.ParseBool(withMemory)",
  "state, err := api.project.GetProjectState(checkMem)",
  "if err != nil {",
  "c.JSON(http.StatusInternalServerError, gin.H{\"error\": err.Error()})",
  "return",
  "}",
  "c.JSON(http.StatusOK, state)",
  "}"]

/-- src/api/pc_api.go:PcApi.IsAlive -/
def api_pc_api__PcApi_IsAlive : List String := [
  "func (api *PcApi) IsAlive(c *gin.Context) {",
  "c.JSON(http.StatusOK, gin.H{\"status\": \"alive\"})",
  "}"]

/-- src/api/pc_api.go:PcApi.ReloadProject -/
def api_pc_api__PcApi_ReloadProject : List String := [
  "func (api *PcApi) ReloadProject(c *gin.Context) {",
  "status, err := api.project.ReloadProject()",
  "if err != nil {",
  "if len(status) == 0 {",
  "c.JSON(http.StatusBadRequest, gin.H{\"error\": err.Error()})",
  "} else {",
  "c.JSON(http.StatusMultiStatus, status)",
  "}",
  "return",
  "}",
  "c.JSON(http.StatusOK, status)",
  "}"]

/-- src/api/pc_api.go:PcApi.RestartProcess -/
def api_pc_api__PcApi_RestartProcess : List String := [
  "func (api *PcApi) RestartProcess(c *gin.Context) {",
  "name := c.Param(\"name\")",
  "err := api.project.RestartProcess(name)",
  "if err != nil {",
  "c.JSON(http.StatusBadRequest, gin.H{\"error\": err.Error()})",
  "return",
  "}",
  "c.JSON(http.StatusOK, gin.H{\"name\": name})",
  "}"]

/-- src/api/pc_api.go:PcApi.ScaleProcess -/
def api_pc_api__PcApi_ScaleProcess : List String := [
  "func (api *PcApi) ScaleProcess(c *gin.Context) {",
  "name := c.Param(\"name\")",
  "scale, err := strconv.Atoi(c.Param(\"scale\"))",
  "if err != nil {",
  "c.JSON(http.StatusBadRequest, gin.H{\"error\": err.Error()})",
  "return",
  "}",
  "err = api.project.ScaleProcess(name, scale)",
  "if err != nil {",
  "c.JSON(http.StatusBadRequest, gin.H{\"error\": err.Error()})",
  "return",
  "}",
  "c.JSON(http.StatusOK, gin.H{\"name\": name})",
  "}"]

/-- src/api/pc_api.go:PcApi.ShutDownProject -/
def api_pc_api__PcApi_ShutDownProject : List String := [
  "func (api *PcApi) ShutDownProject(c *gin.Context) {",
  "c.JSON(http.StatusOK, gin.H{\"status\": \"stopped\"})",
  "_ = api.project.ShutDownProject()",
  "}"]

/-- src/api/pc_api.go:PcApi.StartProcess -/
def api_pc_api__PcApi_StartProcess : List String := [
  "func (api *PcApi) StartProcess(c *gin.Context) {",
  "name := c.Param(\"name\")",
  "err := api.project.StartProcess(name)",
  "if err != nil {",
  "c.JSON(http.StatusBadRequest, gin.H{\"error\": err.Error()})",
  "return",
  "}",
  "c.JSON(http.StatusOK, gin.H{\"name\": name})",
  "}"]

/-- src/api/pc_api.go:PcApi.StopProcess -/
def api_pc_api__PcApi_StopProcess : List String := [
  "func (api *PcApi) StopProcess(c *gin.Context) {",
  "name := c.Param(\"name\")",
  "err := api.project.StopProcess(name)",
  "if err != nil {",
  "c.JSON(http.StatusBadRequest, gin.H{\"error\": err.Error()})",
  "return",
  "}",
  "c.JSON(http.StatusOK, gin.H{\"name\": name})",
  "}"]

/-- src/api/pc_api.go:PcApi.StopProcesses -/
def api_pc_api__PcApi_StopProcesses : List String := [
  "func (api *PcApi) StopProcesses(c *gin.Context) {",
  "var names []string",
  "if err := c.ShouldBindJSON(&names); err != nil {",
  "c.JSON(http.StatusBadRequest, gin.H{\"error\": err.Error()})",
  "return",
  "}",
  "stopped, err := api.project.StopProcesses(names)",
  "if err != nil {",
  "if len(stopped) == 0 {",
  "c.JSON(http.StatusBadRequest, gin.H{\"error\": err.Error()})",
  "} else {",
  "c.JSON(http.StatusMultiStatus, stopped)",
  "}",
  "return",
  "}",
  "c.JSON(http.StatusOK, stopped)",
  "}"]

/-- src/api/pc_api.go:PcApi.UpdateProcess -/
def api_pc_api__PcApi_UpdateProcess : List String := [
  "func (api *PcApi) UpdateProcess(c *gin.Context) {",
  "var proc types.ProcessConfig",
  "if err := c.ShouldBindJSON(&proc); err != nil {",
  "c.JSON(http.StatusBadRequest, gin.H{\"error\": err.Error()})",
  "return",
  "}",
  "err := api.project.UpdateProcess(&proc)",
  "if err != nil {",
  "c.JSON(http.StatusBadRequest, gin.H{\"error\": err.Error()})",
  "return",
  "}",
  "c.JSON(http.StatusOK, proc)",
  "}"]

/-- src/api/pc_api.go:PcApi.UpdateProject -/
def api_pc_api__PcApi_UpdateProject : List String := [
  "func (api *PcApi) UpdateProject(c *gin.Context) {",
  "var project types.Project",
  "if err := c.ShouldBindJSON(&project); err != nil {",
  "c.JSON(http.StatusBadRequest, gin.H{\"error\": err.Error()})",
  "return",
  "}",
  "status, err := api.project.UpdateProject(&project)",
  "if err != nil {",
  "if len(status) == 0 {",
  "c.JSON(http.StatusBadRequest, gin.H{\"error\": err.Error()})",
  "} else {",
  "c.JSON(http.StatusMultiStatus, status)",
  "}",
  "return",
  "}",
  "c.JSON(http.StatusOK, status)",
  "}"]

/-- src/api/pc_api.go: its functions -/
def api_pc_api__names : List String := [
  "NewPcApi",
  "PcApi.GetProcess",
  "PcApi.GetProcessInfo",
  "PcApi.GetProcesses",
  "PcApi.GetProcessLogs",
  "PcApi.StopProcess",
  "PcApi.StopProcesses",
  "PcApi.StartProcess",
  "PcApi.RestartProcess",
  "PcApi.ScaleProcess",
  "PcApi.IsAlive",
  "PcApi.GetHostName",
  "PcApi.GetProcessPorts",
  "PcApi.ShutDownProject",
  "PcApi.UpdateProject",
  "PcApi.UpdateProcess",
  "PcApi.GetProjectState",
  "PcApi.ReloadProject"]

/-- src/api/routes.go:InitRoutes -/
def api_routes__InitRoutes : List String := [
  "func InitRoutes(useLogger bool, handler *PcApi) *gin.Engine {",
  "r := gin.New()",
  "if useLogger {",
  "r.Use(gin.Logger())",
  "}",
  "r.Use(gin.Recovery())",
  "r.GET(\"/swagger/*any\", ginSwagger.WrapHandler(swaggerFiles.Handler))",
  "r.GET(\"/\", func(c *gin.Context) {",
  "location := url.URL{Path: \"/swagger/index.html\"}",
  "c.Redirect(http.StatusFound, location.RequestURI())",
  "})",
  "r.GET(\"/live\", handler.IsAlive)",
  "r.GET(\"/hostname\", handler.GetHostName)",
  "r.GET(\"/processes\", handler.GetProcesses)",
  "r.GET(\"/process/:name\", handler.GetProcess)",
  "r.GET(\"/process/info/:name\", handler.GetProcessInfo)",
  "r.POST(\"/process\", handler.UpdateProcess)",
  "r.GET(\"/process/ports/:name\", handler.GetProcessPorts)",
  "r.GET(\"/process/logs/:name/:endOffset/:limit\", handler.GetProcessLogs)",
  "r.PATCH(\"/process/stop/:name\", handler.StopProcess)",
  "r.PATCH(\"/processes/stop\", handler.StopProcesses)",
  "r.POST(\"/process/start/:name\", handler.StartProcess)",
  "r.POST(\"/process/restart/:name\", handler.RestartProcess)",
  "r.POST(\"/project/stop\", handler.ShutDownProject)",
  "r.POST(\"/project\", handler.UpdateProject)",
  "r.POST(\"/project/configuration\", handler.ReloadProject)",
  "r.GET(\"/project/state\", handler.GetProjectState)",
  "r.PATCH(\"/process/scale/:name/:scale\", handler.ScaleProcess)",
  "r.GET(\"/process/logs/ws\", handler.HandleLogsStream)",
  "return r",
  "}"]

/-- src/api/routes.go: its functions -/
def api_routes__names : List String := [
  "InitRoutes"]

/-- src/api/server.go:StartHttpServerWithTCP -/
def api_server__StartHttpServerWithTCP : List String := [
  "func StartHttpServerWithTCP(useLogger bool, port int, project app.IProject) (*http.Server, error) {",
  "router := getRouter(useLogger, project)",
  "endPoint := fmt.Sprintf(\":%d\", port)",
  "server := &http.Server{Addr: endPoint, Handler: router.Handler()}",
  "go func() {",
  "if err := server.ListenAndServe(); err != nil && err != http.ErrServerClosed {",
  "}",
  "}()",
  "return server, nil",
  "}"]

/-- src/api/server.go:StartHttpServerWithUnixSocket -/
def api_server__StartHttpServerWithUnixSocket : List String := [
  "func StartHttpServerWithUnixSocket(useLogger bool, unixSocket string, project app.IProject) (*http.Server, error) {",
  "router := getRouter(useLogger, project)",
  "_, err := net.Dial(\"unix\", unixSocket)",
  "if err == nil {",
  "}",
  "os.Remove(unixSocket)",
  "server := &http.Server{Handler: router.Handler()}",
  "listener, err := net.Listen(\"unix\", unixSocket)",
  "if err != nil {",
  "return server, err",
  "}",
  "go func() {",
  "defer listener.Close()",
  "defer os.Remove(unixSocket)",
  "if err := server.Serve(listener); err != nil && err != http.ErrServerClosed {",
  "}",
  "}()",
  "return server, nil",
  "}"]

/-- src/api/server.go:getRouter -/
def api_server__getRouter : List String := [
  "func getRouter(useLogger bool, project app.IProject) *gin.Engine {",
  "if os.Getenv(EnvDebugMode) == \"\" {",
  "gin.SetMode(gin.ReleaseMode)",
  "useLogger = false",
  "}",
  "return InitRoutes(useLogger, NewPcApi(project))",
  "}"]

/-- src/api/server.go: its functions -/
def api_server__names : List String := [
  "StartHttpServerWithUnixSocket",
  "StartHttpServerWithTCP",
  "getRouter"]

/-- src/api/ws_api.go:PcApi.HandleLogsStream -/
def api_ws_api__PcApi_HandleLogsStream : List String := [
  "func (api *PcApi) HandleLogsStream(c *gin.Context) {",
  "procNamesStr := c.Query(\"name\")",
  "procNames := strings.Split(procNamesStr, \",\")",
  "follow := c.Query(\"follow\") == \"true\"",
  "endOffset, err := strconv.Atoi(c.Query(\"offset\"))",
  "if err != nil {",
  "c.JSON(http.StatusBadRequest, gin.H{\"error\": err.Error()})",
  "return",
  "}",
  "ws, err := upgrader.Upgrade(c.Writer, c.Request, nil)",
  "if err != nil {",
  "c.JSON(http.StatusBadRequest, gin.H{\"error\": err.Error()})",
  "return",
  "}",
  "done := make(chan struct{})",
  "if follow {",
  "go handleIncoming(ws, done)",
  "}",
  "for _, procName := range procNames {",
  "logChan := make(chan LogMessage, 256)",
  "gone := make(chan struct{})",
  "chanCloseMtx := &sync.Mutex{}",
  "isChannelClosed := false",
  "connector := pclog.NewConnector(func(messages []string) {",
  "for _, message := range messages {",
  "msg := LogMessage{Message: message, ProcessName: procName}",
  "select {",
  "case logChan <- msg:",
  "case <-gone:",
  "return",
  "}",
  "}",
  "if !follow {",
  "chanCloseMtx.Lock()",
  "defer chanCloseMtx.Unlock()",
  "close(logChan)",
  "isChannelClosed = true",
  "}",
  "}, func(message string) (n int, err error) {",
  "msg := LogMessage{Message: message, ProcessName: procName}",
  "chanCloseMtx.Lock()",
  "defer chanCloseMtx.Unlock()",
  "if isChannelClosed {",
  "return 0, nil",
  "}",
  "select {",
  "case logChan <- msg:",
  "case <-gone:",
  "return 0, nil",
  "}",
  "return len(message), nil",
  "}, endOffset)",
  "go api.handleLog(ws, procName, connector, logChan, done, gone)",
  "err = api.project.GetLogsAndSubscribe(procName, connector)",
  "if err != nil {",
  "return",
  "}",
  "select {",
  "case <-gone:",
  "_ = api.project.UnSubscribeLogger(procName, connector)",
  "default:",
  "}",
  "}",
  "}"]

/-- src/api/ws_api.go:PcApi.handleLog -/
def api_ws_api__PcApi_handleLog : List String := [
  "func (api *PcApi) handleLog(ws *websocket.Conn, procName string, connector *pclog.Connector, logChan chan LogMessage, done chan struct{}, gone chan struct{}) {",
  "defer func(project app.IProject, name string, observer pclog.LogObserver) {",
  "err := project.UnSubscribeLogger(name, observer)",
  "if err != nil {",
  "}",
  "}(api.project, procName, connector)",
  "defer ws.Close()",
  "defer close(gone)",
  "for {",
  "select {",
  "case msg, open := <-logChan:",
  "api.wsMtx.Lock()",
  "err := ws.WriteJSON(&msg)",
  "api.wsMtx.Unlock()",
  "if err != nil {",
  "if errors.Is(err, net.ErrClosed) {",
  "return",
  "}",
  "return",
  "}",
  "if !open {",
  "return",
  "}",
  "case <-done:",
  "return",
  "}",
  "}",
  "}"]

/-- src/api/ws_api.go:handleIncoming -/
def api_ws_api__handleIncoming : List String := [
  "func handleIncoming(ws *websocket.Conn, done chan struct{}) {",
  "defer close(done)",
  "for {",
  "msgType, _, err := ws.ReadMessage()",
  "if err != nil {",
  "if websocket.IsCloseError(err, websocket.CloseNormalClosure) {",
  "return",
  "}",
  "if msgType == -1 {",
  "return",
  "}",
  "return",
  "}",
  "}",
  "}"]

/-- src/api/ws_api.go: its functions -/
def api_ws_api__names : List String := [
  "PcApi.HandleLogsStream",
  "PcApi.handleLog",
  "handleIncoming"]

/-- src/app/daemon.go:Process.isDaemonLaunched -/
def app_daemon__Process_isDaemonLaunched : List String := [
  "func (p *Process) isDaemonLaunched() bool {",
  "return p.procConf.IsDaemon && p.procState.ExitCode == 0",
  "}"]

/-- src/app/daemon.go:Process.notifyDaemonStopped -/
def app_daemon__Process_notifyDaemonStopped : List String := [
  "func (p *Process) notifyDaemonStopped() {",
  "if p.procConf.IsDaemon {",
  "p.procStateChan <- types.ProcessStateCompleted",
  "}",
  "}"]

/-- src/app/daemon.go:Process.waitForDaemonCompletion -/
def app_daemon__Process_waitForDaemonCompletion : List String := [
  "func (p *Process) waitForDaemonCompletion() {",
  "if !p.isDaemonLaunched() {",
  "return",
  "}",
  "loop:",
  "for {",
  "status := <-p.procStateChan",
  "switch status {",
  "case types.ProcessStateCompleted:",
  "break loop",
  "}",
  "}",
  "}"]

/-- src/app/daemon.go: its functions -/
def app_daemon__names : List String := [
  "Process.waitForDaemonCompletion",
  "Process.notifyDaemonStopped",
  "Process.isDaemonLaunched"]

/-- src/app/proc_opts.go: its functions -/
def app_proc_opts__names : List String := [
  "withTuiOn",
  "withGlobalEnv",
  "withLogger",
  "withProcConf",
  "withProcState",
  "withProcLog",
  "withShellConfig",
  "withPrintLogs",
  "withIsMain",
  "withExtraArgs"]

/-- src/app/proc_opts.go:withExtraArgs -/
def app_proc_opts__withExtraArgs : List String := [
  "func withExtraArgs(extraArgs []string) ProcOpts {",
  "return func(proc *Process) {",
  "proc.extraArgs = extraArgs",
  "}",
  "}"]

/-- src/app/proc_opts.go:withGlobalEnv -/
def app_proc_opts__withGlobalEnv : List String := [
  "func withGlobalEnv(globalEnv []string) ProcOpts {",
  "return func(proc *Process) {",
  "proc.globalEnv = globalEnv",
  "}",
  "}"]

/-- src/app/proc_opts.go:withIsMain -/
def app_proc_opts__withIsMain : List String := [
  "func withIsMain(isMain bool) ProcOpts {",
  "return func(proc *Process) {",
  "proc.isMain = isMain",
  "}",
  "}"]

/-- src/app/proc_opts.go:withLogger -/
def app_proc_opts__withLogger : List String := [
  "func withLogger(logger pclog.PcLogger) ProcOpts {",
  "return func(proc *Process) {",
  "proc.logger = logger",
  "}",
  "}"]

/-- src/app/proc_opts.go:withPrintLogs -/
def app_proc_opts__withPrintLogs : List String := [
  "func withPrintLogs(printLogs bool) ProcOpts {",
  "return func(proc *Process) {",
  "proc.printLogs = printLogs",
  "}",
  "}"]

/-- src/app/proc_opts.go:withProcConf -/
def app_proc_opts__withProcConf : List String := [
  "func withProcConf(procConf *types.ProcessConfig) ProcOpts {",
  "return func(proc *Process) {",
  "proc.procConf = procConf",
  "}",
  "}"]

/-- src/app/proc_opts.go:withProcLog -/
def app_proc_opts__withProcLog : List String := [
  "func withProcLog(procLog *pclog.ProcessLogBuffer) ProcOpts {",
  "return func(proc *Process) {",
  "proc.logBuffer = procLog",
  "}",
  "}"]

/-- src/app/proc_opts.go:withProcState -/
def app_proc_opts__withProcState : List String := [
  "func withProcState(procState *types.ProcessState) ProcOpts {",
  "return func(proc *Process) {",
  "proc.procState = procState",
  "}",
  "}"]

/-- src/app/proc_opts.go:withShellConfig -/
def app_proc_opts__withShellConfig : List String := [
  "func withShellConfig(shellConfig command.ShellConfig) ProcOpts {",
  "return func(proc *Process) {",
  "proc.shellConfig = shellConfig",
  "}",
  "}"]

/-- src/app/proc_opts.go:withTuiOn -/
def app_proc_opts__withTuiOn : List String := [
  "func withTuiOn(isTuiEnabled bool) ProcOpts {",
  "return func(proc *Process) {",
  "proc.isTuiEnabled = isTuiEnabled",
  "}",
  "}"]

/-- src/app/process.go:NewProcess -/
def app_process__NewProcess : List String := [
  "func NewProcess(opts ...ProcOpts) *Process {",
  "proc := &Process{redColor: color.New(color.FgHiRed).SprintFunc(), noColor: color.New(color.Reset).SprintFunc(), started: false, done: false, procStateChan: make(chan string, 1), procStartedChan: make(chan struct{}, 1)}",
  "for _, opt := range opts {",
  "opt(proc)",
  "}",
  "proc.procColor = pclog.Name2Color(proc.getName())",
  "proc.procReadyCtx, proc.readyCancelFn = context.WithCancel(context.Background())",
  "proc.procLogReadyCtx, proc.readyLogCancelFn = context.WithCancelCause(context.Background())",
  "proc.procRunCtx, proc.runCancelFn = context.WithCancel(context.Background())",
  "proc.setUpProbes()",
  "proc.procCond = *sync.NewCond(proc)",
  "return proc",
  "}"]

/-- src/app/process.go:Process.doConfiguredStop -/
def app_process__Process_doConfiguredStop : List String := [
  "func (p *Process) doConfiguredStop(params types.ShutDownParams) error {",
  "timeout := params.ShutDownTimeout",
  "if timeout == UndefinedShutdownTimeoutSec {",
  "timeout = DefaultShutdownTimeoutSec",
  "}",
  "ctx, cancel := context.WithTimeout(context.Background(), time.Duration(timeout)*time.Second)",
  "defer cancel()",
  "defer p.notifyDaemonStopped()",
  "cmd := command.BuildCommandShellArgContext(ctx, p.shellConfig, params.ShutDownCommand)",
  "cmd.SetEnv(p.getProcessEnvironment())",
  "cmd.SetDir(p.procConf.WorkingDir)",
  "if err := cmd.Run(); err != nil {",
  "return p.command.Stop(int(syscall.SIGKILL), false)",
  "}",
  "return nil",
  "}"]

/-- src/app/process.go:Process.forceKillOnTimeout -/
def app_process__Process_forceKillOnTimeout : List String := [
  "func (p *Process) forceKillOnTimeout() error {",
  "p.mtxStopFn.Lock()",
  "p.waitForStoppedCtx, p.waitForStoppedFn = context.WithTimeout(context.Background(), time.Duration(p.procConf.ShutDownParams.ShutDownTimeout)*time.Second)",
  "p.waitForStoppedCtx, p.waitForStoppedFn = verifStopCtx(p, p.waitForStoppedCtx, p.waitForStoppedFn)",
  "p.mtxStopFn.Unlock()",
  "<-p.waitForStoppedCtx.Done()",
  "err := p.waitForStoppedCtx.Err()",
  "switch {",
  "case errors.Is(err, context.Canceled):",
  "return nil",
  "case errors.Is(err, context.DeadlineExceeded):",
  "return p.command.Stop(int(syscall.SIGKILL), p.procConf.ShutDownParams.ParentOnly)",
  "default:",
  "return err",
  "}",
  "}"]

/-- src/app/process.go:Process.getBackoff -/
def app_process__Process_getBackoff : List String := [
  "func (p *Process) getBackoff() time.Duration {",
  "if d, ok := verifBackoff(p); ok {",
  "return d",
  "}",
  "backoff := 1",
  "if p.procConf.RestartPolicy.BackoffSeconds > backoff {",
  "backoff = p.procConf.RestartPolicy.BackoffSeconds",
  "}",
  "return time.Duration(backoff) * time.Second",
  "}"]

/-- src/app/process.go:Process.getCommand -/
def app_process__Process_getCommand : List String := [
  "func (p *Process) getCommand() []string {",
  "return append([]string{(*p.procConf).Executable}, p.mergeExtraArgs()...)",
  "}"]

/-- src/app/process.go:Process.getCommander -/
def app_process__Process_getCommander : List String := [
  "func (p *Process) getCommander() command.Commander {",
  "if c := verifCommander(p); c != nil {",
  "return c",
  "}",
  "if p.procConf.IsTty && !p.isMain {",
  "return command.BuildPtyCommand(p.procConf.Executable, p.mergeExtraArgs())",
  "} else {",
  "return command.BuildCommand(p.procConf.Executable, p.mergeExtraArgs())",
  "}",
  "}"]

/-- src/app/process.go:Process.getExitCode -/
def app_process__Process_getExitCode : List String := [
  "func (p *Process) getExitCode() int {",
  "defer p.stateMtx.Unlock()",
  "p.stateMtx.Lock()",
  "return p.procState.ExitCode",
  "}"]

/-- src/app/process.go:Process.getHealth -/
def app_process__Process_getHealth : List String := [
  "func (p *Process) getHealth() string {",
  "p.stateMtx.Lock()",
  "defer p.stateMtx.Unlock()",
  "return p.procState.Health",
  "}"]

/-- src/app/process.go:Process.getLogPath -/
def app_process__Process_getLogPath : List String := [
  "func (p *Process) getLogPath() string {",
  "logLocation := p.procConf.LogLocation",
  "if strings.Contains(logLocation, LogReplicaNum) {",
  "replicaStr := strconv.Itoa(p.procConf.ReplicaNum)",
  "logLocation = strings.Replace(logLocation, LogReplicaNum, replicaStr, -1)",
  "} else if p.procConf.Replicas > 1 {",
  "logLocation = fmt.Sprintf(\"%s.%d\", logLocation, p.procConf.ReplicaNum)",
  "}",
  "return logLocation",
  "}"]

/-- src/app/process.go:Process.getName -/
def app_process__Process_getName : List String := [
  "func (p *Process) getName() string {",
  "return p.procConf.ReplicaName",
  "}"]

/-- src/app/process.go:Process.getPid -/
def app_process__Process_getPid : List String := [
  "func (p *Process) getPid() int {",
  "p.stateMtx.Lock()",
  "defer p.stateMtx.Unlock()",
  "return p.procState.Pid",
  "}"]

/-- src/app/process.go:Process.getProcessEnvironment -/
def app_process__Process_getProcessEnvironment : List String := [
  "func (p *Process) getProcessEnvironment() []string {",
  "env := []string{}",
  "env = append(env, os.Environ()...)",
  "env = append(env, p.globalEnv...)",
  "env = append(env, p.procConf.Environment...)",
  "env = append(env, \"PC_PROC_NAME=\"+p.procConf.Name, EnvReplicaNum+\"=\"+strconv.Itoa(p.procConf.ReplicaNum))",
  "return env",
  "}"]

/-- src/app/process.go:Process.getProcessStarter -/
def app_process__Process_getProcessStarter : List String := [
  "func (p *Process) getProcessStarter() func() error {",
  "return func() error {",
  "p.command = p.getCommander()",
  "p.command.SetEnv(p.getProcessEnvironment())",
  "p.command.SetDir(p.procConf.WorkingDir)",
  "if p.isMain || (p.procConf.IsElevated && !p.isTuiEnabled) {",
  "p.command.AttachIo()",
  "} else {",
  "p.command.SetCmdArgs()",
  "stdout, _ := p.command.StdoutPipe()",
  "p.stdOutDone = make(chan struct{})",
  "go p.handleOutput(stdout, \"stdout\", p.handleInfo, p.stdOutDone)",
  "if !p.procConf.IsTty {",
  "stderr, _ := p.command.StderrPipe()",
  "p.stdErrDone = make(chan struct{})",
  "go p.handleOutput(stderr, \"stderr\", p.handleError, p.stdErrDone)",
  "}",
  "}",
  "if p.procConf.IsElevated && p.isTuiEnabled {",
  "stdin, err := p.command.StdinPipe()",
  "if err != nil {",
  "}",
  "p.stdin = stdin",
  "}",
  "return p.command.Start()",
  "}",
  "}"]

/-- src/app/process.go:Process.getRestarts -/
def app_process__Process_getRestarts : List String := [
  "func (p *Process) getRestarts() int {",
  "p.stateMtx.Lock()",
  "defer p.stateMtx.Unlock()",
  "return p.procState.Restarts",
  "}"]

/-- src/app/process.go:Process.getStartTime -/
def app_process__Process_getStartTime : List String := [
  "func (p *Process) getStartTime() time.Time {",
  "p.timeMutex.Lock()",
  "defer p.timeMutex.Unlock()",
  "return p.startTime",
  "}"]

/-- src/app/process.go:Process.getStartingStateName -/
def app_process__Process_getStartingStateName : List String := [
  "func (p *Process) getStartingStateName() string {",
  "if p.procConf.IsDaemon {",
  "return types.ProcessStateLaunching",
  "}",
  "return types.ProcessStateRunning",
  "}"]

/-- src/app/process.go:Process.getState -/
def app_process__Process_getState : List String := [
  "func (p *Process) getState() *types.ProcessState {",
  "p.updateProcState()",
  "p.stateMtx.Lock()",
  "defer p.stateMtx.Unlock()",
  "return p.procState",
  "}"]

/-- src/app/process.go:Process.getStateData -/
def app_process__Process_getStateData : List String := [
  "func (p *Process) getStateData(filter filterFn) {",
  "p.updateProcState()",
  "p.stateMtx.Lock()",
  "defer p.stateMtx.Unlock()",
  "if filter != nil {",
  "filter(p.procState)",
  "}",
  "}"]

/-- src/app/process.go:Process.getStateSnapshot -/
def app_process__Process_getStateSnapshot : List String := [
  "func (p *Process) getStateSnapshot() types.ProcessState {",
  "p.updateProcState()",
  "p.stateMtx.Lock()",
  "defer p.stateMtx.Unlock()",
  "return *p.procState",
  "}"]

/-- src/app/process.go:Process.getStatusName -/
def app_process__Process_getStatusName : List String := [
  "func (p *Process) getStatusName() string {",
  "p.updateProcState()",
  "p.stateMtx.Lock()",
  "defer p.stateMtx.Unlock()",
  "return p.procState.Status",
  "}"]

/-- src/app/process.go:Process.handleError -/
def app_process__Process_handleError : List String := [
  "func (p *Process) handleError(message string) {",
  "p.logger.Error(message, p.getName(), p.procConf.ReplicaNum)",
  "if p.printLogs {",
  "fmt.Printf(\"[%s\\t] %s\\n\", p.procColor(p.getName()), p.redColor(message))",
  "}",
  "p.logBuffer.Write(message)",
  "}"]

/-- src/app/process.go:Process.handleInfo -/
def app_process__Process_handleInfo : List String := [
  "func (p *Process) handleInfo(message string) {",
  "p.logger.Info(message, p.getName(), p.procConf.ReplicaNum)",
  "if p.printLogs {",
  "fmt.Printf(\"[%s\\t] %s\\n\", p.procColor(p.getName()), message)",
  "}",
  "p.logBuffer.Write(message)",
  "}"]

/-- src/app/process.go:Process.handleInput -/
def app_process__Process_handleInput : List String := [
  "func (p *Process) handleInput(pipe io.WriteCloser) {",
  "reader := bufio.NewReader(os.Stdin)",
  "for {",
  "input, err := reader.ReadString('\\n')",
  "if err != nil {",
  "continue",
  "}",
  "_, _ = pipe.Write([]byte(input))",
  "}",
  "}"]

/-- src/app/process.go:Process.handleOutput -/
def app_process__Process_handleOutput : List String := [
  "func (p *Process) handleOutput(pipe io.ReadCloser, output string, handler func(message string), done chan struct{}) {",
  "reader := bufio.NewReader(pipe)",
  "for {",
  "line, err := reader.ReadString('\\n')",
  "if err == io.EOF && line != \"\" {",
  "err = nil",
  "}",
  "if err != nil {",
  "if err == io.EOF {",
  "break",
  "}",
  "var pathErr *os.PathError",
  "ok := errors.As(err, &pathErr)",
  "if ok && pathErr.Path == \"/dev/ptmx\" {",
  "break",
  "}",
  "break",
  "}",
  "if p.procConf.ReadyLogLine != \"\" && p.getHealth() == types.ProcessHealthUnknown && strings.Contains(line, p.procConf.ReadyLogLine) {",
  "p.setHealth(types.ProcessHealthReady)",
  "p.readyLogCancelFn(nil)",
  "}",
  "p.checkElevatedProcOutput(line)",
  "handler(strings.TrimSuffix(line, \"\\n\"))",
  "}",
  "close(done)",
  "}"]

/-- src/app/process.go:Process.internalStop -/
def app_process__Process_internalStop : List String := [
  "func (p *Process) internalStop() error {",
  "return p.stopProcess(false)",
  "}"]

/-- src/app/process.go:Process.isOneOfStates -/
def app_process__Process_isOneOfStates : List String := [
  "func (p *Process) isOneOfStates(states ...string) bool {",
  "p.stateMtx.Lock()",
  "defer p.stateMtx.Unlock()",
  "for _, state := range states {",
  "if p.procState.Status == state {",
  "return true",
  "}",
  "}",
  "return false",
  "}"]

/-- src/app/process.go:Process.isRestartable -/
def app_process__Process_isRestartable : List String := [
  "func (p *Process) isRestartable() bool {",
  "p.Lock()",
  "exitCode := p.getExitCode()",
  "p.Unlock()",
  "if p.isStopped.Swap(false) {",
  "return false",
  "}",
  "if p.procConf.RestartPolicy.Restart == types.RestartPolicyNo || p.procConf.RestartPolicy.Restart == \"\" {",
  "return false",
  "}",
  "if exitCode != 0 && p.procConf.RestartPolicy.Restart == types.RestartPolicyExitOnFailure {",
  "return false",
  "}",
  "if exitCode != 0 && p.procConf.RestartPolicy.Restart == types.RestartPolicyOnFailure {",
  "if p.procConf.RestartPolicy.MaxRestarts == 0 {",
  "return true",
  "}",
  "return p.getRestarts() < p.procConf.RestartPolicy.MaxRestarts",
  "}",
  "if p.procConf.RestartPolicy.Restart == types.RestartPolicyAlways {",
  "if p.procConf.RestartPolicy.MaxRestarts == 0 {",
  "return true",
  "}",
  "return p.getRestarts() < p.procConf.RestartPolicy.MaxRestarts",
  "}",
  "return false",
  "}"]

/-- src/app/process.go:Process.isRunning -/
def app_process__Process_isRunning : List String := [
  "func (p *Process) isRunning() bool {",
  "return p.isOneOfStates(types.ProcessStateRunning, types.ProcessStateLaunched, types.ProcessStateLaunching)",
  "}"]

/-- src/app/process.go:Process.isState -/
def app_process__Process_isState : List String := [
  "func (p *Process) isState(state string) bool {",
  "p.stateMtx.Lock()",
  "defer p.stateMtx.Unlock()",
  "return p.procState.Status == state",
  "}"]

/-- src/app/process.go:Process.mergeExtraArgs -/
def app_process__Process_mergeExtraArgs : List String := [
  "func (p *Process) mergeExtraArgs() []string {",
  "if len(p.extraArgs) == 0 {",
  "return p.procConf.Args",
  "}",
  "tmp := make([]string, len(p.procConf.Args))",
  "copy(tmp, p.procConf.Args)",
  "if isStringDefined(p.procConf.Command) {",
  "lastArg := p.procConf.Args[len(p.procConf.Args)-1]",
  "lastArg += \" \" + strings.Join(p.extraArgs, \" \")",
  "return append(tmp[:len(tmp)-1], lastArg)",
  "} else if len(p.procConf.Entrypoint) > 0 {",
  "return append(tmp, p.extraArgs...)",
  "}",
  "return p.procConf.Args",
  "}"]

/-- src/app/process.go:Process.onLivenessCheckEnd -/
def app_process__Process_onLivenessCheckEnd : List String := [
  "func (p *Process) onLivenessCheckEnd(_, isFatal bool, err string) {",
  "if isFatal {",
  "p.logBuffer.Write(\"Error: liveness check fail - \" + err)",
  "p.notifyDaemonStopped()",
  "}",
  "}"]

/-- src/app/process.go:Process.onProcessEnd -/
def app_process__Process_onProcessEnd : List String := [
  "func (p *Process) onProcessEnd(state string) {",
  "if isStringDefined(p.procConf.LogLocation) {",
  "p.logger.Close()",
  "}",
  "p.mtxStopFn.Lock()",
  "if p.waitForStoppedFn != nil {",
  "p.waitForStoppedFn()",
  "p.waitForStoppedFn = nil",
  "}",
  "p.mtxStopFn.Unlock()",
  "p.stopProbes()",
  "if p.readyProber != nil {",
  "p.readyCancelFn()",
  "}",
  "p.readyCancelFn()",
  "p.readyLogCancelFn(fmt.Errorf(\"process %s ended\", p.getName()))",
  "p.runCancelFn()",
  "p.setState(state)",
  "p.updateProcState()",
  "p.Lock()",
  "p.done = true",
  "p.Unlock()",
  "p.procCond.Broadcast()",
  "}"]

/-- src/app/process.go:Process.onProcessStart -/
def app_process__Process_onProcessStart : List String := [
  "func (p *Process) onProcessStart() {",
  "if isStringDefined(p.procConf.LogLocation) {",
  "p.logger.Open(p.getLogPath(), p.procConf.LoggerConfig)",
  "}",
  "p.Lock()",
  "p.started = true",
  "p.Unlock()",
  "close(p.procStartedChan)",
  "}"]

/-- src/app/process.go:Process.onReadinessCheckEnd -/
def app_process__Process_onReadinessCheckEnd : List String := [
  "func (p *Process) onReadinessCheckEnd(isOk, isFatal bool, err string) {",
  "if isFatal {",
  "p.setHealth(types.ProcessHealthNotReady)",
  "p.logBuffer.Write(\"Error: readiness check fail - \" + err)",
  "_ = p.internalStop()",
  "} else if isOk {",
  "p.setHealth(types.ProcessHealthReady)",
  "p.readyCancelFn()",
  "} else {",
  "p.setHealth(types.ProcessHealthNotReady)",
  "}",
  "}"]

/-- src/app/process.go:Process.onStateChange -/
def app_process__Process_onStateChange : List String := [
  "func (p *Process) onStateChange(state string) {",
  "switch state {",
  "case types.ProcessStateSkipped:",
  "p.setExitCodeLocked(1)",
  "case types.ProcessStateRestarting:",
  "fallthrough",
  "case types.ProcessStateLaunching:",
  "fallthrough",
  "case types.ProcessStateTerminating:",
  "p.procState.Health = types.ProcessHealthUnknown",
  "}",
  "}"]

/-- src/app/process.go:Process.prepareForShutDown -/
def app_process__Process_prepareForShutDown : List String := [
  "func (p *Process) prepareForShutDown() {",
  "p.isStopped.Store(true)",
  "}"]

/-- src/app/process.go:Process.run -/
def app_process__Process_run : List String := [
  "func (p *Process) run() int {",
  "if p.isState(types.ProcessStateTerminating) || p.procRunCtx.Err() != nil {",
  "p.onProcessEnd(types.ProcessStateCompleted)",
  "return 0",
  "}",
  "if err := p.validateProcess(); err != nil {",
  "p.setExitCode(1)",
  "p.onProcessEnd(types.ProcessStateError)",
  "return 1",
  "}",
  "p.onProcessStart()",
  "loop:",
  "for {",
  "err := p.setStateAndRun(p.getStartingStateName(), p.getProcessStarter())",
  "if err != nil {",
  "p.logBuffer.Write(err.Error())",
  "p.setExitCode(1)",
  "p.onProcessEnd(types.ProcessStateError)",
  "return 1",
  "}",
  "p.setStartTime(time.Now())",
  "p.stateMtx.Lock()",
  "p.procState.Pid = p.command.Pid()",
  "p.stateMtx.Unlock()",
  "p.startProbes()",
  "p.waitForStdOutErr()",
  "_ = p.command.Wait()",
  "p.Lock()",
  "p.setExitCode(p.command.ExitCode())",
  "p.Unlock()",
  "if p.isDaemonLaunched() {",
  "p.setState(types.ProcessStateLaunched)",
  "p.waitForDaemonCompletion()",
  "}",
  "if !p.isRestartable() {",
  "break",
  "}",
  "p.setState(types.ProcessStateRestarting)",
  "p.stateMtx.Lock()",
  "p.procState.Restarts += 1",
  "restarts := p.procState.Restarts",
  "p.stateMtx.Unlock()",
  "select {",
  "case <-p.procRunCtx.Done():",
  "break loop",
  "case <-time.After(p.getBackoff()):",
  "p.handleInfo(\"\\n\")",
  "continue",
  "}",
  "}",
  "p.onProcessEnd(types.ProcessStateCompleted)",
  "return p.getExitCode()",
  "}"]

/-- src/app/process.go:Process.setExitCode -/
def app_process__Process_setExitCode : List String := [
  "func (p *Process) setExitCode(code int) {",
  "defer p.stateMtx.Unlock()",
  "p.stateMtx.Lock()",
  "p.setExitCodeLocked(code)",
  "}"]

/-- src/app/process.go:Process.setExitCodeLocked -/
def app_process__Process_setExitCodeLocked : List String := [
  "func (p *Process) setExitCodeLocked(code int) {",
  "p.procState.ExitCode = code",
  "}"]

/-- src/app/process.go:Process.setHealth -/
def app_process__Process_setHealth : List String := [
  "func (p *Process) setHealth(health string) {",
  "p.stateMtx.Lock()",
  "defer p.stateMtx.Unlock()",
  "p.procState.Health = health",
  "}"]

/-- src/app/process.go:Process.setName -/
def app_process__Process_setName : List String := [
  "func (p *Process) setName(replicaName string) {",
  "p.procConf.ReplicaName = replicaName",
  "}"]

/-- src/app/process.go:Process.setStartTime -/
def app_process__Process_setStartTime : List String := [
  "func (p *Process) setStartTime(startTime time.Time) {",
  "p.timeMutex.Lock()",
  "defer p.timeMutex.Unlock()",
  "p.startTime = startTime",
  "}"]

/-- src/app/process.go:Process.setState -/
def app_process__Process_setState : List String := [
  "func (p *Process) setState(state string) {",
  "p.stateMtx.Lock()",
  "defer p.stateMtx.Unlock()",
  "p.procState.Status = state",
  "p.onStateChange(state)",
  "}"]

/-- src/app/process.go:Process.setStateAndRun -/
def app_process__Process_setStateAndRun : List String := [
  "func (p *Process) setStateAndRun(state string, runnable func() error) error {",
  "p.stateMtx.Lock()",
  "defer p.stateMtx.Unlock()",
  "p.procState.Status = state",
  "p.onStateChange(state)",
  "return runnable()",
  "}"]

/-- src/app/process.go:Process.setUpProbes -/
def app_process__Process_setUpProbes : List String := [
  "func (p *Process) setUpProbes() {",
  "var err error",
  "if p.procConf.LivenessProbe != nil {",
  "p.liveProber, err = health.New(p.getName()+\"_live_probe\", *p.procConf.LivenessProbe, p.onLivenessCheckEnd)",
  "if err != nil {",
  "p.logBuffer.Write(\"Error: \" + err.Error())",
  "}",
  "}",
  "if p.procConf.ReadinessProbe != nil {",
  "p.readyProber, err = health.New(p.getName()+\"_ready_probe\", *p.procConf.ReadinessProbe, p.onReadinessCheckEnd)",
  "if err != nil {",
  "p.logBuffer.Write(\"Error: \" + err.Error())",
  "}",
  "}",
  "}"]

/-- src/app/process.go:Process.shutDown -/
def app_process__Process_shutDown : List String := [
  "func (p *Process) shutDown() error {",
  "return p.stopProcess(true)",
  "}"]

/-- src/app/process.go:Process.shutDownNoRestart -/
def app_process__Process_shutDownNoRestart : List String := [
  "func (p *Process) shutDownNoRestart() error {",
  "p.prepareForShutDown()",
  "return p.shutDown()",
  "}"]

/-- src/app/process.go:Process.startProbes -/
def app_process__Process_startProbes : List String := [
  "func (p *Process) startProbes() {",
  "if p.liveProber != nil {",
  "p.liveProber.Start()",
  "}",
  "if p.readyProber != nil {",
  "p.readyProber.Start()",
  "}",
  "}"]

/-- src/app/process.go:Process.stopProbes -/
def app_process__Process_stopProbes : List String := [
  "func (p *Process) stopProbes() {",
  "if p.liveProber != nil {",
  "p.liveProber.Stop()",
  "}",
  "if p.readyProber != nil {",
  "p.readyProber.Stop()",
  "}",
  "}"]

/-- src/app/process.go:Process.stopProcess -/
def app_process__Process_stopProcess : List String := [
  "func (p *Process) stopProcess(cancelReadinessFuncs bool) error {",
  "if cancelReadinessFuncs {",
  "p.runCancelFn()",
  "}",
  "if !p.isRunning() {",
  "if p.isOneOfStates(types.ProcessStatePending) {",
  "p.onProcessEnd(types.ProcessStateTerminating)",
  "}",
  "return nil",
  "}",
  "p.setState(types.ProcessStateTerminating)",
  "p.stopProbes()",
  "if cancelReadinessFuncs {",
  "if p.readyProber != nil {",
  "p.readyCancelFn()",
  "}",
  "p.readyLogCancelFn(fmt.Errorf(\"process %s was shut down\", p.getName()))",
  "}",
  "if p.command == nil {",
  "return nil",
  "}",
  "if isStringDefined(p.procConf.ShutDownParams.ShutDownCommand) {",
  "return p.doConfiguredStop(p.procConf.ShutDownParams)",
  "}",
  "err := p.command.Stop(p.procConf.ShutDownParams.Signal, p.procConf.ShutDownParams.ParentOnly)",
  "if err != nil {",
  "}",
  "if p.procConf.ShutDownParams.ShutDownTimeout != UndefinedShutdownTimeoutSec {",
  "return p.forceKillOnTimeout()",
  "}",
  "return err",
  "}"]

/-- src/app/process.go:Process.updateProcState -/
def app_process__Process_updateProcState : List String := [
  "func (p *Process) updateProcState() {",
  "isRunning := p.isRunning()",
  "p.stateMtx.Lock()",
  "defer p.stateMtx.Unlock()",
  "if isRunning {",
  "dur := time.Since(p.getStartTime())",
  "p.procState.SystemTime = HumanDuration(dur)",
  "p.procState.Age = dur",
  "p.procState.Name = p.getName()",
  "p.procState.Mem, p.procState.CPU = p.getResourceUsage()",
  "}",
  "p.procState.IsRunning = isRunning",
  "p.procState.IsElevated = p.procConf.IsElevated",
  "p.procState.PasswordProvided = p.passProvided",
  "}"]

/-- src/app/process.go:Process.validateProcess -/
def app_process__Process_validateProcess : List String := [
  "func (p *Process) validateProcess() error {",
  "if isStringDefined(p.procConf.WorkingDir) {",
  "stat, err := os.Stat(p.procConf.WorkingDir)",
  "if err != nil {",
  "return err",
  "}",
  "if !stat.IsDir() {",
  "return fmt.Errorf(\"%s is not a directory\", p.procConf.WorkingDir)",
  "}",
  "}",
  "return nil",
  "}"]

/-- src/app/process.go:Process.waitForCompletion -/
def app_process__Process_waitForCompletion : List String := [
  "func (p *Process) waitForCompletion() int {",
  "p.Lock()",
  "defer p.Unlock()",
  "for !p.done {",
  "p.procCond.Wait()",
  "}",
  "return p.getExitCode()",
  "}"]

/-- src/app/process.go:Process.waitForStarted -/
def app_process__Process_waitForStarted : List String := [
  "func (p *Process) waitForStarted() {",
  "select {",
  "case <-p.procStartedChan:",
  "case <-p.procRunCtx.Done():",
  "}",
  "}"]

/-- src/app/process.go:Process.waitForStdOutErr -/
def app_process__Process_waitForStdOutErr : List String := [
  "func (p *Process) waitForStdOutErr() {",
  "ctx, cancel := context.WithCancel(context.Background())",
  "if p.procConf.IsDaemon {",
  "ctx, cancel = context.WithTimeout(context.Background(), time.Duration(p.procConf.LaunchTimeout)*time.Second)",
  "}",
  "defer cancel()",
  "if p.stdOutDone != nil {",
  "select {",
  "case <-ctx.Done():",
  "return",
  "case <-p.stdOutDone:",
  "}",
  "p.stdOutDone = nil",
  "}",
  "if p.stdErrDone != nil {",
  "select {",
  "case <-ctx.Done():",
  "return",
  "case <-p.stdErrDone:",
  "}",
  "p.stdErrDone = nil",
  "}",
  "}"]

/-- src/app/process.go:Process.waitUntilLogReady -/
def app_process__Process_waitUntilLogReady : List String := [
  "func (p *Process) waitUntilLogReady() bool {",
  "<-p.procLogReadyCtx.Done()",
  "err := context.Cause(p.procLogReadyCtx)",
  "if errors.Is(err, context.Canceled) {",
  "return true",
  "}",
  "return false",
  "}"]

/-- src/app/process.go:Process.waitUntilReady -/
def app_process__Process_waitUntilReady : List String := [
  "func (p *Process) waitUntilReady() bool {",
  "<-p.procReadyCtx.Done()",
  "if p.getHealth() == types.ProcessHealthReady {",
  "return true",
  "}",
  "return false",
  "}"]

/-- src/app/process.go:Process.wontRun -/
def app_process__Process_wontRun : List String := [
  "func (p *Process) wontRun() {",
  "p.onProcessEnd(types.ProcessStateSkipped)",
  "}"]

/-- src/app/project_opts.go:ProjectOpts.WithDotEnvDisabled -/
def app_project_opts__ProjectOpts_WithDotEnvDisabled : List String := [
  "func (p *ProjectOpts) WithDotEnvDisabled(disabled bool) {",
  "p.disableDotenv = disabled",
  "}"]

/-- src/app/project_opts.go:ProjectOpts.WithIsTuiOn -/
def app_project_opts__ProjectOpts_WithIsTuiOn : List String := [
  "func (p *ProjectOpts) WithIsTuiOn(isTuiOn bool) *ProjectOpts {",
  "p.isTuiOn = isTuiOn",
  "return p",
  "}"]

/-- src/app/project_opts.go:ProjectOpts.WithMainProcess -/
def app_project_opts__ProjectOpts_WithMainProcess : List String := [
  "func (p *ProjectOpts) WithMainProcess(mainProcess string) *ProjectOpts {",
  "p.mainProcess = mainProcess",
  "return p",
  "}"]

/-- src/app/project_opts.go:ProjectOpts.WithMainProcessArgs -/
def app_project_opts__ProjectOpts_WithMainProcessArgs : List String := [
  "func (p *ProjectOpts) WithMainProcessArgs(mainProcessArgs []string) *ProjectOpts {",
  "p.mainProcessArgs = mainProcessArgs",
  "return p",
  "}"]

/-- src/app/project_opts.go:ProjectOpts.WithNoDeps -/
def app_project_opts__ProjectOpts_WithNoDeps : List String := [
  "func (p *ProjectOpts) WithNoDeps(noDeps bool) *ProjectOpts {",
  "p.noDeps = noDeps",
  "return p",
  "}"]

/-- src/app/project_opts.go:ProjectOpts.WithOrderedShutDown -/
def app_project_opts__ProjectOpts_WithOrderedShutDown : List String := [
  "func (p *ProjectOpts) WithOrderedShutDown(isOrderedShutDown bool) *ProjectOpts {",
  "p.isOrderedShutDown = isOrderedShutDown",
  "return p",
  "}"]

/-- src/app/project_opts.go:ProjectOpts.WithProcessesToRun -/
def app_project_opts__ProjectOpts_WithProcessesToRun : List String := [
  "func (p *ProjectOpts) WithProcessesToRun(processesToRun []string) *ProjectOpts {",
  "p.processesToRun = processesToRun",
  "return p",
  "}"]

/-- src/app/project_opts.go:ProjectOpts.WithProject -/
def app_project_opts__ProjectOpts_WithProject : List String := [
  "func (p *ProjectOpts) WithProject(project *types.Project) *ProjectOpts {",
  "p.project = project",
  "return p",
  "}"]

/-- src/app/project_opts.go: its functions -/
def app_project_opts__names : List String := [
  "ProjectOpts.WithProject",
  "ProjectOpts.WithProcessesToRun",
  "ProjectOpts.WithNoDeps",
  "ProjectOpts.WithMainProcess",
  "ProjectOpts.WithMainProcessArgs",
  "ProjectOpts.WithIsTuiOn",
  "ProjectOpts.WithOrderedShutDown",
  "ProjectOpts.WithDotEnvDisabled"]

/-- src/app/project_runner.go:ProjectRunner.GetLexicographicProcessNames -/
def app_project_runner__ProjectRunner_GetLexicographicProcessNames : List String := [
  "func (p *ProjectRunner) GetLexicographicProcessNames() ([]string, error) {",
  "return p.project.GetLexicographicProcessNames()",
  "}"]

/-- src/app/project_runner.go:ProjectRunner.GetLogsAndSubscribe -/
def app_project_runner__ProjectRunner_GetLogsAndSubscribe : List String := [
  "func (p *ProjectRunner) GetLogsAndSubscribe(name string, observer pclog.LogObserver) error {",
  "logs, err := p.getProcessLog(name)",
  "if err != nil {",
  "return err",
  "}",
  "logs.GetLogsAndSubscribe(observer)",
  "return nil",
  "}"]

/-- src/app/project_runner.go:ProjectRunner.GetProcessInfo -/
def app_project_runner__ProjectRunner_GetProcessInfo : List String := [
  "func (p *ProjectRunner) GetProcessInfo(name string) (*types.ProcessConfig, error) {",
  "p.runProcMutex.Lock()",
  "defer p.runProcMutex.Unlock()",
  "if processConfig, ok := p.project.Processes[name]; ok {",
  "return &processConfig, nil",
  "} else {",
  "return nil, fmt.Errorf(\"no such process: %s\", name)",
  "}",
  "}"]

/-- src/app/project_runner.go:ProjectRunner.GetProcessLog -/
def app_project_runner__ProjectRunner_GetProcessLog : List String := [
  "func (p *ProjectRunner) GetProcessLog(name string, offsetFromEnd, limit int) ([]string, error) {",
  "logs, err := p.getProcessLog(name)",
  "if err != nil {",
  "return nil, err",
  "}",
  "return logs.GetLogRange(offsetFromEnd, limit), nil",
  "}"]

/-- src/app/project_runner.go:ProjectRunner.GetProcessLogLength -/
def app_project_runner__ProjectRunner_GetProcessLogLength : List String := [
  "func (p *ProjectRunner) GetProcessLogLength(name string) int {",
  "logs, err := p.getProcessLog(name)",
  "if err != nil {",
  "return 0",
  "}",
  "return logs.GetLogLength()",
  "}"]

/-- src/app/project_runner.go:ProjectRunner.GetProcessPorts -/
def app_project_runner__ProjectRunner_GetProcessPorts : List String := [
  "func (p *ProjectRunner) GetProcessPorts(name string) (*types.ProcessPorts, error) {",
  "proc := p.getRunningProcess(name)",
  "if proc == nil {",
  "return nil, fmt.Errorf(\"can't get ports: process %s is not running\", name)",
  "}",
  "ports := &types.ProcessPorts{Name: name, TcpPorts: make([]uint16, 0), UdpPorts: make([]uint16, 0)}",
  "err := proc.getOpenPorts(ports)",
  "if err != nil {",
  "return nil, err",
  "}",
  "return ports, nil",
  "}"]

/-- src/app/project_runner.go:ProjectRunner.GetProcessState -/
def app_project_runner__ProjectRunner_GetProcessState : List String := [
  "func (p *ProjectRunner) GetProcessState(name string) (*types.ProcessState, error) {",
  "proc := p.getRunningProcess(name)",
  "if proc != nil {",
  "return proc.getState(), nil",
  "} else {",
  "p.statesMutex.Lock()",
  "defer p.statesMutex.Unlock()",
  "state, ok := p.processStates[name]",
  "if !ok {",
  "return nil, fmt.Errorf(\"can't get state of process %s: no such process\", name)",
  "}",
  "return state, nil",
  "}",
  "}"]

/-- src/app/project_runner.go:ProjectRunner.GetProcessesState -/
def app_project_runner__ProjectRunner_GetProcessesState : List String := [
  "func (p *ProjectRunner) GetProcessesState() (*types.ProcessesState, error) {",
  "states := &types.ProcessesState{States: make([]types.ProcessState, 0)}",
  "for name := range p.project.Processes {",
  "state, err := p.getProcessStateSnapshot(name)",
  "if err != nil {",
  "return nil, err",
  "}",
  "states.States = append(states.States, state)",
  "}",
  "return states, nil",
  "}"]

/-- src/app/project_runner.go:ProjectRunner.GetProjectState -/
def app_project_runner__ProjectRunner_GetProjectState : List String := [
  "func (p *ProjectRunner) GetProjectState(checkMem bool) (*types.ProjectState, error) {",
  "runningProcesses := 0",
  "for name := range p.project.Processes {",
  "state, err := p.getProcessStateSnapshot(name)",
  "if err != nil {",
  "return nil, err",
  "}",
  "if state.IsRunning {",
  "runningProcesses++",
  "}",
  "}",
  "state := *p.projectState",
  "state.RunningProcessNum = runningProcesses",
  "state.UpTime = time.Since(state.StartTime)",
  "if checkMem {",
  "state.MemoryState = getMemoryUsage()",
  "}",
  "return &state, nil",
  "}"]

/-- src/app/project_runner.go:ProjectRunner.RestartProcess -/
def app_project_runner__ProjectRunner_RestartProcess : List String := [
  "func (p *ProjectRunner) RestartProcess(name string) error {",
  "proc := p.getRunningProcess(name)",
  "if proc != nil {",
  "err := proc.shutDownNoRestart()",
  "if err != nil {",
  "return err",
  "}",
  "time.Sleep(proc.getBackoff())",
  "}",
  "if processConfig, ok := p.project.Processes[name]; ok {",
  "p.runProcess(&processConfig)",
  "} else {",
  "return fmt.Errorf(\"no such process: %s\", name)",
  "}",
  "return nil",
  "}"]

/-- src/app/project_runner.go:ProjectRunner.Run -/
def app_project_runner__ProjectRunner_Run : List String := [
  "func (p *ProjectRunner) Run() error {",
  "p.runProcMutex.Lock()",
  "p.runningProcesses = make(map[string]*Process)",
  "p.runProcMutex.Unlock()",
  "p.doneProcMutex.Lock()",
  "p.doneProcesses = make(map[string]*Process)",
  "p.doneProcMutex.Unlock()",
  "runOrder := []types.ProcessConfig{}",
  "err := p.project.WithProcesses([]string{}, func(process types.ProcessConfig) error {",
  "if process.IsDeferred() {",
  "return nil",
  "}",
  "runOrder = append(runOrder, process)",
  "return nil",
  "})",
  "if err != nil {",
  "return fmt.Errorf(\"failed to build project run order: %e\", err)",
  "}",
  "var nameOrder []string",
  "for _, v := range runOrder {",
  "nameOrder = append(nameOrder, v.ReplicaName)",
  "}",
  "p.logger = pclog.NewNilLogger()",
  "if isStringDefined(p.project.LogLocation) {",
  "p.logger = pclog.NewLogger()",
  "p.logger.Open(p.project.LogLocation, p.project.LoggerConfig)",
  "defer p.logger.Close()",
  "}",
  "p.prepareEnvCmds()",
  "for _, proc := range runOrder {",
  "newConf := proc",
  "p.runProcess(&newConf)",
  "}",
  "p.waitGroup.Wait()",
  "if p.exitCode != 0 {",
  "err = &ExitError{p.exitCode}",
  "}",
  "return err",
  "}"]

/-- src/app/project_runner.go:ProjectRunner.ScaleProcess -/
def app_project_runner__ProjectRunner_ScaleProcess : List String := [
  "func (p *ProjectRunner) ScaleProcess(name string, scale int) error {",
  "if scale < 1 {",
  "err := fmt.Errorf(\"cannot scale process %s to a negative or zero value %d\", name, scale)",
  "return err",
  "}",
  "if processConfig, ok := p.project.Processes[name]; ok {",
  "origScale := p.getCurrentReplicaCount(processConfig.Name)",
  "scaleDelta := scale - origScale",
  "if scaleDelta < 0 {",
  "p.scaleDownProcess(processConfig.Name, scale)",
  "} else if scaleDelta > 0 {",
  "p.scaleUpProcess(processConfig, scaleDelta, scale, origScale)",
  "} else {",
  "return nil",
  "}",
  "p.updateReplicaCount(processConfig.Name, scale)",
  "} else {",
  "return fmt.Errorf(\"no such process: %s\", name)",
  "}",
  "return nil",
  "}"]

/-- src/app/project_runner.go:ProjectRunner.ShutDownProject -/
def app_project_runner__ProjectRunner_ShutDownProject : List String := [
  "func (p *ProjectRunner) ShutDownProject() error {",
  "p.runProcMutex.Lock()",
  "defer p.runProcMutex.Unlock()",
  "shutdownOrder := []*Process{}",
  "if p.isOrderedShutDown {",
  "err := p.project.WithProcesses([]string{}, func(process types.ProcessConfig) error {",
  "if runningProc, ok := p.runningProcesses[process.ReplicaName]; ok {",
  "shutdownOrder = append(shutdownOrder, runningProc)",
  "}",
  "return nil",
  "})",
  "if err != nil {",
  "}",
  "slices.Reverse(shutdownOrder)",
  "} else {",
  "for _, proc := range p.runningProcesses {",
  "shutdownOrder = append(shutdownOrder, proc)",
  "}",
  "}",
  "var nameOrder []string",
  "for _, v := range shutdownOrder {",
  "nameOrder = append(nameOrder, v.getName())",
  "}",
  "for _, proc := range shutdownOrder {",
  "proc.prepareForShutDown()",
  "}",
  "p.shutDownAndWait(shutdownOrder)",
  "p.cancelAppFn()",
  "return nil",
  "}"]

/-- src/app/project_runner.go:ProjectRunner.StartProcess -/
def app_project_runner__ProjectRunner_StartProcess : List String := [
  "func (p *ProjectRunner) StartProcess(name string) error {",
  "proc := p.getRunningProcess(name)",
  "if proc != nil {",
  "return fmt.Errorf(\"process %s is already running\", name)",
  "}",
  "if processConfig, ok := p.project.Processes[name]; ok {",
  "p.runProcess(&processConfig)",
  "} else {",
  "return fmt.Errorf(\"no such process: %s\", name)",
  "}",
  "return nil",
  "}"]

/-- src/app/project_runner.go:ProjectRunner.StopProcess -/
def app_project_runner__ProjectRunner_StopProcess : List String := [
  "func (p *ProjectRunner) StopProcess(name string) error {",
  "proc := p.getRunningProcess(name)",
  "if proc == nil {",
  "if _, ok := p.project.Processes[name]; !ok {",
  "return fmt.Errorf(\"process %s does not exist\", name)",
  "}",
  "return fmt.Errorf(\"process %s is not running\", name)",
  "}",
  "err := proc.shutDownNoRestart()",
  "if err != nil {",
  "}",
  "return err",
  "}"]

/-- src/app/project_runner.go:ProjectRunner.StopProcesses -/
def app_project_runner__ProjectRunner_StopProcesses : List String := [
  "func (p *ProjectRunner) StopProcesses(names []string) (map[string]string, error) {",
  "stopped := make(map[string]string)",
  "successes := 0",
  "for _, name := range names {",
  "if err := p.StopProcess(name); err == nil {",
  "stopped[name] = \"ok\"",
  "successes++",
  "} else {",
  "stopped[name] = err.Error()",
  "}",
  "}",
  "if successes != len(names) {",
  "if successes == 0 {",
  "return stopped, fmt.Errorf(\"no such processes or not running: %v\", names)",
  "}",
  "return stopped, errors.New(\"failed to stop some processes\")",
  "}",
  "return stopped, nil",
  "}"]

/-- src/app/project_runner.go:ProjectRunner.UnSubscribeLogger -/
def app_project_runner__ProjectRunner_UnSubscribeLogger : List String := [
  "func (p *ProjectRunner) UnSubscribeLogger(name string, observer pclog.LogObserver) error {",
  "logs, err := p.getProcessLog(name)",
  "if err != nil {",
  "return err",
  "}",
  "logs.UnSubscribe(observer)",
  "return nil",
  "}"]

/-- src/app/project_runner.go:ProjectRunner.UpdateProcess -/
def app_project_runner__ProjectRunner_UpdateProcess : List String := [
  "func (p *ProjectRunner) UpdateProcess(updated *types.ProcessConfig) error {",
  "isScaleChanged := false",
  "validateProbes(updated.LivenessProbe)",
  "validateProbes(updated.ReadinessProbe)",
  "updated.AssignProcessExecutableAndArgs(p.project.ShellConfig, p.project.ShellConfig.ElevatedShellArg)",
  "if currentProc, ok := p.project.Processes[updated.ReplicaName]; ok {",
  "equal := currentProc.Compare(updated)",
  "if equal {",
  "return nil",
  "}",
  "if currentProc.Replicas != updated.Replicas {",
  "isScaleChanged = true",
  "}",
  "} else {",
  "err := fmt.Errorf(\"no such process: %s\", updated.ReplicaName)",
  "return err",
  "}",
  "err := p.removeProcess(updated.ReplicaName)",
  "if err != nil {",
  "return err",
  "}",
  "p.addProcessAndRun(*updated)",
  "if isScaleChanged {",
  "err = p.ScaleProcess(updated.ReplicaName, updated.Replicas)",
  "if err != nil {",
  "return err",
  "}",
  "}",
  "return nil",
  "}"]

/-- src/app/project_runner.go:ProjectRunner.UpdateProject -/
def app_project_runner__ProjectRunner_UpdateProject : List String := [
  "func (p *ProjectRunner) UpdateProject(project *types.Project) (map[string]string, error) {",
  "newProcs := make(map[string]types.ProcessConfig)",
  "delProcs := make(map[string]types.ProcessConfig)",
  "updatedProcs := make(map[string]types.ProcessConfig)",
  "for name, newProc := range project.Processes {",
  "if currentProc, ok := p.project.Processes[name]; ok {",
  "equal := currentProc.Compare(&newProc)",
  "if equal {",
  "continue",
  "}",
  "updatedProcs[name] = newProc",
  "} else {",
  "newProcs[name] = newProc",
  "}",
  "}",
  "for name, currentProc := range p.project.Processes {",
  "if _, ok := project.Processes[name]; !ok {",
  "delProcs[name] = currentProc",
  "}",
  "}",
  "status := make(map[string]string)",
  "errs := make([]error, 0)",
  "for name := range delProcs {",
  "err := p.removeProcess(name)",
  "if err != nil {",
  "errs = append(errs, err)",
  "status[name] = types.ProcessUpdateError",
  "continue",
  "}",
  "status[name] = types.ProcessUpdateRemoved",
  "}",
  "for name, proc := range newProcs {",
  "p.addProcessAndRun(proc)",
  "status[name] = types.ProcessUpdateAdded",
  "}",
  "for name, proc := range updatedProcs {",
  "err := p.UpdateProcess(&proc)",
  "if err != nil {",
  "errs = append(errs, err)",
  "status[name] = types.ProcessUpdateError",
  "continue",
  "}",
  "status[name] = types.ProcessUpdateUpdated",
  "}",
  "return status, errors.Join(errs...)",
  "}"]

/-- src/app/project_runner.go:ProjectRunner.WaitForProjectShutdown -/
def app_project_runner__ProjectRunner_WaitForProjectShutdown : List String := [
  "func (p *ProjectRunner) WaitForProjectShutdown() {",
  "if p.ctxApp != nil {",
  "if !p.isTuiOn {",
  "fmt.Println(\"Project Completed. Press Ctrl+C to quit\")",
  "}",
  "<-p.ctxApp.Done()",
  "}",
  "}"]

/-- src/app/project_runner.go:ProjectRunner.addDoneProcess -/
def app_project_runner__ProjectRunner_addDoneProcess : List String := [
  "func (p *ProjectRunner) addDoneProcess(process *Process) {",
  "p.doneProcMutex.Lock()",
  "p.doneProcesses[process.getName()] = process",
  "p.doneProcMutex.Unlock()",
  "}"]

/-- src/app/project_runner.go:ProjectRunner.addProcessAndRun -/
def app_project_runner__ProjectRunner_addProcessAndRun : List String := [
  "func (p *ProjectRunner) addProcessAndRun(proc types.ProcessConfig) {",
  "p.statesMutex.Lock()",
  "p.processStates[proc.ReplicaName] = types.NewProcessState(&proc)",
  "p.statesMutex.Unlock()",
  "p.project.Processes[proc.ReplicaName] = proc",
  "p.initProcessLog(proc.ReplicaName)",
  "if !proc.IsDeferred() {",
  "p.runProcess(&proc)",
  "}",
  "}"]

/-- src/app/project_runner.go:ProjectRunner.addRunningProcess -/
def app_project_runner__ProjectRunner_addRunningProcess : List String := [
  "func (p *ProjectRunner) addRunningProcess(process *Process) {",
  "p.runProcMutex.Lock()",
  "p.runningProcesses[process.getName()] = process",
  "p.runProcMutex.Unlock()",
  "}"]

/-- src/app/project_runner.go:ProjectRunner.getCurrentReplicaCount -/
def app_project_runner__ProjectRunner_getCurrentReplicaCount : List String := [
  "func (p *ProjectRunner) getCurrentReplicaCount(name string) int {",
  "counter := 0",
  "for _, proc := range p.project.Processes {",
  "if proc.Name == name {",
  "counter++",
  "}",
  "}",
  "return counter",
  "}"]

/-- src/app/project_runner.go:ProjectRunner.getDoneOrRunningProcess -/
def app_project_runner__ProjectRunner_getDoneOrRunningProcess : List String := [
  "func (p *ProjectRunner) getDoneOrRunningProcess(name string) *Process {",
  "if doneProc := p.getDoneProcess(name); doneProc != nil {",
  "return doneProc",
  "}",
  "return p.getRunningProcess(name)",
  "}"]

/-- src/app/project_runner.go:ProjectRunner.getDoneProcess -/
def app_project_runner__ProjectRunner_getDoneProcess : List String := [
  "func (p *ProjectRunner) getDoneProcess(name string) *Process {",
  "p.doneProcMutex.Lock()",
  "defer p.doneProcMutex.Unlock()",
  "if doneProc, ok := p.doneProcesses[name]; ok {",
  "return doneProc",
  "}",
  "return nil",
  "}"]

/-- src/app/project_runner.go:ProjectRunner.getProcessLog -/
def app_project_runner__ProjectRunner_getProcessLog : List String := [
  "func (p *ProjectRunner) getProcessLog(name string) (*pclog.ProcessLogBuffer, error) {",
  "p.logsMutex.Lock()",
  "procLogs, ok := p.processLogs[name]",
  "p.logsMutex.Unlock()",
  "if ok {",
  "return procLogs, nil",
  "}",
  "return nil, fmt.Errorf(\"process %s doesn't exist\", name)",
  "}"]

/-- src/app/project_runner.go:ProjectRunner.getProcessStateData -/
def app_project_runner__ProjectRunner_getProcessStateData : List String := [
  "func (p *ProjectRunner) getProcessStateData(name string, filter filterFn) error {",
  "proc := p.getRunningProcess(name)",
  "if proc != nil {",
  "proc.getStateData(filter)",
  "} else {",
  "p.statesMutex.Lock()",
  "defer p.statesMutex.Unlock()",
  "state, ok := p.processStates[name]",
  "if !ok {",
  "return fmt.Errorf(\"can't get state of process %s: no such process\", name)",
  "}",
  "filter(state)",
  "return nil",
  "}",
  "return nil",
  "}"]

/-- src/app/project_runner.go:ProjectRunner.getProcessStateSnapshot -/
def app_project_runner__ProjectRunner_getProcessStateSnapshot : List String := [
  "func (p *ProjectRunner) getProcessStateSnapshot(name string) (types.ProcessState, error) {",
  "proc := p.getRunningProcess(name)",
  "if proc != nil {",
  "return proc.getStateSnapshot(), nil",
  "}",
  "p.statesMutex.Lock()",
  "defer p.statesMutex.Unlock()",
  "state, ok := p.processStates[name]",
  "if !ok {",
  "return types.ProcessState{}, fmt.Errorf(\"can't get state of process %s: no such process\", name)",
  "}",
  "return *state, nil",
  "}"]

/-- src/app/project_runner.go:ProjectRunner.getProcessesStateData -/
def app_project_runner__ProjectRunner_getProcessesStateData : List String := [
  "func (p *ProjectRunner) getProcessesStateData(filter filterFn) error {",
  "for name := range p.project.Processes {",
  "err := p.getProcessStateData(name, filter)",
  "if err != nil {",
  "return err",
  "}",
  "}",
  "return nil",
  "}"]

/-- src/app/project_runner.go:ProjectRunner.getRunningProcess -/
def app_project_runner__ProjectRunner_getRunningProcess : List String := [
  "func (p *ProjectRunner) getRunningProcess(name string) *Process {",
  "p.runProcMutex.Lock()",
  "defer p.runProcMutex.Unlock()",
  "if runningProc, ok := p.runningProcesses[name]; ok {",
  "return runningProc",
  "}",
  "return nil",
  "}"]

/-- src/app/project_runner.go:ProjectRunner.init -/
def app_project_runner__ProjectRunner_init : List String := [
  "func (p *ProjectRunner) init() {",
  "p.initProcessStates()",
  "p.initProcessLogs()",
  "}"]

/-- src/app/project_runner.go:ProjectRunner.initProcessLog -/
def app_project_runner__ProjectRunner_initProcessLog : List String := [
  "func (p *ProjectRunner) initProcessLog(name string) {",
  "p.logsMutex.Lock()",
  "defer p.logsMutex.Unlock()",
  "p.processLogs[name] = pclog.NewLogBuffer(p.project.LogLength)",
  "}"]

/-- src/app/project_runner.go:ProjectRunner.initProcessLogs -/
def app_project_runner__ProjectRunner_initProcessLogs : List String := [
  "func (p *ProjectRunner) initProcessLogs() {",
  "p.processLogs = make(map[string]*pclog.ProcessLogBuffer)",
  "for _, proc := range p.project.Processes {",
  "p.initProcessLog(proc.ReplicaName)",
  "}",
  "}"]

/-- src/app/project_runner.go:ProjectRunner.initProcessStates -/
def app_project_runner__ProjectRunner_initProcessStates : List String := [
  "func (p *ProjectRunner) initProcessStates() {",
  "p.statesMutex.Lock()",
  "defer p.statesMutex.Unlock()",
  "p.processStates = make(map[string]*types.ProcessState)",
  "for name, proc := range p.project.Processes {",
  "p.processStates[name] = types.NewProcessState(&proc)",
  "}",
  "}"]

/-- src/app/project_runner.go:ProjectRunner.onProcessEnd -/
def app_project_runner__ProjectRunner_onProcessEnd : List String := [
  "func (p *ProjectRunner) onProcessEnd(exitCode int, procConf *types.ProcessConfig) {",
  "if (exitCode != 0 && procConf.RestartPolicy.Restart == types.RestartPolicyExitOnFailure) || procConf.RestartPolicy.ExitOnEnd {",
  "p.exitCodeOnce.Do(func() {",
  "p.exitCode = exitCode",
  "})",
  "_ = p.ShutDownProject()",
  "}",
  "}"]

/-- src/app/project_runner.go:ProjectRunner.onProcessSkipped -/
def app_project_runner__ProjectRunner_onProcessSkipped : List String := [
  "func (p *ProjectRunner) onProcessSkipped(procConf *types.ProcessConfig) {",
  "if procConf.RestartPolicy.ExitOnSkipped {",
  "p.exitCodeOnce.Do(func() {",
  "p.exitCode = 1",
  "})",
  "_ = p.ShutDownProject()",
  "}",
  "}"]

/-- src/app/project_runner.go:ProjectRunner.prepareEnvCmds -/
def app_project_runner__ProjectRunner_prepareEnvCmds : List String := [
  "func (p *ProjectRunner) prepareEnvCmds() {",
  "for env, cmd := range p.project.EnvCommands {",
  "output, err := runCmd(cmd)",
  "if err != nil {",
  "continue",
  "}",
  "if p.project.Environment == nil {",
  "p.project.Environment = make(types.Environment, 0)",
  "}",
  "p.project.Environment = append(p.project.Environment, fmt.Sprintf(\"%s=%s\", env, output))",
  "}",
  "}"]

/-- src/app/project_runner.go:ProjectRunner.removeProcess -/
def app_project_runner__ProjectRunner_removeProcess : List String := [
  "func (p *ProjectRunner) removeProcess(name string) error {",
  "p.removeProcessLogs(name)",
  "p.procConfMutex.Lock()",
  "delete(p.project.Processes, name)",
  "p.procConfMutex.Unlock()",
  "running := p.getRunningProcess(name)",
  "if running != nil {",
  "err := running.shutDownNoRestart()",
  "if err != nil {",
  "return err",
  "} else {",
  "running.waitForCompletion()",
  "p.removeRunningProcess(running)",
  "}",
  "}",
  "p.statesMutex.Lock()",
  "delete(p.processStates, name)",
  "p.statesMutex.Unlock()",
  "return nil",
  "}"]

/-- src/app/project_runner.go:ProjectRunner.removeProcessLogs -/
def app_project_runner__ProjectRunner_removeProcessLogs : List String := [
  "func (p *ProjectRunner) removeProcessLogs(name string) *pclog.ProcessLogBuffer {",
  "p.logsMutex.Lock()",
  "defer p.logsMutex.Unlock()",
  "logs, ok := p.processLogs[name]",
  "if ok {",
  "logs.Close()",
  "delete(p.processLogs, name)",
  "}",
  "return logs",
  "}"]

/-- src/app/project_runner.go:ProjectRunner.removeRunningProcess -/
def app_project_runner__ProjectRunner_removeRunningProcess : List String := [
  "func (p *ProjectRunner) removeRunningProcess(process *Process) {",
  "p.runProcMutex.Lock()",
  "if p.runningProcesses[process.getName()] == process {",
  "delete(p.runningProcesses, process.getName())",
  "}",
  "p.runProcMutex.Unlock()",
  "}"]

/-- src/app/project_runner.go:ProjectRunner.renameProcess -/
def app_project_runner__ProjectRunner_renameProcess : List String := [
  "func (p *ProjectRunner) renameProcess(name string, newName string) {",
  "process := p.getRunningProcess(name)",
  "if process != nil {",
  "p.removeRunningProcess(process)",
  "process.setName(newName)",
  "p.addRunningProcess(process)",
  "}",
  "logs := p.removeProcessLogs(name)",
  "if logs != nil {",
  "p.logsMutex.Lock()",
  "p.processLogs[newName] = logs",
  "p.logsMutex.Unlock()",
  "}",
  "p.statesMutex.Lock()",
  "if state, ok := p.processStates[name]; ok {",
  "delete(p.processStates, name)",
  "state.Name = newName",
  "p.processStates[newName] = state",
  "}",
  "p.statesMutex.Unlock()",
  "procConf, ok := p.project.Processes[name]",
  "if ok {",
  "delete(p.project.Processes, name)",
  "procConf.ReplicaName = newName",
  "p.project.Processes[newName] = procConf",
  "}",
  "}"]

/-- src/app/project_runner.go:ProjectRunner.runProcess -/
def app_project_runner__ProjectRunner_runProcess : List String := [
  "func (p *ProjectRunner) runProcess(config *types.ProcessConfig) {",
  "procLogger := p.logger",
  "if isStringDefined(config.LogLocation) {",
  "procLogger = pclog.NewLogger()",
  "}",
  "procLog, err := p.getProcessLog(config.ReplicaName)",
  "if err != nil {",
  "procLog = pclog.NewLogBuffer(0)",
  "}",
  "procState, _ := p.GetProcessState(config.ReplicaName)",
  "replicaName := config.ReplicaName",
  "isMain := config.Name == p.mainProcess",
  "hasMain := p.mainProcess != \"\"",
  "printLogs := !hasMain && !p.isTuiOn",
  "extraArgs := []string{}",
  "if isMain {",
  "extraArgs = p.mainProcessArgs",
  "config.RestartPolicy.ExitOnEnd = true",
  "}",
  "process := NewProcess(withTuiOn(p.isTuiOn), withGlobalEnv(p.project.Environment), withLogger(procLogger), withProcConf(config), withProcState(procState), withProcLog(procLog), withShellConfig(*p.project.ShellConfig), withPrintLogs(printLogs), withIsMain(isMain), withExtraArgs(extraArgs))",
  "process.setState(types.ProcessStatePending)",
  "p.addRunningProcess(process)",
  "p.removeDoneProcess(replicaName)",
  "p.waitGroup.Add(1)",
  "go func(proc *Process) {",
  "defer p.removeRunningProcess(proc)",
  "defer p.waitGroup.Done()",
  "if err = p.waitIfNeeded(proc.procConf); err != nil {",
  "p.addDoneProcess(proc)",
  "proc.wontRun()",
  "p.onProcessSkipped(proc.procConf)",
  "} else {",
  "exitCode := proc.run()",
  "p.addDoneProcess(proc)",
  "p.onProcessEnd(exitCode, proc.procConf)",
  "}",
  "}(process)",
  "}"]

/-- src/app/project_runner.go:ProjectRunner.runningProcessesReverseDependencies -/
def app_project_runner__ProjectRunner_runningProcessesReverseDependencies : List String := [
  "func (p *ProjectRunner) runningProcessesReverseDependencies() map[string]map[string]*Process {",
  "reverseDependencies := make(map[string]map[string]*Process)",
  "for _, process := range p.runningProcesses {",
  "for k := range process.procConf.DependsOn {",
  "if runningProc, ok := p.runningProcesses[k]; ok {",
  "if _, ok := reverseDependencies[runningProc.getName()]; !ok {",
  "reverseDependencies[runningProc.getName()] = make(map[string]*Process)",
  "}",
  "reverseDependencies[runningProc.getName()][process.getName()] = process",
  "} else {",
  "continue",
  "}",
  "}",
  "}",
  "return reverseDependencies",
  "}"]

/-- src/app/project_runner.go:ProjectRunner.scaleDownProcess -/
def app_project_runner__ProjectRunner_scaleDownProcess : List String := [
  "func (p *ProjectRunner) scaleDownProcess(name string, scale int) {",
  "toRemove := []string{}",
  "p.procConfMutex.Lock()",
  "for _, proc := range p.project.Processes {",
  "if proc.Name == name {",
  "if proc.ReplicaNum >= scale {",
  "toRemove = append(toRemove, proc.ReplicaName)",
  "} else {",
  "proc.Replicas = scale",
  "p.project.Processes[proc.ReplicaName] = proc",
  "}",
  "}",
  "}",
  "p.procConfMutex.Unlock()",
  "wg := sync.WaitGroup{}",
  "for _, name := range toRemove {",
  "wg.Add(1)",
  "go func(name string) {",
  "defer wg.Done()",
  "if err := p.removeProcess(name); err != nil {",
  "}",
  "}(name)",
  "}",
  "wg.Wait()",
  "}"]

/-- src/app/project_runner.go:ProjectRunner.scaleUpProcess -/
def app_project_runner__ProjectRunner_scaleUpProcess : List String := [
  "func (p *ProjectRunner) scaleUpProcess(proc types.ProcessConfig, toAdd, scale, origScale int) {",
  "for i := 0; i < toAdd; i++ {",
  "var procFromConf types.ProcessConfig",
  "decoder := json.NewDecoder(strings.NewReader(proc.OriginalConfig))",
  "decoder.UseNumber()",
  "err := decoder.Decode(&procFromConf)",
  "if err != nil {",
  "return",
  "}",
  "for k, v := range procFromConf.Vars {",
  "if n, ok := v.(json.Number); ok {",
  "if i, err := strconv.Atoi(n.String()); err == nil {",
  "procFromConf.Vars[k] = i",
  "} else if strings.ContainsAny(n.String(), \".eE\") {",
  "if f, err := n.Float64(); err == nil {",
  "procFromConf.Vars[k] = f",
  "}",
  "}",
  "}",
  "}",
  "procFromConf.ReplicaNum = origScale + i",
  "procFromConf.Replicas = scale",
  "procFromConf.ReplicaName = procFromConf.CalculateReplicaName()",
  "tpl := templater.New(p.project.Vars)",
  "tpl.RenderProcess(&procFromConf)",
  "procFromConf.AssignProcessExecutableAndArgs(p.project.ShellConfig, p.project.GetElevatedShellArg())",
  "p.addProcessAndRun(procFromConf)",
  "}",
  "}"]

/-- src/app/project_runner.go:ProjectRunner.selectRunningProcesses -/
def app_project_runner__ProjectRunner_selectRunningProcesses : List String := [
  "func (p *ProjectRunner) selectRunningProcesses(procList []string) error {",
  "if len(procList) == 0 {",
  "return nil",
  "}",
  "newProcMap := types.Processes{}",
  "err := p.project.WithProcesses(procList, func(process types.ProcessConfig) error {",
  "if process.IsForeground {",
  "return nil",
  "}",
  "newProcMap[process.ReplicaName] = process",
  "return nil",
  "})",
  "if err != nil {",
  "return err",
  "}",
  "for name, proc := range p.project.Processes {",
  "if _, ok := newProcMap[name]; !ok {",
  "proc.Disabled = true",
  "} else {",
  "proc.Disabled = false",
  "}",
  "p.project.Processes[name] = proc",
  "}",
  "return nil",
  "}"]

/-- src/app/project_runner.go:ProjectRunner.selectRunningProcessesNoDeps -/
def app_project_runner__ProjectRunner_selectRunningProcessesNoDeps : List String := [
  "func (p *ProjectRunner) selectRunningProcessesNoDeps(procList []string) error {",
  "if len(procList) == 0 {",
  "return nil",
  "}",
  "for name, proc := range p.project.Processes {",
  "found := false",
  "for _, procName := range procList {",
  "if proc.Name == procName {",
  "found = true",
  "break",
  "}",
  "}",
  "if !found {",
  "proc.Disabled = true",
  "} else {",
  "proc.DependsOn = types.DependsOnConfig{}",
  "proc.Disabled = false",
  "}",
  "p.project.Processes[name] = proc",
  "}",
  "return nil",
  "}"]

/-- src/app/project_runner.go:ProjectRunner.shutDownAndWait -/
def app_project_runner__ProjectRunner_shutDownAndWait : List String := [
  "func (p *ProjectRunner) shutDownAndWait(shutdownOrder []*Process) {",
  "wg := sync.WaitGroup{}",
  "if p.isOrderedShutDown {",
  "p.shutDownInOrder(&wg, shutdownOrder)",
  "} else {",
  "for _, proc := range shutdownOrder {",
  "err := proc.shutDown()",
  "if err != nil {",
  "continue",
  "}",
  "wg.Add(1)",
  "go func(pr *Process) {",
  "pr.waitForCompletion()",
  "wg.Done()",
  "}(proc)",
  "}",
  "}",
  "wg.Wait()",
  "}"]

/-- src/app/project_runner.go:ProjectRunner.shutDownInOrder -/
def app_project_runner__ProjectRunner_shutDownInOrder : List String := [
  "func (p *ProjectRunner) shutDownInOrder(wg *sync.WaitGroup, shutdownOrder []*Process) {",
  "reverseDependencies := p.runningProcessesReverseDependencies()",
  "for _, process := range shutdownOrder {",
  "wg.Add(1)",
  "go func(proc *Process) {",
  "defer wg.Done()",
  "waitForDepsWg := sync.WaitGroup{}",
  "if revDeps, ok := reverseDependencies[proc.getName()]; ok {",
  "for _, runningProc := range revDeps {",
  "waitForDepsWg.Add(1)",
  "go func(pr *Process) {",
  "pr.waitForCompletion()",
  "waitForDepsWg.Done()",
  "}(runningProc)",
  "}",
  "}",
  "waitForDepsWg.Wait()",
  "err := proc.shutDown()",
  "if err != nil {",
  "return",
  "}",
  "proc.waitForCompletion()",
  "}(process)",
  "}",
  "}"]

/-- src/app/project_runner.go:ProjectRunner.updateReplicaCount -/
def app_project_runner__ProjectRunner_updateReplicaCount : List String := [
  "func (p *ProjectRunner) updateReplicaCount(name string, scale int) {",
  "for _, proc := range p.project.Processes {",
  "if proc.Name == name {",
  "proc.Replicas = scale",
  "p.project.Processes[proc.ReplicaName] = proc",
  "if proc.ReplicaName != proc.CalculateReplicaName() {",
  "p.renameProcess(proc.ReplicaName, proc.CalculateReplicaName())",
  "}",
  "}",
  "}",
  "}"]

/-- src/app/project_runner.go:ProjectRunner.waitIfNeeded -/
def app_project_runner__ProjectRunner_waitIfNeeded : List String := [
  "func (p *ProjectRunner) waitIfNeeded(process *types.ProcessConfig) error {",
  "for k := range process.DependsOn {",
  "if proc := p.getDoneOrRunningProcess(k); proc != nil {",
  "switch process.DependsOn[k].Condition {",
  "case types.ProcessConditionCompleted:",
  "proc.waitForCompletion()",
  "case types.ProcessConditionCompletedSuccessfully:",
  "exitCode := proc.waitForCompletion()",
  "if exitCode != 0 {",
  "return fmt.Errorf(\"process %s depended on %s to complete successfully, but it exited with status %d\", process.ReplicaName, k, exitCode)",
  "}",
  "case types.ProcessConditionHealthy:",
  "ready := proc.waitUntilReady()",
  "if !ready {",
  "return fmt.Errorf(\"process %s depended on %s to become ready, but it was terminated\", process.ReplicaName, k)",
  "}",
  "case types.ProcessConditionLogReady:",
  "ready := proc.waitUntilLogReady()",
  "if !ready {",
  "return fmt.Errorf(\"process %s depended on %s to become ready, but it was terminated\", process.ReplicaName, k)",
  "}",
  "case types.ProcessConditionStarted:",
  "proc.waitForStarted()",
  "}",
  "} else {",
  "}",
  "}",
  "return nil",
  "}"]

/-- src/app/project_runner.go:runCmd -/
def app_project_runner__runCmd : List String := [
  "func runCmd(envCmd string) (string, error) {",
  "ctx, cancel := context.WithTimeout(context.Background(), 2*time.Second)",
  "defer cancel()",
  "cmd := command.BuildCommandContext(ctx, envCmd)",
  "out, err := cmd.Output()",
  "if err != nil {",
  "return \"\", err",
  "}",
  "return strings.TrimSpace(string(out)), nil",
  "}"]

/-- src/client/client.go:NewTcpClient -/
def client_client__NewTcpClient : List String := [
  "func NewTcpClient(host string, port, logLength int) *PcClient {",
  "address := fmt.Sprintf(\"%s:%d\", host, port)",
  "c := newClient(address, &http.Client{}, logLength)",
  "c.logger = NewLogClient(address, \"\")",
  "return c",
  "}"]

/-- src/client/client.go:NewUdsClient -/
def client_client__NewUdsClient : List String := [
  "func NewUdsClient(sockPath string, logLength int) *PcClient {",
  "udsClient := &http.Client{Transport: &http.Transport{DisableKeepAlives: true, DialContext: func(ctx context.Context, _, _ string) (net.Conn, error) {",
  "return (&net.Dialer{}).DialContext(ctx, \"unix\", sockPath)",
  "}}}",
  "c := newClient(\"unix\", udsClient, logLength)",
  "c.logger = NewLogClient(\"unix\", sockPath)",
  "return c",
  "}"]

/-- src/client/client.go:PcClient.ErrorForSecs -/
def client_client__PcClient_ErrorForSecs : List String := [
  "func (p *PcClient) ErrorForSecs() int {",
  "p.errMtx.Lock()",
  "defer p.errMtx.Unlock()",
  "if !p.isErrored {",
  "return 0",
  "}",
  "return int(time.Since(p.firstError).Seconds())",
  "}"]

/-- src/client/client.go:PcClient.GetHostName -/
def client_client__PcClient_GetHostName : List String := [
  "func (p *PcClient) GetHostName() (string, error) {",
  "return p.getHostName()",
  "}"]

/-- src/client/client.go:PcClient.GetLexicographicProcessNames -/
def client_client__PcClient_GetLexicographicProcessNames : List String := [
  "func (p *PcClient) GetLexicographicProcessNames() ([]string, error) {",
  "names, err := p.GetProcessesName()",
  "return names, err",
  "}"]

/-- src/client/client.go:PcClient.GetLogLength -/
def client_client__PcClient_GetLogLength : List String := [
  "func (p *PcClient) GetLogLength() int {",
  "return p.logLength",
  "}"]

/-- src/client/client.go:PcClient.GetLogsAndSubscribe -/
def client_client__PcClient_GetLogsAndSubscribe : List String := [
  "func (p *PcClient) GetLogsAndSubscribe(name string, observer pclog.LogObserver) error {",
  "fn := func(message api.LogMessage) {",
  "_, _ = observer.WriteString(message.Message)",
  "}",
  "_, err := p.logger.ReadProcessLogs(name, p.logLength, true, fn)",
  "return err",
  "}"]

/-- src/client/client.go:PcClient.GetProcessInfo -/
def client_client__PcClient_GetProcessInfo : List String := [
  "func (p *PcClient) GetProcessInfo(name string) (*types.ProcessConfig, error) {",
  "return p.getProcessInfo(name)",
  "}"]

/-- src/client/client.go:PcClient.GetProcessLog -/
def client_client__PcClient_GetProcessLog : List String := [
  "func (p *PcClient) GetProcessLog(name string, offsetFromEnd, limit int) ([]string, error) {",
  "return p.getProcessLog(name, offsetFromEnd, limit)",
  "}"]

/-- src/client/client.go:PcClient.GetProcessPorts -/
def client_client__PcClient_GetProcessPorts : List String := [
  "func (p *PcClient) GetProcessPorts(name string) (*types.ProcessPorts, error) {",
  "return p.getProcessPorts(name)",
  "}"]

/-- src/client/client.go:PcClient.GetProcessState -/
def client_client__PcClient_GetProcessState : List String := [
  "func (p *PcClient) GetProcessState(name string) (*types.ProcessState, error) {",
  "state, err := p.getProcessState(name)",
  "return state, err",
  "}"]

/-- src/client/client.go:PcClient.GetProcessesState -/
def client_client__PcClient_GetProcessesState : List String := [
  "func (p *PcClient) GetProcessesState() (*types.ProcessesState, error) {",
  "return p.GetRemoteProcessesState()",
  "}"]

/-- src/client/client.go:PcClient.GetProjectState -/
def client_client__PcClient_GetProjectState : List String := [
  "func (p *PcClient) GetProjectState(withMemory bool) (*types.ProjectState, error) {",
  "return p.getProjectState(withMemory)",
  "}"]

/-- src/client/client.go:PcClient.IsAlive -/
def client_client__PcClient_IsAlive : List String := [
  "func (p *PcClient) IsAlive() error {",
  "return p.logError(p.isAlive())",
  "}"]

/-- src/client/client.go:PcClient.IsRemote -/
def client_client__PcClient_IsRemote : List String := [
  "func (p *PcClient) IsRemote() bool {",
  "return true",
  "}"]

/-- src/client/client.go:PcClient.ReloadProject -/
def client_client__PcClient_ReloadProject : List String := [
  "func (p *PcClient) ReloadProject() (map[string]string, error) {",
  "return p.reloadProject()",
  "}"]

/-- src/client/client.go:PcClient.RestartProcess -/
def client_client__PcClient_RestartProcess : List String := [
  "func (p *PcClient) RestartProcess(name string) error {",
  "return p.restartProcess(name)",
  "}"]

/-- src/client/client.go:PcClient.ScaleProcess -/
def client_client__PcClient_ScaleProcess : List String := [
  "func (p *PcClient) ScaleProcess(name string, scale int) error {",
  "return p.scaleProcess(name, scale)",
  "}"]

/-- src/client/client.go:PcClient.SetProcessPassword -/
def client_client__PcClient_SetProcessPassword : List String := [
  "func (p *PcClient) SetProcessPassword(_, _ string) error {",
  "return errors.New(\"set process password not allowed for PC client\")",
  "}"]

/-- src/client/client.go:PcClient.ShutDownProject -/
def client_client__PcClient_ShutDownProject : List String := [
  "func (p *PcClient) ShutDownProject() error {",
  "return p.shutDownProject()",
  "}"]

/-- src/client/client.go:PcClient.StartProcess -/
def client_client__PcClient_StartProcess : List String := [
  "func (p *PcClient) StartProcess(name string) error {",
  "return p.startProcess(name)",
  "}"]

/-- src/client/client.go:PcClient.StopProcess -/
def client_client__PcClient_StopProcess : List String := [
  "func (p *PcClient) StopProcess(name string) error {",
  "return p.stopProcess(name)",
  "}"]

/-- src/client/client.go:PcClient.StopProcesses -/
def client_client__PcClient_StopProcesses : List String := [
  "func (p *PcClient) StopProcesses(names []string) (map[string]string, error) {",
  "return p.stopProcesses(names)",
  "}"]

/-- src/client/client.go:PcClient.UnSubscribeLogger -/
def client_client__PcClient_UnSubscribeLogger : List String := [
  "func (p *PcClient) UnSubscribeLogger(name string, observer pclog.LogObserver) error {",
  "return p.logger.CloseChannel()",
  "}"]

/-- src/client/client.go:PcClient.UpdateProcess -/
def client_client__PcClient_UpdateProcess : List String := [
  "func (p *PcClient) UpdateProcess(updated *types.ProcessConfig) error {",
  "return p.updateProcess(updated)",
  "}"]

/-- src/client/client.go:PcClient.UpdateProject -/
def client_client__PcClient_UpdateProject : List String := [
  "func (p *PcClient) UpdateProject(project *types.Project) (map[string]string, error) {",
  "return p.updateProject(project)",
  "}"]

/-- src/client/client.go:PcClient.logError -/
def client_client__PcClient_logError : List String := [
  "func (p *PcClient) logError(err error) error {",
  "p.errMtx.Lock()",
  "defer p.errMtx.Unlock()",
  "if err == nil {",
  "p.isErrored = false",
  "return nil",
  "}",
  "if !p.isErrored {",
  "p.isErrored = true",
  "p.firstError = time.Now()",
  "}",
  "return err",
  "}"]

/-- src/client/client.go: its functions -/
def client_client__names : List String := [
  "NewUdsClient",
  "NewTcpClient",
  "newClient",
  "PcClient.ShutDownProject",
  "PcClient.IsRemote",
  "PcClient.GetHostName",
  "PcClient.GetLogLength",
  "PcClient.GetLogsAndSubscribe",
  "PcClient.UnSubscribeLogger",
  "PcClient.GetProcessLog",
  "PcClient.GetLexicographicProcessNames",
  "PcClient.GetProcessInfo",
  "PcClient.GetProcessPorts",
  "PcClient.GetProcessState",
  "PcClient.GetProcessesState",
  "PcClient.StopProcess",
  "PcClient.StopProcesses",
  "PcClient.StartProcess",
  "PcClient.RestartProcess",
  "PcClient.ScaleProcess",
  "PcClient.IsAlive",
  "PcClient.ErrorForSecs",
  "PcClient.logError",
  "PcClient.GetProjectState",
  "PcClient.SetProcessPassword",
  "PcClient.UpdateProject",
  "PcClient.UpdateProcess",
  "PcClient.ReloadProject"]

/-- src/client/client.go:newClient -/
def client_client__newClient : List String := [
  "func newClient(address string, client *http.Client, logLength int) *PcClient {",
  "return &PcClient{address: address, logLength: logLength, firstError: zeroTime, isErrored: false, client: client}",
  "}"]

/-- src/client/common.go: its functions -/
def client_common__names : List String := []

/-- src/client/logs.go:LogClient.CloseChannel -/
def client_logs__LogClient_CloseChannel : List String := [
  "func (l *LogClient) CloseChannel() error {",
  "err := l.ws.WriteMessage(websocket.CloseMessage, websocket.FormatCloseMessage(websocket.CloseNormalClosure, \"\"))",
  "if err != nil {",
  "fmt.Fprintln(os.Stderr, \"write close:\", err)",
  "return err",
  "}",
  "l.isClosed.Store(true)",
  "return l.ws.Close()",
  "}"]

/-- src/client/logs.go:LogClient.ReadProcessLogs -/
def client_logs__LogClient_ReadProcessLogs : List String := [
  "func (l *LogClient) ReadProcessLogs(name string, offset int, follow bool, fn func(api.LogMessage)) (done chan struct{}, err error) {",
  "url := fmt.Sprintf(\"ws://%s/process/logs/ws?name=%s&offset=%d&follow=%v\", l.address, neturl.QueryEscape(name), offset, follow)",
  "dialer := websocket.DefaultDialer",
  "if l.address == \"unix\" {",
  "dialer.NetDialContext = func(ctx context.Context, _, _ string) (net.Conn, error) {",
  "return (&net.Dialer{}).DialContext(ctx, l.address, l.socketPath)",
  "}",
  "}",
  "l.ws, _, err = dialer.Dial(url, nil)",
  "if err != nil {",
  "return done, err",
  "}",
  "done = make(chan struct{})",
  "go l.readLogs(done, l.ws, follow, fn)",
  "return done, nil",
  "}"]

/-- src/client/logs.go:LogClient.readLogs -/
def client_logs__LogClient_readLogs : List String := [
  "func (l *LogClient) readLogs(done chan struct{}, ws *websocket.Conn, follow bool, fn func(api.LogMessage)) {",
  "defer close(done)",
  "for {",
  "var message api.LogMessage",
  "if err := ws.ReadJSON(&message); err != nil {",
  "if !follow && websocket.IsCloseError(err, websocket.CloseAbnormalClosure, websocket.CloseNormalClosure) {",
  "return",
  "}",
  "if websocket.IsCloseError(err, websocket.CloseNormalClosure) {",
  "return",
  "}",
  "if l.isClosed.Load() {",
  "return",
  "}",
  "return",
  "}",
  "if message.ProcessName != \"\" {",
  "fn(message)",
  "}",
  "}",
  "}"]

/-- src/client/logs.go:NewLogClient -/
def client_logs__NewLogClient : List String := [
  "func NewLogClient(address, socketPath string) *LogClient {",
  "return &LogClient{Format: \"%s\", PrintProcessName: false, address: address, socketPath: socketPath}",
  "}"]

/-- src/client/logs.go: its functions -/
def client_logs__names : List String := [
  "NewLogClient",
  "LogClient.ReadProcessLogs",
  "LogClient.CloseChannel",
  "LogClient.readLogs"]

/-- src/client/processes.go:PcClient.GetProcessesName -/
def client_processes__PcClient_GetProcessesName : List String := [
  "func (p *PcClient) GetProcessesName() ([]string, error) {",
  "states, err := p.GetRemoteProcessesState()",
  "if err != nil {",
  "return nil, err",
  "}",
  "procs := make([]string, len(states.States))",
  "for i, proc := range states.States {",
  "procs[i] = proc.Name",
  "}",
  "sort.Strings(procs)",
  "return procs, nil",
  "}"]

/-- src/client/processes.go:PcClient.GetRemoteProcessesState -/
def client_processes__PcClient_GetRemoteProcessesState : List String := [
  "func (p *PcClient) GetRemoteProcessesState() (*types.ProcessesState, error) {",
  "url := fmt.Sprintf(\"http://%s/processes\", p.address)",
  "resp, err := p.client.Get(url)",
  "if err != nil {",
  "return nil, err",
  "}",
  "defer resp.Body.Close()",
  "var sResp types.ProcessesState",
  "if err := json.NewDecoder(resp.Body).Decode(&sResp); err != nil {",
  "return nil, err",
  "}",
  "return &sResp, nil",
  "}"]

/-- src/client/processes.go:PcClient.getProcessInfo -/
def client_processes__PcClient_getProcessInfo : List String := [
  "func (p *PcClient) getProcessInfo(name string) (*types.ProcessConfig, error) {",
  "url := fmt.Sprintf(\"http://%s/process/info/%s\", p.address, neturl.PathEscape(name))",
  "resp, err := p.client.Get(url)",
  "if err != nil {",
  "return nil, err",
  "}",
  "defer resp.Body.Close()",
  "if resp.StatusCode != http.StatusOK {",
  "var respErr pcError",
  "if err = json.NewDecoder(resp.Body).Decode(&respErr); err != nil {",
  "return nil, err",
  "}",
  "return nil, errors.New(respErr.Error)",
  "}",
  "var sResp types.ProcessConfig",
  "if err := json.NewDecoder(resp.Body).Decode(&sResp); err != nil {",
  "return nil, err",
  "}",
  "return &sResp, nil",
  "}"]

/-- src/client/processes.go:PcClient.getProcessLog -/
def client_processes__PcClient_getProcessLog : List String := [
  "func (p *PcClient) getProcessLog(name string, offsetFromEnd, limit int) ([]string, error) {",
  "url := fmt.Sprintf(\"http://%s/process/logs/%s/%d/%d\", p.address, neturl.PathEscape(name), offsetFromEnd, limit)",
  "resp, err := p.client.Get(url)",
  "if err != nil {",
  "return nil, err",
  "}",
  "defer resp.Body.Close()",
  "if resp.StatusCode != http.StatusOK {",
  "var respErr pcError",
  "if err = json.NewDecoder(resp.Body).Decode(&respErr); err != nil {",
  "return nil, err",
  "}",
  "return nil, errors.New(respErr.Error)",
  "}",
  "var sResp struct {",
  "Logs []string `json:\"logs\"`",
  "}",
  "if err = json.NewDecoder(resp.Body).Decode(&sResp); err != nil {",
  "return nil, err",
  "}",
  "return sResp.Logs, nil",
  "}"]

/-- src/client/processes.go:PcClient.getProcessPorts -/
def client_processes__PcClient_getProcessPorts : List String := [
  "func (p *PcClient) getProcessPorts(name string) (*types.ProcessPorts, error) {",
  "url := fmt.Sprintf(\"http://%s/process/ports/%s\", p.address, neturl.PathEscape(name))",
  "resp, err := p.client.Get(url)",
  "if err != nil {",
  "return nil, err",
  "}",
  "defer resp.Body.Close()",
  "if resp.StatusCode != http.StatusOK {",
  "var respErr pcError",
  "if err = json.NewDecoder(resp.Body).Decode(&respErr); err != nil {",
  "return nil, err",
  "}",
  "return nil, errors.New(respErr.Error)",
  "}",
  "var sResp types.ProcessPorts",
  "if err := json.NewDecoder(resp.Body).Decode(&sResp); err != nil {",
  "return nil, err",
  "}",
  "return &sResp, nil",
  "}"]

/-- src/client/processes.go:PcClient.getProcessState -/
def client_processes__PcClient_getProcessState : List String := [
  "func (p *PcClient) getProcessState(name string) (*types.ProcessState, error) {",
  "url := fmt.Sprintf(\"http://%s/process/%s\", p.address, neturl.PathEscape(name))",
  "resp, err := p.client.Get(url)",
  "if err != nil {",
  "return nil, err",
  "}",
  "defer resp.Body.Close()",
  "if resp.StatusCode != http.StatusOK {",
  "var respErr pcError",
  "if err = json.NewDecoder(resp.Body).Decode(&respErr); err != nil {",
  "return nil, err",
  "}",
  "return nil, errors.New(respErr.Error)",
  "}",
  "var sResp types.ProcessState",
  "if err := json.NewDecoder(resp.Body).Decode(&sResp); err != nil {",
  "return nil, err",
  "}",
  "return &sResp, nil",
  "}"]

/-- src/client/processes.go:PcClient.updateProcess -/
def client_processes__PcClient_updateProcess : List String := [
  "func (p *PcClient) updateProcess(procInfo *types.ProcessConfig) error {",
  "url := fmt.Sprintf(\"http://%s/process\", p.address)",
  "jsonData, err := json.Marshal(procInfo)",
  "if err != nil {",
  "return err",
  "}",
  "resp, err := p.client.Post(url, \"application/json\", bytes.NewBuffer(jsonData))",
  "if err != nil {",
  "return err",
  "}",
  "defer resp.Body.Close()",
  "if resp.StatusCode == http.StatusOK {",
  "return nil",
  "}",
  "var respErr pcError",
  "if err = json.NewDecoder(resp.Body).Decode(&respErr); err != nil {",
  "return err",
  "}",
  "return errors.New(respErr.Error)",
  "}"]

/-- src/client/processes.go: its functions -/
def client_processes__names : List String := [
  "PcClient.GetProcessesName",
  "PcClient.GetRemoteProcessesState",
  "PcClient.getProcessState",
  "PcClient.getProcessInfo",
  "PcClient.getProcessLog",
  "PcClient.getProcessPorts",
  "PcClient.updateProcess"]

/-- src/client/project.go:PcClient.getProjectState -/
def client_project__PcClient_getProjectState : List String := [
  "func (p *PcClient) getProjectState(withMemory bool) (*types.ProjectState, error) {",
  "url := fmt.Sprintf(\"http://%s/project/state/?withMemory=%v\", p.address, withMemory)",
  "resp, err := p.client.Get(url)",
  "if err != nil {",
  "return nil, err",
  "}",
  "defer resp.Body.Close()",
  "if resp.StatusCode != http.StatusOK {",
  "}",
  "var sResp types.ProjectState",
  "if err = json.NewDecoder(resp.Body).Decode(&sResp); err != nil {",
  "return nil, err",
  "}",
  "return &sResp, nil",
  "}"]

/-- src/client/project.go:PcClient.reloadProject -/
def client_project__PcClient_reloadProject : List String := [
  "func (p *PcClient) reloadProject() (map[string]string, error) {",
  "url := fmt.Sprintf(\"http://%s/project/configuration\", p.address)",
  "resp, err := p.client.Post(url, \"application/json\", nil)",
  "if err != nil {",
  "return nil, err",
  "}",
  "defer resp.Body.Close()",
  "if resp.StatusCode == http.StatusOK || resp.StatusCode == http.StatusMultiStatus {",
  "status := map[string]string{}",
  "if err = json.NewDecoder(resp.Body).Decode(&status); err != nil {",
  "return status, err",
  "}",
  "return status, nil",
  "}",
  "var respErr pcError",
  "if err = json.NewDecoder(resp.Body).Decode(&respErr); err != nil {",
  "return nil, err",
  "}",
  "return nil, errors.New(respErr.Error)",
  "}"]

/-- src/client/project.go:PcClient.shutDownProject -/
def client_project__PcClient_shutDownProject : List String := [
  "func (p *PcClient) shutDownProject() error {",
  "url := fmt.Sprintf(\"http://%s/project/stop/\", p.address)",
  "req, err := http.NewRequest(http.MethodPost, url, nil)",
  "if err != nil {",
  "return err",
  "}",
  "resp, err := p.client.Do(req)",
  "if err != nil {",
  "return err",
  "}",
  "defer resp.Body.Close()",
  "if resp.StatusCode == http.StatusOK {",
  "return nil",
  "} else {",
  "return fmt.Errorf(\"failed to stop project - unexpected status code: %s\", resp.Status)",
  "}",
  "}"]

/-- src/client/project.go:PcClient.updateProject -/
def client_project__PcClient_updateProject : List String := [
  "func (p *PcClient) updateProject(project *types.Project) (map[string]string, error) {",
  "url := fmt.Sprintf(\"http://%s/project\", p.address)",
  "jsonData, err := json.Marshal(project)",
  "if err != nil {",
  "return nil, err",
  "}",
  "resp, err := p.client.Post(url, \"application/json\", bytes.NewBuffer(jsonData))",
  "if err != nil {",
  "return nil, err",
  "}",
  "defer resp.Body.Close()",
  "if resp.StatusCode == http.StatusOK || resp.StatusCode == http.StatusMultiStatus {",
  "status := map[string]string{}",
  "if err = json.NewDecoder(resp.Body).Decode(&status); err != nil {",
  "return status, err",
  "}",
  "return status, nil",
  "}",
  "var respErr pcError",
  "if err = json.NewDecoder(resp.Body).Decode(&respErr); err != nil {",
  "return nil, err",
  "}",
  "return nil, errors.New(respErr.Error)",
  "}"]

/-- src/client/project.go: its functions -/
def client_project__names : List String := [
  "PcClient.shutDownProject",
  "PcClient.getProjectState",
  "PcClient.updateProject",
  "PcClient.reloadProject"]

/-- src/client/restart.go:PcClient.restartProcess -/
def client_restart__PcClient_restartProcess : List String := [
  "func (p *PcClient) restartProcess(name string) error {",
  "url := fmt.Sprintf(\"http://%s/process/restart/%s\", p.address, neturl.PathEscape(name))",
  "resp, err := p.client.Post(url, \"application/json\", nil)",
  "if err != nil {",
  "return err",
  "}",
  "if resp.StatusCode == http.StatusOK {",
  "return nil",
  "}",
  "defer resp.Body.Close()",
  "var respErr pcError",
  "if err = json.NewDecoder(resp.Body).Decode(&respErr); err != nil {",
  "return err",
  "}",
  "return errors.New(respErr.Error)",
  "}"]

/-- src/client/restart.go: its functions -/
def client_restart__names : List String := [
  "PcClient.restartProcess"]

/-- src/client/scale_process.go:PcClient.scaleProcess -/
def client_scale_process__PcClient_scaleProcess : List String := [
  "func (p *PcClient) scaleProcess(name string, scale int) error {",
  "url := fmt.Sprintf(\"http://%s/process/scale/%s/%d\", p.address, neturl.PathEscape(name), scale)",
  "req, err := http.NewRequest(http.MethodPatch, url, nil)",
  "if err != nil {",
  "return err",
  "}",
  "resp, err := p.client.Do(req)",
  "if err != nil {",
  "return err",
  "}",
  "if resp.StatusCode == http.StatusOK {",
  "return nil",
  "}",
  "defer resp.Body.Close()",
  "var respErr pcError",
  "if err = json.NewDecoder(resp.Body).Decode(&respErr); err != nil {",
  "return err",
  "}",
  "return errors.New(respErr.Error)",
  "}"]

/-- src/client/scale_process.go: its functions -/
def client_scale_process__names : List String := [
  "PcClient.scaleProcess"]

/-- src/client/start.go:PcClient.startProcess -/
def client_start__PcClient_startProcess : List String := [
  "func (p *PcClient) startProcess(name string) error {",
  "url := fmt.Sprintf(\"http://%s/process/start/%s\", p.address, neturl.PathEscape(name))",
  "resp, err := p.client.Post(url, \"application/json\", nil)",
  "if err != nil {",
  "return err",
  "}",
  "if resp.StatusCode == http.StatusOK {",
  "return nil",
  "}",
  "defer resp.Body.Close()",
  "var respErr pcError",
  "if err = json.NewDecoder(resp.Body).Decode(&respErr); err != nil {",
  "return err",
  "}",
  "return errors.New(respErr.Error)",
  "}"]

/-- src/client/start.go: its functions -/
def client_start__names : List String := [
  "PcClient.startProcess"]

/-- src/client/status.go:PcClient.getHostName -/
def client_status__PcClient_getHostName : List String := [
  "func (p *PcClient) getHostName() (string, error) {",
  "url := fmt.Sprintf(\"http://%s/hostname\", p.address)",
  "resp, err := p.client.Get(url)",
  "if err != nil {",
  "return \"\", err",
  "}",
  "defer resp.Body.Close()",
  "if resp.StatusCode != http.StatusOK {",
  "return \"\", fmt.Errorf(\"unexpected status %s\", resp.Status)",
  "}",
  "nameMap := map[string]string{}",
  "if err = json.NewDecoder(resp.Body).Decode(&nameMap); err != nil {",
  "return \"\", err",
  "}",
  "return nameMap[\"name\"], nil",
  "}"]

/-- src/client/status.go:PcClient.isAlive -/
def client_status__PcClient_isAlive : List String := [
  "func (p *PcClient) isAlive() error {",
  "url := fmt.Sprintf(\"http://%s/live\", p.address)",
  "resp, err := p.client.Get(url)",
  "if err != nil {",
  "return err",
  "}",
  "defer resp.Body.Close()",
  "if resp.StatusCode != http.StatusOK {",
  "return fmt.Errorf(\"unexpected status %s\", resp.Status)",
  "}",
  "return nil",
  "}"]

/-- src/client/status.go: its functions -/
def client_status__names : List String := [
  "PcClient.isAlive",
  "PcClient.getHostName"]

/-- src/client/stop.go:PcClient.stopProcess -/
def client_stop__PcClient_stopProcess : List String := [
  "func (p *PcClient) stopProcess(name string) error {",
  "url := fmt.Sprintf(\"http://%s/process/stop/%s\", p.address, neturl.PathEscape(name))",
  "req, err := http.NewRequest(http.MethodPatch, url, nil)",
  "if err != nil {",
  "return err",
  "}",
  "resp, err := p.client.Do(req)",
  "if err != nil {",
  "return err",
  "}",
  "defer resp.Body.Close()",
  "if resp.StatusCode == http.StatusOK {",
  "return nil",
  "}",
  "var respErr pcError",
  "if err = json.NewDecoder(resp.Body).Decode(&respErr); err != nil {",
  "return err",
  "}",
  "return errors.New(respErr.Error)",
  "}"]

/-- src/client/stop.go:PcClient.stopProcesses -/
def client_stop__PcClient_stopProcesses : List String := [
  "func (p *PcClient) stopProcesses(names []string) (map[string]string, error) {",
  "url := fmt.Sprintf(\"http://%s/processes/stop\", p.address)",
  "jsonPayload, err := json.Marshal(names)",
  "if err != nil {",
  "return nil, err",
  "}",
  "req, err := http.NewRequest(http.MethodPatch, url, bytes.NewBuffer(jsonPayload))",
  "if err != nil {",
  "return nil, err",
  "}",
  "resp, err := p.client.Do(req)",
  "if err != nil {",
  "return nil, err",
  "}",
  "defer resp.Body.Close()",
  "if resp.StatusCode == http.StatusOK || resp.StatusCode == http.StatusMultiStatus {",
  "stopped := map[string]string{}",
  "if err = json.NewDecoder(resp.Body).Decode(&stopped); err != nil {",
  "return stopped, err",
  "}",
  "return stopped, nil",
  "}",
  "var respErr pcError",
  "if err = json.NewDecoder(resp.Body).Decode(&respErr); err != nil {",
  "return nil, err",
  "}",
  "return nil, errors.New(respErr.Error)",
  "}"]

/-- src/client/stop.go: its functions -/
def client_stop__names : List String := [
  "PcClient.stopProcess",
  "PcClient.stopProcesses"]

/-- src/cmd/0-init.go:init -/
def cmd_0_init__init : List String := [
  "func init() {",
  "_ = godotenv.Load(\".pc_env\")",
  "pcFlags = config.NewFlags()",
  "commonFlags = pflag.NewFlagSet(\"\", pflag.ContinueOnError)",
  "commonFlags.BoolVarP(pcFlags.IsReverseSort, flagReverse, \"R\", *pcFlags.IsReverseSort, \"sort in reverse order\")",
  "commonFlags.StringVarP(pcFlags.SortColumn, flagSort, \"S\", *pcFlags.SortColumn, fmt.Sprintf(\"sort column name. legal values (case insensitive): [%s]\", strings.Join(tui.ColumnNames(), \", \")))",
  "commonFlags.StringVar(pcFlags.PcTheme, flagTheme, *pcFlags.PcTheme, \"select process compose theme\")",
  "}"]

/-- src/cmd/logs.go:getLogClient -/
def cmd_logs__getLogClient : List String := [
  "func getLogClient() *client.LogClient {",
  "var lc *client.LogClient",
  "if *pcFlags.IsUnixSocket {",
  "lc = client.NewLogClient(\"unix\", *pcFlags.UnixSocketPath)",
  "} else {",
  "address := fmt.Sprintf(\"%s:%d\", *pcFlags.Address, *pcFlags.PortNum)",
  "lc = client.NewLogClient(address, \"\")",
  "}",
  "return lc",
  "}"]

/-- src/cmd/logs.go:init -/
def cmd_logs__init : List String := [
  "func init() {",
  "processCmd.AddCommand(logsCmd)",
  "logsCmd.Flags().BoolVarP(pcFlags.LogFollow, \"follow\", \"f\", *pcFlags.LogFollow, \"Follow log output\")",
  "logsCmd.Flags().BoolVar(pcFlags.IsRawLogOutput, \"raw-log\", *pcFlags.IsRawLogOutput, \"If set, don't format the multi process log output to include the process name\")",
  "logsCmd.Flags().IntVarP(pcFlags.LogTailLength, \"tail\", \"n\", *pcFlags.LogTailLength, \"Number of lines to show from the end of the logs\")",
  "}"]

/-- src/cmd/logs.go: its functions -/
def cmd_logs__names : List String := [
  "init",
  "getLogClient"]

/-- src/cmd/project_runner.go:getColumnId -/
def cmd_project_runner__getColumnId : List String := [
  "func getColumnId(columnName string) tui.ColumnID {",
  "col, err := tui.StringToColumnID(columnName)",
  "if err != nil {",
  "col = tui.ProcessStateName",
  "}",
  "return col",
  "}"]

/-- src/cmd/project_runner.go:getProjectRunner -/
def cmd_project_runner__getProjectRunner : List String := [
  "func getProjectRunner(process []string, noDeps bool, mainProcess string, mainProcessArgs []string) *app.ProjectRunner {",
  "opts.DisableDotenv(*pcFlags.DisableDotEnv)",
  "opts.WithTuiDisabled(!*pcFlags.IsTuiEnabled)",
  "project, err := loader.Load(opts)",
  "if err != nil {",
  "}",
  "*pcFlags.IsTuiEnabled = !project.IsTuiDisabled",
  "prjOpts := app.ProjectOpts{}",
  "runner, err := app.NewProjectRunner(prjOpts.WithIsTuiOn(*pcFlags.IsTuiEnabled).WithMainProcess(mainProcess).WithMainProcessArgs(mainProcessArgs).WithProject(project).WithProcessesToRun(process).WithOrderedShutDown(*pcFlags.IsOrderedShutDown).WithNoDeps(noDeps))",
  "if err != nil {",
  "}",
  "return runner",
  "}"]

/-- src/cmd/project_runner.go: its functions -/
def cmd_project_runner__names : List String := [
  "getProjectRunner",
  "runProject",
  "setSignal",
  "runHeadless",
  "runTui",
  "startTui",
  "getColumnId",
  "ternary",
  "quiet"]

/-- src/cmd/project_runner.go:quiet -/
def cmd_project_runner__quiet : List String := [
  "func quiet() func() {",
  "null, _ := os.Open(os.DevNull)",
  "sout := os.Stdout",
  "serr := os.Stderr",
  "os.Stdout = null",
  "os.Stderr = null",
  "return func() {",
  "defer null.Close()",
  "os.Stdout = sout",
  "os.Stderr = serr",
  "}",
  "}"]

/-- src/cmd/project_runner.go:runHeadless -/
def cmd_project_runner__runHeadless : List String := [
  "func runHeadless(project *app.ProjectRunner) error {",
  "setSignal(func() {",
  "_ = project.ShutDownProject()",
  "})",
  "return project.Run()",
  "}"]

/-- src/cmd/project_runner.go:runProject -/
def cmd_project_runner__runProject : List String := [
  "func runProject(runner *app.ProjectRunner) error {",
  "var err error",
  "if *pcFlags.IsTuiEnabled {",
  "err = runTui(runner)",
  "} else {",
  "err = runHeadless(runner)",
  "}",
  "if *pcFlags.KeepProjectOn {",
  "runner.WaitForProjectShutdown()",
  "}",
  "os.Remove(*pcFlags.UnixSocketPath)",
  "return err",
  "}"]

/-- src/cmd/project_runner.go:runTui -/
def cmd_project_runner__runTui : List String := [
  "func runTui(project *app.ProjectRunner) error {",
  "startTui(project, true)",
  "err := project.Run()",
  "if !*pcFlags.KeepProjectOn && !*pcFlags.KeepTuiOn {",
  "tui.Stop()",
  "} else {",
  "tui.Wait()",
  "}",
  "return err",
  "}"]

/-- src/cmd/project_runner.go:setSignal -/
def cmd_project_runner__setSignal : List String := [
  "func setSignal(signalHandler func()) {",
  "cancelChan := make(chan os.Signal, 1)",
  "signal.Notify(cancelChan, syscall.SIGTERM, os.Interrupt, syscall.SIGHUP)",
  "go func() {",
  "sig := <-cancelChan",
  "signalHandler()",
  "}()",
  "}"]

/-- src/cmd/project_runner.go:startTui -/
def cmd_project_runner__startTui : List String := [
  "func startTui(runner app.IProject, isAsync bool) {",
  "if !*pcFlags.IsReadOnlyMode {",
  "config.CreateProcCompHome()",
  "}",
  "if *pcFlags.DetachOnSuccess {",
  "states, err := runner.GetProcessesState()",
  "if err != nil {",
  "} else if states.IsReady() {",
  "fmt.Println(tui.DetachOnSuccessMessage)",
  "app.PrintStatesAsTable(states.States)",
  "return",
  "}",
  "}",
  "settings := config.NewSettings().Load()",
  "tuiOptions := []tui.Option{tui.WithRefreshRate(*pcFlags.RefreshRate), tui.WithReadOnlyMode(*pcFlags.IsReadOnlyMode), tui.WithFullScreen(*pcFlags.IsTuiFullScreen), tui.WithDisabledHidden(*pcFlags.HideDisabled), tui.WithDisabledExitConfirm(settings.DisableExitConfirmation), tui.WithDetachOnSuccess(*pcFlags.DetachOnSuccess), tui.LoadExtraShortCutsPaths(*pcFlags.ShortcutPaths)}",
  "tuiOptions = append(tuiOptions, ternary(pcFlags.PcThemeChanged, tui.WithTheme(*pcFlags.PcTheme), tui.WithTheme(settings.Theme)))",
  "tuiOptions = append(tuiOptions, ternary(pcFlags.SortColumnChanged, tui.WithStateSorter(getColumnId(*pcFlags.SortColumn), !*pcFlags.IsReverseSort), tui.WithStateSorter(getColumnId(settings.Sort.By), !settings.Sort.IsReversed)))",
  "if isAsync {",
  "tui.RunTUIAsync(runner, tuiOptions...)",
  "} else {",
  "tui.RunTUI(runner, tuiOptions...)",
  "}",
  "}"]

/-- src/cmd/project_runner.go:ternary -/
def cmd_project_runner__ternary : List String := [
  "func ternary[T any](cond bool, a, b T) T {",
  "if cond {",
  "return a",
  "}",
  "return b",
  "}"]

/-- src/cmd/project_runner_unix.go: its functions -/
def cmd_project_runner_unix__names : List String := [
  "runInDetachedMode"]

/-- src/cmd/project_runner_unix.go:runInDetachedMode -/
def cmd_project_runner_unix__runInDetachedMode : List String := [
  "func runInDetachedMode() {",
  "fmt.Println(\"Starting Process Compose in detached mode. Use 'process-compose attach' to connect to it or 'process-compose down' to stop it\")",
  "for i, arg := range os.Args {",
  "if arg == \"-D\" || arg == \"--detached\" || arg == \"--detached-with-tui\" {",
  "os.Args = append(os.Args[:i], os.Args[i+1:]...)",
  "break",
  "}",
  "}",
  "os.Args = append(os.Args, \"-t=false\")",
  "cmd := exec.Command(os.Args[0], os.Args[1:]...)",
  "cmd.SysProcAttr = &syscall.SysProcAttr{Setsid: true}",
  "cmd.Stdin = nil",
  "cmd.Stdout, _ = os.OpenFile(\"/dev/null\", os.O_RDWR, 0)",
  "cmd.Stderr, _ = os.OpenFile(\"/dev/null\", os.O_RDWR, 0)",
  "if err := cmd.Start(); err != nil {",
  "panic(err)",
  "}",
  "if *pcFlags.IsDetachedWithTui {",
  "startTui(getClient(), false)",
  "}",
  "os.Exit(0)",
  "}"]

/-- src/cmd/root.go:getClient -/
def cmd_root__getClient : List String := [
  "func getClient() *client.PcClient {",
  "if *pcFlags.IsUnixSocket {",
  "return client.NewUdsClient(*pcFlags.UnixSocketPath, *pcFlags.LogLength)",
  "}",
  "return client.NewTcpClient(*pcFlags.Address, *pcFlags.PortNum, *pcFlags.LogLength)",
  "}"]

/-- src/cmd/root.go:handleErrorAndExit -/
def cmd_root__handleErrorAndExit : List String := [
  "func handleErrorAndExit(err error) {",
  "if err != nil {",
  "var exitErr *app.ExitError",
  "if errors.As(err, &exitErr) {",
  "os.Exit(exitErr.Code)",
  "}",
  "os.Exit(1)",
  "}",
  "}"]

/-- src/cmd/root.go:init -/
def cmd_root__init : List String := [
  "func init() {",
  "opts = &loader.LoaderOptions{FileNames: []string{}}",
  "nsAdmitter := &admitter.NamespaceAdmitter{}",
  "opts.AddAdmitter(nsAdmitter)",
  "rootCmd.Flags().BoolVarP(pcFlags.IsTuiEnabled, \"tui\", \"t\", *pcFlags.IsTuiEnabled, \"enable TUI (disable with -t=false) (env: \"+config.EnvVarNameTui+\")\")",
  "rootCmd.Flags().StringArrayVar(pcFlags.ShortcutPaths, \"shortcuts\", config.GetShortCutsPaths(nil), \"paths to shortcut config files to load (env: \"+config.EnvVarNameShortcuts+\")\")",
  "rootCmd.Flags().BoolVar(pcFlags.KeepTuiOn, \"keep-tui\", *pcFlags.KeepTuiOn, \"keep TUI running even after all processes exit\")",
  "rootCmd.Flags().BoolVar(pcFlags.KeepProjectOn, \"keep-project\", *pcFlags.KeepProjectOn, \"keep the project running even after all processes exit\")",
  "rootCmd.PersistentFlags().BoolVar(pcFlags.NoServer, \"no-server\", *pcFlags.NoServer, \"disable HTTP server (env: \"+config.EnvVarNameNoServer+\")\")",
  "rootCmd.PersistentFlags().BoolVar(pcFlags.IsOrderedShutDown, \"ordered-shutdown\", *pcFlags.IsOrderedShutDown, \"shut down processes in reverse dependency order\")",
  "rootCmd.Flags().BoolVarP(pcFlags.HideDisabled, \"hide-disabled\", \"d\", *pcFlags.HideDisabled, \"hide disabled processes (env: \"+config.EnvVarHideDisabled+\")\")",
  "rootCmd.Flags().VarP(refreshRateFlag{pcFlags.RefreshRate}, \"ref-rate\", \"r\", \"TUI refresh rate in seconds or as a Go duration string (e.g. 1s)\")",
  "rootCmd.PersistentFlags().IntVarP(pcFlags.PortNum, \"port\", \"p\", *pcFlags.PortNum, \"port number (env: \"+config.EnvVarNamePort+\")\")",
  "rootCmd.Flags().StringArrayVarP(&opts.FileNames, \"config\", \"f\", config.GetConfigDefault(), \"path to config files to load (env: \"+config.EnvVarNameConfig+\")\")",
  "rootCmd.Flags().StringArrayVarP(&opts.EnvFileNames, \"env\", \"e\", []string{\".env\"}, \"path to env files to load\")",
  "rootCmd.Flags().StringArrayVarP(&nsAdmitter.EnabledNamespaces, \"namespace\", \"n\", nil, \"run only specified namespaces (default all)\")",
  "rootCmd.PersistentFlags().StringVarP(pcFlags.LogFile, \"log-file\", \"L\", *pcFlags.LogFile, \"Specify the log file path (env: \"+config.LogPathEnvVarName+\")\")",
  "rootCmd.PersistentFlags().BoolVar(pcFlags.IsReadOnlyMode, \"read-only\", *pcFlags.IsReadOnlyMode, \"enable read-only mode (env: \"+config.EnvVarReadOnlyMode+\")\")",
  "rootCmd.Flags().BoolVar(pcFlags.DisableDotEnv, \"disable-dotenv\", *pcFlags.DisableDotEnv, \"disable .env file loading (env: \"+config.EnvVarDisableDotEnv+\"=1)\")",
  "rootCmd.Flags().BoolVar(pcFlags.IsTuiFullScreen, \"tui-fs\", *pcFlags.IsTuiFullScreen, \"enable TUI full screen (env: \"+config.EnvVarTuiFullScreen+\"=1)\")",
  "rootCmd.Flags().AddFlag(commonFlags.Lookup(flagReverse))",
  "rootCmd.Flags().AddFlag(commonFlags.Lookup(flagSort))",
  "rootCmd.Flags().AddFlag(commonFlags.Lookup(flagTheme))",
  "_ = rootCmd.Flags().MarkDeprecated(\"keep-tui\", \"use --keep-project instead\")",
  "if runtime.GOOS != \"windows\" {",
  "rootCmd.Flags().BoolVarP(pcFlags.IsDetached, \"detached\", \"D\", *pcFlags.IsDetached, \"run process-compose in detached mode\")",
  "rootCmd.Flags().BoolVar(pcFlags.IsDetachedWithTui, \"detached-with-tui\", *pcFlags.IsDetachedWithTui, \"run process-compose in detached mode with TUI\")",
  "rootCmd.Flags().BoolVar(pcFlags.DetachOnSuccess, \"detach-on-success\", *pcFlags.DetachOnSuccess, \"detach the process-compose TUI after successful startup. Requires --detached-with-tui\")",
  "rootCmd.PersistentFlags().StringVarP(pcFlags.UnixSocketPath, \"unix-socket\", \"u\", config.GetUnixSocketPath(), \"path to unix socket (env: \"+config.EnvVarUnixSocketPath+\")\")",
  "rootCmd.PersistentFlags().BoolVarP(pcFlags.IsUnixSocket, \"use-uds\", \"U\", *pcFlags.IsUnixSocket, \"use unix domain sockets instead of tcp\")",
  "}",
  "}"]

/-- src/cmd/root.go:runProjectCmd -/
def cmd_root__runProjectCmd : List String := [
  "func runProjectCmd(args []string) {",
  "defer func() {",
  "_ = logFile.Close()",
  "}()",
  "runner := getProjectRunner(args, *pcFlags.NoDependencies, \"\", []string{})",
  "if *pcFlags.IsDetached || *pcFlags.IsDetachedWithTui {",
  "runInDetachedMode()",
  "}",
  "err := waitForProjectAndServer(!*pcFlags.IsTuiEnabled, runner)",
  "handleErrorAndExit(err)",
  "}"]

/-- src/cmd/root.go:startHttpServerIfEnabled -/
def cmd_root__startHttpServerIfEnabled : List String := [
  "func startHttpServerIfEnabled(useLogger bool, runner *app.ProjectRunner) (*http.Server, error) {",
  "if !*pcFlags.NoServer {",
  "if *pcFlags.IsUnixSocket {",
  "return api.StartHttpServerWithUnixSocket(useLogger, *pcFlags.UnixSocketPath, runner)",
  "}",
  "return api.StartHttpServerWithTCP(useLogger, *pcFlags.PortNum, runner)",
  "}",
  "return nil, nil",
  "}"]

/-- src/cmd/root.go:waitForProjectAndServer -/
def cmd_root__waitForProjectAndServer : List String := [
  "func waitForProjectAndServer(useLogger bool, runner *app.ProjectRunner) error {",
  "server, err := startHttpServerIfEnabled(useLogger, runner)",
  "if err != nil {",
  "return err",
  "}",
  "if err = runProject(runner); err != nil {",
  "return err",
  "}",
  "if server != nil {",
  "shutdownTimeout := 5 * time.Second",
  "ctx, cancel := context.WithTimeout(context.Background(), shutdownTimeout)",
  "defer cancel()",
  "if err := server.Shutdown(ctx); err != nil {",
  "return err",
  "}",
  "}",
  "return nil",
  "}"]

/-- src/cmd/run.go:init -/
def cmd_run__init : List String := [
  "func init() {",
  "rootCmd.AddCommand(runCmd)",
  "runCmd.Flags().BoolVarP(pcFlags.NoDependencies, \"no-deps\", \"\", *pcFlags.NoDependencies, \"don't start dependent processes\")",
  "runCmd.Flags().AddFlag(rootCmd.Flags().Lookup(\"config\"))",
  "runCmd.Flags().AddFlag(rootCmd.Flags().Lookup(\"disable-dotenv\"))",
  "}"]

/-- src/cmd/up.go:init -/
def cmd_up__init : List String := [
  "func init() {",
  "rootCmd.AddCommand(upCmd)",
  "nsAdmitter := &admitter.NamespaceAdmitter{}",
  "opts.AddAdmitter(nsAdmitter)",
  "upCmd.Flags().BoolVarP(pcFlags.NoDependencies, \"no-deps\", \"\", *pcFlags.NoDependencies, \"don't start dependent processes\")",
  "upCmd.Flags().AddFlag(rootCmd.Flags().Lookup(\"namespace\"))",
  "upCmd.Flags().AddFlag(rootCmd.Flags().Lookup(\"config\"))",
  "upCmd.Flags().AddFlag(rootCmd.Flags().Lookup(\"env\"))",
  "upCmd.Flags().AddFlag(rootCmd.Flags().Lookup(\"ref-rate\"))",
  "upCmd.Flags().AddFlag(rootCmd.Flags().Lookup(\"tui\"))",
  "upCmd.Flags().AddFlag(rootCmd.Flags().Lookup(\"hide-disabled\"))",
  "upCmd.Flags().AddFlag(rootCmd.Flags().Lookup(\"disable-dotenv\"))",
  "upCmd.Flags().AddFlag(rootCmd.Flags().Lookup(\"keep-tui\"))",
  "upCmd.Flags().AddFlag(rootCmd.Flags().Lookup(\"keep-project\"))",
  "upCmd.Flags().AddFlag(rootCmd.Flags().Lookup(\"shortcuts\"))",
  "upCmd.Flags().AddFlag(commonFlags.Lookup(flagReverse))",
  "upCmd.Flags().AddFlag(commonFlags.Lookup(flagSort))",
  "upCmd.Flags().AddFlag(commonFlags.Lookup(flagTheme))",
  "if runtime.GOOS != \"windows\" {",
  "upCmd.Flags().AddFlag(rootCmd.Flags().Lookup(\"detached\"))",
  "upCmd.Flags().AddFlag(rootCmd.Flags().Lookup(\"detached-with-tui\"))",
  "upCmd.Flags().AddFlag(rootCmd.Flags().Lookup(\"detach-on-success\"))",
  "}",
  "_ = upCmd.Flags().MarkDeprecated(\"keep-tui\", \"use --keep-project instead\")",
  "}"]

/-- src/command/command.go:BuildCommand -/
def command_command__BuildCommand : List String := [
  "func BuildCommand(cmd string, args []string) *CmdWrapper {",
  "return &CmdWrapper{cmd: exec.Command(cmd, args...)}",
  "}"]

/-- src/command/command.go:BuildCommandContext -/
def command_command__BuildCommandContext : List String := [
  "func BuildCommandContext(ctx context.Context, shellCmd string) *CmdWrapper {",
  "return &CmdWrapper{cmd: exec.CommandContext(ctx, getRunnerShell(), getRunnerArg(), shellCmd)}",
  "}"]

/-- src/command/command.go:BuildCommandShellArgContext -/
def command_command__BuildCommandShellArgContext : List String := [
  "func BuildCommandShellArgContext(ctx context.Context, shell ShellConfig, cmd string) *CmdWrapper {",
  "return &CmdWrapper{cmd: exec.CommandContext(ctx, shell.ShellCommand, shell.ShellArgument, cmd)}",
  "}"]

/-- src/command/command.go:BuildPtyCommand -/
def command_command__BuildPtyCommand : List String := [
  "func BuildPtyCommand(cmd string, args []string) *CmdWrapperPty {",
  "return &CmdWrapperPty{CmdWrapper: BuildCommand(cmd, args)}",
  "}"]

/-- src/command/command.go:DefaultShellConfig -/
def command_command__DefaultShellConfig : List String := [
  "func DefaultShellConfig() *ShellConfig {",
  "return &ShellConfig{ShellCommand: getRunnerShell(), ShellArgument: getRunnerArg(), ElevatedShellCmd: getElevatedRunnerCmd(), ElevatedShellArg: getElevatedRunnerArg()}",
  "}"]

/-- src/command/command.go:ValidateShellConfig -/
def command_command__ValidateShellConfig : List String := [
  "func ValidateShellConfig(shell ShellConfig) {",
  "_, err := exec.LookPath(shell.ShellCommand)",
  "if err != nil {",
  "}",
  "}"]

/-- src/command/command.go:getElevatedRunnerArg -/
def command_command__getElevatedRunnerArg : List String := [
  "func getElevatedRunnerArg() string {",
  "arg := \"-S\"",
  "if runtime.GOOS == \"windows\" {",
  "arg = \"/user:Administrator\"",
  "}",
  "return arg",
  "}"]

/-- src/command/command.go:getElevatedRunnerCmd -/
def command_command__getElevatedRunnerCmd : List String := [
  "func getElevatedRunnerCmd() string {",
  "shell := \"sudo\"",
  "if runtime.GOOS == \"windows\" {",
  "shell = \"runas\"",
  "}",
  "return shell",
  "}"]

/-- src/command/command.go:getRunnerArg -/
def command_command__getRunnerArg : List String := [
  "func getRunnerArg() string {",
  "arg := \"-c\"",
  "if runtime.GOOS == \"windows\" {",
  "arg = \"/C\"",
  "}",
  "return arg",
  "}"]

/-- src/command/command.go:getRunnerShell -/
def command_command__getRunnerShell : List String := [
  "func getRunnerShell() string {",
  "shell, ok := os.LookupEnv(\"COMPOSE_SHELL\")",
  "if !ok {",
  "if runtime.GOOS == \"windows\" {",
  "shell = \"cmd\"",
  "} else {",
  "shell = \"bash\"",
  "}",
  "}",
  "return shell",
  "}"]

/-- src/command/command.go: its functions -/
def command_command__names : List String := [
  "BuildCommand",
  "BuildPtyCommand",
  "BuildCommandContext",
  "BuildCommandShellArgContext",
  "getRunnerShell",
  "getRunnerArg",
  "getElevatedRunnerCmd",
  "getElevatedRunnerArg",
  "DefaultShellConfig",
  "ValidateShellConfig"]

/-- src/command/command_wrapper.go:CmdWrapper.AttachIo -/
def command_command_wrapper__CmdWrapper_AttachIo : List String := [
  "func (c *CmdWrapper) AttachIo() {",
  "c.cmd.Stdin = os.Stdin",
  "c.cmd.Stdout = os.Stdout",
  "c.cmd.Stderr = os.Stderr",
  "}"]

/-- src/command/command_wrapper.go:CmdWrapper.ExitCode -/
def command_command_wrapper__CmdWrapper_ExitCode : List String := [
  "func (c *CmdWrapper) ExitCode() int {",
  "return c.cmd.ProcessState.ExitCode()",
  "}"]

/-- src/command/command_wrapper.go:CmdWrapper.Output -/
def command_command_wrapper__CmdWrapper_Output : List String := [
  "func (c *CmdWrapper) Output() ([]byte, error) {",
  "return c.cmd.Output()",
  "}"]

/-- src/command/command_wrapper.go:CmdWrapper.Pid -/
def command_command_wrapper__CmdWrapper_Pid : List String := [
  "func (c *CmdWrapper) Pid() int {",
  "return c.cmd.Process.Pid",
  "}"]

/-- src/command/command_wrapper.go:CmdWrapper.Run -/
def command_command_wrapper__CmdWrapper_Run : List String := [
  "func (c *CmdWrapper) Run() error {",
  "return c.cmd.Run()",
  "}"]

/-- src/command/command_wrapper.go:CmdWrapper.SetDir -/
def command_command_wrapper__CmdWrapper_SetDir : List String := [
  "func (c *CmdWrapper) SetDir(dir string) {",
  "c.cmd.Dir = dir",
  "}"]

/-- src/command/command_wrapper.go:CmdWrapper.SetEnv -/
def command_command_wrapper__CmdWrapper_SetEnv : List String := [
  "func (c *CmdWrapper) SetEnv(env []string) {",
  "c.cmd.Env = env",
  "}"]

/-- src/command/command_wrapper.go:CmdWrapper.Start -/
def command_command_wrapper__CmdWrapper_Start : List String := [
  "func (c *CmdWrapper) Start() error {",
  "return c.cmd.Start()",
  "}"]

/-- src/command/command_wrapper.go:CmdWrapper.StderrPipe -/
def command_command_wrapper__CmdWrapper_StderrPipe : List String := [
  "func (c *CmdWrapper) StderrPipe() (io.ReadCloser, error) {",
  "return c.cmd.StderrPipe()",
  "}"]

/-- src/command/command_wrapper.go:CmdWrapper.StdinPipe -/
def command_command_wrapper__CmdWrapper_StdinPipe : List String := [
  "func (c *CmdWrapper) StdinPipe() (io.WriteCloser, error) {",
  "return c.cmd.StdinPipe()",
  "}"]

/-- src/command/command_wrapper.go:CmdWrapper.StdoutPipe -/
def command_command_wrapper__CmdWrapper_StdoutPipe : List String := [
  "func (c *CmdWrapper) StdoutPipe() (io.ReadCloser, error) {",
  "return c.cmd.StdoutPipe()",
  "}"]

/-- src/command/command_wrapper.go:CmdWrapper.Wait -/
def command_command_wrapper__CmdWrapper_Wait : List String := [
  "func (c *CmdWrapper) Wait() error {",
  "return c.cmd.Wait()",
  "}"]

/-- src/command/command_wrapper.go: its functions -/
def command_command_wrapper__names : List String := [
  "CmdWrapper.Start",
  "CmdWrapper.Run",
  "CmdWrapper.Wait",
  "CmdWrapper.ExitCode",
  "CmdWrapper.Pid",
  "CmdWrapper.StdoutPipe",
  "CmdWrapper.StderrPipe",
  "CmdWrapper.StdinPipe",
  "CmdWrapper.AttachIo",
  "CmdWrapper.SetEnv",
  "CmdWrapper.SetDir",
  "CmdWrapper.Output"]

/-- src/command/command_wrapper_pty.go:CmdWrapperPty.SetCmdArgs -/
def command_command_wrapper_pty__CmdWrapperPty_SetCmdArgs : List String := [
  "func (c *CmdWrapperPty) SetCmdArgs() {",
  "}"]

/-- src/command/command_wrapper_pty.go:CmdWrapperPty.Start -/
def command_command_wrapper_pty__CmdWrapperPty_Start : List String := [
  "func (c *CmdWrapperPty) Start() (err error) {",
  "if c.ptmx != nil {",
  "return nil",
  "}",
  "c.ptmx, err = pty.Start(c.cmd)",
  "if err != nil {",
  "return fmt.Errorf(\"error starting PTY command: %w\", err)",
  "}",
  "_, err = term.MakeRaw(int(c.ptmx.Fd()))",
  "if err != nil {",
  "return fmt.Errorf(\"error putting PTY into raw mode: %w\", err)",
  "}",
  "return err",
  "}"]

/-- src/command/command_wrapper_pty.go:CmdWrapperPty.StderrPipe -/
def command_command_wrapper_pty__CmdWrapperPty_StderrPipe : List String := [
  "func (c *CmdWrapperPty) StderrPipe() (io.ReadCloser, error) {",
  "return nil, errors.New(\"not supported in PTY\")",
  "}"]

/-- src/command/command_wrapper_pty.go:CmdWrapperPty.StdinPipe -/
def command_command_wrapper_pty__CmdWrapperPty_StdinPipe : List String := [
  "func (c *CmdWrapperPty) StdinPipe() (io.WriteCloser, error) {",
  "if c.ptmx == nil {",
  "err := c.Start()",
  "if err != nil {",
  "return nil, err",
  "}",
  "}",
  "return c.ptmx, nil",
  "}"]

/-- src/command/command_wrapper_pty.go:CmdWrapperPty.StdoutPipe -/
def command_command_wrapper_pty__CmdWrapperPty_StdoutPipe : List String := [
  "func (c *CmdWrapperPty) StdoutPipe() (io.ReadCloser, error) {",
  "if c.ptmx == nil {",
  "err := c.Start()",
  "if err != nil {",
  "return nil, err",
  "}",
  "}",
  "return c.ptmx, nil",
  "}"]

/-- src/command/command_wrapper_pty.go:CmdWrapperPty.Wait -/
def command_command_wrapper_pty__CmdWrapperPty_Wait : List String := [
  "func (c *CmdWrapperPty) Wait() error {",
  "defer c.ptmx.Close()",
  "return c.cmd.Wait()",
  "}"]

/-- src/command/command_wrapper_pty.go: its functions -/
def command_command_wrapper_pty__names : List String := [
  "CmdWrapperPty.Start",
  "CmdWrapperPty.Wait",
  "CmdWrapperPty.StdoutPipe",
  "CmdWrapperPty.StderrPipe",
  "CmdWrapperPty.StdinPipe",
  "CmdWrapperPty.SetCmdArgs"]

/-- src/command/stopper_unix.go:CmdWrapper.SetCmdArgs -/
def command_stopper_unix__CmdWrapper_SetCmdArgs : List String := [
  "func (c *CmdWrapper) SetCmdArgs() {",
  "c.cmd.SysProcAttr = &syscall.SysProcAttr{Setpgid: true}",
  "}"]

/-- src/command/stopper_unix.go:CmdWrapper.Stop -/
def command_stopper_unix__CmdWrapper_Stop : List String := [
  "func (c *CmdWrapper) Stop(sig int, parentOnly bool) error {",
  "if c.cmd == nil {",
  "return nil",
  "}",
  "if sig < min_sig || sig > max_sig {",
  "sig = int(syscall.SIGTERM)",
  "}",
  "if parentOnly {",
  "return c.cmd.Process.Signal(syscall.Signal(sig))",
  "}",
  "pgid, err := syscall.Getpgid(c.Pid())",
  "if err == nil {",
  "return syscall.Kill(-pgid, syscall.Signal(sig))",
  "}",
  "return err",
  "}"]

/-- src/command/stopper_unix.go: its functions -/
def command_stopper_unix__names : List String := [
  "CmdWrapper.Stop",
  "CmdWrapper.SetCmdArgs"]

/-- src/health/exec_checker.go:execChecker.Status -/
def health_exec_checker__execChecker_Status : List String := [
  "func (c *execChecker) Status() (interface{}, error) {",
  "ctx, cancel := context.WithTimeout(context.Background(), time.Duration(c.timeout)*time.Second)",
  "defer cancel()",
  "cmd := command.BuildCommandContext(ctx, c.command)",
  "cmd.SetDir(c.workingDir)",
  "if err := cmd.Run(); err != nil {",
  "return nil, err",
  "}",
  "return map[string]int{\"exit_code\": cmd.ExitCode()}, nil",
  "}"]

/-- src/health/exec_checker.go: its functions -/
def health_exec_checker__names : List String := [
  "execChecker.Status"]

/-- src/health/health_checks.go:New -/
def health_health_checks__New : List String := [
  "func New(name string, probe Probe, onCheckEnd func(bool, bool, string)) (*Prober, error) {",
  "probe.ValidateAndSetDefaults()",
  "p := &Prober{probe: probe, name: name, onCheckEndFunc: onCheckEnd, hc: health.New()}",
  "p.hc.DisableLogging()",
  "if probe.Exec != nil {",
  "err := p.addProber(p.getExecChecker)",
  "if err != nil {",
  "return nil, err",
  "}",
  "return p, err",
  "}",
  "if probe.HttpGet != nil {",
  "err := p.addProber(p.getHttpChecker)",
  "if err != nil {",
  "return nil, err",
  "}",
  "return p, err",
  "}",
  "return nil, fmt.Errorf(\"no probes [http_get, exec] configured for %s\", name)",
  "}"]

/-- src/health/health_checks.go:Prober.Start -/
def health_health_checks__Prober_Start : List String := [
  "func (p *Prober) Start() {",
  "go func() {",
  "p.stopped.Store(false)",
  "time.Sleep(time.Duration(p.probe.InitialDelay) * time.Second)",
  "if p.stopped.Load() {",
  "return",
  "}",
  "err := p.hc.Start()",
  "if err != nil && !errors.Is(err, health.ErrAlreadyRunning) {",
  "return",
  "}",
  "}()",
  "}"]

/-- src/health/health_checks.go:Prober.Stop -/
def health_health_checks__Prober_Stop : List String := [
  "func (p *Prober) Stop() {",
  "if p.hc != nil {",
  "_ = p.hc.Stop()",
  "p.stopped.Store(true)",
  "}",
  "}"]

/-- src/health/health_checks.go:Prober.addProber -/
def health_health_checks__Prober_addProber : List String := [
  "func (p *Prober) addProber(factory func() (health.ICheckable, error)) error {",
  "checker, err := factory()",
  "if err != nil {",
  "return err",
  "}",
  "return p.hc.AddCheck(&health.Config{Name: p.name, Checker: checker, Interval: time.Duration(p.probe.PeriodSeconds) * time.Second, Fatal: false, OnComplete: p.healthCheckCompleted})",
  "}"]

/-- src/health/health_checks.go:Prober.getExecChecker -/
def health_health_checks__Prober_getExecChecker : List String := [
  "func (p *Prober) getExecChecker() (health.ICheckable, error) {",
  "return &execChecker{command: p.probe.Exec.Command, timeout: p.probe.TimeoutSeconds, workingDir: p.probe.Exec.WorkingDir}, nil",
  "}"]

/-- src/health/health_checks.go:Prober.getHttpChecker -/
def health_health_checks__Prober_getHttpChecker : List String := [
  "func (p *Prober) getHttpChecker() (health.ICheckable, error) {",
  "url, err := p.probe.HttpGet.getUrl()",
  "if err != nil {",
  "return nil, err",
  "}",
  "checker, err := checkers.NewHTTP(&checkers.HTTPConfig{URL: url, Timeout: time.Duration(p.probe.TimeoutSeconds) * time.Second})",
  "if err != nil {",
  "return nil, err",
  "}",
  "return checker, nil",
  "}"]

/-- src/health/health_checks.go:Prober.healthCheckCompleted -/
def health_health_checks__Prober_healthCheckCompleted : List String := [
  "func (p *Prober) healthCheckCompleted(state *health.State) {",
  "fatal := false",
  "ok := false",
  "if state.ContiguousFailures == int64(p.probe.FailureThreshold) {",
  "fatal = true",
  "}",
  "if state.Status == OK {",
  "ok = true",
  "}",
  "if p.stopped.Load() {",
  "return",
  "}",
  "p.onCheckEndFunc(ok, fatal, state.Err)",
  "}"]

/-- src/health/health_checks.go: its functions -/
def health_health_checks__names : List String := [
  "New",
  "Prober.Start",
  "Prober.Stop",
  "Prober.healthCheckCompleted",
  "Prober.addProber",
  "Prober.getHttpChecker",
  "Prober.getExecChecker"]

/-- src/health/probe.go:HttpProbe.getUrl -/
def health_probe__HttpProbe_getUrl : List String := [
  "func (h *HttpProbe) getUrl() (*url.URL, error) {",
  "urlStr := \"\"",
  "if h.NumPort != 0 {",
  "urlStr = fmt.Sprintf(\"%s://%s:%d%s\", h.Scheme, h.Host, h.NumPort, h.Path)",
  "}",
  "if h.NumPort == 0 {",
  "urlStr = fmt.Sprintf(\"%s://%s%s\", h.Scheme, h.Host, h.Path)",
  "}",
  "return url.Parse(urlStr)",
  "}"]

/-- src/health/probe.go:HttpProbe.validateAndSetHttpDefaults -/
def health_probe__HttpProbe_validateAndSetHttpDefaults : List String := [
  "func (p *HttpProbe) validateAndSetHttpDefaults() {",
  "if len(strings.TrimSpace(p.Host)) == 0 {",
  "p.Host = \"127.0.0.1\"",
  "}",
  "if len(strings.TrimSpace(p.Scheme)) == 0 {",
  "p.Scheme = \"http\"",
  "}",
  "if len(strings.TrimSpace(p.Path)) == 0 {",
  "p.Path = \"/\"",
  "}",
  "if p.Port == \"\" {",
  "p.NumPort = 0",
  "} else {",
  "p.NumPort, _ = strconv.Atoi(p.Port)",
  "}",
  "if p.NumPort < 1 || p.NumPort > 65535 {",
  "p.NumPort = 0",
  "}",
  "}"]

/-- src/health/probe.go:Probe.ValidateAndSetDefaults -/
def health_probe__Probe_ValidateAndSetDefaults : List String := [
  "func (p *Probe) ValidateAndSetDefaults() {",
  "if p.InitialDelay < 0 {",
  "p.InitialDelay = 0",
  "}",
  "if p.PeriodSeconds < 1 {",
  "p.PeriodSeconds = 10",
  "}",
  "if p.TimeoutSeconds < 1 {",
  "p.TimeoutSeconds = 1",
  "}",
  "if p.SuccessThreshold < 1 {",
  "p.SuccessThreshold = 1",
  "}",
  "if p.FailureThreshold < 1 {",
  "p.FailureThreshold = 3",
  "}",
  "if p.HttpGet != nil {",
  "p.HttpGet.validateAndSetHttpDefaults()",
  "}",
  "}"]

/-- src/health/probe.go: its functions -/
def health_probe__names : List String := [
  "HttpProbe.getUrl",
  "Probe.ValidateAndSetDefaults",
  "HttpProbe.validateAndSetHttpDefaults"]

/-- src/loader/loader.go:Load -/
def loader_loader__Load : List String := [
  "func Load(opts *LoaderOptions) (*types.Project, error) {",
  "err := autoDiscoverComposeFile(opts)",
  "if err != nil {",
  "return nil, err",
  "}",
  "fileNames := make([]string, len(opts.FileNames))",
  "_ = copy(fileNames, opts.FileNames)",
  "for idx, file := range fileNames {",
  "prj, err := loadProjectFromFile(file, opts)",
  "if err != nil {",
  "return nil, err",
  "}",
  "err = loadExtendProject(prj, opts, file, idx)",
  "if err != nil {",
  "if opts.IsInternalLoader {",
  "return nil, err",
  "}",
  "}",
  "opts.projects = append(opts.projects, prj)",
  "}",
  "mergedProject, err := merge(opts)",
  "if err != nil {",
  "return nil, err",
  "}",
  "mergedProject.FileNames = opts.FileNames",
  "mergedProject.EnvFileNames = opts.EnvFileNames",
  "mergedProject.IsTuiDisabled = opts.isTuiDisabled || mergedProject.IsTuiDisabled",
  "apply(mergedProject, setDefaultShell, setDefaultLogLength, assignDefaultProcessValues, cloneReplicas, copyWorkingDirToProbes)",
  "err = applyWithErr(mergedProject, renderTemplates)",
  "if err != nil {",
  "return nil, err",
  "}",
  "apply(mergedProject, assignExecutableAndArgs)",
  "err = validate(mergedProject, validateLogLevel, validateProcessConfig, validateNoCircularDependencies, validateShellConfig, validatePlatformCompatibility, validateHealthDependencyHasHealthCheck, validateDependencyIsEnabled, validateNoIncompatibleHealthChecks)",
  "admitProcesses(opts, mergedProject)",
  "return mergedProject, err",
  "}"]

/-- src/loader/loader.go:admitProcesses -/
def loader_loader__admitProcesses : List String := [
  "func admitProcesses(opts *LoaderOptions, p *types.Project) *types.Project {",
  "if opts.admitters == nil {",
  "return p",
  "}",
  "for _, process := range p.Processes {",
  "for _, adm := range opts.admitters {",
  "if !adm.Admit(&process) {",
  "delete(p.Processes, process.ReplicaName)",
  "}",
  "}",
  "}",
  "return p",
  "}"]

/-- src/loader/loader.go:autoDiscoverComposeFile -/
def loader_loader__autoDiscoverComposeFile : List String := [
  "func autoDiscoverComposeFile(opts *LoaderOptions) error {",
  "if len(opts.FileNames) > 0 {",
  "return nil",
  "}",
  "pwd, err := opts.getWorkingDir()",
  "if err != nil {",
  "return err",
  "}",
  "candidates := findFiles(DefaultFileNames, pwd)",
  "if len(candidates) > 0 {",
  "if len(candidates) > 1 {",
  "}",
  "opts.FileNames = append(opts.FileNames, candidates[0])",
  "overrides := findFiles(DefaultOverrideFileNames, pwd)",
  "if len(overrides) > 0 {",
  "if len(overrides) > 1 {",
  "}",
  "opts.FileNames = append(opts.FileNames, overrides[0])",
  "}",
  "return nil",
  "}",
  "return fmt.Errorf(\"no config files found in %s\", pwd)",
  "}"]

/-- src/loader/loader.go:findFiles -/
def loader_loader__findFiles : List String := [
  "func findFiles(names []string, pwd string) []string {",
  "candidates := []string{}",
  "for _, n := range names {",
  "f := filepath.Join(pwd, n)",
  "if _, err := os.Stat(f); err == nil {",
  "candidates = append(candidates, f)",
  "}",
  "}",
  "return candidates",
  "}"]

/-- src/loader/loader.go:loadExtendProject -/
def loader_loader__loadExtendProject : List String := [
  "func loadExtendProject(p *types.Project, opts *LoaderOptions, file string, index int) error {",
  "if p.ExtendsProject != \"\" {",
  "if !filepath.IsAbs(p.ExtendsProject) {",
  "p.ExtendsProject = filepath.Join(filepath.Dir(file), p.ExtendsProject)",
  "}",
  "if slices.Contains(opts.FileNames, p.ExtendsProject) {",
  "return fmt.Errorf(\"project %s is already specified in files to load\", p.ExtendsProject)",
  "}",
  "opts.FileNames = slices.Insert(opts.FileNames, index, p.ExtendsProject)",
  "project, err := loadProjectFromFile(p.ExtendsProject, opts)",
  "if err != nil {",
  "return fmt.Errorf(\"failed to load extend project %s: %w\", p.ExtendsProject, err)",
  "}",
  "copyWorkingDirToProcesses(project, filepath.Dir(p.ExtendsProject))",
  "opts.projects = slices.Insert(opts.projects, index, project)",
  "err = loadExtendProject(project, opts, p.ExtendsProject, index)",
  "if err != nil {",
  "return fmt.Errorf(\"failed to load extend project %s: %w\", p.ExtendsProject, err)",
  "}",
  "}",
  "return nil",
  "}"]

/-- src/loader/loader.go:loadProjectFromFile -/
def loader_loader__loadProjectFromFile : List String := [
  "func loadProjectFromFile(inputFile string, opts *LoaderOptions) (*types.Project, error) {",
  "yamlFile, err := os.ReadFile(inputFile)",
  "if err != nil {",
  "if errors.Is(err, os.ErrNotExist) {",
  "}",
  "if opts.IsInternalLoader {",
  "return nil, err",
  "}",
  "}",
  "if !opts.disableDotenv {",
  "_ = godotenv.Load(opts.EnvFileNames...)",
  "}",
  "const envEscaped = \"##PC_ENV_ESCAPED##\"",
  "temp := strings.ReplaceAll(string(yamlFile), \"$$\", envEscaped)",
  "temp = os.ExpandEnv(temp)",
  "temp = strings.ReplaceAll(temp, envEscaped, \"$\")",
  "project := &types.Project{}",
  "err = yaml.Unmarshal([]byte(temp), project)",
  "if err != nil {",
  "if opts.IsInternalLoader {",
  "return nil, err",
  "}",
  "}",
  "if project.DisableEnvExpansion {",
  "err = yaml.Unmarshal(yamlFile, project)",
  "if err != nil {",
  "if opts.IsInternalLoader {",
  "return nil, err",
  "}",
  "}",
  "}",
  "return project, nil",
  "}"]

/-- src/loader/loader_options.go:LoaderOptions.AddAdmitter -/
def loader_loader_options__LoaderOptions_AddAdmitter : List String := [
  "func (o *LoaderOptions) AddAdmitter(adm ...admitter.Admitter) {",
  "o.admitters = append(o.admitters, adm...)",
  "}"]

/-- src/loader/loader_options.go:LoaderOptions.DisableDotenv -/
def loader_loader_options__LoaderOptions_DisableDotenv : List String := [
  "func (o *LoaderOptions) DisableDotenv(disabled bool) {",
  "o.disableDotenv = disabled",
  "}"]

/-- src/loader/loader_options.go:LoaderOptions.WithTuiDisabled -/
def loader_loader_options__LoaderOptions_WithTuiDisabled : List String := [
  "func (o *LoaderOptions) WithTuiDisabled(disabled bool) {",
  "o.isTuiDisabled = disabled",
  "}"]

/-- src/loader/loader_options.go:LoaderOptions.getWorkingDir -/
def loader_loader_options__LoaderOptions_getWorkingDir : List String := [
  "func (o *LoaderOptions) getWorkingDir() (string, error) {",
  "if o.workingDir != \"\" {",
  "return o.workingDir, nil",
  "}",
  "for _, path := range o.FileNames {",
  "if path != \"-\" {",
  "absPath, err := filepath.Abs(path)",
  "if err != nil {",
  "return \"\", err",
  "}",
  "return filepath.Dir(absPath), nil",
  "}",
  "}",
  "return os.Getwd()",
  "}"]

/-- src/loader/loader_options.go: its functions -/
def loader_loader_options__names : List String := [
  "LoaderOptions.AddAdmitter",
  "LoaderOptions.getWorkingDir",
  "LoaderOptions.DisableDotenv",
  "LoaderOptions.WithTuiDisabled"]

/-- src/loader/merger.go:merge -/
def loader_merger__merge : List String := [
  "func merge(opts *LoaderOptions) (*types.Project, error) {",
  "base := opts.projects[0]",
  "if len(opts.projects) == 1 {",
  "return base, nil",
  "}",
  "for i, override := range opts.projects[1:] {",
  "if err := mergeProjects(base, override); err != nil {",
  "return base, fmt.Errorf(\"cannot merge projects from %s - %v\", opts.FileNames[i], err)",
  "}",
  "}",
  "return base, nil",
  "}"]

/-- src/loader/merger.go:mergeProcess -/
def loader_merger__mergeProcess : List String := [
  "func mergeProcess(base, override *types.ProcessConfig) (*types.ProcessConfig, error) {",
  "if err := mergo.Merge(base, override, mergo.WithAppendSlice, mergo.WithOverride, mergo.WithTransformers(processSpecials)); err != nil {",
  "return nil, err",
  "}",
  "return base, nil",
  "}"]

/-- src/loader/merger.go:mergeProcesses -/
def loader_merger__mergeProcesses : List String := [
  "func mergeProcesses(base, override types.Processes) (types.Processes, error) {",
  "for name, overrideProcess := range override {",
  "if baseProcess, ok := base[name]; ok {",
  "merged, err := mergeProcess(&baseProcess, &overrideProcess)",
  "if err != nil {",
  "return nil, fmt.Errorf(\"cannot merge process %s - %v\", name, err)",
  "}",
  "base[name] = *merged",
  "continue",
  "}",
  "base[name] = overrideProcess",
  "}",
  "return base, nil",
  "}"]

/-- src/loader/merger.go:mergeProjects -/
def loader_merger__mergeProjects : List String := [
  "func mergeProjects(base, override *types.Project) error {",
  "if err := mergo.Merge(base, override, mergo.WithAppendSlice, mergo.WithOverride, mergo.WithTransformers(projectSpecials)); err != nil {",
  "return err",
  "}",
  "return nil",
  "}"]

/-- src/loader/merger.go:mergeSlice -/
def loader_merger__mergeSlice : List String := [
  "func mergeSlice(toMap toMapFn, writeValue writeValueFromMapFn) func(dst, src reflect.Value) error {",
  "return func(dst, src reflect.Value) error {",
  "dstMap, err := sliceToMap(toMap, dst)",
  "if err != nil {",
  "return err",
  "}",
  "srcMap, err := sliceToMap(toMap, src)",
  "if err != nil {",
  "return err",
  "}",
  "if err := mergo.Map(&dstMap, srcMap, mergo.WithOverride); err != nil {",
  "return err",
  "}",
  "return writeValue(dst, dstMap)",
  "}",
  "}"]

/-- src/loader/merger.go: its functions -/
def loader_merger__names : List String := [
  "specials.Transformer",
  "mergeSlice",
  "sliceToMap",
  "toEnvVarMap",
  "toEnvVarSlice",
  "merge",
  "specialProcessesMerge",
  "mergeProcesses",
  "mergeProcess",
  "mergeProjects"]

/-- src/loader/merger.go:sliceToMap -/
def loader_merger__sliceToMap : List String := [
  "func sliceToMap(toMap toMapFn, v reflect.Value) (map[interface{}]interface{}, error) {",
  "if !v.IsValid() {",
  "return nil, fmt.Errorf(\"invalid value : %+v\", v)",
  "}",
  "return toMap(v.Interface())",
  "}"]

/-- src/loader/merger.go:specialProcessesMerge -/
def loader_merger__specialProcessesMerge : List String := [
  "func specialProcessesMerge(dst, src reflect.Value) error {",
  "if !dst.IsValid() {",
  "return fmt.Errorf(\"invalid value: %+v\", dst)",
  "}",
  "if !src.IsValid() {",
  "return fmt.Errorf(\"invalid value: %+v\", src)",
  "}",
  "var (",
  "dstProc types.Processes",
  "srcProc types.Processes",
  "ok bool",
  ")",
  "if dstProc, ok = dst.Interface().(types.Processes); !ok {",
  "return fmt.Errorf(\"invalid type: %+v\", dst)",
  "}",
  "if srcProc, ok = src.Interface().(types.Processes); !ok {",
  "return fmt.Errorf(\"invalid type: %+v\", src)",
  "}",
  "merged, err := mergeProcesses(dstProc, srcProc)",
  "dst.Set(reflect.ValueOf(merged))",
  "return err",
  "}"]

/-- src/loader/merger.go:specials.Transformer -/
def loader_merger__specials_Transformer : List String := [
  "func (s *specials) Transformer(t reflect.Type) func(dst, src reflect.Value) error {",
  "if fn, ok := s.m[t]; ok {",
  "return fn",
  "}",
  "return nil",
  "}"]

/-- src/loader/merger.go:toEnvVarMap -/
def loader_merger__toEnvVarMap : List String := [
  "func toEnvVarMap(s interface{}) (map[interface{}]interface{}, error) {",
  "envVars, ok := s.(types.Environment)",
  "if !ok {",
  "return nil, fmt.Errorf(\"not an Environment slice: %v\", s)",
  "}",
  "m := map[interface{}]interface{}{}",
  "for _, v := range envVars {",
  "kv := strings.SplitN(v, \"=\", 2)",
  "if len(kv) == 2 {",
  "m[kv[0]] = kv[1]",
  "}",
  "}",
  "return m, nil",
  "}"]

/-- src/loader/merger.go:toEnvVarSlice -/
def loader_merger__toEnvVarSlice : List String := [
  "func toEnvVarSlice(dst reflect.Value, m map[interface{}]interface{}) error {",
  "var s types.Environment",
  "for k, v := range m {",
  "kv := fmt.Sprintf(\"%s=%s\", k.(string), v.(string))",
  "s = append(s, kv)",
  "}",
  "sort.Strings(s)",
  "dst.Set(reflect.ValueOf(s))",
  "return nil",
  "}"]

/-- src/loader/mutators.go:apply -/
def loader_mutators__apply : List String := [
  "func apply(p *types.Project, m ...mutatorFunc) {",
  "for _, mut := range m {",
  "mut(p)",
  "}",
  "}"]

/-- src/loader/mutators.go:applyWithErr -/
def loader_mutators__applyWithErr : List String := [
  "func applyWithErr(p *types.Project, m ...mutatorFuncE) error {",
  "for _, mut := range m {",
  "if err := mut(p); err != nil {",
  "return err",
  "}",
  "}",
  "return nil",
  "}"]

/-- src/loader/mutators.go:assignDefaultProcessValues -/
def loader_mutators__assignDefaultProcessValues : List String := [
  "func assignDefaultProcessValues(p *types.Project) {",
  "if p.Processes == nil {",
  "p.Processes = make(map[string]types.ProcessConfig)",
  "}",
  "for name, proc := range p.Processes {",
  "if proc.Namespace == \"\" {",
  "proc.Namespace = types.DefaultNamespace",
  "}",
  "if proc.Replicas == 0 {",
  "proc.Replicas = 1",
  "}",
  "if proc.LaunchTimeout < 1 {",
  "proc.LaunchTimeout = types.DefaultLaunchTimeout",
  "}",
  "proc.Name = name",
  "p.Processes[name] = proc",
  "}",
  "}"]

/-- src/loader/mutators.go:assignExecutableAndArgs -/
def loader_mutators__assignExecutableAndArgs : List String := [
  "func assignExecutableAndArgs(p *types.Project) {",
  "elevatedShellArg := p.GetElevatedShellArg()",
  "for name, proc := range p.Processes {",
  "proc.AssignProcessExecutableAndArgs(p.ShellConfig, elevatedShellArg)",
  "p.Processes[name] = proc",
  "}",
  "}"]

/-- src/loader/mutators.go:cloneReplicas -/
def loader_mutators__cloneReplicas : List String := [
  "func cloneReplicas(p *types.Project) {",
  "procsToAdd := make([]types.ProcessConfig, 0)",
  "procsToDel := make([]string, 0)",
  "for name, proc := range p.Processes {",
  "if proc.Replicas > 1 {",
  "procsToDel = append(procsToDel, name)",
  "}",
  "for replica := 0; replica < proc.Replicas; replica++ {",
  "proc.ReplicaNum = replica",
  "repName := proc.CalculateReplicaName()",
  "proc.ReplicaName = repName",
  "if proc.Replicas == 1 {",
  "p.Processes[repName] = proc",
  "} else {",
  "procsToAdd = append(procsToAdd, replicaCopy(proc))",
  "}",
  "}",
  "}",
  "for _, name := range procsToDel {",
  "delete(p.Processes, name)",
  "}",
  "for _, proc := range procsToAdd {",
  "p.Processes[proc.ReplicaName] = proc",
  "}",
  "}"]

/-- src/loader/mutators.go:copyProbe -/
def loader_mutators__copyProbe : List String := [
  "func copyProbe(probe *health.Probe) *health.Probe {",
  "if probe == nil {",
  "return nil",
  "}",
  "cp := *probe",
  "if probe.Exec != nil {",
  "exec := *probe.Exec",
  "cp.Exec = &exec",
  "}",
  "if probe.HttpGet != nil {",
  "httpGet := *probe.HttpGet",
  "cp.HttpGet = &httpGet",
  "}",
  "return &cp",
  "}"]

/-- src/loader/mutators.go:copyWorkingDirToProbes -/
def loader_mutators__copyWorkingDirToProbes : List String := [
  "func copyWorkingDirToProbes(p *types.Project) {",
  "for name, proc := range p.Processes {",
  "if proc.LivenessProbe != nil && proc.LivenessProbe.Exec != nil && proc.LivenessProbe.Exec.WorkingDir == \"\" {",
  "proc.LivenessProbe.Exec.WorkingDir = proc.WorkingDir",
  "}",
  "if proc.ReadinessProbe != nil && proc.ReadinessProbe.Exec != nil && proc.ReadinessProbe.Exec.WorkingDir == \"\" {",
  "proc.ReadinessProbe.Exec.WorkingDir = proc.WorkingDir",
  "}",
  "p.Processes[name] = proc",
  "}",
  "}"]

/-- src/loader/mutators.go:copyWorkingDirToProcesses -/
def loader_mutators__copyWorkingDirToProcesses : List String := [
  "func copyWorkingDirToProcesses(p *types.Project, wd string) {",
  "for name, proc := range p.Processes {",
  "if proc.WorkingDir == \"\" {",
  "proc.WorkingDir = wd",
  "p.Processes[name] = proc",
  "} else if !filepath.IsAbs(proc.WorkingDir) {",
  "proc.WorkingDir = filepath.Join(wd, proc.WorkingDir)",
  "p.Processes[name] = proc",
  "}",
  "}",
  "}"]

/-- src/loader/mutators.go:renderTemplates -/
def loader_mutators__renderTemplates : List String := [
  "func renderTemplates(p *types.Project) error {",
  "tpl := templater.New(p.Vars)",
  "for name, proc := range p.Processes {",
  "tpl.RenderProcess(&proc)",
  "if tpl.GetError() != nil {",
  "return fmt.Errorf(\"error rendering template for process %s: %w\", name, tpl.GetError())",
  "}",
  "p.Processes[name] = proc",
  "}",
  "return nil",
  "}"]

/-- src/loader/mutators.go:replicaCopy -/
def loader_mutators__replicaCopy : List String := [
  "func replicaCopy(proc types.ProcessConfig) types.ProcessConfig {",
  "proc.Vars = maps.Clone(proc.Vars)",
  "proc.LivenessProbe = copyProbe(proc.LivenessProbe)",
  "proc.ReadinessProbe = copyProbe(proc.ReadinessProbe)",
  "return proc",
  "}"]

/-- src/loader/mutators.go:setDefaultShell -/
def loader_mutators__setDefaultShell : List String := [
  "func setDefaultShell(p *types.Project) {",
  "if p.ShellConfig == nil {",
  "p.ShellConfig = command.DefaultShellConfig()",
  "} else if p.ShellConfig.ElevatedShellCmd == \"\" || p.ShellConfig.ElevatedShellArg == \"\" {",
  "shell := command.DefaultShellConfig()",
  "p.ShellConfig.ElevatedShellCmd = shell.ElevatedShellCmd",
  "p.ShellConfig.ElevatedShellArg = shell.ElevatedShellArg",
  "}",
  "}"]

/-- src/loader/validators.go:isCyclicHelper -/
def loader_validators__isCyclicHelper : List String := [
  "func isCyclicHelper(p *types.Project, procName string, visited map[string]bool, stack map[string]bool) bool {",
  "visited[procName] = true",
  "stack[procName] = true",
  "processes, err := p.GetProcesses(procName)",
  "if err != nil {",
  "return false",
  "}",
  "for _, process := range processes {",
  "dependencies := process.GetDependencies()",
  "for _, neighbor := range dependencies {",
  "if !visited[neighbor] {",
  "if isCyclicHelper(p, neighbor, visited, stack) {",
  "return true",
  "}",
  "} else if stack[neighbor] {",
  "return true",
  "}",
  "}",
  "}",
  "stack[procName] = false",
  "return false",
  "}"]

/-- src/loader/validators.go:validate -/
def loader_validators__validate : List String := [
  "func validate(p *types.Project, v ...validatorFunc) error {",
  "for _, f := range v {",
  "if err := f(p); err != nil {",
  "return err",
  "}",
  "}",
  "return nil",
  "}"]

/-- src/loader/validators.go:validateDependencyIsEnabled -/
def loader_validators__validateDependencyIsEnabled : List String := [
  "func validateDependencyIsEnabled(p *types.Project) error {",
  "for procName, proc := range p.Processes {",
  "for depName := range proc.DependsOn {",
  "depProc, ok := p.Processes[depName]",
  "if !ok {",
  "errStr := fmt.Sprintf(\"dependency process '%s' in process '%s' is not defined\", depName, procName)",
  "return errors.New(errStr)",
  "}",
  "if depProc.Disabled && !proc.Disabled {",
  "errStr := fmt.Sprintf(\"dependency process '%s' in process '%s' is disabled\", depName, procName)",
  "if p.IsStrict {",
  "return errors.New(errStr)",
  "}",
  "}",
  "}",
  "}",
  "return nil",
  "}"]

/-- src/loader/validators.go:validateHealthDependencyHasHealthCheck -/
def loader_validators__validateHealthDependencyHasHealthCheck : List String := [
  "func validateHealthDependencyHasHealthCheck(p *types.Project) error {",
  "for procName, proc := range p.Processes {",
  "for depName, dep := range proc.DependsOn {",
  "depProc, ok := p.Processes[depName]",
  "if !ok {",
  "errStr := fmt.Sprintf(\"dependency process '%s' in process '%s' is not defined\", depName, procName)",
  "if p.IsStrict {",
  "return errors.New(errStr)",
  "}",
  "continue",
  "}",
  "if dep.Condition == types.ProcessConditionHealthy && depProc.ReadinessProbe == nil && depProc.LivenessProbe == nil {",
  "errStr := fmt.Sprintf(\"health dependency defined in '%s' but no health check exists in '%s'\", procName, depName)",
  "if p.IsStrict {",
  "return errors.New(errStr)",
  "}",
  "}",
  "if dep.Condition == types.ProcessConditionLogReady && depProc.ReadyLogLine == \"\" {",
  "errStr := fmt.Sprintf(\"log ready dependency defined in '%s' but no ready log line exists in '%s'\", procName, depName)",
  "return errors.New(errStr)",
  "}",
  "}",
  "}",
  "return nil",
  "}"]

/-- src/loader/validators.go:validateNoCircularDependencies -/
def loader_validators__validateNoCircularDependencies : List String := [
  "func validateNoCircularDependencies(p *types.Project) error {",
  "visited := make(map[string]bool, len(p.Processes))",
  "stack := make(map[string]bool)",
  "for name := range p.Processes {",
  "if !visited[name] {",
  "if isCyclicHelper(p, name, visited, stack) {",
  "return fmt.Errorf(\"circular dependency found in '%s'\", name)",
  "}",
  "}",
  "}",
  "return nil",
  "}"]

/-- src/loader/validators.go:validateNoIncompatibleHealthChecks -/
def loader_validators__validateNoIncompatibleHealthChecks : List String := [
  "func validateNoIncompatibleHealthChecks(p *types.Project) error {",
  "for procName, proc := range p.Processes {",
  "if proc.ReadinessProbe != nil && proc.ReadyLogLine != \"\" {",
  "errStr := fmt.Sprintf(\"'ready_log_line' and readiness probe defined in '%s' are incompatible\", procName)",
  "return errors.New(errStr)",
  "}",
  "}",
  "return nil",
  "}"]

/-- src/loader/validators.go:validateProcessConfig -/
def loader_validators__validateProcessConfig : List String := [
  "func validateProcessConfig(p *types.Project) error {",
  "for _, proc := range p.Processes {",
  "err := proc.ValidateProcessConfig()",
  "if err != nil {",
  "if p.IsStrict {",
  "return err",
  "}",
  "}",
  "}",
  "return nil",
  "}"]

/-- src/loader/validators.go:validateShellConfig -/
def loader_validators__validateShellConfig : List String := [
  "func validateShellConfig(p *types.Project) error {",
  "_, err := exec.LookPath(p.ShellConfig.ShellCommand)",
  "if err != nil {",
  "}",
  "return err",
  "}"]

/-- src/pclog/log_observer_connector.go:Connector.GetTailLength -/
def pclog_log_observer_connector__Connector_GetTailLength : List String := [
  "func (c *Connector) GetTailLength() int {",
  "return c.taiLength",
  "}"]

/-- src/pclog/log_observer_connector.go:Connector.GetUniqueID -/
def pclog_log_observer_connector__Connector_GetUniqueID : List String := [
  "func (c *Connector) GetUniqueID() string {",
  "return c.uniqueId",
  "}"]

/-- src/pclog/log_observer_connector.go:Connector.SetLines -/
def pclog_log_observer_connector__Connector_SetLines : List String := [
  "func (c *Connector) SetLines(lines []string) {",
  "c.logLinesHandler(lines)",
  "}"]

/-- src/pclog/log_observer_connector.go:Connector.WriteString -/
def pclog_log_observer_connector__Connector_WriteString : List String := [
  "func (c *Connector) WriteString(s string) (n int, err error) {",
  "return c.logMessageHandler(s)",
  "}"]

/-- src/pclog/log_observer_connector.go:NewConnector -/
def pclog_log_observer_connector__NewConnector : List String := [
  "func NewConnector(mlHandler multiLineHandler, slHandler lineHandler, tail int) *Connector {",
  "return &Connector{logLinesHandler: mlHandler, logMessageHandler: slHandler, uniqueId: GenerateUniqueID(10), taiLength: tail}",
  "}"]

/-- src/pclog/log_observer_connector.go: its functions -/
def pclog_log_observer_connector__names : List String := [
  "NewConnector",
  "Connector.WriteString",
  "Connector.SetLines",
  "Connector.GetUniqueID",
  "Connector.GetTailLength"]

/-- src/pclog/logger_facade.go:NewLogger -/
def pclog_logger_facade__NewLogger : List String := [
  "func NewLogger() *PCLog {",
  "l := &PCLog{logEventChan: make(chan logEvent, 100)}",
  "return l",
  "}"]

/-- src/pclog/logger_facade.go:PCLog.Close -/
def pclog_logger_facade__PCLog_Close : List String := [
  "func (l *PCLog) Close() {",
  "if l.file == nil {",
  "return",
  "}",
  "l.closer.Do(func() {",
  "l.isClosed.Store(true)",
  "close(l.logEventChan)",
  "l.wg.Wait()",
  "l.writer.Flush()",
  "l.file.Close()",
  "})",
  "}"]

/-- src/pclog/logger_facade.go:PCLog.Error -/
def pclog_logger_facade__PCLog_Error : List String := [
  "func (l *PCLog) Error(message string, process string, replica int) {",
  "if l.isClosed.Load() {",
  "return",
  "}",
  "l.logEventChan <- logEvent{message: message, process: process, replica: replica, isErr: true}",
  "}"]

/-- src/pclog/logger_facade.go:PCLog.Info -/
def pclog_logger_facade__PCLog_Info : List String := [
  "func (l *PCLog) Info(message string, process string, replica int) {",
  "if l.isClosed.Load() {",
  "return",
  "}",
  "l.logEventChan <- logEvent{message: message, process: process, replica: replica, isErr: false}",
  "}"]

/-- src/pclog/logger_facade.go:PCLog.Open -/
def pclog_logger_facade__PCLog_Open : List String := [
  "func (l *PCLog) Open(filePath string, config *types.LoggerConfig) {",
  "if l.file != nil {",
  "return",
  "}",
  "if filePath == \"\" {",
  "return",
  "}",
  "f, err := l.getWriter(filePath, config)",
  "if err != nil {",
  "l.isClosed.Store(true)",
  "}",
  "l.writer = bufio.NewWriter(f)",
  "l.file = f",
  "if config == nil || !config.DisableJSON {",
  "l.logger = zerolog.New(l.writer)",
  "} else {",
  "out := zerolog.NewConsoleWriter(func(w *zerolog.ConsoleWriter) {",
  "w.Out = l.writer",
  "if len(config.FieldsOrder) > 0 {",
  "w.PartsOrder = config.FieldsOrder",
  "}",
  "if len(config.TimestampFormat) > 0 {",
  "w.TimeFormat = config.TimestampFormat",
  "}",
  "w.NoColor = config.NoColor",
  "})",
  "l.logger = zerolog.New(out)",
  "}",
  "if config != nil {",
  "l.noMetaData = config.NoMetadata",
  "l.flushEachLine = config.FlushEachLine",
  "if config.AddTimestamp {",
  "l.logger = l.logger.With().Timestamp().Logger()",
  "if len(config.TimestampFormat) > 0 {",
  "zerolog.TimeFieldFormat = config.TimestampFormat",
  "}",
  "}",
  "}",
  "l.wg.Add(1)",
  "go l.runCollector()",
  "}"]

/-- src/pclog/logger_facade.go:PCLog.getFileWriter -/
def pclog_logger_facade__PCLog_getFileWriter : List String := [
  "func (l *PCLog) getFileWriter(filePath string, config *types.LoggerConfig) (io.WriteCloser, error) {",
  "dirName := path.Dir(filePath)",
  "if err := os.MkdirAll(dirName, 0755); err != nil && !os.IsExist(err) {",
  "l.isClosed.Store(true)",
  "return nil, err",
  "}",
  "flags := os.O_WRONLY | os.O_CREATE | os.O_APPEND | os.O_TRUNC",
  "f, err := os.OpenFile(filePath, flags, 0600)",
  "if err != nil {",
  "l.isClosed.Store(true)",
  "return nil, err",
  "}",
  "return f, nil",
  "}"]

/-- src/pclog/logger_facade.go:PCLog.getRollingWriter -/
def pclog_logger_facade__PCLog_getRollingWriter : List String := [
  "func (l *PCLog) getRollingWriter(filePath string, rotation *types.LogRotationConfig) (io.WriteCloser, error) {",
  "return &lumberjack.Logger{Filename: filePath, MaxBackups: rotation.MaxBackups, MaxSize: rotation.MaxSize, MaxAge: rotation.MaxAge, LocalTime: true, Compress: rotation.Compress}, nil",
  "}"]

/-- src/pclog/logger_facade.go:PCLog.getWriter -/
def pclog_logger_facade__PCLog_getWriter : List String := [
  "func (l *PCLog) getWriter(filePath string, config *types.LoggerConfig) (io.WriteCloser, error) {",
  "isRotationEnabled := config != nil && config.Rotation != nil",
  "if !isRotationEnabled {",
  "return l.getFileWriter(filePath, config)",
  "} else {",
  "return l.getRollingWriter(filePath, config.Rotation)",
  "}",
  "}"]

/-- src/pclog/logger_facade.go:PCLog.runCollector -/
def pclog_logger_facade__PCLog_runCollector : List String := [
  "func (l *PCLog) runCollector() {",
  "for {",
  "event, open := <-l.logEventChan",
  "if !open {",
  "break",
  "}",
  "level := l.logger.Info()",
  "if event.isErr {",
  "level = l.logger.Error()",
  "}",
  "if !l.noMetaData {",
  "level = level.Str(\"process\", event.process).Int(\"replica\", event.replica)",
  "}",
  "level.Msg(event.message)",
  "if l.flushEachLine {",
  "l.writer.Flush()",
  "}",
  "}",
  "l.wg.Done()",
  "}"]

/-- src/pclog/logger_facade.go: its functions -/
def pclog_logger_facade__names : List String := [
  "NewLogger",
  "PCLog.Open",
  "PCLog.getWriter",
  "PCLog.getFileWriter",
  "PCLog.getRollingWriter",
  "PCLog.Info",
  "PCLog.Error",
  "PCLog.Close",
  "PCLog.runCollector"]

/-- src/pclog/process_log_buffer.go:NewLogBuffer -/
def pclog_process_log_buffer__NewLogBuffer : List String := [
  "func NewLogBuffer(size int) *ProcessLogBuffer {",
  "return &ProcessLogBuffer{size: size, buffer: make([]string, 0, size+slack), observers: map[string]LogObserver{}}",
  "}"]

/-- src/pclog/process_log_buffer.go:ProcessLogBuffer.Close -/
def pclog_process_log_buffer__ProcessLogBuffer_Close : List String := [
  "func (b *ProcessLogBuffer) Close() {",
  "b.mx.Lock()",
  "defer b.mx.Unlock()",
  "b.observers = map[string]LogObserver{}",
  "}"]

/-- src/pclog/process_log_buffer.go:ProcessLogBuffer.GetLogLength -/
def pclog_process_log_buffer__ProcessLogBuffer_GetLogLength : List String := [
  "func (b *ProcessLogBuffer) GetLogLength() int {",
  "b.mx.Lock()",
  "defer b.mx.Unlock()",
  "return len(b.buffer)",
  "}"]

/-- src/pclog/process_log_buffer.go:ProcessLogBuffer.GetLogRange -/
def pclog_process_log_buffer__ProcessLogBuffer_GetLogRange : List String := [
  "func (b *ProcessLogBuffer) GetLogRange(offsetFromEnd, limit int) []string {",
  "b.mx.Lock()",
  "defer b.mx.Unlock()",
  "return b.getLogRange(offsetFromEnd, limit)",
  "}"]

/-- src/pclog/process_log_buffer.go:ProcessLogBuffer.GetLogsAndSubscribe -/
def pclog_process_log_buffer__ProcessLogBuffer_GetLogsAndSubscribe : List String := [
  "func (b *ProcessLogBuffer) GetLogsAndSubscribe(observer LogObserver) {",
  "b.mx.Lock()",
  "defer b.mx.Unlock()",
  "observer.SetLines(b.getLogRange(observer.GetTailLength(), 0))",
  "b.observers[observer.GetUniqueID()] = observer",
  "}"]

/-- src/pclog/process_log_buffer.go:ProcessLogBuffer.Subscribe -/
def pclog_process_log_buffer__ProcessLogBuffer_Subscribe : List String := [
  "func (b *ProcessLogBuffer) Subscribe(observer LogObserver) {",
  "b.mx.Lock()",
  "defer b.mx.Unlock()",
  "b.observers[observer.GetUniqueID()] = observer",
  "}"]

/-- src/pclog/process_log_buffer.go:ProcessLogBuffer.UnSubscribe -/
def pclog_process_log_buffer__ProcessLogBuffer_UnSubscribe : List String := [
  "func (b *ProcessLogBuffer) UnSubscribe(observer LogObserver) {",
  "b.mx.Lock()",
  "defer b.mx.Unlock()",
  "delete(b.observers, observer.GetUniqueID())",
  "}"]

/-- src/pclog/process_log_buffer.go:ProcessLogBuffer.Write -/
def pclog_process_log_buffer__ProcessLogBuffer_Write : List String := [
  "func (b *ProcessLogBuffer) Write(message string) {",
  "b.mx.Lock()",
  "defer b.mx.Unlock()",
  "b.buffer = append(b.buffer, message)",
  "if len(b.buffer) > b.size+slack {",
  "b.buffer = b.buffer[slack:]",
  "}",
  "for _, observer := range b.observers {",
  "_, _ = observer.WriteString(message)",
  "}",
  "}"]

/-- src/pclog/process_log_buffer.go:ProcessLogBuffer.getLogRange -/
def pclog_process_log_buffer__ProcessLogBuffer_getLogRange : List String := [
  "func (b *ProcessLogBuffer) getLogRange(offsetFromEnd, limit int) []string {",
  "if len(b.buffer) == 0 {",
  "return []string{}",
  "}",
  "if offsetFromEnd < 0 {",
  "offsetFromEnd = 0",
  "}",
  "if offsetFromEnd > len(b.buffer) {",
  "offsetFromEnd = len(b.buffer)",
  "}",
  "if limit < 1 {",
  "limit = 0",
  "}",
  "if limit > offsetFromEnd {",
  "limit = offsetFromEnd",
  "}",
  "if limit == 0 {",
  "return b.buffer[len(b.buffer)-offsetFromEnd:]",
  "}",
  "return b.buffer[len(b.buffer)-offsetFromEnd : len(b.buffer)-offsetFromEnd+limit]",
  "}"]

/-- src/pclog/process_log_buffer.go: its functions -/
def pclog_process_log_buffer__names : List String := [
  "NewLogBuffer",
  "ProcessLogBuffer.Write",
  "ProcessLogBuffer.GetLogRange",
  "ProcessLogBuffer.getLogRange",
  "ProcessLogBuffer.GetLogLength",
  "ProcessLogBuffer.GetLogsAndSubscribe",
  "ProcessLogBuffer.Subscribe",
  "ProcessLogBuffer.UnSubscribe",
  "ProcessLogBuffer.Close"]

/-- src/templater/templater.go:New -/
def templater_templater__New : List String := [
  "func New(vars types.Vars) *Templater {",
  "return &Templater{vars: vars}",
  "}"]

/-- src/templater/templater.go:Templater.GetError -/
def templater_templater__Templater_GetError : List String := [
  "func (t *Templater) GetError() error {",
  "return t.err",
  "}"]

/-- src/templater/templater.go:Templater.Render -/
def templater_templater__Templater_Render : List String := [
  "func (t *Templater) Render(str string) string {",
  "return t.render(str, nil)",
  "}"]

/-- src/templater/templater.go:Templater.RenderProcess -/
def templater_templater__Templater_RenderProcess : List String := [
  "func (t *Templater) RenderProcess(proc *types.ProcessConfig) {",
  "if proc.Vars == nil {",
  "proc.Vars = make(types.Vars)",
  "}",
  "procConf, err := json.Marshal(proc)",
  "if err != nil {",
  "}",
  "proc.OriginalConfig = string(procConf)",
  "proc.Vars[\"PC_REPLICA_NUM\"] = proc.ReplicaNum",
  "proc.Command = t.RenderWithExtraVars(proc.Command, proc.Vars)",
  "proc.WorkingDir = t.RenderWithExtraVars(proc.WorkingDir, proc.Vars)",
  "proc.LogLocation = t.RenderWithExtraVars(proc.LogLocation, proc.Vars)",
  "proc.Description = t.RenderWithExtraVars(proc.Description, proc.Vars)",
  "t.renderProbe(proc.ReadinessProbe, proc)",
  "t.renderProbe(proc.LivenessProbe, proc)",
  "}"]

/-- src/templater/templater.go:Templater.RenderWithExtraVars -/
def templater_templater__Templater_RenderWithExtraVars : List String := [
  "func (t *Templater) RenderWithExtraVars(str string, extra types.Vars) string {",
  "return t.render(str, extra)",
  "}"]

/-- src/templater/templater.go:Templater.render -/
def templater_templater__Templater_render : List String := [
  "func (t *Templater) render(str string, extra types.Vars) string {",
  "if str == \"\" || t.err != nil {",
  "return \"\"",
  "}",
  "if len(t.vars) == 0 && len(extra) == 0 {",
  "return str",
  "}",
  "tpl, err := template.New(\"\").Parse(str)",
  "if err != nil {",
  "t.err = err",
  "return \"\"",
  "}",
  "var buf bytes.Buffer",
  "if extra == nil {",
  "err = tpl.Execute(&buf, t.vars)",
  "} else if len(t.vars) == 0 {",
  "err = tpl.Execute(&buf, extra)",
  "} else {",
  "m := maps.Clone(t.vars)",
  "maps.Copy(m, extra)",
  "err = tpl.Execute(&buf, m)",
  "}",
  "if err != nil {",
  "t.err = err",
  "return \"\"",
  "}",
  "return buf.String()",
  "}"]

/-- src/templater/templater.go:Templater.renderProbe -/
def templater_templater__Templater_renderProbe : List String := [
  "func (t *Templater) renderProbe(probe *health.Probe, procConf *types.ProcessConfig) {",
  "if probe == nil {",
  "return",
  "}",
  "if probe.Exec != nil {",
  "probe.Exec.Command = t.RenderWithExtraVars(probe.Exec.Command, procConf.Vars)",
  "} else if probe.HttpGet != nil {",
  "probe.HttpGet.Path = t.RenderWithExtraVars(probe.HttpGet.Path, procConf.Vars)",
  "probe.HttpGet.Host = t.RenderWithExtraVars(probe.HttpGet.Host, procConf.Vars)",
  "probe.HttpGet.Scheme = t.RenderWithExtraVars(probe.HttpGet.Scheme, procConf.Vars)",
  "probe.HttpGet.Port = t.RenderWithExtraVars(probe.HttpGet.Port, procConf.Vars)",
  "}",
  "probe.ValidateAndSetDefaults()",
  "}"]

/-- src/templater/templater.go: its functions -/
def templater_templater__names : List String := [
  "New",
  "Templater.RenderProcess",
  "Templater.renderProbe",
  "Templater.Render",
  "Templater.RenderWithExtraVars",
  "Templater.render",
  "Templater.GetError"]

/-- src/types/process.go:NewProcessState -/
def types_process__NewProcessState : List String := [
  "func NewProcessState(proc *ProcessConfig) *ProcessState {",
  "state := &ProcessState{Name: proc.ReplicaName, Namespace: proc.Namespace, Status: ProcessStatePending, SystemTime: PlaceHolderValue, Age: time.Duration(0), IsRunning: false, Health: ProcessHealthUnknown, HasHealthProbe: proc.ReadinessProbe != nil || proc.LivenessProbe != nil, Restarts: 0, ExitCode: 0, Mem: 0, CPU: 0, Pid: 0}",
  "if proc.Disabled {",
  "state.Status = ProcessStateDisabled",
  "} else if proc.IsForeground {",
  "state.Status = ProcessStateForeground",
  "}",
  "return state",
  "}"]

/-- src/types/process.go:ProcessConfig.AssignProcessExecutableAndArgs -/
def types_process__ProcessConfig_AssignProcessExecutableAndArgs : List String := [
  "func (p *ProcessConfig) AssignProcessExecutableAndArgs(shellConf *command.ShellConfig, elevatedShellArg string) {",
  "if p.Command != \"\" || len(p.Entrypoint) == 0 {",
  "if len(p.Entrypoint) > 0 {",
  "message := fmt.Sprintf(\"'command' and 'entrypoint' are set! Using command (process: %s)\", p.Name)",
  "_, _ = fmt.Fprintln(os.Stderr, \"process-compose:\", message)",
  "}",
  "p.Executable = shellConf.ShellCommand",
  "if len(p.Command) == 0 {",
  "return",
  "}",
  "if p.IsElevated {",
  "p.Args = []string{shellConf.ShellArgument, fmt.Sprintf(\"%s %s %s\", shellConf.ElevatedShellCmd, elevatedShellArg, p.Command)}",
  "} else {",
  "p.Args = []string{shellConf.ShellArgument, p.Command}",
  "}",
  "} else {",
  "if p.IsElevated {",
  "p.Entrypoint = append([]string{shellConf.ElevatedShellCmd, elevatedShellArg}, p.Entrypoint...)",
  "}",
  "p.Executable = p.Entrypoint[0]",
  "p.Args = p.Entrypoint[1:]",
  "}",
  "}"]

/-- src/types/process.go:ProcessConfig.CalculateReplicaName -/
def types_process__ProcessConfig_CalculateReplicaName : List String := [
  "func (p *ProcessConfig) CalculateReplicaName() string {",
  "if p.Replicas <= 1 {",
  "return p.Name",
  "}",
  "myWidth := 1 + int(math.Log10(float64(p.Replicas)))",
  "return fmt.Sprintf(\"%s-%0*d\", p.Name, myWidth, p.ReplicaNum)",
  "}"]

/-- src/types/process.go:ProcessConfig.Compare -/
def types_process__ProcessConfig_Compare : List String := [
  "func (p *ProcessConfig) Compare(another *ProcessConfig) bool {",
  "if p == nil || another == nil {",
  "return p == another",
  "}",
  "if p.Name != another.Name || p.Disabled != another.Disabled || p.IsDaemon != another.IsDaemon || p.Command != another.Command || p.LogLocation != another.LogLocation || p.ReadyLogLine != another.ReadyLogLine || p.DisableAnsiColors != another.DisableAnsiColors || p.WorkingDir != another.WorkingDir || p.Namespace != another.Namespace || p.Replicas != another.Replicas || p.Description != another.Description || p.IsForeground != another.IsForeground || p.IsTty != another.IsTty || p.IsElevated != another.IsElevated || p.Executable != another.Executable {",
  "return false",
  "}",
  "if !reflect.DeepEqual(p.LoggerConfig, another.LoggerConfig) || !reflect.DeepEqual(p.LivenessProbe, another.LivenessProbe) || !reflect.DeepEqual(p.ReadinessProbe, another.ReadinessProbe) || !reflect.DeepEqual(p.ShutDownParams, another.ShutDownParams) || !reflect.DeepEqual(p.Vars, another.Vars) || !reflect.DeepEqual(p.Extensions, another.Extensions) || !reflect.DeepEqual(p.DependsOn, another.DependsOn) || !reflect.DeepEqual(p.RestartPolicy, another.RestartPolicy) || !reflect.DeepEqual(p.Environment, another.Environment) || !reflect.DeepEqual(p.Entrypoint, another.Entrypoint) || !reflect.DeepEqual(p.Args, another.Args) {",
  "return false",
  "}",
  "return true",
  "}"]

/-- src/types/process.go:ProcessConfig.GetDependencies -/
def types_process__ProcessConfig_GetDependencies : List String := [
  "func (p *ProcessConfig) GetDependencies() []string {",
  "dependencies := make([]string, len(p.DependsOn))",
  "i := 0",
  "for k := range p.DependsOn {",
  "dependencies[i] = k",
  "i++",
  "}",
  "return dependencies",
  "}"]

/-- src/types/process.go:ProcessConfig.IsDeferred -/
def types_process__ProcessConfig_IsDeferred : List String := [
  "func (p *ProcessConfig) IsDeferred() bool {",
  "return p.IsForeground || p.Disabled",
  "}"]

/-- src/types/process.go:ProcessConfig.ValidateProcessConfig -/
def types_process__ProcessConfig_ValidateProcessConfig : List String := [
  "func (p *ProcessConfig) ValidateProcessConfig() error {",
  "if len(p.Extensions) == 0 {",
  "return nil",
  "}",
  "for extKey := range p.Extensions {",
  "if strings.HasPrefix(extKey, \"x-\") {",
  "continue",
  "}",
  "return fmt.Errorf(\"unknown key '%s' found in process '%s'\", extKey, p.Name)",
  "}",
  "return nil",
  "}"]

/-- src/types/process.go:ProcessState.IsReady -/
def types_process__ProcessState_IsReady : List String := [
  "func (p *ProcessState) IsReady() bool {",
  "if p.Status != ProcessStateRunning && p.Status != ProcessStateForeground && p.Status != ProcessStateLaunched && p.Status != ProcessStateCompleted && p.Status != ProcessStateSkipped && p.Status != ProcessStateDisabled && p.Status != ProcessStateRestarting {",
  "return false",
  "} else if p.Status == ProcessStateDisabled {",
  "return true",
  "} else if p.HasHealthProbe && p.Health != ProcessHealthReady {",
  "return false",
  "} else if p.Health != ProcessHealthReady && p.Health != ProcessHealthUnknown {",
  "return false",
  "} else if p.ExitCode != 0 {",
  "return false",
  "}",
  "return true",
  "}"]

/-- src/types/process.go:ProcessesState.IsReady -/
def types_process__ProcessesState_IsReady : List String := [
  "func (p *ProcessesState) IsReady() bool {",
  "for _, state := range p.States {",
  "if !state.IsReady() {",
  "return false",
  "}",
  "}",
  "return true",
  "}"]

/-- src/types/process.go:compareStructs -/
def types_process__compareStructs : List String := [
  "func compareStructs(a, b interface{}) []string {",
  "var differences []string",
  "aValue := reflect.ValueOf(a)",
  "bValue := reflect.ValueOf(b)",
  "if aValue.Type() != bValue.Type() {",
  "return []string{\"Types are different\"}",
  "}",
  "for i := 0; i < aValue.NumField(); i++ {",
  "aField := aValue.Field(i)",
  "bField := bValue.Field(i)",
  "fieldName := aValue.Type().Field(i).Name",
  "if !reflect.DeepEqual(aField.Interface(), bField.Interface()) {",
  "differences = append(differences, fmt.Sprintf(\"Field %s differs: %v != %v\", fieldName, aField, bField))",
  "}",
  "}",
  "return differences",
  "}"]

/-- src/types/process.go: its functions -/
def types_process__names : List String := [
  "ProcessConfig.GetDependencies",
  "ProcessConfig.CalculateReplicaName",
  "ProcessConfig.IsDeferred",
  "ProcessConfig.Compare",
  "ProcessConfig.AssignProcessExecutableAndArgs",
  "ProcessConfig.ValidateProcessConfig",
  "compareStructs",
  "NewProcessState",
  "ProcessesState.IsReady",
  "ProcessState.IsReady"]

/-- src/types/project.go:Project.GetDependenciesOrderNames -/
def types_project__Project_GetDependenciesOrderNames : List String := [
  "func (p *Project) GetDependenciesOrderNames() ([]string, error) {",
  "order := []string{}",
  "err := p.WithProcesses([]string{}, func(process ProcessConfig) error {",
  "if process.IsDeferred() {",
  "return nil",
  "}",
  "order = append(order, process.ReplicaName)",
  "return nil",
  "})",
  "return order, err",
  "}"]

/-- src/types/project.go:Project.GetElevatedShellArg -/
def types_project__Project_GetElevatedShellArg : List String := [
  "func (p *Project) GetElevatedShellArg() string {",
  "elevatedShellArg := p.ShellConfig.ElevatedShellArg",
  "if p.IsTuiDisabled {",
  "elevatedShellArg = \"\"",
  "}",
  "return elevatedShellArg",
  "}"]

/-- src/types/project.go:Project.GetLexicographicProcessNames -/
def types_project__Project_GetLexicographicProcessNames : List String := [
  "func (p *Project) GetLexicographicProcessNames() ([]string, error) {",
  "names := []string{}",
  "for name := range p.Processes {",
  "names = append(names, name)",
  "}",
  "sort.Strings(names)",
  "return names, nil",
  "}"]

/-- src/types/project.go:Project.GetProcesses -/
def types_project__Project_GetProcesses : List String := [
  "func (p *Project) GetProcesses(names ...string) ([]ProcessConfig, error) {",
  "processes := []ProcessConfig{}",
  "if len(names) == 0 {",
  "for _, proc := range p.Processes {",
  "processes = append(processes, proc)",
  "}",
  "return processes, nil",
  "}",
  "for _, name := range names {",
  "if proc, ok := p.Processes[name]; ok {",
  "processes = append(processes, proc)",
  "} else {",
  "found := false",
  "for _, process := range p.Processes {",
  "if process.Name == name {",
  "found = true",
  "processes = append(processes, process)",
  "}",
  "}",
  "if !found {",
  "return processes, fmt.Errorf(\"no such process: %s\", name)",
  "}",
  "}",
  "}",
  "return processes, nil",
  "}"]

/-- src/types/project.go:Project.WithProcesses -/
def types_project__Project_WithProcesses : List String := [
  "func (p *Project) WithProcesses(names []string, fn ProcessFunc) error {",
  "return p.withProcesses(names, fn, map[string]bool{})",
  "}"]

/-- src/types/project.go:Project.withProcesses -/
def types_project__Project_withProcesses : List String := [
  "func (p *Project) withProcesses(names []string, fn ProcessFunc, done map[string]bool) error {",
  "processes, err := p.GetProcesses(names...)",
  "if err != nil {",
  "return err",
  "}",
  "var finalErr error",
  "for _, process := range processes {",
  "if done[process.ReplicaName] {",
  "continue",
  "}",
  "done[process.ReplicaName] = true",
  "dependencies := process.GetDependencies()",
  "if len(dependencies) > 0 {",
  "err = p.withProcesses(dependencies, fn, done)",
  "if err != nil {",
  "finalErr = fmt.Errorf(\"error in process %s dependency: %w\", process.Name, err)",
  "continue",
  "}",
  "}",
  "if err = fn(process); err != nil {",
  "return err",
  "}",
  "}",
  "return finalErr",
  "}"]

/-- src/types/project.go: its functions -/
def types_project__names : List String := [
  "Project.WithProcesses",
  "Project.GetDependenciesOrderNames",
  "Project.GetLexicographicProcessNames",
  "Project.GetElevatedShellArg",
  "Project.GetProcesses",
  "Project.withProcesses"]

end PC.Skel
