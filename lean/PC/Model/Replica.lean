/-! Model of `ProcessConfig.CalculateReplicaName` (src/types/process.go):
    `name` when `Replicas <= 1`, else `name-%0*d` with width `1 + int(log10(Replicas))`. -/
namespace PC.Replica

def digitChar (d : Nat) : Char := Char.ofNat (48 + d)

/-- number of decimal digits (`1 + floor(log10 n)` for `n ≥ 1`; 1 for 0) -/
def digits10 (n : Nat) : Nat := if n < 10 then 1 else 1 + digits10 (n / 10)
decreasing_by omega

/-- decimal representation (`%d`) -/
def decimal (n : Nat) : List Char := if n < 10 then [digitChar n] else decimal (n / 10) ++ [digitChar (n % 10)]
decreasing_by omega

/-- `%0*d`: left-padded with zeros to `width` -/
def pad0 (width n : Nat) : List Char := List.replicate (width - digits10 n) '0' ++ decimal n

def replicaName (base : List Char) (replicas num : Nat) : List Char :=
  if replicas ≤ 1 then base else base ++ ['-'] ++ pad0 (digits10 replicas) num

/-- the replica names of a process with `n` replicas (what a fresh load produces) -/
def replicaNames (base : List Char) (n : Nat) : List (List Char) :=
  (List.range n).map (replicaName base n)

end PC.Replica
