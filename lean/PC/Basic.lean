def hello := "world"
