import PC.Proofs.SupRQ
/-! `HLe`: what a thread step can do to the reported readiness (C10). No thread step ever makes a
    process Ready - only a delivered probe success or a ready log line does (external events) - and a
    step that writes one of the states Restarting / Launching / Terminating for a process leaves it
    not Ready. Per-arm lemmas as in `SupInsts` / `SupRQ`. -/
namespace PC.Sup

/-- the status writes at which `onStateChange` forgets the readiness -/
def resets : Status → Bool
  | .restarting | .launching | .terminating => true
  | _ => false

/-- the observations grow by `ex`; whoever is Ready afterwards was Ready before, and no state write
    for it among `ex` is a resetting one -/
def HLe (s s' : Sys) : Prop :=
  ∃ ex, s'.obs = s.obs ++ ex ∧ ∀ n, (s'.ps n).health = .ready →
    (s.ps n).health = .ready ∧ ∀ st, Obs.state n st ∈ ex → resets st = false

theorem HLe.refl (s : Sys) : HLe s s := ⟨[], by simp, fun _ h => ⟨h, fun _ hm => by cases hm⟩⟩
theorem HLe.trans {a b c : Sys} (h1 : HLe a b) (h2 : HLe b c) : HLe a c := by
  obtain ⟨e1, o1, p1⟩ := h1
  obtain ⟨e2, o2, p2⟩ := h2
  refine ⟨e1 ++ e2, by rw [o2, o1, List.append_assoc], fun n hn => ?_⟩
  obtain ⟨hb, c2⟩ := p2 n hn
  obtain ⟨ha, c1⟩ := p1 n hb
  refine ⟨ha, fun st hm => ?_⟩
  rcases List.mem_append.mp hm with hm | hm
  · exact c1 st hm
  · exact c2 st hm

structure HSame (s s' : Sys) : Prop where
  pstates : s'.pstates = s.pstates
  obs : s'.obs = s.obs

theorem HLe.of_same {s s' : Sys} (h : HSame s s') : HLe s s' :=
  ⟨[], by rw [h.obs]; simp, fun n hn => ⟨by unfold Sys.ps at hn ⊢; rw [h.pstates] at hn; exact hn, fun _ hm => by cases hm⟩⟩

macro "hsame" : tactic => `(tactic| exact ⟨rfl, rfl⟩)

theorem setInst_h (s : Sys) (i : IId) (f : Inst → Inst) (_hf : ∀ x, Inst.Le x (f x)) : HLe s (s.setInst i f) :=
  HLe.of_same (by hsame)
/-- an observation that is not a resetting state write -/
theorem emit_h (s : Sys) (o : Obs) (ho : ∀ n st, o = .state n st → resets st = false := by intro n st h; cases h) :
    HLe s (s.emit o) :=
  ⟨[o], rfl, fun n hn => ⟨hn, fun st hm => by
    simp only [List.mem_singleton] at hm
    exact ho n st hm.symm⟩⟩
theorem note_h (s : Sys) (e : GateEv) (_he : ∀ i d c, e ≠ .passed i d c) : HLe s (s.note e) := HLe.of_same (by hsame)
theorem notePassed_h (s : Sys) (i d : IId) (c : Cond) : HLe s (s.notePassed i d c) := by
  unfold Sys.notePassed; split
  · exact HLe.of_same (by hsame)
  · exact HLe.refl _
theorem setPc_h (s : Sys) (t pc) : HLe s (s.setPc t pc) := HLe.of_same (by hsame)
theorem spawn_h (s : Sys) (k) (_hk : ∀ i, k = .proc i → i < s.insts.length) : HLe s (s.spawn k) := HLe.of_same (by hsame)

theorem ps_default (s : Sys) (m : Name) (hm : ¬ m < s.pstates.length) : s.ps m = {} := by
  unfold Sys.ps
  simp only [List.getD_eq_getElem?_getD]
  rw [List.getElem?_eq_none (Nat.le_of_not_lt hm)]
  rfl

theorem ps_setPs_ge (s : Sys) (n m : Name) (f) (hm : ¬ m < s.pstates.length) : (s.setPs n f).ps m = {} := by
  apply ps_default
  simpa [Sys.setPs] using hm

/-- an update of a process state record that does not make it Ready -/
theorem setPs_h (s : Sys) (n : Name) (f : PState → PState)
    (hf : ∀ p, (f p).health = .ready → p.health = .ready := by intro p h; first | exact h | cases h) :
    HLe s (s.setPs n f) := by
  refine ⟨[], by simp [Sys.setPs], fun m hm => ⟨?_, fun _ h => by cases h⟩⟩
  by_cases hl : m < s.pstates.length
  · rw [ps_setPs _ _ _ _ hl] at hm
    split at hm
    · exact hf _ hm
    · exact hm
  · rw [ps_setPs_ge _ _ _ _ hl] at hm
    cases hm

theorem HLe.then {a b c : Sys} (h1 : HLe a b) (h2 : HLe b c) : HLe a c := h1.trans h2
theorem HLe.congr_left {s0 s s' : Sys} (h : HLe s s') (e : HSame s0 s) : HLe s0 s' := (HLe.of_same e).trans h
theorem HLe.congr {s s' s'' : Sys} (h : HLe s s') (e : HSame s' s'') : HLe s s'' := h.trans (HLe.of_same e)

macro "hpeel " t:term : tactic => `(tactic| refine HLe.trans ?_ $t)
macro "hupd " t:term : tactic => `(tactic| exact HLe.congr_left $t (by hsame))
macro "done_h" : tactic => `(tactic| first | exact HLe.refl _ | exact HLe.of_same (by hsame))

/-! ### helpers -/

theorem setPs_ps_ne (s : Sys) (n m : Name) (f) (h : m ≠ n) : (s.setPs n f).ps m = s.ps m := by
  by_cases hl : m < s.pstates.length
  · rw [ps_setPs _ _ _ _ hl]; simp [Ne.symm h]
  · rw [ps_setPs_ge _ _ _ _ hl, ps_default _ _ hl]

theorem setPs_health_unknown (s : Sys) (n : Name) (f : PState → PState) (hf : ∀ p, (f p).health = .unknown) :
    ((s.setPs n f).ps n).health = .unknown := by
  by_cases hl : n < s.pstates.length
  · rw [ps_setPs _ _ _ _ hl]; simp [hf]
  · rw [ps_setPs_ge _ _ _ _ hl]

/-- a resetting state write: the process is not Ready afterwards, everybody else is untouched -/
theorem setState_reset_h (s : Sys) (n : Name) (st : Status) :
    HLe s (((s.setPs n fun p => { p with status := st }).emit (.state n st)).setPs n fun p => { p with health := .unknown }) := by
  refine ⟨[.state n st], rfl, fun m hm => ?_⟩
  by_cases e : m = n
  · subst e
    rw [setPs_health_unknown _ _ _ (fun _ => rfl)] at hm
    cases hm
  · rw [setPs_ps_ne _ _ _ _ e] at hm
    change ((s.setPs n _).ps m).health = .ready at hm
    rw [setPs_ps_ne _ _ _ _ e] at hm
    refine ⟨hm, fun st' hmem => ?_⟩
    simp only [List.mem_singleton, Obs.state.injEq] at hmem
    exact absurd hmem.1 e

theorem setState_h (s : Sys) (i st) : HLe s (setState s i st) := by
  unfold setState
  simp only
  cases st <;> simp only <;>
    first
    | exact setState_reset_h _ _ _
    | exact (setPs_h _ _ _).then (emit_h _ _ (by intro n st h; cases h; rfl))
    | exact (((setPs_h _ _ _).then (emit_h _ _ (by intro n st h; cases h; rfl))).then (setPs_h _ _ _)).then (emit_h _ _)

theorem setExit_h (s : Sys) (n c) : HLe s (setExit s n c) := by
  unfold setExit; exact (setPs_h _ _ _).then (emit_h _ _)

theorem recordExit_h (s : Sys) (c) : HLe s (recordExit s c) := by
  unfold recordExit
  split
  · exact HLe.refl _
  · hpeel (emit_h _ _)
    exact HLe.of_same (by hsame)

theorem onProcessEnd_h (s : Sys) (i st) : HLe s (onProcessEnd s i st) := by
  unfold onProcessEnd
  exact ((setInst_h s i endInst endInst_le).then (setState_h _ _ _)).then (emit_h _ _)

theorem cmdExit_h (s : Sys) (i c) : HLe s (cmdExit s i c) := setInst_h _ _ _ (by inst_le)

theorem cmdStop_h (s : Sys) (i sig) : HLe s (cmdStop s i sig) := by
  unfold cmdStop
  simp only
  split
  · split
    · exact (emit_h _ _).then (cmdExit_h _ _ _)
    · split
      · exact (emit_h _ _).then (cmdExit_h _ _ _)
      · exact emit_h _ _
  · exact emit_h _ _

theorem decideRestart_h (s : Sys) (i) : HLe s (decideRestart s i).2 := setInst_h _ _ _ (by inst_le)

theorem append_h (s : Sys) (x : Inst) (_hx : EndedI x) : HLe s { s with insts := s.insts ++ [x] } :=
  HLe.of_same (by hsame)

theorem spawnProc_h (s : Sys) (n) : HLe s (spawnProc s n) := by
  unfold spawnProc newInst
  simp only
  hpeel (spawn_h _ _ (by
    intro i h
    cases h
    have e : ∀ (st : Status) (s0 : Sys) (j : IId), (setState s0 j st).insts = s0.insts := by
      intro st s0 j; unfold setState; cases st <;> rfl
    simp [e]))
  have h1 : HLe s ({ s with insts := s.insts ++ [{ name := n, seq := (s.insts.filter (·.name = n)).length + 1 }] } : Sys) :=
    append_h s _ (by intro h; simp at h)
  exact (h1.then (setState_h _ _ _)).congr (by hsame)

theorem gotoCleanup_h (s : Sys) (t) : HLe s (gotoCleanup s t) := by
  unfold gotoCleanup; hpeel (setPc_h _ _ _); done_h

theorem gotoStop_h (s : Sys) (t i cr k) : HLe s (gotoStop s t i cr k) := by
  unfold gotoStop
  exact (setInst_h _ _ _ (by inst_le)).then (setPc_h _ _ _)

theorem apiRet_h (s : Sys) (t r) : HLe s (apiRet s t r) := by
  unfold apiRet; split
  · exact (emit_h _ _).then (setPc_h _ _ _)
  all_goals exact setPc_h _ _ _

theorem apiSpawn_h (s : Sys) (t n) : HLe s (apiSpawn s t n) := by
  unfold apiSpawn
  simp only
  split
  · hpeel (setPc_h _ _ _); hpeel (emit_h _ _); exact spawnProc_h _ _
  all_goals (hpeel (setPc_h _ _ _); exact spawnProc_h _ _)

theorem addDone_h (s : Sys) (i : IId) : HLe s (addDone s i) := by
  unfold addDone; done_h
theorem doSkip_h (s : Sys) (t i) : HLe s (doSkip s t i) := by
  unfold doSkip; exact (addDone_h _ _).then ((onProcessEnd_h _ _ _).then (setPc_h _ _ _))

theorem afterDeps_h (s : Sys) (t) : HLe s (afterDeps s t) := setPc_h _ _ _

theorem lookupRunning_h (s : Sys) (t i k c r) : HLe s (lookupRunning s t i k c r) := by
  unfold lookupRunning; split
  · exact ((note_h _ _ (by intro _ _ _ h; cases h)).then (emit_h _ _)).then (setPc_h _ _ _)
  · exact ((note_h _ _ (by intro _ _ _ h; cases h)).then (emit_h _ _)).then (setPc_h _ _ _)

theorem depStep_h (s : Sys) (t i h r) : HLe s (depStep s t i h r) := by
  unfold depStep
  split
  · exact afterDeps_h _ _
  · simp only
    split
    · exact (((emit_h _ _).then (note_h _ _ (by intro _ _ _ h; cases h))).then (emit_h _ _)).then (setPc_h _ _ _)
    · split
      · exact (emit_h _ _).then (lookupRunning_h _ _ _ _ _ _)
      · exact (emit_h _ _).then (setPc_h _ _ _)

theorem doLaunch_h (s : Sys) (t i) : HLe s (doLaunch s t i) := by
  unfold doLaunch
  simp only
  split
  · hpeel (setPc_h _ _ _)
    hpeel (onProcessEnd_h _ _ _)
    hpeel (setExit_h _ _ _)
    hpeel (emit_h _ _)
    exact setState_h _ _ _
  · hpeel (setPc_h _ _ _)
    have key : HLe s
        (({ (setState s i .running).emit (.launch ((setState s i .running).nameOf i)) with
            launchClock := ((setState s i .running).emit (.launch ((setState s i .running).nameOf i))).launchClock + 1 } : Sys).setInst i
          fun x => { x with cmd := .alive, launches := x.launches + 1,
                            launchedAt := ((setState s i .running).emit (.launch ((setState s i .running).nameOf i))).launchClock + 1 }) := by
      hpeel (setInst_h _ _ _ (by inst_le))
      have hE : HLe s ((setState s i .running).emit (.launch ((setState s i .running).nameOf i))) :=
        (setState_h s i .running).then (emit_h _ _)
      exact hE.congr (by hsame)
    split
    · exact key.trans (spawn_h _ _ (by intro i h; cases h))
    · exact key

theorem foldl_h {α : Type} (f : Sys → α → Sys) (hf : ∀ s a, HLe s (f s a)) (l : List α) (s : Sys) :
    HLe s (l.foldl f s) := by
  induction l generalizing s with
  | nil => exact HLe.refl _
  | cons a l ih => exact (hf s a).then (ih _)

theorem sdBody_h (s : Sys) (t h k) : HLe s (sdBody s t h k) := by
  unfold sdBody
  simp only
  hpeel (setPc_h _ _ _)
  exact (emit_h _ _).then (foldl_h _ (fun s i => setInst_h _ _ _ (by inst_le)) _ _)

theorem sdSeqNext_h (s : Sys) (t r k) : HLe s (sdSeqNext s t r k) := by
  unfold sdSeqNext; split
  · exact setPc_h _ _ _
  · exact gotoStop_h _ _ _ _ _

theorem sdReturn_h (s : Sys) (t k) : HLe s (sdReturn s t k) := by
  unfold sdReturn
  simp only
  split
  · split
    · hpeel (setPc_h _ _ _); hpeel (emit_h _ _); hpeel (emit_h _ _); done_h
    all_goals (hpeel (setPc_h _ _ _); hpeel (emit_h _ _); done_h)
  · hpeel (gotoCleanup_h _ _); hpeel (emit_h _ _); done_h
  · hpeel (gotoCleanup_h _ _); hpeel (emit_h _ _); done_h

theorem stopReturn_h (s : Sys) (t k) : HLe s (stopReturn s t k) := by
  unfold stopReturn
  split
  · split
    · exact (emit_h _ _).then (setPc_h _ _ _)
    all_goals exact setPc_h _ _ _
  · exact setPc_h _ _ _
  · hpeel (sdSeqNext_h _ _ _ _)
    hupd (spawn_h _ _ (by intro i h; cases h))
  · exact setPc_h _ _ _
  · exact setPc_h _ _ _

theorem apiFirst_h (s : Sys) (t h op) : HLe s (apiFirst s t h op) := by
  unfold apiFirst
  cases op with
  | start n => simp only; split <;> first | exact apiRet_h _ _ _ | exact setPc_h _ _ _
  | stop n =>
    simp only; split
    · exact (setInst_h _ _ _ (by inst_le)).then (gotoStop_h _ _ _ _ _)
    · split <;> exact apiRet_h _ _ _
  | restart n =>
    simp only; split
    · exact (setInst_h _ _ _ (by inst_le)).then (gotoStop_h _ _ _ _ _)
    · split
      · exact setPc_h _ _ _
      · exact apiRet_h _ _ _
  | state n => simp only; split <;> exact apiRet_h _ _ _
  | shutdown => exact setPc_h _ _ _
  | runMain =>
    simp only
    hpeel (setPc_h _ _ _)
    hupd (foldl_h _ spawnProc_h _ _)

/-! ### the arms -/

theorem armDepLookup_h (s : Sys) (t d c r) : HLe s (armDepLookup s t d c r) := by
  unfold armDepLookup; cases c <;> exact setPc_h _ _ _
theorem armWaitDone_h (s : Sys) (t i d ok r) : HLe s (armWaitDone s t i d ok r) := by
  unfold armWaitDone; split
  · exact doSkip_h _ _ _
  · exact (notePassed_h _ _ _ _).then (setPc_h _ _ _)
theorem armWaitReady_h (s : Sys) (t i d r) : HLe s (armWaitReady s t i d r) := by
  unfold armWaitReady; split
  · exact (notePassed_h _ _ _ _).then (setPc_h _ _ _)
  · exact doSkip_h _ _ _
theorem armWaitLogReady_h (s : Sys) (t i d r) : HLe s (armWaitLogReady s t i d r) := by
  unfold armWaitLogReady; split
  · exact (notePassed_h _ _ _ _).then (setPc_h _ _ _)
  · exact doSkip_h _ _ _
theorem armProcSkipped_h (s : Sys) (t i) : HLe s (armProcSkipped s t i) := by
  unfold armProcSkipped; split
  · exact (recordExit_h _ _).then (setPc_h _ _ _)
  · exact gotoCleanup_h _ _
theorem armRunEnter_h (s : Sys) (t i) : HLe s (armRunEnter s t i) := by
  unfold armRunEnter; split
  · exact (onProcessEnd_h _ _ _).then (setPc_h _ _ _)
  · exact setPc_h _ _ _
theorem armRunChecked_h (s : Sys) (t i) : HLe s (armRunChecked s t i) := by
  unfold armRunChecked; split
  · exact ((setExit_h _ _ _).then (onProcessEnd_h _ _ _)).then (setPc_h _ _ _)
  · exact ((setInst_h _ _ _ (by inst_le)).then (emit_h _ _)).then (doLaunch_h _ _ _)
theorem armCmdWait_h (s : Sys) (t i) : HLe s (armCmdWait s t i) := by
  unfold armCmdWait; split
  · exact (setExit_h _ _ _).then (setPc_h _ _ _)
  · exact HLe.refl _
theorem armRunExited_h (s : Sys) (t i) : HLe s (armRunExited s t i) := by
  unfold armRunExited
  simp only
  refine (decideRestart_h s i).then ?_
  split
  · exact (((setState_h _ _ _).then (setPs_h _ _ _)).then (emit_h _ _)).then (setPc_h _ _ _)
  · exact (onProcessEnd_h _ _ _).then (setPc_h _ _ _)
theorem armBackoff_h (s : Sys) (t i) : HLe s (armBackoff s t i) := by
  unfold armBackoff; split
  · exact (onProcessEnd_h _ _ _).then (setPc_h _ _ _)
  · exact setPc_h _ _ _
theorem armProcRan_h (s : Sys) (t i c) : HLe s (armProcRan s t i c) := by
  unfold armProcRan; hpeel (setPc_h _ _ _); done_h
theorem armProcDoneAdded_h (s : Sys) (t i c) : HLe s (armProcDoneAdded s t i c) := by
  unfold armProcDoneAdded; simp only; split
  · exact (recordExit_h _ _).then (setPc_h _ _ _)
  · exact gotoCleanup_h _ _
theorem armLockCleanup_h (s : Sys) (t i) : HLe s (armLockCleanup s t i) := by
  unfold armLockCleanup; split
  · hpeel (setPc_h _ _ _); done_h
  · exact setPc_h _ _ _

theorem stepProc_h (s : Sys) (t i h pc) : HLe s (stepProc s t i h pc) := by
  cases pc
  all_goals simp only [stepProc]
  case runExited => exact armRunExited_h _ _ _
  case begin => exact setPc_h _ _ _
  case depNext rest => exact depStep_h _ _ _ _ _
  case lockDep k c rest => exact lookupRunning_h _ _ _ _ _ _
  case depLookup d c rest => exact armDepLookup_h _ _ _ _ _
  case waitDone d ok rest => exact armWaitDone_h _ _ _ _ _ _
  case waitReady d rest => exact armWaitReady_h _ _ _ _ _
  case waitLogReady d rest => exact armWaitLogReady_h _ _ _ _ _
  case waitStarted d rest => exact (notePassed_h _ _ _ _).then (setPc_h _ _ _)
  case procSkipped => exact armProcSkipped_h _ _ _
  case runEnter => exact armRunEnter_h _ _ _
  case runChecked => exact armRunChecked_h _ _ _
  case cmdWait => exact armCmdWait_h _ _ _
  case backoff => exact armBackoff_h _ _ _
  case backoffElapsed => exact doLaunch_h _ _ _
  case procRan c => exact armProcRan_h _ _ _ _
  case procDoneAdded c => exact armProcDoneAdded_h _ _ _ _
  case lockCleanup => exact armLockCleanup_h _ _ _
  all_goals exact HLe.refl _

theorem armStopEnter_h (s : Sys) (t i cr k) : HLe s (armStopEnter s t i cr k) := by
  unfold armStopEnter; split <;> exact setPc_h _ _ _
theorem armStopNotRunning_h (s : Sys) (t i k) : HLe s (armStopNotRunning s t i k) := by
  unfold armStopNotRunning; simp only; split
  · exact (onProcessEnd_h _ _ _).then (stopReturn_h _ _ _)
  · exact stopReturn_h _ _ _
theorem armStopChecked_h (s : Sys) (t i cr k) : HLe s (armStopChecked s t i cr k) := by
  unfold armStopChecked; exact (setState_h _ _ _).then (setPc_h _ _ _)

theorem stopMarkedPrep_h (s : Sys) (i cr) : HLe s (stopMarkedPrep s i cr) := by
  unfold stopMarkedPrep
  apply setInst_h
  intro x
  refine ⟨rfl, rfl, id, id, ?_, id, ?_, ?_⟩
  · intro h; simp [h]
  · intro h; simp [h]
  · intro h1 h2; simp_all

theorem armStopMarked_h (s : Sys) (t i cr k) : HLe s (armStopMarked s t i cr k) := by
  unfold armStopMarked
  simp only
  split
  · hpeel (stopReturn_h _ _ _)
    exact stopMarkedPrep_h _ _ _
  · split
    · hpeel (setPc_h _ _ _)
      hpeel (setInst_h _ _ _ (by inst_le))
      hpeel (cmdStop_h _ _ _)
      exact stopMarkedPrep_h _ _ _
    · hpeel (stopReturn_h _ _ _)
      hpeel (cmdStop_h _ _ _)
      exact stopMarkedPrep_h _ _ _
theorem armStopWaitKill_h (s : Sys) (t i k) : HLe s (armStopWaitKill s t i k) := by
  unfold armStopWaitKill; split
  · exact (cmdStop_h _ _ _).then (stopReturn_h _ _ _)
  · exact stopReturn_h _ _ _

theorem armSdEnter_h (s : Sys) (t h k) : HLe s (armSdEnter s t h k) := by
  unfold armSdEnter; split
  · hupd (sdBody_h _ _ _ _)
  · exact setPc_h _ _ _
theorem armSdPrepared_h (s : Sys) (t o k) : HLe s (armSdPrepared s t o k) := by
  unfold armSdPrepared; split
  · hpeel (setPc_h _ _ _)
    apply foldl_h
    intro s i
    exact HLe.congr_left (spawn_h _ _ (by intro i h; cases h)) (by hsame)
  · exact sdSeqNext_h _ _ _ _

theorem armStopperBegin_h (s : Sys) (t i) : HLe s (armStopperBegin s t i) := by
  unfold armStopperBegin
  simp only
  hpeel (setPc_h _ _ _)
  apply foldl_h
  intro s j
  exact HLe.congr_left (spawn_h _ _ (by intro i h; cases h)) (by hsame)

theorem stepStopper_h (s : Sys) (t i pc) : HLe s (stepStopper s t i pc) := by
  cases pc <;> simp only [stepStopper] <;>
    first | exact HLe.refl _ | exact armStopperBegin_h _ _ _ | exact gotoStop_h _ _ _ _ _
          | (hpeel (setPc_h _ _ _); done_h)
theorem stepWaiter_h (s : Sys) (t i pc) : HLe s (stepWaiter s t i pc) := by
  cases pc <;> simp only [stepWaiter] <;>
    first | exact HLe.refl _ | exact setPc_h _ _ _ | (hpeel (setPc_h _ _ _); done_h)
theorem stepDepwaiter_h (s : Sys) (t o i pc) : HLe s (stepDepwaiter s t o i pc) := by
  cases pc <;> simp only [stepDepwaiter] <;>
    first | exact HLe.refl _ | exact setPc_h _ _ _ | (hpeel (setPc_h _ _ _); done_h)

theorem armApiBegin_h (s : Sys) (t h op) : HLe s (armApiBegin s t h op) := by
  unfold armApiBegin
  cases op <;> simp only <;> first
    | exact setPc_h _ _ _
    | (split
       · exact apiFirst_h _ _ _ _
       · exact setPc_h _ _ _)
theorem armSpawnOrLock_h (s : Sys) (t n) : HLe s (armSpawnOrLock s t n) := by
  unfold armSpawnOrLock; split
  · split
    · exact apiSpawn_h _ _ _
    · exact setPc_h _ _ _
  · exact apiRet_h _ _ _
theorem stepApi_h (s : Sys) (t h op pc) : HLe s (stepApi s t h op pc) := by
  cases pc <;> simp only [stepApi] <;>
    first | exact HLe.refl _ | exact setPc_h _ _ _ | exact armApiBegin_h _ _ _ _ | exact apiFirst_h _ _ _ _
          | exact armSpawnOrLock_h _ _ _ | exact apiSpawn_h _ _ _
          | exact (emit_h _ _).then (setPc_h _ _ _)
theorem armProbeBegin_h (s : Sys) (t n) : HLe s (armProbeBegin s t n) := by
  unfold armProbeBegin; split
  · exact setPc_h _ _ _
  · split
    · exact setPc_h _ _ _
    · exact (setPs_h _ _ _).then (gotoStop_h _ _ _ _ _)

/-- **No thread step makes a process Ready, and a step that writes Restarting / Launching /
    Terminating for a process leaves it not Ready.** -/
theorem stepThread_h (s : Sys) (t : Tid) (h : Hints) : HLe s (stepThread s t h) := by
  unfold stepThread
  simp only
  split
  · exact armStopEnter_h _ _ _ _ _
  · exact armStopNotRunning_h _ _ _ _
  · exact armStopChecked_h _ _ _ _ _
  · exact armStopMarked_h _ _ _ _ _
  · exact armStopWaitKill_h _ _ _ _
  · exact armSdEnter_h _ _ _ _
  · hupd (sdBody_h _ _ _ _)
  · exact armSdPrepared_h _ _ _ _
  · exact sdReturn_h _ _ _
  · split
    · exact stepProc_h _ _ _ _ _
    · exact stepApi_h _ _ _ _ _
    · exact stepStopper_h _ _ _ _
    · exact stepWaiter_h _ _ _ _
    · exact stepDepwaiter_h _ _ _ _ _
    · split
      · exact armProbeBegin_h _ _ _
      · exact HLe.refl _
    · split
      · exact (setInst_h _ _ _ (by inst_le)).then (setPc_h _ _ _)
      · exact HLe.refl _

theorem runThread_h (s : Sys) (t : Tid) (h : Hints) (fuel : Nat) : HLe s (runThread s t h fuel) := by
  induction fuel generalizing s with
  | zero => exact HLe.refl _
  | succ n ih =>
    unfold runThread
    simp only
    split
    · exact stepThread_h _ _ _
    · split
      · exact stepThread_h _ _ _
      · exact (stepThread_h _ _ _).then (ih _)

/-- the external events that deliver a success to process `n` -/
def Choice.readies (n : Name) : Choice → Bool
  | .probe m ok => m == n && ok
  | .line m r => m == n && r
  | _ => false

/-- the body of `step` on the state whose observation list has been cleared -/
def stepFrom (s : Sys) (c : Choice) (h : Hints) : Sys :=
  match c with
  | .run t => if enabledThr s t then runThread s t h fuelPerStep else s
  | .exit n code => match aliveInst s n with
    | some i => cmdExit s i code
    | none => s
  | .line n ready => match aliveInst s n with
    | some i =>
      if ready ∧ (s.cfg n).hasReadyLine ∧ (s.ps n).health = .unknown then
        let s := s.setPs n fun p => { p with health := .ready }
        let s := s.setInst i fun x => { x with logReady := if x.logReady = .none then .ok else x.logReady }
        s.emit (.logready n)
      else s
    | none => s
  | .probe n ok => match s.running.getD n none with
    | some i =>
      if (s.inst i).probeStopped then s
      else if ok then
        let s := s.setPs n fun p => { p with health := .ready }
        s.setInst i fun x => { x with readyDone := true }
      else s.setPs n fun p => { p with health := .notReady }
    | none => s
  | .probeFatal id n => match s.running.getD n none with
    | some _ => s.spawn (.probe id n)
    | none => s
  | .killTimeout n =>
    match (List.range s.insts.length).find? fun i => (s.inst i).name = n ∧ (s.inst i).stopCtx = .armed with
    | some i => s.setInst i fun x => { x with stopCtx := .timedOut }
    | none => s
  | .call id op => s.spawn (.api id op)

theorem step_eq_stepFrom (s : Sys) (c : Choice) (h : Hints) : step s c h = stepFrom { s with obs := [] } c h := rfl

theorem stepFrom_ready (s0 : Sys) (c : Choice) (h : Hints) (n : Name)
    (hr : ((stepFrom s0 c h).ps n).health = .ready) : (s0.ps n).health = .ready ∨ c.readies n = true := by
  unfold stepFrom at hr
  cases c with
  | run t =>
    simp only at hr
    split at hr
    · obtain ⟨_, _, p⟩ := runThread_h s0 t h fuelPerStep
      exact Or.inl (p n hr).1
    · exact Or.inl hr
  | exit m code =>
    simp only at hr
    split at hr
    · exact Or.inl hr
    · exact Or.inl hr
  | line m ready =>
    by_cases e : m = n ∧ ready = true
    · right; simp [Choice.readies, e.1, e.2]
    · left
      simp only at hr
      split at hr
      · split at hr
        · rename_i hc
          have hmn : m ≠ n := fun hmn => e ⟨hmn, hc.1⟩
          simp only [emit_ps, setInst_ps] at hr
          rw [setPs_ps_ne _ _ _ _ (Ne.symm hmn)] at hr
          exact hr
        · exact hr
      · exact hr
  | probe m ok =>
    by_cases e : m = n ∧ ok = true
    · right; simp [Choice.readies, e.1, e.2]
    · left
      simp only at hr
      split at hr
      · split at hr
        · exact hr
        · split at hr
          · rename_i hc
            have hmn : m ≠ n := fun hmn => e ⟨hmn, hc⟩
            simp only [setInst_ps] at hr
            rw [setPs_ps_ne _ _ _ _ (Ne.symm hmn)] at hr
            exact hr
          · by_cases hmn : m = n
            · subst hmn
              have hl : ((s0.setPs m fun p => { p with health := .notReady }).ps m).health ≠ .ready := by
                by_cases hl : m < s0.pstates.length
                · rw [ps_setPs _ _ _ _ hl]; simp
                · rw [ps_setPs_ge _ _ _ _ hl]; simp
              exact absurd hr hl
            · rw [setPs_ps_ne _ _ _ _ (Ne.symm hmn)] at hr
              exact hr
      · exact hr
  | probeFatal id m =>
    simp only at hr
    split at hr <;> exact Or.inl hr
  | killTimeout m =>
    simp only at hr
    split at hr <;> exact Or.inl hr
  | call id op => exact Or.inl hr

/-- **A process is Ready after a step only if it was Ready before or the step is the delivery of a
    probe success / a ready log line for it.** (any choice, any hints) -/
theorem ready_needs_success (s : Sys) (c : Choice) (h : Hints) (n : Name)
    (hr : ((step s c h).ps n).health = .ready) : (s.ps n).health = .ready ∨ c.readies n = true := by
  rw [step_eq_stepFrom] at hr
  exact stepFrom_ready { s with obs := [] } c h n hr

theorem stepFrom_reset (s0 : Sys) (hobs : s0.obs = []) (c : Choice) (h : Hints) (n : Name) (st : Status)
    (ho : Obs.state n st ∈ (stepFrom s0 c h).obs) (hr : resets st = true) : ((stepFrom s0 c h).ps n).health ≠ .ready := by
  intro hready
  unfold stepFrom at ho hready
  cases c with
  | run t =>
    simp only at ho hready
    split at ho
    · rename_i he
      simp only [he, ↓reduceIte] at hready
      obtain ⟨ex, oe, p⟩ := runThread_h s0 t h fuelPerStep
      rw [oe, hobs] at ho
      simp only [List.nil_append] at ho
      have := (p n hready).2 st ho
      rw [hr] at this; cases this
    · rw [hobs] at ho; cases ho
  | exit m code =>
    simp only at ho
    split at ho <;> simp [cmdExit, Sys.setInst, hobs] at ho
  | line m ready =>
    simp only at ho
    split at ho
    · split at ho
      · simp [Sys.emit, Sys.setInst, Sys.setPs, hobs] at ho
      · rw [hobs] at ho; cases ho
    · rw [hobs] at ho; cases ho
  | probe m ok =>
    simp only at ho
    split at ho
    · split at ho
      · rw [hobs] at ho; cases ho
      · split at ho <;> simp [Sys.setInst, Sys.setPs, hobs] at ho
    · rw [hobs] at ho; cases ho
  | probeFatal id m =>
    simp only at ho
    split at ho
    · simp [Sys.spawn, hobs] at ho
    · rw [hobs] at ho; cases ho
  | killTimeout m =>
    simp only at ho
    split at ho
    · simp [Sys.setInst, hobs] at ho
    · rw [hobs] at ho; cases ho
  | call id op => simp [Sys.spawn, hobs] at ho

/-- **Readiness is forgotten at a restart or a stop**: a step during which the state of `n` was
    written as Restarting / Launching / Terminating ends with `n` not Ready. -/
theorem reset_forgets (s : Sys) (c : Choice) (h : Hints) (n : Name) (st : Status)
    (ho : Obs.state n st ∈ (step s c h).obs) (hr : resets st = true) : ((step s c h).ps n).health ≠ .ready := by
  rw [step_eq_stepFrom] at ho ⊢
  exact stepFrom_reset _ rfl c h n st ho hr

end PC.Sup
