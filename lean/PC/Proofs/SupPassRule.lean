import PC.Proofs.SupPass
import PC.Proofs.SupSd
/-! The ghost gate log, along every execution: a `passed i d c` event stands in the log only if, at
    some state the execution went through, the thread of `i` woke up from its wait on `d` with the
    declared condition `c` met there (`passed_was_met`). No external event records one (`ext_np`). -/
namespace PC.Sup

theorem setInst_np' (s : Sys) (i : IId) (f : Inst → Inst) : NPass s (s.setInst i f) := NPass.of_same (by npsame)

theorem ext_np (s : Sys) (c : Choice) (h : Hints) (hc : ∀ t, c ≠ .run t) : NPass s (step s c h) := by
  unfold step
  simp only
  cases c with
  | run t => exact absurd rfl (hc t)
  | exit n code =>
    simp only; split
    · npupd (cmdExit_np _ _ _)
    · done_np
  | line n ready =>
    simp only; split
    · split
      · nppeel (emit_np _ _)
        nppeel (setInst_np' _ _ _)
        npupd (setPs_np _ _ _)
      · done_np
    · done_np
  | probe n ok =>
    simp only; split
    · split
      · done_np
      · split
        · nppeel (setInst_np _ _ _ (by inst_le))
          npupd (setPs_np _ _ _)
        · npupd (setPs_np _ _ _)
    · done_np
  | probeFatal id n =>
    simp only; split
    · npupd (spawn_np _ _ (by intro i h; cases h))
    · done_np
  | killTimeout n =>
    simp only; split
    · npupd (setInst_np _ _ _ (by inst_le))
    · done_np
  | call id op => npupd (spawn_np _ _ (by intro i h; cases h))

/-- **Every recorded pass was a met condition.** If `passed i d c` is in the gate log of a state the
    model can be in, the execution went through a state `s1` in which `c` was met for `d` — the very
    state in which the thread of `i` took the step that recorded it. -/
theorem passed_was_met {s0 s : Sys} (h : ReachF s0 s) (h0 : ∀ i d c, GateEv.passed i d c ∉ s0.gate) :
    ∀ i d c, GateEv.passed i d c ∈ s.gate →
      ∃ s1 t hh, ReachF s0 s1 ∧ ReachF s1 (stepThread s1 t hh) ∧ ReachF (stepThread s1 t hh) s ∧ Met s1 c d ∧
        GateEv.passed i d c ∉ s1.gate ∧ GateEv.passed i d c ∈ (stepThread s1 t hh).gate := by
  induction h with
  | init => intro i d c hm; exact absurd hm (h0 i d c)
  | @thread s1 t hh hr ht hen ih =>
    intro i d c hm
    by_cases hin : GateEv.passed i d c ∈ s1.gate
    · obtain ⟨s2, t2, h2, r1, r0, r2, m, n1, n2⟩ := ih i d c hin
      exact ⟨s2, t2, h2, r1, r0, ReachF.thread t hh r2 ht hen, m, n1, n2⟩
    · rcases stepThread_pm s1 t hh i d c hm with e | e
      · exact absurd e hin
      · exact ⟨s1, t, hh, hr, ReachF.thread t hh ReachF.init ht hen, ReachF.init, e, hin, hm⟩
  | @ext s1 c' hh hr hc ih =>
    intro i d c hm
    obtain ⟨s2, t2, h2, r1, r0, r2, m, n1, n2⟩ := ih i d c (ext_np s1 c' hh hc i d c hm)
    exact ⟨s2, t2, h2, r1, r0, ReachF.ext c' hh r2 hc, m, n1, n2⟩
  | @clear s1 hr ih =>
    intro i d c hm
    obtain ⟨s2, t2, h2, r1, r0, r2, m, n1, n2⟩ := ih i d c hm
    exact ⟨s2, t2, h2, r1, r0, ReachF.clear r2, m, n1, n2⟩

end PC.Sup
