import PC.Proofs.SupWg
/-! A process goroutine that has left the dependency and launch phases has ended its process:
    `TailDone` — in every state the model passes through, a process thread of instance `i` whose
    label is past both phases (`Pc.isTail`) has `(inst i).done`. With the wait-group invariant of
    `SupWg` this gives the safety half of C04: when `Run()` can pass its wait group every process
    goroutine has left its body and its instance is done. -/
namespace PC.Sup

@[simp] theorem setState_inst (s : Sys) (i st j) : (setState s i st).inst j = s.inst j := by
  unfold setState; cases st <;> rfl
@[simp] theorem setExit_inst (s : Sys) (n c j) : (setExit s n c).inst j = s.inst j := rfl
@[simp] theorem setState_insts (s : Sys) (i st) : (setState s i st).insts = s.insts := by
  unfold setState; cases st <;> rfl
@[simp] theorem setExit_insts (s : Sys) (n c) : (setExit s n c).insts = s.insts := rfl
@[simp] theorem note_insts (s : Sys) (e) : (s.note e).insts = s.insts := rfl
@[simp] theorem notePassed_insts (s : Sys) (i d c) : (s.notePassed i d c).insts = s.insts := by
  unfold Sys.notePassed; split <;> rfl
@[simp] theorem setInst_insts_length (s : Sys) (i f) : (s.setInst i f).insts.length = s.insts.length := by
  simp [Sys.setInst]

theorem onProcessEnd_done (s : Sys) (i : IId) (st : Status) (hi : i < s.insts.length) :
    ((onProcessEnd s i st).inst i).done = true := by
  unfold onProcessEnd
  simp only [emit_inst, setState_inst]
  rw [inst_setInst _ _ _ _ hi]
  simp [endInst]

/-- the label of `t` after the arm is not past the phases, or the instance is done -/
def TD (s' : Sys) (t : Tid) (i : IId) : Prop := (s'.thr t).pc.isTail = true → (s'.inst i).done = true

theorem td_nontail (X : Sys) (t : Tid) (i : IId) (L : Pc) (hL : L.isTail = false) (ht : t < X.threads.length) :
    TD (X.setPc t L) t i := by
  intro h; rw [pc_setPc _ _ _ ht, hL] at h; cases h

theorem td_end (X : Sys) (t : Tid) (i : IId) (st : Status) (L : Pc) (hi : i < X.insts.length) :
    TD ((onProcessEnd X i st).setPc t L) t i := by
  intro _; rw [setPc_inst]; exact onProcessEnd_done _ _ _ hi

theorem doSkip_td (s : Sys) (t i) (hi : i < s.insts.length) : TD (doSkip s t i) t i := by
  unfold doSkip; exact td_end _ _ _ _ _ hi

theorem lookupRunning_td (s : Sys) (t i k c r) (ht : t < s.threads.length) : TD (lookupRunning s t i k c r) t i := by
  unfold lookupRunning; split <;> exact td_nontail _ _ _ _ rfl (by simpa using ht)

theorem depStep_td (s : Sys) (t i h r) (ht : t < s.threads.length) : TD (depStep s t i h r) t i := by
  unfold depStep
  split
  · exact td_nontail _ _ _ _ rfl ht
  · simp only
    split
    · exact td_nontail _ _ _ _ rfl (by simpa using ht)
    · split
      · exact lookupRunning_td _ _ _ _ _ _ (by simpa using ht)
      · exact td_nontail _ _ _ _ rfl (by simpa using ht)

theorem armDepLookup_td (s : Sys) (t i d c r) (ht : t < s.threads.length) : TD (armDepLookup s t d c r) t i := by
  unfold armDepLookup; cases c <;> exact td_nontail _ _ _ _ rfl ht

theorem armWaitDone_td (s : Sys) (t i d ok r) (ht : t < s.threads.length) (hi : i < s.insts.length) :
    TD (armWaitDone s t i d ok r) t i := by
  unfold armWaitDone; split
  · exact doSkip_td _ _ _ hi
  · exact td_nontail _ _ _ _ rfl (by simpa using ht)

theorem armWaitReady_td (s : Sys) (t i d r) (ht : t < s.threads.length) (hi : i < s.insts.length) :
    TD (armWaitReady s t i d r) t i := by
  unfold armWaitReady; split
  · exact td_nontail _ _ _ _ rfl (by simpa using ht)
  · exact doSkip_td _ _ _ hi

theorem armWaitLogReady_td (s : Sys) (t i d r) (ht : t < s.threads.length) (hi : i < s.insts.length) :
    TD (armWaitLogReady s t i d r) t i := by
  unfold armWaitLogReady; split
  · exact td_nontail _ _ _ _ rfl (by simpa using ht)
  · exact doSkip_td _ _ _ hi

theorem armRunEnter_td (s : Sys) (t i) (ht : t < s.threads.length) (hi : i < s.insts.length) : TD (armRunEnter s t i) t i := by
  unfold armRunEnter; split
  · exact td_end _ _ _ _ _ hi
  · exact td_nontail _ _ _ _ rfl ht

theorem doLaunch_td (s : Sys) (t i) (ht : t < s.threads.length) (hi : i < s.insts.length) : TD (doLaunch s t i) t i := by
  unfold doLaunch
  simp only
  split
  · exact td_end _ _ _ _ _ (by simpa using hi)
  · split
    · exact td_nontail _ _ _ _ rfl (by simp [Sys.spawn]; exact Nat.lt_succ_of_lt ht)
    · exact td_nontail _ _ _ _ rfl (by simpa using ht)

theorem armRunChecked_td (s : Sys) (t i) (ht : t < s.threads.length) (hi : i < s.insts.length) : TD (armRunChecked s t i) t i := by
  unfold armRunChecked; split
  · exact td_end _ _ _ _ _ (by simpa using hi)
  · intro h
    have := doLaunch_td ((s.setInst i fun x => { x with started := true }).emit (.started (s.nameOf i))) t i
      (by simpa using ht) (by simpa using hi) h
    exact this

theorem armCmdWait_td (s : Sys) (t i) (ht : t < s.threads.length) (hp : (s.thr t).pc = .cmdWait) : TD (armCmdWait s t i) t i := by
  unfold armCmdWait; split
  · exact td_nontail _ _ _ _ rfl (by simpa using ht)
  · intro h; rw [hp] at h; cases h

theorem decideRestart_insts_length (s : Sys) (i) : (decideRestart s i).2.insts.length = s.insts.length := by
  unfold decideRestart; exact setInst_insts_length _ _ _

theorem armRunExited_td (s : Sys) (t i) (ht : t < s.threads.length) (hi : i < s.insts.length) : TD (armRunExited s t i) t i := by
  unfold armRunExited
  simp only
  split
  · exact td_nontail _ _ _ .backoff rfl (by simpa using ht)
  · intro _
    rw [setPc_inst]
    exact onProcessEnd_done _ _ _ (by rw [decideRestart_insts_length]; exact hi)

theorem armBackoff_td (s : Sys) (t i) (ht : t < s.threads.length) (hi : i < s.insts.length) : TD (armBackoff s t i) t i := by
  unfold armBackoff; split
  · exact td_end _ _ _ _ _ hi
  · exact td_nontail _ _ _ _ rfl ht

/-- a process thread inside the dependency or launch phase: after its step it is still inside, or
    its instance is done -/
theorem stepProc_td (s : Sys) (t : Tid) (i : IId) (h : Hints) (ht : t < s.threads.length) (hi : i < s.insts.length)
    (hnt : (s.thr t).pc.isTail = false) : TD (stepProc s t i h (s.thr t).pc) t i := by
  cases hpc : (s.thr t).pc
  case begin => simp only [stepProc]; exact td_nontail _ _ _ (.depNext _) rfl ht
  case depNext rest => simp only [stepProc]; exact depStep_td _ _ _ _ _ ht
  case lockDep k c rest => simp only [stepProc]; exact lookupRunning_td _ _ _ _ _ _ ht
  case depLookup d c rest => simp only [stepProc]; exact armDepLookup_td _ _ _ _ _ _ ht
  case waitDone d ok rest => simp only [stepProc]; exact armWaitDone_td _ _ _ _ _ _ ht hi
  case waitReady d rest => simp only [stepProc]; exact armWaitReady_td _ _ _ _ _ ht hi
  case waitLogReady d rest => simp only [stepProc]; exact armWaitLogReady_td _ _ _ _ _ ht hi
  case waitStarted d rest => simp only [stepProc]; exact td_nontail _ _ _ (.depNext _) rfl (by simpa using ht)
  case runEnter => simp only [stepProc]; exact armRunEnter_td _ _ _ ht hi
  case runChecked => simp only [stepProc]; exact armRunChecked_td _ _ _ ht hi
  case cmdWait => simp only [stepProc]; exact armCmdWait_td _ _ _ ht hpc
  case runExited => simp only [stepProc]; exact armRunExited_td _ _ _ ht hi
  case backoff => simp only [stepProc]; exact armBackoff_td _ _ _ ht hi
  case backoffElapsed => simp only [stepProc]; exact doLaunch_td _ _ _ ht hi
  all_goals (rw [hpc] at hnt; simp [Pc.isTail, Pc.isOther, Pc.isLaunch, Pc.isDep] at hnt)

structure TailDone (s : Sys) : Prop where
  valid : ∀ u i, u < s.threads.length → (s.thr u).kind = .proc i → i < s.insts.length
  done : ∀ u i, u < s.threads.length → (s.thr u).kind = .proc i → (s.thr u).pc.isTail = true → (s.inst i).done = true

theorem stopSd_isTail (pc : Pc) (h : pc.isStopSd = true) : pc.isTail = true := by
  cases pc <;> simp_all [Pc.isStopSd] <;> rfl

theorem stepThread_tailDone (s : Sys) (t : Tid) (h : Hints) (g : TailDone s) (ht : t < s.threads.length) :
    TailDone (stepThread s t h) := by
  have hle := stepThread_le s t h
  have hkind : ((stepThread s t h).thr t).kind = (s.thr t).kind := by
    rcases hle.tkind with e | e
    · exact e
    · exact absurd ht (Nat.not_lt.mpr e)
  refine ⟨fun u i hu' hk => ?_, fun u i hu' hk htl => ?_⟩
  · by_cases hut : u = t
    · subst hut; rw [hkind] at hk
      exact Nat.lt_of_lt_of_le (g.valid u i ht hk) hle.len
    · by_cases hu : u < s.threads.length
      · rw [hle.tframe u hu hut] at hk
        exact Nat.lt_of_lt_of_le (g.valid u i hu hk) hle.len
      · rcases hle.tnew u (Nat.le_of_not_lt hu) hu' with ⟨_, e2⟩ | e
        · exact e2 i hk
        · exact absurd e hut
  · by_cases hut : u = t
    · subst hut
      rw [hkind] at hk
      have hi := g.valid u i ht hk
      cases hold : (s.thr u).pc.isTail with
      | true => exact done_mono hle i (g.done u i ht hk hold)
      | false =>
        have hsd : (s.thr u).pc.isStopSd = false := by
          cases hs : (s.thr u).pc.isStopSd with
          | false => rfl
          | true => rw [stopSd_isTail _ hs] at hold; cases hold
        have e := stepThread_proc s u h i hk hsd
        rw [e] at htl ⊢
        exact stepProc_td s u i h ht hi hold htl
    · by_cases hu : u < s.threads.length
      · have e := hle.tframe u hu hut
        rw [e] at hk htl
        exact done_mono hle i (g.done u i hu hk htl)
      · rcases hle.tnew u (Nat.le_of_not_lt hu) hu' with ⟨e1, _⟩ | e
        · rw [e1] at htl; cases htl
        · exact absurd e hut

theorem ext_tailDone (s : Sys) (c : Choice) (h : Hints) (g : TailDone s) (hc : ∀ t, c ≠ .run t) : TailDone (step s c h) := by
  have hle := step_le s c h
  have htid : Choice.tid s c = s.threads.length := by
    cases c with
    | run t => exact absurd rfl (hc t)
    | _ => rfl
  rw [htid] at hle
  have hold : ∀ u, u < s.threads.length → (step s c h).thr u = s.thr u :=
    fun u hu => hle.tframe u hu (Nat.ne_of_lt hu)
  have hnew : ∀ u i, s.threads.length ≤ u → u < (step s c h).threads.length → ((step s c h).thr u).kind ≠ .proc i :=
    fun u i h1 h2 => ext_new_not_proc s c h hc u h1 h2 i
  refine ⟨fun u i hu' hk => ?_, fun u i hu' hk htl => ?_⟩
  · by_cases hu : u < s.threads.length
    · rw [hold u hu] at hk; exact Nat.lt_of_lt_of_le (g.valid u i hu hk) hle.len
    · exact absurd hk (hnew u i (Nat.le_of_not_lt hu) hu')
  · by_cases hu : u < s.threads.length
    · rw [hold u hu] at hk htl; exact done_mono hle i (g.done u i hu hk htl)
    · exact absurd hk (hnew u i (Nat.le_of_not_lt hu) hu')

theorem tailDone_congr {s s' : Sys} (g : TailDone s) (ht : s'.threads = s.threads) (hi : s'.insts = s.insts) : TailDone s' := by
  have e1 : ∀ u, s'.thr u = s.thr u := fun u => by unfold Sys.thr; rw [ht]
  have e2 : ∀ j, s'.inst j = s.inst j := fun j => by unfold Sys.inst; rw [hi]
  refine ⟨fun u i hu hk => ?_, fun u i hu hk htl => ?_⟩
  · rw [e1] at hk; rw [ht] at hu; rw [hi]; exact g.valid u i hu hk
  · rw [e1] at hk htl; rw [ht] at hu; rw [e2]; exact g.done u i hu hk htl

/-- **In every state the model passes through, a process goroutine past its phases has ended its process.** -/
theorem reachF_tailDone (gr : Gran) (o : Bool) (cfgs : List Cfg) {s : Sys} (h : ReachF (init gr o cfgs) s) : TailDone s := by
  induction h with
  | init => exact ⟨fun u i hu _ => by simp [init] at hu, fun u i hu _ _ => by simp [init] at hu⟩
  | thread t hh _ ht _ ih => exact stepThread_tailDone _ t hh ih ht
  | ext c hh _ hc ih => exact ext_tailDone _ c hh ih hc
  | clear _ ih => exact tailDone_congr ih rfl rfl

/-- **`Run()` can pass its wait group — after which it returns — only when every process goroutine
    has left its body and the instance of each is done.** -/
theorem run_passes_only_when_all_done (gr : Gran) (o : Bool) (cfgs : List Cfg) {s : Sys}
    (hr : ReachF (init gr o cfgs) s) (u : Tid) (hp : (s.thr u).pc = .runWg) (hen : enabledThr s u = true)
    (w : Tid) (hw : w < s.threads.length) (i : IId) (hk : (s.thr w).kind = .proc i) :
    ((s.thr w).pc = .lockCleanup ∨ (s.thr w).pc = .finished) ∧ (s.inst i).done = true := by
  have hz : s.wg = 0 := by unfold enabledThr at hen; simpa [hp] using hen
  have h1 := wg_pass (reachF_wgInv gr o cfgs hr) hz w hw i hk
  refine ⟨h1, (reachF_tailDone gr o cfgs hr).done w i hw hk ?_⟩
  rcases h1 with e | e <;> (rw [e]; rfl)

end PC.Sup
