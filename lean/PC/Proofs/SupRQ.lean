import PC.Proofs.SupTail
/-! `RSame`: every thread step except the restart decision (`armRunExited`) leaves every restart
    counter as it is. Per-arm lemmas as in `SupInsts`. -/
namespace PC.Sup

/-- the restart counters are untouched -/
def RSame (s s' : Sys) : Prop := ∀ n, (s'.ps n).restarts = (s.ps n).restarts

theorem RSame.refl (s : Sys) : RSame s s := fun _ => rfl
theorem RSame.trans {a b c : Sys} (h1 : RSame a b) (h2 : RSame b c) : RSame a c := fun n => (h2 n).trans (h1 n)

structure PSame (s s' : Sys) : Prop where
  pstates : s'.pstates = s.pstates

theorem RSame.of_same {s s' : Sys} (h : PSame s s') : RSame s s' := fun n => by unfold Sys.ps; rw [h.pstates]

macro "rsame" : tactic => `(tactic| exact ⟨rfl⟩)

theorem setInst_r (s : Sys) (i : IId) (f : Inst → Inst) (_hf : ∀ x, Inst.Le x (f x)) : RSame s (s.setInst i f) :=
  RSame.of_same (by rsame)
theorem emit_r (s : Sys) (o) : RSame s (s.emit o) := RSame.of_same (by rsame)
theorem note_r (s : Sys) (e : GateEv) (_he : ∀ i d c, e ≠ .passed i d c) : RSame s (s.note e) := RSame.of_same (by rsame)
theorem notePassed_r (s : Sys) (i d : IId) (c : Cond) : RSame s (s.notePassed i d c) := by
  unfold Sys.notePassed; split
  · exact RSame.of_same (by rsame)
  · exact RSame.refl _
theorem setPc_r (s : Sys) (t pc) : RSame s (s.setPc t pc) := RSame.of_same (by rsame)
theorem spawn_r (s : Sys) (k) (_hk : ∀ i, k = .proc i → i < s.insts.length) : RSame s (s.spawn k) := RSame.of_same (by rsame)

/-- an update of a process state record that keeps its restart counter -/
theorem setPs_r (s : Sys) (n : Name) (f : PState → PState) (hf : ∀ p, (f p).restarts = p.restarts := by intro p; rfl) :
    RSame s (s.setPs n f) := by
  intro m
  by_cases hm : m < s.pstates.length
  · rw [ps_setPs _ _ _ _ hm]; split
    · exact hf _
    · rfl
  · unfold Sys.ps Sys.setPs
    simp only [List.getD_eq_getElem?_getD, List.getElem?_modify]
    rw [List.getElem?_eq_none (Nat.le_of_not_lt hm)]
    simp

theorem RSame.then {a b c : Sys} (h1 : RSame a b) (h2 : RSame b c) : RSame a c := h1.trans h2
theorem RSame.congr_left {s0 s s' : Sys} (h : RSame s s') (e : PSame s0 s) : RSame s0 s' := (RSame.of_same e).trans h
theorem RSame.congr {s s' s'' : Sys} (h : RSame s s') (e : PSame s' s'') : RSame s s'' := h.trans (RSame.of_same e)

macro "rpeel " t:term : tactic => `(tactic| refine RSame.trans ?_ $t)
macro "rupd " t:term : tactic => `(tactic| exact RSame.congr_left $t (by rsame))
macro "done_r" : tactic => `(tactic| first | exact RSame.refl _ | exact RSame.of_same (by rsame))

/-! ### helpers -/

theorem setState_r (s : Sys) (i st) : RSame s (setState s i st) := by
  unfold setState
  simp only
  cases st <;> simp only <;>
    first
    | exact (setPs_r _ _ _).then (emit_r _ _)
    | exact ((setPs_r _ _ _).then (emit_r _ _)).then (setPs_r _ _ _)
    | exact (((setPs_r _ _ _).then (emit_r _ _)).then (setPs_r _ _ _)).then (emit_r _ _)

theorem setExit_r (s : Sys) (n c) : RSame s (setExit s n c) := by
  unfold setExit; exact (setPs_r _ _ _).then (emit_r _ _)

theorem recordExit_r (s : Sys) (c) : RSame s (recordExit s c) := by
  unfold recordExit
  split
  · exact RSame.refl _
  · rpeel (emit_r _ _)
    exact RSame.of_same (by rsame)

theorem onProcessEnd_r (s : Sys) (i st) : RSame s (onProcessEnd s i st) := by
  unfold onProcessEnd
  exact ((setInst_r s i endInst endInst_le).then (setState_r _ _ _)).then (emit_r _ _)

theorem cmdExit_r (s : Sys) (i c) : RSame s (cmdExit s i c) := setInst_r _ _ _ (by inst_le)

theorem cmdStop_r (s : Sys) (i sig) : RSame s (cmdStop s i sig) := by
  unfold cmdStop
  simp only
  split
  · split
    · exact (emit_r _ _).then (cmdExit_r _ _ _)
    · split
      · exact (emit_r _ _).then (cmdExit_r _ _ _)
      · exact emit_r _ _
  · exact emit_r _ _

theorem decideRestart_r (s : Sys) (i) : RSame s (decideRestart s i).2 := setInst_r _ _ _ (by inst_le)

theorem append_r (s : Sys) (x : Inst) (_hx : EndedI x) : RSame s { s with insts := s.insts ++ [x] } :=
  RSame.of_same (by rsame)

theorem spawnProc_r (s : Sys) (n) : RSame s (spawnProc s n) := by
  unfold spawnProc newInst
  simp only
  rpeel (spawn_r _ _ (by
    intro i h
    cases h
    have e : ∀ (st : Status) (s0 : Sys) (j : IId), (setState s0 j st).insts = s0.insts := by
      intro st s0 j; unfold setState; cases st <;> rfl
    simp [e]))
  have h1 : RSame s ({ s with insts := s.insts ++ [{ name := n, seq := (s.insts.filter (·.name = n)).length + 1 }] } : Sys) :=
    append_r s _ (by intro h; simp at h)
  exact (h1.then (setState_r _ _ _)).congr (by rsame)

theorem gotoCleanup_r (s : Sys) (t) : RSame s (gotoCleanup s t) := by
  unfold gotoCleanup; rpeel (setPc_r _ _ _); done_r

theorem gotoStop_r (s : Sys) (t i cr k) : RSame s (gotoStop s t i cr k) := by
  unfold gotoStop
  exact (setInst_r _ _ _ (by inst_le)).then (setPc_r _ _ _)

theorem apiRet_r (s : Sys) (t r) : RSame s (apiRet s t r) := by
  unfold apiRet; split
  · exact (emit_r _ _).then (setPc_r _ _ _)
  all_goals exact setPc_r _ _ _

theorem apiSpawn_r (s : Sys) (t n) : RSame s (apiSpawn s t n) := by
  unfold apiSpawn
  simp only
  split
  · rpeel (setPc_r _ _ _); rpeel (emit_r _ _); exact spawnProc_r _ _
  all_goals (rpeel (setPc_r _ _ _); exact spawnProc_r _ _)

theorem addDone_r (s : Sys) (i : IId) : RSame s (addDone s i) := by
  unfold addDone; done_r
theorem doSkip_r (s : Sys) (t i) : RSame s (doSkip s t i) := by
  unfold doSkip; exact (addDone_r _ _).then ((onProcessEnd_r _ _ _).then (setPc_r _ _ _))

theorem afterDeps_r (s : Sys) (t) : RSame s (afterDeps s t) := setPc_r _ _ _

theorem lookupRunning_r (s : Sys) (t i k c r) : RSame s (lookupRunning s t i k c r) := by
  unfold lookupRunning; split
  · exact ((note_r _ _ (by intro _ _ _ h; cases h)).then (emit_r _ _)).then (setPc_r _ _ _)
  · exact ((note_r _ _ (by intro _ _ _ h; cases h)).then (emit_r _ _)).then (setPc_r _ _ _)

theorem depStep_r (s : Sys) (t i h r) : RSame s (depStep s t i h r) := by
  unfold depStep
  split
  · exact afterDeps_r _ _
  · simp only
    split
    · exact (((emit_r _ _).then (note_r _ _ (by intro _ _ _ h; cases h))).then (emit_r _ _)).then (setPc_r _ _ _)
    · split
      · exact (emit_r _ _).then (lookupRunning_r _ _ _ _ _ _)
      · exact (emit_r _ _).then (setPc_r _ _ _)

theorem doLaunch_r (s : Sys) (t i) : RSame s (doLaunch s t i) := by
  unfold doLaunch
  simp only
  split
  · rpeel (setPc_r _ _ _)
    rpeel (onProcessEnd_r _ _ _)
    rpeel (setExit_r _ _ _)
    rpeel (emit_r _ _)
    exact setState_r _ _ _
  · rpeel (setPc_r _ _ _)
    have key : RSame s
        (({ (setState s i .running).emit (.launch ((setState s i .running).nameOf i)) with
            launchClock := ((setState s i .running).emit (.launch ((setState s i .running).nameOf i))).launchClock + 1 } : Sys).setInst i
          fun x => { x with cmd := .alive, launches := x.launches + 1,
                            launchedAt := ((setState s i .running).emit (.launch ((setState s i .running).nameOf i))).launchClock + 1 }) := by
      rpeel (setInst_r _ _ _ (by inst_le))
      have hE : RSame s ((setState s i .running).emit (.launch ((setState s i .running).nameOf i))) :=
        (setState_r s i .running).then (emit_r _ _)
      exact hE.congr (by rsame)
    split
    · exact key.trans (spawn_r _ _ (by intro i h; cases h))
    · exact key

theorem foldl_r {α : Type} (f : Sys → α → Sys) (hf : ∀ s a, RSame s (f s a)) (l : List α) (s : Sys) :
    RSame s (l.foldl f s) := by
  induction l generalizing s with
  | nil => exact RSame.refl _
  | cons a l ih => exact (hf s a).then (ih _)

theorem sdBody_r (s : Sys) (t h k) : RSame s (sdBody s t h k) := by
  unfold sdBody
  simp only
  rpeel (setPc_r _ _ _)
  rupd (foldl_r _ (fun s i => setInst_r _ _ _ (by inst_le)) _ _)

theorem sdSeqNext_r (s : Sys) (t r k) : RSame s (sdSeqNext s t r k) := by
  unfold sdSeqNext; split
  · exact setPc_r _ _ _
  · exact gotoStop_r _ _ _ _ _

theorem sdReturn_r (s : Sys) (t k) : RSame s (sdReturn s t k) := by
  unfold sdReturn
  simp only
  split
  · split
    · rpeel (setPc_r _ _ _); rpeel (emit_r _ _); rpeel (emit_r _ _); done_r
    all_goals (rpeel (setPc_r _ _ _); rpeel (emit_r _ _); done_r)
  · rpeel (gotoCleanup_r _ _); rpeel (emit_r _ _); done_r
  · rpeel (gotoCleanup_r _ _); rpeel (emit_r _ _); done_r

theorem stopReturn_r (s : Sys) (t k) : RSame s (stopReturn s t k) := by
  unfold stopReturn
  split
  · split
    · exact (emit_r _ _).then (setPc_r _ _ _)
    all_goals exact setPc_r _ _ _
  · exact setPc_r _ _ _
  · rpeel (sdSeqNext_r _ _ _ _)
    rupd (spawn_r _ _ (by intro i h; cases h))
  · exact setPc_r _ _ _
  · exact setPc_r _ _ _

theorem apiFirst_r (s : Sys) (t h op) : RSame s (apiFirst s t h op) := by
  unfold apiFirst
  cases op with
  | start n => simp only; split <;> first | exact apiRet_r _ _ _ | exact setPc_r _ _ _
  | stop n =>
    simp only; split
    · exact (setInst_r _ _ _ (by inst_le)).then (gotoStop_r _ _ _ _ _)
    · split <;> exact apiRet_r _ _ _
  | restart n =>
    simp only; split
    · exact (setInst_r _ _ _ (by inst_le)).then (gotoStop_r _ _ _ _ _)
    · split
      · exact setPc_r _ _ _
      · exact apiRet_r _ _ _
  | state n => simp only; split <;> exact apiRet_r _ _ _
  | shutdown => exact setPc_r _ _ _
  | runMain =>
    simp only
    rpeel (setPc_r _ _ _)
    rupd (foldl_r _ spawnProc_r _ _)

/-! ### the arms -/

theorem armDepLookup_r (s : Sys) (t d c r) : RSame s (armDepLookup s t d c r) := by
  unfold armDepLookup; cases c <;> exact setPc_r _ _ _
theorem armWaitDone_r (s : Sys) (t i d ok r) : RSame s (armWaitDone s t i d ok r) := by
  unfold armWaitDone; split
  · exact doSkip_r _ _ _
  · exact (notePassed_r _ _ _ _).then (setPc_r _ _ _)
theorem armWaitReady_r (s : Sys) (t i d r) : RSame s (armWaitReady s t i d r) := by
  unfold armWaitReady; split
  · exact (notePassed_r _ _ _ _).then (setPc_r _ _ _)
  · exact doSkip_r _ _ _
theorem armWaitLogReady_r (s : Sys) (t i d r) : RSame s (armWaitLogReady s t i d r) := by
  unfold armWaitLogReady; split
  · exact (notePassed_r _ _ _ _).then (setPc_r _ _ _)
  · exact doSkip_r _ _ _
theorem armProcSkipped_r (s : Sys) (t i) : RSame s (armProcSkipped s t i) := by
  unfold armProcSkipped; split
  · exact (recordExit_r _ _).then (setPc_r _ _ _)
  · exact gotoCleanup_r _ _
theorem armRunEnter_r (s : Sys) (t i) : RSame s (armRunEnter s t i) := by
  unfold armRunEnter; split
  · exact (onProcessEnd_r _ _ _).then (setPc_r _ _ _)
  · exact setPc_r _ _ _
theorem armRunChecked_r (s : Sys) (t i) : RSame s (armRunChecked s t i) := by
  unfold armRunChecked; split
  · exact ((setExit_r _ _ _).then (onProcessEnd_r _ _ _)).then (setPc_r _ _ _)
  · exact ((setInst_r _ _ _ (by inst_le)).then (emit_r _ _)).then (doLaunch_r _ _ _)
theorem armCmdWait_r (s : Sys) (t i) : RSame s (armCmdWait s t i) := by
  unfold armCmdWait; split
  · exact (setExit_r _ _ _).then (setPc_r _ _ _)
  · exact RSame.refl _
theorem armBackoff_r (s : Sys) (t i) : RSame s (armBackoff s t i) := by
  unfold armBackoff; split
  · exact (onProcessEnd_r _ _ _).then (setPc_r _ _ _)
  · exact setPc_r _ _ _
theorem armProcRan_r (s : Sys) (t i c) : RSame s (armProcRan s t i c) := by
  unfold armProcRan; rpeel (setPc_r _ _ _); done_r
theorem armProcDoneAdded_r (s : Sys) (t i c) : RSame s (armProcDoneAdded s t i c) := by
  unfold armProcDoneAdded; simp only; split
  · exact (recordExit_r _ _).then (setPc_r _ _ _)
  · exact gotoCleanup_r _ _
theorem armLockCleanup_r (s : Sys) (t i) : RSame s (armLockCleanup s t i) := by
  unfold armLockCleanup; split
  · rpeel (setPc_r _ _ _); done_r
  · exact setPc_r _ _ _

theorem stepProc_r (s : Sys) (t i h pc) (hpc : pc ≠ .runExited) : RSame s (stepProc s t i h pc) := by
  cases pc
  case runExited => exact absurd rfl hpc
  all_goals simp only [stepProc]
  case begin => exact setPc_r _ _ _
  case depNext rest => exact depStep_r _ _ _ _ _
  case lockDep k c rest => exact lookupRunning_r _ _ _ _ _ _
  case depLookup d c rest => exact armDepLookup_r _ _ _ _ _
  case waitDone d ok rest => exact armWaitDone_r _ _ _ _ _ _
  case waitReady d rest => exact armWaitReady_r _ _ _ _ _
  case waitLogReady d rest => exact armWaitLogReady_r _ _ _ _ _
  case waitStarted d rest => exact (notePassed_r _ _ _ _).then (setPc_r _ _ _)
  case procSkipped => exact armProcSkipped_r _ _ _
  case runEnter => exact armRunEnter_r _ _ _
  case runChecked => exact armRunChecked_r _ _ _
  case cmdWait => exact armCmdWait_r _ _ _
  case backoff => exact armBackoff_r _ _ _
  case backoffElapsed => exact doLaunch_r _ _ _
  case procRan c => exact armProcRan_r _ _ _ _
  case procDoneAdded c => exact armProcDoneAdded_r _ _ _ _
  case lockCleanup => exact armLockCleanup_r _ _ _
  all_goals exact RSame.refl _

theorem armStopEnter_r (s : Sys) (t i cr k) : RSame s (armStopEnter s t i cr k) := by
  unfold armStopEnter; split <;> exact setPc_r _ _ _
theorem armStopNotRunning_r (s : Sys) (t i k) : RSame s (armStopNotRunning s t i k) := by
  unfold armStopNotRunning; simp only; split
  · exact (onProcessEnd_r _ _ _).then (stopReturn_r _ _ _)
  · exact stopReturn_r _ _ _
theorem armStopChecked_r (s : Sys) (t i cr k) : RSame s (armStopChecked s t i cr k) := by
  unfold armStopChecked; exact (setState_r _ _ _).then (setPc_r _ _ _)

theorem stopMarkedPrep_r (s : Sys) (i cr) : RSame s (stopMarkedPrep s i cr) := by
  unfold stopMarkedPrep
  apply setInst_r
  intro x
  refine ⟨rfl, rfl, id, id, ?_, id, ?_, ?_⟩
  · intro h; simp [h]
  · intro h; simp [h]
  · intro h1 h2; simp_all

theorem armStopMarked_r (s : Sys) (t i cr k) : RSame s (armStopMarked s t i cr k) := by
  unfold armStopMarked
  simp only
  split
  · rpeel (stopReturn_r _ _ _)
    exact stopMarkedPrep_r _ _ _
  · split
    · rpeel (setPc_r _ _ _)
      rpeel (setInst_r _ _ _ (by inst_le))
      rpeel (cmdStop_r _ _ _)
      exact stopMarkedPrep_r _ _ _
    · rpeel (stopReturn_r _ _ _)
      rpeel (cmdStop_r _ _ _)
      exact stopMarkedPrep_r _ _ _
theorem armStopWaitKill_r (s : Sys) (t i k) : RSame s (armStopWaitKill s t i k) := by
  unfold armStopWaitKill; split
  · exact (cmdStop_r _ _ _).then (stopReturn_r _ _ _)
  · exact stopReturn_r _ _ _

theorem armSdEnter_r (s : Sys) (t h k) : RSame s (armSdEnter s t h k) := by
  unfold armSdEnter; split
  · rupd (sdBody_r _ _ _ _)
  · exact setPc_r _ _ _
theorem armSdPrepared_r (s : Sys) (t o k) : RSame s (armSdPrepared s t o k) := by
  unfold armSdPrepared; split
  · rpeel (setPc_r _ _ _)
    apply foldl_r
    intro s i
    exact RSame.congr_left (spawn_r _ _ (by intro i h; cases h)) (by rsame)
  · exact sdSeqNext_r _ _ _ _

theorem armStopperBegin_r (s : Sys) (t i) : RSame s (armStopperBegin s t i) := by
  unfold armStopperBegin
  simp only
  rpeel (setPc_r _ _ _)
  apply foldl_r
  intro s j
  exact RSame.congr_left (spawn_r _ _ (by intro i h; cases h)) (by rsame)

theorem stepStopper_r (s : Sys) (t i pc) : RSame s (stepStopper s t i pc) := by
  cases pc <;> simp only [stepStopper] <;>
    first | exact RSame.refl _ | exact armStopperBegin_r _ _ _ | exact gotoStop_r _ _ _ _ _
          | (rpeel (setPc_r _ _ _); done_r)
theorem stepWaiter_r (s : Sys) (t i pc) : RSame s (stepWaiter s t i pc) := by
  cases pc <;> simp only [stepWaiter] <;>
    first | exact RSame.refl _ | exact setPc_r _ _ _ | (rpeel (setPc_r _ _ _); done_r)
theorem stepDepwaiter_r (s : Sys) (t o i pc) : RSame s (stepDepwaiter s t o i pc) := by
  cases pc <;> simp only [stepDepwaiter] <;>
    first | exact RSame.refl _ | exact setPc_r _ _ _ | (rpeel (setPc_r _ _ _); done_r)

theorem armApiBegin_r (s : Sys) (t h op) : RSame s (armApiBegin s t h op) := by
  unfold armApiBegin
  cases op <;> simp only <;> first
    | exact setPc_r _ _ _
    | (split
       · exact apiFirst_r _ _ _ _
       · exact setPc_r _ _ _)
theorem armSpawnOrLock_r (s : Sys) (t n) : RSame s (armSpawnOrLock s t n) := by
  unfold armSpawnOrLock; split
  · split
    · exact apiSpawn_r _ _ _
    · exact setPc_r _ _ _
  · exact apiRet_r _ _ _
theorem stepApi_r (s : Sys) (t h op pc) : RSame s (stepApi s t h op pc) := by
  cases pc <;> simp only [stepApi] <;>
    first | exact RSame.refl _ | exact setPc_r _ _ _ | exact armApiBegin_r _ _ _ _ | exact apiFirst_r _ _ _ _
          | exact armSpawnOrLock_r _ _ _ | exact apiSpawn_r _ _ _
          | exact (emit_r _ _).then (setPc_r _ _ _)
theorem armProbeBegin_r (s : Sys) (t n) : RSame s (armProbeBegin s t n) := by
  unfold armProbeBegin; split
  · exact setPc_r _ _ _
  · split
    · exact setPc_r _ _ _
    · exact (setPs_r _ _ _).then (gotoStop_r _ _ _ _ _)

/-- **Every thread step other than the restart decision leaves the restart counters alone.** -/
theorem stepThread_r (s : Sys) (t : Tid) (h : Hints)
    (hns : ¬ ((s.thr t).kind.isProc = true ∧ (s.thr t).pc = .runExited)) : RSame s (stepThread s t h) := by
  unfold stepThread
  simp only
  split
  · exact armStopEnter_r _ _ _ _ _
  · exact armStopNotRunning_r _ _ _ _
  · exact armStopChecked_r _ _ _ _ _
  · exact armStopMarked_r _ _ _ _ _
  · exact armStopWaitKill_r _ _ _ _
  · exact armSdEnter_r _ _ _ _
  · rupd (sdBody_r _ _ _ _)
  · exact armSdPrepared_r _ _ _ _
  · exact sdReturn_r _ _ _
  · split
    · rename_i i hk
      exact stepProc_r _ _ _ _ _ (fun hp => hns ⟨by rw [hk]; rfl, hp⟩)
    · exact stepApi_r _ _ _ _ _
    · exact stepStopper_r _ _ _ _
    · exact stepWaiter_r _ _ _ _
    · exact stepDepwaiter_r _ _ _ _ _
    · split
      · exact armProbeBegin_r _ _ _
      · exact RSame.refl _
    · split
      · exact (setInst_r _ _ _ (by inst_le)).then (setPc_r _ _ _)
      · exact RSame.refl _

end PC.Sup
