import PC.Model.Plan
/-! Correctness of the cycle check (`dfs` / `validateFrom`): it reports a cycle iff some name
    reachable from the outer list lies on a cycle — for every successor function (so for every
    iteration order of every map involved) and with fuel `|universe| + 1`. -/
namespace PC.Plan

set_option linter.unusedSectionVars false
variable {α : Type} [DecidableEq α]

inductive Reach (succ : α → List α) : α → α → Prop
  | refl (a : α) : Reach succ a a
  | tail {a b c : α} : Reach succ a b → c ∈ succ b → Reach succ a c

/-- a path of at least one edge -/
def ReachPlus (succ : α → List α) (a b : α) : Prop := ∃ m, m ∈ succ a ∧ Reach succ m b

theorem Reach.trans {succ : α → List α} {a b c : α} (h1 : Reach succ a b) (h2 : Reach succ b c) : Reach succ a c := by
  induction h2 with
  | refl => exact h1
  | tail _ hc ih => exact Reach.tail ih hc

theorem Reach.head {succ : α → List α} {a m b : α} (hm : m ∈ succ a) (h : Reach succ m b) : Reach succ a b :=
  Reach.trans (Reach.tail (Reach.refl a) hm) h

def Black (st : St α) (b : α) : Prop := b ∈ st.visited ∧ b ∉ st.stack

/-- invariant of the search: the stack is visited; finished ("black") names have only finished
    successors and lie on no cycle; everything visited satisfies `KR` (reachable from the outer list) -/
structure Good (succ : α → List α) (KR : α → Prop) (st : St α) : Prop where
  stackVisited : ∀ x ∈ st.stack, x ∈ st.visited
  closed : ∀ b, Black st b → ∀ n ∈ succ b, Black st n
  acyclic : ∀ b, Black st b → ¬ ReachPlus succ b b
  kr : ∀ x ∈ st.visited, KR x

theorem black_reach {succ : α → List α} {KR : α → Prop} {st : St α} (g : Good succ KR st) {a b : α}
    (ha : Black st a) (h : Reach succ a b) : Black st b := by
  induction h with
  | refl => exact ha
  | tail _ hc ih => exact g.closed _ ih _ hc

/-- outcome of a search step from `st` to `st'` with result `r` -/
structure Post (succ : α → List α) (KR : α → Prop) (st st' : St α) (r : Bool) : Prop where
  found : r = true → ∃ c, KR c ∧ ReachPlus succ c c
  good : r = false → Good succ KR st'
  stackSame : r = false → ∀ x, x ∈ st'.stack ↔ x ∈ st.stack
  visitedMono : r = false → ∀ x ∈ st.visited, x ∈ st'.visited

def unv (univ V : List α) : Nat := univ.countP (fun x => decide (x ∉ V))

theorem unv_mono (univ V V' : List α) (h : ∀ x ∈ V, x ∈ V') : unv univ V' ≤ unv univ V := by
  unfold unv
  apply List.countP_mono_left
  intro x _ hx
  simp only [decide_eq_true_eq] at hx ⊢
  exact fun hv => hx (h x hv)

theorem unv_lt (univ V : List α) (v : α) (hv : v ∈ univ) (hn : v ∉ V) : unv univ (v :: V) < unv univ V := by
  unfold unv
  induction univ with
  | nil => simp at hv
  | cons a r ih =>
    simp only [List.countP_cons]
    by_cases hav : a = v
    · subst hav
      have h1 : decide (a ∉ a :: V) = false := by simp
      have h2 : decide (a ∉ V) = true := by simp [hn]
      simp only [h1, h2, Bool.false_eq_true, ↓reduceIte, Nat.add_zero]
      have := unv_mono r V (a :: V) (fun x hx => List.mem_cons_of_mem _ hx)
      unfold unv at this
      omega
    · have hr : v ∈ r := by
        rcases List.mem_cons.mp hv with h | h
        · exact absurd h.symm hav
        · exact h
      have := ih hr
      have hd : decide (a ∉ v :: V) = decide (a ∉ V) := by simp [hav]
      rw [hd]
      omega

section
variable (known : α → Bool) (succ : α → List α) (KR : α → Prop) (univ : List α)

/-- what the recursive call is assumed to satisfy (the statement of `dfs_spec` at one fuel level) -/
def RecSpec (fuel : Nat) (rec : α → St α → Bool × St α) : Prop :=
  ∀ (v : α) (st : St α), Good succ KR st → v ∉ st.visited → KR v → (∀ s ∈ st.stack, Reach succ s v) →
    v ∈ univ → unv univ st.visited < fuel →
    Post succ KR st (rec v st).2 (rec v st).1 ∧ ((rec v st).1 = false → v ∈ (rec v st).2.visited)

theorem loop_spec (hKR : ∀ x, KR x → ∀ n ∈ succ x, KR n) (hcl : ∀ x ∈ univ, ∀ n ∈ succ x, n ∈ univ)
    (fuel : Nat) (rec : α → St α → Bool × St α) (hrec : RecSpec succ KR univ fuel rec) (v : α) (hvu : v ∈ univ) :
    ∀ (ns : List α) (st : St α), (∀ n ∈ ns, n ∈ succ v) → Good succ KR st → v ∈ st.visited → v ∈ st.stack →
      (∀ s ∈ st.stack, Reach succ s v) → unv univ st.visited < fuel →
      Post succ KR st (loopWith rec ns st).2 (loopWith rec ns st).1 ∧
      ((loopWith rec ns st).1 = false → ∀ n ∈ ns, Black (loopWith rec ns st).2 n) := by
  intro ns
  induction ns with
  | nil =>
    intro st _ g _ _ _ _
    simp only [loopWith]
    exact ⟨⟨by simp, fun _ => g, fun _ _ => Iff.rfl, fun _ _ h => h⟩, fun _ n hn => by simp at hn⟩
  | cons n ns ih =>
    intro st hsub g hvV hvS hreach hfuel
    have hn : n ∈ succ v := hsub n (List.mem_cons_self ..)
    have hsub' : ∀ m ∈ ns, m ∈ succ v := fun m hm => hsub m (List.mem_cons_of_mem _ hm)
    have hKRv : KR v := g.kr v hvV
    unfold loopWith
    by_cases hnv : n ∈ st.visited
    · simp only [hnv, not_true_eq_false, ↓reduceIte]
      by_cases hns : n ∈ st.stack
      · -- a dependency that is on the stack: a cycle through `v`
        simp only [hns, ↓reduceIte]
        refine ⟨⟨fun _ => ⟨v, hKRv, n, hn, hreach n hns⟩, by simp, by simp, by simp⟩, by simp⟩
      · simp only [hns, ↓reduceIte]
        obtain ⟨p, hb⟩ := ih st hsub' g hvV hvS hreach hfuel
        refine ⟨p, fun hr m hm => ?_⟩
        rcases List.mem_cons.mp hm with rfl | hm
        · exact ⟨p.visitedMono hr _ hnv, fun h => hns ((p.stackSame hr _).mp h)⟩
        · exact hb hr m hm
    · simp only [hnv, not_false_eq_true, ↓reduceIte]
      have hnu : n ∈ univ := hcl v hvu n hn
      obtain ⟨p1, hin⟩ := hrec n st g hnv (hKR v hKRv n hn) (fun s hs => Reach.tail (hreach s hs) hn) hnu hfuel
      cases hr1 : (rec n st).1 with
      | true =>
        simp only [↓reduceIte]
        rw [hr1] at p1
        exact ⟨⟨fun _ => p1.found rfl, by simp [hr1], by simp [hr1], by simp [hr1]⟩, by simp [hr1]⟩
      | false =>
        simp only [Bool.false_eq_true, ↓reduceIte]
        rw [hr1] at p1
        have g1 := p1.good rfl
        have hs1 := p1.stackSame rfl
        have hv1 := p1.visitedMono rfl
        have hfuel1 : unv univ (rec n st).2.visited < fuel :=
          Nat.lt_of_le_of_lt (unv_mono univ _ _ hv1) hfuel
        obtain ⟨p2, hb⟩ := ih (rec n st).2 hsub' g1 (hv1 v hvV) ((hs1 v).mpr hvS)
          (fun s hs => hreach s ((hs1 s).mp hs)) hfuel1
        refine ⟨⟨p2.found, p2.good, fun hr x => (p2.stackSame hr x).trans (hs1 x),
          fun hr x hx => p2.visitedMono hr x (hv1 x hx)⟩, fun hr m hm => ?_⟩
        rcases List.mem_cons.mp hm with rfl | hm
        · refine ⟨p2.visitedMono hr _ (hin hr1), fun h => ?_⟩
          have : m ∈ st.stack := (hs1 m).mp ((p2.stackSame hr m).mp h)
          exact hnv (g.stackVisited m this)
        · exact hb hr m hm

theorem dfs_spec (hknown : ∀ x ∈ univ, known x = true)
    (hKR : ∀ x, KR x → ∀ n ∈ succ x, KR n) (hcl : ∀ x ∈ univ, ∀ n ∈ succ x, n ∈ univ) :
    ∀ fuel, RecSpec succ KR univ fuel (dfs known succ fuel) := by
  intro fuel
  induction fuel with
  | zero => intro v st _ _ _ _ _ hf; omega
  | succ fuel ih =>
    intro v st g hvV hKRv hreach hvu hfuel
    let st0 : St α := { visited := v :: st.visited, stack := v :: st.stack }
    have g0 : Good succ KR st0 := by
      refine ⟨?_, ?_, ?_, ?_⟩
      · intro x hx
        rcases List.mem_cons.mp hx with rfl | hx
        · exact List.mem_cons_self ..
        · exact List.mem_cons_of_mem _ (g.stackVisited x hx)
      · intro b hb n hn
        have hbv : b ≠ v := fun h => hb.2 (h ▸ List.mem_cons_self ..)
        have hb' : Black st b := by
          refine ⟨?_, fun h => hb.2 (List.mem_cons_of_mem _ h)⟩
          rcases List.mem_cons.mp hb.1 with h | h
          · exact absurd h hbv
          · exact h
        have := g.closed b hb' n hn
        refine ⟨List.mem_cons_of_mem _ this.1, fun h => ?_⟩
        rcases List.mem_cons.mp h with rfl | h
        · exact hvV this.1
        · exact this.2 h
      · intro b hb
        have hbv : b ≠ v := fun h => hb.2 (h ▸ List.mem_cons_self ..)
        have hb' : Black st b := by
          refine ⟨?_, fun h => hb.2 (List.mem_cons_of_mem _ h)⟩
          rcases List.mem_cons.mp hb.1 with h | h
          · exact absurd h hbv
          · exact h
        exact g.acyclic b hb'
      · intro x hx
        rcases List.mem_cons.mp hx with rfl | hx
        · exact hKRv
        · exact g.kr x hx
    have hreach0 : ∀ s ∈ st0.stack, Reach succ s v := by
      intro s hs
      rcases List.mem_cons.mp hs with rfl | hs
      · exact Reach.refl _
      · exact hreach s hs
    have hfuel0 : unv univ st0.visited < fuel := by
      have := unv_lt univ st.visited v hvu hvV
      show unv univ (v :: st.visited) < fuel
      omega
    obtain ⟨p, hb⟩ := loop_spec succ KR univ hKR hcl fuel (dfs known succ fuel) ih v hvu (succ v) st0
      (fun _ h => h) g0 (List.mem_cons_self ..) (List.mem_cons_self ..) hreach0 hfuel0
    show Post succ KR st (dfs known succ (fuel + 1) v st).2 (dfs known succ (fuel + 1) v st).1 ∧ _
    simp only [dfs, hknown v hvu, Bool.not_true, Bool.false_eq_true, ↓reduceIte]
    cases hr : (loopWith (dfs known succ fuel) (succ v) st0).1 with
    | true =>
      have hr' : (loopWith (dfs known succ fuel) (succ v) { visited := v :: st.visited, stack := v :: st.stack }).1 = true := hr
      simp only [hr', ↓reduceIte]
      rw [hr] at p
      exact ⟨⟨fun _ => p.found rfl, by simp, by simp, by simp⟩, by simp⟩
    | false =>
      have hr' : (loopWith (dfs known succ fuel) (succ v) { visited := v :: st.visited, stack := v :: st.stack }).1 = false := hr
      simp only [hr', Bool.false_eq_true, ↓reduceIte]
      rw [hr] at p
      have g1 := p.good rfl
      have hs1 := p.stackSame rfl
      have hv1 := p.visitedMono rfl
      have hbl := hb hr
      -- abbreviations
      generalize hst1 : (loopWith (dfs known succ fuel) (succ v) st0).2 = st1 at g1 hs1 hv1 hbl
      have hvS1 : v ∈ st1.stack := (hs1 v).mpr (List.mem_cons_self ..)
      have hvV1 : v ∈ st1.visited := hv1 v (List.mem_cons_self ..)
      have hmemS : ∀ x, x ∈ st1.stack.filter (· ≠ v) ↔ x ∈ st.stack := by
        intro x
        simp only [List.mem_filter, ne_eq, decide_not, Bool.not_eq_eq_eq_not, Bool.not_true,
          decide_eq_false_iff_not]
        constructor
        · rintro ⟨h1, h2⟩
          rcases List.mem_cons.mp ((hs1 x).mp h1) with h | h
          · exact absurd h h2
          · exact h
        · intro h
          refine ⟨(hs1 x).mpr (List.mem_cons_of_mem _ h), fun hx => ?_⟩
          subst hx
          exact hvV (g.stackVisited _ h)
      refine ⟨⟨by simp, fun _ => ?_, fun _ x => hmemS x, fun _ x hx => hv1 x (List.mem_cons_of_mem _ hx)⟩, fun _ => hvV1⟩
      -- the invariant after `v` has turned black
      have hblk : ∀ b, Black { st1 with stack := st1.stack.filter (· ≠ v) } b → b = v ∨ Black st1 b := by
        intro b hb
        by_cases hbv : b = v
        · exact Or.inl hbv
        · refine Or.inr ⟨hb.1, fun h => hb.2 ?_⟩
          simp only [List.mem_filter, ne_eq, decide_not, Bool.not_eq_eq_eq_not, Bool.not_true,
            decide_eq_false_iff_not]
          exact ⟨h, hbv⟩
      have hblk' : ∀ b, Black st1 b → Black { st1 with stack := st1.stack.filter (· ≠ v) } b := by
        intro b hb
        exact ⟨hb.1, fun h => hb.2 (List.mem_filter.mp h).1⟩
      refine ⟨?_, ?_, ?_, g1.kr⟩
      · intro x hx
        exact g1.stackVisited x (List.mem_filter.mp hx).1
      · intro b hb n hn
        rcases hblk b hb with rfl | hb1
        · exact hblk' n (hbl n hn)
        · exact hblk' n (g1.closed b hb1 n hn)
      · intro b hb
        rcases hblk b hb with rfl | hb1
        · rintro ⟨m, hm, hmb⟩
          have : Black st1 b := black_reach g1 (hbl m hm) hmb
          exact this.2 hvS1
        · exact g1.acyclic b hb1

end

/-- everything reachable from a black name of a state with empty stack is black -/
theorem validate_spec (known : α → Bool) (succ : α → List α) (univ : List α) (outer : List α)
    (hknown : ∀ x ∈ univ, known x = true) (hcl : ∀ x ∈ univ, ∀ n ∈ succ x, n ∈ univ) :
    ∀ (ks : List α) (st : St α), (∀ k ∈ ks, k ∈ univ ∧ k ∈ outer) →
      Good succ (fun x => ∃ k ∈ outer, Reach succ k x) st → st.stack = [] →
      (validateFrom known succ (univ.length + 1) ks st = true → ∃ c, (∃ k ∈ outer, Reach succ k c) ∧ ReachPlus succ c c) ∧
      (validateFrom known succ (univ.length + 1) ks st = false →
        ∃ st', Good succ (fun x => ∃ k ∈ outer, Reach succ k x) st' ∧ st'.stack = [] ∧
          (∀ x ∈ st.visited, x ∈ st'.visited) ∧ ∀ k ∈ ks, k ∈ st'.visited) := by
  intro ks
  induction ks with
  | nil =>
    intro st _ g hs
    simp only [validateFrom]
    exact ⟨by simp, fun _ => ⟨st, g, hs, fun _ h => h, by simp⟩⟩
  | cons k ks ih =>
    intro st hks g hs
    have hks' : ∀ k ∈ ks, k ∈ univ ∧ k ∈ outer := fun x hx => hks x (List.mem_cons_of_mem _ hx)
    unfold validateFrom
    by_cases hkv : k ∈ st.visited
    · simp only [hkv, ↓reduceIte]
      obtain ⟨h1, h2⟩ := ih st hks' g hs
      refine ⟨h1, fun hf => ?_⟩
      obtain ⟨st', g', hs', hm, hk⟩ := h2 hf
      exact ⟨st', g', hs', hm, fun x hx => by
        rcases List.mem_cons.mp hx with rfl | hx
        · exact hm _ hkv
        · exact hk x hx⟩
    · simp only [hkv, ↓reduceIte]
      have hKR : ∀ x, (∃ k ∈ outer, Reach succ k x) → ∀ n ∈ succ x, ∃ k ∈ outer, Reach succ k n :=
        fun x ⟨k, hk, hr⟩ n hn => ⟨k, hk, Reach.tail hr hn⟩
      have hfuel : unv univ st.visited < univ.length + 1 := by
        unfold unv
        have := List.countP_le_length (p := fun x => decide (x ∉ st.visited)) (l := univ)
        omega
      obtain ⟨p, hin⟩ := dfs_spec known succ _ univ hknown hKR hcl (univ.length + 1) k st g hkv
        ⟨k, (hks k (List.mem_cons_self ..)).2, Reach.refl _⟩ (by rw [hs]; simp) (hks k (List.mem_cons_self ..)).1 hfuel
      cases hr : (dfs known succ (univ.length + 1) k st).1 with
      | true =>
        simp only [↓reduceIte]
        rw [hr] at p
        exact ⟨fun _ => p.found rfl, by simp⟩
      | false =>
        simp only [Bool.false_eq_true, ↓reduceIte]
        rw [hr] at p
        have g1 := p.good rfl
        have hs1 : (dfs known succ (univ.length + 1) k st).2.stack = [] := by
          apply List.eq_nil_iff_forall_not_mem.mpr
          intro x hx
          have := (p.stackSame rfl x).mp hx
          rw [hs] at this
          simp at this
        obtain ⟨h1, h2⟩ := ih _ hks' g1 hs1
        refine ⟨h1, fun hf => ?_⟩
        obtain ⟨st', g', hs', hm, hk⟩ := h2 hf
        refine ⟨st', g', hs', fun x hx => hm x (p.visitedMono rfl x hx), fun x hx => ?_⟩
        rcases List.mem_cons.mp hx with rfl | hx
        · exact hm _ (hin hr)
        · exact hk x hx

/-- **The cycle check is exact**: with the outer list `outer` (the process map in any order),
    successor lists in any order, and a universe closed under successors, a cycle is reported iff
    some name reachable from `outer` lies on a cycle. -/
theorem validate_iff (known : α → Bool) (succ : α → List α) (univ outer : List α)
    (hknown : ∀ x ∈ univ, known x = true) (hout : ∀ k ∈ outer, k ∈ univ) (hcl : ∀ x ∈ univ, ∀ n ∈ succ x, n ∈ univ) :
    validateFrom known succ (univ.length + 1) outer {} = true ↔
      ∃ c, (∃ k ∈ outer, Reach succ k c) ∧ ReachPlus succ c c := by
  have g0 : Good succ (fun x => ∃ k ∈ outer, Reach succ k x) ({} : St α) :=
    ⟨by simp, fun b hb => by simp [Black] at hb, fun b hb => by simp [Black] at hb, by simp⟩
  obtain ⟨h1, h2⟩ := validate_spec known succ univ outer hknown hcl outer {} (fun k hk => ⟨hout k hk, hk⟩) g0 rfl
  constructor
  · exact h1
  · rintro ⟨c, ⟨k, hk, hkc⟩, hcc⟩
    cases hv : validateFrom known succ (univ.length + 1) outer {} with
    | true => rfl
    | false =>
      exfalso
      obtain ⟨st', g', hs', _, hall⟩ := h2 hv
      have hbk : Black st' k := ⟨hall k hk, by rw [hs']; simp⟩
      have hbc : Black st' c := black_reach g' hbk hkc
      exact g'.acyclic c hbc hcc

end PC.Plan
