import PC.Proofs.SupWgQ
/-! `Run()` (C04), globally: the project wait group counts the process goroutines that have not yet
    left their body (`wg.Done()` is deferred to `gotoCleanup`), so `Run()` passes its wait — and
    returns — only when every process goroutine has left its body. Over `ReachF`. -/
namespace PC.Sup

/-! ### who may run the `onProcessEnd` / `onProcessSkipped` shutdown continuations -/

def StopK.owes : StopK → Bool
  | .sdSeq _ _ k => k.isProcK
  | _ => false

/-- the label carries a continuation that ends in `gotoCleanup` (it belongs to a process goroutine
    inside `ShutDownProject`) -/
def Pc.owes : Pc → Bool
  | .sdEnter k | .sdLock k | .sdPrepared _ k | .sdWg k => k.isProcK
  | .stopEnter _ _ k | .stopNotRunning _ k | .stopChecked _ _ k | .stopMarked _ _ k | .stopWaitKill _ k => k.owes
  | _ => false

theorem gotoStop_owes (s : Sys) (t i cr k) (h : t < s.threads.length) :
    ((gotoStop s t i cr k).thr t).pc.owes = k.owes := by
  rw [gotoStop_pc _ _ _ _ _ h]; rfl

theorem sdSeqNext_owes (s : Sys) (t : Tid) (rest : List IId) (k : SdK) (h : t < s.threads.length) :
    ((sdSeqNext s t rest k).thr t).pc.owes = k.isProcK := by
  unfold sdSeqNext
  cases rest with
  | nil => simp only; rw [pc_setPc _ _ _ h]; rfl
  | cons i r => simp only; rw [gotoStop_owes _ _ _ _ _ h]; rfl

theorem stopReturn_owes (s : Sys) (t : Tid) (k : StopK) (h : t < s.threads.length)
    (ho : ((stopReturn s t k).thr t).pc.owes = true) : k.owes = true := by
  unfold stopReturn at ho
  cases k with
  | apiStop =>
    simp only at ho
    split at ho <;> (rw [pc_setPc _ _ _ (by simpa using h)] at ho; cases ho)
  | apiRestart n => simp only at ho; rw [pc_setPc _ _ _ h] at ho; cases ho
  | sdSeq i rest k =>
    simp only at ho
    rw [sdSeqNext_owes _ _ _ _ (by simp only [Sys.spawn, List.length_append, List.length_singleton]; exact Nat.lt_succ_of_lt h)] at ho
    exact ho
  | stopper i => simp only at ho; rw [pc_setPc _ _ _ h] at ho; cases ho
  | probe => simp only at ho; rw [pc_setPc _ _ _ h] at ho; cases ho

/-- the stop / shutdown arms hand the continuation on: a label that owes comes from one that owes -/
theorem stopSd_owes (s : Sys) (t : Tid) (h : Hints) (ht : t < s.threads.length)
    (hp : (s.thr t).pc.isStopSd = true) (ho : ((stepThread s t h).thr t).pc.owes = true) :
    (s.thr t).pc.owes = true := by
  unfold stepThread at ho
  simp only at ho
  cases hpc : (s.thr t).pc <;> simp_all [Pc.isStopSd]
  · -- stopEnter
    rename_i i cr k
    rcases armStopEnter_pc s t i cr k ht with e | e <;> (rw [e] at ho; exact ho)
  · -- stopNotRunning
    rename_i i k
    unfold armStopNotRunning at ho
    simp only at ho
    split at ho <;> exact stopReturn_owes _ _ _ (by simpa using ht) ho
  · rename_i i cr k
    rw [armStopChecked_pc s t i cr k ht] at ho; exact ho
  · rename_i i cr k
    unfold armStopMarked at ho
    simp only at ho
    split at ho
    · exact stopReturn_owes _ _ _ (by simpa using ht) ho
    · split at ho
      · rw [pc_setPc _ _ _ (by simpa using ht)] at ho; exact ho
      · exact stopReturn_owes _ _ _ (by simpa using ht) ho
  · rename_i i k
    unfold armStopWaitKill at ho
    split at ho <;> exact stopReturn_owes _ _ _ (by simpa using ht) ho
  · -- sdEnter
    rename_i k
    unfold armSdEnter at ho
    split at ho
    · unfold sdBody at ho
      simp only at ho
      rw [pc_setPc _ _ _ (by simpa [foldl_setInst_threads] using ht)] at ho; exact ho
    · rw [pc_setPc _ _ _ ht] at ho; exact ho
  · -- sdLock
    rename_i k
    unfold sdBody at ho
    simp only at ho
    rw [pc_setPc _ _ _ (by simpa [foldl_setInst_threads] using ht)] at ho; exact ho
  · -- sdPrepared
    rename_i order k
    unfold armSdPrepared at ho
    split at ho
    · have hthr := foldl_spawn_thr order (fun i => Kind.stopper i) (fun s => { s with sdWg := s.sdWg + 1 }) (fun _ => rfl) s t ht
      rw [pc_setPc _ _ _ hthr.1] at ho; exact ho
    · rw [sdSeqNext_owes _ _ _ _ ht] at ho; exact ho
  · -- sdWg: sdReturn
    rename_i k
    unfold sdReturn at ho
    cases k with
    | api =>
      simp only at ho
      split at ho <;> (rw [pc_setPc _ _ _ (by simpa using ht)] at ho; cases ho)
    | procEnd c => rfl
    | procSkip => rfl

theorem owes_of_not_stopSd (pc : Pc) (h : pc.isStopSd = false) : pc.owes = false := by
  cases pc <;> simp_all [Pc.isStopSd, Pc.owes]

/-- whatever the thread index, a label that does not owe stays so after `setPc` (out of range the
    thread record is the default one, `finished`) -/
theorem setPc_owes_false (s : Sys) (t : Tid) (pc : Pc) (h : pc.owes = false) : ((s.setPc t pc).thr t).pc.owes = false := by
  by_cases ht : t < s.threads.length
  · rw [pc_setPc _ _ _ ht]; exact h
  · rw [thr_default _ t (by simpa [Sys.setPc] using Nat.le_of_not_lt ht)]; rfl

theorem apiRet_owes (s : Sys) (t r) : ((apiRet s t r).thr t).pc.owes = false := by
  unfold apiRet; split <;> exact setPc_owes_false _ _ _ rfl

theorem gotoStop_owes_false (s : Sys) (t i cr k) (hk : k.owes = false) : ((gotoStop s t i cr k).thr t).pc.owes = false := by
  unfold gotoStop; exact setPc_owes_false _ _ _ hk

theorem apiSpawn_owes (s : Sys) (t n) : ((apiSpawn s t n).thr t).pc.owes = false := by
  unfold apiSpawn; simp only; split <;> exact setPc_owes_false _ _ _ rfl

theorem armSpawnOrLock_owes (s : Sys) (t n) : ((armSpawnOrLock s t n).thr t).pc.owes = false := by
  unfold armSpawnOrLock; split
  · split
    · exact apiSpawn_owes _ _ _
    · exact setPc_owes_false _ _ _ rfl
  · exact apiRet_owes _ _ _

theorem apiFirst_owes (s : Sys) (t h op) : ((apiFirst s t h op).thr t).pc.owes = false := by
  unfold apiFirst
  cases op with
  | start n => simp only; split <;> first | exact apiRet_owes _ _ _ | exact setPc_owes_false _ _ _ rfl
  | stop n =>
    simp only; split
    · exact gotoStop_owes_false _ _ _ _ _ rfl
    · split <;> exact apiRet_owes _ _ _
  | restart n =>
    simp only; split
    · exact gotoStop_owes_false _ _ _ _ _ rfl
    · split
      · exact setPc_owes_false _ _ _ rfl
      · exact apiRet_owes _ _ _
  | state n => simp only; split <;> exact apiRet_owes _ _ _
  | shutdown => exact setPc_owes_false _ _ _ rfl
  | runMain => simp only; exact setPc_owes_false _ _ _ rfl

theorem armApiBegin_owes (s : Sys) (t h op) : ((armApiBegin s t h op).thr t).pc.owes = false := by
  unfold armApiBegin
  cases op <;> simp only <;> first
    | exact setPc_owes_false _ _ _ rfl
    | (split
       · exact apiFirst_owes _ _ _ _
       · exact setPc_owes_false _ _ _ rfl)

theorem stepApi_owes (s : Sys) (t h op pc) (hpc : (s.thr t).pc = pc) (hno : pc.owes = false) :
    ((stepApi s t h op pc).thr t).pc.owes = false := by
  cases pc <;> simp only [stepApi] <;>
    first
    | (rw [hpc]; exact hno)
    | exact setPc_owes_false _ _ _ rfl
    | exact armApiBegin_owes _ _ _ _
    | exact apiFirst_owes _ _ _ _
    | exact armSpawnOrLock_owes _ _ _
    | exact apiSpawn_owes _ _ _

theorem stepStopper_owes (s : Sys) (t i pc) (hpc : (s.thr t).pc = pc) (hno : pc.owes = false) :
    ((stepStopper s t i pc).thr t).pc.owes = false := by
  cases pc <;> simp only [stepStopper] <;>
    first
    | (rw [hpc]; exact hno)
    | exact setPc_owes_false _ _ _ rfl
    | exact gotoStop_owes_false _ _ _ _ _ rfl
    | (unfold armStopperBegin; exact setPc_owes_false _ _ _ rfl)

theorem stepWaiter_owes (s : Sys) (t i pc) (hpc : (s.thr t).pc = pc) (hno : pc.owes = false) :
    ((stepWaiter s t i pc).thr t).pc.owes = false := by
  cases pc <;> simp only [stepWaiter] <;>
    first | (rw [hpc]; exact hno) | exact setPc_owes_false _ _ _ rfl

theorem stepDepwaiter_owes (s : Sys) (t o i pc) (hpc : (s.thr t).pc = pc) (hno : pc.owes = false) :
    ((stepDepwaiter s t o i pc).thr t).pc.owes = false := by
  cases pc <;> simp only [stepDepwaiter] <;>
    first | (rw [hpc]; exact hno) | exact setPc_owes_false _ _ _ rfl

theorem armProbeBegin_owes (s : Sys) (t n) : ((armProbeBegin s t n).thr t).pc.owes = false := by
  unfold armProbeBegin; split
  · exact setPc_owes_false _ _ _ rfl
  · split
    · exact setPc_owes_false _ _ _ rfl
    · exact gotoStop_owes_false _ _ _ _ _ rfl

/-- threads that are not process goroutines never pick such a continuation up -/
theorem nonproc_not_owes (s : Sys) (t : Tid) (h : Hints)
    (hk : (s.thr t).kind.isProc = false) (hp : (s.thr t).pc.isStopSd = false) :
    ((stepThread s t h).thr t).pc.owes = false := by
  have hno := owes_of_not_stopSd _ hp
  have hd : stepThread s t h = match (s.thr t).kind with
      | .proc i => stepProc s t i h (s.thr t).pc
      | .api _ op => stepApi s t h op (s.thr t).pc
      | .stopper i => stepStopper s t i (s.thr t).pc
      | .waiter i => stepWaiter s t i (s.thr t).pc
      | .depwaiter o i => stepDepwaiter s t o i (s.thr t).pc
      | .probe _ n => (match (s.thr t).pc with | .begin => armProbeBegin s t n | _ => s)
      | .pstart i => (match (s.thr t).pc with
        | .begin => (s.setInst i fun x => { x with probeStopped := false }).setPc t .finished
        | _ => s) := by
    unfold stepThread
    simp only
    cases hpc : (s.thr t).pc <;> simp_all [Pc.isStopSd] <;> (cases (s.thr t).kind <;> rfl)
  rw [hd]
  cases hkk : (s.thr t).kind with
  | proc i => rw [hkk] at hk; cases hk
  | api id op => exact stepApi_owes _ _ _ _ _ rfl hno
  | stopper i => exact stepStopper_owes _ _ _ _ rfl hno
  | waiter i => exact stepWaiter_owes _ _ _ _ rfl hno
  | depwaiter o i => exact stepDepwaiter_owes _ _ _ _ _ rfl hno
  | probe id n =>
    simp only
    split
    · exact armProbeBegin_owes _ _ _
    · exact hno
  | pstart i =>
    simp only
    split
    · exact setPc_owes_false _ _ _ rfl
    · exact hno

/-! ### open process goroutines -/

/-- a process goroutine that has not yet run its deferred `wg.Done()` -/
def Thr.openW (th : Thr) : Bool := th.kind.isProc && !th.pc.closed

def openW (s : Sys) : Nat := s.threads.countP Thr.openW

structure WgInv (s : Sys) : Prop where
  cnt : openW s ≤ s.wg
  own : ∀ u, u < s.threads.length → (s.thr u).pc.owes = true → (s.thr u).kind.isProc = true

theorem lockCleanup_step (s : Sys) (t : Tid) (h : Hints) (i : IId) (ht : t < s.threads.length)
    (hk : (s.thr t).kind = .proc i) (hp : (s.thr t).pc = .lockCleanup) :
    ((stepThread s t h).thr t).pc = .finished := by
  have e : stepThread s t h = armLockCleanup s t i := by unfold stepThread; simp [hp, hk, stepProc]
  rw [e]
  unfold armLockCleanup
  split <;> exact pc_setPc _ _ _ (by simpa using ht)

theorem openW_step {t : Tid} {s s' : Sys} (hle : SysLe t s s') (hq : WgLe s s') (ht : t < s.threads.length)
    (hcl : (s.thr t).kind.isProc = true → (s.thr t).pc.closed = true → (s'.thr t).pc.closed = true) :
    openW s' + procTot s ≤ openW s + procTot s' := by
  have hsplit : s'.threads = s'.threads.take s.threads.length ++ s'.threads.drop s.threads.length :=
    (List.take_append_drop _ _).symm
  have hA : (s'.threads.take s.threads.length).countP Thr.openW ≤ openW s := by
    unfold openW
    apply countP_le_pointwise
    intro u x' hx' hp
    have hu : u < s.threads.length := by
      rcases Nat.lt_or_ge u s.threads.length with h | h
      · exact h
      · rw [List.getElem?_take] at hx'; simp [Nat.not_lt.mpr h] at hx'
    rw [getElem?_take_lt _ _ _ hu] at hx'
    have ex' := thr_of_get hx'
    refine ⟨s.thr u, get_of_lt_thr s u hu, ?_⟩
    by_cases hut : u = t
    · subst hut
      have hk := hq.kinds u hu
      rw [ex'] at hk
      unfold Thr.openW at hp ⊢
      rw [hk] at hp
      simp only [Bool.and_eq_true, Bool.not_eq_true'] at hp ⊢
      refine ⟨hp.1, ?_⟩
      cases hc : (s.thr u).pc.closed with
      | false => rfl
      | true =>
        have := hcl hp.1 hc
        rw [ex'] at this
        rw [this] at hp; cases hp.2
    · have e := hle.tframe u hu hut
      rw [ex'] at e
      rw [← e]; exact hp
  have hB : (s'.threads.drop s.threads.length).countP Thr.openW ≤
      (s'.threads.drop s.threads.length).countP (fun th => th.kind.isProc) := by
    apply List.countP_mono_left
    intro x _ hp
    unfold Thr.openW at hp
    exact (Bool.and_eq_true_iff.mp hp).1
  have hC : procTot s ≤ (s'.threads.take s.threads.length).countP (fun th => th.kind.isProc) := by
    unfold procTot
    apply countP_le_pointwise
    intro u x hx hp
    have hu := lt_of_get hx
    have ex := thr_of_get hx
    refine ⟨s'.thr u, ?_, ?_⟩
    · rw [getElem?_take_lt _ _ _ hu]
      exact get_of_lt_thr s' u (Nat.lt_of_lt_of_le hu hq.tlen)
    · rw [hq.kinds u hu, ex]; exact hp
  have e1 : openW s' = (s'.threads.take s.threads.length).countP Thr.openW + (s'.threads.drop s.threads.length).countP Thr.openW := by
    unfold openW; rw [← List.countP_append, ← hsplit]
  have e2 : procTot s' = (s'.threads.take s.threads.length).countP (fun th => th.kind.isProc) +
      (s'.threads.drop s.threads.length).countP (fun th => th.kind.isProc) := by
    unfold procTot; rw [← List.countP_append, ← hsplit]
  omega

theorem stepThread_wgInv (s : Sys) (t : Tid) (h : Hints) (g : WgInv s) (ht : t < s.threads.length)
    (hrun : enabledThr s t = true ∨ mustPark s t = false) : WgInv (stepThread s t h) := by
  have hle := stepThread_le s t h
  have hnf : (s.thr t).pc ≠ .finished := by
    rcases hrun with he | hm
    · exact enabled_not_finished s t he
    · intro hf; rw [mustPark_finished s t hf] at hm; cases hm
  have hkind : ((stepThread s t h).thr t).kind = (s.thr t).kind := by
    rcases hle.tkind with e | e
    · exact e
    · exact absurd ht (Nat.not_lt.mpr e)
  refine ⟨?_, ?_⟩
  · rcases stepThread_w s t h with hq | ⟨⟨s1, hs1, he⟩, hopen, howner⟩
    · have hcl : (s.thr t).kind.isProc = true → (s.thr t).pc.closed = true → ((stepThread s t h).thr t).pc.closed = true := by
        intro hk hc
        cases hkk : (s.thr t).kind with
        | proc i =>
          cases hpc : (s.thr t).pc <;> simp_all [Pc.closed]
          rw [lockCleanup_step s t h i ht hkk hpc]
        | _ => rw [hkk] at hk; cases hk
      have h1 := openW_step hle hq ht hcl
      have h2 := hq.pay
      have := g.cnt
      omega
    · have hproc : (s.thr t).kind.isProc = true := by
        rcases howner with hk | ⟨k, hp, hk⟩
        · exact hk
        · exact g.own t ht (by rw [hp]; exact hk)
      rw [he]
      unfold gotoCleanup
      have e1 : openW (({ s1 with wg := s1.wg - 1 } : Sys).setPc t .lockCleanup) + 1 = openW s := by
        unfold openW Sys.setPc
        simp only
        rw [hs1.threads]
        apply countP_modify_drop _ _ _ _ ht
        intro x hx
        have := thr_of_get hx
        subst this
        unfold Thr.openW
        rw [hproc, hopen]
        exact ⟨rfl, rfl⟩
      have e2 : (({ s1 with wg := s1.wg - 1 } : Sys).setPc t .lockCleanup).wg = s.wg - 1 := by
        show s1.wg - 1 = s.wg - 1
        rw [hs1.wg]
      have := g.cnt
      omega
  · intro u hu' ho
    by_cases hut : u = t
    · subst hut
      rw [hkind]
      cases hk : (s.thr u).kind.isProc with
      | true => rfl
      | false =>
        exfalso
        cases hsd : (s.thr u).pc.isStopSd with
        | true =>
          have hold := stopSd_owes s u h ht hsd ho
          have := g.own u ht hold
          rw [hk] at this; cases this
        | false =>
          rw [nonproc_not_owes s u h hk hsd] at ho; cases ho
    · by_cases hu : u < s.threads.length
      · have e := hle.tframe u hu hut
        rw [e] at ho ⊢
        exact g.own u hu ho
      · rcases hle.tnew u (Nat.le_of_not_lt hu) hu' with ⟨e1, _⟩ | e
        · rw [e1] at ho; cases ho
        · exact absurd e hut

theorem wgInv_congr {s s' : Sys} (g : WgInv s) (ht : s'.threads = s.threads) (hw : s'.wg = s.wg) : WgInv s' := by
  have e1 : ∀ u, s'.thr u = s.thr u := fun u => by unfold Sys.thr; rw [ht]
  refine ⟨?_, fun u hu ho => ?_⟩
  · have : openW s' = openW s := by unfold openW; rw [ht]
    rw [this, hw]; exact g.cnt
  · rw [e1] at ho ⊢; rw [ht] at hu; exact g.own u hu ho

theorem ext_wg (s : Sys) (c : Choice) (h : Hints) (hc : ∀ t, c ≠ .run t) : (step s c h).wg = s.wg := by
  unfold step
  simp only
  cases c with
  | run t => exact absurd rfl (hc t)
  | exit n code => simp only; split <;> rfl
  | line n ready =>
    simp only; split
    · split <;> rfl
    · rfl
  | probe n ok =>
    simp only; split
    · split
      · rfl
      · split <;> rfl
    · rfl
  | probeFatal id n => simp only; split <;> rfl
  | killTimeout n => simp only; split <;> rfl
  | call id op => rfl

theorem ext_wgInv (s : Sys) (c : Choice) (h : Hints) (g : WgInv s) (hc : ∀ t, c ≠ .run t) : WgInv (step s c h) := by
  have hle := step_le s c h
  have htid : Choice.tid s c = s.threads.length := by
    cases c with
    | run t => exact absurd rfl (hc t)
    | _ => rfl
  rw [htid] at hle
  have hw := ext_wg s c h hc
  have hold : ∀ u, u < s.threads.length → (step s c h).thr u = s.thr u :=
    fun u hu => hle.tframe u hu (Nat.ne_of_lt hu)
  refine ⟨?_, fun u hu' ho => ?_⟩
  · have hcount : openW (step s c h) = openW s := by
      rcases ext_threads s c h hc with e | ⟨k, e, hkk⟩
      · unfold openW; rw [e]
      · unfold openW; rw [e]
        have : k.isProc = false := by cases k <;> first | rfl | exact absurd rfl (hkk _)
        simp [List.countP_append, Thr.openW, this]
    rw [hcount, hw]; exact g.cnt
  · by_cases hu : u < s.threads.length
    · rw [hold u hu] at ho ⊢; exact g.own u hu ho
    · exfalso
      rcases ext_threads s c h hc with e | ⟨k, e, _⟩
      · rw [e] at hu'; exact hu hu'
      · have hu2 : u = s.threads.length := by
          rw [e] at hu'; simp only [List.length_append, List.length_singleton] at hu'
          exact Nat.le_antisymm (Nat.le_of_lt_succ hu') (Nat.le_of_not_lt hu)
        subst hu2
        have : (step s c h).thr s.threads.length = { kind := k } := by
          unfold Sys.thr; rw [e]; simp [List.getD_eq_getElem?_getD]
        rw [this] at ho; cases ho

theorem init_wgInv (gr : Gran) (o : Bool) (cfgs : List Cfg) : WgInv (init gr o cfgs) :=
  ⟨by simp [openW, init], fun u hu _ => by simp [init] at hu⟩

/-- **The project wait-group invariant holds in every state the model passes through.** -/
theorem reachF_wgInv (gr : Gran) (o : Bool) (cfgs : List Cfg) {s : Sys} (h : ReachF (init gr o cfgs) s) : WgInv s := by
  induction h with
  | init => exact init_wgInv gr o cfgs
  | thread t hh _ ht hr ih => exact stepThread_wgInv _ t hh ih ht hr
  | ext c hh _ hc ih => exact ext_wgInv _ c hh ih hc
  | clear _ ih => exact wgInv_congr ih rfl rfl

/-- with the project wait group at zero every process goroutine has run its `wg.Done()` -/
theorem wg_pass {s : Sys} (g : WgInv s) (hz : s.wg = 0) (u : Tid) (hu : u < s.threads.length) (i : IId)
    (hk : (s.thr u).kind = .proc i) : (s.thr u).pc = .lockCleanup ∨ (s.thr u).pc = .finished := by
  have hc : openW s = 0 := Nat.eq_zero_of_le_zero (hz ▸ g.cnt)
  have hno : Thr.openW (s.thr u) = false := by
    unfold openW at hc
    rw [List.countP_eq_zero] at hc
    have hm : s.thr u ∈ s.threads := List.mem_of_getElem? (get_of_lt_thr s u hu)
    simpa using hc _ hm
  unfold Thr.openW at hno
  rw [hk] at hno
  cases hpc : (s.thr u).pc <;> simp_all [Kind.isProc, Pc.closed]

end PC.Sup
