import PC.Proofs.SupSd
/-! `WgLe`: every thread step, except the arms that leave a process goroutine's body (`gotoCleanup`:
    the deferred `wg.Done()`), pays for each process thread it creates with one increment of the
    project wait group and never decrements it. Per-arm lemmas as in `SupInsts`. -/
namespace PC.Sup

def Kind.isProc : Kind → Bool
  | .proc _ => true
  | _ => false

/-- number of process threads ever created -/
def procTot (s : Sys) : Nat := s.threads.countP fun th => th.kind.isProc

structure WgLe (s s' : Sys) : Prop where
  tlen : s.threads.length ≤ s'.threads.length
  kinds : ∀ u, u < s.threads.length → (s'.thr u).kind = (s.thr u).kind
  pay : procTot s' + s.wg ≤ s'.wg + procTot s

theorem WgLe.refl (s : Sys) : WgLe s s := ⟨Nat.le_refl _, fun _ _ => rfl, Nat.le_of_eq (Nat.add_comm _ _)⟩

theorem WgLe.trans {a b c : Sys} (h1 : WgLe a b) (h2 : WgLe b c) : WgLe a c where
  tlen := Nat.le_trans h1.tlen h2.tlen
  kinds := fun u hu => (h2.kinds u (Nat.lt_of_lt_of_le hu h1.tlen)).trans (h1.kinds u hu)
  pay := by have := h1.pay; have := h2.pay; omega

structure WSame (s s' : Sys) : Prop where
  wg : s'.wg = s.wg
  threads : s'.threads = s.threads

theorem WgLe.of_same {s s' : Sys} (h : WSame s s') : WgLe s s' := by
  refine ⟨by rw [h.threads]; exact Nat.le_refl _, fun u _ => ?_, ?_⟩
  · unfold Sys.thr; rw [h.threads]
  · unfold procTot; rw [h.threads, h.wg]; exact Nat.le_of_eq (Nat.add_comm _ _)

macro "wsame" : tactic => `(tactic| exact ⟨rfl, rfl⟩)

theorem setInst_w (s : Sys) (i : IId) (f : Inst → Inst) (_hf : ∀ x, Inst.Le x (f x)) : WgLe s (s.setInst i f) :=
  WgLe.of_same (by wsame)
theorem setPs_w (s : Sys) (n f) : WgLe s (s.setPs n f) := WgLe.of_same (by wsame)
theorem emit_w (s : Sys) (o) : WgLe s (s.emit o) := WgLe.of_same (by wsame)
theorem note_w (s : Sys) (e : GateEv) (_he : ∀ i d c, e ≠ .passed i d c) : WgLe s (s.note e) := WgLe.of_same (by wsame)
theorem notePassed_w (s : Sys) (i d : IId) (c : Cond) : WgLe s (s.notePassed i d c) := by
  unfold Sys.notePassed; split
  · exact WgLe.of_same (by wsame)
  · exact WgLe.refl _

theorem procTot_setPc (s : Sys) (t pc) : procTot (s.setPc t pc) = procTot s := by
  unfold procTot Sys.setPc
  exact countP_modify_same _ _ _ _ (fun _ _ => rfl)

theorem setPc_w (s : Sys) (t pc) : WgLe s (s.setPc t pc) := by
  refine ⟨by simp [Sys.setPc], fun u _ => kind_setPc s t u pc, ?_⟩
  rw [procTot_setPc]; exact Nat.le_of_eq (Nat.add_comm _ _)

theorem procTot_spawn (s : Sys) (k : Kind) : procTot (s.spawn k) = procTot s + (if k.isProc then 1 else 0) := by
  unfold procTot Sys.spawn
  simp [List.countP_append, List.countP_cons]

theorem spawn_w (s : Sys) (k : Kind) (hk : k.isProc = false) : WgLe s (s.spawn k) := by
  refine ⟨by simp [Sys.spawn], fun u hu => kinds_spawn s k u hu, ?_⟩
  rw [procTot_spawn, hk]; simp; exact Nat.le_of_eq (Nat.add_comm _ _)

/-- a thread created together with one increment of the project wait group -/
theorem spawnPaid_w (s s2 : Sys) (k : Kind) (ht : s2.threads = s.threads) (hw : s2.wg = s.wg + 1) : WgLe s (s2.spawn k) := by
  have hlen : s.threads.length ≤ (s2.spawn k).threads.length := by simp [Sys.spawn, ht]
  refine ⟨hlen, fun u hu => ?_, ?_⟩
  · rw [kinds_spawn s2 k u (by rw [ht]; exact hu)]; unfold Sys.thr; rw [ht]
  · rw [procTot_spawn]
    have e : procTot s2 = procTot s := by unfold procTot; rw [ht]
    have e2 : (s2.spawn k).wg = s.wg + 1 := hw
    rw [e, e2]
    split <;> omega

theorem WgLe.then {a b c : Sys} (h1 : WgLe a b) (h2 : WgLe b c) : WgLe a c := h1.trans h2
theorem WgLe.congr_left {s0 s s' : Sys} (h : WgLe s s') (e : WSame s0 s) : WgLe s0 s' := (WgLe.of_same e).trans h
theorem WgLe.congr {s s' s'' : Sys} (h : WgLe s s') (e : WSame s' s'') : WgLe s s'' := h.trans (WgLe.of_same e)

macro "wpeel " t:term : tactic => `(tactic| refine WgLe.trans ?_ $t)
macro "wupd " t:term : tactic => `(tactic| exact WgLe.congr_left $t (by wsame))
macro "done_w" : tactic => `(tactic| first | exact WgLe.refl _ | exact WgLe.of_same (by wsame))

/-! ### helpers -/

theorem setState_w (s : Sys) (i st) : WgLe s (setState s i st) := by
  unfold setState
  simp only
  cases st <;> simp only <;>
    first
    | exact (setPs_w _ _ _).then (emit_w _ _)
    | exact ((setPs_w _ _ _).then (emit_w _ _)).then (setPs_w _ _ _)
    | exact (((setPs_w _ _ _).then (emit_w _ _)).then (setPs_w _ _ _)).then (emit_w _ _)

theorem setExit_w (s : Sys) (n c) : WgLe s (setExit s n c) := by
  unfold setExit; exact (setPs_w _ _ _).then (emit_w _ _)

theorem recordExit_w (s : Sys) (c) : WgLe s (recordExit s c) := by
  unfold recordExit
  split
  · exact WgLe.refl _
  · wpeel (emit_w _ _)
    exact WgLe.of_same (by wsame)

theorem onProcessEnd_w (s : Sys) (i st) : WgLe s (onProcessEnd s i st) := by
  unfold onProcessEnd
  exact ((setInst_w s i endInst endInst_le).then (setState_w _ _ _)).then (emit_w _ _)

theorem cmdExit_w (s : Sys) (i c) : WgLe s (cmdExit s i c) := setInst_w _ _ _ (by inst_le)

theorem cmdStop_w (s : Sys) (i sig) : WgLe s (cmdStop s i sig) := by
  unfold cmdStop
  simp only
  split
  · split
    · exact (emit_w _ _).then (cmdExit_w _ _ _)
    · split
      · exact (emit_w _ _).then (cmdExit_w _ _ _)
      · exact emit_w _ _
  · exact emit_w _ _

theorem decideRestart_w (s : Sys) (i) : WgLe s (decideRestart s i).2 := setInst_w _ _ _ (by inst_le)

theorem append_w (s : Sys) (x : Inst) (_hx : EndedI x) : WgLe s { s with insts := s.insts ++ [x] } :=
  WgLe.of_same (by wsame)

theorem setState_wg (s : Sys) (i st) : (setState s i st).wg = s.wg := by
  unfold setState; cases st <;> rfl

theorem spawnProc_w (s : Sys) (n) : WgLe s (spawnProc s n) := by
  unfold spawnProc newInst
  simp only
  apply spawnPaid_w
  · simp only [setState_threads]
  · simp only [setState_wg]

theorem gotoStop_w (s : Sys) (t i cr k) : WgLe s (gotoStop s t i cr k) := by
  unfold gotoStop
  exact (setInst_w _ _ _ (by inst_le)).then (setPc_w _ _ _)

theorem apiRet_w (s : Sys) (t r) : WgLe s (apiRet s t r) := by
  unfold apiRet; split
  · exact (emit_w _ _).then (setPc_w _ _ _)
  all_goals exact setPc_w _ _ _

theorem apiSpawn_w (s : Sys) (t n) : WgLe s (apiSpawn s t n) := by
  unfold apiSpawn
  simp only
  split
  · wpeel (setPc_w _ _ _); wpeel (emit_w _ _); exact spawnProc_w _ _
  all_goals (wpeel (setPc_w _ _ _); exact spawnProc_w _ _)

theorem addDone_w (s : Sys) (i : IId) : WgLe s (addDone s i) := by
  unfold addDone; done_w
theorem doSkip_w (s : Sys) (t i) : WgLe s (doSkip s t i) := by
  unfold doSkip; exact (addDone_w _ _).then ((onProcessEnd_w _ _ _).then (setPc_w _ _ _))

theorem afterDeps_w (s : Sys) (t) : WgLe s (afterDeps s t) := setPc_w _ _ _

theorem lookupRunning_w (s : Sys) (t i k c r) : WgLe s (lookupRunning s t i k c r) := by
  unfold lookupRunning; split
  · exact ((note_w _ _ (by intro _ _ _ h; cases h)).then (emit_w _ _)).then (setPc_w _ _ _)
  · exact ((note_w _ _ (by intro _ _ _ h; cases h)).then (emit_w _ _)).then (setPc_w _ _ _)

theorem depStep_w (s : Sys) (t i h r) : WgLe s (depStep s t i h r) := by
  unfold depStep
  split
  · exact afterDeps_w _ _
  · simp only
    split
    · exact (((emit_w _ _).then (note_w _ _ (by intro _ _ _ h; cases h))).then (emit_w _ _)).then (setPc_w _ _ _)
    · split
      · exact (emit_w _ _).then (lookupRunning_w _ _ _ _ _ _)
      · exact (emit_w _ _).then (setPc_w _ _ _)

theorem doLaunch_w (s : Sys) (t i) : WgLe s (doLaunch s t i) := by
  unfold doLaunch
  simp only
  split
  · wpeel (setPc_w _ _ _)
    wpeel (onProcessEnd_w _ _ _)
    wpeel (setExit_w _ _ _)
    wpeel (emit_w _ _)
    exact setState_w _ _ _
  · wpeel (setPc_w _ _ _)
    have key : WgLe s
        (({ (setState s i .running).emit (.launch ((setState s i .running).nameOf i)) with
            launchClock := ((setState s i .running).emit (.launch ((setState s i .running).nameOf i))).launchClock + 1 } : Sys).setInst i
          fun x => { x with cmd := .alive, launches := x.launches + 1,
                            launchedAt := ((setState s i .running).emit (.launch ((setState s i .running).nameOf i))).launchClock + 1 }) := by
      wpeel (setInst_w _ _ _ (by inst_le))
      have hE : WgLe s ((setState s i .running).emit (.launch ((setState s i .running).nameOf i))) :=
        (setState_w s i .running).then (emit_w _ _)
      exact hE.congr (by wsame)
    split
    · exact key.trans (spawn_w _ _ rfl)
    · exact key

theorem foldl_w {α : Type} (f : Sys → α → Sys) (hf : ∀ s a, WgLe s (f s a)) (l : List α) (s : Sys) :
    WgLe s (l.foldl f s) := by
  induction l generalizing s with
  | nil => exact WgLe.refl _
  | cons a l ih => exact (hf s a).then (ih _)

theorem sdBody_w (s : Sys) (t h k) : WgLe s (sdBody s t h k) := by
  unfold sdBody
  simp only
  wpeel (setPc_w _ _ _)
  wupd (foldl_w _ (fun s i => setInst_w _ _ _ (by inst_le)) _ _)

theorem sdSeqNext_w (s : Sys) (t r k) : WgLe s (sdSeqNext s t r k) := by
  unfold sdSeqNext; split
  · exact setPc_w _ _ _
  · exact gotoStop_w _ _ _ _ _

/-- the step is a quiet prefix followed by `gotoCleanup` (the deferred `wg.Done()`) -/
def Leaves (s s' : Sys) (t : Tid) : Prop := ∃ s1, WSame s s1 ∧ s' = gotoCleanup s1 t

def SdK.isProcK : SdK → Bool
  | .api => false
  | _ => true

theorem sdReturn_w (s : Sys) (t k) : WgLe s (sdReturn s t k) ∨ (Leaves s (sdReturn s t k) t ∧ k.isProcK = true) := by
  unfold sdReturn
  simp only
  split
  · left
    split
    · wpeel (setPc_w _ _ _); wpeel (emit_w _ _); wpeel (emit_w _ _); done_w
    all_goals (wpeel (setPc_w _ _ _); wpeel (emit_w _ _); done_w)
  · right; exact ⟨⟨_, by wsame, rfl⟩, rfl⟩
  · right; exact ⟨⟨_, by wsame, rfl⟩, rfl⟩

theorem stopReturn_w (s : Sys) (t k) : WgLe s (stopReturn s t k) := by
  unfold stopReturn
  split
  · split
    · exact (emit_w _ _).then (setPc_w _ _ _)
    all_goals exact setPc_w _ _ _
  · exact setPc_w _ _ _
  · wpeel (sdSeqNext_w _ _ _ _)
    wupd (spawn_w _ _ rfl)
  · exact setPc_w _ _ _
  · exact setPc_w _ _ _

theorem apiFirst_w (s : Sys) (t h op) : WgLe s (apiFirst s t h op) := by
  unfold apiFirst
  cases op with
  | start n => simp only; split <;> first | exact apiRet_w _ _ _ | exact setPc_w _ _ _
  | stop n =>
    simp only; split
    · exact (setInst_w _ _ _ (by inst_le)).then (gotoStop_w _ _ _ _ _)
    · split <;> exact apiRet_w _ _ _
  | restart n =>
    simp only; split
    · exact (setInst_w _ _ _ (by inst_le)).then (gotoStop_w _ _ _ _ _)
    · split
      · exact setPc_w _ _ _
      · exact apiRet_w _ _ _
  | state n => simp only; split <;> exact apiRet_w _ _ _
  | shutdown => exact setPc_w _ _ _
  | runMain =>
    simp only
    wpeel (setPc_w _ _ _)
    wupd (foldl_w _ spawnProc_w _ _)

/-! ### the arms -/

theorem armDepLookup_w (s : Sys) (t d c r) : WgLe s (armDepLookup s t d c r) := by
  unfold armDepLookup; cases c <;> exact setPc_w _ _ _
theorem armWaitDone_w (s : Sys) (t i d ok r) : WgLe s (armWaitDone s t i d ok r) := by
  unfold armWaitDone; split
  · exact doSkip_w _ _ _
  · exact (notePassed_w _ _ _ _).then (setPc_w _ _ _)
theorem armWaitReady_w (s : Sys) (t i d r) : WgLe s (armWaitReady s t i d r) := by
  unfold armWaitReady; split
  · exact (notePassed_w _ _ _ _).then (setPc_w _ _ _)
  · exact doSkip_w _ _ _
theorem armWaitLogReady_w (s : Sys) (t i d r) : WgLe s (armWaitLogReady s t i d r) := by
  unfold armWaitLogReady; split
  · exact (notePassed_w _ _ _ _).then (setPc_w _ _ _)
  · exact doSkip_w _ _ _
theorem armProcSkipped_w (s : Sys) (t i) : WgLe s (armProcSkipped s t i) ∨ Leaves s (armProcSkipped s t i) t := by
  unfold armProcSkipped; split
  · exact Or.inl ((recordExit_w _ _).then (setPc_w _ _ _))
  · exact Or.inr ⟨s, by wsame, rfl⟩
theorem armRunEnter_w (s : Sys) (t i) : WgLe s (armRunEnter s t i) := by
  unfold armRunEnter; split
  · exact (onProcessEnd_w _ _ _).then (setPc_w _ _ _)
  · exact setPc_w _ _ _
theorem armRunChecked_w (s : Sys) (t i) : WgLe s (armRunChecked s t i) := by
  unfold armRunChecked; split
  · exact ((setExit_w _ _ _).then (onProcessEnd_w _ _ _)).then (setPc_w _ _ _)
  · exact ((setInst_w _ _ _ (by inst_le)).then (emit_w _ _)).then (doLaunch_w _ _ _)
theorem armCmdWait_w (s : Sys) (t i) : WgLe s (armCmdWait s t i) := by
  unfold armCmdWait; split
  · exact (setExit_w _ _ _).then (setPc_w _ _ _)
  · exact WgLe.refl _
theorem armRunExited_w (s : Sys) (t i) : WgLe s (armRunExited s t i) := by
  unfold armRunExited
  simp only
  refine (decideRestart_w s i).then ?_
  split
  · exact (((setState_w _ _ _).then (setPs_w _ _ _)).then (emit_w _ _)).then (setPc_w _ _ _)
  · exact (onProcessEnd_w _ _ _).then (setPc_w _ _ _)
theorem armBackoff_w (s : Sys) (t i) : WgLe s (armBackoff s t i) := by
  unfold armBackoff; split
  · exact (onProcessEnd_w _ _ _).then (setPc_w _ _ _)
  · exact setPc_w _ _ _
theorem armProcRan_w (s : Sys) (t i c) : WgLe s (armProcRan s t i c) := by
  unfold armProcRan; wpeel (setPc_w _ _ _); done_w
theorem armProcDoneAdded_w (s : Sys) (t i c) : WgLe s (armProcDoneAdded s t i c) ∨ Leaves s (armProcDoneAdded s t i c) t := by
  unfold armProcDoneAdded; simp only; split
  · exact Or.inl ((recordExit_w _ _).then (setPc_w _ _ _))
  · exact Or.inr ⟨s, by wsame, rfl⟩
theorem armLockCleanup_w (s : Sys) (t i) : WgLe s (armLockCleanup s t i) := by
  unfold armLockCleanup; split
  · wpeel (setPc_w _ _ _); done_w
  · exact setPc_w _ _ _

/-- the labels after the deferred `wg.Done()` -/
def Pc.closed : Pc → Bool
  | .lockCleanup => true
  | .finished => true
  | _ => false

theorem stepProc_w (s : Sys) (t i h pc) :
    WgLe s (stepProc s t i h pc) ∨ (Leaves s (stepProc s t i h pc) t ∧ pc.closed = false) := by
  cases pc <;> simp only [stepProc] <;>
    first
    | exact (armProcSkipped_w _ _ _).imp id (fun l => ⟨l, rfl⟩)
    | exact (armProcDoneAdded_w _ _ _ _).imp id (fun l => ⟨l, rfl⟩)
    | exact Or.inl (WgLe.refl _)
    | exact Or.inl (setPc_w _ _ _)
    | exact Or.inl ((notePassed_w _ _ _ _).then (setPc_w _ _ _))
    | exact Or.inl (depStep_w _ _ _ _ _)
    | exact Or.inl (lookupRunning_w _ _ _ _ _ _)
    | exact Or.inl (armDepLookup_w _ _ _ _ _)
    | exact Or.inl (armWaitDone_w _ _ _ _ _ _)
    | exact Or.inl (armWaitReady_w _ _ _ _ _)
    | exact Or.inl (armWaitLogReady_w _ _ _ _ _)
    | exact Or.inl (armRunEnter_w _ _ _)
    | exact Or.inl (armRunChecked_w _ _ _)
    | exact Or.inl (armCmdWait_w _ _ _)
    | exact Or.inl (armRunExited_w _ _ _)
    | exact Or.inl (armBackoff_w _ _ _)
    | exact Or.inl (doLaunch_w _ _ _)
    | exact Or.inl (armProcRan_w _ _ _ _)
    | exact Or.inl (armLockCleanup_w _ _ _)

theorem armStopEnter_w (s : Sys) (t i cr k) : WgLe s (armStopEnter s t i cr k) := by
  unfold armStopEnter; split <;> exact setPc_w _ _ _
theorem armStopNotRunning_w (s : Sys) (t i k) : WgLe s (armStopNotRunning s t i k) := by
  unfold armStopNotRunning; simp only; split
  · exact (onProcessEnd_w _ _ _).then (stopReturn_w _ _ _)
  · exact stopReturn_w _ _ _
theorem armStopChecked_w (s : Sys) (t i cr k) : WgLe s (armStopChecked s t i cr k) := by
  unfold armStopChecked; exact (setState_w _ _ _).then (setPc_w _ _ _)

theorem stopMarkedPrep_w (s : Sys) (i cr) : WgLe s (stopMarkedPrep s i cr) := by
  unfold stopMarkedPrep
  apply setInst_w
  intro x
  refine ⟨rfl, rfl, id, id, ?_, id, ?_, ?_⟩
  · intro h; simp [h]
  · intro h; simp [h]
  · intro h1 h2; simp_all

theorem armStopMarked_w (s : Sys) (t i cr k) : WgLe s (armStopMarked s t i cr k) := by
  unfold armStopMarked
  simp only
  split
  · wpeel (stopReturn_w _ _ _)
    exact stopMarkedPrep_w _ _ _
  · split
    · wpeel (setPc_w _ _ _)
      wpeel (setInst_w _ _ _ (by inst_le))
      wpeel (cmdStop_w _ _ _)
      exact stopMarkedPrep_w _ _ _
    · wpeel (stopReturn_w _ _ _)
      wpeel (cmdStop_w _ _ _)
      exact stopMarkedPrep_w _ _ _
theorem armStopWaitKill_w (s : Sys) (t i k) : WgLe s (armStopWaitKill s t i k) := by
  unfold armStopWaitKill; split
  · exact (cmdStop_w _ _ _).then (stopReturn_w _ _ _)
  · exact stopReturn_w _ _ _

theorem armSdEnter_w (s : Sys) (t h k) : WgLe s (armSdEnter s t h k) := by
  unfold armSdEnter; split
  · wupd (sdBody_w _ _ _ _)
  · exact setPc_w _ _ _
theorem armSdPrepared_w (s : Sys) (t o k) : WgLe s (armSdPrepared s t o k) := by
  unfold armSdPrepared; split
  · wpeel (setPc_w _ _ _)
    apply foldl_w
    intro s i
    exact WgLe.congr_left (spawn_w _ _ rfl) (by wsame)
  · exact sdSeqNext_w _ _ _ _

theorem armStopperBegin_w (s : Sys) (t i) : WgLe s (armStopperBegin s t i) := by
  unfold armStopperBegin
  simp only
  wpeel (setPc_w _ _ _)
  apply foldl_w
  intro s j
  exact WgLe.congr_left (spawn_w _ _ rfl) (by wsame)

theorem stepStopper_w (s : Sys) (t i pc) : WgLe s (stepStopper s t i pc) := by
  cases pc <;> simp only [stepStopper] <;>
    first | exact WgLe.refl _ | exact armStopperBegin_w _ _ _ | exact gotoStop_w _ _ _ _ _
          | (wpeel (setPc_w _ _ _); done_w)
theorem stepWaiter_w (s : Sys) (t i pc) : WgLe s (stepWaiter s t i pc) := by
  cases pc <;> simp only [stepWaiter] <;>
    first | exact WgLe.refl _ | exact setPc_w _ _ _ | (wpeel (setPc_w _ _ _); done_w)
theorem stepDepwaiter_w (s : Sys) (t o i pc) : WgLe s (stepDepwaiter s t o i pc) := by
  cases pc <;> simp only [stepDepwaiter] <;>
    first | exact WgLe.refl _ | exact setPc_w _ _ _ | (wpeel (setPc_w _ _ _); done_w)

theorem armApiBegin_w (s : Sys) (t h op) : WgLe s (armApiBegin s t h op) := by
  unfold armApiBegin
  cases op <;> simp only <;> first
    | exact setPc_w _ _ _
    | (split
       · exact apiFirst_w _ _ _ _
       · exact setPc_w _ _ _)
theorem armSpawnOrLock_w (s : Sys) (t n) : WgLe s (armSpawnOrLock s t n) := by
  unfold armSpawnOrLock; split
  · split
    · exact apiSpawn_w _ _ _
    · exact setPc_w _ _ _
  · exact apiRet_w _ _ _
theorem stepApi_w (s : Sys) (t h op pc) : WgLe s (stepApi s t h op pc) := by
  cases pc <;> simp only [stepApi] <;>
    first | exact WgLe.refl _ | exact setPc_w _ _ _ | exact armApiBegin_w _ _ _ _ | exact apiFirst_w _ _ _ _
          | exact armSpawnOrLock_w _ _ _ | exact apiSpawn_w _ _ _
          | exact (emit_w _ _).then (setPc_w _ _ _)
theorem armProbeBegin_w (s : Sys) (t n) : WgLe s (armProbeBegin s t n) := by
  unfold armProbeBegin; split
  · exact setPc_w _ _ _
  · split
    · exact setPc_w _ _ _
    · exact (setPs_w _ _ _).then (gotoStop_w _ _ _ _ _)

/-- **Every thread step pays for the process threads it creates, or leaves a goroutine body** — and
    then it is a process goroutine before its `wg.Done()`, or a thread carrying a process
    goroutine's shutdown continuation. -/
theorem stepThread_w (s : Sys) (t : Tid) (h : Hints) :
    WgLe s (stepThread s t h) ∨
    (Leaves s (stepThread s t h) t ∧ (s.thr t).pc.closed = false ∧
      ((s.thr t).kind.isProc = true ∨ ∃ k, (s.thr t).pc = .sdWg k ∧ k.isProcK = true)) := by
  unfold stepThread
  simp only
  split
  · exact Or.inl (armStopEnter_w _ _ _ _ _)
  · exact Or.inl (armStopNotRunning_w _ _ _ _)
  · exact Or.inl (armStopChecked_w _ _ _ _ _)
  · exact Or.inl (armStopMarked_w _ _ _ _ _)
  · exact Or.inl (armStopWaitKill_w _ _ _ _)
  · exact Or.inl (armSdEnter_w _ _ _ _)
  · left; wupd (sdBody_w _ _ _ _)
  · exact Or.inl (armSdPrepared_w _ _ _ _)
  · rename_i k hpc
    rcases sdReturn_w s t k with hw | ⟨hl, hk⟩
    · exact Or.inl hw
    · exact Or.inr ⟨hl, by rw [hpc]; rfl, Or.inr ⟨k, hpc, hk⟩⟩
  · split
    · rename_i i hk
      rcases stepProc_w s t i h (s.thr t).pc with hw | ⟨hl, hc⟩
      · exact Or.inl hw
      · exact Or.inr ⟨hl, hc, Or.inl (by rw [hk]; rfl)⟩
    · exact Or.inl (stepApi_w _ _ _ _ _)
    · exact Or.inl (stepStopper_w _ _ _ _)
    · exact Or.inl (stepWaiter_w _ _ _ _)
    · exact Or.inl (stepDepwaiter_w _ _ _ _ _)
    · split
      · exact Or.inl (armProbeBegin_w _ _ _)
      · exact Or.inl (WgLe.refl _)
    · split
      · exact Or.inl ((setInst_w _ _ _ (by inst_le)).then (setPc_w _ _ _))
      · exact Or.inl (WgLe.refl _)

end PC.Sup
