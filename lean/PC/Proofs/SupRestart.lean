import PC.Proofs.SupRQ
/-! Restart policy (C02), globally: the restart counter of a process with `max_restarts` set never
    exceeds it — in every state the model passes through. -/
namespace PC.Sup

theorem isRestartable_bound (p : String) (m r c : Int) (st : Bool)
    (h : PC.Restart.isRestartable p m r c st = true) (hm : m ≠ 0) : r < m := by
  unfold PC.Restart.isRestartable at h
  simp only at h
  split at h
  · simp at h
  · split at h
    · simp at h
    · split at h
      · simp at h
      · split at h
        · first
          | exact of_decide_eq_true h
          | (split at h
             · rename_i h0; exact absurd h0 hm
             · exact of_decide_eq_true h)
        · split at h
          · first
            | exact of_decide_eq_true h
            | (split at h
               · rename_i h0; exact absurd h0 hm
               · exact of_decide_eq_true h)
          · simp at h

/-- the counters of processes with `max_restarts` set are within the bound -/
def RInv (s : Sys) : Prop := ∀ n, (s.cfg n).maxRestarts ≠ 0 → (s.ps n).restarts ≤ (s.cfg n).maxRestarts

theorem rInv_of_rsame {s s' : Sys} (g : RInv s) (hr : RSame s s') (hc : s'.cfgs = s.cfgs) : RInv s' := by
  intro n hn
  have e : s'.cfg n = s.cfg n := by unfold Sys.cfg; rw [hc]
  rw [e] at hn ⊢
  rw [hr n]; exact g n hn

theorem decideRestart_cfgs (s : Sys) (i) : (decideRestart s i).2.cfgs = s.cfgs := rfl
theorem setState_cfgs (s : Sys) (i st) : (setState s i st).cfgs = s.cfgs := by unfold setState; cases st <;> rfl

theorem armRunExited_rInv (s : Sys) (t : Tid) (i : IId) (g : RInv s) : RInv (armRunExited s t i) := by
  unfold armRunExited
  simp only
  split
  · rename_i hr
    -- the restart branch: one counter goes up by one, and the decision bounds it
    intro n hn
    have hcfg : ∀ m, ((((setState (decideRestart s i).2 i .restarting).setPs ((setState (decideRestart s i).2 i .restarting).nameOf i)
        fun p => { p with restarts := p.restarts + 1 }).emit
          (.restarts ((setState (decideRestart s i).2 i .restarting).nameOf i)
            ((((setState (decideRestart s i).2 i .restarting).setPs ((setState (decideRestart s i).2 i .restarting).nameOf i)
              fun p => { p with restarts := p.restarts + 1 }).ps ((setState (decideRestart s i).2 i .restarting).nameOf i)).restarts))).setPc t .backoff).cfg m = s.cfg m := by
      intro m; unfold Sys.cfg; simp only [Sys.setPc, Sys.emit, Sys.setPs, setState_cfgs, decideRestart_cfgs]
    rw [hcfg] at hn ⊢
    have hpre : RSame s (setState (decideRestart s i).2 i .restarting) :=
      (decideRestart_r s i).then (setState_r _ _ _)
    have hname : (setState (decideRestart s i).2 i .restarting).nameOf i = s.nameOf i := by
      unfold Sys.nameOf; rw [setState_inst]
      unfold decideRestart
      by_cases hi : i < s.insts.length
      · rw [inst_setInst _ _ _ _ hi]; simp
      · rw [inst_default' _ i (by simpa using Nat.le_of_not_lt hi), inst_default' s i (Nat.le_of_not_lt hi)]
    rw [hname]
    show ((((setState (decideRestart s i).2 i .restarting).setPs (s.nameOf i) fun p => { p with restarts := p.restarts + 1 })).ps n).restarts ≤ _
    by_cases hn' : n < (setState (decideRestart s i).2 i .restarting).pstates.length
    · rw [ps_setPs _ _ _ _ hn']
      split
      · rename_i heq
        subst heq
        simp only
        rw [hpre (s.nameOf i)]
        have hb := isRestartable_bound _ _ _ _ _ hr (by exact_mod_cast hn)
        omega
      · rw [hpre n]; exact g n hn
    · have : (((setState (decideRestart s i).2 i .restarting).setPs (s.nameOf i) fun p => { p with restarts := p.restarts + 1 })).ps n =
          (setState (decideRestart s i).2 i .restarting).ps n := by
        unfold Sys.ps Sys.setPs
        simp only [List.getD_eq_getElem?_getD, List.getElem?_modify]
        rw [List.getElem?_eq_none (Nat.le_of_not_lt hn')]
        simp
      rw [this, hpre n]; exact g n hn
  · -- no restart: the counters are untouched
    have hr : RSame s ((onProcessEnd (decideRestart s i).2 i .completed).setPc t
        (.procRan ((onProcessEnd (decideRestart s i).2 i .completed).ps ((onProcessEnd (decideRestart s i).2 i .completed).nameOf i)).exit)) :=
      ((decideRestart_r s i).then (onProcessEnd_r _ _ _)).then (setPc_r _ _ _)
    exact rInv_of_rsame g hr (by unfold onProcessEnd; simp only [Sys.setPc, Sys.emit, setState_cfgs]; rfl)

theorem setInst_r' (s : Sys) (i : IId) (f : Inst → Inst) : RSame s (s.setInst i f) := RSame.of_same (by rsame)

theorem stepThread_runExited (s : Sys) (t : Tid) (h : Hints) (i : IId) (hk : (s.thr t).kind = .proc i)
    (hp : (s.thr t).pc = .runExited) : stepThread s t h = armRunExited s t i := by
  unfold stepThread; simp [hp, hk, stepProc]

theorem stepThread_rInv (s : Sys) (t : Tid) (h : Hints) (g : RInv s) : RInv (stepThread s t h) := by
  by_cases hsp : (s.thr t).kind.isProc = true ∧ (s.thr t).pc = .runExited
  · obtain ⟨hk, hp⟩ := hsp
    cases hkk : (s.thr t).kind with
    | proc i => rw [stepThread_runExited s t h i hkk hp]; exact armRunExited_rInv s t i g
    | _ => rw [hkk] at hk; cases hk
  · exact rInv_of_rsame g (stepThread_r s t h hsp) (stepThread_le s t h).cfgs

theorem ext_r (s : Sys) (c : Choice) (h : Hints) (hc : ∀ t, c ≠ .run t) : RSame s (step s c h) := by
  unfold step
  simp only
  cases c with
  | run t => exact absurd rfl (hc t)
  | exit n code =>
    simp only; split
    · rupd (cmdExit_r _ _ _)
    · done_r
  | line n ready =>
    simp only; split
    · split
      · rpeel (emit_r _ _)
        rpeel (setInst_r' _ _ _)
        rupd (setPs_r _ _ _)
      · done_r
    · done_r
  | probe n ok =>
    simp only; split
    · split
      · done_r
      · split
        · rpeel (setInst_r _ _ _ (by inst_le))
          rupd (setPs_r _ _ _)
        · rupd (setPs_r _ _ _)
    · done_r
  | probeFatal id n =>
    simp only; split
    · rupd (spawn_r _ _ (by intro i h; cases h))
    · done_r
  | killTimeout n =>
    simp only; split
    · rupd (setInst_r _ _ _ (by inst_le))
    · done_r
  | call id op => rupd (spawn_r _ _ (by intro i h; cases h))

theorem init_rInv (gr : Gran) (o : Bool) (cfgs : List Cfg) : RInv (init gr o cfgs) := by
  intro n _
  have : ((init gr o cfgs).ps n).restarts = 0 := by
    unfold Sys.ps init
    simp only [List.getD_eq_getElem?_getD, List.getElem?_map]
    cases cfgs[n]? <;> rfl
  rw [this]; exact Nat.zero_le _

/-- **In every state the model passes through, no restart counter exceeds a configured `max_restarts`.** -/
theorem reachF_rInv (gr : Gran) (o : Bool) (cfgs : List Cfg) {s : Sys} (h : ReachF (init gr o cfgs) s) : RInv s := by
  induction h with
  | init => exact init_rInv gr o cfgs
  | thread t hh _ _ _ ih => exact stepThread_rInv _ t hh ih
  | ext c hh _ hc ih => exact rInv_of_rsame ih (ext_r _ c hh hc) (step_le _ c hh).cfgs
  | clear _ ih => exact rInv_of_rsame ih (RSame.of_same (by rsame)) rfl

end PC.Sup
