import PC.Proofs.SupSdQ
/-! Shutdown (C03), globally: the shutdown wait group counts the `stopper` / `waiter` threads that
    have not finished, each of them finishes only when the instance it is responsible for is done,
    so `ShutDownProject` passes its wait — and returns — only when all those instances are done.
    Stated over `ReachF`, reachability at the granularity of single thread steps (every state the
    model passes through, in either scheduling granularity). -/
namespace PC.Sup

/-! ### fine-grained reachability -/

inductive ReachF (s0 : Sys) : Sys → Prop
  | init : ReachF s0 s0
  | thread {s : Sys} (t : Tid) (h : Hints) : ReachF s0 s → t < s.threads.length →
      (enabledThr s t = true ∨ mustPark s t = false) → ReachF s0 (stepThread s t h)
  | ext {s : Sys} (c : Choice) (h : Hints) : ReachF s0 s → (∀ t, c ≠ .run t) → ReachF s0 (step s c h)
  | clear {s : Sys} : ReachF s0 s → ReachF s0 { s with obs := [] }

theorem ReachF.trans {a b c : Sys} (h1 : ReachF a b) (h2 : ReachF b c) : ReachF a c := by
  induction h2 with
  | init => exact h1
  | thread t h _ ht hr ih => exact ReachF.thread t h ih ht hr
  | ext c h _ hc ih => exact ReachF.ext c h ih hc
  | clear _ ih => exact ReachF.clear ih

theorem runThread_reachF {s0 : Sys} (t : Tid) (h : Hints) (fuel : Nat) :
    ∀ s, ReachF s0 s → t < s.threads.length → (enabledThr s t = true ∨ mustPark s t = false) →
      ReachF s0 (runThread s t h fuel) := by
  induction fuel with
  | zero => intro s hr _ _; exact hr
  | succ n ih =>
    intro s hr ht hrun
    unfold runThread
    simp only
    have h1 := ReachF.thread t h hr ht hrun
    have ht1 : t < (stepThread s t h).threads.length := Nat.lt_of_lt_of_le ht (stepThread_le s t h).tlen
    split
    · exact h1
    · split
      · exact h1
      · rename_i _ hm
        exact ih _ h1 ht1 (Or.inr (by simpa using hm))

/-- every state reachable by whole steps is reachable by single thread steps -/
theorem Reach.fine {s0 s : Sys} (h : Reach s0 s) : ReachF s0 s := by
  induction h with
  | init => exact ReachF.init
  | step c hh _ ih =>
    cases c with
    | run t =>
      unfold PC.Sup.step
      simp only
      split
      · rename_i hen
        exact runThread_reachF t hh _ _ (ReachF.clear ih) (lt_of_enabled _ t hen) (Or.inl hen)
      · exact ReachF.clear ih
    | exit n code => exact ReachF.ext _ hh ih (fun t hc => by cases hc)
    | line n ready => exact ReachF.ext _ hh ih (fun t hc => by cases hc)
    | probe n ok => exact ReachF.ext _ hh ih (fun t hc => by cases hc)
    | probeFatal id n => exact ReachF.ext _ hh ih (fun t hc => by cases hc)
    | killTimeout n => exact ReachF.ext _ hh ih (fun t hc => by cases hc)
    | call id op => exact ReachF.ext _ hh ih (fun t hc => by cases hc)

/-! ### open stoppers / waiters -/

def Thr.openSd (th : Thr) : Bool := th.kind.isSd && th.pc != .finished

def openSd (s : Sys) : Nat := s.threads.countP Thr.openSd

theorem getElem?_take_lt {α : Type} (l : List α) (n u : Nat) (h : u < n) : (l.take n)[u]? = l[u]? := by
  rw [List.getElem?_take]; simp [h]

/-- a step that is not the last arm of a stopper / waiter: what it adds to the open threads it adds
    to the threads ever created -/
theorem openSd_step {t : Tid} {s s' : Sys} (hle : SysLe t s s') (hq : SdLe s s') (ht : t < s.threads.length)
    (hpc : (s.thr t).pc ≠ .finished) : openSd s' + sdTot s ≤ openSd s + sdTot s' := by
  have hsplit : s'.threads = s'.threads.take s.threads.length ++ s'.threads.drop s.threads.length :=
    (List.take_append_drop _ _).symm
  have hA : (s'.threads.take s.threads.length).countP Thr.openSd ≤ openSd s := by
    unfold openSd
    apply countP_le_pointwise
    intro u x' hx' hp
    have hu : u < s.threads.length := by
      rcases Nat.lt_or_ge u s.threads.length with h | h
      · exact h
      · rw [List.getElem?_take] at hx'; simp [Nat.not_lt.mpr h] at hx'
    rw [getElem?_take_lt _ _ _ hu] at hx'
    have ex' := thr_of_get hx'
    refine ⟨s.thr u, get_of_lt_thr s u hu, ?_⟩
    by_cases hut : u = t
    · subst hut
      have hk := hq.kinds u hu
      rw [ex'] at hk
      unfold Thr.openSd at hp ⊢
      rw [hk] at hp
      simp only [Bool.and_eq_true, bne_iff_ne, ne_eq] at hp ⊢
      exact ⟨hp.1, hpc⟩
    · have e := hle.tframe u hu hut
      rw [ex'] at e
      rw [← e]; exact hp
  have hB : (s'.threads.drop s.threads.length).countP Thr.openSd ≤
      (s'.threads.drop s.threads.length).countP (fun th => th.kind.isSd) := by
    apply List.countP_mono_left
    intro x _ hp
    unfold Thr.openSd at hp
    exact (Bool.and_eq_true_iff.mp hp).1
  have hC : sdTot s ≤ (s'.threads.take s.threads.length).countP (fun th => th.kind.isSd) := by
    unfold sdTot
    apply countP_le_pointwise
    intro u x hx hp
    have hu := lt_of_get hx
    have ex := thr_of_get hx
    refine ⟨s'.thr u, ?_, ?_⟩
    · rw [getElem?_take_lt _ _ _ hu]
      exact get_of_lt_thr s' u (Nat.lt_of_lt_of_le hu hq.tlen)
    · rw [hq.kinds u hu, ex]; exact hp
  have e1 : openSd s' = (s'.threads.take s.threads.length).countP Thr.openSd + (s'.threads.drop s.threads.length).countP Thr.openSd := by
    unfold openSd; rw [← List.countP_append, ← hsplit]
  have e2 : sdTot s' = (s'.threads.take s.threads.length).countP (fun th => th.kind.isSd) +
      (s'.threads.drop s.threads.length).countP (fun th => th.kind.isSd) := by
    unfold sdTot; rw [← List.countP_append, ← hsplit]
  omega

/-! ### where a stopper can be -/

/-- the labels a `stopper` of instance `i` passes through; finished only with `i` done -/
def StopperPc (s : Sys) (i : IId) (pc : Pc) : Prop :=
  pc = .begin ∨ pc = .depWg i ∨ (∃ cr, pc = .stopEnter i cr (.stopper i)) ∨ pc = .stopNotRunning i (.stopper i) ∨
  (∃ cr, pc = .stopChecked i cr (.stopper i)) ∨ (∃ cr, pc = .stopMarked i cr (.stopper i)) ∨
  pc = .stopWaitKill i (.stopper i) ∨ pc = .waitDoneThen i ∨ (pc = .finished ∧ (s.inst i).done = true)

structure SdInv (s : Sys) : Prop where
  cnt : openSd s ≤ s.sdWg
  waiter : ∀ u i, u < s.threads.length → (s.thr u).kind = .waiter i →
    (s.thr u).pc = .begin ∨ (s.thr u).pc = .waitDoneThen i ∨ ((s.thr u).pc = .finished ∧ (s.inst i).done = true)
  stopper : ∀ u i, (s.thr u).kind = .stopper i → StopperPc s i (s.thr u).pc

theorem stopperPc_mono {t : Tid} {s s' : Sys} (hle : SysLe t s s') {i : IId} {pc : Pc} (h : StopperPc s i pc) : StopperPc s' i pc := by
  unfold StopperPc at h ⊢
  rcases h with h | h | h | h | h | h | h | h | ⟨h1, h2⟩
  · exact Or.inl h
  · exact Or.inr (Or.inl h)
  · exact Or.inr (Or.inr (Or.inl h))
  · exact Or.inr (Or.inr (Or.inr (Or.inl h)))
  · exact Or.inr (Or.inr (Or.inr (Or.inr (Or.inl h))))
  · exact Or.inr (Or.inr (Or.inr (Or.inr (Or.inr (Or.inl h)))))
  · exact Or.inr (Or.inr (Or.inr (Or.inr (Or.inr (Or.inr (Or.inl h))))))
  · exact Or.inr (Or.inr (Or.inr (Or.inr (Or.inr (Or.inr (Or.inr (Or.inl h)))))))
  · exact Or.inr (Or.inr (Or.inr (Or.inr (Or.inr (Or.inr (Or.inr (Or.inr ⟨h1, done_mono hle i h2⟩)))))))

/-! exact labels after the stop arms, for the continuation `.stopper i` -/

theorem stopReturn_stopper_pc (s : Sys) (t : Tid) (i : IId) (h : t < s.threads.length) :
    ((stopReturn s t (.stopper i)).thr t).pc = .waitDoneThen i := by
  unfold stopReturn; simp only; exact pc_setPc _ _ _ h

theorem armStopEnter_pc (s : Sys) (t i cr k) (h : t < s.threads.length) :
    ((armStopEnter s t i cr k).thr t).pc = .stopChecked i cr k ∨ ((armStopEnter s t i cr k).thr t).pc = .stopNotRunning i k := by
  unfold armStopEnter; split
  · exact Or.inl (pc_setPc _ _ _ h)
  · exact Or.inr (pc_setPc _ _ _ h)

theorem armStopNotRunning_pc (s : Sys) (t i : IId) (h : t < s.threads.length) :
    ((armStopNotRunning s t i (.stopper i)).thr t).pc = .waitDoneThen i := by
  unfold armStopNotRunning
  simp only
  split <;> exact stopReturn_stopper_pc _ _ _ (by simpa using h)

theorem armStopChecked_pc (s : Sys) (t i cr k) (h : t < s.threads.length) :
    ((armStopChecked s t i cr k).thr t).pc = .stopMarked i cr k := by
  unfold armStopChecked; exact pc_setPc _ _ _ (by simpa using h)

theorem armStopMarked_pc (s : Sys) (t i : IId) (cr : Bool) (h : t < s.threads.length) :
    ((armStopMarked s t i cr (.stopper i)).thr t).pc = .waitDoneThen i ∨
    ((armStopMarked s t i cr (.stopper i)).thr t).pc = .stopWaitKill i (.stopper i) := by
  unfold armStopMarked
  simp only
  split
  · exact Or.inl (stopReturn_stopper_pc _ _ _ (by simpa using h))
  · split
    · exact Or.inr (pc_setPc _ _ _ (by simpa using h))
    · exact Or.inl (stopReturn_stopper_pc _ _ _ (by simpa using h))

theorem armStopWaitKill_pc (s : Sys) (t i : IId) (h : t < s.threads.length) :
    ((armStopWaitKill s t i (.stopper i)).thr t).pc = .waitDoneThen i := by
  unfold armStopWaitKill
  split <;> exact stopReturn_stopper_pc _ _ _ (by simpa using h)

theorem armStopperBegin_pc (s : Sys) (t i : IId) (ht : t < s.threads.length) :
    ((armStopperBegin s t i).thr t).pc = .depWg i := by
  unfold armStopperBegin
  simp only
  have hthr := foldl_spawn_thr (revDepsOf s (s.nameOf i)) (fun j => Kind.depwaiter i j)
    (fun s => { s with depWg := wgAdd s.depWg i }) (fun _ => rfl) s t ht
  exact pc_setPc _ _ _ hthr.1

theorem gotoStop_pc (s : Sys) (t i cr k) (h : t < s.threads.length) : ((gotoStop s t i cr k).thr t).pc = .stopEnter i cr k := by
  unfold gotoStop; exact pc_setPc _ _ _ (by simpa using h)

/-- the last arm of a stopper / waiter -/
theorem stepThread_sdFinish (s : Sys) (t : Tid) (h : Hints) (j : IId) (hk : (s.thr t).kind.isSd = true)
    (hp : (s.thr t).pc = .waitDoneThen j) :
    stepThread s t h = ({ s with sdWg := s.sdWg - 1 } : Sys).setPc t .finished := by
  unfold stepThread
  cases hkk : (s.thr t).kind with
  | stopper i => simp [hp, hkk, stepStopper]
  | waiter i => simp [hp, hkk, stepWaiter]
  | _ => rw [hkk] at hk; cases hk

/-- the label of a stopper after its step stays inside `StopperPc` -/
theorem stopper_step (s : Sys) (t : Tid) (h : Hints) (i : IId) (g : SdInv s) (ht : t < s.threads.length)
    (hk : (s.thr t).kind = .stopper i) (hrun : enabledThr s t = true ∨ mustPark s t = false) :
    StopperPc (stepThread s t h) i ((stepThread s t h).thr t).pc := by
  have hsp := g.stopper t i hk
  unfold StopperPc at hsp
  rcases hsp with hp | hp | ⟨cr, hp⟩ | hp | ⟨cr, hp⟩ | ⟨cr, hp⟩ | hp | hp | ⟨hp, _⟩
  · rw [stepThread_stopperBegin s t h i hk hp]
    exact Or.inr (Or.inl (armStopperBegin_pc s t i ht))
  · have e : stepThread s t h = gotoStop s t i true (.stopper i) := by unfold stepThread; simp [hp, hk, stepStopper]
    rw [e]
    exact Or.inr (Or.inr (Or.inl ⟨true, gotoStop_pc _ _ _ _ _ ht⟩))
  · have e : stepThread s t h = armStopEnter s t i cr (.stopper i) := by unfold stepThread; simp [hp]
    rw [e]
    rcases armStopEnter_pc s t i cr (.stopper i) ht with e1 | e1
    · exact Or.inr (Or.inr (Or.inr (Or.inr (Or.inl ⟨cr, e1⟩))))
    · exact Or.inr (Or.inr (Or.inr (Or.inl e1)))
  · have e : stepThread s t h = armStopNotRunning s t i (.stopper i) := by unfold stepThread; simp [hp]
    rw [e]
    exact Or.inr (Or.inr (Or.inr (Or.inr (Or.inr (Or.inr (Or.inr (Or.inl (armStopNotRunning_pc s t i ht))))))))
  · have e : stepThread s t h = armStopChecked s t i cr (.stopper i) := by unfold stepThread; simp [hp]
    rw [e]
    exact Or.inr (Or.inr (Or.inr (Or.inr (Or.inr (Or.inl ⟨cr, armStopChecked_pc s t i cr _ ht⟩)))))
  · have e : stepThread s t h = armStopMarked s t i cr (.stopper i) := by unfold stepThread; simp [hp]
    rw [e]
    rcases armStopMarked_pc s t i cr ht with e1 | e1
    · exact Or.inr (Or.inr (Or.inr (Or.inr (Or.inr (Or.inr (Or.inr (Or.inl e1)))))))
    · exact Or.inr (Or.inr (Or.inr (Or.inr (Or.inr (Or.inr (Or.inl e1))))))
  · have e : stepThread s t h = armStopWaitKill s t i (.stopper i) := by unfold stepThread; simp [hp]
    rw [e]
    exact Or.inr (Or.inr (Or.inr (Or.inr (Or.inr (Or.inr (Or.inr (Or.inl (armStopWaitKill_pc s t i ht))))))))
  · have hen : (s.inst i).done = true := by
      rcases hrun with he | hm
      · unfold enabledThr at he; simpa [hp] using he
      · rw [mustPark_waitDoneThen s t i hp] at hm; cases hm
    rw [stepThread_sdFinish s t h i (by rw [hk]; rfl) hp]
    exact Or.inr (Or.inr (Or.inr (Or.inr (Or.inr (Or.inr (Or.inr (Or.inr ⟨pc_setPc _ _ _ ht, hen⟩)))))))
  · exfalso
    rcases hrun with he | hm
    · exact enabled_not_finished s t he hp
    · rw [mustPark_finished s t hp] at hm; cases hm

theorem stepThread_waiter (s : Sys) (t : Tid) (h : Hints) (i : IId) (hk : (s.thr t).kind = .waiter i)
    (hp : (s.thr t).pc = .begin) : stepThread s t h = s.setPc t (.waitDoneThen i) := by
  unfold stepThread; simp [hp, hk, stepWaiter]

/-! ### every fine step keeps the invariant -/

theorem stepThread_sdInv (s : Sys) (t : Tid) (h : Hints) (g : SdInv s) (ht : t < s.threads.length)
    (hrun : enabledThr s t = true ∨ mustPark s t = false) : SdInv (stepThread s t h) := by
  have hle := stepThread_le s t h
  have hnf : (s.thr t).pc ≠ .finished := by
    rcases hrun with he | hm
    · exact enabled_not_finished s t he
    · intro hf; rw [mustPark_finished s t hf] at hm; cases hm
  have hkind : ((stepThread s t h).thr t).kind = (s.thr t).kind := by
    rcases hle.tkind with e | e
    · exact e
    · exact absurd ht (Nat.not_lt.mpr e)
  refine ⟨?_, ?_, ?_⟩
  · -- the count
    by_cases hsp : SpecialSd s t
    · obtain ⟨hk, j, hp⟩ := hsp
      rw [stepThread_sdFinish s t h j hk hp]
      have e1 : openSd (({ s with sdWg := s.sdWg - 1 } : Sys).setPc t .finished) + 1 = openSd s := by
        unfold openSd Sys.setPc
        simp only
        apply countP_modify_drop _ _ _ _ ht
        intro x hx
        have := thr_of_get hx
        subst this
        unfold Thr.openSd
        simp [hk, hp]
      have e2 : (({ s with sdWg := s.sdWg - 1 } : Sys).setPc t .finished).sdWg = s.sdWg - 1 := rfl
      have := g.cnt
      omega
    · have hq := stepThread_s s t h hsp
      have h1 := openSd_step hle hq ht hnf
      have h2 := hq.pay
      have := g.cnt
      omega
  · -- waiters
    intro u i hu' hk
    by_cases hut : u = t
    · subst hut
      rw [hkind] at hk
      rcases g.waiter u i ht hk with hb | hw | ⟨hf, _⟩
      · rw [stepThread_waiter s u h i hk hb]
        exact Or.inr (Or.inl (pc_setPc _ _ _ ht))
      · have hen : (s.inst i).done = true := by
          rcases hrun with he | hm
          · unfold enabledThr at he; simpa [hw] using he
          · rw [mustPark_waitDoneThen s u i hw] at hm; cases hm
        rw [stepThread_sdFinish s u h i (by rw [hk]; rfl) hw]
        exact Or.inr (Or.inr ⟨pc_setPc _ _ _ ht, hen⟩)
      · exact absurd hf hnf
    · by_cases hu : u < s.threads.length
      · have e := hle.tframe u hu hut
        rw [e] at hk ⊢
        rcases g.waiter u i hu hk with hb | hw | ⟨hf, hd⟩
        · exact Or.inl hb
        · exact Or.inr (Or.inl hw)
        · exact Or.inr (Or.inr ⟨hf, done_mono hle i hd⟩)
      · rcases hle.tnew u (Nat.le_of_not_lt hu) hu' with ⟨e1, _⟩ | e
        · exact Or.inl e1
        · exact absurd e hut
  · -- stoppers
    intro u i hk
    by_cases hut : u = t
    · subst hut
      rw [hkind] at hk
      exact stopper_step s u h i g ht hk hrun
    · by_cases hu : u < s.threads.length
      · have e := hle.tframe u hu hut
        rw [e] at hk ⊢
        exact stopperPc_mono hle (g.stopper u i hk)
      · by_cases hu' : u < (stepThread s t h).threads.length
        · rcases hle.tnew u (Nat.le_of_not_lt hu) hu' with ⟨e1, _⟩ | e
          · exact Or.inl e1
          · exact absurd e hut
        · rw [thr_default _ u (Nat.le_of_not_lt hu')] at hk; cases hk

theorem sdInv_congr {s s' : Sys} (g : SdInv s) (ht : s'.threads = s.threads) (hi : s'.insts = s.insts)
    (hw : s'.sdWg = s.sdWg) : SdInv s' := by
  have e1 : ∀ u, s'.thr u = s.thr u := fun u => by unfold Sys.thr; rw [ht]
  have e2 : ∀ j, s'.inst j = s.inst j := fun j => by unfold Sys.inst; rw [hi]
  refine ⟨?_, fun u i hu hk => ?_, fun u i hk => ?_⟩
  · have : openSd s' = openSd s := by unfold openSd; rw [ht]
    rw [this, hw]; exact g.cnt
  · rw [e1] at hk ⊢; rw [e2]; rw [ht] at hu; exact g.waiter u i hu hk
  · rw [e1] at hk ⊢
    have := g.stopper u i hk
    unfold StopperPc at this ⊢
    rw [e2]; exact this

theorem ext_sdWg (s : Sys) (c : Choice) (h : Hints) (hc : ∀ t, c ≠ .run t) : (step s c h).sdWg = s.sdWg := by
  unfold step
  simp only
  cases c with
  | run t => exact absurd rfl (hc t)
  | exit n code => simp only; split <;> rfl
  | line n ready =>
    simp only; split
    · split <;> rfl
    · rfl
  | probe n ok =>
    simp only; split
    · split
      · rfl
      · split <;> rfl
    · rfl
  | probeFatal id n => simp only; split <;> rfl
  | killTimeout n => simp only; split <;> rfl
  | call id op => rfl

theorem ext_new_not_sd (s : Sys) (c : Choice) (h : Hints) (hc : ∀ t, c ≠ .run t) :
    (step s c h).threads = s.threads ∨
    ∃ k, (step s c h).threads = s.threads ++ [{ kind := k }] ∧ k.isSd = false := by
  unfold step
  simp only
  cases c with
  | run t => exact absurd rfl (hc t)
  | exit n code => left; simp only; split <;> rfl
  | line n ready =>
    left; simp only; split
    · split <;> rfl
    · rfl
  | probe n ok =>
    left; simp only; split
    · split
      · rfl
      · split <;> rfl
    · rfl
  | probeFatal id n =>
    simp only; split
    · right; exact ⟨.probe id n, rfl, rfl⟩
    · left; rfl
  | killTimeout n => left; simp only; split <;> rfl
  | call id op => right; exact ⟨.api id op, rfl, rfl⟩

theorem ext_sdInv (s : Sys) (c : Choice) (h : Hints) (g : SdInv s) (hc : ∀ t, c ≠ .run t) : SdInv (step s c h) := by
  have hle := step_le s c h
  have htid : Choice.tid s c = s.threads.length := by
    cases c with
    | run t => exact absurd rfl (hc t)
    | _ => rfl
  rw [htid] at hle
  have hw := ext_sdWg s c h hc
  have hold : ∀ u, u < s.threads.length → (step s c h).thr u = s.thr u :=
    fun u hu => hle.tframe u hu (Nat.ne_of_lt hu)
  have hnew : ∀ u, s.threads.length ≤ u → ((step s c h).thr u).kind.isSd = true → u < (step s c h).threads.length → False := by
    intro u hu hk hu'
    rcases ext_new_not_sd s c h hc with e | ⟨k, e, hkk⟩
    · rw [e] at hu'; exact absurd hu' (Nat.not_lt.mpr hu)
    · have hu2 : u = s.threads.length := by
        rw [e] at hu'; simp only [List.length_append, List.length_singleton] at hu'
        exact Nat.le_antisymm (Nat.le_of_lt_succ hu') hu
      subst hu2
      have : (step s c h).thr s.threads.length = { kind := k } := by
        unfold Sys.thr; rw [e]; simp [List.getD_eq_getElem?_getD]
      rw [this] at hk
      simp only at hk
      rw [hkk] at hk; cases hk
  refine ⟨?_, fun u i hu' hk => ?_, fun u i hk => ?_⟩
  · have hcount : openSd (step s c h) = openSd s := by
      rcases ext_new_not_sd s c h hc with e | ⟨k, e, hkk⟩
      · unfold openSd; rw [e]
      · unfold openSd; rw [e]
        simp [List.countP_append, Thr.openSd, hkk]
    rw [hcount, hw]; exact g.cnt
  · by_cases hu : u < s.threads.length
    · rw [hold u hu] at hk ⊢
      rcases g.waiter u i hu hk with hb | hwt | ⟨hf, hd⟩
      · exact Or.inl hb
      · exact Or.inr (Or.inl hwt)
      · exact Or.inr (Or.inr ⟨hf, done_mono hle i hd⟩)
    · exact absurd (hnew u (Nat.le_of_not_lt hu) (by rw [hk]; rfl) hu') id
  · by_cases hu : u < s.threads.length
    · rw [hold u hu] at hk ⊢
      exact stopperPc_mono hle (g.stopper u i hk)
    · by_cases hu' : u < (step s c h).threads.length
      · exact absurd (hnew u (Nat.le_of_not_lt hu) (by rw [hk]; rfl) hu') id
      · rw [thr_default _ u (Nat.le_of_not_lt hu')] at hk; cases hk

theorem init_sdInv (gr : Gran) (o : Bool) (cfgs : List Cfg) : SdInv (init gr o cfgs) := by
  refine ⟨by simp [openSd, init], fun u i hu _ => by simp [init] at hu, fun u i hk => ?_⟩
  have : (init gr o cfgs).thr u = { kind := .waiter 0, pc := .finished } := thr_default _ u (by simp [init])
  rw [this] at hk; cases hk

/-- **The shutdown wait-group invariant holds in every state the model passes through.** -/
theorem reachF_sdInv (gr : Gran) (o : Bool) (cfgs : List Cfg) {s : Sys} (h : ReachF (init gr o cfgs) s) : SdInv s := by
  induction h with
  | init => exact init_sdInv gr o cfgs
  | thread t hh _ ht hr ih => exact stepThread_sdInv _ t hh ih ht hr
  | ext c hh _ hc ih => exact ext_sdInv _ c hh ih hc
  | clear _ ih => exact sdInv_congr ih rfl rfl rfl

/-! ### consequences -/

/-- with the shutdown wait group at zero, every stopper / waiter has finished and its instance is done -/
theorem sd_pass {s : Sys} (g : SdInv s) (hz : s.sdWg = 0) (u : Tid) (hu : u < s.threads.length) (i : IId)
    (hk : (s.thr u).kind = .stopper i ∨ (s.thr u).kind = .waiter i) :
    (s.thr u).pc = .finished ∧ (s.inst i).done = true := by
  have hc : openSd s = 0 := Nat.eq_zero_of_le_zero (hz ▸ g.cnt)
  have hno : Thr.openSd (s.thr u) = false := by
    unfold openSd at hc
    rw [List.countP_eq_zero] at hc
    have hm : s.thr u ∈ s.threads := List.mem_of_getElem? (get_of_lt_thr s u hu)
    simpa using hc _ hm
  have hfin : (s.thr u).pc = .finished := by
    unfold Thr.openSd at hno
    rcases hk with hk | hk <;> (rw [hk] at hno; simpa [Kind.isSd] using hno)
  rcases hk with hk | hk
  · have := g.stopper u i hk
    unfold StopperPc at this
    rw [hfin] at this
    rcases this with h | h | ⟨_, h⟩ | h | ⟨_, h⟩ | ⟨_, h⟩ | h | h | ⟨_, h⟩
    · cases h
    · cases h
    · cases h
    · cases h
    · cases h
    · cases h
    · cases h
    · cases h
    · exact ⟨hfin, h⟩
  · rcases g.waiter u i hu hk with h | h | ⟨_, h⟩
    · rw [hfin] at h; cases h
    · rw [hfin] at h; cases h
    · exact ⟨hfin, h⟩

theorem stepThread_kind (s : Sys) (t : Tid) (h : Hints) (w : Tid) (hw : w < s.threads.length) :
    ((stepThread s t h).thr w).kind = (s.thr w).kind := by
  have hle := stepThread_le s t h
  by_cases e : w = t
  · subst e
    rcases hle.tkind with k | k
    · exact k
    · exact absurd hw (Nat.not_lt.mpr k)
  · rw [hle.tframe w hw e]

theorem reachF_kind {s s' : Sys} (hr : ReachF s s') (w : Tid) (hw : w < s.threads.length) :
    w < s'.threads.length ∧ (s'.thr w).kind = (s.thr w).kind := by
  induction hr with
  | init => exact ⟨hw, rfl⟩
  | thread t h _ _ _ ih =>
    obtain ⟨h1, h2⟩ := ih
    exact ⟨Nat.lt_of_lt_of_le h1 (stepThread_le _ t h).tlen, (stepThread_kind _ t h w h1).trans h2⟩
  | ext c h _ _ ih =>
    obtain ⟨h1, h2⟩ := ih
    exact ⟨Nat.lt_of_lt_of_le h1 (step_le _ c h).tlen, (step_kind _ c h w h1).trans h2⟩
  | clear _ ih => exact ih

/-- ordered mode: the shutdown creates a stopper for every instance of its order -/
theorem sdPrepared_creates (s : Sys) (t : Tid) (order : List IId) (k : SdK) (hord : s.ordered = true) :
    ∀ i ∈ order, ∃ w, w < (armSdPrepared s t order k).threads.length ∧ ((armSdPrepared s t order k).thr w).kind = .stopper i := by
  intro i hi
  unfold armSdPrepared
  simp only [hord, ↓reduceIte]
  obtain ⟨w, h1, h2⟩ := foldl_spawn_mem order (fun i => Kind.stopper i)
    (fun s => { s with sdWg := s.sdWg + 1 }) (fun _ => rfl) s i hi
  exact ⟨w, by simpa [Sys.setPc] using h1, by rw [kind_setPc]; exact h2⟩

/-- **Ordered shutdown returns only when everything it set out to stop is done.** From any state the
    model passes through in which a thread has prepared a shutdown of `order` (ordered mode), let
    that thread go on and let anything else happen: whenever it is then able to pass the shutdown
    wait group — after which `ShutDownProject` returns — every instance of `order` is done. -/
theorem ordered_shutdown_returns_after_all_done (gr : Gran) (o : Bool) (cfgs : List Cfg) {s0 s2 : Sys}
    (h0 : ReachF (init gr o cfgs) s0) (t : Tid) (order : List IId) (k k' : SdK) (hh : Hints)
    (ht : t < s0.threads.length) (hp : (s0.thr t).pc = .sdPrepared order k) (hord : s0.ordered = true)
    (hrun : enabledThr s0 t = true ∨ mustPark s0 t = false)
    (h12 : ReachF (stepThread s0 t hh) s2) (hp2 : (s2.thr t).pc = .sdWg k') (hen : enabledThr s2 t = true) :
    ∀ i ∈ order, (s2.inst i).done = true := by
  intro i hi
  have h02 : ReachF (init gr o cfgs) s2 := ReachF.trans (ReachF.thread t hh h0 ht hrun) h12
  have e : stepThread s0 t hh = armSdPrepared s0 t order k := by unfold stepThread; simp [hp]
  obtain ⟨w, hw1, hw2⟩ := sdPrepared_creates s0 t order k hord i hi
  rw [← e] at hw1 hw2
  obtain ⟨hw3, hkind⟩ := reachF_kind h12 w hw1
  have hz : s2.sdWg = 0 := by unfold enabledThr at hen; simpa [hp2] using hen
  exact (sd_pass (reachF_sdInv gr o cfgs h02) hz w hw3 i (Or.inl (hkind.trans hw2))).2

end PC.Sup
