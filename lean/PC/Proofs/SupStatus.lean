import PC.Proofs.SupOne
import PC.Proofs.SupHealth
/-! C09, globally: the status reported for a process while one of its commands is alive.

    `SW M`: what a thread step can do to the reported statuses - a status is left as it is, becomes
    Terminating, belongs to the process `M` whose goroutine the thread is, or becomes Pending for a
    process of which the step has just created a new instance. Per-arm lemmas as in `SupInsts` /
    `SupRQ`. -/
namespace PC.Sup

structure SW (M : Option Name) (s s' : Sys) : Prop where
  ilen : s.insts.length ≤ s'.insts.length
  names : ∀ j, j < s.insts.length → s'.nameOf j = s.nameOf j
  plen : s'.pstates.length = s.pstates.length
  st : ∀ n, (s'.ps n).status = (s.ps n).status ∨ (s'.ps n).status = .terminating ∨ M = some n ∨
    ((s'.ps n).status = .pending ∧ ∃ k, s.insts.length ≤ k ∧ k < s'.insts.length ∧ s'.nameOf k = n)

variable {M : Option Name}

theorem SW.refl (s : Sys) : SW M s s := ⟨Nat.le_refl _, fun _ _ => rfl, rfl, fun _ => Or.inl rfl⟩
theorem SW.trans {a b c : Sys} (h1 : SW M a b) (h2 : SW M b c) : SW M a c where
  ilen := Nat.le_trans h1.ilen h2.ilen
  names := fun j hj => (h2.names j (Nat.lt_of_lt_of_le hj h1.ilen)).trans (h1.names j hj)
  plen := h2.plen.trans h1.plen
  st := fun n => by
    rcases h2.st n with e2 | e2 | e2 | ⟨e2, k, k1, k2, k3⟩
    · rcases h1.st n with e1 | e1 | e1 | ⟨e1, k, k1, k2, k3⟩
      · exact Or.inl (e2.trans e1)
      · exact Or.inr (Or.inl (e2.trans e1))
      · exact Or.inr (Or.inr (Or.inl e1))
      · exact Or.inr (Or.inr (Or.inr ⟨e2.trans e1, k, k1, Nat.lt_of_lt_of_le k2 h2.ilen, (h2.names k k2).trans k3⟩))
    · exact Or.inr (Or.inl e2)
    · exact Or.inr (Or.inr (Or.inl e2))
    · exact Or.inr (Or.inr (Or.inr ⟨e2, k, Nat.le_trans h1.ilen k1, k2, k3⟩))

structure SVSame (s s' : Sys) : Prop where
  pstates : s'.pstates = s.pstates
  insts : s'.insts = s.insts

theorem nameOf_of_insts {s s' : Sys} (h : s'.insts = s.insts) (j : IId) : s'.nameOf j = s.nameOf j := by
  unfold Sys.nameOf Sys.inst; rw [h]

theorem SW.of_same {s s' : Sys} (h : SVSame s s') : SW M s s' :=
  ⟨by rw [h.insts]; exact Nat.le_refl _, fun j _ => nameOf_of_insts h.insts j, by rw [h.pstates], fun n => Or.inl (by unfold Sys.ps; rw [h.pstates])⟩

macro "svsame" : tactic => `(tactic| exact ⟨rfl, rfl⟩)

/-- an update of one instance record that keeps its name -/
theorem setInst_sv (s : Sys) (i : IId) (f : Inst → Inst) (hf : ∀ x, (f x).name = x.name := by intro x; rfl) :
    SW M s (s.setInst i f) :=
  ⟨by simp [Sys.setInst], fun j _ => nameOf_setInst s i j f hf, rfl, fun _ => Or.inl rfl⟩
theorem emit_sv (s : Sys) (o) : SW M s (s.emit o) := SW.of_same (by svsame)
theorem note_sv (s : Sys) (e : GateEv) (_he : ∀ i d c, e ≠ .passed i d c) : SW M s (s.note e) := SW.of_same (by svsame)
theorem notePassed_sv (s : Sys) (i d : IId) (c : Cond) : SW M s (s.notePassed i d c) := by
  unfold Sys.notePassed; split
  · exact SW.of_same (by svsame)
  · exact SW.refl _
theorem setPc_sv (s : Sys) (t pc) : SW M s (s.setPc t pc) := SW.of_same (by svsame)
theorem spawn_sv (s : Sys) (k) (_hk : ∀ i, k = .proc i → i < s.insts.length) : SW M s (s.spawn k) := SW.of_same (by svsame)

/-- an update of a process state record that keeps its status -/
theorem setPs_sv (s : Sys) (n : Name) (f : PState → PState) (hf : ∀ p, (f p).status = p.status := by intro p; rfl) :
    SW M s (s.setPs n f) := by
  refine ⟨Nat.le_refl _, fun _ _ => rfl, by simp, fun m => Or.inl ?_⟩
  by_cases hl : m < s.pstates.length
  · rw [ps_setPs _ _ _ _ hl]; split
    · exact hf _
    · rfl
  · rw [ps_setPs_ge _ _ _ _ hl, ps_default _ _ hl]

theorem SW.then {a b c : Sys} (h1 : SW M a b) (h2 : SW M b c) : SW M a c := h1.trans h2
theorem SW.congr_left {s0 s s' : Sys} (h : SW M s s') (e : SVSame s0 s) : SW M s0 s' := (SW.of_same e).trans h
theorem SW.congr {s s' s'' : Sys} (h : SW M s s') (e : SVSame s' s'') : SW M s s'' := h.trans (SW.of_same e)

macro "svpeel " t:term : tactic => `(tactic| refine SW.trans ?_ $t)
macro "svupd " t:term : tactic => `(tactic| exact SW.congr_left $t (by svsame))
macro "done_sv" : tactic => `(tactic| first | exact SW.refl _ | exact SW.of_same (by svsame))

/-- writing the status of one process: every other process keeps its status -/
theorem status_set (s : Sys) (n : Name) (st : Status) (m : Name) :
    ((s.setPs n fun p => { p with status := st }).ps m).status = (s.ps m).status ∨
      (m = n ∧ ((s.setPs n fun p => { p with status := st }).ps m).status = st) := by
  by_cases e : m = n
  · subst e
    by_cases hl : m < s.pstates.length
    · right; refine ⟨rfl, ?_⟩; rw [ps_setPs _ _ _ _ hl]; simp
    · left; rw [ps_setPs_ge _ _ _ _ hl, ps_default _ _ hl]
  · left; rw [setPs_ps_ne _ _ _ _ e]

theorem status_keep (s : Sys) (n : Name) (f : PState → PState) (hf : ∀ p, (f p).status = p.status) (m : Name) :
    ((s.setPs n f).ps m).status = (s.ps m).status := by
  by_cases hl : m < s.pstates.length
  · rw [ps_setPs _ _ _ _ hl]; split
    · exact hf _
    · rfl
  · rw [ps_setPs_ge _ _ _ _ hl, ps_default _ _ hl]

/-- the status after `setState s i st`: unchanged, or it is the process of `i` and the status is `st` -/
theorem setState_status (s : Sys) (i : IId) (st : Status) (m : Name) :
    ((setState s i st).ps m).status = (s.ps m).status ∨ (m = s.nameOf i ∧ ((setState s i st).ps m).status = st) := by
  have key := status_set s (s.nameOf i) st m
  have e : ((setState s i st).ps m).status = ((s.setPs (s.nameOf i) fun p => { p with status := st }).ps m).status := by
    unfold setState
    simp only
    cases st <;> simp only [emit_ps, setPs_nameOf, emit_nameOf] <;>
      first
      | rfl
      | exact status_keep (Sys.emit _ _) _ _ (by intro p; rfl) m
  rw [e]; exact key

theorem setState_plen (s : Sys) (i : IId) (st : Status) : (setState s i st).pstates.length = s.pstates.length := by
  unfold setState; cases st <;> simp

theorem setState_status_self (s : Sys) (i : IId) (st : Status) (hn : s.nameOf i < s.pstates.length) :
    ((setState s i st).ps (s.nameOf i)).status = st := by
  rcases setState_status s i st (s.nameOf i) with e | ⟨_, e⟩
  · -- unchanged can only mean that it already was `st`
    have key : ((s.setPs (s.nameOf i) fun p => { p with status := st }).ps (s.nameOf i)).status = st := by
      rw [ps_setPs _ _ _ _ hn]; simp
    have e2 : ((setState s i st).ps (s.nameOf i)).status = ((s.setPs (s.nameOf i) fun p => { p with status := st }).ps (s.nameOf i)).status := by
      unfold setState
      simp only
      cases st <;> simp only [emit_ps, setPs_nameOf, emit_nameOf] <;>
        first
        | rfl
        | exact status_keep (Sys.emit _ _) _ _ (by intro p; rfl) _
    rw [e2]; exact key
  · exact e

/-- a status write that is Terminating, or concerns the process whose goroutine the thread is -/
theorem setState_sv (s : Sys) (i : IId) (st : Status) (h : st = .terminating ∨ M = some (s.nameOf i)) : SW M s (setState s i st) := by
  refine ⟨by simp, fun j _ => nameOf_of_insts (by simp) j, setState_plen s i st, fun n => ?_⟩
  rcases setState_status s i st n with e | ⟨e1, e2⟩
  · exact Or.inl e
  · rcases h with h | h
    · exact Or.inr (Or.inl (by rw [e2, h]))
    · exact Or.inr (Or.inr (Or.inl (by rw [h, e1])))

theorem setExit_sv (s : Sys) (n c) : SW M s (setExit s n c) := by
  unfold setExit; exact (setPs_sv _ _ _).then (emit_sv _ _)

theorem recordExit_sv (s : Sys) (c) : SW M s (recordExit s c) := by
  unfold recordExit
  split
  · exact SW.refl _
  · svpeel (emit_sv _ _)
    exact SW.of_same (by svsame)

theorem onProcessEnd_sv (s : Sys) (i st) (h : st = .terminating ∨ M = some (s.nameOf i)) : SW M s (onProcessEnd s i st) := by
  unfold onProcessEnd
  refine ((setInst_sv s i endInst).then (setState_sv _ _ _ ?_)).then (emit_sv _ _)
  rw [nameOf_setInst s i i endInst (by intro x; rfl)]; exact h

theorem cmdExit_sv (s : Sys) (i c) : SW M s (cmdExit s i c) := setInst_sv _ _ _

theorem cmdStop_sv (s : Sys) (i sig) : SW M s (cmdStop s i sig) := by
  unfold cmdStop
  simp only
  split
  · split
    · exact (emit_sv _ _).then (cmdExit_sv _ _ _)
    · split
      · exact (emit_sv _ _).then (cmdExit_sv _ _ _)
      · exact emit_sv _ _
  · exact emit_sv _ _

theorem decideRestart_sv (s : Sys) (i) : SW M s (decideRestart s i).2 := setInst_sv _ _ _

/-- registering a new instance of `n`: its status becomes Pending, everybody else keeps theirs -/
theorem spawnProc_sv (s : Sys) (n) : SW M s (spawnProc s n) := by
  have hins : (spawnProc s n).insts = s.insts ++ [{ name := n, seq := (s.insts.filter (·.name = n)).length + 1 }] := by
    unfold spawnProc newInst
    simp [Sys.spawn]
  have hname : (spawnProc s n).nameOf s.insts.length = n := by
    unfold Sys.nameOf Sys.inst; rw [hins]; simp [List.getD_eq_getElem?_getD]
  refine ⟨by rw [hins]; simp, fun j hj => ?_, ?_, fun m => ?_⟩
  · unfold Sys.nameOf Sys.inst; rw [hins]
    simp only [List.getD_eq_getElem?_getD]
    rw [List.getElem?_append_left hj]
  · unfold spawnProc newInst
    simp only [Sys.spawn]
    exact setState_plen _ _ _
  · have hst : ((spawnProc s n).ps m).status =
        ((setState { s with insts := s.insts ++ [{ name := n, seq := (s.insts.filter (·.name = n)).length + 1 }] } s.insts.length .pending).ps m).status := by
      unfold spawnProc newInst
      rfl
    rw [hst]
    rcases setState_status { s with insts := s.insts ++ [{ name := n, seq := (s.insts.filter (·.name = n)).length + 1 }] } s.insts.length .pending m with e | ⟨e1, e2⟩
    · exact Or.inl e
    · refine Or.inr (Or.inr (Or.inr ⟨e2, s.insts.length, Nat.le_refl _, by rw [hins]; simp, ?_⟩))
      rw [hname, e1]
      unfold Sys.nameOf Sys.inst
      simp [List.getD_eq_getElem?_getD]

theorem gotoCleanup_sv (s : Sys) (t) : SW M s (gotoCleanup s t) := by
  unfold gotoCleanup; svpeel (setPc_sv _ _ _); done_sv

theorem gotoStop_sv (s : Sys) (t i cr k) : SW M s (gotoStop s t i cr k) := by
  unfold gotoStop
  exact (setInst_sv _ _ _).then (setPc_sv _ _ _)

theorem apiRet_sv (s : Sys) (t r) : SW M s (apiRet s t r) := by
  unfold apiRet; split
  · exact (emit_sv _ _).then (setPc_sv _ _ _)
  all_goals exact setPc_sv _ _ _

theorem apiSpawn_sv (s : Sys) (t n) : SW M s (apiSpawn s t n) := by
  unfold apiSpawn
  simp only
  split
  · svpeel (setPc_sv _ _ _); svpeel (emit_sv _ _); exact spawnProc_sv _ _
  all_goals (svpeel (setPc_sv _ _ _); exact spawnProc_sv _ _)

theorem addDone_sv (s : Sys) (i : IId) : SW M s (addDone s i) := by
  unfold addDone; done_sv
theorem doSkip_sv (s : Sys) (t i) (hm : M = some (s.nameOf i)) : SW M s (doSkip s t i) := by
  unfold doSkip
  have hm' : M = some ((addDone s i).nameOf i) := hm
  exact (addDone_sv _ _).then ((onProcessEnd_sv (addDone s i) i .skipped (Or.inr hm')).then (setPc_sv _ _ _))

theorem afterDeps_sv (s : Sys) (t) : SW M s (afterDeps s t) := setPc_sv _ _ _

theorem lookupRunning_sv (s : Sys) (t i k c r) : SW M s (lookupRunning s t i k c r) := by
  unfold lookupRunning; split
  · exact ((note_sv _ _ (by intro _ _ _ h; cases h)).then (emit_sv _ _)).then (setPc_sv _ _ _)
  · exact ((note_sv _ _ (by intro _ _ _ h; cases h)).then (emit_sv _ _)).then (setPc_sv _ _ _)

theorem depStep_sv (s : Sys) (t i h r) : SW M s (depStep s t i h r) := by
  unfold depStep
  split
  · exact afterDeps_sv _ _
  · simp only
    split
    · exact (((emit_sv _ _).then (note_sv _ _ (by intro _ _ _ h; cases h))).then (emit_sv _ _)).then (setPc_sv _ _ _)
    · split
      · exact (emit_sv _ _).then (lookupRunning_sv _ _ _ _ _ _)
      · exact (emit_sv _ _).then (setPc_sv _ _ _)

theorem setState_nameOf (s : Sys) (i st j) : (setState s i st).nameOf j = s.nameOf j :=
  nameOf_of_insts (by simp) j

theorem clock_sv (s : Sys) (k : Nat) : SW M s { s with launchClock := k } := SW.of_same (by svsame)

theorem doLaunch_sv (s : Sys) (t i) (hm : M = some (s.nameOf i)) : SW M s (doLaunch s t i) := by
  unfold doLaunch
  simp only
  split
  · svpeel (setPc_sv _ _ _)
    refine SW.trans ?_ (onProcessEnd_sv _ _ _ (Or.inr ?_))
    · svpeel (setExit_sv _ _ _)
      svpeel (emit_sv _ _)
      exact setState_sv _ _ _ (Or.inr hm)
    · show M = some ((setState s i .running).nameOf i)
      rw [setState_nameOf]; exact hm
  · svpeel (setPc_sv _ _ _)
    have key : SW M s ((setState s i .running).emit (.launch ((setState s i .running).nameOf i))) :=
      (setState_sv s i .running (Or.inr hm)).then (emit_sv _ _)
    split
    · svpeel (spawn_sv _ _ (by intro i h; cases h))
      svpeel (setInst_sv _ _ _)
      exact key.then (clock_sv _ _)
    · svpeel (setInst_sv _ _ _)
      exact key.then (clock_sv _ _)

theorem foldl_sv {α : Type} (f : Sys → α → Sys) (hf : ∀ s a, SW M s (f s a)) (l : List α) (s : Sys) :
    SW M s (l.foldl f s) := by
  induction l generalizing s with
  | nil => exact SW.refl _
  | cons a l ih => exact (hf s a).then (ih _)

theorem sdBody_sv (s : Sys) (t h k) : SW M s (sdBody s t h k) := by
  unfold sdBody
  simp only
  svpeel (setPc_sv _ _ _)
  svupd (foldl_sv _ (fun s i => setInst_sv _ _ _) _ _)

theorem sdSeqNext_sv (s : Sys) (t r k) : SW M s (sdSeqNext s t r k) := by
  unfold sdSeqNext; split
  · exact setPc_sv _ _ _
  · exact gotoStop_sv _ _ _ _ _

theorem sdReturn_sv (s : Sys) (t k) : SW M s (sdReturn s t k) := by
  unfold sdReturn
  simp only
  split
  · split
    · svpeel (setPc_sv _ _ _); svpeel (emit_sv _ _); svpeel (emit_sv _ _); done_sv
    all_goals (svpeel (setPc_sv _ _ _); svpeel (emit_sv _ _); done_sv)
  · svpeel (gotoCleanup_sv _ _); svpeel (emit_sv _ _); done_sv
  · svpeel (gotoCleanup_sv _ _); svpeel (emit_sv _ _); done_sv

theorem stopReturn_sv (s : Sys) (t k) : SW M s (stopReturn s t k) := by
  unfold stopReturn
  split
  · split
    · exact (emit_sv _ _).then (setPc_sv _ _ _)
    all_goals exact setPc_sv _ _ _
  · exact setPc_sv _ _ _
  · svpeel (sdSeqNext_sv _ _ _ _)
    svupd (spawn_sv _ _ (by intro i h; cases h))
  · exact setPc_sv _ _ _
  · exact setPc_sv _ _ _

theorem apiFirst_sv (s : Sys) (t h op) : SW M s (apiFirst s t h op) := by
  unfold apiFirst
  cases op with
  | start n => simp only; split <;> first | exact apiRet_sv _ _ _ | exact setPc_sv _ _ _
  | stop n =>
    simp only; split
    · exact (setInst_sv _ _ _).then (gotoStop_sv _ _ _ _ _)
    · split <;> exact apiRet_sv _ _ _
  | restart n =>
    simp only; split
    · exact (setInst_sv _ _ _).then (gotoStop_sv _ _ _ _ _)
    · split
      · exact setPc_sv _ _ _
      · exact apiRet_sv _ _ _
  | state n => simp only; split <;> exact apiRet_sv _ _ _
  | shutdown => exact setPc_sv _ _ _
  | runMain =>
    simp only
    svpeel (setPc_sv _ _ _)
    svupd (foldl_sv _ spawnProc_sv _ _)

/-! ### the arms -/

theorem armDepLookup_sv (s : Sys) (t d c r) : SW M s (armDepLookup s t d c r) := by
  unfold armDepLookup; cases c <;> exact setPc_sv _ _ _
theorem armWaitDone_sv (s : Sys) (t i d ok r) (hm : M = some (s.nameOf i)) : SW M s (armWaitDone s t i d ok r) := by
  unfold armWaitDone; split
  · exact doSkip_sv _ _ _ hm
  · exact (notePassed_sv _ _ _ _).then (setPc_sv _ _ _)
theorem armWaitReady_sv (s : Sys) (t i d r) (hm : M = some (s.nameOf i)) : SW M s (armWaitReady s t i d r) := by
  unfold armWaitReady; split
  · exact (notePassed_sv _ _ _ _).then (setPc_sv _ _ _)
  · exact doSkip_sv _ _ _ hm
theorem armWaitLogReady_sv (s : Sys) (t i d r) (hm : M = some (s.nameOf i)) : SW M s (armWaitLogReady s t i d r) := by
  unfold armWaitLogReady; split
  · exact (notePassed_sv _ _ _ _).then (setPc_sv _ _ _)
  · exact doSkip_sv _ _ _ hm
theorem armProcSkipped_sv (s : Sys) (t i) : SW M s (armProcSkipped s t i) := by
  unfold armProcSkipped; split
  · exact (recordExit_sv _ _).then (setPc_sv _ _ _)
  · exact gotoCleanup_sv _ _
theorem armRunEnter_sv (s : Sys) (t i) (hm : M = some (s.nameOf i)) : SW M s (armRunEnter s t i) := by
  unfold armRunEnter; split
  · exact (onProcessEnd_sv _ _ _ (Or.inr hm)).then (setPc_sv _ _ _)
  · exact setPc_sv _ _ _
theorem armRunChecked_sv (s : Sys) (t i) (hm : M = some (s.nameOf i)) : SW M s (armRunChecked s t i) := by
  unfold armRunChecked; split
  · exact ((setExit_sv _ _ _).then (onProcessEnd_sv _ _ _ (Or.inr hm))).then (setPc_sv _ _ _)
  · refine ((setInst_sv _ _ _).then (emit_sv _ _)).then (doLaunch_sv _ _ _ ?_)
    rw [emit_nameOf, nameOf_setInst s i i _ (by intro x; rfl)]; exact hm
theorem armCmdWait_sv (s : Sys) (t i) : SW M s (armCmdWait s t i) := by
  unfold armCmdWait; split
  · exact (setExit_sv _ _ _).then (setPc_sv _ _ _)
  · exact SW.refl _
theorem armRunExited_sv (s : Sys) (t i) (hm : M = some (s.nameOf i)) : SW M s (armRunExited s t i) := by
  unfold armRunExited
  simp only
  have hn : (decideRestart s i).2.nameOf i = s.nameOf i := by
    unfold decideRestart; exact nameOf_setInst s i i _ (by intro x; rfl)
  refine (decideRestart_sv s i).then ?_
  split
  · exact (((setState_sv _ _ _ (Or.inr (by rw [hn]; exact hm))).then (setPs_sv _ _ _)).then (emit_sv _ _)).then (setPc_sv _ _ _)
  · exact (onProcessEnd_sv _ _ _ (Or.inr (by rw [hn]; exact hm))).then (setPc_sv _ _ _)
theorem armBackoff_sv (s : Sys) (t i) (hm : M = some (s.nameOf i)) : SW M s (armBackoff s t i) := by
  unfold armBackoff; split
  · exact (onProcessEnd_sv _ _ _ (Or.inr hm)).then (setPc_sv _ _ _)
  · exact setPc_sv _ _ _
theorem armProcRan_sv (s : Sys) (t i c) : SW M s (armProcRan s t i c) := by
  unfold armProcRan; svpeel (setPc_sv _ _ _); done_sv
theorem armProcDoneAdded_sv (s : Sys) (t i c) : SW M s (armProcDoneAdded s t i c) := by
  unfold armProcDoneAdded; simp only; split
  · exact (recordExit_sv _ _).then (setPc_sv _ _ _)
  · exact gotoCleanup_sv _ _
theorem armLockCleanup_sv (s : Sys) (t i) : SW M s (armLockCleanup s t i) := by
  unfold armLockCleanup; split
  · svpeel (setPc_sv _ _ _); done_sv
  · exact setPc_sv _ _ _

theorem stepProc_sv (s : Sys) (t i h pc) (hm : M = some (s.nameOf i)) : SW M s (stepProc s t i h pc) := by
  cases pc
  all_goals simp only [stepProc]
  case begin => exact setPc_sv _ _ _
  case depNext rest => exact depStep_sv _ _ _ _ _
  case lockDep k c rest => exact lookupRunning_sv _ _ _ _ _ _
  case depLookup d c rest => exact armDepLookup_sv _ _ _ _ _
  case waitDone d ok rest => exact armWaitDone_sv _ _ _ _ _ _ hm
  case waitReady d rest => exact armWaitReady_sv _ _ _ _ _ hm
  case waitLogReady d rest => exact armWaitLogReady_sv _ _ _ _ _ hm
  case waitStarted d rest => exact (notePassed_sv _ _ _ _).then (setPc_sv _ _ _)
  case procSkipped => exact armProcSkipped_sv _ _ _
  case runEnter => exact armRunEnter_sv _ _ _ hm
  case runChecked => exact armRunChecked_sv _ _ _ hm
  case cmdWait => exact armCmdWait_sv _ _ _
  case runExited => exact armRunExited_sv _ _ _ hm
  case backoff => exact armBackoff_sv _ _ _ hm
  case backoffElapsed => exact doLaunch_sv _ _ _ hm
  case procRan c => exact armProcRan_sv _ _ _ _
  case procDoneAdded c => exact armProcDoneAdded_sv _ _ _ _
  case lockCleanup => exact armLockCleanup_sv _ _ _
  all_goals exact SW.refl _

theorem armStopEnter_sv (s : Sys) (t i cr k) : SW M s (armStopEnter s t i cr k) := by
  unfold armStopEnter; split <;> exact setPc_sv _ _ _
theorem armStopNotRunning_sv (s : Sys) (t i k) : SW M s (armStopNotRunning s t i k) := by
  unfold armStopNotRunning; simp only; split
  · exact (onProcessEnd_sv _ _ _ (Or.inl rfl)).then (stopReturn_sv _ _ _)
  · exact stopReturn_sv _ _ _
theorem armStopChecked_sv (s : Sys) (t i cr k) : SW M s (armStopChecked s t i cr k) := by
  unfold armStopChecked; exact (setState_sv _ _ _ (Or.inl rfl)).then (setPc_sv _ _ _)

theorem stopMarkedPrep_sv (s : Sys) (i cr) : SW M s (stopMarkedPrep s i cr) := by
  unfold stopMarkedPrep
  exact setInst_sv _ _ _

theorem armStopMarked_sv (s : Sys) (t i cr k) : SW M s (armStopMarked s t i cr k) := by
  unfold armStopMarked
  simp only
  split
  · svpeel (stopReturn_sv _ _ _)
    exact stopMarkedPrep_sv _ _ _
  · split
    · svpeel (setPc_sv _ _ _)
      svpeel (setInst_sv _ _ _)
      svpeel (cmdStop_sv _ _ _)
      exact stopMarkedPrep_sv _ _ _
    · svpeel (stopReturn_sv _ _ _)
      svpeel (cmdStop_sv _ _ _)
      exact stopMarkedPrep_sv _ _ _
theorem armStopWaitKill_sv (s : Sys) (t i k) : SW M s (armStopWaitKill s t i k) := by
  unfold armStopWaitKill; split
  · exact (cmdStop_sv _ _ _).then (stopReturn_sv _ _ _)
  · exact stopReturn_sv _ _ _

theorem armSdEnter_sv (s : Sys) (t h k) : SW M s (armSdEnter s t h k) := by
  unfold armSdEnter; split
  · svupd (sdBody_sv _ _ _ _)
  · exact setPc_sv _ _ _
theorem armSdPrepared_sv (s : Sys) (t o k) : SW M s (armSdPrepared s t o k) := by
  unfold armSdPrepared; split
  · svpeel (setPc_sv _ _ _)
    apply foldl_sv
    intro s i
    exact SW.congr_left (spawn_sv _ _ (by intro i h; cases h)) (by svsame)
  · exact sdSeqNext_sv _ _ _ _

theorem armStopperBegin_sv (s : Sys) (t i) : SW M s (armStopperBegin s t i) := by
  unfold armStopperBegin
  simp only
  svpeel (setPc_sv _ _ _)
  apply foldl_sv
  intro s j
  exact SW.congr_left (spawn_sv _ _ (by intro i h; cases h)) (by svsame)

theorem stepStopper_sv (s : Sys) (t i pc) : SW M s (stepStopper s t i pc) := by
  cases pc <;> simp only [stepStopper] <;>
    first | exact SW.refl _ | exact armStopperBegin_sv _ _ _ | exact gotoStop_sv _ _ _ _ _
          | (svpeel (setPc_sv _ _ _); done_sv)
theorem stepWaiter_sv (s : Sys) (t i pc) : SW M s (stepWaiter s t i pc) := by
  cases pc <;> simp only [stepWaiter] <;>
    first | exact SW.refl _ | exact setPc_sv _ _ _ | (svpeel (setPc_sv _ _ _); done_sv)
theorem stepDepwaiter_sv (s : Sys) (t o i pc) : SW M s (stepDepwaiter s t o i pc) := by
  cases pc <;> simp only [stepDepwaiter] <;>
    first | exact SW.refl _ | exact setPc_sv _ _ _ | (svpeel (setPc_sv _ _ _); done_sv)

theorem armApiBegin_sv (s : Sys) (t h op) : SW M s (armApiBegin s t h op) := by
  unfold armApiBegin
  cases op <;> simp only <;> first
    | exact setPc_sv _ _ _
    | (split
       · exact apiFirst_sv _ _ _ _
       · exact setPc_sv _ _ _)
theorem armSpawnOrLock_sv (s : Sys) (t n) : SW M s (armSpawnOrLock s t n) := by
  unfold armSpawnOrLock; split
  · split
    · exact apiSpawn_sv _ _ _
    · exact setPc_sv _ _ _
  · exact apiRet_sv _ _ _
theorem stepApi_sv (s : Sys) (t h op pc) : SW M s (stepApi s t h op pc) := by
  cases pc <;> simp only [stepApi] <;>
    first | exact SW.refl _ | exact setPc_sv _ _ _ | exact armApiBegin_sv _ _ _ _ | exact apiFirst_sv _ _ _ _
          | exact armSpawnOrLock_sv _ _ _ | exact apiSpawn_sv _ _ _
          | exact (emit_sv _ _).then (setPc_sv _ _ _)
theorem armProbeBegin_sv (s : Sys) (t n) : SW M s (armProbeBegin s t n) := by
  unfold armProbeBegin; split
  · exact setPc_sv _ _ _
  · split
    · exact setPc_sv _ _ _
    · exact (setPs_sv _ _ _).then (gotoStop_sv _ _ _ _ _)

/-- the process whose goroutine thread `t` is -/
def ownName (s : Sys) (t : Tid) : Option Name :=
  match (s.thr t).kind with
  | .proc i => some (s.nameOf i)
  | _ => none

/-- **What a thread step can do to the reported statuses** (see `SW`). -/
theorem stepThread_sv (s : Sys) (t : Tid) (h : Hints) : SW (ownName s t) s (stepThread s t h) := by
  unfold stepThread
  simp only
  split
  · exact armStopEnter_sv _ _ _ _ _
  · exact armStopNotRunning_sv _ _ _ _
  · exact armStopChecked_sv _ _ _ _ _
  · exact armStopMarked_sv _ _ _ _ _
  · exact armStopWaitKill_sv _ _ _ _
  · exact armSdEnter_sv _ _ _ _
  · svupd (sdBody_sv _ _ _ _)
  · exact armSdPrepared_sv _ _ _ _
  · exact sdReturn_sv _ _ _
  · split
    · rename_i i hk
      exact stepProc_sv _ _ _ _ _ (by simp [ownName, hk])
    · exact stepApi_sv _ _ _ _ _
    · exact stepStopper_sv _ _ _ _
    · exact stepWaiter_sv _ _ _ _
    · exact stepDepwaiter_sv _ _ _ _ _
    · split
      · exact armProbeBegin_sv _ _ _
      · exact SW.refl _
    · split
      · exact (setInst_sv _ _ _).then (setPc_sv _ _ _)
      · exact SW.refl _

/-! ### the status at a launch -/

theorem setInst_cmd (s : Sys) (i j : IId) (f : Inst → Inst) (hf : ∀ x, (f x).cmd = x.cmd) : ((s.setInst i f).inst j).cmd = (s.inst j).cmd := by
  by_cases hl : j < s.insts.length
  · rw [inst_setInst _ _ _ _ hl]; split
    · exact hf _
    · rfl
  · have h1 := inst_default_cmd s j hl
    have h2 := inst_default_cmd (s.setInst i f) j (by simpa [Sys.setInst] using hl)
    rw [h1, h2]

/-- a launch leaves the process reported Running -/
theorem doLaunch_status (s : Sys) (t : Tid) (i : IId) (hn : s.nameOf i < s.pstates.length)
    (h1 : ((doLaunch s t i).inst i).cmd = .alive) (h2 : (s.inst i).cmd ≠ .alive) :
    ((doLaunch s t i).ps (s.nameOf i)).status = .running := by
  rcases doLaunch_cases s t i with q | _
  · exact absurd (q.alive i h1) h2
  · unfold doLaunch at h1 ⊢
    simp only at h1 ⊢
    split
    · rename_i hf
      simp only [hf, ↓reduceIte] at h1
      exfalso
      have q : QC s ((onProcessEnd (setExit ((setState s i .running).emit (.launchfail ((setState s i .running).nameOf i)))
          (((setState s i .running).emit (.launchfail ((setState s i .running).nameOf i))).nameOf i) 1) i .error).setPc t (.procRan 1)) := by
        cpeel (setPc_c _ _ _)
        cpeel (onProcessEnd_c _ _ _)
        cpeel (setExit_c _ _ _)
        cpeel (emit_c _ _)
        exact setState_c _ _ _
      exact h2 (q.alive i h1)
    · split <;> exact setState_status_self s i .running hn

theorem armRunChecked_status (s : Sys) (t : Tid) (i : IId) (hn : s.nameOf i < s.pstates.length)
    (h1 : ((armRunChecked s t i).inst i).cmd = .alive) (h2 : (s.inst i).cmd ≠ .alive) :
    ((armRunChecked s t i).ps (s.nameOf i)).status = .running := by
  unfold armRunChecked at h1 ⊢
  split
  · rename_i hb
    simp only [hb, ↓reduceIte] at h1
    exfalso
    have q : QC s ((onProcessEnd (setExit s (s.nameOf i) 1) i .error).setPc t (.procRan 1)) :=
      ((setExit_c _ _ _).then (onProcessEnd_c _ _ _)).then (setPc_c _ _ _)
    exact h2 (q.alive i h1)
  · rename_i hb
    simp only [hb, ↓reduceIte] at h1
    have hx : (((s.setInst i fun x => { x with started := true }).emit (.started (s.nameOf i))).nameOf i) = s.nameOf i := by
      rw [emit_nameOf, nameOf_setInst s i i _ (by intro x; rfl)]
    have := doLaunch_status ((s.setInst i fun x => { x with started := true }).emit (.started (s.nameOf i))) t i
      (by rw [hx]; exact hn) h1 (by rw [emit_inst, setInst_cmd _ _ _ _ (by intro x; rfl)]; exact h2)
    rw [hx] at this; exact this

/-- whichever thread step brings the command of `i` to life leaves its process reported Running -/
theorem stepThread_launch_status (s : Sys) (t : Tid) (h : Hints) (i : IId) (hk : (s.thr t).kind = .proc i)
    (hn : s.nameOf i < s.pstates.length)
    (h1 : ((stepThread s t h).inst i).cmd = .alive) (h2 : (s.inst i).cmd ≠ .alive) :
    ((stepThread s t h).ps (s.nameOf i)).status = .running := by
  cases hq : special s t with
  | false => exact absurd ((stepThread_c s t h hq).alive i h1) h2
  | true =>
    unfold special at hq
    rw [hk] at hq
    simp only at hq
    have hsd : (s.thr t).pc.isStopSd = false := by
      cases hs : (s.thr t).pc.isStopSd with
      | false => rfl
      | true => rw [stopSd_not_specialProc _ hs] at hq; cases hq
    rw [stepThread_proc s t h i hk hsd] at h1 ⊢
    generalize (s.thr t).pc = pc at hq h1 ⊢
    cases pc <;> simp [Pc.isSpecialProc] at hq
    · simp only [stepProc] at h1 ⊢; exact armRunChecked_status s t i hn h1 h2
    · simp only [stepProc] at h1 ⊢; exact doLaunch_status s t i hn h1 h2
    · simp only [stepProc] at h1
      exfalso
      have hi : (armLockCleanup s t i).insts = s.insts := by unfold armLockCleanup; split <;> rfl
      unfold Sys.inst at h1 h2; rw [hi] at h1; exact h2 h1

/-! ### the invariant -/

/-- the statuses that may be reported while a command of the process is alive -/
def aliveStatus (st : Status) : Bool := st == .running || st == .terminating

/-- **While a command of a process is alive the process is reported Running or Terminating** - never
    Completed, Skipped, Error, Pending, Restarting or Disabled. -/
def Truth (s : Sys) : Prop :=
  ∀ i, (s.inst i).cmd = .alive → s.nameOf i < s.pstates.length → aliveStatus (s.ps (s.nameOf i)).status = true

theorem pr_thread {s : Sys} (g : PR s) (k : IId) (hk : k < s.insts.length) : ∃ u, u < s.threads.length ∧ (s.thr u).kind = .proc k := by
  have hm : k ∈ procIds s := by rw [g]; exact List.mem_range.mpr hk
  unfold procIds at hm
  obtain ⟨th, hth, e⟩ := List.mem_filterMap.mp hm
  obtain ⟨u, hu, eu⟩ := List.getElem_of_mem hth
  refine ⟨u, hu, ?_⟩
  rw [thr_lt_eq s u hu, eu]
  cases hkk : th.kind <;> rw [hkk] at e <;> simp [Kind.procId] at e
  rw [e]

theorem truth_step (s : Sys) (t : Tid) (h : Hints) (ht : t < s.threads.length) (g : One s) (tr : Truth s)
    (k : KeepsRegs s (stepThread s t h) t) : Truth (stepThread s t h) := by
  have le := stepThread_le s t h
  have f := stepThread_facts s t h
  have sw := stepThread_sv s t h
  have g' := stepThread_one s t h ht g k
  by_cases hfin : (s.thr t).pc = .finished
  · rw [stepThread_finished s t h hfin]; exact tr
  intro i hi hn
  -- the instance existed before the step
  have hil : i < s.insts.length := by
    rcases f.alive i hi with h0 | ⟨hk, _⟩
    · apply Classical.byContradiction; intro hge
      rw [inst_default_cmd s i hge] at h0; cases h0
    · exact pr_valid g.pr t i ht hk
  have hname : (stepThread s t h).nameOf i = s.nameOf i := sw.names i hil
  rw [hname] at hn ⊢
  rw [sw.plen] at hn
  by_cases h0 : (s.inst i).cmd = .alive
  · have t0 := tr i h0 hn
    obtain ⟨u, hu, hku, hpu⟩ := g.alive i h0
    have ru := g.reg u i hu hku (by rw [hpu]; intro e; cases e)
    rcases sw.st (s.nameOf i) with e | e | e | ⟨_, k0, k1, k2, k3⟩
    · rw [e]; exact t0
    · rw [e]; rfl
    · -- the thread is a goroutine of this very process: then it is the goroutine of `i`, waiting
      unfold ownName at e
      cases hkt : (s.thr t).kind with
      | proc j =>
        rw [hkt] at e
        simp only [Option.some.injEq] at e
        have rj := g.reg t j ht hkt hfin
        rw [e, ru] at rj
        have hji : j = i := (Option.some.inj rj).symm
        subst hji
        have htu : t = u := pr_uniq g.pr t u j ht hu hkt hku
        subst htu
        rw [stepThread_waiting s t h j hkt hpu h0]; exact t0
      | _ => rw [hkt] at e; cases e
    · -- a new instance of this process was registered: impossible while `i` is registered
      exfalso
      obtain ⟨w, hw, hkw⟩ := pr_thread g'.pr k0 k2
      have hwnew : s.threads.length ≤ w := by
        apply Classical.byContradiction; intro hlt
        have hwl : w < s.threads.length := Nat.lt_of_not_le hlt
        have hkold : (s.thr w).kind = .proc k0 := by
          by_cases hwt : w = t
          · subst hwt
            rcases le.tkind with e | e
            · rw [← e]; exact hkw
            · exact absurd ht (Nat.not_lt.mpr e)
          · rw [← le.tframe w hwl hwt]; exact hkw
        exact absurd (pr_valid g.pr w k0 hwl hkold) (Nat.not_lt.mpr k1)
      have r2 := k.2 w k0 hwnew hw hkw
      rw [k3] at r2
      rcases k.1 _ _ ru with e | ⟨e, _⟩
      · rw [e] at r2
        have : i = k0 := Option.some.inj r2
        rw [this] at hil
        exact absurd hil (Nat.not_lt.mpr k1)
      · rw [e] at r2; cases r2
  · -- launched by this step
    rcases f.alive i hi with h1 | ⟨hk, _⟩
    · exact absurd h1 h0
    · rw [stepThread_launch_status s t h i hk hn hi h0]; rfl

theorem ext_status (s : Sys) (c : Choice) (h : Hints) (hc : ∀ t, c ≠ .run t) (n : Name) :
    ((step s c h).ps n).status = (s.ps n).status := by
  rw [step_eq_stepFrom]
  have h0 : (({ s with obs := [] } : Sys).ps n).status = (s.ps n).status := rfl
  rw [← h0]
  generalize ({ s with obs := [] } : Sys) = s0
  unfold stepFrom
  cases c with
  | run t => exact absurd rfl (hc t)
  | exit m code => simp only; split <;> rfl
  | line m ready =>
    simp only; split
    · split
      · simp only [emit_ps, setInst_ps]; exact status_keep _ _ _ (by intro p; rfl) n
      · rfl
    · rfl
  | probe m ok =>
    simp only; split
    · split
      · rfl
      · split
        · simp only [setInst_ps]; exact status_keep _ _ _ (by intro p; rfl) n
        · exact status_keep _ _ _ (by intro p; rfl) n
    · rfl
  | probeFatal id m => simp only; split <;> rfl
  | killTimeout m => simp only; split <;> rfl
  | call id op => rfl

theorem ext_truth (s : Sys) (c : Choice) (h : Hints) (hc : ∀ t, c ≠ .run t) (g : One s) (tr : Truth s) : Truth (step s c h) := by
  have q := ext_qc s c h hc
  have le := step_le s c h
  intro i hi hn
  have h0 := q.alive i hi
  have hil : i < s.insts.length := by
    apply Classical.byContradiction; intro hge
    rw [inst_default_cmd s i hge] at h0; cases h0
  have hname : (step s c h).nameOf i = s.nameOf i := nameOf_le le i hil
  have hpl : (step s c h).pstates.length = s.pstates.length := by
    rw [step_eq_stepFrom]
    have h0 : ({ s with obs := [] } : Sys).pstates.length = s.pstates.length := rfl
    rw [← h0]
    generalize ({ s with obs := [] } : Sys) = s0
    unfold stepFrom
    cases c with
    | run t => exact absurd rfl (hc t)
    | exit m code => simp only; split <;> rfl
    | line m ready =>
      simp only; split
      · split
        · simp
        · rfl
      · rfl
    | probe m ok =>
      simp only; split
      · split
        · rfl
        · split <;> simp
      · rfl
    | probeFatal id m => simp only; split <;> rfl
    | killTimeout m => simp only; split <;> rfl
    | call id op => rfl
  rw [hname] at hn ⊢
  rw [hpl] at hn
  rw [ext_status s c h hc]
  exact tr i h0 hn

/-- **In every state reachable without overwriting a registration, a process with a live command is
    reported Running or Terminating.** -/
theorem reachG_truth (gr : Gran) (o : Bool) (cfgs : List Cfg) {s : Sys} (h : ReachG (init gr o cfgs) s) : Truth s := by
  induction h with
  | init =>
    intro i hi _
    have : ((init gr o cfgs).inst i).cmd = .none := by unfold Sys.inst; simp [init]
    rw [this] at hi; cases hi
  | thread t hh hr ht _ hk ih => exact truth_step _ t hh ht (reachG_one gr o cfgs hr) ih hk
  | ext c hh hr hc ih => exact ext_truth _ c hh hc (reachG_one gr o cfgs hr) ih
  | clear _ ih => exact ih

end PC.Sup
