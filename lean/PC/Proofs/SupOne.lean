import PC.Proofs.SupTail
/-! C08, globally: at most one live command per process replica as long as no registration is ever
    overwritten (the overlap of two instances is the known finding R1).

    `QC`: what a *quiet* thread step leaves alone - the registry of running instances, the number of
    instances, the set of live commands (it may only shrink) and the process goroutines. Every arm of
    the model is quiet except the launch (`doLaunch`), the registration of a new instance
    (`spawnProc`) and the unregistration (`armLockCleanup`). Per-arm lemmas as in `SupInsts` / `SupRQ`. -/
namespace PC.Sup

/-- the instance a thread is the process goroutine of -/
def Kind.procId : Kind → Option IId
  | .proc i => some i
  | _ => none

/-- the instances of the process goroutines, in thread order -/
def procIds (s : Sys) : List IId := s.threads.filterMap fun th => th.kind.procId

structure QC (s s' : Sys) : Prop where
  running : s'.running = s.running
  ilen : s'.insts.length = s.insts.length
  alive : ∀ j, (s'.inst j).cmd = .alive → (s.inst j).cmd = .alive
  pids : procIds s' = procIds s
  tlen : s.threads.length ≤ s'.threads.length
  kinds : ∀ u, u < s.threads.length → (s'.thr u).kind = (s.thr u).kind
  newNP : ∀ u, s.threads.length ≤ u → u < s'.threads.length → ∀ k, (s'.thr u).kind ≠ .proc k
  launches : ∀ j, (s'.inst j).launches = (s.inst j).launches

theorem QC.refl (s : Sys) : QC s s :=
  ⟨rfl, rfl, fun _ h => h, rfl, Nat.le_refl _, fun _ _ => rfl, fun u h1 h2 => absurd h2 (Nat.not_lt.mpr h1), fun _ => rfl⟩
theorem QC.trans {a b c : Sys} (h1 : QC a b) (h2 : QC b c) : QC a c :=
  ⟨h2.running.trans h1.running, h2.ilen.trans h1.ilen, fun j h => h1.alive j (h2.alive j h), h2.pids.trans h1.pids,
   Nat.le_trans h1.tlen h2.tlen,
   fun u hu => (h2.kinds u (Nat.lt_of_lt_of_le hu h1.tlen)).trans (h1.kinds u hu),
   fun u hu hc k => by
     by_cases hb : u < b.threads.length
     · rw [h2.kinds u hb]; exact h1.newNP u hu hb k
     · exact h2.newNP u (Nat.le_of_not_lt hb) hc k,
   fun j => (h2.launches j).trans (h1.launches j)⟩

structure CSame (s s' : Sys) : Prop where
  running : s'.running = s.running
  insts : s'.insts = s.insts
  threads : s'.threads = s.threads

theorem QC.of_same {s s' : Sys} (h : CSame s s') : QC s s' :=
  ⟨h.running, by rw [h.insts], fun j hj => by unfold Sys.inst at hj ⊢; rw [h.insts] at hj; exact hj,
   by unfold procIds; rw [h.threads], by rw [h.threads]; exact Nat.le_refl _, fun u _ => by unfold Sys.thr; rw [h.threads],
   fun u h1 h2 => absurd h2 (by rw [h.threads]; exact Nat.not_lt.mpr h1),
   fun j => by unfold Sys.inst; rw [h.insts]⟩

macro "csame" : tactic => `(tactic| exact ⟨rfl, rfl, rfl⟩)

theorem inst_default_cmd (s : Sys) (j : IId) (hj : ¬ j < s.insts.length) : (s.inst j).cmd = .none := by
  rw [inst_default' s j (Nat.le_of_not_lt hj)]

/-- an update of one instance record that does not bring a command to life (nor counts a launch) -/
theorem setInst_c (s : Sys) (i : IId) (f : Inst → Inst)
    (hf : ∀ x, ((f x).cmd = .alive → x.cmd = .alive) ∧ (f x).launches = x.launches := by
      intro x; exact ⟨fun h => (by first | exact h | cases h), rfl⟩) : QC s (s.setInst i f) := by
  refine ⟨rfl, by simp [Sys.setInst], fun j hj => ?_, rfl, Nat.le_refl _, fun _ _ => rfl, fun u h1 h2 => absurd h2 (Nat.not_lt.mpr h1), fun j => ?_⟩
  · by_cases hl : j < s.insts.length
    · rw [inst_setInst _ _ _ _ hl] at hj
      split at hj
      · exact (hf _).1 hj
      · exact hj
    · have : ¬ j < (s.setInst i f).insts.length := by simpa [Sys.setInst] using hl
      rw [inst_default_cmd _ _ this] at hj; cases hj
  · by_cases hl : j < s.insts.length
    · rw [inst_setInst _ _ _ _ hl]
      split
      · exact (hf _).2
      · rfl
    · have h1 := inst_default' s j (Nat.le_of_not_lt hl)
      have h2 := inst_default' (s.setInst i f) j (by simpa [Sys.setInst] using Nat.le_of_not_lt hl)
      rw [h1, h2]
theorem emit_c (s : Sys) (o) : QC s (s.emit o) := QC.of_same (by csame)
theorem note_c (s : Sys) (e : GateEv) (_he : ∀ i d c, e ≠ .passed i d c) : QC s (s.note e) := QC.of_same (by csame)
theorem notePassed_c (s : Sys) (i d : IId) (c : Cond) : QC s (s.notePassed i d c) := by
  unfold Sys.notePassed; split
  · exact QC.of_same (by csame)
  · exact QC.refl _

theorem filterMap_modify_same {α β : Type} (g : α → Option β) (f : α → α) (hf : ∀ a, g (f a) = g a) (l : List α) (n : Nat) :
    (l.modify n f).filterMap g = l.filterMap g := by
  induction l generalizing n with
  | nil => simp
  | cons a l ih =>
    cases n with
    | zero => simp [List.filterMap_cons, hf]
    | succ n => simp [List.filterMap_cons, ih]

theorem procIds_setPc (s : Sys) (t : Tid) (pc : Pc) : procIds (s.setPc t pc) = procIds s := by
  unfold procIds Sys.setPc
  exact filterMap_modify_same (fun th : Thr => th.kind.procId) (fun th => { th with pc := pc }) (fun _ => rfl) s.threads t

theorem setPc_c (s : Sys) (t pc) : QC s (s.setPc t pc) :=
  ⟨rfl, rfl, fun _ h => h, procIds_setPc s t pc, by simp [Sys.setPc],
   fun u _ => by
     by_cases e : u = t
     · subst e; exact thr_setPc_kind s u pc
     · rw [thr_setPc_ne s t u pc e],
   fun u h1 h2 => absurd h2 (by simpa [Sys.setPc] using Nat.not_lt.mpr h1), fun _ => rfl⟩
/-- a new thread that is not a process goroutine -/
theorem spawn_c (s : Sys) (k) (hk : ∀ i, k = .proc i → False) : QC s (s.spawn k) := by
  refine ⟨rfl, rfl, fun _ h => h, ?_, by simp [Sys.spawn], fun u hu => ?_, fun u h1 h2 j => ?_, fun _ => rfl⟩
  · unfold procIds Sys.spawn
    simp only [List.filterMap_append, List.filterMap_cons, List.filterMap_nil]
    cases k <;> simp [Kind.procId] <;> exact (hk _ rfl).elim
  · unfold Sys.thr Sys.spawn
    simp only [List.getD_eq_getElem?_getD]
    rw [List.getElem?_append_left hu]
  · have hu : u = s.threads.length := by
      simp only [Sys.spawn, List.length_append, List.length_singleton] at h2
      exact Nat.le_antisymm (Nat.le_of_lt_succ h2) h1
    subst hu
    unfold Sys.thr Sys.spawn
    simp only [List.getD_eq_getElem?_getD, List.getElem?_append_right (Nat.le_refl _), Nat.sub_self]
    intro e
    exact hk j (by simpa using e)

theorem setPs_c (s : Sys) (n : Name) (f : PState → PState) : QC s (s.setPs n f) := QC.of_same (by csame)

theorem QC.then {a b c : Sys} (h1 : QC a b) (h2 : QC b c) : QC a c := h1.trans h2
theorem QC.congr_left {s0 s s' : Sys} (h : QC s s') (e : CSame s0 s) : QC s0 s' := (QC.of_same e).trans h
theorem QC.congr {s s' s'' : Sys} (h : QC s s') (e : CSame s' s'') : QC s s'' := h.trans (QC.of_same e)

macro "cpeel " t:term : tactic => `(tactic| refine QC.trans ?_ $t)
macro "cupd " t:term : tactic => `(tactic| exact QC.congr_left $t (by csame))
macro "done_c" : tactic => `(tactic| first | exact QC.refl _ | exact QC.of_same (by csame))

/-! ### helpers -/

theorem setState_c (s : Sys) (i st) : QC s (setState s i st) := by
  unfold setState
  simp only
  cases st <;> simp only <;>
    first
    | exact (setPs_c _ _ _).then (emit_c _ _)
    | exact ((setPs_c _ _ _).then (emit_c _ _)).then (setPs_c _ _ _)
    | exact (((setPs_c _ _ _).then (emit_c _ _)).then (setPs_c _ _ _)).then (emit_c _ _)

theorem setExit_c (s : Sys) (n c) : QC s (setExit s n c) := by
  unfold setExit; exact (setPs_c _ _ _).then (emit_c _ _)

theorem recordExit_c (s : Sys) (c) : QC s (recordExit s c) := by
  unfold recordExit
  split
  · exact QC.refl _
  · cpeel (emit_c _ _)
    exact QC.of_same (by csame)

theorem onProcessEnd_c (s : Sys) (i st) : QC s (onProcessEnd s i st) := by
  unfold onProcessEnd
  exact ((setInst_c s i endInst).then (setState_c _ _ _)).then (emit_c _ _)

theorem cmdExit_c (s : Sys) (i c) : QC s (cmdExit s i c) := setInst_c _ _ _

theorem cmdStop_c (s : Sys) (i sig) : QC s (cmdStop s i sig) := by
  unfold cmdStop
  simp only
  split
  · split
    · exact (emit_c _ _).then (cmdExit_c _ _ _)
    · split
      · exact (emit_c _ _).then (cmdExit_c _ _ _)
      · exact emit_c _ _
  · exact emit_c _ _

theorem decideRestart_c (s : Sys) (i) : QC s (decideRestart s i).2 := setInst_c _ _ _

theorem gotoCleanup_c (s : Sys) (t) : QC s (gotoCleanup s t) := by
  unfold gotoCleanup; cpeel (setPc_c _ _ _); done_c

theorem gotoStop_c (s : Sys) (t i cr k) : QC s (gotoStop s t i cr k) := by
  unfold gotoStop
  exact (setInst_c _ _ _).then (setPc_c _ _ _)

theorem apiRet_c (s : Sys) (t r) : QC s (apiRet s t r) := by
  unfold apiRet; split
  · exact (emit_c _ _).then (setPc_c _ _ _)
  all_goals exact setPc_c _ _ _

theorem addDone_c (s : Sys) (i : IId) : QC s (addDone s i) := by
  unfold addDone; done_c
theorem doSkip_c (s : Sys) (t i) : QC s (doSkip s t i) := by
  unfold doSkip; exact (addDone_c _ _).then ((onProcessEnd_c _ _ _).then (setPc_c _ _ _))

theorem afterDeps_c (s : Sys) (t) : QC s (afterDeps s t) := setPc_c _ _ _

theorem lookupRunning_c (s : Sys) (t i k c r) : QC s (lookupRunning s t i k c r) := by
  unfold lookupRunning; split
  · exact ((note_c _ _ (by intro _ _ _ h; cases h)).then (emit_c _ _)).then (setPc_c _ _ _)
  · exact ((note_c _ _ (by intro _ _ _ h; cases h)).then (emit_c _ _)).then (setPc_c _ _ _)

theorem depStep_c (s : Sys) (t i h r) : QC s (depStep s t i h r) := by
  unfold depStep
  split
  · exact afterDeps_c _ _
  · simp only
    split
    · exact (((emit_c _ _).then (note_c _ _ (by intro _ _ _ h; cases h))).then (emit_c _ _)).then (setPc_c _ _ _)
    · split
      · exact (emit_c _ _).then (lookupRunning_c _ _ _ _ _ _)
      · exact (emit_c _ _).then (setPc_c _ _ _)

theorem foldl_c {α : Type} (f : Sys → α → Sys) (hf : ∀ s a, QC s (f s a)) (l : List α) (s : Sys) :
    QC s (l.foldl f s) := by
  induction l generalizing s with
  | nil => exact QC.refl _
  | cons a l ih => exact (hf s a).then (ih _)

theorem sdBody_c (s : Sys) (t h k) : QC s (sdBody s t h k) := by
  unfold sdBody
  simp only
  cpeel (setPc_c _ _ _)
  cupd (foldl_c _ (fun s i => setInst_c _ _ _) _ _)

theorem sdSeqNext_c (s : Sys) (t r k) : QC s (sdSeqNext s t r k) := by
  unfold sdSeqNext; split
  · exact setPc_c _ _ _
  · exact gotoStop_c _ _ _ _ _

theorem sdReturn_c (s : Sys) (t k) : QC s (sdReturn s t k) := by
  unfold sdReturn
  simp only
  split
  · split
    · cpeel (setPc_c _ _ _); cpeel (emit_c _ _); cpeel (emit_c _ _); done_c
    all_goals (cpeel (setPc_c _ _ _); cpeel (emit_c _ _); done_c)
  · cpeel (gotoCleanup_c _ _); cpeel (emit_c _ _); done_c
  · cpeel (gotoCleanup_c _ _); cpeel (emit_c _ _); done_c

theorem stopReturn_c (s : Sys) (t k) : QC s (stopReturn s t k) := by
  unfold stopReturn
  split
  · split
    · exact (emit_c _ _).then (setPc_c _ _ _)
    all_goals exact setPc_c _ _ _
  · exact setPc_c _ _ _
  · cpeel (sdSeqNext_c _ _ _ _)
    cupd (spawn_c _ _ (by intro i h; cases h))
  · exact setPc_c _ _ _
  · exact setPc_c _ _ _

theorem apiFirst_c (s : Sys) (t h op) (hop : op ≠ .runMain) : QC s (apiFirst s t h op) := by
  unfold apiFirst
  cases op with
  | start n => simp only; split <;> first | exact apiRet_c _ _ _ | exact setPc_c _ _ _
  | stop n =>
    simp only; split
    · exact (setInst_c _ _ _).then (gotoStop_c _ _ _ _ _)
    · split <;> exact apiRet_c _ _ _
  | restart n =>
    simp only; split
    · exact (setInst_c _ _ _).then (gotoStop_c _ _ _ _ _)
    · split
      · exact setPc_c _ _ _
      · exact apiRet_c _ _ _
  | state n => simp only; split <;> exact apiRet_c _ _ _
  | shutdown => exact setPc_c _ _ _
  | runMain => exact absurd rfl hop

/-! ### the arms -/

theorem armDepLookup_c (s : Sys) (t d c r) : QC s (armDepLookup s t d c r) := by
  unfold armDepLookup; cases c <;> exact setPc_c _ _ _
theorem armWaitDone_c (s : Sys) (t i d ok r) : QC s (armWaitDone s t i d ok r) := by
  unfold armWaitDone; split
  · exact doSkip_c _ _ _
  · exact (notePassed_c _ _ _ _).then (setPc_c _ _ _)
theorem armWaitReady_c (s : Sys) (t i d r) : QC s (armWaitReady s t i d r) := by
  unfold armWaitReady; split
  · exact (notePassed_c _ _ _ _).then (setPc_c _ _ _)
  · exact doSkip_c _ _ _
theorem armWaitLogReady_c (s : Sys) (t i d r) : QC s (armWaitLogReady s t i d r) := by
  unfold armWaitLogReady; split
  · exact (notePassed_c _ _ _ _).then (setPc_c _ _ _)
  · exact doSkip_c _ _ _
theorem armProcSkipped_c (s : Sys) (t i) : QC s (armProcSkipped s t i) := by
  unfold armProcSkipped; split
  · exact (recordExit_c _ _).then (setPc_c _ _ _)
  · exact gotoCleanup_c _ _
theorem armRunEnter_c (s : Sys) (t i) : QC s (armRunEnter s t i) := by
  unfold armRunEnter; split
  · exact (onProcessEnd_c _ _ _).then (setPc_c _ _ _)
  · exact setPc_c _ _ _
theorem armCmdWait_c (s : Sys) (t i) : QC s (armCmdWait s t i) := by
  unfold armCmdWait; split
  · exact (setExit_c _ _ _).then (setPc_c _ _ _)
  · exact QC.refl _
theorem armRunExited_c (s : Sys) (t i) : QC s (armRunExited s t i) := by
  unfold armRunExited
  simp only
  refine (decideRestart_c s i).then ?_
  split
  · exact (((setState_c _ _ _).then (setPs_c _ _ _)).then (emit_c _ _)).then (setPc_c _ _ _)
  · exact (onProcessEnd_c _ _ _).then (setPc_c _ _ _)
theorem armBackoff_c (s : Sys) (t i) : QC s (armBackoff s t i) := by
  unfold armBackoff; split
  · exact (onProcessEnd_c _ _ _).then (setPc_c _ _ _)
  · exact setPc_c _ _ _
theorem armProcRan_c (s : Sys) (t i c) : QC s (armProcRan s t i c) := by
  unfold armProcRan; cpeel (setPc_c _ _ _); done_c
theorem armProcDoneAdded_c (s : Sys) (t i c) : QC s (armProcDoneAdded s t i c) := by
  unfold armProcDoneAdded; simp only; split
  · exact (recordExit_c _ _).then (setPc_c _ _ _)
  · exact gotoCleanup_c _ _
/-- the labels of a process goroutine at which it launches its command or unregisters itself -/
def Pc.isSpecialProc : Pc → Bool
  | .runChecked | .backoffElapsed | .lockCleanup => true
  | _ => false

theorem stepProc_c (s : Sys) (t i h pc) (hpc : pc.isSpecialProc = false) : QC s (stepProc s t i h pc) := by
  cases pc
  case runChecked => cases hpc
  case backoffElapsed => cases hpc
  case lockCleanup => cases hpc
  all_goals simp only [stepProc]
  case begin => exact setPc_c _ _ _
  case depNext rest => exact depStep_c _ _ _ _ _
  case lockDep k c rest => exact lookupRunning_c _ _ _ _ _ _
  case depLookup d c rest => exact armDepLookup_c _ _ _ _ _
  case waitDone d ok rest => exact armWaitDone_c _ _ _ _ _ _
  case waitReady d rest => exact armWaitReady_c _ _ _ _ _
  case waitLogReady d rest => exact armWaitLogReady_c _ _ _ _ _
  case waitStarted d rest => exact (notePassed_c _ _ _ _).then (setPc_c _ _ _)
  case procSkipped => exact armProcSkipped_c _ _ _
  case runEnter => exact armRunEnter_c _ _ _
  case cmdWait => exact armCmdWait_c _ _ _
  case runExited => exact armRunExited_c _ _ _
  case backoff => exact armBackoff_c _ _ _
  case procRan c => exact armProcRan_c _ _ _ _
  case procDoneAdded c => exact armProcDoneAdded_c _ _ _ _
  all_goals exact QC.refl _

theorem armStopEnter_c (s : Sys) (t i cr k) : QC s (armStopEnter s t i cr k) := by
  unfold armStopEnter; split <;> exact setPc_c _ _ _
theorem armStopNotRunning_c (s : Sys) (t i k) : QC s (armStopNotRunning s t i k) := by
  unfold armStopNotRunning; simp only; split
  · exact (onProcessEnd_c _ _ _).then (stopReturn_c _ _ _)
  · exact stopReturn_c _ _ _
theorem armStopChecked_c (s : Sys) (t i cr k) : QC s (armStopChecked s t i cr k) := by
  unfold armStopChecked; exact (setState_c _ _ _).then (setPc_c _ _ _)

theorem stopMarkedPrep_c (s : Sys) (i cr) : QC s (stopMarkedPrep s i cr) := by
  unfold stopMarkedPrep
  exact setInst_c _ _ _

theorem armStopMarked_c (s : Sys) (t i cr k) : QC s (armStopMarked s t i cr k) := by
  unfold armStopMarked
  simp only
  split
  · cpeel (stopReturn_c _ _ _)
    exact stopMarkedPrep_c _ _ _
  · split
    · cpeel (setPc_c _ _ _)
      cpeel (setInst_c _ _ _)
      cpeel (cmdStop_c _ _ _)
      exact stopMarkedPrep_c _ _ _
    · cpeel (stopReturn_c _ _ _)
      cpeel (cmdStop_c _ _ _)
      exact stopMarkedPrep_c _ _ _
theorem armStopWaitKill_c (s : Sys) (t i k) : QC s (armStopWaitKill s t i k) := by
  unfold armStopWaitKill; split
  · exact (cmdStop_c _ _ _).then (stopReturn_c _ _ _)
  · exact stopReturn_c _ _ _

theorem armSdEnter_c (s : Sys) (t h k) : QC s (armSdEnter s t h k) := by
  unfold armSdEnter; split
  · cupd (sdBody_c _ _ _ _)
  · exact setPc_c _ _ _
theorem armSdPrepared_c (s : Sys) (t o k) : QC s (armSdPrepared s t o k) := by
  unfold armSdPrepared; split
  · cpeel (setPc_c _ _ _)
    apply foldl_c
    intro s i
    exact QC.congr_left (spawn_c _ _ (by intro i h; cases h)) (by csame)
  · exact sdSeqNext_c _ _ _ _

theorem armStopperBegin_c (s : Sys) (t i) : QC s (armStopperBegin s t i) := by
  unfold armStopperBegin
  simp only
  cpeel (setPc_c _ _ _)
  apply foldl_c
  intro s j
  exact QC.congr_left (spawn_c _ _ (by intro i h; cases h)) (by csame)

theorem stepStopper_c (s : Sys) (t i pc) : QC s (stepStopper s t i pc) := by
  cases pc <;> simp only [stepStopper] <;>
    first | exact QC.refl _ | exact armStopperBegin_c _ _ _ | exact gotoStop_c _ _ _ _ _
          | (cpeel (setPc_c _ _ _); done_c)
theorem stepWaiter_c (s : Sys) (t i pc) : QC s (stepWaiter s t i pc) := by
  cases pc <;> simp only [stepWaiter] <;>
    first | exact QC.refl _ | exact setPc_c _ _ _ | (cpeel (setPc_c _ _ _); done_c)
theorem stepDepwaiter_c (s : Sys) (t o i pc) : QC s (stepDepwaiter s t o i pc) := by
  cases pc <;> simp only [stepDepwaiter] <;>
    first | exact QC.refl _ | exact setPc_c _ _ _ | (cpeel (setPc_c _ _ _); done_c)

theorem armApiBegin_c (s : Sys) (t h op) (hop : op ≠ .runMain) : QC s (armApiBegin s t h op) := by
  unfold armApiBegin
  cases op with
  | runMain => exact absurd rfl hop
  | shutdown => exact setPc_c _ _ _
  | start n => simp only; split <;> first | exact apiFirst_c _ _ _ _ (by intro e; cases e) | exact setPc_c _ _ _
  | stop n => simp only; split <;> first | exact apiFirst_c _ _ _ _ (by intro e; cases e) | exact setPc_c _ _ _
  | restart n => simp only; split <;> first | exact apiFirst_c _ _ _ _ (by intro e; cases e) | exact setPc_c _ _ _
  | state n => simp only; split <;> first | exact apiFirst_c _ _ _ _ (by intro e; cases e) | exact setPc_c _ _ _

/-- the labels of a request thread at which it registers new instances (given its request) -/
def specialApi (op : ApiOp) : Pc → Bool
  | .startChecked _ | .restartSlept _ | .lockSpawn _ => true
  | .begin => op == .runMain
  | .apiLock op' => op' == .runMain
  | _ => false

theorem stepApi_c (s : Sys) (t h op pc) (hpc : specialApi op pc = false) : QC s (stepApi s t h op pc) := by
  cases pc
  case startChecked => cases hpc
  case restartSlept => cases hpc
  case lockSpawn => cases hpc
  case begin =>
    simp only [stepApi]
    exact armApiBegin_c _ _ _ _ (by intro e; subst e; simp [specialApi] at hpc)
  case apiLock op' =>
    simp only [stepApi]
    exact apiFirst_c _ _ _ _ (by intro e; subst e; simp [specialApi] at hpc)
  all_goals simp only [stepApi]
  all_goals first | exact QC.refl _ | exact setPc_c _ _ _ | exact (emit_c _ _).then (setPc_c _ _ _)

theorem armProbeBegin_c (s : Sys) (t n) : QC s (armProbeBegin s t n) := by
  unfold armProbeBegin; split
  · exact setPc_c _ _ _
  · split
    · exact setPc_c _ _ _
    · exact (setPs_c _ _ _).then (gotoStop_c _ _ _ _ _)

/-- the steps that are not quiet: a process goroutine launching or unregistering, a request thread
    registering -/
def special (s : Sys) (t : Tid) : Bool :=
  match (s.thr t).kind with
  | .proc _ => (s.thr t).pc.isSpecialProc
  | .api _ op => specialApi op (s.thr t).pc
  | _ => false

theorem stopSd_not_specialProc (pc : Pc) (h : pc.isStopSd = true) : pc.isSpecialProc = false := by
  cases pc <;> simp_all [Pc.isStopSd, Pc.isSpecialProc]

/-- **Every other thread step is quiet.** -/
theorem stepThread_c (s : Sys) (t : Tid) (h : Hints) (hq : special s t = false) : QC s (stepThread s t h) := by
  unfold stepThread
  simp only
  split
  · exact armStopEnter_c _ _ _ _ _
  · exact armStopNotRunning_c _ _ _ _
  · exact armStopChecked_c _ _ _ _ _
  · exact armStopMarked_c _ _ _ _ _
  · exact armStopWaitKill_c _ _ _ _
  · exact armSdEnter_c _ _ _ _
  · cupd (sdBody_c _ _ _ _)
  · exact armSdPrepared_c _ _ _ _
  · exact sdReturn_c _ _ _
  · split
    · rename_i i hk
      exact stepProc_c _ _ _ _ _ (by simpa [special, hk] using hq)
    · rename_i id op hk
      exact stepApi_c _ _ _ _ _ (by simpa [special, hk] using hq)
    · exact stepStopper_c _ _ _ _
    · exact stepWaiter_c _ _ _ _
    · exact stepDepwaiter_c _ _ _ _ _
    · split
      · exact armProbeBegin_c _ _ _
      · exact QC.refl _
    · split
      · exact (setInst_c _ _ _).then (setPc_c _ _ _)
      · exact QC.refl _

/-! ### the three kinds of steps that are not quiet -/

/-- the process goroutines are exactly one per instance, in order of creation -/
def PR (s : Sys) : Prop := procIds s = List.range s.insts.length

/-- what every thread step guarantees about live commands, process goroutines and the thread's own label -/
structure StepFacts (s s' : Sys) (t : Tid) : Prop where
  pr : PR s → PR s'
  alive : ∀ j, (s'.inst j).cmd = .alive → (s.inst j).cmd = .alive ∨
    ((s.thr t).kind = .proc j ∧ (t < s.threads.length → (s'.thr t).pc = .cmdWait))
  fin : ∀ i, (s.thr t).kind = .proc i → s'.running ≠ s.running → t < s.threads.length → (s'.thr t).pc = .finished
  launches : ∀ j, (s'.inst j).launches = (s.inst j).launches ∨
    ((s.thr t).kind = .proc j ∧ (s'.inst j).launches = (s.inst j).launches + 1 ∧
      ((s.thr t).pc = .runChecked ∨ (s.thr t).pc = .backoffElapsed) ∧ (t < s.threads.length → (s'.thr t).pc = .cmdWait))

theorem QC.facts {s s' : Sys} (t : Tid) (h : QC s s') : StepFacts s s' t :=
  ⟨fun g => by unfold PR at g ⊢; rw [h.pids, h.ilen]; exact g, fun j hj => Or.inl (h.alive j hj),
   fun _ _ hr => absurd h.running hr, fun j => Or.inl (h.launches j)⟩

/-- like `QC`, except that the command of instance `i` may have been brought to life -/
structure LQ (i : IId) (s s' : Sys) : Prop where
  running : s'.running = s.running
  ilen : s'.insts.length = s.insts.length
  alive : ∀ j, (s'.inst j).cmd = .alive → (s.inst j).cmd = .alive ∨ j = i
  pids : procIds s' = procIds s
  tlen : s.threads.length ≤ s'.threads.length
  kinds : ∀ u, u < s.threads.length → (s'.thr u).kind = (s.thr u).kind
  newNP : ∀ u, s.threads.length ≤ u → u < s'.threads.length → ∀ k, (s'.thr u).kind ≠ .proc k
  launches : ∀ j, (s'.inst j).launches = (s.inst j).launches ∨ (j = i ∧ (s'.inst j).launches = (s.inst j).launches + 1)

theorem LQ.after {i : IId} {a b c : Sys} (h1 : QC a b) (h2 : LQ i b c) : LQ i a c :=
  ⟨h2.running.trans h1.running, h2.ilen.trans h1.ilen, fun j hj => (h2.alive j hj).imp (h1.alive j) id, h2.pids.trans h1.pids,
   Nat.le_trans h1.tlen h2.tlen,
   fun u hu => (h2.kinds u (Nat.lt_of_lt_of_le hu h1.tlen)).trans (h1.kinds u hu),
   fun u hu hc k => by
     by_cases hb : u < b.threads.length
     · rw [h2.kinds u hb]; exact h1.newNP u hu hb k
     · exact h2.newNP u (Nat.le_of_not_lt hb) hc k,
   fun j => by
     rcases h2.launches j with e | ⟨e1, e2⟩
     · exact Or.inl (e.trans (h1.launches j))
     · exact Or.inr ⟨e1, by rw [e2, h1.launches j]⟩⟩
theorem LQ.before {i : IId} {a b c : Sys} (h1 : LQ i a b) (h2 : QC b c) : LQ i a c :=
  ⟨h2.running.trans h1.running, h2.ilen.trans h1.ilen, fun j hj => h1.alive j (h2.alive j hj), h2.pids.trans h1.pids,
   Nat.le_trans h1.tlen h2.tlen,
   fun u hu => (h2.kinds u (Nat.lt_of_lt_of_le hu h1.tlen)).trans (h1.kinds u hu),
   fun u hu hc k => by
     by_cases hb : u < b.threads.length
     · rw [h2.kinds u hb]; exact h1.newNP u hu hb k
     · exact h2.newNP u (Nat.le_of_not_lt hb) hc k,
   fun j => by
     rcases h1.launches j with e | ⟨e1, e2⟩
     · exact Or.inl ((h2.launches j).trans e)
     · exact Or.inr ⟨e1, by rw [h2.launches j, e2]⟩⟩

theorem setInst_lq (s : Sys) (i : IId) (f : Inst → Inst)
    (hl : ∀ x, (f x).launches = x.launches ∨ (f x).launches = x.launches + 1) : LQ i s (s.setInst i f) := by
  refine ⟨rfl, by simp [Sys.setInst], fun j hj => ?_, rfl, Nat.le_refl _, fun _ _ => rfl, fun u h1 h2 => absurd h2 (Nat.not_lt.mpr h1), fun j => ?_⟩
  · by_cases e : j = i
    · exact Or.inr e
    · left
      by_cases hl : j < s.insts.length
      · rw [inst_setInst _ _ _ _ hl] at hj
        simp only [Ne.symm e, ↓reduceIte] at hj
        exact hj
      · have : ¬ j < (s.setInst i f).insts.length := by simpa [Sys.setInst] using hl
        rw [inst_default_cmd _ _ this] at hj; cases hj
  · by_cases hlt : j < s.insts.length
    · rw [inst_setInst _ _ _ _ hlt]
      split
      · rename_i e
        rcases hl (s.inst j) with h | h
        · exact Or.inl h
        · exact Or.inr ⟨e.symm, h⟩
      · exact Or.inl rfl
    · left
      have h1 := inst_default' s j (Nat.le_of_not_lt hlt)
      have h2 := inst_default' (s.setInst i f) j (by simpa [Sys.setInst] using Nat.le_of_not_lt hlt)
      rw [h1, h2]

theorem clock_c (s : Sys) (k : Nat) : QC s { s with launchClock := k } := QC.of_same (by csame)

/-- the launch block: a failed start is quiet; a successful one brings the command of `i` to life
    and leaves the goroutine waiting for it -/
theorem doLaunch_cases (s : Sys) (t : Tid) (i : IId) :
    QC s (doLaunch s t i) ∨ (LQ i s (doLaunch s t i) ∧ (t < s.threads.length → ((doLaunch s t i).thr t).pc = .cmdWait)) := by
  unfold doLaunch
  simp only
  split
  · left
    cpeel (setPc_c _ _ _)
    cpeel (onProcessEnd_c _ _ _)
    cpeel (setExit_c _ _ _)
    cpeel (emit_c _ _)
    exact setState_c _ _ _
  · right
    split
    · constructor
      · refine LQ.before ?_ (setPc_c _ _ _)
        refine LQ.before ?_ (spawn_c _ _ (by intro i h; cases h))
        refine LQ.after ?_ (setInst_lq _ _ _ (fun _ => Or.inr rfl))
        exact ((setState_c s i .running).then (emit_c _ _)).then (clock_c _ _)
      · intro ht
        exact pc_setPc _ _ _ (by simp [Sys.spawn]; exact Nat.lt_succ_of_lt ht)
    · constructor
      · refine LQ.before ?_ (setPc_c _ _ _)
        refine LQ.after ?_ (setInst_lq _ _ _ (fun _ => Or.inr rfl))
        exact ((setState_c s i .running).then (emit_c _ _)).then (clock_c _ _)
      · intro ht
        exact pc_setPc _ _ _ (by simpa using ht)

theorem lq_facts {s s' : Sys} {t : Tid} {i : IId} (hk : (s.thr t).kind = .proc i) (h : LQ i s s')
    (hp : t < s.threads.length → (s'.thr t).pc = .cmdWait)
    (hpc : (s.thr t).pc = .runChecked ∨ (s.thr t).pc = .backoffElapsed) : StepFacts s s' t :=
  ⟨fun g => by unfold PR at g ⊢; rw [h.pids, h.ilen]; exact g,
   fun j hj => (h.alive j hj).imp id (fun e => by subst e; exact ⟨hk, hp⟩),
   fun _ _ hr => absurd h.running hr,
   fun j => (h.launches j).imp id (fun e => by obtain ⟨e1, e2⟩ := e; subst e1; exact ⟨hk, e2, hpc, hp⟩)⟩

theorem doLaunch_facts (s : Sys) (t : Tid) (i : IId) (hk : (s.thr t).kind = .proc i)
    (hpc : (s.thr t).pc = .backoffElapsed) : StepFacts s (doLaunch s t i) t := by
  rcases doLaunch_cases s t i with h | ⟨h, hp⟩
  · exact h.facts t
  · exact lq_facts hk h hp (Or.inr hpc)

theorem armRunChecked_facts (s : Sys) (t : Tid) (i : IId) (hk : (s.thr t).kind = .proc i)
    (hpc : (s.thr t).pc = .runChecked) : StepFacts s (armRunChecked s t i) t := by
  unfold armRunChecked
  split
  · exact (((setExit_c _ _ _).then (onProcessEnd_c _ _ _)).then (setPc_c _ _ _)).facts t
  · have h0 : QC s ((s.setInst i fun x => { x with started := true }).emit (.started (s.nameOf i))) :=
      (setInst_c _ _ _).then (emit_c _ _)
    rcases doLaunch_cases ((s.setInst i fun x => { x with started := true }).emit (.started (s.nameOf i))) t i with h | ⟨h, hp⟩
    · exact (h0.then h).facts t
    · exact lq_facts hk (LQ.after h0 h) (fun ht => hp (by simpa using ht)) (Or.inl hpc)

/-- the unregistration: nothing but the registry and the goroutine's own label changes, and the
    goroutine has finished -/
theorem armLockCleanup_facts (s : Sys) (t : Tid) (i : IId) : StepFacts s (armLockCleanup s t i) t := by
  have hi : (armLockCleanup s t i).insts = s.insts := by unfold armLockCleanup; split <;> rfl
  have hp : procIds (armLockCleanup s t i) = procIds s := by
    unfold armLockCleanup; split
    · exact procIds_setPc _ _ _
    · exact procIds_setPc _ _ _
  refine ⟨fun g => by unfold PR at g ⊢; rw [hp, hi]; exact g, fun j hj => Or.inl ?_, fun _ _ _ ht => ?_,
    fun j => Or.inl (by unfold Sys.inst; rw [hi])⟩
  · unfold Sys.inst at hj ⊢; rw [hi] at hj; exact hj
  · unfold armLockCleanup; split
    · exact pc_setPc _ _ _ (by simpa using ht)
    · exact pc_setPc _ _ _ ht

/-- registering steps: no command comes to life, and the goroutines stay one per instance -/
structure SQ (s s' : Sys) : Prop where
  alive : ∀ j, (s'.inst j).cmd = .alive → (s.inst j).cmd = .alive
  pr : PR s → PR s'
  launches : ∀ j, (s'.inst j).launches = (s.inst j).launches

theorem SQ.trans {a b c : Sys} (h1 : SQ a b) (h2 : SQ b c) : SQ a c :=
  ⟨fun j hj => h1.alive j (h2.alive j hj), fun g => h2.pr (h1.pr g), fun j => (h2.launches j).trans (h1.launches j)⟩
theorem QC.sq {s s' : Sys} (h : QC s s') : SQ s s' :=
  ⟨h.alive, fun g => by unfold PR at g ⊢; rw [h.pids, h.ilen]; exact g, h.launches⟩
theorem SQ.facts {s s' : Sys} (t : Tid) (h : SQ s s') (hk : ∀ i, (s.thr t).kind ≠ .proc i) : StepFacts s s' t :=
  ⟨h.pr, fun j hj => Or.inl (h.alive j hj), fun i hi => absurd hi (hk i), fun j => Or.inl (h.launches j)⟩

theorem spawnProc_sq (s : Sys) (n : Name) : SQ s (spawnProc s n) := by
  have hins : (spawnProc s n).insts = s.insts ++ [{ name := n, seq := (s.insts.filter (·.name = n)).length + 1 }] := by
    unfold spawnProc newInst
    simp [Sys.spawn]
  have hthr : (spawnProc s n).threads = s.threads ++ [{ kind := .proc s.insts.length }] := by
    unfold spawnProc newInst
    simp only [Sys.spawn]
    have e : ∀ (st : Status) (s0 : Sys) (j : IId), (setState s0 j st).threads = s0.threads := by
      intro st s0 j; unfold setState; cases st <;> rfl
    simp [e]
  constructor
  · intro j hj
    unfold Sys.inst at hj ⊢
    rw [hins] at hj
    simp only [List.getD_eq_getElem?_getD] at hj ⊢
    by_cases hl : j < s.insts.length
    · rw [List.getElem?_append_left hl] at hj; exact hj
    · rw [List.getElem?_append_right (Nat.le_of_not_lt hl)] at hj
      cases hjj : j - s.insts.length with
      | zero => rw [hjj] at hj; simp at hj
      | succ k => rw [hjj] at hj; simp at hj
  · intro g
    unfold PR procIds at g ⊢
    rw [hthr, hins, List.filterMap_append, g]
    simp [Kind.procId, List.range_succ]
  · intro j
    unfold Sys.inst
    rw [hins]
    simp only [List.getD_eq_getElem?_getD]
    by_cases hl : j < s.insts.length
    · rw [List.getElem?_append_left hl]
    · rw [List.getElem?_append_right (Nat.le_of_not_lt hl), List.getElem?_eq_none (Nat.le_of_not_lt hl)]
      cases hjj : j - s.insts.length with
      | zero => simp
      | succ k => simp

theorem foldl_sq {α : Type} (f : Sys → α → Sys) (hf : ∀ s a, SQ s (f s a)) (l : List α) (s : Sys) : SQ s (l.foldl f s) := by
  induction l generalizing s with
  | nil => exact (QC.refl _).sq
  | cons a l ih => exact (hf s a).trans (ih _)

theorem apiSpawn_sq (s : Sys) (t n) : SQ s (apiSpawn s t n) := by
  unfold apiSpawn
  simp only
  split
  · exact (spawnProc_sq _ _).trans ((emit_c _ _).then (setPc_c _ _ _)).sq
  all_goals exact (spawnProc_sq _ _).trans (setPc_c _ _ _).sq

theorem armSpawnOrLock_sq (s : Sys) (t n) : SQ s (armSpawnOrLock s t n) := by
  unfold armSpawnOrLock; split
  · split
    · exact apiSpawn_sq _ _ _
    · exact (setPc_c _ _ _).sq
  · exact (apiRet_c _ _ _).sq

theorem apiFirst_sq (s : Sys) (t h op) : SQ s (apiFirst s t h op) := by
  by_cases hop : op = .runMain
  · subst hop
    unfold apiFirst
    simp only
    refine SQ.trans ?_ (setPc_c _ _ _).sq
    refine SQ.trans ?_ (foldl_sq _ spawnProc_sq _ _)
    exact ⟨fun j hj => hj, fun g => g, fun _ => rfl⟩
  · exact (apiFirst_c _ _ _ _ hop).sq

/-! ### the invariant -/

theorem filterMap_nodup_inj {α β : Type} (g : α → Option β) :
    ∀ (l : List α), (l.filterMap g).Nodup → ∀ (u w : Nat) (hu : u < l.length) (hw : w < l.length) (b : β),
      g l[u] = some b → g l[w] = some b → u = w
  | [], _, u, _, hu, _, _, _, _ => absurd hu (Nat.not_lt_zero u)
  | a :: l, hn, u, w, hu, hw, b, e1, e2 => by
    have tailN : (l.filterMap g).Nodup := by
      cases hga : g a with
      | none => simpa [List.filterMap_cons, hga] using hn
      | some x =>
        have : (x :: l.filterMap g).Nodup := by simpa [List.filterMap_cons, hga] using hn
        exact (List.nodup_cons.mp this).2
    have headOut : ∀ (k : Nat) (hk : k < l.length), g a = some b → g l[k] = some b → False := by
      intro k hk ha hb
      have : (b :: l.filterMap g).Nodup := by simpa [List.filterMap_cons, ha] using hn
      exact (List.nodup_cons.mp this).1 (List.mem_filterMap.mpr ⟨l[k], List.getElem_mem hk, hb⟩)
    cases u with
    | zero =>
      cases w with
      | zero => rfl
      | succ w => exact (headOut w (by simpa using hw) (by simpa using e1) (by simpa using e2)).elim
    | succ u =>
      cases w with
      | zero => exact (headOut u (by simpa using hu) (by simpa using e2) (by simpa using e1)).elim
      | succ w =>
        have := filterMap_nodup_inj g l tailN u w (by simpa using hu) (by simpa using hw) b (by simpa using e1) (by simpa using e2)
        rw [this]

theorem thr_lt_eq (s : Sys) (u : Tid) (hu : u < s.threads.length) : s.thr u = s.threads[u] := by
  unfold Sys.thr; simp [List.getD_eq_getElem?_getD, List.getElem?_eq_getElem hu]

theorem pr_valid {s : Sys} (g : PR s) (u : Tid) (i : IId) (hu : u < s.threads.length) (hk : (s.thr u).kind = .proc i) :
    i < s.insts.length := by
  have hm : i ∈ procIds s := by
    unfold procIds
    refine List.mem_filterMap.mpr ⟨s.threads[u], List.getElem_mem hu, ?_⟩
    rw [← thr_lt_eq s u hu, hk]; rfl
  rw [g] at hm
  exact List.mem_range.mp hm

theorem pr_uniq {s : Sys} (g : PR s) (u w : Tid) (i : IId) (hu : u < s.threads.length) (hw : w < s.threads.length)
    (hku : (s.thr u).kind = .proc i) (hkw : (s.thr w).kind = .proc i) : u = w := by
  have hn : (s.threads.filterMap fun th => th.kind.procId).Nodup := by
    have := g; unfold PR procIds at this; rw [this]; exact List.nodup_range
  refine filterMap_nodup_inj _ s.threads hn u w hu hw i ?_ ?_
  · rw [← thr_lt_eq s u hu, hku]; rfl
  · rw [← thr_lt_eq s w hw, hkw]; rfl

/-- **The invariant behind "at most one live command per replica"**: the process goroutines are one
    per instance; a live command has its goroutine waiting for it; a goroutine that has not finished
    is the registered instance of its name. -/
structure One (s : Sys) : Prop where
  pr : PR s
  alive : ∀ i, (s.inst i).cmd = .alive → ∃ u, u < s.threads.length ∧ (s.thr u).kind = .proc i ∧ (s.thr u).pc = .cmdWait
  reg : ∀ u i, u < s.threads.length → (s.thr u).kind = .proc i → (s.thr u).pc ≠ .finished →
    s.running.getD (s.nameOf i) none = some i

/-- **No registration is overwritten**: a registered instance stays registered unless its own
    goroutine unregisters it, and every process goroutine a step creates is registered by it. This is
    what `runProcess` relies on and what the known finding R1 (restart / concurrent start of a process
    whose previous instance has not finished) breaks. -/
def KeepsRegs (s s' : Sys) (t : Tid) : Prop :=
  (∀ n i, s.running.getD n none = some i →
    s'.running.getD n none = some i ∨ (s'.running.getD n none = none ∧ (s.thr t).kind = .proc i)) ∧
  (∀ u j, s.threads.length ≤ u → u < s'.threads.length → (s'.thr u).kind = .proc j →
    s'.running.getD (s'.nameOf j) none = some j)

theorem nameOf_le {t : Tid} {s s' : Sys} (le : SysLe t s s') (i : IId) (hi : i < s.insts.length) : s'.nameOf i = s.nameOf i := by
  unfold Sys.nameOf; exact ((le.old i hi).name).symm

theorem one_step (s s' : Sys) (t : Tid) (ht : t < s.threads.length) (g : One s) (le : SysLe t s s')
    (f : StepFacts s s' t) (k : KeepsRegs s s' t)
    (hf : (s.thr t).pc = .finished → (s'.thr t).pc = .finished)
    (hw : ∀ i, (s.thr t).kind = .proc i → (s.thr t).pc = .cmdWait → (s.inst i).cmd = .alive → s' = s) : One s' := by
  have hkind : (s'.thr t).kind = (s.thr t).kind := by
    rcases le.tkind with e | e
    · exact e
    · exact absurd ht (Nat.not_lt.mpr e)
  by_cases hsame : ∃ i, (s.thr t).kind = .proc i ∧ (s.thr t).pc = .cmdWait ∧ (s.inst i).cmd = .alive
  · obtain ⟨i, h1, h2, h3⟩ := hsame
    rw [hw i h1 h2 h3]; exact g
  refine ⟨f.pr g.pr, fun i hi => ?_, fun u i hu hk hp => ?_⟩
  · rcases f.alive i hi with h0 | ⟨hk, hp⟩
    · obtain ⟨u, hu, hku, hpu⟩ := g.alive i h0
      by_cases hut : u = t
      · subst hut
        exact absurd ⟨i, hku, hpu, h0⟩ hsame
      · exact ⟨u, Nat.lt_of_lt_of_le hu le.tlen, by rw [le.tframe u hu hut]; exact hku, by rw [le.tframe u hu hut]; exact hpu⟩
    · exact ⟨t, Nat.lt_of_lt_of_le ht le.tlen, by rw [hkind]; exact hk, hp ht⟩
  · by_cases hnew : s.threads.length ≤ u
    · exact k.2 u i hnew hu hk
    · have hul : u < s.threads.length := Nat.lt_of_not_le hnew
      by_cases hut : u = t
      · subst hut
        rw [hkind] at hk
        have hi := pr_valid g.pr u i hul hk
        have hpf : (s.thr u).pc ≠ .finished := fun e => hp (hf e)
        have hr := g.reg u i hul hk hpf
        rw [nameOf_le le i hi]
        rcases k.1 _ _ hr with e | ⟨e, _⟩
        · exact e
        · have hne : s'.running ≠ s.running := by
            intro er; rw [er, hr] at e; cases e
          exact absurd (f.fin i hk hne hul) hp
      · rw [le.tframe u hul hut] at hk hp
        have hi := pr_valid g.pr u i hul hk
        have hr := g.reg u i hul hk hp
        rw [nameOf_le le i hi]
        rcases k.1 _ _ hr with e | ⟨_, e⟩
        · exact e
        · exact absurd (pr_uniq g.pr u t i hul ht hk e) hut

theorem stepThread_finished (s : Sys) (t : Tid) (h : Hints) (hp : (s.thr t).pc = .finished) : stepThread s t h = s := by
  unfold stepThread
  simp only [hp]
  cases (s.thr t).kind <;> simp [stepProc, stepApi, stepStopper, stepWaiter, stepDepwaiter]

theorem stepThread_waiting (s : Sys) (t : Tid) (h : Hints) (i : IId) (hk : (s.thr t).kind = .proc i)
    (hp : (s.thr t).pc = .cmdWait) (hc : (s.inst i).cmd = .alive) : stepThread s t h = s := by
  rw [stepThread_proc s t h i hk (by rw [hp]; rfl), hp]
  simp [stepProc, armCmdWait, hc]

/-- what each thread step guarantees (`StepFacts`), by the kind of step -/
theorem stepThread_facts (s : Sys) (t : Tid) (h : Hints) : StepFacts s (stepThread s t h) t := by
  cases hq : special s t with
  | false => exact (stepThread_c s t h hq).facts t
  | true =>
    unfold special at hq
    cases hk : (s.thr t).kind with
    | proc i =>
      rw [hk] at hq
      simp only at hq
      have hsd : (s.thr t).pc.isStopSd = false := by
        cases hs : (s.thr t).pc.isStopSd with
        | false => rfl
        | true => rw [stopSd_not_specialProc _ hs] at hq; cases hq
      rw [stepThread_proc s t h i hk hsd]
      cases hpc : (s.thr t).pc <;> rw [hpc] at hq <;> simp [Pc.isSpecialProc] at hq
      · simp only [stepProc]; exact armRunChecked_facts s t i hk hpc
      · simp only [stepProc]; exact doLaunch_facts s t i hk hpc
      · simp only [stepProc]; exact armLockCleanup_facts s t i
    | api id op =>
      rw [hk] at hq
      simp only at hq
      have hnp : ∀ i, (s.thr t).kind ≠ .proc i := by intro i e; rw [hk] at e; cases e
      refine SQ.facts t ?_ hnp
      unfold stepThread
      simp only [hk]
      cases hpc : (s.thr t).pc <;> rw [hpc] at hq <;> simp [specialApi] at hq <;> simp only [stepApi]
      · unfold armApiBegin; subst hq; simp only
        split
        · exact apiFirst_sq _ _ _ _
        · exact (setPc_c _ _ _).sq
      · exact apiFirst_sq _ _ _ _
      · exact armSpawnOrLock_sq _ _ _
      · exact armSpawnOrLock_sq _ _ _
      · exact apiSpawn_sq _ _ _
    | waiter i => rw [hk] at hq; cases hq
    | stopper i => rw [hk] at hq; cases hq
    | depwaiter o i => rw [hk] at hq; cases hq
    | probe id n => rw [hk] at hq; cases hq
    | pstart i => rw [hk] at hq; cases hq

/-- **A thread step that overwrites no registration keeps the invariant.** -/
theorem stepThread_one (s : Sys) (t : Tid) (h : Hints) (ht : t < s.threads.length) (g : One s)
    (k : KeepsRegs s (stepThread s t h) t) : One (stepThread s t h) :=
  one_step s _ t ht g (stepThread_le s t h) (stepThread_facts s t h) k
    (fun hp => by rw [stepThread_finished s t h hp]; exact hp)
    (fun i hk hp hc => stepThread_waiting s t h i hk hp hc)

/-! ### external events, reachability, the theorem -/

/-- an external event (exit, output line, probe result, timeout, arriving request) is quiet -/
theorem ext_qc (s : Sys) (c : Choice) (h : Hints) (hc : ∀ t, c ≠ .run t) : QC s (step s c h) := by
  unfold step
  simp only
  cases c with
  | run t => exact absurd rfl (hc t)
  | exit n code =>
    simp only
    split
    · cupd (cmdExit_c _ _ _)
    · done_c
  | line n ready =>
    simp only
    split
    · split
      · cpeel (emit_c _ _)
        cpeel (setInst_c _ _ _)
        cupd (setPs_c _ _ _)
      · done_c
    · done_c
  | probe n ok =>
    simp only
    split
    · split
      · done_c
      · split
        · cpeel (setInst_c _ _ _)
          cupd (setPs_c _ _ _)
        · cupd (setPs_c _ _ _)
    · done_c
  | probeFatal id n =>
    simp only
    split
    · cupd (spawn_c _ _ (by intro i h; cases h))
    · done_c
  | killTimeout n =>
    simp only
    split
    · cupd (setInst_c _ _ _)
    · done_c
  | call id op => cupd (spawn_c _ _ (by intro i h; cases h))

theorem ext_one (s : Sys) (c : Choice) (h : Hints) (hc : ∀ t, c ≠ .run t) (g : One s) : One (step s c h) := by
  have q := ext_qc s c h hc
  have le := step_le s c h
  have htid : Choice.tid s c = s.threads.length := by
    cases c with
    | run t => exact absurd rfl (hc t)
    | _ => rfl
  rw [htid] at le
  have hold : ∀ u, u < s.threads.length → (step s c h).thr u = s.thr u :=
    fun u hu => le.tframe u hu (Nat.ne_of_lt hu)
  refine ⟨(q.facts 0).pr g.pr, fun i hi => ?_, fun u i hu hk hp => ?_⟩
  · obtain ⟨u, hu, hku, hpu⟩ := g.alive i (q.alive i hi)
    exact ⟨u, Nat.lt_of_lt_of_le hu le.tlen, by rw [hold u hu]; exact hku, by rw [hold u hu]; exact hpu⟩
  · by_cases hul : u < s.threads.length
    · rw [hold u hul] at hk hp
      have hi := pr_valid g.pr u i hul hk
      rw [nameOf_le le i hi, q.running]
      exact g.reg u i hul hk hp
    · exact absurd hk (ext_new_not_proc s c h hc u (Nat.le_of_not_lt hul) hu i)

theorem one_congr {s s' : Sys} (g : One s) (ht : s'.threads = s.threads) (hi : s'.insts = s.insts) (hr : s'.running = s.running) :
    One s' := by
  have e1 : ∀ u, s'.thr u = s.thr u := fun u => by unfold Sys.thr; rw [ht]
  have e2 : ∀ j, s'.inst j = s.inst j := fun j => by unfold Sys.inst; rw [hi]
  have e3 : ∀ j, s'.nameOf j = s.nameOf j := fun j => by unfold Sys.nameOf; rw [e2]
  refine ⟨by have := g.pr; unfold PR procIds at this ⊢; rw [ht, hi]; exact this, fun i h => ?_, fun u i hu hk hp => ?_⟩
  · rw [e2] at h
    obtain ⟨u, hu, a, b⟩ := g.alive i h
    exact ⟨u, by rw [ht]; exact hu, by rw [e1]; exact a, by rw [e1]; exact b⟩
  · rw [e1] at hk hp; rw [ht] at hu; rw [e3, hr]; exact g.reg u i hu hk hp

/-- reachability by single thread steps that overwrite no registration, external events, and the
    clearing of the observation list between steps -/
inductive ReachG (s0 : Sys) : Sys → Prop
  | init : ReachG s0 s0
  | thread {s : Sys} (t : Tid) (h : Hints) : ReachG s0 s → t < s.threads.length →
      (enabledThr s t = true ∨ mustPark s t = false) →
      KeepsRegs s (stepThread s t h) t → ReachG s0 (stepThread s t h)
  | ext {s : Sys} (c : Choice) (h : Hints) : ReachG s0 s → (∀ t, c ≠ .run t) → ReachG s0 (step s c h)
  | clear {s : Sys} : ReachG s0 s → ReachG s0 { s with obs := [] }

theorem reachG_one (gr : Gran) (o : Bool) (cfgs : List Cfg) {s : Sys} (h : ReachG (init gr o cfgs) s) : One s := by
  induction h with
  | init =>
    refine ⟨by simp [PR, procIds, init], fun i hi => ?_, fun u i hu _ _ => by simp [init] at hu⟩
    have : ((init gr o cfgs).inst i).cmd = .none := by unfold Sys.inst; simp [init]
    rw [this] at hi; cases hi
  | thread t hh _ ht _ hk ih => exact stepThread_one _ t hh ht ih hk
  | ext c hh _ hc ih => exact ext_one _ c hh hc ih
  | clear _ ih => exact one_congr ih rfl rfl rfl

/-- such an execution is in particular one the model passes through -/
theorem ReachG.toF {s0 s : Sys} (h : ReachG s0 s) : ReachF s0 s := by
  induction h with
  | init => exact ReachF.init
  | thread t hh _ ht hen _ ih => exact ReachF.thread t hh ih ht hen
  | ext c hh _ hc ih => exact ReachF.ext c hh ih hc
  | clear _ ih => exact ReachF.clear ih

theorem filter_length_le_one {α : Type} (p : α → Bool) :
    ∀ (l : List α), (∀ (i j : Nat) (hi : i < l.length) (hj : j < l.length), p l[i] = true → p l[j] = true → i = j) →
      (l.filter p).length ≤ 1
  | [], _ => by simp
  | a :: l, h => by
    have ih := filter_length_le_one p l (fun i j hi hj pi pj => by
      have := h (i + 1) (j + 1) (by simpa using hi) (by simpa using hj) (by simpa using pi) (by simpa using pj)
      omega)
    cases hpa : p a with
    | false => simpa [List.filter_cons, hpa] using ih
    | true =>
      have : l.filter p = [] := by
        apply List.filter_eq_nil_iff.mpr
        intro x hx hpx
        obtain ⟨k, hk, e⟩ := List.getElem_of_mem hx
        have := h 0 (k + 1) (by simp) (by simpa using hk) (by simpa using hpa) (by simp [e]; exact hpx)
        omega
      simp [List.filter_cons, hpa, this]

/-- two live commands of one name are the same instance -/
theorem one_alive_unique {s : Sys} (g : One s) (i j : IId) (hi : (s.inst i).cmd = .alive) (hj : (s.inst j).cmd = .alive)
    (hn : s.nameOf i = s.nameOf j) : i = j := by
  obtain ⟨u, hu, hku, hpu⟩ := g.alive i hi
  obtain ⟨w, hw, hkw, hpw⟩ := g.alive j hj
  have r1 := g.reg u i hu hku (by rw [hpu]; intro e; cases e)
  have r2 := g.reg w j hw hkw (by rw [hpw]; intro e; cases e)
  rw [hn, r2] at r1
  exact (Option.some.inj r1).symm

/-! ### the guard can fail only where an instance is registered -/

theorem qc_keeps {s s' : Sys} (t : Tid) (q : QC s s') : KeepsRegs s s' t :=
  ⟨fun n i h => Or.inl (by rw [q.running]; exact h), fun u j h1 h2 hk => absurd hk (q.newNP u h1 h2 j)⟩

theorem lq_keeps {s s' : Sys} (t : Tid) {i : IId} (q : LQ i s s') : KeepsRegs s s' t :=
  ⟨fun n i h => Or.inl (by rw [q.running]; exact h), fun u j h1 h2 hk => absurd hk (q.newNP u h1 h2 j)⟩

theorem doLaunch_keeps (s : Sys) (t : Tid) (i : IId) : KeepsRegs s (doLaunch s t i) t := by
  rcases doLaunch_cases s t i with q | ⟨q, _⟩
  · exact qc_keeps t q
  · exact lq_keeps t q

theorem armRunChecked_keeps (s : Sys) (t : Tid) (i : IId) : KeepsRegs s (armRunChecked s t i) t := by
  unfold armRunChecked
  split
  · exact qc_keeps t (((setExit_c _ _ _).then (onProcessEnd_c _ _ _)).then (setPc_c _ _ _))
  · have h0 : QC s ((s.setInst i fun x => { x with started := true }).emit (.started (s.nameOf i))) :=
      (setInst_c _ _ _).then (emit_c _ _)
    rcases doLaunch_cases ((s.setInst i fun x => { x with started := true }).emit (.started (s.nameOf i))) t i with q | ⟨q, _⟩
    · exact qc_keeps t (h0.then q)
    · exact lq_keeps t (LQ.after h0 q)

/-- the unregistration removes the goroutine's own registration only -/
theorem armLockCleanup_keeps (s : Sys) (t : Tid) (i : IId) (hk : (s.thr t).kind = .proc i) :
    KeepsRegs s (armLockCleanup s t i) t := by
  have hlen : (armLockCleanup s t i).threads.length = s.threads.length := by
    unfold armLockCleanup; split <;> simp [Sys.setPc]
  refine ⟨fun n j hn => ?_, fun u j h1 h2 _ => absurd h2 (by rw [hlen]; exact Nat.not_lt.mpr h1)⟩
  unfold armLockCleanup
  split
  · rename_i hr
    by_cases e : n = s.nameOf i
    · subst e
      rw [hr] at hn
      have hji : i = j := Option.some.inj hn
      subst hji
      right
      refine ⟨?_, hk⟩
      show (s.running.set (s.nameOf i) none).getD (s.nameOf i) none = none
      by_cases hl : s.nameOf i < s.running.length <;> simp [List.getD_eq_getElem?_getD, List.getElem?_set, hl]
    · left
      show (s.running.set (s.nameOf i) none).getD n none = some j
      simp only [List.getD_eq_getElem?_getD, List.getElem?_set, Ne.symm e, ↓reduceIte]
      simpa [List.getD_eq_getElem?_getD] using hn
  · exact Or.inl hn

/-- **The guard can fail only at the point where a start / restart / `Run()` request registers
    instances**: every other thread step - every step of a process goroutine, of a stop or shutdown
    in progress, of a probe callback - keeps the registrations. -/
theorem guard_fails_only_when_registering (s : Sys) (t : Tid) (h : Hints)
    (hf : ¬ KeepsRegs s (stepThread s t h) t) :
    ∃ id op, (s.thr t).kind = .api id op ∧ specialApi op (s.thr t).pc = true := by
  cases hq : special s t with
  | false => exact absurd (qc_keeps t (stepThread_c s t h hq)) hf
  | true =>
    unfold special at hq
    cases hk : (s.thr t).kind with
    | proc i =>
      exfalso
      rw [hk] at hq
      simp only at hq
      have hsd : (s.thr t).pc.isStopSd = false := by
        cases hs : (s.thr t).pc.isStopSd with
        | false => rfl
        | true => rw [stopSd_not_specialProc _ hs] at hq; cases hq
      rw [stepThread_proc s t h i hk hsd] at hf
      generalize (s.thr t).pc = pc at hq hf
      cases pc <;> simp [Pc.isSpecialProc] at hq
      · simp only [stepProc] at hf; exact hf (armRunChecked_keeps s t i)
      · simp only [stepProc] at hf; exact hf (doLaunch_keeps s t i)
      · simp only [stepProc] at hf; exact hf (armLockCleanup_keeps s t i hk)
    | api id op => rw [hk] at hq; exact ⟨id, op, rfl, hq⟩
    | waiter i => rw [hk] at hq; cases hq
    | stopper i => rw [hk] at hq; cases hq
    | depwaiter o i => rw [hk] at hq; cases hq
    | probe id n => rw [hk] at hq; cases hq
    | pstart i => rw [hk] at hq; cases hq

end PC.Sup
